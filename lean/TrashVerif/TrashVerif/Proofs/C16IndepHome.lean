/-
  Proofs/C16IndepHome.lean — the "home trash, plain paths" case of `trashSingle`, computed in closed
  form, and the independence of two such arguments at the level of `runPut`
  (proofs for Props/C16Indep.lean, part 4).
-/
import TrashVerif.Proofs.C07
import TrashVerif.Proofs.C16IndepCore
import TrashVerif.Proofs.C16Indep
namespace TrashVerif.Proofs.C16IndepHome
open TrashVerif Prog FS PutCore PutLemmas
open TrashVerif.Proofs.C07 (Plain GoodNames body toStr_ne toStr_snoc body_append body_last comps_toStr_cons
  walk_skip isAbs_toStr dirname_toStr normpath_toStr exists_snoc volumeOf_is_device_root)
open TrashVerif.Proofs.C17 (isDirAt_iff)
open TrashVerif.Proofs.C01 (basename_after rstrip_gen)
open TrashVerif.Proofs.C16Indep (run_noFaults_fs)

/-! ### path functions on plain canonical strings -/

theorem walk_nil (fs : FS) (fl : Bool) (fuel : Nat) (cur : CPath) : walk fs fl fuel cur [] = .ok cur := by
  rw [walk]

/-- a plain directory chain, then one last component of any kind (not followed) -/
theorem walk_plain_leaf (fs : FS) (fuel : Nat) (n : Name) (rest : CPath) :
    ∀ cur, Plain fs (cur ++ rest) → GoodNames (rest ++ [n]) →
      walk fs false fuel cur (rest ++ [n]) = .ok (cur ++ rest ++ [n]) := by
  induction rest with
  | nil =>
    intro cur hp hn
    obtain ⟨h1, _, h3, h4, h5⟩ := hn n (by simp)
    obtain ⟨m, t, hcur⟩ := isDirAt_iff.1 (hp cur (by simp))
    rw [List.nil_append, walk, hcur]
    simp only
    rw [if_neg (by simp [h1, h3]), if_neg h4, if_neg (by unfold nameMax; omega)]
    simp only [List.append_nil]
    rcases hg : fs.get (cur ++ [n]) with _ | (_ | _ | _)
    · simp
    · simp [walk_nil]
    · simp [walk_nil]
    · simp
  | cons c rest ih =>
    intro cur hp hn
    obtain ⟨h1, _, h3, h4, h5⟩ := hn c (by simp)
    obtain ⟨m, t, hcur⟩ := isDirAt_iff.1 (hp cur (List.prefix_append _ _))
    have e : cur ++ c :: rest = (cur ++ [c]) ++ rest := by simp
    obtain ⟨m', t', hc⟩ := isDirAt_iff.1 (hp (cur ++ [c]) (by rw [e]; exact List.prefix_append _ _))
    rw [List.cons_append, walk, hcur]
    simp only
    rw [if_neg (by simp [h1, h3]), if_neg h4, if_neg (by unfold nameMax; omega)]
    simp only [hc]
    rw [ih (cur ++ [c]) (by rw [← e]; exact hp) (fun x hx => hn x (by simp at hx ⊢; exact Or.inr hx)), e]

theorem resolve_leaf (fs : FS) (cwd P : CPath) (n : Name) (hp : Plain fs P) (hn : GoodNames (P ++ [n])) :
    resolve fs cwd (toStr (P ++ [n])) = .ok (P ++ [n]) := by
  obtain ⟨m, t, hroot⟩ := isDirAt_iff.1 (hp [] List.nil_prefix)
  obtain ⟨n0, rest0, e0⟩ : ∃ n0 rest0, P ++ [n] = n0 :: rest0 := by
    cases P with
    | nil => exact ⟨n, [], rfl⟩
    | cons x xs => exact ⟨x, xs ++ [n], rfl⟩
  have hc := comps_toStr_cons n0 rest0 (e0 ▸ hn)
  obtain ⟨w, x, hw, hx⟩ := body_last (q := n0 :: rest0) (by simp) (e0 ▸ hn)
  have hs : toStr (n0 :: rest0) = w ++ [x] := by rw [toStr_ne (by simp), hw]
  have h1 : walk fs false linkFuel [] ([] :: n0 :: rest0) = .ok (n0 :: rest0) := by
    rw [walk_skip _ _ _ _ _ hroot, ← e0]
    have := walk_plain_leaf fs linkFuel n P [] (by simpa using hp) hn
    simpa using this
  rw [e0]
  unfold resolve
  rw [if_neg (by rw [hs]; simp), isAbs_toStr, hc]
  have htr : ¬ ((toStr (n0 :: rest0)).getLast? = some slash ∧ ¬ ((toStr (n0 :: rest0)).all (· = slash)) = true) := by
    rw [hs]; simp [hx]
  simp only [htr, decide_false, Bool.or_false, if_true, h1, if_false]

theorem real_nil (fs : FS) (fuel : Nat) (cur : CPath) : realpathAux fs fuel cur [] = some cur := by
  rw [realpathAux]

theorem realpathAux_plain (fs : FS) (fuel : Nat) (rest : CPath) :
    ∀ cur, Plain fs (cur ++ rest) → GoodNames rest → realpathAux fs fuel cur rest = some (cur ++ rest) := by
  induction rest with
  | nil => intro cur _ _; rw [real_nil]; simp
  | cons c rest ih =>
    intro cur hp hn
    obtain ⟨h1, _, h3, h4, h5⟩ := hn c List.mem_cons_self
    have hcur : fs.isDirAt cur = true := hp cur (List.prefix_append _ _)
    have e : cur ++ c :: rest = (cur ++ [c]) ++ rest := by simp
    obtain ⟨m', t', hc⟩ := isDirAt_iff.1 (hp (cur ++ [c]) (by rw [e]; exact List.prefix_append _ _))
    rw [realpathAux, if_neg (by simp [h1, h3]), if_neg h4]
    simp only
    rw [if_pos ⟨hcur, by unfold nameMax; omega⟩, hc]
    simp only
    rw [ih (cur ++ [c]) (by rw [← e]; exact hp) hn.tail, e]

theorem realpath_plain (fs : FS) (cwd Q : CPath) (hp : Plain fs Q) (hn : GoodNames Q) :
    realpath fs cwd (toStr Q) = some Q := by
  unfold realpath
  rw [isAbs_toStr]
  cases Q with
  | nil =>
    have hc : comps (toStr []) = [[], []] := by decide
    rw [hc, realpathAux, if_pos (Or.inl rfl), realpathAux, if_pos (Or.inl rfl), real_nil]
    rfl
  | cons n rest =>
    rw [comps_toStr_cons n rest hn, realpathAux, if_pos (Or.inl rfl)]
    have := realpathAux_plain fs linkFuel (n :: rest) [] (by simpa using hp) hn
    simpa using this

theorem realpathStr_plain (fs : FS) (cwd Q : CPath) (hp : Plain fs Q) (hn : GoodNames Q) :
    realpathStr fs cwd (toStr Q) = toStr Q := by
  unfold realpathStr; rw [realpath_plain fs cwd Q hp hn]

theorem dirC_plain (fs : FS) (cwd Q : CPath) (hp : Plain fs Q) (hn : GoodNames Q) :
    dirC fs cwd (toStr Q) = Q := by
  unfold dirC; rw [realpath_plain fs cwd Q hp hn]; rfl

/-! ### strings -/

theorem rstripSlash_toStr {D : CPath} (h0 : D ≠ []) (hn : GoodNames D) : rstripSlash (toStr D) = toStr D := by
  obtain ⟨w, x, hw, hx⟩ := body_last h0 hn
  rw [toStr_ne h0, hw]
  have := rstrip_gen w x 0 hx
  simpa using this

theorem basename_toStr (P : CPath) (n : Name) (hn : GoodNames (P ++ [n])) : basename (toStr (P ++ [n])) = n := by
  obtain ⟨_, hns, _⟩ := hn n (by simp)
  rw [toStr_snoc]; exact basename_after (Or.inr ⟨_, rfl⟩) hns

theorem toStr_ne_nil (D : CPath) : toStr D ≠ [] := by
  unfold toStr; split
  · simp
  · next h =>
    obtain ⟨x, xs, rfl⟩ := List.exists_cons_of_ne_nil h
    simp

theorem pjoin_toStr {T : CPath} (h0 : T ≠ []) (hn : GoodNames T) (name : Bytes) (hh : name.head? ≠ some slash) :
    pjoin (toStr T) name = toStr (T ++ [name]) := by
  obtain ⟨w, x, hw, hx⟩ := body_last h0 hn
  rw [toStr_snoc, toStr_ne h0, hw, C02.pjoin_plain w x name hx hh]

theorem pjoin_root (name : Bytes) (hh : name.head? ≠ some slash) : pjoin (toStr []) name = toStr [name] := by
  have h1 : Bytes.startsWith name [slash] = false := by
    cases name with
    | nil => rfl
    | cons y ys =>
      have : y ≠ slash := fun e => hh (by rw [e]; rfl)
      simp [Bytes.startsWith, List.isPrefixOf, Ne.symm this]
  unfold pjoin
  rw [h1]
  simp [toStr, Bytes.endsWith]


/-! ### `mkdir_p` of a directory that is already there -/

theorem mkdir_exists {fs : FS} {p : CPath} (mode : Nat) (h : fs.exists_ p = true) : ∃ e, fs.mkdir p mode = .error e := by
  unfold FS.mkdir
  cases checkParent fs p with
  | error e => exact ⟨e, rfl⟩
  | ok u => exact ⟨.EEXIST, by simp [Bind.bind, Except.bind, h]⟩

theorem isDirAt_isdirC {fs : FS} {p : CPath} (h : fs.isDirAt p = true) : isdirC fs p = true := by
  obtain ⟨m, t, hg⟩ := isDirAt_iff.1 h
  simp [isdirC, statC, followC, hg, Node.isDir]

theorem isDirAt_existsC {fs : FS} {p : CPath} (h : fs.isDirAt p = true) : existsC fs p = true := by
  obtain ⟨m, t, hg⟩ := isDirAt_iff.1 h
  simp [existsC, statC, followC, hg]

theorem mkdirP_noop (s : RunState) (p : CPath) (mode : Nat) (hd : s.fs.isDirAt p = true)
    (hpar : p.dropLast = [] ∨ s.fs.isDirAt p.dropLast = true) :
    ∃ s', run noFaults (mkdirP p mode) s = (.ok (), s') ∧ s'.fs = s.fs := by
  have hex : s.fs.exists_ p = true := by
    obtain ⟨m, t, hg⟩ := isDirAt_iff.1 hd
    simp [exists_, hg]
  obtain ⟨e, he⟩ := mkdir_exists mode hex
  have hmk : run noFaults (makedirs p.length p mode) s =
      (.error e, { s with hist := s.fs :: s.hist, trace := (.mkdir p mode, .error e) :: s.trace, n := s.n + 1 }) := by
    have hsys := run_sys_err (c := .mkdir p mode) (s := s) (e := e) he
    cases hl : p.length with
    | zero => rw [makedirs]; exact hsys
    | succ k =>
      rw [makedirs, run_read_bind]
      have hc : ¬ (p ≠ [] ∧ p.dropLast ≠ [] ∧ ¬ existsC s.fs p.dropLast = true) := by
        rintro ⟨_, h2, h3⟩
        rcases hpar with h | h
        · exact h2 h
        · exact h3 (isDirAt_existsC h)
      rw [if_neg hc]; exact hsys
  refine ⟨{ s with hist := s.fs :: s.hist, trace := (.mkdir p mode, .error e) :: s.trace, n := s.n + 1 }, ?_, rfl⟩
  unfold mkdirP
  rw [run_bind, hmk]
  simp only [run_read_bind]
  rw [if_pos (isDirAt_isdirC hd)]
  rfl

/-- `mkdir_p` on the canonical spelling of a plain directory: no dangling link on the way, and the
    directory is already there -/
theorem mkdirPStr_noop (s : RunState) (cwd Q : CPath) (mode : Nat) (hp : Plain s.fs Q) (hn : GoodNames Q) :
    ∃ s', run noFaults (mkdirPStr cwd (toStr Q) mode) s = (.ok (), s') ∧ s'.fs = s.fs := by
  unfold mkdirPStr
  rw [run_read_bind, C07.danglingOnPath_plain _ _ _ hp hn, dirC_plain _ _ _ hp hn]
  exact mkdirP_noop s Q mode (hp _ List.prefix_rfl) (Or.inr (hp _ (dropLast_pfx _)))

/-! ### the source of the move, decided in the state after the info file was written -/

theorem putCore_srcOf (I F : CPath) (base content : Bytes) (srcOf : FS → Except Errno CPath) (S : CPath)
    (st : PutSt) (s : RunState)
    (h : ∀ name, (run noFaults (persistLoop I F base content persistFuel 0 false st) s).1.1 = .created name →
      srcOf (run noFaults (persistLoop I F base content persistFuel 0 false st) s).2.fs = .ok S) :
    run noFaults (putCore I F base content srcOf st) s =
      run noFaults (putCore I F base content (fun _ => .ok S) st) s := by
  unfold putCore
  rw [run_bind, run_bind]
  generalize run noFaults (persistLoop I F base content persistFuel 0 false st) s = rp at h
  obtain ⟨⟨pr, st1⟩, s1⟩ := rp
  cases pr with
  | outOfFuel => rfl
  | failed e => rfl
  | created name =>
    have := h name rfl
    simp only at this
    simp only [run_read_bind, this]


/-! ### the home world -/

open C16Indep

theorem goodNames_append {p q : CPath} (hp : GoodNames p) (hq : GoodNames q) : GoodNames (p ++ q) := by
  intro n hn
  rcases List.mem_append.1 hn with h | h
  · exact hp n h
  · exact hq n h

theorem goodNames_single {n : Name} (h : n ≠ [] ∧ slash ∉ n ∧ n ≠ [dot] ∧ n ≠ dotdot ∧ n.length ≤ 255) :
    GoodNames [n] := by
  intro m hm
  have : m = n := by simpa using hm
  rw [this]; exact h

theorem good_local : GoodNames [b ".local", b "share", b "Trash"] := by
  intro m hm
  simp only [List.mem_cons, List.not_mem_nil, or_false] at hm
  rcases hm with rfl | rfl | rfl <;> decide +kernel

theorem good_files : GoodNames [b "files"] := goodNames_single (by decide +kernel)
theorem good_info : GoodNames [b "info"] := goodNames_single (by decide +kernel)

theorem body_local : body [b ".local", b "share", b "Trash"] = b "/.local/share/Trash" := by decide +kernel

theorem homeStr_eq {H : CPath} (h0 : H ≠ []) : homeStr H = toStr (trashC H) := by
  unfold homeStr trashC
  rw [toStr_ne h0, toStr_ne (by simp [h0]), body_append, body_local]

theorem trashC_ne (H : CPath) : trashC H ≠ [] := by simp [trashC]

theorem files_ne_info : b "files" ≠ b "info" := by decide +kernel

theorem distinct_IF (H : CPath) : ¬ FS.under (infoC H) (filesC H) = true ∧ ¬ FS.under (filesC H) (infoC H) = true := by
  have key : ∀ x y : Name, x ≠ y → ¬ (trashC H ++ [x]) <+: (trashC H ++ [y]) := by
    intro x y hxy h
    rw [pfx_concat] at h
    rcases h with h | h
    · exact hxy (by simpa using (List.append_inj' h rfl).2)
    · have := h.length_le; simp at this; omega
  constructor
  · rw [under_iff]; exact key _ _ (Ne.symm files_ne_info)
  · rw [under_iff]; exact key _ _ files_ne_info

section world
variable {c : PutCfg} {fs : FS} {H : CPath} (W : HomeWorld c fs H)
include W

theorem W_goodT : GoodNames (trashC H) := goodNames_append W.homeNames good_local
theorem W_goodF : GoodNames (filesC H) := goodNames_append (W_goodT W) good_files
theorem W_goodI : GoodNames (infoC H) := goodNames_append (W_goodT W) good_info
theorem W_plainF : Plain fs (filesC H) := W.filesPlain
theorem W_plainI : Plain fs (infoC H) := W.infoPlain
theorem W_plainT : Plain fs (trashC H) := fun q hq => W.filesPlain q (hq.trans (List.prefix_append _ _))

theorem W_setting {P : CPath} {n : Name} (A : GoodArg fs H P n) : Setting fs (infoC H) (filesC H) (P ++ [n]) :=
  { infoDir := W.infoPlain _ List.prefix_rfl
    filesDir := W.filesPlain _ List.prefix_rfl
    distinct := distinct_IF H
    srcExists := A.present
    srcNotRoot := by simp
    srcNotMount := A.notMount
    sameDev := by
      show dev fs (FS.parent (P ++ [n])) = _
      rw [FS.parent, List.dropLast_concat, A.sameVolume, W.filesSameVolume]
    notAncestor := ⟨by rw [under_iff]; exact A.apartInfo.1, by rw [under_iff]; exact A.apartFiles.1⟩
    notInside := ⟨by rw [under_iff]; exact A.apartInfo.2, by rw [under_iff]; exact A.apartFiles.2⟩ }

end world


/-! ### the source of the move, resolved after the info file was written -/

theorem plain_fsB {fs : FS} {I : CPath} {name content : Bytes} {Q : CPath} (hp : Plain fs Q)
    (hfree : fs.get (I ++ [name]) = none) : Plain (fsB fs (I ++ [name]) content) Q := by
  intro q hq
  have hd := hp q hq
  obtain ⟨m, t, hg⟩ := isDirAt_iff.1 hd
  have h1 : q ≠ I ++ [name] := by intro e; rw [e, hfree] at hg; cases hg
  unfold isDirAt
  rw [fsB_get, if_neg h1]
  by_cases h2 : q = I
  · rw [if_pos h2, ← h2, touch_dir hg]; rfl
  · rw [if_neg h2, hg]; rfl

theorem src_after (fs : FS) (cwd I : CPath) (name content : Bytes) (P : CPath) (n : Name)
    (hp : Plain fs P) (hn : GoodNames (P ++ [n])) (hex : (fs.get (P ++ [n])).isSome = true)
    (hnm : fs.isMount (P ++ [n]) = false) (hfree : fs.get (I ++ [name]) = none) (hDI : P ++ [n] ≠ I) :
    (if pIsmount (fsB fs (I ++ [name]) content) cwd (toStr (P ++ [n])) = true then Except.error Errno.EBUSY
     else resolve (fsB fs (I ++ [name]) content) cwd (toStr (P ++ [n]))) = .ok (P ++ [n]) := by
  have hp' := plain_fsB (content := content) hp hfree
  have hr := resolve_leaf (fsB fs (I ++ [name]) content) cwd P n hp' hn
  have h1 : P ++ [n] ≠ I ++ [name] := by intro e; rw [e, hfree] at hex; cases hex
  have hg : (fsB fs (I ++ [name]) content).get (P ++ [n]) = fs.get (P ++ [n]) := by
    rw [fsB_get, if_neg h1, if_neg hDI]
  have hm : pIsmount (fsB fs (I ++ [name]) content) cwd (toStr (P ++ [n])) = false := by
    unfold pIsmount
    rw [hr]
    simp only [hg]
    obtain ⟨nd, hnd⟩ := Option.isSome_iff_exists.1 hex
    rw [hnd]
    cases nd with
    | link t => rfl
    | file d m t => simp only []; rw [isMount_congr (fsB_mounts _ _ _)]; exact hnm
    | dir m t => simp only []; rw [isMount_congr (fsB_mounts _ _ _)]; exact hnm
  rw [hm]
  simpa using hr

/-! ### the home candidate, evaluated -/

/-- the first candidate of `possible_trash_directories_for` in the home world -/
def homeCand (fs : FS) (c : PutCfg) (H : CPath) : Candidate :=
  { path := homeStr H, volume := volumeOf fs c.cwd (homeStr H), relative := false, topCheck := false,
    gate := .sameVolume }

theorem originalLocation_home (fs : FS) (cwd : CPath) (P : CPath) (n : Name) (cand : Candidate)
    (hr : cand.relative = false) (hp : Plain fs P) (hn : GoodNames (P ++ [n])) :
    originalLocation fs cwd (toStr (P ++ [n])) cand = locOf P n := by
  unfold originalLocation locOf
  simp only [hr, normpath_toStr _ hn, dirname_toStr P n hn, realpathStr_plain fs cwd P hp hn.left,
    basename_toStr P n hn]
  simp

theorem trashFileIn_home {c : PutCfg} {fs : FS} {H P : CPath} {n : Name} (W : HomeWorld c fs H)
    (A : GoodArg fs H P n) (st : PutSt) (s : RunState) (hs : s.fs = fs) :
    (run noFaults (trashFileIn c (toStr (P ++ [n])) (toStr (dev fs P)) (homeCand fs c H) st) s).1 =
      (run noFaults (homeCore c H P n st) { fs := fs }).1 ∧
    (run noFaults (trashFileIn c (toStr (P ++ [n])) (toStr (dev fs P)) (homeCand fs c H) st) s).2.fs =
      (run noFaults (homeCore c H P n st) { fs := fs }).2.fs := by
  subst hs
  have gT := W_goodT W
  have pT := W_plainT W
  have hsec : securityCheck s.fs c.cwd (homeCand s.fs c H) = none := by simp [securityCheck, homeCand]
  have hgate : gateCheck s.fs c (toStr (dev s.fs P)) (homeCand s.fs c H) = none := by
    refine (C07.gate_same_volume s.fs c _ (homeCand s.fs c H) rfl).2 ?_
    show volumeOf s.fs c.cwd (realpathStr s.fs c.cwd (homeStr H)) = _
    rw [homeStr_eq W.homeNotRoot, realpathStr_plain _ _ _ pT gT,
      volumeOf_is_device_root _ _ _ pT gT W.rootMounted, A.sameVolume]
  rw [trashFileIn, run_read_bind]
  simp only [hsec, hgate]
  have gF := W_goodF W
  have gI := W_goodI W
  have hP : (homeCand s.fs c H).path = toStr (trashC H) := homeStr_eq W.homeNotRoot
  have hPF : pjoin (homeCand s.fs c H).path (b "files") = toStr (filesC H) := by
    rw [hP]; exact pjoin_toStr (trashC_ne H) gT _ (by decide +kernel)
  have hPI : pjoin (homeCand s.fs c H).path (b "info") = toStr (infoC H) := by
    rw [hP]; exact pjoin_toStr (trashC_ne H) gT _ (by decide +kernel)
  rw [hPF, hPI, hP, run_bind]
  obtain ⟨s1, h1, e1⟩ := mkdirPStr_noop s c.cwd (trashC H) 0o700 pT gT
  rw [h1]
  simp only []
  rw [run_bind]
  obtain ⟨s2, h2, e2⟩ := mkdirPStr_noop s1 c.cwd (filesC H) 0o700 (by rw [e1]; exact W.filesPlain) gF
  rw [h2]
  simp only []
  rw [run_bind]
  obtain ⟨s3, h3, e3⟩ := mkdirPStr_noop s2 c.cwd (infoC H) 0o700 (by rw [e2, e1]; exact W.infoPlain) gI
  rw [h3]
  simp only []
  rw [run_read_bind, run_read_bind, e3, e2, e1, dirC_plain _ _ _ W.filesPlain gF, dirC_plain _ _ _ W.infoPlain gI,
    originalLocation_home s.fs c.cwd P n (homeCand s.fs c H) rfl A.parentPlain A.names, normpath_toStr _ A.names]
  have hfs3 : s3.fs = s.fs := by rw [e3, e2, e1]
  have hsrc := putCore_srcOf (infoC H) (filesC H) (basename (locOf P n)) (formatTrashinfoWith (locOf P n) c.dateStr)
    (fun fs' => if fs'.pIsmount c.cwd (toStr (P ++ [n])) = true then Except.error Errno.EBUSY
      else fs'.resolve c.cwd (toStr (P ++ [n]))) (P ++ [n]) st s3 (by
      intro name hname
      have ps := persist_spec (infoC H) (filesC H) (basename (locOf P n)) (formatTrashinfoWith (locOf P n) c.dateStr)
        persistFuel 0 false st s3
      rcases ps with ⟨a, _, _⟩ | ⟨nm, a, _, _, hfreeI, _, _, hfs, _⟩
      · exact absurd hname (a name)
      · rw [hname] at a
        cases a
        rw [hfs, hfs3]
        rw [hfs3] at hfreeI
        exact src_after s.fs c.cwd (infoC H) name _ P n A.parentPlain A.names A.present A.notMount hfreeI
          (fun e => A.apartInfo.1 (e ▸ List.prefix_rfl)))
  rw [hsrc]
  exact run_noFaults_fs _ s3 { fs := s.fs } hfs3


theorem candidates_home {c : PutCfg} {fs : FS} {H : CPath} (W : HomeWorld c fs H) (volume : Bytes) :
    ∃ rest, candidatesFor fs c volume = homeCand fs c H :: rest := by
  unfold candidatesFor
  simp only [W.noTrashDir, homeTrashPaths, W.xdgUnset, W.home]
  exact ⟨_, rfl⟩

theorem volume_home {c : PutCfg} {fs : FS} {H P : CPath} {n : Name} (W : HomeWorld c fs H) (A : GoodArg fs H P n) :
    volumeOf fs c.cwd (realpathStr fs c.cwd (dirname
      (if rstripSlash (toStr (P ++ [n])) = [] then toStr (P ++ [n]) else rstripSlash (toStr (P ++ [n]))))) =
      toStr (dev fs P) := by
  have hn : GoodNames (P ++ [n]) := A.names
  rw [rstripSlash_toStr (D := P ++ [n]) (by simp) hn, if_neg (toStr_ne_nil _), dirname_toStr P n hn,
    realpathStr_plain _ _ _ A.parentPlain hn.left,
    volumeOf_is_device_root _ _ _ A.parentPlain hn.left W.rootMounted]

theorem notDot_home {P : CPath} {n : Name} (hn : GoodNames (P ++ [n])) :
    isDotEntry (rstripSlash (toStr (P ++ [n]))) = false := by
  rw [rstripSlash_toStr (by simp) hn]
  unfold isDotEntry
  rw [basename_toStr P n hn]
  obtain ⟨_, _, h3, h4, _⟩ := hn n (by simp)
  simp [h3, h4]

theorem pLexists_home {fs : FS} {H P : CPath} {n : Name} (cwd : CPath) (A : GoodArg fs H P n) :
    pLexists fs cwd (toStr (P ++ [n])) = true := by
  unfold pLexists lstat
  rw [resolve_leaf fs cwd P n A.parentPlain A.names]
  exact A.present

theorem trashSingle_home {c : PutCfg} {fs : FS} {H P : CPath} {n : Name} (W : HomeWorld c fs H)
    (A : GoodArg fs H P n) (st : PutSt) (s : RunState) (hs : s.fs = fs) (name : Bytes)
    (hok : (run noFaults (homeCore c H P n st) { fs := fs }).1.1 = .ok name) :
    (run noFaults (trashSingle c (toStr (P ++ [n])) st) s).1 =
      (.ok (.trashed (homeStr H) name), (run noFaults (homeCore c H P n st) { fs := fs }).1.2) ∧
    (run noFaults (trashSingle c (toStr (P ++ [n])) st) s).2.fs =
      (run noFaults (homeCore c H P n st) { fs := fs }).2.fs := by
  subst hs
  unfold trashSingle
  rw [if_neg (by rw [notDot_home A.names]; simp), run_read_bind,
    if_neg (by rw [pLexists_home c.cwd A]; simp)]
  have hask : ¬ (c.mode = PutMode.interactive ∧ pExists s.fs c.cwd (toStr (P ++ [n])) = true) := fun x => W.noPrompt x.1
  simp only [if_neg hask, W.noForcedVolume]
  rw [volume_home W A]
  obtain ⟨rest, hc⟩ := candidates_home W (toStr (dev s.fs P))
  rw [hc, run_bind, tryCandidates, run_bind]
  obtain ⟨t1, t2⟩ := trashFileIn_home W A st s rfl
  generalize run noFaults (trashFileIn c (toStr (P ++ [n])) (toStr (dev s.fs P)) (homeCand s.fs c H) st) s = r at t1 t2
  obtain ⟨⟨res, st1⟩, s1⟩ := r
  generalize run noFaults (homeCore c H P n st) { fs := s.fs } = core at t1 t2 hok
  obtain ⟨⟨cres, cst⟩, cs⟩ := core
  simp only at t1 t2 hok
  subst hok
  cases t1
  exact ⟨rfl, t2⟩


/-! ### two arguments -/

open TrashVerif.Proofs.C16IndepCore (after_some core_after_trashed)

section pair
variable {c : PutCfg} {fs fs' : FS} {H Pa Pd : CPath} {na nd : Name} {nameA ca : Bytes}
  (W : HomeWorld c fs H) (Aa : GoodArg fs H Pa na) (Ad : GoodArg fs H Pd nd)
  (hu : ¬ (Pa ++ [na]) <+: (Pd ++ [nd]) ∧ ¬ (Pd ++ [nd]) <+: (Pa ++ [na]))
  (T : Trashed fs fs' (infoC H) (filesC H) (Pa ++ [na]) nameA ca) (hm : fs'.mounts = fs.mounts)
include W Aa T

omit Aa in
/-- a directory chain that `a` is not on, and that does not pass through `files/`, is still there -/
theorem plain_after {Q : CPath} (hp : Plain fs Q) (h1 : ¬ (Pa ++ [na]) <+: Q) (h2 : ∀ x, ¬ filesC H ++ [x] <+: Q) :
    Plain fs' Q := by
  intro q hq
  have hd := hp q hq
  obtain ⟨m, t, hg⟩ := isDirAt_iff.1 hd
  have := (after_some T (W.filesPlain _ List.prefix_rfl) (W.infoPlain _ List.prefix_rfl)
    (fun h => h1 (h.trans hq)) (fun h => h2 _ (h.trans hq))
    (by intro e; rw [e, T.wasFreeInfo] at hg; cases hg) (fun _ => hd)).2
  rw [this]; exact hd

include hm in
theorem world_after : HomeWorld c fs' H :=
  { noTrashDir := W.noTrashDir
    noForcedVolume := W.noForcedVolume
    noPrompt := W.noPrompt
    xdgUnset := W.xdgUnset
    home := W.home
    homeNotRoot := W.homeNotRoot
    homeNames := W.homeNames
    filesPlain := plain_after W T W.filesPlain Aa.apartFiles.1
      (fun x h => by have := h.length_le; simp at this; omega)
    infoPlain := plain_after W T W.infoPlain Aa.apartInfo.1
      (fun x h => (distinct_IF H).2 ((under_iff _ _).2 ((List.prefix_append _ _).trans h)))
    rootMounted := by rw [isMount_congr hm]; exact W.rootMounted
    filesSameVolume := by rw [dev_congr hm, dev_congr hm]; exact W.filesSameVolume }

omit Aa in
include Ad hu hm in
theorem arg_after : GoodArg fs' H Pd nd :=
  { names := Ad.names
    parentPlain := plain_after W T Ad.parentPlain
      (fun h => hu.1 (h.trans (List.prefix_append _ _)))
      (fun x h => Ad.apartFiles.2 ((List.prefix_append _ _).trans (h.trans (List.prefix_append _ _))))
    present := by
      have := (after_some T (W.filesPlain _ List.prefix_rfl) (W.infoPlain _ List.prefix_rfl) hu.1
        (fun h => Ad.apartFiles.2 ((List.prefix_append _ _).trans h))
        (by intro e; have := Ad.present; rw [e, T.wasFreeInfo] at this; cases this)
        (fun e => by
          have hp : FS.parent (Pa ++ [na]) <+: Pa ++ [na] := dropLast_pfx _
          rw [← e] at hp
          exact absurd hp hu.2)).1
      rw [this]; exact Ad.present
    notMount := by rw [isMount_congr hm]; exact Ad.notMount
    sameVolume := by rw [dev_congr hm, dev_congr hm]; exact Ad.sameVolume
    apartInfo := Ad.apartInfo
    apartFiles := Ad.apartFiles }

omit W T in
include Ad hu in
theorem apart_home : Apart (infoC H) (filesC H) (Pa ++ [na]) (infoC H) (filesC H) (Pd ++ [nd]) :=
  { src := hu
    srcInfo := Aa.apartInfo
    srcFiles := Aa.apartFiles
    inSrc := fun x h => Ad.apartFiles.2 ((List.prefix_append _ _).trans h)
    inInfo := fun x h => (distinct_IF H).2 ((under_iff _ _).2 ((List.prefix_append _ _).trans h))
    inFiles := fun x h => by have := h.length_le; simp at this; omega
    cross1 := fun e => (distinct_IF H).2 ((under_iff _ _).2 (e ▸ List.prefix_rfl))
    cross2 := fun e => (distinct_IF H).1 ((under_iff _ _).2 (e ▸ List.prefix_rfl)) }

end pair


open TrashVerif.Proofs.C16Indep (putAll_step)

/-- one everyday argument alone -/
theorem alone_home {c : PutCfg} {fs : FS} {H P : CPath} {n : Name} (W : HomeWorld c fs H)
    (A : GoodArg fs H P n) (st : PutSt) (name : Bytes)
    (hok : (run noFaults (homeCore c H P n st) { fs := fs }).1.1 = .ok name) :
    let r := run noFaults (runPut c [toStr (P ++ [n])] st) { fs := fs }
    r.1.outcomes = [(toStr (P ++ [n]), .trashed (homeStr H) name)] ∧ r.1.crash = none ∧ r.1.exit = 0 ∧
    r.2.fs = (run noFaults (homeCore c H P n st) { fs := fs }).2.fs := by
  intro r
  obtain ⟨h1, h2⟩ := trashSingle_home W A st { fs := fs } rfl name hok
  have hstep := putAll_step noFaults c (toStr (P ++ [n])) [] st _ [] { fs := fs } _ _ (Prod.ext h1 rfl)
    (by intro e h; cases h)
  have hr : r = run noFaults (putAll c [toStr (P ++ [n])] st []) { fs := fs } := rfl
  rw [hr, hstep]
  simp only [ArgOutcome.failed, Bool.false_eq_true, if_false]
  exact ⟨rfl, rfl, rfl, h2⟩

theorem pair_home {c : PutCfg} {fs : FS} {H Pa Pd : CPath} {na nd : Name} (W : HomeWorld c fs H)
    (Aa : GoodArg fs H Pa na) (Ad : GoodArg fs H Pd nd)
    (hu : ¬ (Pa ++ [na]) <+: (Pd ++ [nd]) ∧ ¬ (Pd ++ [nd]) <+: (Pa ++ [na]))
    (st : PutSt) (nameA nameD : Bytes)
    (hA : (run noFaults (homeCore c H Pa na st) { fs := fs }).1.1 = .ok nameA)
    (hD : (run noFaults (homeCore c H Pd nd (run noFaults (homeCore c H Pa na st) { fs := fs }).1.2) { fs := fs }).1.1
      = .ok nameD)
    (hn : NamesApart (infoC H) (filesC H) (infoC H) (filesC H) nameA (basename (locOf Pd nd))) :
    let r := run noFaults (runPut c [toStr (Pa ++ [na]), toStr (Pd ++ [nd])] st) { fs := fs }
    r.1.outcomes = [(toStr (Pa ++ [na]), .trashed (homeStr H) nameA), (toStr (Pd ++ [nd]), .trashed (homeStr H) nameD)] ∧
    r.1.crash = none ∧ r.1.exit = 0 := by
  intro r
  have hr : r = run noFaults (putAll c [toStr (Pa ++ [na]), toStr (Pd ++ [nd])] st []) { fs := fs } := rfl
  -- the first argument
  obtain ⟨h1, h2⟩ := trashSingle_home W Aa st { fs := fs } rfl nameA hA
  -- the state it leaves
  have SA := W_setting W Aa
  have hra : run noFaults (homeCore c H Pa na st) { fs := fs } =
      ((.ok nameA, (run noFaults (homeCore c H Pa na st) { fs := fs }).1.2),
        (run noFaults (homeCore c H Pa na st) { fs := fs }).2) := Prod.ext (Prod.ext hA rfl) rfl
  have T := C01.put_ok_moves_whole fs (infoC H) (filesC H) (Pa ++ [na]) _ _ st _ SA nameA _ hra
  have hm : (run noFaults (homeCore c H Pa na st) { fs := fs }).2.fs.mounts = fs.mounts :=
    C02.run_mounts noFaults _ { fs := fs }
  generalize (run noFaults (homeCore c H Pa na st) { fs := fs }).1.2 = st1 at *
  generalize (run noFaults (homeCore c H Pa na st) { fs := fs }).2.fs = fs' at *
  generalize hrun1 : run noFaults (trashSingle c (toStr (Pa ++ [na])) st) { fs := fs } = ra1 at h1 h2
  obtain ⟨⟨res1, stx⟩, s1⟩ := ra1
  simp only at h1 h2
  cases h1
  have hstep1 := putAll_step noFaults c (toStr (Pa ++ [na])) [toStr (Pd ++ [nd])] st st1 [] { fs := fs } s1 _
    hrun1 (by intro e h; cases h)
  have W' := world_after W Aa T hm
  have Ad' := arg_after W Ad hu T hm
  -- the second argument, there
  have hcore := core_after_trashed T hm SA (W_setting W Ad) (apart_home Aa Ad hu)
    (basename (locOf Pd nd)) (formatTrashinfoWith (locOf Pd nd) c.dateStr) hn st1
  have hD' : (run noFaults (homeCore c H Pd nd st1) { fs := fs' }).1.1 = .ok nameD := by
    unfold homeCore; rw [hcore]; exact hD
  obtain ⟨k1, _⟩ := trashSingle_home W' Ad' st1 s1 h2 nameD hD'
  generalize hrun2 : run noFaults (trashSingle c (toStr (Pd ++ [nd])) st1) s1 = ra2 at k1
  obtain ⟨⟨res2, sty⟩, s2⟩ := ra2
  simp only at k1
  cases k1
  have hstep2 := putAll_step noFaults c (toStr (Pd ++ [nd])) [] st1 _
    [(toStr (Pa ++ [na]), ArgOutcome.trashed (homeStr H) nameA)] s1 s2 _ hrun2 (by intro e h; cases h)
  rw [hr, hstep1]
  simp only [ArgOutcome.failed, Bool.false_eq_true, if_false]
  rw [hstep2]
  simp only [ArgOutcome.failed, Bool.false_eq_true, if_false]
  exact ⟨rfl, rfl, rfl⟩


/-! ### the statement in terms of the runs of each argument alone -/

theorem locOf_eq (P : CPath) (n : Name) (hn : GoodNames (P ++ [n])) : locOf P n = toStr (P ++ [n]) := by
  have hh : n.head? ≠ some slash := by
    obtain ⟨h1, h2, _⟩ := hn n (by simp)
    obtain ⟨x, xs, rfl⟩ := List.exists_cons_of_ne_nil h1
    intro e
    simp only [List.head?_cons, Option.some.injEq] at e
    exact h2 (e ▸ List.mem_cons_self)
  unfold locOf
  by_cases h0 : P = []
  · subst h0; exact pjoin_root n hh
  · exact pjoin_toStr h0 hn.left n hh

theorem basename_locOf (P : CPath) (n : Name) (hn : GoodNames (P ++ [n])) : basename (locOf P n) = n := by
  rw [locOf_eq P n hn, basename_toStr P n hn]

theorem suffixFor_noints (index : Nat) (st : PutSt) (h : st.ints = []) : (suffixFor index st).2 = st := by
  unfold suffixFor
  split
  · rfl
  · split
    · rfl
    · rw [h]

theorem persist_noints (I F : CPath) (base content : Bytes) : ∀ (fuel index : Nat) (tooLong : Bool) (st : PutSt)
    (s : RunState), st.ints = [] →
      (run noFaults (persistLoop I F base content fuel index tooLong st) s).1.2 = st := by
  intro fuel
  induction fuel with
  | zero => intro index tooLong st s _; rfl
  | succ fuel ih =>
    intro index tooLong st s h
    unfold persistLoop
    have hs := suffixFor_noints index st h
    generalize suffixFor index st = pr at hs
    obtain ⟨suffix, st'⟩ := pr
    simp only at hs
    subst hs
    simp only [run_read_bind]
    split
    · exact ih _ _ _ _ h
    · simp only [run_bind]
      generalize run noFaults (atomicWrite _ content) s = r2
      obtain ⟨res, s2⟩ := r2
      cases res with
      | ok u => rfl
      | error e => cases e <;> first | exact ih _ _ _ _ h | rfl | (simp only []; split <;> first | rfl | exact ih _ _ _ _ h)

theorem homeCore_noints {c : PutCfg} {fs : FS} {H P : CPath} {n : Name} (W : HomeWorld c fs H)
    (A : GoodArg fs H P n) (st : PutSt) (h : st.ints = []) :
    (run noFaults (homeCore c H P n st) { fs := fs }).1.2 = st := by
  unfold homeCore
  rw [C16IndepCore.core_result _ _ st { fs := fs } (W_setting W A)]
  exact persist_noints _ _ _ _ _ _ _ _ _ h

theorem namesApart_home {c : PutCfg} {fs : FS} {H Pa Pd : CPath} {na nd : Name} (W : HomeWorld c fs H)
    (Aa : GoodArg fs H Pa na) (Ad : GoodArg fs H Pd nd) (st : PutSt) (nameA : Bytes)
    (hA : (run noFaults (homeCore c H Pa na st) { fs := fs }).1.1 = .ok nameA)
    (hv : ∀ suffix, IsSuffix suffix → ∀ tooLong, trashinfoBasename nd suffix tooLong ≠ nameA) :
    NamesApart (infoC H) (filesC H) (infoC H) (filesC H) nameA (basename (locOf Pd nd)) := by
  have hst : nameA = stemOf nameA ++ trashinfoExt := by
    have cs := core_spec (basename (locOf Pa na)) (formatTrashinfoWith (locOf Pa na) c.dateStr) st { fs := fs }
      (W_setting W Aa)
    unfold homeCore at hA
    rcases cs with ⟨e, a, _⟩ | ⟨nm, a, hst, _⟩
    · rw [hA] at a; cases a
    · rw [hA] at a; cases a; exact hst
  rw [basename_locOf Pd nd Ad.names]
  intro suffix hsfx tooLong
  refine ⟨fun _ e => hv suffix hsfx tooLong ?_, fun _ => hv suffix hsfx tooLong⟩
  rw [basename_stem nd suffix tooLong, e, ← hst]

/-- The two-argument theorem for the everyday case, in the shape of `C16_independence_full`, for the
    WHOLE outcome (trash directory and name), not only its class. -/
theorem home_pair {c : PutCfg} {fs : FS} {H Pa Pd : CPath} {na nd : Name} (W : HomeWorld c fs H)
    (Aa : GoodArg fs H Pa na) (Ad : GoodArg fs H Pd nd)
    (hu : ¬ (Pa ++ [na]) <+: (Pd ++ [nd]) ∧ ¬ (Pd ++ [nd]) <+: (Pa ++ [na]))
    (st : PutSt) (hints : st.ints = []) (nameA nameD : Bytes)
    (hcoreA : (run noFaults (homeCore c H Pa na st) { fs := fs }).1.1 = .ok nameA)
    (hcoreD : (run noFaults (homeCore c H Pd nd st) { fs := fs }).1.1 = .ok nameD)
    (hv : ∀ suffix, IsSuffix suffix → ∀ tooLong, trashinfoBasename nd suffix tooLong ≠ nameA) :
    let both := run noFaults (runPut c [toStr (Pa ++ [na]), toStr (Pd ++ [nd])] st) { fs := fs }
    let aloneA := run noFaults (runPut c [toStr (Pa ++ [na])] st) { fs := fs }
    let aloneD := run noFaults (runPut c [toStr (Pd ++ [nd])] st) { fs := fs }
    both.1.outcomes = aloneA.1.outcomes ++ aloneD.1.outcomes ∧
    aloneA.1.outcomes = [(toStr (Pa ++ [na]), .trashed (homeStr H) nameA)] ∧
    aloneD.1.outcomes = [(toStr (Pd ++ [nd]), .trashed (homeStr H) nameD)] ∧
    both.1.crash = none ∧ both.1.exit = 0 := by
  intro both aloneA aloneD
  have hst1 := homeCore_noints W Aa st hints
  have hn := namesApart_home W Aa Ad st nameA hcoreA hv
  have hb := pair_home W Aa Ad hu st nameA nameD hcoreA (by rw [hst1]; exact hcoreD) hn
  have ha := alone_home W Aa st nameA hcoreA
  have hd := alone_home W Ad st nameD hcoreD
  refine ⟨?_, ha.1, hd.1, hb.2.1, hb.2.2⟩
  rw [hb.1, ha.1, hd.1]
  rfl


/-! ### a concrete everyday world (non-vacuity of the hypotheses) -/

namespace Ex

def dN : Node := .dir 0o755 0
/-- HOME = /h -/
def H : CPath := [b "h"]
/-- `/h/.local/share/Trash/{files,info}` exist; `/p/x` and `/p/y` are regular files; one volume -/
def fsH : FS := FS.ofList [([], dN), (H, dN), (H ++ [b ".local"], dN), (H ++ [b ".local", b "share"], dN),
  (trashC H, dN), (filesC H, dN), (infoC H, dN), ([b "p"], dN), ([b "p", b "x"], .file [120] 0o644 0),
  ([b "p", b "y"], .file [121] 0o644 0)] [[]]
def cfgH : PutCfg := { cwd := [], env := { home := some (toStr H) }, uid := 0, dateStr := b "D" }
def st0 : PutSt := ⟨[], []⟩

theorem plain_of_takes {fs : FS} {Q : CPath} (h : ∀ k, k < Q.length + 1 → fs.isDirAt (Q.take k) = true) :
    TrashVerif.C07.Plain fs Q := by
  intro q hq
  rw [List.prefix_iff_eq_take.1 hq]
  exact h _ (Nat.lt_succ_of_le hq.length_le)

theorem world : HomeWorld cfgH fsH H :=
  { noTrashDir := rfl, noForcedVolume := rfl, noPrompt := by decide, xdgUnset := rfl, home := rfl,
    homeNotRoot := by decide, homeNames := by unfold TrashVerif.C07.GoodNames; decide +kernel,
    filesPlain := plain_of_takes (by decide +kernel), infoPlain := plain_of_takes (by decide +kernel),
    rootMounted := by decide +kernel, filesSameVolume := by decide +kernel }

theorem argX : GoodArg fsH H [b "p"] (b "x") :=
  { names := by unfold TrashVerif.C07.GoodNames; decide +kernel, parentPlain := plain_of_takes (by decide +kernel),
    present := by decide +kernel, notMount := by decide +kernel, sameVolume := by decide +kernel,
    apartInfo := by decide +kernel, apartFiles := by decide +kernel }

theorem argY : GoodArg fsH H [b "p"] (b "y") :=
  { names := by unfold TrashVerif.C07.GoodNames; decide +kernel, parentPlain := plain_of_takes (by decide +kernel),
    present := by decide +kernel, notMount := by decide +kernel, sameVolume := by decide +kernel,
    apartInfo := by decide +kernel, apartFiles := by decide +kernel }

theorem coreX : (run noFaults (homeCore cfgH H [b "p"] (b "x") st0) { fs := fsH }).1.1 = .ok (b "x.trashinfo") :=
  C09.Cex.okName_eq (by decide +kernel)
theorem coreY : (run noFaults (homeCore cfgH H [b "p"] (b "y") st0) { fs := fsH }).1.1 = .ok (b "y.trashinfo") :=
  C09.Cex.okName_eq (by decide +kernel)

theorem b_y : b "y" = [121] := by decide +kernel
theorem b_us : b "_" = [95] := by decide +kernel
theorem b_xt : b "x.trashinfo" = 120 :: b ".trashinfo" := by decide +kernel

theorem variantsApart : ∀ suffix, IsSuffix suffix → ∀ tooLong,
    trashinfoBasename (b "y") suffix tooLong ≠ b "x.trashinfo" := by
  intro suffix hs tl h
  rcases hs with rfl | ⟨k, rfl⟩
  · cases tl <;> revert h <;> decide +kernel
  · have hh := congrArg List.head? h
    rw [b_xt, b_y, b_us] at hh
    cases tl <;> simp [trashinfoBasename] at hh

theorem unrelatedXY : ¬ ([b "p"] ++ [b "x"]) <+: ([b "p"] ++ [b "y"]) ∧ ¬ ([b "p"] ++ [b "y"]) <+: ([b "p"] ++ [b "x"]) := by
  decide +kernel

/-- the core-level hypotheses (`Setting`s, `Apart`) in that world -/
theorem settingX : Setting fsH (infoC H) (filesC H) ([b "p"] ++ [b "x"]) := W_setting world argX
theorem settingY : Setting fsH (infoC H) (filesC H) ([b "p"] ++ [b "y"]) := W_setting world argY
theorem apartXY : Apart (infoC H) (filesC H) ([b "p"] ++ [b "x"]) (infoC H) (filesC H) ([b "p"] ++ [b "y"]) :=
  apart_home argX argY unrelatedXY

end Ex

end TrashVerif.Proofs.C16IndepHome
