/-
  Proofs/C17Lemmas.lean — `get`-characterisations of the FS transformers, the run/bind calculus of
  `Prog`, and the specifications of `atomicWrite` / `persistLoop` under an arbitrary fault oracle.
-/
import TrashVerif.Props.PutCoreDefs
namespace TrashVerif.Proofs.C17
open TrashVerif Prog FS PutCore

/-! ### `get` / `mounts` of the state transformers -/

@[simp] theorem get_setNode (fs : FS) (p q : CPath) (n : Node) :
    (fs.setNode p n).get q = if q = p then some n else fs.get q := rfl
@[simp] theorem mounts_setNode (fs : FS) (p : CPath) (n : Node) : (fs.setNode p n).mounts = fs.mounts := rfl
@[simp] theorem get_removeNode (fs : FS) (p q : CPath) :
    (fs.removeNode p).get q = if q = p then none else fs.get q := rfl
@[simp] theorem mounts_removeNode (fs : FS) (p : CPath) : (fs.removeNode p).mounts = fs.mounts := rfl
@[simp] theorem get_moveTree (fs : FS) (a c q : CPath) :
    (fs.moveTree a c).get q =
      if under c q then fs.get (a ++ q.drop c.length) else if under a q then none else fs.get q := rfl
@[simp] theorem mounts_moveTree (fs : FS) (a c : CPath) : (fs.moveTree a c).mounts = fs.mounts := rfl

/-- what `touchDir` leaves at the touched path -/
def touched : Option Node → Option Node
  | some (.dir m _) => some (.dir m 0)
  | x => x

theorem get_touchDir (fs : FS) (p q : CPath) :
    (fs.touchDir p).get q = if q = p then touched (fs.get p) else fs.get q := by
  unfold touchDir
  split
  · rename_i m t h
    by_cases hq : q = p <;> simp [hq, h, touched]
  · rename_i h
    by_cases hq : q = p
    · subst hq
      simp only [if_true]
      cases hg : fs.get q with
      | none => rfl
      | some n => cases n <;> first | rfl | (exact absurd hg (h _ _))
    · simp [hq]

@[simp] theorem mounts_touchDir (fs : FS) (p : CPath) : (fs.touchDir p).mounts = fs.mounts := by
  unfold touchDir; split <;> rfl

theorem get_touchDir_ne (fs : FS) {p q : CPath} (h : q ≠ p) : (fs.touchDir p).get q = fs.get q := by
  rw [get_touchDir, if_neg h]

theorem get_touchDir_self (fs : FS) (p : CPath) : (fs.touchDir p).get p = touched (fs.get p) := by
  rw [get_touchDir, if_pos rfl]

@[simp] theorem parent_snoc (D : CPath) (x : Name) : FS.parent (D ++ [x]) = D := by
  simp [FS.parent]

theorem snoc_ne_self (D : CPath) (x : Name) : D ++ [x] ≠ D := by
  intro h
  have := congrArg List.length h
  simp at this

/-! ### the run calculus -/

theorem run_bind {α β} (φ : Oracle) (p : Prog α) (f : α → Prog β) (s : RunState) :
    run φ (p >>= f) s = run φ (f (run φ p s).1) (run φ p s).2 := by
  show run φ (p.bind f) s = _
  induction p generalizing s with
  | ret a => rfl
  | get k ih => simp only [Prog.bind, run]; exact ih _ _
  | emit o k ih => simp only [Prog.bind, run]; exact ih _
  | call c k ih =>
    simp only [Prog.bind, run]
    split <;> exact ih _ _

@[simp] theorem run_pure {α} (φ : Oracle) (a : α) (s : RunState) : run φ (pure a : Prog α) s = (a, s) := rfl
@[simp] theorem run_read (φ : Oracle) (s : RunState) : run φ read s = (s.fs, s) := rfl

/-- the run state after one issued call -/
def after (s : RunState) (c : Call) (r : Res) (fs' : FS) : RunState :=
  { s with fs := fs', hist := s.fs :: s.hist, trace := (c, r) :: s.trace, n := s.n + 1 }

@[simp] theorem after_fs (s c r fs') : (after s c r fs').fs = fs' := rfl
@[simp] theorem after_n (s c r fs') : (after s c r fs').n = s.n + 1 := rfl

theorem run_sys_fault (φ : Oracle) (c : Call) (s : RunState) (e : Errno)
    (h : φ s.n (kindCount s.trace c.kind) c = some e) :
    run φ (sys c) s = (.error e, after s c (.error e) s.fs) := by
  simp only [sys, run, h]; rfl

theorem run_sys_ok (φ : Oracle) (c : Call) (s : RunState) (fs' : FS)
    (h : φ s.n (kindCount s.trace c.kind) c = none) (ha : c.apply s.fs = .ok fs') :
    run φ (sys c) s = (.ok (), after s c (.ok ()) fs') := by
  simp only [sys, run, h, ha]; rfl

theorem run_sys_err (φ : Oracle) (c : Call) (s : RunState) (e : Errno)
    (h : φ s.n (kindCount s.trace c.kind) c = none) (ha : c.apply s.fs = .error e) :
    run φ (sys c) s = (.error e, after s c (.error e) s.fs) := by
  simp only [sys, run, h, ha]; rfl

/-- the two ways a call can end -/
theorem sys_cases (φ : Oracle) (c : Call) (s : RunState) :
    (∃ e, run φ (sys c) s = (.error e, after s c (.error e) s.fs)) ∨
    (∃ fs', φ s.n (kindCount s.trace c.kind) c = none ∧ c.apply s.fs = .ok fs' ∧
        run φ (sys c) s = (.ok (), after s c (.ok ()) fs')) := by
  cases h : φ s.n (kindCount s.trace c.kind) c with
  | some e => exact .inl ⟨e, run_sys_fault φ c s e h⟩
  | none =>
    cases ha : c.apply s.fs with
    | error e => exact .inl ⟨e, run_sys_err φ c s e h ha⟩
    | ok fs' => exact .inr ⟨fs', rfl, rfl, run_sys_ok φ c s fs' h ha⟩

theorem run_sys_n (φ : Oracle) (c : Call) (s : RunState) : (run φ (sys c) s).2.n = s.n + 1 := by
  rcases sys_cases φ c s with ⟨e, h⟩ | ⟨fs', _, _, h⟩ <;> rw [h] <;> rfl

theorem run_ite {α} (φ : Oracle) (c : Prop) [Decidable c] (p q : Prog α) (s : RunState) :
    run φ (if c then p else q) s = if c then run φ p s else run φ q s := by
  split <;> rfl

theorem run_read_bind {α} (φ : Oracle) (f : FS → Prog α) (s : RunState) :
    run φ (read >>= f) s = run φ (f s.fs) s := rfl

theorem run_atomicWrite (φ : Oracle) (p : CPath) (content : Bytes) (s : RunState) :
    run φ (atomicWrite p content) s =
      let r1 := run φ (sys (.createExcl p 0o600)) s
      match r1.1 with
      | .error e => (.error e, r1.2)
      | .ok () =>
        let r2 := run φ (sys (.write p content)) r1.2
        let r3 := run φ (sys (.close p)) r2.2
        match r2.1, r3.1 with
        | .ok (), .ok () => (.ok (), r3.2)
        | _, .error e => (.error e, (run φ (sys (.unlink p)) r3.2).2)
        | .error e, .ok () => (.error e, (run φ (sys (.unlink p)) r3.2).2) := by
  simp only [atomicWrite, run_bind]
  split
  · simp [*]
  · simp only [run_bind]
    split <;> simp [*, run_bind]

theorem run_persistLoop_succ (φ : Oracle) (I F : CPath) (base content : Bytes) (fuel index : Nat)
    (tooLong : Bool) (st : PutSt) (s : RunState) :
    run φ (persistLoop I F base content (fuel + 1) index tooLong st) s =
      let name := trashinfoBasename base (suffixFor index st).1 tooLong
      let st' := (suffixFor index st).2
      if lexistsC s.fs (F ++ [stemOf name]) then
        run φ (persistLoop I F base content fuel (index + 1) tooLong st') s
      else
        let r := run φ (atomicWrite (I ++ [name]) content) s
        match r.1 with
        | .ok () => ((.created name, st'), r.2)
        | .error .ENAMETOOLONG =>
          if tooLong then ((.failed .ENAMETOOLONG, st'), r.2)
          else run φ (persistLoop I F base content fuel (index + 1) true st') r.2
        | .error .EEXIST => run φ (persistLoop I F base content fuel (index + 1) tooLong st') r.2
        | .error e => ((.failed e, st'), r.2) := by
  rw [persistLoop]
  rcases suffixFor index st with ⟨suf, st'⟩
  dsimp only
  rw [run_read_bind, run_ite]
  by_cases h : lexistsC s.fs (F ++ [stemOf (trashinfoBasename base suf tooLong)]) = true
  · simp only [stemOf] at h ⊢
    simp only [h, if_true]
  · simp only [stemOf] at h ⊢
    simp only [h, Bool.false_eq_true, if_false, run_bind]
    generalize run φ (atomicWrite (I ++ [trashinfoBasename base suf tooLong]) content) s = r
    rcases r with ⟨res, s'⟩
    cases res with
    | ok u => cases u; rfl
    | error e => cases e <;> first | rfl | (cases tooLong <;> rfl)

theorem applyUmask_600 : applyUmask 0o600 = 0o600 := by decide

theorem createExcl_inv {fs fs' : FS} {D : CPath} {name : Name} {mode : Nat}
    (h : fs.createExcl (D ++ [name]) mode = .ok fs') :
    fs.get (D ++ [name]) = none ∧ name.length ≤ nameMax ∧
      fs' = touchDir (setNode fs (D ++ [name]) (.file [] (applyUmask mode) 0)) D := by
  simp only [createExcl, checkParent, Bind.bind, Except.bind, List.getLast?_append, List.getLast?_singleton, parent_snoc] at h
  simp only [Option.some_or] at h
  by_cases hl : name.length > nameMax
  · simp [hl] at h
  · simp only [hl, if_false] at h
    by_cases hx : fs.exists_ (D ++ [name]) = true
    · simp only [hx, if_true] at h
      split at h <;> cases h
    · simp only [hx] at h
      split at h
      · cases h
      · simp only [Bool.false_eq_true, if_false, Except.ok.injEq] at h
        refine ⟨?_, by omega, h.symm⟩
        simpa [exists_] using hx

theorem writeData_file {fs : FS} {p : CPath} {old : Bytes} {m t : Nat} (data : Bytes)
    (h : fs.get p = some (.file old m t)) :
    fs.writeData p data = .ok (setNode fs p (.file (old ++ data) m 0)) := by
  simp only [writeData, h]

theorem unlink_file {fs : FS} {p : CPath} {d : Bytes} {m t : Nat}
    (h : fs.get p = some (.file d m t)) :
    fs.unlink p = .ok (touchDir (removeNode fs p) (parent p)) := by
  simp only [unlink, h]


/-! ### the two relations the name search maintains -/

/-- `cur` differs from `fs` at most in the mtime of the directory `D` -/
structure Near (fs cur : FS) (D : CPath) : Prop where
  mounts : cur.mounts = fs.mounts
  same : ∀ q, q ≠ D → cur.get q = fs.get q
  kept : keptDir fs cur D

/-- `cur` is `fs` plus the complete info file `D/name` (and a possibly refreshed mtime of `D`) -/
structure Created (fs cur : FS) (D : CPath) (name content : Bytes) : Prop where
  mounts : cur.mounts = fs.mounts
  wasFree : fs.get (D ++ [name]) = none
  short : name.length ≤ nameMax
  info : cur.get (D ++ [name]) = some (.file content 0o600 0)
  same : ∀ q, q ≠ D → q ≠ D ++ [name] → cur.get q = fs.get q
  kept : keptDir fs cur D

theorem keptDir_refl (fs : FS) (D : CPath) : keptDir fs fs D := fun _ t h => ⟨t, h⟩

theorem keptDir_trans {a c d : FS} {D : CPath} (h1 : keptDir a c D) (h2 : keptDir c d D) : keptDir a d D := by
  intro m t h
  obtain ⟨t', h'⟩ := h1 m t h
  exact h2 m t' h'

theorem keptDir_of_touched {fs cur : FS} {D : CPath} (h : cur.get D = touched (fs.get D)) : keptDir fs cur D := by
  intro _ _ hg
  exact ⟨0, by rw [h, hg]; rfl⟩

theorem touched_touched (x : Option Node) : touched (touched x) = touched x := by
  rcases x with _ | (_ | _ | _) <;> rfl

theorem Near.refl (fs : FS) (D : CPath) : Near fs fs D := ⟨rfl, fun _ _ => rfl, keptDir_refl fs D⟩

theorem Near.trans {a c d : FS} {D : CPath} (h1 : Near a c D) (h2 : Near c d D) : Near a d D :=
  ⟨h2.mounts.trans h1.mounts, fun q hq => (h2.same q hq).trans (h1.same q hq), keptDir_trans h1.kept h2.kept⟩

theorem Near.created {a c d : FS} {D : CPath} {name content : Bytes}
    (h1 : Near a c D) (h2 : Created c d D name content) : Created a d D name content :=
  ⟨h2.mounts.trans h1.mounts, (h1.same _ (snoc_ne_self D name)).symm.trans h2.wasFree, h2.short, h2.info,
   fun q hq hq' => (h2.same q hq hq').trans (h1.same q hq), keptDir_trans h1.kept h2.kept⟩

/-- removing the half-written info file again leaves only the mtime of `D` changed -/
theorem near_after_unlink {fs fsX : FS} {D : CPath} {name : Name} {n0 : Node}
    (hfree : fs.get (D ++ [name]) = none)
    (hm : fsX.mounts = fs.mounts)
    (hX : ∀ q, q ≠ D ++ [name] → fsX.get q = (touchDir (setNode fs (D ++ [name]) n0) D).get q) :
    Near fs (touchDir (removeNode fsX (D ++ [name])) D) D := by
  have hne := snoc_ne_self D name
  refine ⟨by simp [hm], ?_, ?_⟩
  · intro q hq
    rw [get_touchDir_ne _ hq, get_removeNode]
    by_cases hp : q = D ++ [name]
    · simp [hp, hfree]
    · rw [if_neg hp, hX q hp, get_touchDir_ne _ hq, get_setNode, if_neg hp]
  · apply keptDir_of_touched
    rw [get_touchDir_self, get_removeNode, if_neg hne.symm, hX D hne.symm, get_touchDir_self, get_setNode,
      if_neg hne.symm, touched_touched]

theorem run_unlink_file (φ : Oracle) (hunl : ∀ n k p, φ n k (.unlink p) = none) (s : RunState)
    {p : CPath} {d : Bytes} {m t : Nat} (h : s.fs.get p = some (.file d m t)) :
    (run φ (sys (.unlink p)) s).2.fs = touchDir (removeNode s.fs p) (parent p) := by
  rw [run_sys_ok φ (.unlink p) s _ (hunl _ _ _) (unlink_file h)]; rfl

/-- a write either appends to the file at `p` or leaves the state alone -/
theorem write_cases (φ : Oracle) (s : RunState) {p : CPath} {old : Bytes} {m t : Nat} (data : Bytes)
    (h : s.fs.get p = some (.file old m t)) :
    (∃ e s', run φ (sys (.write p data)) s = (.error e, s') ∧ s'.fs = s.fs) ∨
    (∃ s', run φ (sys (.write p data)) s = (.ok (), s') ∧ s'.fs = setNode s.fs p (.file (old ++ data) m 0)) := by
  rcases sys_cases φ (.write p data) s with ⟨e, h1⟩ | ⟨fs1, _, ha1, h1⟩
  · exact .inl ⟨e, _, h1, rfl⟩
  · refine .inr ⟨_, h1, ?_⟩
    have : fs1 = _ := Except.ok.inj (ha1.symm.trans (writeData_file data h))
    rw [this]; rfl

theorem close_cases (φ : Oracle) (s : RunState) (p : CPath) :
    ∃ r s', run φ (sys (.close p)) s = (r, s') ∧ s'.fs = s.fs := by
  rcases sys_cases φ (.close p) s with ⟨e, h1⟩ | ⟨fs1, _, ha1, h1⟩
  · exact ⟨_, _, h1, rfl⟩
  · refine ⟨_, _, h1, ?_⟩
    have : fs1 = s.fs := (Except.ok.inj ha1).symm
    rw [this]; rfl

theorem atomicWrite_spec (φ : Oracle) (hunl : ∀ n k p, φ n k (.unlink p) = none)
    (D : CPath) (name : Name) (content : Bytes) (s : RunState) :
    (∃ e, (run φ (atomicWrite (D ++ [name]) content) s).1 = .error e ∧
        Near s.fs (run φ (atomicWrite (D ++ [name]) content) s).2.fs D) ∨
    ((run φ (atomicWrite (D ++ [name]) content) s).1 = .ok () ∧
        Created s.fs (run φ (atomicWrite (D ++ [name]) content) s).2.fs D name content) := by
  have hne := snoc_ne_self D name
  rw [run_atomicWrite]
  rcases sys_cases φ (.createExcl (D ++ [name]) 0o600) s with ⟨e, h1⟩ | ⟨fs1, _, ha1, h1⟩
  · simp only [h1]
    exact .inl ⟨e, rfl, Near.refl _ _⟩
  · obtain ⟨hfree, hshort, rfl⟩ := createExcl_inv ha1
    simp only [h1]
    generalize hs1 : after s (.createExcl (D ++ [name]) 0o600) (.ok ()) _ = s1
    have hfs1 : s1.fs = touchDir (setNode s.fs (D ++ [name]) (.file [] (applyUmask 0o600) 0)) D := by
      rw [← hs1]; rfl
    have hp1 : s1.fs.get (D ++ [name]) = some (.file [] 0o600 0) := by
      rw [hfs1, get_touchDir_ne _ hne, get_setNode, if_pos rfl, applyUmask_600]
    have hm1 : s1.fs.mounts = s.fs.mounts := by rw [hfs1]; simp
    rcases write_cases φ s1 content hp1 with ⟨e2, s2, h2, hfs2⟩ | ⟨s2, h2, hfs2⟩ <;>
      obtain ⟨r3, s3, h3, hfs3⟩ := close_cases φ s2 (D ++ [name]) <;>
      simp only [h2, h3]
    · -- the write failed: whatever the close says, the file is unlinked again
      have hp3 : s3.fs.get (D ++ [name]) = some (.file [] 0o600 0) := by rw [hfs3, hfs2, hp1]
      have hnear : Near s.fs (run φ (sys (.unlink (D ++ [name]))) s3).2.fs D := by
        rw [run_unlink_file φ hunl s3 hp3, parent_snoc]
        exact near_after_unlink hfree (by rw [hfs3, hfs2, hm1]) (fun q _ => by rw [hfs3, hfs2, hfs1])
      rcases r3 with e3 | ⟨⟨⟩⟩
      · exact .inl ⟨e3, rfl, hnear⟩
      · exact .inl ⟨e2, rfl, hnear⟩
    · have hp3 : s3.fs.get (D ++ [name]) = some (.file ([] ++ content) 0o600 0) := by
        rw [hfs3, hfs2, get_setNode, if_pos rfl]
      rcases r3 with e3 | ⟨⟨⟩⟩
      · -- the close failed
        refine .inl ⟨e3, rfl, ?_⟩
        show Near s.fs (run φ (sys (.unlink (D ++ [name]))) s3).2.fs D
        rw [run_unlink_file φ hunl s3 hp3, parent_snoc]
        refine near_after_unlink (n0 := .file [] (applyUmask 0o600) 0) hfree (by rw [hfs3, hfs2]; simpa using hm1) (fun q hq => ?_)
        rw [hfs3, hfs2, get_setNode, if_neg hq, hfs1]
      · -- all three calls succeeded
        refine .inr ⟨rfl, ?_⟩
        show Created s.fs s3.fs D name content
        refine ⟨by rw [hfs3, hfs2]; simpa using hm1, hfree, hshort, by simpa using hp3, ?_, ?_⟩
        · intro q hq hq'
          rw [hfs3, hfs2, get_setNode, if_neg hq', hfs1, get_touchDir_ne _ hq, get_setNode, if_neg hq']
        · apply keptDir_of_touched
          rw [hfs3, hfs2, get_setNode, if_neg hne.symm, hfs1, get_touchDir_self, get_setNode, if_neg hne.symm]


theorem atomicWrite_n (φ : Oracle) (p : CPath) (content : Bytes) (s : RunState) :
    (run φ (atomicWrite p content) s).2.n ≤ s.n + 4 := by
  rw [run_atomicWrite]
  dsimp only
  split
  · simp only [run_sys_n]; omega
  · split <;> simp only [run_sys_n] <;> omega

theorem atomicWrite_fault (φ : Oracle) (p : CPath) (content : Bytes) (s : RunState) (e : Errno)
    (h : φ s.n (kindCount s.trace "createExcl") (.createExcl p 0o600) = some e) :
    run φ (atomicWrite p content) s = (.error e, after s (.createExcl p 0o600) (.error e) s.fs) := by
  rw [run_atomicWrite, run_sys_fault φ (.createExcl p 0o600) s e h]

/-- what the name search guarantees about its final state, relative to the state `s0` it started in -/
def PersistPost (I F : CPath) (content : Bytes) (s0 : FS) (r : (Persist × PutSt) × RunState) : Prop :=
  (∀ name, r.1.1 = .created name →
      Created s0 r.2.fs I name content ∧ s0.get (F ++ [stemOf name]) = none) ∧
  ((∀ name, r.1.1 ≠ .created name) → Near s0 r.2.fs I)

theorem PersistPost.of_near {I F : CPath} {content : Bytes} {a c : FS} {r : (Persist × PutSt) × RunState}
    (hFI : ∀ x, F ++ [x] ≠ I) (h1 : Near a c I) (h2 : PersistPost I F content c r) :
    PersistPost I F content a r :=
  ⟨fun name hn => ⟨h1.created (h2.1 name hn).1, (h1.same _ (hFI _)).symm.trans (h2.1 name hn).2⟩,
   fun hn => h1.trans (h2.2 hn)⟩

theorem persistLoop_spec (φ : Oracle) (hunl : ∀ n k p, φ n k (.unlink p) = none)
    (I F : CPath) (base content : Bytes) (hFI : ∀ x, F ++ [x] ≠ I)
    (fuel index : Nat) (tooLong : Bool) (st : PutSt) (s : RunState) :
    PersistPost I F content s.fs (run φ (persistLoop I F base content fuel index tooLong st) s) := by
  induction fuel generalizing index tooLong st s with
  | zero =>
    refine ⟨fun name hn => ?_, fun _ => Near.refl _ _⟩
    simp [persistLoop] at hn
  | succ fuel ih =>
    rw [run_persistLoop_succ]
    dsimp only
    generalize hname : trashinfoBasename base (suffixFor index st).1 tooLong = name
    generalize (suffixFor index st).2 = st'
    by_cases hex : lexistsC s.fs (F ++ [stemOf name]) = true
    · rw [if_pos hex]; exact ih _ _ _ _
    · rw [if_neg hex]
      have hfree : s.fs.get (F ++ [stemOf name]) = none := by
        simpa [lexistsC] using hex
      have hspec := atomicWrite_spec φ hunl I name content s
      rcases hr : run φ (atomicWrite (I ++ [name]) content) s with ⟨res, s'⟩
      rw [hr] at hspec
      rcases hspec with ⟨e, he, hnear⟩ | ⟨hok, hcr⟩
      · dsimp only at he hnear
        subst he
        have failed : ∀ e', PersistPost I F content s.fs ((Persist.failed e', st'), s') :=
          fun e' => ⟨fun _ hn => (by cases hn), fun _ => hnear⟩
        have again : ∀ tl, PersistPost I F content s.fs
            (run φ (persistLoop I F base content fuel (index + 1) tl st') s') :=
          fun tl => (ih _ _ _ _).of_near hFI hnear
        cases e <;> first | exact failed _ | exact again _ | skip
        cases tooLong
        · exact again _
        · exact failed _
      · dsimp only at hok hcr
        subst hok
        refine ⟨fun n hn => ?_, fun hn => absurd rfl (hn name)⟩
        cases hn
        exact ⟨hcr, hfree⟩


/-! ### incomparable paths -/

theorem under_iff {a p : CPath} : under a p = true ↔ a <+: p := List.isPrefixOf_iff_prefix

/-- neither path is a prefix of the other -/
def Inc (a c : CPath) : Prop := ¬ a <+: c ∧ ¬ c <+: a

theorem Inc.symm {a c : CPath} (h : Inc a c) : Inc c a := ⟨h.2, h.1⟩

theorem Inc.append_left {a c : CPath} (h : Inc a c) (r : CPath) : Inc (a ++ r) c :=
  ⟨fun h' => h.1 ((List.prefix_append a r).trans h'),
   fun h' => (List.prefix_or_prefix_of_prefix h' (List.prefix_append a r)).elim h.2 h.1⟩

theorem Inc.append {a c : CPath} (h : Inc a c) (r r' : CPath) : Inc (a ++ r) (c ++ r') :=
  ((h.append_left r).symm.append_left r').symm

theorem Inc.ne {a c : CPath} (h : Inc a c) : a ≠ c := fun e => h.1 (e ▸ List.prefix_rfl)

theorem Inc.not_under {a c : CPath} (h : Inc a c) : ¬ under a c = true := fun h' => h.1 (under_iff.1 h')

theorem Inc.of_under {a c : CPath} (h1 : ¬ under a c = true) (h2 : ¬ under c a = true) : Inc a c :=
  ⟨fun h => h1 (under_iff.2 h), fun h => h2 (under_iff.2 h)⟩

theorem ne_of_length_lt {a c : CPath} (h : a.length < c.length) : a ≠ c := by
  intro e; rw [e] at h; omega

theorem not_under_of_length_lt {a c : CPath} (h : c.length < a.length) : ¬ under a c = true := by
  intro h'
  have := (under_iff.1 h').length_le
  omega


/-! ### the rename that follows a created info file -/

/-- the path facts a `Setting` provides, in `Inc` form -/
structure Geo (I F src : CPath) : Prop where
  IF : Inc I F
  sI : Inc src I
  sF : Inc src F
  ne : src ≠ []

theorem Geo.of_setting {fs : FS} {I F src : CPath} (h : Setting fs I F src) : Geo I F src :=
  ⟨Inc.of_under h.distinct.1 h.distinct.2, Inc.of_under h.notAncestor.1 h.notInside.1,
   Inc.of_under h.notAncestor.2 h.notInside.2, h.srcNotRoot⟩

theorem parent_prefix (src : CPath) : FS.parent src <+: src := List.dropLast_prefix src

theorem parent_length {src : CPath} (h : src ≠ []) : (FS.parent src).length + 1 = src.length := by
  cases src with
  | nil => exact absurd rfl h
  | cons a l => simp [FS.parent]

/-- a path incomparable with `src` is not `src`'s parent -/
theorem Inc.ne_parent {a src : CPath} (h : Inc a src) : a ≠ FS.parent src :=
  fun e => h.1 (e ▸ parent_prefix src)

theorem checkParent_ok {fs : FS} {D : CPath} {x : Name} {m t : Nat}
    (hD : fs.get D = some (.dir m t)) (hx : x.length ≤ nameMax) : checkParent fs (D ++ [x]) = .ok () := by
  have : ¬ x.length > nameMax := by omega
  simp [checkParent, parent_snoc, hD, this]

theorem stemOf_length_le (name : Bytes) : (stemOf name).length ≤ name.length := by
  simp only [stemOf, List.length_take]; omega

theorem isDirAt_iff {fs : FS} {p : CPath} : fs.isDirAt p = true ↔ ∃ m t, fs.get p = some (.dir m t) := by
  unfold isDirAt
  rcases fs.get p with _ | (_ | _ | _) <;> simp [Node.isDir]

section rename
variable {fs cur : FS} {I F src : CPath} {name content : Bytes}

theorem rename_ok (h : Setting fs I F src) (hc : Created fs cur I name content)
    (hfree : fs.get (F ++ [stemOf name]) = none) :
    cur.rename src (F ++ [stemOf name]) =
      .ok (touchDir (touchDir (moveTree cur src (F ++ [stemOf name])) (FS.parent src)) F) := by
  have g := Geo.of_setting h
  have hsd : Inc src (F ++ [stemOf name]) := (g.sF.symm.append_left _).symm
  have hsrc : cur.get src = fs.get src := hc.same _ g.sI.ne (g.sI.symm.append_left _).symm.ne
  obtain ⟨na, hna⟩ := Option.isSome_iff_exists.1 h.srcExists
  obtain ⟨m, t, hF⟩ := isDirAt_iff.1 h.filesDir
  have hFc : cur.get F = some (.dir m t) := by
    rw [hc.same _ g.IF.symm.ne (g.IF.append_left _).symm.ne, hF]
  have hdst : cur.get (F ++ [stemOf name]) = none := by
    rw [hc.same _ (g.IF.symm.append_left _).ne (g.IF.symm.append _ _).ne, hfree]
  have hmnt : cur.isMount src = false := by
    have := h.srcNotMount
    simpa [isMount, hc.mounts] using this
  have hdev : cur.dev (FS.parent src) = cur.dev (FS.parent (F ++ [stemOf name])) := by
    have := h.sameDev
    simpa [dev, hc.mounts, parent_snoc] using this
  have hcp := checkParent_ok (x := stemOf name) hFc (Nat.le_trans (stemOf_length_le name) hc.short)
  unfold FS.rename
  rw [hsrc, hna]
  simp only [hmnt, hdev, hcp, hdst, parent_snoc, hsd.ne, hsd.not_under, Bind.bind, Except.bind]
  simp


theorem trashed_of_created (h : Setting fs I F src) (hc : Created fs cur I name content)
    (hfree : fs.get (F ++ [stemOf name]) = none) :
    Trashed fs (touchDir (touchDir (moveTree cur src (F ++ [stemOf name])) (FS.parent src)) F)
      I F src name content := by
  have g := Geo.of_setting h
  obtain ⟨dst, hdst⟩ : ∃ dst, F ++ [stemOf name] = dst := ⟨_, rfl⟩
  rw [hdst]
  have hFd : F <+: dst := hdst ▸ List.prefix_append F _
  have hFdl : F.length < dst.length := by rw [← hdst]; simp
  have hPl := parent_length g.ne
  have hsd : Inc src dst := hdst ▸ (g.sF.symm.append_left _).symm
  have hsi : Inc src (I ++ [name]) := (g.sI.symm.append_left _).symm
  have hdi : Inc dst (I ++ [name]) := hdst ▸ g.IF.symm.append _ _
  have hdI : Inc dst I := hdst ▸ g.IF.symm.append_left _
  have hiF : Inc (I ++ [name]) F := g.IF.append_left _
  -- reading the final state away from the two touched directories
  have away : ∀ q, q ≠ FS.parent src → q ≠ F →
      (touchDir (touchDir (moveTree cur src dst) (FS.parent src)) F).get q = (moveTree cur src dst).get q :=
    fun q h1 h2 => by rw [get_touchDir_ne _ h2, get_touchDir_ne _ h1]
  -- reading the current state away from the info file
  have old : ∀ q, q ≠ I → q ≠ I ++ [name] → cur.get q = fs.get q := hc.same
  refine ⟨hfree, hc.wasFree, ?_, ?_, ?_, ?_, ?_, ?_, ?_⟩
  · -- whole
    intro rel
    rw [hdst]
    have h1 : dst ++ rel ≠ FS.parent src := (hsd.symm.append_left rel).ne_parent
    have h2 : dst ++ rel ≠ F := (ne_of_length_lt (by simp; omega)).symm
    rw [away _ h1 h2, get_moveTree, if_pos (under_iff.2 (List.prefix_append _ _)), List.drop_left]
    exact old _ (g.sI.append_left rel).ne (hsi.append_left rel).ne
  · -- gone
    intro rel
    have h1 : src ++ rel ≠ FS.parent src := (ne_of_length_lt (by simp; omega)).symm
    have h2 : src ++ rel ≠ F := (g.sF.append_left rel).ne
    rw [away _ h1 h2, get_moveTree, if_neg (hsd.append_left rel).symm.not_under,
      if_pos (under_iff.2 (List.prefix_append _ _))]
  · -- info
    rw [away _ hsi.symm.ne_parent hiF.ne, get_moveTree, if_neg hdi.not_under, if_neg hsi.not_under]
    exact hc.info
  · -- frame
    intro q hq1 hq2 hq3 hq4 hq5 hq6
    rw [hdst] at hq2
    rw [away _ hq4 hq5, get_moveTree, if_neg hq2, if_neg hq1]
    exact old q hq6 hq3
  · -- parent src keeps kind and mode
    apply keptDir_of_touched
    have hP : FS.parent src ≠ F := fun e => g.sF.2 (e ▸ parent_prefix src)
    have h1 : ¬ under dst (FS.parent src) = true :=
      fun hu => hsd.2 ((under_iff.1 hu).trans (parent_prefix src))
    have h2 : ¬ under src (FS.parent src) = true := not_under_of_length_lt (by omega)
    rw [get_touchDir_ne _ hP, get_touchDir_self, get_moveTree, if_neg h1, if_neg h2]
    rw [old _ (fun e => g.sI.2 (e ▸ parent_prefix src)) (fun e => hsi.2 (e ▸ parent_prefix src))]
  · -- files/
    apply keptDir_of_touched
    have hP : F ≠ FS.parent src := fun e => g.sF.2 (e ▸ parent_prefix src)
    rw [get_touchDir_self, get_touchDir_ne _ hP, get_moveTree, if_neg (not_under_of_length_lt hFdl),
      if_neg g.sF.not_under, old _ g.IF.symm.ne hiF.symm.ne]
  · -- info/
    have hP : I ≠ FS.parent src := g.sI.symm.ne_parent
    intro m t hI
    rw [away _ hP g.IF.ne, get_moveTree, if_neg hdI.not_under, if_neg g.sI.not_under]
    exact hc.kept m t hI

end rename

theorem isdirC_absent {fs : FS} {p : CPath} (h : fs.get p = none) : isdirC fs p = false := by
  simp [isdirC, statC, followC, h]

/-- `shutil.move` onto a free destination is one `rename` when that succeeds -/
theorem run_move_free (φ : Oracle) (hren : ∀ n k a c, φ n k (.rename a c) = none) (src dst : CPath)
    (s : RunState) (fs' : FS) (hdst : s.fs.get dst = none) (hok : s.fs.rename src dst = .ok fs') :
    run φ (move src dst) s = (.ok (), after s (.rename src dst) (.ok ()) fs') := by
  unfold move
  rw [run_read_bind]
  simp only [isdirC_absent hdst, Bool.false_eq_true, false_and, if_false, run_bind]
  rw [run_sys_ok φ (.rename src dst) s fs' (hren _ _ _ _) hok]
  rfl


end TrashVerif.Proofs.C17
