/-
  Proofs/C07CmdCore.lean — evaluation of the path functions and of `mkdir_p` on canonical spellings
  whose tail is missing, and of `Janitor.trash_file_in` for a trash directory yet to be made
  (lemmas for Proofs/C07Cmd.lean).
-/
import TrashVerif.Proofs.C16IndepHome
import TrashVerif.Proofs.C08Cmd
import TrashVerif.Props.C07CmdDefs
namespace TrashVerif.Proofs.C07CmdCore
open TrashVerif Prog FS PutCore PutLemmas C07Cmd
open TrashVerif.Proofs.C07 (Plain GoodNames body toStr_ne toStr_snoc body_append body_last comps_toStr_cons
  walk_skip isAbs_toStr dirname_toStr normpath_toStr exists_snoc volumeOf_is_device_root)
open TrashVerif.Proofs.C17 (isDirAt_iff)
open TrashVerif.Proofs.C16IndepHome

/-! ### prefixes of `Q ++ x :: R` -/

theorem cons_eq_snoc (Q : CPath) (x : Name) (R : CPath) : Q ++ x :: R = (Q ++ [x]) ++ R := by simp

/-- a prefix of `Q ++ S` is a prefix of `Q` or `Q` followed by a non-empty prefix of `S` -/
theorem pfx_split {q Q S : CPath} (h : q <+: Q ++ S) : q <+: Q ∨ ∃ k, 0 < k ∧ k ≤ S.length ∧ q = Q ++ S.take k := by
  rw [List.prefix_iff_eq_take] at h
  by_cases hl : q.length ≤ Q.length
  · left
    rw [h, List.take_append_of_le_length hl]
    exact List.take_prefix _ _
  · right
    have hq : q.length ≤ (Q ++ S).length := by
      have := congrArg List.length h
      rw [List.length_take] at this
      omega
    refine ⟨q.length - Q.length, by omega, by simp at hq; omega, ?_⟩
    rw [List.take_append] at h
    rw [List.take_of_length_le (by omega)] at h
    exact h

/-! ### kernel resolution of a spelling whose tail is missing -/

theorem walk_plain_append (fs : FS) (fl : Bool) (fuel : Nat) (rest more : List Bytes) :
    ∀ cur, Plain fs (cur ++ rest) → GoodNames rest →
      walk fs fl fuel cur (rest ++ more) = walk fs fl fuel (cur ++ rest) more := by
  induction rest with
  | nil => intro cur _ _; simp
  | cons c rest ih =>
    intro cur hp hn
    obtain ⟨h1, _, h3, h4, h5⟩ := hn c List.mem_cons_self
    obtain ⟨m, t, hcur⟩ := isDirAt_iff.1 (hp cur (List.prefix_append _ _))
    have e : cur ++ c :: rest = (cur ++ [c]) ++ rest := by simp
    obtain ⟨m', t', hc⟩ := isDirAt_iff.1 (hp (cur ++ [c]) (by rw [e]; exact List.prefix_append _ _))
    rw [List.cons_append, walk, hcur]
    simp only
    rw [if_neg (by simp [h1, h3]), if_neg h4, if_neg (by unfold nameMax; omega)]
    simp only [hc]
    rw [ih (cur ++ [c]) (by rw [← e]; exact hp) hn.tail, e]

theorem walk_missing (fs : FS) (fl : Bool) (fuel : Nat) (cur : CPath) (x : Name) (R : CPath)
    (hd : fs.isDirAt cur = true) (hn : GoodNames (x :: R)) (hx : fs.get (cur ++ [x]) = none) :
    walk fs fl fuel cur (x :: R) = if R = [] then .ok (cur ++ [x]) else .error .ENOENT := by
  obtain ⟨h1, _, h3, h4, h5⟩ := hn x List.mem_cons_self
  obtain ⟨m, t, hcur⟩ := isDirAt_iff.1 hd
  rw [walk, hcur]
  simp only
  rw [if_neg (by simp [h1, h3]), if_neg h4, if_neg (by unfold nameMax; omega)]
  simp only [hx]
  cases R with
  | nil => simp
  | cons y R' =>
    have : y ≠ [] := (hn y (by simp)).1
    simp [this]

/-- `lstat`/`stat` of such a spelling: `Q` plain, nothing at `Q/x` -/
theorem resolve_missing (fs : FS) (cwd Q : CPath) (x : Name) (R : CPath) (fl : Bool) (hp : Plain fs Q)
    (hn : GoodNames (Q ++ x :: R)) (hx : fs.get (Q ++ [x]) = none) :
    resolve fs cwd (toStr (Q ++ x :: R)) fl = if R = [] then .ok (Q ++ [x]) else .error .ENOENT := by
  obtain ⟨m, t, hroot⟩ := isDirAt_iff.1 (hp [] List.nil_prefix)
  obtain ⟨n0, rest0, e0⟩ : ∃ n0 rest0, Q ++ x :: R = n0 :: rest0 := by
    cases Q with
    | nil => exact ⟨x, R, rfl⟩
    | cons y ys => exact ⟨y, ys ++ x :: R, rfl⟩
  have hc := comps_toStr_cons n0 rest0 (e0 ▸ hn)
  obtain ⟨w, z, hw, hz⟩ := body_last (q := n0 :: rest0) (by simp) (e0 ▸ hn)
  have hs : toStr (n0 :: rest0) = w ++ [z] := by rw [toStr_ne (by simp), hw]
  have h1 : ∀ f, walk fs f linkFuel [] ([] :: n0 :: rest0) = if R = [] then .ok (Q ++ [x]) else .error .ENOENT := by
    intro f
    rw [walk_skip _ _ _ _ _ hroot, ← e0]
    have := walk_plain_append fs f linkFuel Q (x :: R) [] (by simpa using hp) hn.left
    rw [this, List.nil_append]
    exact walk_missing fs f linkFuel Q x R (hp Q List.prefix_rfl) hn.right hx
  rw [e0]
  unfold resolve
  rw [if_neg (by rw [hs]; simp), isAbs_toStr, hc]
  have htr : ¬ ((toStr (n0 :: rest0)).getLast? = some slash ∧ ¬ ((toStr (n0 :: rest0)).all (· = slash)) = true) := by
    rw [hs]; simp [hz]
  simp only [htr, decide_false, Bool.or_false, if_true, h1, if_false]
  by_cases hR : R = [] <;> simp [hR]

theorem lstat_missing (fs : FS) (cwd Q : CPath) (x : Name) (R : CPath) (hp : Plain fs Q)
    (hn : GoodNames (Q ++ x :: R)) (hx : fs.get (Q ++ [x]) = none) : lstat fs cwd (toStr (Q ++ x :: R)) = none := by
  unfold lstat
  rw [resolve_missing fs cwd Q x R false hp hn hx]
  by_cases hR : R = [] <;> simp [hR, hx]

theorem stat_missing (fs : FS) (cwd Q : CPath) (x : Name) (R : CPath) (hp : Plain fs Q)
    (hn : GoodNames (Q ++ x :: R)) (hx : fs.get (Q ++ [x]) = none) : stat fs cwd (toStr (Q ++ x :: R)) = none := by
  unfold stat
  rw [resolve_missing fs cwd Q x R true hp hn hx]
  by_cases hR : R = [] <;> simp [hR, hx]

theorem pIsmount_missing (fs : FS) (cwd Q : CPath) (x : Name) (R : CPath) (hp : Plain fs Q)
    (hn : GoodNames (Q ++ x :: R)) (hx : fs.get (Q ++ [x]) = none) :
    pIsmount fs cwd (toStr (Q ++ x :: R)) = false := by
  unfold pIsmount
  rw [resolve_missing fs cwd Q x R false hp hn hx]
  by_cases hR : R = [] <;> simp [hR, hx]

/-! ### `realpath` where no symbolic link is on the way (missing tails are kept) -/

def NoLinks (fs : FS) (p : CPath) : Prop := ∀ q, q <+: p → ∀ t, fs.get q ≠ some (.link t)

theorem realpathAux_nolink (fs : FS) (fuel : Nat) (rest : CPath) :
    ∀ cur, GoodNames rest → NoLinks fs (cur ++ rest) → realpathAux fs fuel cur rest = some (cur ++ rest) := by
  induction rest with
  | nil => intro cur _ _; rw [real_nil]; simp
  | cons c rest ih =>
    intro cur hn hnl
    obtain ⟨h1, _, h3, h4, h5⟩ := hn c List.mem_cons_self
    have e : cur ++ c :: rest = (cur ++ [c]) ++ rest := by simp
    have hc : ∀ t, fs.get (cur ++ [c]) ≠ some (.link t) := hnl _ (by rw [e]; exact List.prefix_append _ _)
    rw [realpathAux, if_neg (by simp [h1, h3]), if_neg h4]
    simp only
    generalize hg : (if isDirAt fs cur = true ∧ c.length ≤ nameMax then fs.get (cur ++ [c]) else none) = o
    have ho : ∀ t, o ≠ some (.link t) := by
      rw [← hg]; split
      · exact hc
      · intro t h; cases h
    have hrec := ih (cur ++ [c]) hn.tail (by rw [← e]; exact hnl)
    rw [← e] at hrec
    rcases o with _ | (_ | _ | t)
    · exact hrec
    · exact hrec
    · exact hrec
    · exact absurd rfl (ho t)

theorem realpath_nolink (fs : FS) (cwd T : CPath) (hn : GoodNames T) (hnl : NoLinks fs T) :
    realpath fs cwd (toStr T) = some T := by
  unfold realpath
  rw [isAbs_toStr]
  cases T with
  | nil =>
    have hc : comps (toStr []) = [[], []] := by decide
    rw [hc, realpathAux, if_pos (Or.inl rfl), realpathAux, if_pos (Or.inl rfl), real_nil]
    rfl
  | cons n rest =>
    rw [comps_toStr_cons n rest hn, realpathAux, if_pos (Or.inl rfl)]
    have := realpathAux_nolink fs linkFuel (n :: rest) [] hn (by simpa using hnl)
    simpa using this

theorem realpathStr_nolink (fs : FS) (cwd T : CPath) (hn : GoodNames T) (hnl : NoLinks fs T) :
    realpathStr fs cwd (toStr T) = toStr T := by
  unfold realpathStr; rw [realpath_nolink fs cwd T hn hnl]

theorem dirC_nolink (fs : FS) (cwd T : CPath) (hn : GoodNames T) (hnl : NoLinks fs T) :
    dirC fs cwd (toStr T) = T := by
  unfold dirC; rw [realpath_nolink fs cwd T hn hnl]; rfl

theorem noLinks_of_plain {fs : FS} {Q : CPath} (hp : Plain fs Q) : NoLinks fs Q := by
  intro q hq t h
  obtain ⟨m, t', hg⟩ := isDirAt_iff.1 (hp q hq)
  rw [hg] at h; cases h

/-- `Q` plain, then a tail every non-empty initial part of which is missing -/
theorem noLinks_missing {fs : FS} {Q S : CPath} (hp : Plain fs Q)
    (hm : ∀ k, 0 < k → k ≤ S.length → fs.get (Q ++ S.take k) = none) : NoLinks fs (Q ++ S) := by
  intro q hq t h
  rcases pfx_split hq with h1 | ⟨k, k0, k1, rfl⟩
  · exact noLinks_of_plain hp q h1 t h
  · rw [hm k k0 k1] at h; cases h

/-! ### the lexical volume ascent from a spelling whose tail is missing -/

open TrashVerif.Proofs.C07 (volumeOfAux_plain toStr_snoc_ne toStr_length GoodNames.take)

theorem goodNames_take_tail {Q : CPath} {x : Name} {R : CPath} (hn : GoodNames (Q ++ x :: R)) (j : Nat) :
    GoodNames (Q ++ x :: R.take j) := by
  intro m hm
  apply hn m
  simp only [List.mem_append, List.mem_cons] at hm ⊢
  rcases hm with h | h | h
  · exact .inl h
  · exact .inr (.inl h)
  · exact .inr (.inr (List.mem_of_mem_take h))

theorem volumeOfAux_site (fs : FS) (cwd Q : CPath) (hp : Plain fs Q) (k : Nat) :
    ∀ (S : CPath), S.length = k → ∀ fuel, (Q ++ S).length < fuel → GoodNames (Q ++ S) →
      (∀ j, 0 < j → j ≤ S.length → pIsmount fs cwd (toStr (Q ++ S.take j)) = false) →
      volumeOfAux fs cwd fuel (toStr (Q ++ S)) = toStr (dev fs Q) := by
  induction k with
  | zero =>
    intro S hS fuel hf hn _
    obtain rfl := List.length_eq_zero_iff.1 hS
    rw [List.append_nil] at hf hn ⊢
    exact volumeOfAux_plain fs cwd Q.length Q rfl fuel hf hp hn
  | succ k ih =>
    intro S hS fuel hf hn hm
    have hS0 : S ≠ [] := by intro e; rw [e] at hS; cases hS
    obtain ⟨S', y, rfl⟩ := exists_snoc hS0
    obtain ⟨f, rfl⟩ : ∃ f, fuel = f + 1 := ⟨fuel - 1, by omega⟩
    have hl : S'.length = k := by simpa using hS
    have hn' : GoodNames ((Q ++ S') ++ [y]) := by rw [List.append_assoc]; exact hn
    have hdn := dirname_toStr (Q ++ S') y hn'
    have hne : ¬ toStr ((Q ++ S') ++ [y]) = dirname (toStr ((Q ++ S') ++ [y])) := by
      rw [hdn]; exact toStr_snoc_ne (Q ++ S') y (hn' y (by simp)).1
    have hmnt : pIsmount fs cwd (toStr ((Q ++ S') ++ [y])) = false := by
      have := hm (S' ++ [y]).length (by simp) (Nat.le_refl _)
      rw [List.take_length, ← List.append_assoc] at this
      exact this
    rw [← List.append_assoc, volumeOfAux, if_neg hne, hmnt, if_neg (by simp), hdn]
    refine ih S' hl f (by simp at hf ⊢; omega) hn'.left (fun j j0 j1 => ?_)
    have := hm j j0 (by simp <;> omega)
    rw [List.take_append_of_le_length j1] at this
    exact this

theorem volumeOf_missing (fs : FS) (cwd Q : CPath) (x : Name) (R : CPath) (hp : Plain fs Q)
    (hn : GoodNames (Q ++ x :: R)) (hx : fs.get (Q ++ [x]) = none) :
    volumeOf fs cwd (toStr (Q ++ x :: R)) = toStr (dev fs Q) := by
  unfold volumeOf abspath
  simp only [isAbs_toStr, if_true, normpath_toStr _ hn]
  refine volumeOfAux_site fs cwd Q hp _ (x :: R) rfl _ (Nat.lt_succ_of_le (toStr_length _)) hn (fun j j0 _ => ?_)
  obtain ⟨i, rfl⟩ : ∃ i, j = i + 1 := ⟨j - 1, by omega⟩
  rw [List.take_succ_cons]
  exact pIsmount_missing fs cwd Q x (R.take i) hp (goodNames_take_tail hn i) hx

/-- the volume gate's view of a `Site`: the device root of its existing part -/
theorem volumeOf_site {fs : FS} {Q R : CPath} (cwd : CPath) (S : Site fs Q R) (hroot : fs.isMount [] = true) :
    volumeOf fs cwd (toStr (Q ++ R)) = toStr (dev fs Q) := by
  cases R with
  | nil => rw [List.append_nil]; exact volumeOf_is_device_root fs cwd Q S.basePlain (by have := S.names; rw [List.append_nil] at this; exact this) hroot
  | cons x R' => exact volumeOf_missing fs cwd Q x R' S.basePlain S.names (by simpa using S.missing x R' rfl [])

/-! ### no dangling link on the way to a directory yet to be made -/

open TrashVerif.Proofs.C07 (mem_strPrefixes_toStr pExists_plain Plain.take)

theorem danglingOnPath_of (fs : FS) (cwd : CPath) (p : Bytes)
    (h : ∀ q ∈ strPrefixes p, pExists fs cwd q = false → pLexists fs cwd q = false) :
    danglingOnPath fs cwd p = none := by
  unfold danglingOnPath
  cases hf : (strPrefixes p).find? (fun q => ¬ pExists fs cwd q) with
  | none => rfl
  | some q =>
    have h1 := List.find?_some hf
    have h2 := List.mem_of_find?_eq_some hf
    have h3 : pExists fs cwd q = false := by simpa using h1
    simp only [h q h2 h3]
    rfl

theorem danglingOnPath_missing (fs : FS) (cwd Q : CPath) (x : Name) (R : CPath) (hp : Plain fs Q)
    (hn : GoodNames (Q ++ x :: R)) (hx : fs.get (Q ++ [x]) = none) :
    danglingOnPath fs cwd (toStr (Q ++ x :: R)) = none := by
  apply danglingOnPath_of
  intro q hq hex
  obtain ⟨k, rfl⟩ := mem_strPrefixes_toStr _ hn q hq
  rcases pfx_split (List.take_prefix k (Q ++ x :: R)) with h1 | ⟨j, j0, _, e⟩
  · have hpl : Plain fs ((Q ++ x :: R).take k) := fun r hr => hp r (hr.trans h1)
    rw [pExists_plain fs cwd _ hpl (hn.take k)] at hex
    cases hex
  · obtain ⟨i, rfl⟩ : ∃ i, j = i + 1 := ⟨j - 1, by omega⟩
    rw [e, List.take_succ_cons]
    unfold pLexists
    rw [lstat_missing fs cwd Q x (R.take i) hp (goodNames_take_tail hn i) hx]
    rfl

/-! ### `mkdir` and `os.makedirs` of a missing chain -/

/-- the state after a successful `mkdir(p, mode)` -/
def mk1 (fs : FS) (p : CPath) (mode : Nat) : FS := touchDir (setNode fs p (.dir (applyUmask mode) 0)) (parent p)

theorem mk1_get (fs : FS) (c : CPath) (x : Name) (mode : Nat) (q : CPath) :
    (mk1 fs (c ++ [x]) mode).get q =
      if q = c ++ [x] then some (.dir (applyUmask mode) 0) else if q = c then touch (fs.get c) else fs.get q := by
  have : c ≠ c ++ [x] := by intro h; simpa using congrArg List.length h
  simp only [mk1, get_touchDir, get_setNode, parent, List.dropLast_concat, if_neg this]
  by_cases h1 : q = c ++ [x]
  · subst h1; simp
  · simp [h1]

theorem mk1_mounts (fs : FS) (p : CPath) (mode : Nat) : (mk1 fs p mode).mounts = fs.mounts := by simp [mk1]

theorem mkdir_concat (fs : FS) (c : CPath) (x : Name) (mode : Nat) {m t : Nat} (hc : fs.get c = some (.dir m t))
    (hx : x.length ≤ 255) (hfree : fs.get (c ++ [x]) = none) :
    fs.mkdir (c ++ [x]) mode = .ok (mk1 fs (c ++ [x]) mode) := by
  unfold FS.mkdir checkParent
  simp only [List.getLast?_concat, parent, List.dropLast_concat, nameMax, hc]
  have hx' : ¬ x.length > 255 := by omega
  simp [hx', exists_, hfree, mk1, parent, Bind.bind, Except.bind]

/-- pointwise description of the state after `os.makedirs(Q ++ x :: R, mode)` where nothing was at or below `Q/x` -/
structure Made (fs fs' : FS) (Q : CPath) (x : Name) (R : CPath) (mode : Nat) : Prop where
  mounts : fs'.mounts = fs.mounts
  base : fs'.get Q = touch (fs.get Q)
  anc : ∀ k, k < R.length → fs'.get (Q ++ x :: R.take k) = some (.dir 0o755 0)
  leaf : fs'.get (Q ++ x :: R) = some (.dir (applyUmask mode) 0)
  frame : ∀ q, q ≠ Q → ¬ (Q ++ [x] <+: q ∧ q <+: Q ++ x :: R) → fs'.get q = fs.get q

theorem ancestorCalls_nil (Q : CPath) (x : Name) : ancestorCalls Q x [] = [] := rfl

theorem ancestorCalls_snoc (Q : CPath) (x : Name) (R : CPath) (y : Name) :
    ancestorCalls Q x (R ++ [y]) = (Call.mkdir (Q ++ x :: R) 0o777, Except.ok ()) :: ancestorCalls Q x R := by
  unfold ancestorCalls
  rw [List.length_append, List.length_singleton, List.range_succ, List.reverse_append, List.reverse_singleton,
    List.singleton_append, List.map_cons, List.take_left']
  · congr 1
    apply List.map_congr_left
    intro k hk
    have hk' : k < R.length := by simpa using hk
    rw [List.take_append_of_le_length (Nat.le_of_lt hk')]
  · rfl

theorem applyUmask_777 : applyUmask 0o777 = 0o755 := by decide
theorem applyUmask_700 : applyUmask 0o700 = 0o700 := by decide

theorem len_ne {α} {a c : List α} (h : a.length ≠ c.length) : a ≠ c := fun e => h (congrArg List.length e)

theorem makedirs_fresh (Q : CPath) (x : Name) (k : Nat) :
    ∀ (R : CPath), R.length = k → ∀ (fuel mode : Nat) (s : RunState), k ≤ fuel → Plain s.fs Q →
      GoodNames (Q ++ x :: R) → (∀ rel, s.fs.get (Q ++ x :: rel) = none) →
      ∃ s', run noFaults (makedirs fuel (Q ++ x :: R) mode) s = (.ok (), s') ∧ Made s.fs s'.fs Q x R mode ∧
        s'.trace = (Call.mkdir (Q ++ x :: R) mode, Except.ok ()) :: (ancestorCalls Q x R ++ s.trace) ∧
        s'.outs = s.outs := by
  induction k with
  | zero =>
    intro R hR fuel mode s _ hp hn hfresh
    obtain rfl := List.length_eq_zero_iff.1 hR
    obtain ⟨m, t, hQ⟩ := isDirAt_iff.1 (hp Q List.prefix_rfl)
    have hx : x.length ≤ 255 := (hn x (by simp)).2.2.2.2
    have hmk := mkdir_concat s.fs Q x mode hQ hx (by simpa using hfresh [])
    have hsys := run_sys_ok (c := .mkdir (Q ++ [x]) mode) (s := s) hmk
    have hrun : run noFaults (makedirs fuel (Q ++ [x]) mode) s = run noFaults (sys (.mkdir (Q ++ [x]) mode)) s := by
      cases fuel with
      | zero => rw [makedirs]
      | succ f =>
        rw [makedirs, run_read_bind]
        have hc : ¬ (Q ++ [x] ≠ [] ∧ (Q ++ [x]).dropLast ≠ [] ∧ ¬ existsC s.fs (Q ++ [x]).dropLast = true) := by
          rintro ⟨_, _, h3⟩
          rw [List.dropLast_concat] at h3
          exact h3 (isDirAt_existsC (hp Q List.prefix_rfl))
        rw [if_neg hc]
    refine ⟨_, hrun.trans hsys, ?_, rfl, rfl⟩
    refine ⟨mk1_mounts _ _ _, ?_, (fun k hk => absurd hk (Nat.not_lt_zero _)), ?_, ?_⟩
    · show (mk1 s.fs (Q ++ [x]) mode).get Q = _
      rw [mk1_get, if_neg (len_ne (by simp)), if_pos rfl]
    · show (mk1 s.fs (Q ++ [x]) mode).get (Q ++ [x]) = _
      rw [mk1_get, if_pos rfl]
    · intro q h1 h2
      show (mk1 s.fs (Q ++ [x]) mode).get q = _
      have n1 : q ≠ Q ++ [x] := fun e => h2 (by rw [e]; exact ⟨List.prefix_rfl, List.prefix_rfl⟩)
      rw [mk1_get, if_neg n1, if_neg h1]
  | succ k ih =>
    intro R hR fuel mode s hfuel hp hn hfresh
    have hR0 : R ≠ [] := by intro e; rw [e] at hR; cases hR
    obtain ⟨R', y, rfl⟩ := exists_snoc hR0
    obtain ⟨f, rfl⟩ : ∃ f, fuel = f + 1 := ⟨fuel - 1, by omega⟩
    have hl : R'.length = k := by simpa using hR
    have ec : Q ++ x :: (R' ++ [y]) = (Q ++ x :: R') ++ [y] := by simp
    have hn' : GoodNames ((Q ++ x :: R') ++ [y]) := by rw [← ec]; exact hn
    have hy : y.length ≤ 255 := (hn' y (by simp)).2.2.2.2
    have hnone : s.fs.get (Q ++ x :: R') = none := hfresh R'
    have hcond : (Q ++ x :: R') ++ [y] ≠ [] ∧ ((Q ++ x :: R') ++ [y]).dropLast ≠ [] ∧
        ¬ existsC s.fs ((Q ++ x :: R') ++ [y]).dropLast = true := by
      refine ⟨by simp, by rw [List.dropLast_concat]; simp, ?_⟩
      rw [List.dropLast_concat]
      simp [existsC, statC, followC, hnone]
    obtain ⟨s1, hrun1, hM, htr1, hout1⟩ := ih R' hl f 0o777 s (by omega) hp hn'.left hfresh
    have hleaf : s1.fs.get (Q ++ x :: R') = some (.dir 0o755 0) := by rw [hM.leaf, applyUmask_777]
    have hfree1 : s1.fs.get ((Q ++ x :: R') ++ [y]) = none := by
      rw [hM.frame _ (len_ne (by simp <;> omega)) (fun h => by have := h.2.length_le; simp at this; omega), ← ec]
      exact hfresh _
    have hmk := mkdir_concat s1.fs (Q ++ x :: R') y mode hleaf hy hfree1
    have hsys := run_sys_ok (c := .mkdir ((Q ++ x :: R') ++ [y]) mode) (s := s1) hmk
    refine ⟨⟨mk1 s1.fs ((Q ++ x :: R') ++ [y]) mode, s1.fs :: s1.hist,
        (Call.mkdir ((Q ++ x :: R') ++ [y]) mode, Except.ok ()) :: s1.trace, s1.outs, s1.n + 1⟩, ?_, ?_, ?_, ?_⟩
    · rw [ec, makedirs, run_read_bind, if_pos hcond, run_bind, List.dropLast_concat, hrun1]
      exact hsys
    · refine ⟨?_, ?_, ?_, ?_, ?_⟩
      · show (mk1 s1.fs ((Q ++ x :: R') ++ [y]) mode).mounts = _
        rw [mk1_mounts]; exact hM.mounts
      · show (mk1 s1.fs ((Q ++ x :: R') ++ [y]) mode).get Q = _
        rw [mk1_get, if_neg (len_ne (by simp <;> omega)), if_neg (len_ne (by simp <;> omega))]
        exact hM.base
      · intro j hj
        show (mk1 s1.fs ((Q ++ x :: R') ++ [y]) mode).get _ = _
        have hj' : j ≤ R'.length := by simp at hj; omega
        rw [List.take_append_of_le_length hj', mk1_get,
          if_neg (len_ne (by simp [List.length_take] <;> omega))]
        by_cases hjl : j = R'.length
        · subst hjl
          rw [List.take_length, if_pos rfl, hleaf]; rfl
        · rw [if_neg (len_ne (by simp [List.length_take] <;> omega))]
          exact hM.anc j (by omega)
      · show (mk1 s1.fs ((Q ++ x :: R') ++ [y]) mode).get _ = _
        rw [ec, mk1_get, if_pos rfl]
      · intro q h1 h2
        show (mk1 s1.fs ((Q ++ x :: R') ++ [y]) mode).get q = _
        have hpre : Q ++ [x] <+: Q ++ x :: R' := by rw [cons_eq_snoc Q x R']; exact List.prefix_append _ _
        rw [ec] at h2
        have n1 : q ≠ (Q ++ x :: R') ++ [y] :=
          fun e => h2 (by rw [e]; exact ⟨hpre.trans (List.prefix_append _ _), List.prefix_rfl⟩)
        have n2 : q ≠ Q ++ x :: R' := fun e => h2 (by rw [e]; exact ⟨hpre, List.prefix_append _ _⟩)
        rw [mk1_get, if_neg n1, if_neg n2]
        exact hM.frame q h1 (fun h => h2 ⟨h.1, h.2.trans (List.prefix_append _ _)⟩)
    · show (Call.mkdir ((Q ++ x :: R') ++ [y]) mode, Except.ok ()) :: s1.trace = _
      rw [htr1, ancestorCalls_snoc, ec]
      rfl
    · exact hout1

theorem noLinks_fresh {fs : FS} {Q : CPath} {x : Name} {R : CPath} (hp : Plain fs Q)
    (hfresh : ∀ rel, fs.get (Q ++ x :: rel) = none) : NoLinks fs (Q ++ x :: R) := by
  refine noLinks_missing hp (fun k k0 _ => ?_)
  obtain ⟨i, rfl⟩ : ∃ i, k = i + 1 := ⟨k - 1, by omega⟩
  rw [List.take_succ_cons]; exact hfresh _

/-- `mkdir_p` on the canonical spelling of a directory yet to be made -/
theorem mkdirPStr_fresh (s : RunState) (cwd Q : CPath) (x : Name) (R : CPath) (mode : Nat) (hp : Plain s.fs Q)
    (hn : GoodNames (Q ++ x :: R)) (hfresh : ∀ rel, s.fs.get (Q ++ x :: rel) = none) :
    ∃ s', run noFaults (mkdirPStr cwd (toStr (Q ++ x :: R)) mode) s = (.ok (), s') ∧ Made s.fs s'.fs Q x R mode ∧
      s'.trace = (Call.mkdir (Q ++ x :: R) mode, Except.ok ()) :: (ancestorCalls Q x R ++ s.trace) ∧
      s'.outs = s.outs := by
  obtain ⟨s', h1, h2, h3, h4⟩ := makedirs_fresh Q x R.length R rfl (Q ++ x :: R).length mode s (by simp; omega) hp hn hfresh
  refine ⟨s', ?_, h2, h3, h4⟩
  unfold mkdirPStr
  rw [run_read_bind, danglingOnPath_missing s.fs cwd Q x R hp hn (by simpa using hfresh []),
    dirC_nolink s.fs cwd _ hn (noLinks_fresh hp hfresh)]
  simp only []
  unfold mkdirP
  rw [run_bind, h1]
  rfl

/-! ### what `Made` keeps -/

section made
variable {fs fs' : FS} {Q : CPath} {x : Name} {R : CPath} {mode : Nat} (M : Made fs fs' Q x R mode)
  (hfresh : ∀ rel, fs.get (Q ++ x :: rel) = none)
include M

omit M in
/-- the chain `Q/x … ` is `Q ++ x :: R.take j` -/
theorem chain_cases {q : CPath} (h1 : Q ++ [x] <+: q) (h2 : q <+: Q ++ x :: R) : ∃ j, j ≤ R.length ∧ q = Q ++ x :: R.take j := by
  rcases pfx_split (S := x :: R) h2 with h | ⟨k, k0, k1, e⟩
  · have := (h1.trans h).length_le; simp at this; omega
  · obtain ⟨i, rfl⟩ : ∃ i, k = i + 1 := ⟨k - 1, by omega⟩
    exact ⟨i, by simpa using k1, by rw [e, List.take_succ_cons]⟩

omit M in
theorem touch_isDir' {o : Option Node} {m t : Nat} (h : o = some (.dir m t)) : ∃ t', touch o = some (.dir m t') :=
  ⟨0, touch_dir h⟩

theorem Made.isDir_chain {q : CPath} (h1 : Q ++ [x] <+: q) (h2 : q <+: Q ++ x :: R) : fs'.isDirAt q = true := by
  obtain ⟨j, hj, rfl⟩ := chain_cases h1 h2
  by_cases hjl : j = R.length
  · subst hjl; rw [List.take_length]; simp [isDirAt, M.leaf, Node.isDir]
  · simp [isDirAt, M.anc j (by omega), Node.isDir]

include hfresh in
/-- a path that existed before is still there, same kind (same node unless it is `Q`) -/
theorem Made.keeps {q : CPath} (hq : (fs.get q).isSome = true) :
    (q ≠ Q → fs'.get q = fs.get q) ∧ fs'.isDirAt q = fs.isDirAt q := by
  have hnc : ¬ (Q ++ [x] <+: q ∧ q <+: Q ++ x :: R) := by
    rintro ⟨⟨t, rfl⟩, _⟩
    rw [List.append_assoc, List.singleton_append, hfresh] at hq; cases hq
  refine ⟨fun h => M.frame q h hnc, ?_⟩
  by_cases h : q = Q
  · subst h
    unfold isDirAt
    rw [M.base]
    rcases fs.get q with _ | (_ | _ | _) <;> rfl
  · unfold isDirAt; rw [M.frame q h hnc]

include hfresh in
theorem Made.plain_old {P : CPath} (hp : Plain fs P) : Plain fs' P := by
  intro q hq
  have hd := hp q hq
  obtain ⟨m, t, hg⟩ := isDirAt_iff.1 hd
  rw [(M.keeps hfresh (q := q) (by simp [hg])).2]; exact hd

include hfresh in
theorem Made.plain_new (hp : Plain fs Q) : Plain fs' (Q ++ x :: R) := by
  intro q hq
  rcases pfx_split (S := x :: R) hq with h | ⟨k, k0, k1, e⟩
  · exact M.plain_old hfresh hp q h
  · refine M.isDir_chain ?_ hq
    obtain ⟨i, rfl⟩ : ∃ i, k = i + 1 := ⟨k - 1, by omega⟩
    rw [e, List.take_succ_cons, cons_eq_snoc Q x (R.take i)]
    exact List.prefix_append _ _

include hfresh in
/-- nothing is below the new leaf -/
theorem Made.fresh_below (z : Name) (rel : CPath) : fs'.get ((Q ++ x :: R) ++ z :: rel) = none := by
  have e : (Q ++ x :: R) ++ z :: rel = Q ++ x :: (R ++ z :: rel) := by simp
  rw [M.frame _ (len_ne (by simp <;> omega)) (fun h => by have := h.2.length_le; simp at this; omega), e]
  exact hfresh _

end made

/-! ### the three `mkdir_p` of `trash_file_in`, together -/

theorem files_ne_info' : b "files" ≠ b "info" := by decide +kernel
theorem goodName_files : b "files" ≠ [] ∧ slash ∉ b "files" ∧ b "files" ≠ [dot] ∧ b "files" ≠ dotdot ∧ (b "files").length ≤ 255 := by
  decide +kernel
theorem goodName_info : b "info" ≠ [] ∧ slash ∉ b "info" ∧ b "info" ≠ [dot] ∧ b "info" ≠ dotdot ∧ (b "info").length ≤ 255 := by
  decide +kernel

theorem goodNames_snoc {T : CPath} {z : Name} (hT : GoodNames T)
    (hz : z ≠ [] ∧ slash ∉ z ∧ z ≠ [dot] ∧ z ≠ dotdot ∧ z.length ≤ 255) : GoodNames (T ++ [z]) :=
  goodNames_append hT (goodNames_single hz)

theorem siteCreated_of_made {fs fs1 fs2 fs3 : FS} {Q : CPath} {x : Name} {R : CPath}
    (hp : Plain fs Q)
    (M1 : Made fs fs1 Q x R 0o700) (M2 : Made fs1 fs2 (Q ++ x :: R) (b "files") [] 0o700)
    (M3 : Made fs2 fs3 (Q ++ x :: R) (b "info") [] 0o700) : SiteCreated fs fs3 Q x R := by
  have hTQ : Q ++ x :: R ≠ Q := len_ne (by simp <;> omega)
  -- a path that is not `T`, `T/files`, `T/info` is in `fs3` what it is in `fs1`
  have back : ∀ q, q ≠ Q ++ x :: R → q ≠ filesOf (Q ++ x :: R) → q ≠ infoOf (Q ++ x :: R) → fs3.get q = fs1.get q := by
    intro q h1 h2 h3
    rw [M3.frame q h1 (fun h => h3 (h.2.eq_of_length_le h.1.length_le)),
      M2.frame q h1 (fun h => h2 (h.2.eq_of_length_le h.1.length_le))]
  have hFI : filesOf (Q ++ x :: R) ≠ infoOf (Q ++ x :: R) := by
    intro e
    exact files_ne_info' (by simpa [filesOf, infoOf] using e)
  have hF_T : filesOf (Q ++ x :: R) ≠ Q ++ x :: R := len_ne (by simp [filesOf])
  have hI_T : infoOf (Q ++ x :: R) ≠ Q ++ x :: R := len_ne (by simp [infoOf])
  have hT1 : fs1.get (Q ++ x :: R) = some (.dir 0o700 0) := by rw [M1.leaf, applyUmask_700]
  have hT2 : fs2.get (Q ++ x :: R) = some (.dir 0o700 0) := by rw [M2.base, hT1]; rfl
  refine ⟨?_, ?_, ?_, ?_, ?_, ?_, ?_⟩
  · rw [M3.mounts, M2.mounts, M1.mounts]
  · obtain ⟨m, t, hQ⟩ := isDirAt_iff.1 (hp Q List.prefix_rfl)
    refine ⟨m, t, hQ, ?_⟩
    rw [back Q (Ne.symm hTQ) (len_ne (by simp [filesOf] <;> omega)) (len_ne (by simp [infoOf] <;> omega)), M1.base, hQ]
    rfl
  · intro k hk
    rw [back _ (len_ne (by simp [List.length_take] <;> omega)) (len_ne (by simp [filesOf, List.length_take] <;> omega))
      (len_ne (by simp [infoOf, List.length_take] <;> omega))]
    exact M1.anc k hk
  · rw [M3.base, hT2]; rfl
  · rw [M3.frame _ hF_T (fun h => hFI (h.2.eq_of_length_le h.1.length_le))]
    have := M2.leaf
    rw [applyUmask_700] at this
    exact this
  · have := M3.leaf
    rw [applyUmask_700] at this
    exact this
  · intro q h1 h2 h3 h4
    have hqT : q ≠ Q ++ x :: R := by
      intro e
      subst e
      refine h2 ⟨?_, List.prefix_rfl⟩
      rw [cons_eq_snoc Q x R]; exact List.prefix_append _ _
    rw [back q hqT h3 h4]
    exact M1.frame q h1 h2

/-! ### the core, exactly, when the first name tried is free -/

open TrashVerif.Proofs.C16IndepCore (createExcl_result)

theorem atomicWrite_exact {p : CPath} {content : Bytes} {s : RunState} {fs1 : FS}
    (h : s.fs.createExcl p 0o600 = .ok fs1) (hp : fs1.get p = some (.file [] 0o600 0)) :
    run noFaults (atomicWrite p content) s =
      (.ok (), ⟨fs1.setNode p (.file content 0o600 0), fs1.setNode p (.file content 0o600 0) :: fs1 :: s.fs :: s.hist,
        (Call.close p, Except.ok ()) :: (Call.write p content, Except.ok ()) :: (Call.createExcl p 0o600, Except.ok ()) :: s.trace,
        s.outs, s.n + 3⟩) := by
  simp [atomicWrite, run_bind, run_sys, Call.apply, h, FS.writeData, hp]

theorem stem_base (base : Bytes) : stemOf (base ++ trashinfoExt) = base := by
  unfold stemOf
  rw [List.length_append, Nat.add_sub_cancel, List.take_left']
  rfl

theorem persist_first (I F : CPath) (base content : Bytes) (fuel : Nat) (st : PutSt) (s : RunState) {m t : Nat}
    (hI : s.fs.get I = some (.dir m t)) (hF : s.fs.get (F ++ [base]) = none)
    (hN : s.fs.get (I ++ [base ++ trashinfoExt]) = none) (hlen : (base ++ trashinfoExt).length ≤ 255) :
    run noFaults (persistLoop I F base content (fuel + 1) 0 false st) s =
      ((.created (base ++ trashinfoExt), st),
        ⟨fsB s.fs (I ++ [base ++ trashinfoExt]) content,
         fsB s.fs (I ++ [base ++ trashinfoExt]) content :: fsA s.fs (I ++ [base ++ trashinfoExt]) :: s.fs :: s.hist,
         (Call.close (I ++ [base ++ trashinfoExt]), Except.ok ()) ::
           (Call.write (I ++ [base ++ trashinfoExt]) content, Except.ok ()) ::
           (Call.createExcl (I ++ [base ++ trashinfoExt]) 0o600, Except.ok ()) :: s.trace,
         s.outs, s.n + 3⟩) := by
  have hc := createExcl_result s.fs I (base ++ trashinfoExt) hI
  rw [if_neg (by omega), if_neg (by simp [hN])] at hc
  have hp : (fsA s.fs (I ++ [base ++ trashinfoExt])).get (I ++ [base ++ trashinfoExt]) = some (.file [] 0o600 0) := by
    simp [fsA, parent]
  have haw := atomicWrite_exact (content := content) hc hp
  rw [persistLoop]
  have h0 : suffixFor 0 st = ([], st) := rfl
  have hname : trashinfoBasename base [] false = base ++ trashinfoExt := rfl
  simp only [h0, hname, run_read_bind]
  have hst : List.take (List.length (base ++ trashinfoExt) - List.length trashinfoExt) (base ++ trashinfoExt) = base :=
    stem_base base
  rw [hst, if_neg (by simp [lexistsC, hF]), run_bind, haw]
  rfl


theorem move_exact {src c : CPath} {x : Name} {s : RunState} {na : Node} {m t : Nat}
    (hdst : s.fs.get (c ++ [x]) = none) (hsrc : s.fs.get src = some na)
    (hmnt : s.fs.isMount src = false) (hdev : s.fs.dev (parent src) = s.fs.dev c)
    (hx : x.length ≤ 255) (hc : s.fs.get c = some (.dir m t))
    (hne : src ≠ c ++ [x]) (hnu : ¬ FS.under src (c ++ [x]) = true) :
    run noFaults (move src (c ++ [x])) s =
      (.ok (), ⟨touchDir (touchDir (moveTree s.fs src (c ++ [x])) (parent src)) c, s.fs :: s.hist,
        (Call.rename src (c ++ [x]), Except.ok ()) :: s.trace, s.outs, s.n + 1⟩) := by
  have hid : isdirC s.fs (c ++ [x]) = false := by simp [isdirC, statC, followC, hdst]
  have hcp : checkParent s.fs (c ++ [x]) = .ok () := by
    unfold checkParent
    simp only [List.getLast?_concat, parent, List.dropLast_concat, nameMax, hc]
    simp [Nat.not_lt.2 hx]
  have hr : s.fs.rename src (c ++ [x]) = .ok (touchDir (touchDir (moveTree s.fs src (c ++ [x])) (parent src)) c) := by
    unfold FS.rename
    have hdev' : s.fs.dev (List.dropLast src) = s.fs.dev c := hdev
    simp [hsrc, hmnt, parent, hdev', hcp, hne, hnu, hdst, Bind.bind, Except.bind]
  unfold move
  simp [hid, run_bind, run_sys, Call.apply, hr]

theorem putCore_fresh {I F S : CPath} (base content : Bytes) (srcOf : FS → Except Errno CPath) (st : PutSt)
    (s : RunState) (h : Setting s.fs I F S)
    (hF : s.fs.get (F ++ [base]) = none) (hN : s.fs.get (I ++ [base ++ trashinfoExt]) = none)
    (hlen : (base ++ trashinfoExt).length ≤ 255)
    (hsrc : srcOf (fsB s.fs (I ++ [base ++ trashinfoExt]) content) = .ok S) :
    ∃ s', run noFaults (putCore I F base content srcOf st) s = ((.ok (base ++ trashinfoExt), st), s') ∧
      s'.fs = fsC (fsB s.fs (I ++ [base ++ trashinfoExt]) content) S (F ++ [base]) F ∧
      s'.trace = (Call.rename S (F ++ [base]), Except.ok ()) ::
        (Call.close (I ++ [base ++ trashinfoExt]), Except.ok ()) ::
        (Call.write (I ++ [base ++ trashinfoExt]) content, Except.ok ()) ::
        (Call.createExcl (I ++ [base ++ trashinfoExt]) 0o600, Except.ok ()) :: s.trace ∧
      s'.outs = s.outs := by
  have g := Geo.of_setting h
  obtain ⟨mI, tI, hI⟩ := isDirAt_get h.infoDir
  obtain ⟨m, t, hFd⟩ := isDirAt_get h.filesDir
  obtain ⟨na, hna⟩ := Option.isSome_iff_exists.1 h.srcExists
  have hst : base ++ trashinfoExt = stemOf (base ++ trashinfoExt) ++ trashinfoExt := by rw [stem_base]
  have hnt : base ≠ base ++ trashinfoExt := by
    have := stem_ne hst; rw [stem_base] at this; exact this
  have hlt : base.length ≤ 255 := by rw [List.length_append] at hlen; omega
  have d1 : F ++ [base] ≠ I ++ [base ++ trashinfoExt] := fun e => g.D_P hnt (e ▸ List.prefix_refl _)
  have d2 : F ++ [base] ≠ I := fun e => g.D_I (t := base) (e ▸ List.prefix_refl _)
  have d3 : S ≠ I ++ [base ++ trashinfoExt] := fun e => g.S_P (n := base ++ trashinfoExt) (e ▸ List.prefix_refl _)
  have d4 : S ≠ I := fun e => g.h3 (e ▸ List.prefix_refl _)
  have e1 : (fsB s.fs (I ++ [base ++ trashinfoExt]) content).get (F ++ [base]) = none := by
    rw [fsB_get, if_neg d1, if_neg d2, hF]
  have e2 : (fsB s.fs (I ++ [base ++ trashinfoExt]) content).get S = some na := by
    rw [fsB_get, if_neg d3, if_neg d4, hna]
  have hm : (fsB s.fs (I ++ [base ++ trashinfoExt]) content).mounts = s.fs.mounts := fsB_mounts _ _ _
  have e3 : (fsB s.fs (I ++ [base ++ trashinfoExt]) content).isMount S = false := by
    rw [isMount_congr hm]; exact h.srcNotMount
  have e4 : (fsB s.fs (I ++ [base ++ trashinfoExt]) content).dev (parent S) =
      (fsB s.fs (I ++ [base ++ trashinfoExt]) content).dev F := by
    rw [dev_congr hm, dev_congr hm]; exact h.sameDev
  have e5 : (fsB s.fs (I ++ [base ++ trashinfoExt]) content).get F = some (.dir m t) := by
    rw [fsB_get, if_neg (Ne.symm g.P_F), if_neg (Ne.symm g.I_F), hFd]
  have e6 : S ≠ F ++ [base] := fun e => g.S_D (t := base) (e ▸ List.prefix_refl _)
  have e7 : ¬ FS.under S (F ++ [base]) = true := by rw [under_iff]; exact g.S_D
  have hfuel : persistFuel = 399 + 1 := rfl
  have hp := persist_first I F base content 399 st s hI hF hN hlen
  unfold putCore
  rw [run_bind, hfuel, hp]
  simp only [run_bind, run_read, stem_base, hsrc]
  rw [move_exact (s := ⟨fsB s.fs (I ++ [base ++ trashinfoExt]) content, _, _, _, _⟩) e1 e2 e3 e4 hlt e5 e6 e7]
  exact ⟨_, rfl, rfl, rfl, rfl⟩

/-- the conclusion of C01 `put_ok_moves_whole` for the closed form of the final state -/
theorem trashed_of_fsC {fs : FS} {I F S : CPath} (h : Setting fs I F S) (base content : Bytes)
    (hF : fs.get (F ++ [base]) = none) (hN : fs.get (I ++ [base ++ trashinfoExt]) = none) :
    Trashed fs (fsC (fsB fs (I ++ [base ++ trashinfoExt]) content) S (F ++ [base]) F) I F S
      (base ++ trashinfoExt) content := by
  have g := Geo.of_setting h
  have hst : base ++ trashinfoExt = stemOf (base ++ trashinfoExt) ++ trashinfoExt := by rw [stem_base]
  have hnt : base ≠ base ++ trashinfoExt := by
    have := stem_ne hst; rw [stem_base] at this; exact this
  refine ⟨by rw [stem_base]; exact hF, hN, fun rel => ?_, fun rel => final_gone g hnt fs content (List.prefix_append S rel),
    final_info g hnt fs content, ?_, ?_, ?_, ?_⟩
  · rw [stem_base]; exact final_whole g hnt fs content rel
  · intro q h1 h2 h3 h4 h5 h6
    rw [under_iff] at h1 h2
    rw [stem_base] at h2
    exact final_frame g hnt fs content h1 h2 h3 h4 h5 h6
  · exact touch_keeps fs _ (final_ps g hnt fs content)
  · exact touch_keeps fs _ (final_F g hnt fs content)
  · exact touch_keeps fs _ (final_I g hnt fs content)

/-! ### devices: nothing is mounted on a missing path -/

open TrashVerif.Proofs.C07 (dev_snoc isMount_iff)

theorem dev_missing (fs : FS) (hm : ∀ m ∈ fs.mounts, (fs.get m).isSome = true) (Q : CPath) (k : Nat) :
    ∀ (S : CPath), S.length = k → (∀ j, 0 < j → j ≤ S.length → fs.get (Q ++ S.take j) = none) →
      dev fs (Q ++ S) = dev fs Q := by
  induction k with
  | zero => intro S hS _; obtain rfl := List.length_eq_zero_iff.1 hS; rw [List.append_nil]
  | succ k ih =>
    intro S hS hnone
    have hS0 : S ≠ [] := by intro e; rw [e] at hS; cases hS
    obtain ⟨S', y, rfl⟩ := exists_snoc hS0
    have hl : S'.length = k := by simpa using hS
    have hnm : isMount fs ((Q ++ S') ++ [y]) = false := by
      cases hmm : isMount fs ((Q ++ S') ++ [y]) with
      | false => rfl
      | true =>
        have := hm _ (isMount_iff.1 hmm)
        have h0 := hnone (S' ++ [y]).length (by simp) (Nat.le_refl _)
        rw [List.take_length, ← List.append_assoc] at h0
        rw [h0] at this; cases this
    rw [← List.append_assoc, dev_snoc fs (Q ++ S') y hnm]
    refine ih S' hl (fun j j0 j1 => ?_)
    have := hnone j j0 (by simp; omega)
    rw [List.take_append_of_le_length j1] at this
    exact this

theorem dev_fresh {fs : FS} (hm : ∀ m ∈ fs.mounts, (fs.get m).isSome = true) {Q : CPath} {x : Name}
    (hfresh : ∀ rel, fs.get (Q ++ x :: rel) = none) (rest : CPath) : dev fs (Q ++ x :: rest) = dev fs Q := by
  refine dev_missing fs hm Q _ (x :: rest) rfl (fun j j0 _ => ?_)
  obtain ⟨i, rfl⟩ : ∃ i, j = i + 1 := ⟨j - 1, by omega⟩
  rw [List.take_succ_cons]; exact hfresh _

/-! ### `Janitor.trash_file_in` for a trash directory yet to be made -/

theorem distinct_of (T : CPath) : ¬ FS.under (T ++ [b "info"]) (T ++ [b "files"]) = true ∧
    ¬ FS.under (T ++ [b "files"]) (T ++ [b "info"]) = true := by
  have key : ∀ x y : Name, x ≠ y → ¬ (T ++ [x]) <+: (T ++ [y]) := by
    intro x y hxy h
    rw [pfx_concat] at h
    rcases h with h | h
    · exact hxy (by simpa using (List.append_inj' h rfl).2)
    · have := h.length_le; simp at this; omega
  constructor
  · rw [under_iff]; exact key _ _ (Ne.symm files_ne_info')
  · rw [under_iff]; exact key _ _ files_ne_info'

section fresh
variable {c : PutCfg} {fs : FS} {Q : CPath} {x : Name} {R P : CPath} {n : Name}
  (S : FreshSite fs Q x R) (A : Arg fs P n) (hm : MountsOk fs) (hvol : dev fs P = dev fs Q)
  (hapart : ¬ (P ++ [n]) <+: Q)

include S A in
/-- an existing entry is not at or below the missing `Q/x` -/
theorem src_not_below : ¬ Q ++ [x] <+: P ++ [n] := by
  rintro ⟨t, ht⟩
  have := A.present
  rw [← ht, List.append_assoc, List.singleton_append, S.fresh] at this
  cases this

include S A hapart in
theorem src_not_pfx {rest : CPath} : ¬ (P ++ [n]) <+: Q ++ x :: rest := by
  intro h
  rcases pfx_split (S := x :: rest) h with h1 | ⟨k, k0, _, e⟩
  · exact hapart h1
  · obtain ⟨i, rfl⟩ : ∃ i, k = i + 1 := ⟨k - 1, by omega⟩
    rw [List.take_succ_cons] at e
    have := A.present
    rw [e, S.fresh] at this; cases this

include S A hm hvol hapart in
theorem trashFileIn_fresh (volume : Bytes) (cand : Candidate) (hpath : cand.path = toStr (Q ++ x :: R))
    (hsec : securityCheck fs c.cwd cand = none) (hgate : gateCheck fs c volume cand = none)
    (loc : Bytes) (hloc : ∀ fs', Plain fs' P → originalLocation fs' c.cwd (toStr (P ++ [n])) cand = loc)
    (hbase : basename loc = n) (st : PutSt) (s : RunState) (hs : s.fs = fs) :
    ∃ s' fs1, run noFaults (trashFileIn c (toStr (P ++ [n])) volume cand st) s =
        ((.ok (n ++ trashinfoExt), st), s') ∧
      SiteCreated fs fs1 Q x R ∧
      Trashed fs1 s'.fs (infoOf (Q ++ x :: R)) (filesOf (Q ++ x :: R)) (P ++ [n]) (n ++ trashinfoExt)
        (formatTrashinfoWith loc c.dateStr) ∧
      s'.trace = firstUseTrace Q x R (P ++ [n]) n (formatTrashinfoWith loc c.dateStr) ++ s.trace ∧
      s'.outs = s.outs := by
  subst hs
  have gT : GoodNames (Q ++ x :: R) := S.names
  have gF : GoodNames ((Q ++ x :: R) ++ [b "files"]) := goodNames_snoc gT goodName_files
  have gI : GoodNames ((Q ++ x :: R) ++ [b "info"]) := goodNames_snoc gT goodName_info
  have hT0 : Q ++ x :: R ≠ [] := by simp
  have hPF : pjoin cand.path (b "files") = toStr ((Q ++ x :: R) ++ [b "files"]) := by
    rw [hpath]; exact pjoin_toStr hT0 gT _ (by decide +kernel)
  have hPI : pjoin cand.path (b "info") = toStr ((Q ++ x :: R) ++ [b "info"]) := by
    rw [hpath]; exact pjoin_toStr hT0 gT _ (by decide +kernel)
  rw [trashFileIn, run_read_bind]
  simp only [hsec, hgate]
  rw [hPF, hPI, hpath, run_bind]
  -- the trash directory
  obtain ⟨s1, h1, M1, t1, o1⟩ := mkdirPStr_fresh s c.cwd Q x R 0o700 S.basePlain gT S.fresh
  rw [h1]
  simp only []
  rw [run_bind]
  have pT1 : Plain s1.fs (Q ++ x :: R) := M1.plain_new S.fresh S.basePlain
  have fr1 : ∀ z rel, s1.fs.get ((Q ++ x :: R) ++ z :: rel) = none := fun z rel => M1.fresh_below S.fresh z rel
  -- files/
  obtain ⟨s2, h2, M2, t2, o2⟩ := mkdirPStr_fresh s1 c.cwd (Q ++ x :: R) (b "files") [] 0o700 pT1 gF (fr1 _)
  rw [h2]
  simp only []
  rw [run_bind]
  have pT2 : Plain s2.fs (Q ++ x :: R) := M2.plain_old (fr1 _) pT1
  have pF2 : Plain s2.fs ((Q ++ x :: R) ++ [b "files"]) := M2.plain_new (fr1 _) pT1
  have fr2 : ∀ rel, s2.fs.get ((Q ++ x :: R) ++ b "info" :: rel) = none := by
    intro rel
    rw [M2.frame _ (len_ne (by simp <;> omega)) (fun h => ?_)]
    · exact fr1 _ rel
    · have e := h.2.eq_of_length_le h.1.length_le
      have := (List.append_cancel_left e)
      simp only [List.cons.injEq] at this
      exact files_ne_info' this.1.symm
  -- info/
  obtain ⟨s3, h3, M3, t3, o3⟩ := mkdirPStr_fresh s2 c.cwd (Q ++ x :: R) (b "info") [] 0o700 pT2 gI fr2
  rw [h3]
  simp only []
  have pF3 : Plain s3.fs ((Q ++ x :: R) ++ [b "files"]) := M3.plain_old fr2 pF2
  have pI3 : Plain s3.fs ((Q ++ x :: R) ++ [b "info"]) := M3.plain_new fr2 pT2
  have pP3 : Plain s3.fs P := M3.plain_old fr2 (M2.plain_old (fr1 _) (M1.plain_old S.fresh A.parentPlain))
  have SC : SiteCreated s.fs s3.fs Q x R := siteCreated_of_made S.basePlain M1 M2 M3
  have hmounts : s3.fs.mounts = s.fs.mounts := SC.mounts
  -- the entry is still there
  have hsQ : P ++ [n] ≠ Q := fun e => hapart (by rw [e]; exact List.prefix_rfl)
  have hsT : P ++ [n] ≠ Q ++ x :: R := fun e => src_not_pfx S A hapart (rest := R) (by rw [e]; exact List.prefix_rfl)
  have g1 : s1.fs.get (P ++ [n]) = s.fs.get (P ++ [n]) := (M1.keeps S.fresh A.present).1 hsQ
  have g2 : s2.fs.get (P ++ [n]) = s.fs.get (P ++ [n]) := by
    rw [(M2.keeps (fr1 _) (by rw [g1]; exact A.present)).1 hsT, g1]
  have g3 : s3.fs.get (P ++ [n]) = s.fs.get (P ++ [n]) := by
    rw [(M3.keeps fr2 (by rw [g2]; exact A.present)).1 hsT, g2]
  -- nothing under files/ and info/ yet
  have free3 : ∀ (d z : Name), s3.fs.get ((Q ++ x :: R) ++ [d] ++ [z]) = none := by
    intro d z
    rw [SC.frame _ (len_ne (by simp <;> omega)) (fun h => by have := h.2.length_le; simp at this; omega)
      (len_ne (by simp [filesOf])) (len_ne (by simp [infoOf]))]
    have e : (Q ++ x :: R) ++ [d] ++ [z] = Q ++ x :: (R ++ [d, z]) := by simp
    rw [e]; exact S.fresh _
  have hset : Setting s3.fs ((Q ++ x :: R) ++ [b "info"]) ((Q ++ x :: R) ++ [b "files"]) (P ++ [n]) :=
    { infoDir := pI3 _ List.prefix_rfl
      filesDir := pF3 _ List.prefix_rfl
      distinct := distinct_of _
      srcExists := by rw [g3]; exact A.present
      srcNotRoot := by simp
      srcNotMount := by rw [isMount_congr hmounts]; exact A.notMount
      sameDev := by
        show dev s3.fs (FS.parent (P ++ [n])) = _
        rw [FS.parent, List.dropLast_concat, dev_congr hmounts, dev_congr hmounts, hvol]
        have e : (Q ++ x :: R) ++ [b "files"] = Q ++ x :: (R ++ [b "files"]) := by simp
        rw [e, dev_fresh hm.mountsExist S.fresh]
      notAncestor := by
        constructor
        · rw [under_iff]
          have e : (Q ++ x :: R) ++ [b "info"] = Q ++ x :: (R ++ [b "info"]) := by simp
          rw [e]; exact src_not_pfx S A hapart
        · rw [under_iff]
          have e : (Q ++ x :: R) ++ [b "files"] = Q ++ x :: (R ++ [b "files"]) := by simp
          rw [e]; exact src_not_pfx S A hapart
      notInside := by
        have hpre : Q ++ [x] <+: Q ++ x :: R := by rw [cons_eq_snoc Q x R]; exact List.prefix_append _ _
        constructor
        · rw [under_iff]
          exact fun h => src_not_below S A ((hpre.trans (List.prefix_append _ _)).trans h)
        · rw [under_iff]
          exact fun h => src_not_below S A ((hpre.trans (List.prefix_append _ _)).trans h) }
  rw [run_read_bind, run_read_bind, dirC_plain _ _ _ pF3 gF, dirC_plain _ _ _ pI3 gI, hloc s3.fs pP3, hbase,
    normpath_toStr _ A.names]
  have hlen : (n ++ trashinfoExt).length ≤ 255 := by
    rw [List.length_append, ext_len]; exact A.shortName
  have hN := free3 (b "info") (n ++ trashinfoExt)
  have hF := free3 (b "files") n
  have hsrc := src_after s3.fs c.cwd ((Q ++ x :: R) ++ [b "info"]) (n ++ trashinfoExt)
    (formatTrashinfoWith loc c.dateStr) P n pP3 A.names (by rw [g3]; exact A.present)
    (by rw [isMount_congr hmounts]; exact A.notMount) hN
    (fun e => hset.notAncestor.1 (by rw [under_iff, e]; exact List.prefix_rfl))
  obtain ⟨s4, r4, f4, t4, o4⟩ := putCore_fresh n (formatTrashinfoWith loc c.dateStr)
    (fun fs' => if fs'.pIsmount c.cwd (toStr (P ++ [n])) = true then Except.error Errno.EBUSY
      else fs'.resolve c.cwd (toStr (P ++ [n]))) st s3 hset hF hN hlen hsrc
  refine ⟨s4, s3.fs, r4, SC, ?_, ?_, ?_⟩
  · rw [f4]; exact trashed_of_fsC hset n _ hF hN
  · rw [t4, t3, t2, t1]
    simp [firstUseTrace, filesOf, infoOf, ancestorCalls_nil]
  · rw [o4, o3, o2, o1]

end fresh

end TrashVerif.Proofs.C07CmdCore
