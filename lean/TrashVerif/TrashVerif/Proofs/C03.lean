/-
  Proofs/C03.lean — helper lemmas for Props/C03.lean.
-/
import TrashVerif.Spec.C03
namespace TrashVerif.Proofs.C03
open TrashVerif Bytes TrashVerif.C03

/-! ### finite case analysis on bytes -/

theorem forall_u8 {P : UInt8 → Prop} (h : ∀ n : Fin 256, P (UInt8.ofNat n.val)) : ∀ c, P c := by
  intro c
  have := h ⟨c.toNat, c.toNat_lt⟩
  simpa using this

/-- a byte that survives text-mode reading and line splitting unchanged -/
def plain (c : UInt8) : Bool := c.toNat < 0x80 && c != 13 && c != 10

/-- everything one needs to know about the escape of a single byte -/
theorem quoteByte_cases : ∀ c : UInt8,
    (quoteByte c).all (fun x => pathByteOk x && plain x) = true ∧
    ((quoteByte c = [c] ∧ c ≠ 37) ∨
     (∃ h l x y, quoteByte c = [37, h, l] ∧ hexVal? h = some x ∧ hexVal? l = some y ∧
        UInt8.ofNat (x * 16 + y) = c ∧ isUpperHex h = true ∧ isUpperHex l = true)) := by
  have key : ∀ c : UInt8,
      (quoteByte c).all (fun x => pathByteOk x && plain x) = true ∧
      ((quoteByte c = [c] ∧ c ≠ 37) ∨
       (quoteByte c = [37, hexDigitUpper (c.toNat / 16), hexDigitUpper (c.toNat % 16)] ∧
        hexVal? (hexDigitUpper (c.toNat / 16)) = some (c.toNat / 16) ∧
        hexVal? (hexDigitUpper (c.toNat % 16)) = some (c.toNat % 16) ∧
        UInt8.ofNat (c.toNat / 16 * 16 + c.toNat % 16) = c ∧
        isUpperHex (hexDigitUpper (c.toNat / 16)) = true ∧
        isUpperHex (hexDigitUpper (c.toNat % 16)) = true)) := by
    apply forall_u8
    decide +kernel
  intro c
  refine ⟨(key c).1, ?_⟩
  rcases (key c).2 with h | h
  · exact Or.inl h
  · exact Or.inr ⟨_, _, _, _, h⟩

/-! ### percentDecode / quote -/

theorem percentDecode_lit (c : UInt8) (rest : Bytes) (hc : c ≠ 37) :
    percentDecode (c :: rest) = c :: percentDecode rest := by
  rw [percentDecode.eq_def]; simp [hc]

theorem percentDecode_esc (h l : UInt8) (x y : Nat) (rest : Bytes)
    (hx : hexVal? h = some x) (hy : hexVal? l = some y) :
    percentDecode (37 :: h :: l :: rest) = UInt8.ofNat (x * 16 + y) :: percentDecode rest := by
  rw [percentDecode.eq_def]; simp [hx, hy]

theorem percentDecode_quoteByte (c : UInt8) (rest : Bytes) :
    percentDecode (quoteByte c ++ rest) = c :: percentDecode rest := by
  rcases (quoteByte_cases c).2 with ⟨h, hc⟩ | ⟨h, l, x, y, hq, hx, hy, hxy, -, -⟩
  · rw [h]; exact percentDecode_lit c rest hc
  · rw [hq, ← hxy]; exact percentDecode_esc h l x y rest hx hy

theorem percentDecode_quote (s : Bytes) : percentDecode (quote s) = s := by
  induction s with
  | nil => simp [quote, percentDecode]
  | cons c s ih =>
    have : quote (c :: s) = quoteByte c ++ quote s := by simp [quote]
    rw [this, percentDecode_quoteByte, ih]

theorem unquote_quote (s : Bytes) : unquote (quote s) = s := percentDecode_quote s

/-! ### alphabet of `quote` -/

theorem quote_cons (c : UInt8) (s : Bytes) : quote (c :: s) = quoteByte c ++ quote s := by
  simp [quote]

theorem quote_all (s : Bytes) : (quote s).all (fun x => pathByteOk x && plain x) = true := by
  induction s with
  | nil => simp [quote]
  | cons c s ih => rw [quote_cons, List.all_append, (quoteByte_cases c).1, ih]; rfl

theorem escapesOk_lit (c : UInt8) (rest : Bytes) (hc : c ≠ 37) :
    escapesOk (c :: rest) = escapesOk rest := by
  rw [escapesOk.eq_def]; simp [hc]

theorem escapesOk_esc (h l : UInt8) (rest : Bytes) :
    escapesOk (37 :: h :: l :: rest) = (isUpperHex h && isUpperHex l && escapesOk rest) := by
  rw [escapesOk.eq_def]; simp

theorem escapesOk_quote (s : Bytes) : escapesOk (quote s) = true := by
  induction s with
  | nil => simp [quote, escapesOk]
  | cons c s ih =>
    rw [quote_cons]
    rcases (quoteByte_cases c).2 with ⟨h, hc⟩ | ⟨h, l, x, y, hq, -, -, -, hh, hl⟩
    · rw [h]; simpa [escapesOk_lit c _ hc] using ih
    · rw [hq]; simp [escapesOk_esc, hh, hl, ih]

theorem quote_alphabet (s : Bytes) :
    (quote s).all pathByteOk = true ∧ escapesOk (quote s) = true := by
  refine ⟨?_, escapesOk_quote s⟩
  have := quote_all s
  simp only [List.all_eq_true, Bool.and_eq_true] at this ⊢
  exact fun x hx => (this x hx).1

/-! ### the spec relation -/

theorem unesc_quote (s : Bytes) : Unesc (quote s) s := by
  induction s with
  | nil => simpa [quote] using Unesc.nil
  | cons c s ih =>
    rw [quote_cons]
    rcases (quoteByte_cases c).2 with ⟨h, hc⟩ | ⟨h, l, x, y, hq, hx, hy, hxy, -, -⟩
    · rw [h]; exact Unesc.lit c hc ih
    · rw [hq, ← hxy]; exact Unesc.esc h l x y hx hy ih

theorem specUnescape_nil : specUnescape [] = some [] := by
  rw [specUnescape.eq_def]

theorem specUnescape_lit (c : UInt8) (rest : Bytes) (hc : c ≠ 37) :
    specUnescape (c :: rest) = (specUnescape rest).map (c :: ·) := by
  rw [specUnescape.eq_def]; simp [hc]

theorem specUnescape_esc (h l : UInt8) (x y : Nat) (rest : Bytes)
    (hx : hexVal? h = some x) (hy : hexVal? l = some y) :
    specUnescape (37 :: h :: l :: rest) =
      (specUnescape rest).map (UInt8.ofNat (x * 16 + y) :: ·) := by
  rw [specUnescape.eq_def]; simp [hx, hy]

theorem specUnescape_esc_none (h l : UInt8) (rest : Bytes)
    (hn : hexVal? h = none ∨ hexVal? l = none) :
    specUnescape (37 :: h :: l :: rest) = none := by
  rw [specUnescape.eq_def]
  rcases hn with hn | hn
  · simp [hn]
  · cases hx : hexVal? h <;> simp [hn]

theorem specUnescape_short1 : specUnescape [37] = none := by
  rw [specUnescape.eq_def]; simp

theorem specUnescape_short2 (h : UInt8) : specUnescape [37, h] = none := by
  rw [specUnescape.eq_def]; simp

theorem unesc_to_spec {s t : Bytes} (h : Unesc s t) : specUnescape s = some t := by
  induction h with
  | nil => exact specUnescape_nil
  | lit c hc _ ih => rw [specUnescape_lit c _ hc, ih]; rfl
  | esc h l x y hx hy _ ih => rw [specUnescape_esc h l x y _ hx hy, ih]; rfl

theorem spec_to_unesc : ∀ (n : Nat) (s t : Bytes), s.length ≤ n → specUnescape s = some t → Unesc s t := by
  intro n
  induction n with
  | zero =>
    intro s t hn h
    have : s = [] := List.eq_nil_of_length_eq_zero (by omega)
    subst this
    rw [specUnescape_nil] at h
    cases h; exact Unesc.nil
  | succ n ih =>
    intro s t hn h
    match s, hn, h with
    | [], _, h => rw [specUnescape_nil] at h; cases h; exact Unesc.nil
    | c :: rest, hn, h =>
      by_cases hc : c = 37
      · subst hc
        match rest, hn, h with
        | [], _, h => rw [specUnescape_short1] at h; cases h
        | [a], _, h => rw [specUnescape_short2] at h; cases h
        | a :: l :: rest', hn, h =>
          cases hx : hexVal? a with
          | none => rw [specUnescape_esc_none a l rest' (Or.inl hx)] at h; cases h
          | some x =>
            cases hy : hexVal? l with
            | none => rw [specUnescape_esc_none a l rest' (Or.inr hy)] at h; cases h
            | some y =>
              rw [specUnescape_esc a l x y rest' hx hy, Option.map_eq_some_iff] at h
              obtain ⟨t', ht', rfl⟩ := h
              exact Unesc.esc a l x y hx hy (ih rest' t' (by simp at hn; omega) ht')
      · rw [specUnescape_lit c rest hc, Option.map_eq_some_iff] at h
        obtain ⟨t', ht', rfl⟩ := h
        exact Unesc.lit c hc (ih rest t' (by simp at hn; omega) ht')

theorem unesc_iff (s t : Bytes) : Unesc s t ↔ specUnescape s = some t :=
  ⟨unesc_to_spec, spec_to_unesc s.length s t (Nat.le_refl _)⟩

/-! ### ASCII strings: `asciiRuns`, `validUtf8`, `universalNewlines` -/

theorem plain_ascii {s : Bytes} (h : s.all plain = true) :
    s.all (fun c => decide (c.toNat < 0x80)) = true := by
  simp only [List.all_eq_true, plain, Bool.and_eq_true, decide_eq_true_eq] at h ⊢
  exact fun x hx => (h x hx).1.1

theorem quote_plain (s : Bytes) : (quote s).all plain = true := by
  have := quote_all s
  simp only [List.all_eq_true, Bool.and_eq_true] at this ⊢
  exact fun x hx => (this x hx).2

theorem unquote_quote_exact (s : Bytes) (h0 : (0 : UInt8) ∉ s) :
    unquoteLossy (quote s) = false := by
  simp [unquoteLossy, percentDecode_quote, h0]

theorem validUtf8_ascii (s : Bytes) (h : s.all (fun c => decide (c.toNat < 0x80)) = true) :
    validUtf8 s = true := by
  induction s with
  | nil => rfl
  | cons c s ih =>
    simp only [List.all_cons, Bool.and_eq_true, decide_eq_true_eq] at h
    unfold validUtf8
    simp [h.1, ih h.2]

theorem splitOn_append (sep : UInt8) (p rest : Bytes) (h : sep ∉ p) :
    splitOn sep (p ++ sep :: rest) = p :: splitOn sep rest := by
  induction p with
  | nil => simp [splitOn]
  | cons c p ih =>
    simp only [List.mem_cons, not_or] at h
    have hc : c ≠ sep := fun e => h.1 e.symm
    simp [splitOn, hc, ih h.2]

theorem not_mem_10_of_plain {s : Bytes} (h : s.all plain = true) : (10 : UInt8) ∉ s := by
  intro hm
  have := List.all_eq_true.mp h 10 hm
  simp [plain] at this

/-! ### digits produced by `pad` -/

theorem digit_facts (n : Nat) :
    isDigit (UInt8.ofNat (48 + n % 10)) = true ∧ digitVal (UInt8.ofNat (48 + n % 10)) = n % 10 ∧
    plain (UInt8.ofNat (48 + n % 10)) = true := by
  have key : ∀ k : Fin 10, isDigit (UInt8.ofNat (48 + k.val)) = true ∧
      digitVal (UInt8.ofNat (48 + k.val)) = k.val ∧ plain (UInt8.ofNat (48 + k.val)) = true := by
    decide
  exact key ⟨n % 10, Nat.mod_lt _ (by decide)⟩

theorem isDigit_pad (n : Nat) : isDigit (UInt8.ofNat (48 + n % 10)) = true := (digit_facts n).1
theorem digitVal_pad (n : Nat) : digitVal (UInt8.ofNat (48 + n % 10)) = n % 10 := (digit_facts n).2.1
theorem plain_pad (n : Nat) : plain (UInt8.ofNat (48 + n % 10)) = true := (digit_facts n).2.2

theorem pad2 (n : Nat) : pad 2 n = [UInt8.ofNat (48 + n / 10 % 10), UInt8.ofNat (48 + n % 10)] := by
  simp [pad]

theorem pad4 (n : Nat) : pad 4 n = [UInt8.ofNat (48 + n / 10 / 10 / 10 % 10),
    UInt8.ofNat (48 + n / 10 / 10 % 10), UInt8.ofNat (48 + n / 10 % 10), UInt8.ofNat (48 + n % 10)] := by
  simp [pad]

theorem fmt_eq (d : Date) (hy : 1000 ≤ d.y) :
    d.fmt = pad 4 d.y ++ 45 :: (pad 2 d.m ++ 45 :: (pad 2 d.d ++ 84 :: (pad 2 d.H ++ 58 ::
      (pad 2 d.M ++ 58 :: (pad 2 d.S ++ []))))) := by
  simp [Date.fmt, fmtYear, hy]

theorem fmt_plain (d : Date) (hy : 1000 ≤ d.y) : d.fmt.all plain = true := by
  rw [fmt_eq d hy]
  simp only [pad2, pad4, List.cons_append, List.nil_append, List.all_cons, plain_pad, List.all_nil,
    Bool.and_true, Bool.true_and]
  decide

theorem fmt_shape (d : Date) (hy : 1000 ≤ d.y) : dateShapeOk d.fmt = true := by
  rw [fmt_eq d hy]
  simp only [pad2, pad4, List.cons_append, List.nil_append, dateShapeOk, List.all_cons, isDigit_pad,
    List.all_nil, Bool.and_true]

/-! ### strptime on strftime output -/

theorem p2_pad (lo1 hi1 lo2 hi2 a c : Nat) (rest : Bytes) :
    p2 lo1 hi1 lo2 hi2 (UInt8.ofNat (48 + a % 10) :: UInt8.ofNat (48 + c % 10) :: rest) =
      if lo1 ≤ a % 10 ∧ a % 10 ≤ hi1 ∧ lo2 ≤ c % 10 ∧ c % 10 ≤ hi2
      then [(a % 10 * 10 + c % 10, rest)] else [] := by
  simp only [p2, isDigit_pad, digitVal_pad, true_and]

theorem head?_ite_append {α} (c : Prop) [Decidable c] (x : α) (l : List α) :
    ((if c then [x] else []) ++ l).head? = if c then some x else l.head? := by
  split <;> simp

theorem pDigits4_pad (y : Nat) (hy : y ≤ 9999) (rest : Bytes) :
    (pDigits 4 (pad 4 y ++ rest)).head? = some (y, rest) := by
  simp only [pad4, List.cons_append, List.nil_append, pDigits, isDigit_pad, digitVal_pad, if_true,
    List.map_cons, List.map_nil, List.head?_cons]
  congr 2
  omega

theorem pMonth_pad (m : Nat) (h1 : 1 ≤ m) (h2 : m ≤ 12) (rest : Bytes) :
    (pMonth (pad 2 m ++ rest)).head? = some (m, rest) := by
  simp only [pMonth, alt, List.flatMap_cons, pad2, List.cons_append, List.nil_append, p2_pad,
    head?_ite_append]
  split
  · simp; omega
  · split
    · simp; omega
    · exfalso; omega

theorem pDay_pad (m : Nat) (h1 : 1 ≤ m) (h2 : m ≤ 31) (rest : Bytes) :
    (pDay (pad 2 m ++ rest)).head? = some (m, rest) := by
  simp only [pDay, alt, List.flatMap_cons, pad2, List.cons_append, List.nil_append, p2_pad,
    head?_ite_append]
  split
  · simp; omega
  · split
    · simp; omega
    · split
      · simp; omega
      · exfalso; omega

theorem pHour_pad (m : Nat) (h2 : m ≤ 23) (rest : Bytes) :
    (pHour (pad 2 m ++ rest)).head? = some (m, rest) := by
  simp only [pHour, alt, List.flatMap_cons, pad2, List.cons_append, List.nil_append, p2_pad,
    head?_ite_append]
  split
  · simp; omega
  · split
    · simp; omega
    · exfalso; omega

theorem pMinute_pad (m : Nat) (h2 : m ≤ 59) (rest : Bytes) :
    (pMinute (pad 2 m ++ rest)).head? = some (m, rest) := by
  simp only [pMinute, alt, List.flatMap_cons, pad2, List.cons_append, List.nil_append, p2_pad,
    head?_ite_append]
  split
  · simp; omega
  · exfalso; omega

theorem pSecond_pad (m : Nat) (h2 : m ≤ 59) (rest : Bytes) :
    (pSecond (pad 2 m ++ rest)).head? = some (m, rest) := by
  simp only [pSecond, alt, List.flatMap_cons, pad2, List.cons_append, List.nil_append, p2_pad,
    head?_ite_append]
  split
  · exfalso; omega
  · split
    · simp; omega
    · exfalso; omega

theorem seqP_head {α β} (p : Parser α) (f : α → Parser β) (s : Bytes) (a : α) (r : Bytes)
    (x : β × Bytes) (h1 : (p s).head? = some (a, r)) (h2 : (f a r).head? = some x) :
    (seqP p f s).head? = some x := by
  unfold seqP
  cases hp : p s with
  | nil => simp [hp] at h1
  | cons hd tl =>
    simp only [hp, List.head?_cons, Option.some.injEq] at h1
    subst h1
    simp [List.head?_append, h2]

theorem pLit_head (c : UInt8) (rest : Bytes) : (pLit c (c :: rest)).head? = some ((), rest) := by
  simp [pLit]

theorem pLitCI_head (u l : UInt8) (rest : Bytes) :
    (pLitCI u l (u :: rest)).head? = some ((), rest) := by
  simp [pLitCI]

theorem daysInMonth_le (y m : Nat) : daysInMonth y m ≤ 31 := by
  unfold daysInMonth; split <;> split <;> omega

theorem pDateTime_fmt (d : Date) (hd : d.valid = true) (hy : 1000 ≤ d.y) :
    (pDateTime d.fmt).head? = some (d, []) := by
  simp only [Date.valid, Bool.and_eq_true, decide_eq_true_eq] at hd
  obtain ⟨⟨⟨⟨⟨⟨⟨⟨y1, y2⟩, m1⟩, m2⟩, d1⟩, d2⟩, hH⟩, hM⟩, hS⟩ := hd
  have d3 := daysInMonth_le d.y d.m
  rw [fmt_eq d hy]
  unfold pDateTime
  refine seqP_head _ _ _ _ _ _ (pDigits4_pad d.y y2 _) ?_
  refine seqP_head _ _ _ _ _ _ (pLit_head 45 _) ?_
  refine seqP_head _ _ _ _ _ _ (pMonth_pad d.m m1 m2 _) ?_
  refine seqP_head _ _ _ _ _ _ (pLit_head 45 _) ?_
  refine seqP_head _ _ _ _ _ _ (pDay_pad d.d d1 (by omega) _) ?_
  refine seqP_head _ _ _ _ _ _ (pLitCI_head 84 116 _) ?_
  refine seqP_head _ _ _ _ _ _ (pHour_pad d.H hH _) ?_
  refine seqP_head _ _ _ _ _ _ (pLit_head 58 _) ?_
  refine seqP_head _ _ _ _ _ _ (pMinute_pad d.M hM _) ?_
  refine seqP_head _ _ _ _ _ _ (pLit_head 58 _) ?_
  refine seqP_head _ _ _ _ _ _ (pSecond_pad d.S hS _) ?_
  rfl

theorem strptimeBody_fmt (d : Date) (hd : d.valid = true) (hy : 1000 ≤ d.y) :
    strptimeBody d.fmt = some d := by
  have h := pDateTime_fmt d hd hy
  unfold strptimeBody
  cases hp : pDateTime d.fmt with
  | nil => simp [hp] at h
  | cons hd' tl =>
    simp only [hp, List.head?_cons, Option.some.injEq] at h
    subst h
    simp [hd]

/-! ### the whole file -/

def headLine : Bytes := b "[Trash Info]"

theorem header_eq : header = headLine ++ [10] := by decide +kernel
theorem pathKey_eq : pathKey = [80, 97, 116, 104, 61] := by decide +kernel
theorem dateKey_eq : dateKey = [68, 101, 108, 101, 116, 105, 111, 110, 68, 97, 116, 101, 61] := by decide +kernel
theorem headLine_plain : headLine.all plain = true := by decide +kernel
theorem pathKey_plain : pathKey.all plain = true := by decide +kernel
theorem dateKey_plain : dateKey.all plain = true := by decide +kernel

theorem format_eq (loc dateStr : Bytes) :
    formatTrashinfoWith loc dateStr =
      headLine ++ 10 :: ((pathKey ++ quote loc) ++ 10 :: ((dateKey ++ dateStr) ++ 10 :: [])) := by
  simp [formatTrashinfoWith, header_eq]

theorem format_plain_ne13 (loc : Bytes) (d : Date) (hy : 1000 ≤ d.y) :
    (formatTrashinfoWith loc d.fmt).all (fun c => decide (c.toNat < 0x80) && c != 13) = true := by
  have hp : ∀ s : Bytes, s.all plain = true →
      s.all (fun c => decide (c.toNat < 0x80) && c != 13) = true := by
    intro s h
    simp only [List.all_eq_true, plain, Bool.and_eq_true] at h ⊢
    exact fun x hx => (h x hx).1
  rw [format_eq]
  simp only [List.all_append, List.all_cons, List.all_nil, hp _ headLine_plain, hp _ pathKey_plain,
    hp _ (quote_plain loc), hp _ dateKey_plain, hp _ (fmt_plain d hy)]
  decide

theorem universalNewlines_no_cr (s : Bytes) (h : ∀ c ∈ s, c ≠ 13) : universalNewlines s = s := by
  induction s with
  | nil => rfl
  | cons c s ih =>
    have hc : c ≠ 13 := h c (by simp)
    have hs : ∀ c ∈ s, c ≠ 13 := fun x hx => h x (by simp [hx])
    unfold universalNewlines
    split
    · rename_i heq; cases heq
    · rename_i heq; cases heq; exact absurd rfl hc
    · rename_i heq; cases heq; exact absurd rfl hc
    · rename_i heq; cases heq; rw [ih hs]

theorem readText_format (loc : Bytes) (d : Date) (hy : 1000 ≤ d.y) :
    readText (formatTrashinfoWith loc d.fmt) = some (formatTrashinfoWith loc d.fmt) := by
  have h := format_plain_ne13 loc d hy
  simp only [List.all_eq_true, Bool.and_eq_true, decide_eq_true_eq, bne_iff_ne] at h
  have h1 : validUtf8 (formatTrashinfoWith loc d.fmt) = true :=
    validUtf8_ascii _ (by simp only [List.all_eq_true, decide_eq_true_eq]; exact fun x hx => (h x hx).1)
  have h2 := universalNewlines_no_cr (formatTrashinfoWith loc d.fmt) (fun x hx => (h x hx).2)
  simp [readText, h1, h2]

theorem lines_format (loc : Bytes) (d : Date) (hy : 1000 ≤ d.y) :
    lines (formatTrashinfoWith loc d.fmt) = [headLine, pathKey ++ quote loc, dateKey ++ d.fmt, []] := by
  have a1 : (10 : UInt8) ∉ headLine := not_mem_10_of_plain headLine_plain
  have a2 : (10 : UInt8) ∉ pathKey ++ quote loc :=
    not_mem_10_of_plain (by rw [List.all_append, pathKey_plain, quote_plain]; rfl)
  have a3 : (10 : UInt8) ∉ dateKey ++ d.fmt :=
    not_mem_10_of_plain (by rw [List.all_append, dateKey_plain, fmt_plain d hy]; rfl)
  rw [format_eq, lines, splitOn_append _ _ _ a1, splitOn_append _ _ _ a2, splitOn_append _ _ _ a3]
  rfl

theorem startsWith_append (p s : Bytes) : startsWith (p ++ s) p = true := by
  simp [startsWith]

theorem headLine_not_path : startsWith headLine pathKey = false := by decide +kernel
theorem headLine_not_date : startsWith headLine dateKey = false := by decide +kernel
theorem path_not_date (s : Bytes) : startsWith (pathKey ++ s) dateKey = false := by
  simp [startsWith, pathKey_eq, dateKey_eq, List.isPrefixOf]

theorem format_conformant (loc : Bytes) (d : Date) (_hd : d.valid = true) (hy : 1000 ≤ d.y) :
    Holds (formatTrashinfoWith loc d.fmt) loc = true := by
  have hu : specUnescape (quote loc) = some loc := (unesc_iff _ _).mp (unesc_quote loc)
  simp [Holds, lines_format loc d hy, headLine, startsWith_append, (quote_alphabet loc).1,
    (quote_alphabet loc).2, hu, fmt_shape d hy]

theorem parsePath_format (loc : Bytes) (d : Date) (_hd : d.valid = true) (hy : 1000 ≤ d.y) :
    (readText (formatTrashinfoWith loc d.fmt)).bind parsePath = some loc := by
  rw [readText_format loc d hy]
  simp [parsePath, parsePathRaw, lines_format loc d hy, firstSome, headLine_not_path,
    startsWith_append, unquote_quote]

theorem parseDate_format (loc : Bytes) (d : Date) (hd : d.valid = true) (hy : 1000 ≤ d.y) :
    (readText (formatTrashinfoWith loc d.fmt)).map parseDate = some (.date d) := by
  rw [readText_format loc d hy]
  simp [parseDate, firstDateLine, lines_format loc d hy, firstSome, headLine_not_date,
    path_not_date, startsWith_append, strptimeBody_fmt d hd hy]

end TrashVerif.Proofs.C03
