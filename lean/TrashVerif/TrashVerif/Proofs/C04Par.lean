/-
  Proofs/C04Par.lean — the naming protocol of trash-put under concurrency: one inductive invariant
  over the transition system of Model/Concurrent.lean, preserved by every system call of every
  process, lifted to every schedule; the five C04Par properties are corollaries.
-/
import TrashVerif.Model.Concurrent
namespace TrashVerif.Proofs.C04Par
open TrashVerif Par

/-- the index of the name a process currently holds (it created info/(cand p i) itself and has
    neither finished the move nor unlinked it) -/
def heldIdx : PC → Option Nat
  | .write i => some i
  | .close i => some i
  | .move i => some i
  | .cleanup i => some i
  | _ => none

/-- the inductive invariant -/
structure Inv (infos0 : Name → Bool) (files0 : Name → Option Nat) (cand : Nat → Nat → Name) (s : Sys) : Prop where
  /-- pre-existing payloads stay -/
  pre1 : ∀ n k, files0 n = some k → s.files n = some (.pre k)
  /-- `pre` payloads are only the pre-existing ones -/
  pre2 : ∀ n k, s.files n = some (.pre k) → files0 n = some k
  /-- pre-existing infos stay -/
  inf0 : ∀ n, infos0 n = true → s.infos n = true
  /-- a held name: its info exists, was not there initially, and files/ is free -/
  own : ∀ p i, heldIdx (s.pc p) = some i →
    s.infos (cand p i) = true ∧ s.files (cand p i) = none ∧ infos0 (cand p i) = false
  /-- a name is held by at most one process -/
  excl : ∀ p q i j, heldIdx (s.pc p) = some i → heldIdx (s.pc q) = some j → cand p i = cand q j → p = q
  /-- a finished process owns its pair -/
  done : ∀ p n, s.pc p = .doneOk n → s.files n = some (.src p) ∧ s.infos n = true ∧ s.atOrigin p = false
  /-- payload provenance -/
  prov : ∀ p n, s.files n = some (.src p) → s.pc p = .doneOk n
  /-- an entry leaves its origin only by a successful move -/
  orig : ∀ p, s.atOrigin p = false → ∃ n, s.pc p = .doneOk n
  /-- a process that passed the probe saw no pre-existing payload -/
  crt : ∀ p i, s.pc p = .create i → files0 (cand p i) = none

theorem inv_init (infos0 : Name → Bool) (files0 : Name → Option Nat) (cand : Nat → Nat → Name) :
    Inv infos0 files0 cand (init infos0 files0) := by
  constructor <;> simp [init, heldIdx]

/-- a free info name has a free files/ name, once the prober knows nothing pre-existing is there -/
theorem free_of_noinfo {infos0 files0 cand s} (h : Inv infos0 files0 cand s) (n : Name)
    (h0 : files0 n = none) (hi : s.infos n = false) : s.files n = none := by
  cases hf : s.files n with
  | none => rfl
  | some pl =>
    cases pl with
    | pre k => have := h.pre2 n k hf; simp_all
    | src q => have := (h.done q n (h.prov q n hf)).2.1; simp_all

theorem inv_step {infos0 files0 cand s} (h : Inv infos0 files0 cand s) (ok : Bool) (p : Nat) :
    Inv infos0 files0 cand (step cand ok s p) := by
  obtain ⟨pre1, pre2, inf0, own, excl, done, prov, orig, crt⟩ := h
  have hfree := free_of_noinfo (Inv.mk pre1 pre2 inf0 own excl done prov orig crt)
  unfold step
  split
  next i hpc => -- probe: lstat files/(cand p i)
    split
    next hs => constructor <;> grind [heldIdx]
    next hs =>
      have h0 : files0 (cand p i) = none := by
        cases hf : files0 (cand p i) with
        | none => rfl
        | some k => have := pre1 _ _ hf; simp [this] at hs
      constructor <;> grind [heldIdx]
  next i hpc => -- create: open(O_EXCL) info/(cand p i)
    have h0 := crt p i hpc
    split
    next hs => constructor <;> grind [heldIdx]
    next hs => constructor <;> grind [heldIdx]
  next i hpc => constructor <;> grind [heldIdx] -- write
  next i hpc => constructor <;> grind [heldIdx] -- close
  next i hpc => -- move: rename entry → files/(cand p i)
    split
    next hok =>
      constructor
      case orig =>
        intro q hq
        by_cases hqp : q = p
        · exact ⟨cand p i, by simp [hqp]⟩
        · simp only [hqp, if_false] at hq ⊢
          exact orig q hq
      all_goals grind [heldIdx]
    next hok => constructor <;> grind [heldIdx]
  next i hpc => constructor <;> grind [heldIdx] -- cleanup: unlink info/(cand p i)
  next n hpc => constructor <;> assumption
  next hpc => constructor <;> assumption

theorem inv_run {infos0 files0 cand} (sched : List (Nat × Bool)) :
    ∀ s, Inv infos0 files0 cand s → Inv infos0 files0 cand (runSched cand sched s) := by
  induction sched with
  | nil => intro s h; exact h
  | cons a rest ih =>
    intro s h
    obtain ⟨p, ok⟩ := a
    exact ih _ (inv_step h ok p)

theorem inv_sched (cand : Nat → Nat → Name) (infos0 : Name → Bool) (files0 : Name → Option Nat)
    (sched : List (Nat × Bool)) : Inv infos0 files0 cand (runSched cand sched (init infos0 files0)) :=
  inv_run sched _ (inv_init infos0 files0 cand)

theorem preexisting_intact (cand : Nat → Nat → Name) (infos0 : Name → Bool) (files0 : Name → Option Nat)
    (sched : List (Nat × Bool)) :
    let s := runSched cand sched (init infos0 files0)
    (∀ n k, files0 n = some k → s.files n = some (.pre k)) ∧ (∀ n, infos0 n = true → s.infos n = true) := by
  intro s
  have h := inv_sched cand infos0 files0 sched
  exact ⟨h.pre1, h.inf0⟩

theorem success_owns_distinct (cand : Nat → Nat → Name) (infos0 : Name → Bool) (files0 : Name → Option Nat)
    (sched : List (Nat × Bool)) :
    let s := runSched cand sched (init infos0 files0)
    (∀ p n, s.pc p = .doneOk n → s.files n = some (.src p) ∧ s.infos n = true ∧ s.atOrigin p = false) ∧
    (∀ p q n m, p ≠ q → s.pc p = .doneOk n → s.pc q = .doneOk m → n ≠ m) := by
  intro s
  have h := inv_sched cand infos0 files0 sched
  refine ⟨h.done, ?_⟩
  intro p q n m hpq hp hq hnm
  subst hnm
  have h1 := (h.done p n hp).1
  have h2 := (h.done q n hq).1
  rw [h1] at h2
  injection h2 with h2
  injection h2 with h2
  exact hpq h2

theorem conservation (cand : Nat → Nat → Name) (infos0 : Name → Bool) (files0 : Name → Option Nat)
    (sched : List (Nat × Bool)) :
    let s := runSched cand sched (init infos0 files0)
    (∀ p, s.atOrigin p = true ↔ ∀ n, s.files n ≠ some (.src p)) ∧
    (∀ p n m, s.files n = some (.src p) → s.files m = some (.src p) → n = m) ∧
    (∀ p n, s.files n = some (.src p) → s.pc p = .doneOk n) := by
  intro s
  have h := inv_sched cand infos0 files0 sched
  refine ⟨?_, ?_, h.prov⟩
  · intro p
    constructor
    · intro ho n hf
      have := (h.done p n (h.prov p n hf)).2.2
      rw [ho] at this
      exact Bool.noConfusion this
    · intro hall
      cases ho : s.atOrigin p with
      | true => rfl
      | false =>
        obtain ⟨n, hn⟩ := h.orig p ho
        exact absurd (h.done p n hn).1 (hall n)
  · intro p n m hn hm
    have h1 := h.prov p n hn
    have h2 := h.prov p m hm
    rw [h1] at h2
    injection h2

theorem move_target_free (cand : Nat → Nat → Name) (infos0 : Name → Bool) (files0 : Name → Option Nat)
    (sched : List (Nat × Bool)) :
    let s := runSched cand sched (init infos0 files0)
    ∀ p i, s.pc p = .move i → s.files (cand p i) = none ∧ s.infos (cand p i) = true := by
  intro s p i hp
  have h := inv_sched cand infos0 files0 sched
  have := h.own p i (by rw [hp]; rfl)
  exact ⟨this.2.1, this.1⟩

theorem failed_leaves_nothing (cand : Nat → Nat → Name) (infos0 : Name → Bool) (files0 : Name → Option Nat)
    (sched : List (Nat × Bool)) :
    let s := runSched cand sched (init infos0 files0)
    ∀ p, s.pc p = .doneFail → s.atOrigin p = true := by
  intro s p hp
  have h := inv_sched cand infos0 files0 sched
  cases ho : s.atOrigin p with
  | true => rfl
  | false =>
    obtain ⟨n, hn⟩ := h.orig p ho
    rw [hp] at hn
    exact PC.noConfusion hn

/-! ### Extra (not referenced by Props/C04Par.lean): every info file is accounted for.
  This is the "no stray info" reading of `failed_leaves_nothing`: an info name that exists is
  pre-existing, or currently held by a live process (write/close/move/cleanup), or belongs to the
  pair of a successful process — so a process that ended in `doneFail` left no info of its own. -/

def Accounted (infos0 : Name → Bool) (cand : Nat → Nat → Name) (s : Sys) : Prop :=
  ∀ n, s.infos n = true →
    infos0 n = true ∨ (∃ q j, heldIdx (s.pc q) = some j ∧ cand q j = n) ∨ ∃ q, s.pc q = .doneOk n

theorem acc_step {infos0 files0 cand s} (h : Inv infos0 files0 cand s) (ha : Accounted infos0 cand s)
    (ok : Bool) (p : Nat) : Accounted infos0 cand (step cand ok s p) := by
  have hown := h.own
  have hexcl := h.excl
  unfold Accounted at *
  intro n
  unfold step
  split <;> (try split) <;> (try simp only []) <;> intro hn
  all_goals grind [heldIdx]

theorem acc_run {infos0 files0 cand} (sched : List (Nat × Bool)) :
    ∀ s, Inv infos0 files0 cand s → Accounted infos0 cand s → Accounted infos0 cand (runSched cand sched s) := by
  induction sched with
  | nil => intro s _ ha; exact ha
  | cons a rest ih =>
    intro s h ha
    obtain ⟨p, ok⟩ := a
    exact ih _ (inv_step h ok p) (acc_step h ha ok p)

theorem no_stray_info (cand : Nat → Nat → Name) (infos0 : Name → Bool) (files0 : Name → Option Nat)
    (sched : List (Nat × Bool)) :
    let s := runSched cand sched (init infos0 files0)
    ∀ n, s.infos n = true →
      infos0 n = true ∨
      (∃ q j, cand q j = n ∧ (s.pc q = .write j ∨ s.pc q = .close j ∨ s.pc q = .move j ∨ s.pc q = .cleanup j)) ∨
      ∃ q, s.pc q = .doneOk n := by
  intro s n hn
  have ha : Accounted infos0 cand s :=
    acc_run sched _ (inv_init infos0 files0 cand) (fun n hn => Or.inl hn)
  rcases ha n hn with h | ⟨q, j, hq, hc⟩ | h
  · exact Or.inl h
  · refine Or.inr (Or.inl ⟨q, j, hc, ?_⟩)
    cases hpc : s.pc q <;> simp [hpc, heldIdx] at hq <;> simp [hq]
  · exact Or.inr (Or.inr h)

end TrashVerif.Proofs.C04Par
