/-
  Proofs/C10CmdTop.lean — from the loop over the trash directories (`Proofs.C10Cmd.emptyDirs_world`) to
  the statements of Props/C10Cmd.lean about the whole command `runEmpty`.
-/
import TrashVerif.Proofs.C10Cmd
import TrashVerif.Props.C10
namespace TrashVerif.Proofs.C10Cmd
open TrashVerif Prog FS PutCore PutLemmas C09Hist C10Loop C12Cmd C10Cmd
open TrashVerif.Proofs.C10Loop
open TrashVerif.Proofs.C12Cmd

/-- the run of the command without faults, from the bare state -/
abbrev R (c : ReadCfg) (o : EmptyOpts) (reply : Option Bytes) (fs : FS) : CmdResult × RunState :=
  run noFaults (runEmpty c o reply) { fs := fs }

/-- what both theorems share: exit code 0, `PurgedAll` with `swept`, the frame, the orphans -/
theorem empty_command_core (fs : FS) (c : ReadCfg) (o : EmptyOpts) (reply : Option Bytes) (ds : List TDir)
    (hscan : foundDirs (selectTrashDirs fs c o.userDirs) = ds.map TDir.pair) (W : EmptyWorld fs ds)
    (hdry : o.dryRun = false) (hgo : o.interactive = false ∨ ∃ r, reply = some r ∧ emptyReplyYes r = true)
    (hnc : ∀ (fs' : FS) (i : Bytes) (cr : Crash), okToDelete fs' c.cwd o i ≠ .crash cr) :
    (R c o reply fs).1.exit = 0 ∧ (R c o reply fs).1.crash = none ∧
    PurgedAll fs (R c o reply fs).2.fs ds (swept fs c.cwd o) ∧
    (∀ d ∈ ds, ∀ n ∈ d.names, n ∉ emptySel fs c.cwd o d → Intact fs (R c o reply fs).2.fs d n) ∧
    (∀ d ∈ ds, ∀ m ∈ orphans fs d, PayloadGone (R c o reply fs).2.fs d m) ∧
    (∀ q, (∀ d ∈ ds, ¬ FS.under d.I q = true ∧ ¬ FS.under d.F q = true) → (R c o reply fs).2.fs.get q = fs.get q) := by
  obtain ⟨hnone, P, ff, _, _⟩ := emptyDirs_world o hdry c.cwd fs ds W (fun _ _ _ _ cr => hnc _ _ cr)
  unfold R
  rw [runEmpty_run c o reply fs _ hgo hscan hnone]
  refine ⟨rfl, rfl, P, fun d hd n hn hns => ?_, fun d hd m hm => orphan_gone P hd hm, fun q hq => ?_⟩
  · refine intact_of_not_selected c.cwd W.world P (swept_isInfo W) hd ((plainDir_nodup (W.world.plain d hd)).2 n hn) ?_
    intro h
    rcases List.mem_append.1 h with h | h
    · exact hns h
    · exact listed_not_orphan W hd hn h
  · exact ff q fun d hd => ⟨fun h => (hq d hd).1 ((under_iff _ _).2 h), fun h => (hq d hd).2 ((under_iff _ _).2 h)⟩

/-- THE SELECTION THEOREM of `trash-empty DAYS` -/
theorem empty_days_command_selects_exactly (fs : FS) (c : ReadCfg) (o : EmptyOpts) (reply : Option Bytes) (ds : List TDir)
    (days : Nat) (hscan : foundDirs (selectTrashDirs fs c o.userDirs) = ds.map TDir.pair) (W : EmptyWorld fs ds)
    (hdays : o.days = some days) (hdry : o.dryRun = false)
    (hgo : o.interactive = false ∨ ∃ r, reply = some r ∧ emptyReplyYes r = true)
    (hno : ∀ dt, olderThan days o.now o.nowUs dt ≠ .overflow) :
    (R c o reply fs).1.exit = 0 ∧ (R c o reply fs).1.crash = none ∧
    (∀ d ∈ ds, ∀ n ∈ d.names,
      (Gone (R c o reply fs).2.fs d n ↔ DatedOld fs c.cwd days o d n) ∧
      (¬ DatedOld fs c.cwd days o d n → Intact fs (R c o reply fs).2.fs d n)) ∧
    (∀ d ∈ ds, ∀ m ∈ orphans fs d, PayloadGone (R c o reply fs).2.fs d m) ∧
    PurgedAll fs (R c o reply fs).2.fs ds (swept fs c.cwd o) ∧
    (∀ q, (∀ d ∈ ds, ¬ FS.under d.I q = true ∧ ¬ FS.under d.F q = true) → (R c o reply fs).2.fs.get q = fs.get q) := by
  obtain ⟨h1, h2, P, hint, horph, hout⟩ :=
    empty_command_core fs c o reply ds hscan W hdry hgo (okToDelete_nocrash_days hdays hno)
  refine ⟨h1, h2, fun d hd n hn => ⟨⟨fun hg => ?_, fun ho => ?_⟩, fun ho => ?_⟩, horph, P, hout⟩
  · refine Classical.byContradiction fun ho => ?_
    have hi := hint d hd n hn (fun h => ho ((mem_emptySel_days hdays hn).1 h))
    have h3 := hi.1 []
    rw [hg.1 [], List.append_nil] at h3
    exact listed_present W hd hn h3.symm
  · have hs : n ∈ swept fs c.cwd o d := List.mem_append_left _ ((mem_emptySel_days hdays hn).2 ho)
    exact ⟨P.infoGone d hd n hs, P.payloadGone d hd n hs⟩
  · exact hint d hd n hn (fun h => ho ((mem_emptySel_days hdays hn).1 h))

/-- `trash-empty` without DAYS -/
theorem empty_all_command (fs : FS) (c : ReadCfg) (o : EmptyOpts) (reply : Option Bytes) (ds : List TDir)
    (hscan : foundDirs (selectTrashDirs fs c o.userDirs) = ds.map TDir.pair) (W : EmptyWorld fs ds)
    (hdays : o.days = none) (hdry : o.dryRun = false)
    (hgo : o.interactive = false ∨ ∃ r, reply = some r ∧ emptyReplyYes r = true) :
    (R c o reply fs).1.exit = 0 ∧ (R c o reply fs).1.crash = none ∧
    (∀ d ∈ ds, ∀ n ∈ d.names, Gone (R c o reply fs).2.fs d n) ∧
    (∀ d ∈ ds, ∀ m, (fs.get (d.F ++ [m])).isSome = true → PayloadGone (R c o reply fs).2.fs d m) ∧
    (∀ d ∈ ds, keptDir fs (R c o reply fs).2.fs d.I ∧ keptDir fs (R c o reply fs).2.fs d.F) ∧
    PurgedAll fs (R c o reply fs).2.fs ds (swept fs c.cwd o) ∧
    (∀ d ∈ ds, swept fs c.cwd o d = d.names ++ (orphans fs d).map infoNameOf) ∧
    (∀ q, (∀ d ∈ ds, ¬ FS.under d.I q = true ∧ ¬ FS.under d.F q = true) → (R c o reply fs).2.fs.get q = fs.get q) := by
  obtain ⟨h1, h2, P, _, _, hout⟩ :=
    empty_command_core fs c o reply ds hscan W hdry hgo (okToDelete_nocrash_all hdays)
  have hsw : ∀ d, swept fs c.cwd o d = d.names ++ (orphans fs d).map infoNameOf := fun d => by
    unfold swept; rw [emptySel_all hdays]
  refine ⟨h1, h2, fun d hd n hn => ?_, fun d hd m hm => ?_, P.dirs, P, fun d _ => hsw d, hout⟩
  · have hs : n ∈ swept fs c.cwd o d := by rw [hsw]; exact List.mem_append_left _ hn
    exact ⟨P.infoGone d hd n hs, P.payloadGone d hd n hs⟩
  · have D := (dirsSetting_of_world c.cwd W).robust (toC14 d) (List.mem_map.2 ⟨d, hd, rfl⟩) fs
      (Proofs.C14LoopMulti.beside_refl _ _ _) W.world.wf
    have hall := Proofs.C14LoopDir.child_mem_all D hm
    have hs : infoNameOf m ∈ swept fs c.cwd o d := by
      rw [hsw, ← listed_eq (W.world.plain d hd)]; exact hall
    intro rel
    have := P.payloadGone d hd _ hs rel
    rwa [Proofs.C14LoopDir.stemOf_infoNameOf] at this

/-! ### the corollaries in the property's words -/

/-- a listed entry with a readable info file whose date `olderThan` does not say yes to — and an undated
    or unreadable one — is not `DatedOld` -/
theorem not_datedOld_of_dated {fs : FS} {cwd : CPath} {days : Nat} {o : EmptyOpts} {d : TDir} {n text : Bytes} {dt : Date}
    (h1 : contentsOf fs cwd (infoStr (toStr d.T) n) = some text) (h2 : parseDeletionDate text = some dt)
    (h3 : olderThan days o.now o.nowUs dt ≠ .yes) : ¬ DatedOld fs cwd days o d n := by
  rintro ⟨text', dt', e1, e2, e3⟩
  rw [h1] at e1; cases e1
  rw [h2] at e2; cases e2
  exact h3 e3

theorem not_datedOld_of_undated {fs : FS} {cwd : CPath} {days : Nat} {o : EmptyOpts} {d : TDir} {n text : Bytes}
    (h1 : contentsOf fs cwd (infoStr (toStr d.T) n) = some text) (h2 : parseDeletionDate text = none) :
    ¬ DatedOld fs cwd days o d n := by
  rintro ⟨text', dt', e1, e2, _⟩
  rw [h1] at e1; cases e1
  rw [h2] at e2; cases e2

theorem not_datedOld_of_unreadable {fs : FS} {cwd : CPath} {days : Nat} {o : EmptyOpts} {d : TDir} {n : Bytes}
    (h1 : contentsOf fs cwd (infoStr (toStr d.T) n) = none) : ¬ DatedOld fs cwd days o d n := by
  rintro ⟨text', dt', e1, _, _⟩
  rw [h1] at e1; cases e1

/-- `olderThan` overflows for one date iff it does for every date: the overflow is that of now − DAYS days -/
theorem overflow_indep (days : Nat) (now : Date) (us : Nat) (d d' : Date) :
    olderThan days now us d = .overflow ↔ olderThan days now us d' = .overflow := by
  unfold olderThan
  simp only []
  constructor <;>
  · intro h
    split at h
    · rw [if_pos ‹_›]
    · rw [if_neg ‹_›]
      split at h
      · rw [if_pos ‹_›]
      · split at h <;> cases h

/-- when the clock is valid and now − DAYS days is representable, no date makes `olderThan` overflow -/
theorem no_overflow_of_minusDays (days : Nat) (now : Date) (us : Nat) (hv : now.valid = true) (hus : us < 1000000)
    (h : C10.minusDays days now ≠ none) : ∀ dt, olderThan days now us dt ≠ .overflow := by
  intro dt hdt
  exact h ((C10.olderThan_spec days now us now hv hv hus).2.1 ((overflow_indep days now us dt now).1 hdt))

end TrashVerif.Proofs.C10Cmd
