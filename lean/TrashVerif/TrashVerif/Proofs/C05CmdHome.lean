/-
  Proofs/C05CmdHome.lean — the crash states of `trash-put <arg>` into a home trash that already
  exists: the states of the core run, after three `mkdir`s that fail with EEXIST (proofs for
  Props/C05Cmd.lean).
-/
import TrashVerif.Proofs.C05Cmd
import TrashVerif.Proofs.C07Cmd
import TrashVerif.Proofs.C05
namespace TrashVerif.Proofs.C05CmdHome
open TrashVerif Prog FS PutCore PutLemmas C07Cmd C05Cmd C16Indep
open TrashVerif.Proofs.C07 (Plain GoodNames normpath_toStr volumeOf_is_device_root)
open TrashVerif.Proofs.C17 (isDirAt_iff)
open TrashVerif.Proofs.C16IndepHome
open TrashVerif.Proofs.C16Indep (putAll_step run_noFaults_fs)
open TrashVerif.Proofs.C07Cmd (tryCandidates_take runPut_single)

/-! ### a fault-free run does not look at the history -/

theorem run_hist_two {α} (p : Prog α) : ∀ (s s' : RunState), s.fs = s'.fs →
    ∃ new, (run noFaults p s).2.hist = new ++ s.hist ∧ (run noFaults p s').2.hist = new ++ s'.hist := by
  induction p with
  | ret a => intro s s' _; exact ⟨[], rfl, rfl⟩
  | get k ih => intro s s' h; simp only [run]; rw [h]; exact ih _ _ _ h
  | emit o k ih => intro s s' h; simp only [run]; exact ih _ _ h
  | call c k ih =>
    intro s s' h
    simp only [run, noFaults]
    rw [← h]
    cases c.apply s.fs with
    | ok fs' =>
      simp only
      obtain ⟨new, h1, h2⟩ := ih (.ok ()) ⟨fs', s.fs :: s.hist, (c, .ok ()) :: s.trace, s.outs, s.n + 1⟩
        ⟨fs', s.fs :: s'.hist, (c, .ok ()) :: s'.trace, s'.outs, s'.n + 1⟩ rfl
      exact ⟨new ++ [s.fs], by rw [h1]; simp, by rw [h2]; simp⟩
    | error e =>
      simp only
      obtain ⟨new, h1, h2⟩ := ih (.error e) ⟨s.fs, s.fs :: s.hist, (c, .error e) :: s.trace, s.outs, s.n + 1⟩
        ⟨s.fs, s.fs :: s'.hist, (c, .error e) :: s'.trace, s'.outs, s'.n + 1⟩ rfl
      exact ⟨new ++ [s.fs], by rw [h1]; simp, by rw [h2]; simp⟩

theorem run_hist_frame {α} (p : Prog α) (s : RunState) :
    (run noFaults p s).2.hist = (run noFaults p { fs := s.fs }).2.hist ++ s.hist := by
  obtain ⟨new, h1, h2⟩ := run_hist_two p s { fs := s.fs } rfl
  rw [h1, h2]; simp

/-! ### `mkdir_p` of a directory that is already there: one failed `mkdir`, the state stays -/

theorem mkdirP_noop_hist (s : RunState) (p : CPath) (mode : Nat) (hd : s.fs.isDirAt p = true)
    (hpar : p.dropLast = [] ∨ s.fs.isDirAt p.dropLast = true) :
    ∃ s', run noFaults (mkdirP p mode) s = (.ok (), s') ∧ s'.fs = s.fs ∧ s'.hist = s.fs :: s.hist := by
  have hex : s.fs.exists_ p = true := by
    obtain ⟨m, t, hg⟩ := isDirAt_iff.1 hd
    simp [exists_, hg]
  obtain ⟨e, he⟩ := mkdir_exists mode hex
  have hmk : run noFaults (makedirs p.length p mode) s =
      (.error e, { s with hist := s.fs :: s.hist, trace := (.mkdir p mode, .error e) :: s.trace, n := s.n + 1 }) := by
    have hsys := run_sys_err (c := .mkdir p mode) (s := s) (e := e) he
    cases hl : p.length with
    | zero => rw [makedirs]; exact hsys
    | succ k =>
      rw [makedirs, run_read_bind]
      have hc : ¬ (p ≠ [] ∧ p.dropLast ≠ [] ∧ ¬ existsC s.fs p.dropLast = true) := by
        rintro ⟨_, h2, h3⟩
        rcases hpar with h | h
        · exact h2 h
        · exact h3 (isDirAt_existsC h)
      rw [if_neg hc]; exact hsys
  refine ⟨{ s with hist := s.fs :: s.hist, trace := (.mkdir p mode, .error e) :: s.trace, n := s.n + 1 }, ?_, rfl, rfl⟩
  unfold mkdirP
  rw [run_bind, hmk]
  simp only [run_read_bind]
  rw [if_pos (isDirAt_isdirC hd)]
  rfl

theorem mkdirPStr_noop_hist (s : RunState) (cwd Q : CPath) (mode : Nat) (hp : Plain s.fs Q) (hn : GoodNames Q) :
    ∃ s', run noFaults (mkdirPStr cwd (toStr Q) mode) s = (.ok (), s') ∧ s'.fs = s.fs ∧ s'.hist = s.fs :: s.hist := by
  unfold mkdirPStr
  rw [run_read_bind, C07.danglingOnPath_plain _ _ _ hp hn, dirC_plain _ _ _ hp hn]
  exact mkdirP_noop_hist s Q mode (hp _ List.prefix_rfl) (Or.inr (hp _ (dropLast_pfx _)))

/-! ### the home candidate, with the history -/

theorem trashFileIn_home_hist {c : PutCfg} {fs : FS} {H P : CPath} {n : Name} (W : HomeWorld c fs H)
    (A : GoodArg fs H P n) (st : PutSt) (s : RunState) (hs : s.fs = fs) :
    (run noFaults (trashFileIn c (toStr (P ++ [n])) (toStr (dev fs P)) (homeCand fs c H) st) s).1 =
      (run noFaults (homeCore c H P n st) { fs := fs }).1 ∧
    (run noFaults (trashFileIn c (toStr (P ++ [n])) (toStr (dev fs P)) (homeCand fs c H) st) s).2.fs =
      (run noFaults (homeCore c H P n st) { fs := fs }).2.fs ∧
    (run noFaults (trashFileIn c (toStr (P ++ [n])) (toStr (dev fs P)) (homeCand fs c H) st) s).2.hist =
      (run noFaults (homeCore c H P n st) { fs := fs }).2.hist ++ fs :: fs :: fs :: s.hist := by
  subst hs
  have gT := W_goodT W
  have pT := W_plainT W
  have hsec : securityCheck s.fs c.cwd (homeCand s.fs c H) = none := by simp [securityCheck, homeCand]
  have hgate : gateCheck s.fs c (toStr (dev s.fs P)) (homeCand s.fs c H) = none := by
    refine (C07.gate_same_volume s.fs c _ (homeCand s.fs c H) rfl).2 ?_
    show volumeOf s.fs c.cwd (realpathStr s.fs c.cwd (homeStr H)) = _
    rw [homeStr_eq W.homeNotRoot, realpathStr_plain _ _ _ pT gT,
      volumeOf_is_device_root _ _ _ pT gT W.rootMounted, A.sameVolume]
  rw [trashFileIn, run_read_bind]
  simp only [hsec, hgate]
  have gF := W_goodF W
  have gI := W_goodI W
  have hP : (homeCand s.fs c H).path = toStr (trashC H) := homeStr_eq W.homeNotRoot
  have hPF : pjoin (homeCand s.fs c H).path (b "files") = toStr (filesC H) := by
    rw [hP]; exact pjoin_toStr (trashC_ne H) gT _ (by decide +kernel)
  have hPI : pjoin (homeCand s.fs c H).path (b "info") = toStr (infoC H) := by
    rw [hP]; exact pjoin_toStr (trashC_ne H) gT _ (by decide +kernel)
  rw [hPF, hPI, hP, run_bind]
  obtain ⟨s1, h1, e1, k1⟩ := mkdirPStr_noop_hist s c.cwd (trashC H) 0o700 pT gT
  rw [h1]
  simp only []
  rw [run_bind]
  obtain ⟨s2, h2, e2, k2⟩ := mkdirPStr_noop_hist s1 c.cwd (filesC H) 0o700 (by rw [e1]; exact W.filesPlain) gF
  rw [h2]
  simp only []
  rw [run_bind]
  obtain ⟨s3, h3, e3, k3⟩ := mkdirPStr_noop_hist s2 c.cwd (infoC H) 0o700 (by rw [e2, e1]; exact W.infoPlain) gI
  rw [h3]
  simp only []
  rw [run_read_bind, run_read_bind, e3, e2, e1, dirC_plain _ _ _ W.filesPlain gF, dirC_plain _ _ _ W.infoPlain gI,
    originalLocation_home s.fs c.cwd P n (homeCand s.fs c H) rfl A.parentPlain A.names, normpath_toStr _ A.names]
  have hfs3 : s3.fs = s.fs := by rw [e3, e2, e1]
  have hh3 : s3.hist = s.fs :: s.fs :: s.fs :: s.hist := by rw [k3, k2, k1, e2, e1]
  have hsrc := putCore_srcOf (infoC H) (filesC H) (basename (locOf P n)) (formatTrashinfoWith (locOf P n) c.dateStr)
    (fun fs' => if fs'.pIsmount c.cwd (toStr (P ++ [n])) = true then Except.error Errno.EBUSY
      else fs'.resolve c.cwd (toStr (P ++ [n]))) (P ++ [n]) st s3 (by
      intro name hname
      have ps := persist_spec (infoC H) (filesC H) (basename (locOf P n)) (formatTrashinfoWith (locOf P n) c.dateStr)
        persistFuel 0 false st s3
      rcases ps with ⟨a, _, _⟩ | ⟨nm, a, _, _, hfreeI, _, _, hfs, _⟩
      · exact absurd hname (a name)
      · rw [hname] at a
        cases a
        rw [hfs, hfs3]
        rw [hfs3] at hfreeI
        exact src_after s.fs c.cwd (infoC H) name _ P n A.parentPlain A.names A.present A.notMount hfreeI
          (fun e => A.apartInfo.1 (e ▸ List.prefix_rfl)))
  rw [hsrc]
  obtain ⟨r1, r2⟩ := run_noFaults_fs (homeCore c H P n st) s3 { fs := s.fs } hfs3
  refine ⟨r1, r2, ?_⟩
  have := run_hist_frame (homeCore c H P n st) s3
  rw [hfs3, hh3] at this
  exact this

theorem trashSingle_home_hist {c : PutCfg} {fs : FS} {H P : CPath} {n : Name} (W : HomeWorld c fs H)
    (A : GoodArg fs H P n) (st : PutSt) (name : Bytes)
    (hok : (run noFaults (homeCore c H P n st) { fs := fs }).1.1 = .ok name) :
    ∃ s1, run noFaults (trashSingle c (toStr (P ++ [n])) st) { fs := fs } =
        ((.ok (.trashed (homeStr H) name), (run noFaults (homeCore c H P n st) { fs := fs }).1.2), s1) ∧
      s1.fs = (run noFaults (homeCore c H P n st) { fs := fs }).2.fs ∧
      s1.hist = (run noFaults (homeCore c H P n st) { fs := fs }).2.hist ++ [fs, fs, fs] := by
  unfold trashSingle
  rw [if_neg (by rw [notDot_home A.names]; simp), run_read_bind,
    if_neg (by rw [pLexists_home c.cwd A]; simp)]
  have hask : ¬ (c.mode = PutMode.interactive ∧ pExists fs c.cwd (toStr (P ++ [n])) = true) := fun x => W.noPrompt x.1
  simp only [if_neg hask, W.noForcedVolume]
  rw [volume_home W A]
  obtain ⟨rest, hc⟩ := candidates_home W (toStr (dev fs P))
  rw [hc, run_bind, tryCandidates, run_bind]
  obtain ⟨t1, t2, t3⟩ := trashFileIn_home_hist W A st { fs := fs } rfl
  generalize run noFaults (trashFileIn c (toStr (P ++ [n])) (toStr (dev fs P)) (homeCand fs c H) st) { fs := fs } = r
    at t1 t2 t3
  obtain ⟨⟨res, st1⟩, s1⟩ := r
  generalize run noFaults (homeCore c H P n st) { fs := fs } = core at t1 t2 t3 hok
  obtain ⟨⟨cres, cst⟩, cs⟩ := core
  simp only at t1 t2 t3 hok
  subst hok
  cases t1
  exact ⟨s1, rfl, t2, t3⟩

/-- the crash states of the whole run are `fs` and the crash states of the core run -/
theorem crashStates_home {c : PutCfg} {fs : FS} {H P : CPath} {n : Name} (W : HomeWorld c fs H)
    (A : GoodArg fs H P n) (st : PutSt) (name : Bytes)
    (hok : (run noFaults (homeCore c H P n st) { fs := fs }).1.1 = .ok name) :
    crashStates noFaults (runPut c [toStr (P ++ [n])] st) fs =
      [fs, fs, fs] ++ crashStates noFaults (homeCore c H P n st) fs := by
  obtain ⟨s1, hrun, hfs, hhist⟩ := trashSingle_home_hist W A st name hok
  have hput := runPut_single c _ st _ { fs := fs } s1 _ hrun (by intro e h; cases h)
  unfold crashStates
  rw [hput]
  simp only [ArgOutcome.failed, Bool.false_eq_true, if_false]
  rw [hfs, hhist]
  simp

/-! ### the invariant of C05 in the crash states of the core run -/

open TrashVerif.Proofs.C05 (mem_crashStates)

section core
variable {I F S : CPath} (g : Geo I F S)
include g

theorem slot_apart (z : Name) (rel : CPath) (name : Bytes) :
    ¬ S <+: F ++ z :: rel ∧ F ++ z :: rel ≠ I ++ [name] ∧ F ++ z :: rel ≠ I ∧ F ++ z :: rel ≠ parent S ∧ F ++ z :: rel ≠ F := by
  have hF : F <+: F ++ z :: rel := List.prefix_append _ _
  refine ⟨fun h => ?_, fun e => ?_, fun e => g.h2 (e ▸ hF), fun e => g.h6 ((e ▸ hF).trans (dropLast_pfx S)), fun e => ?_⟩
  · rcases pfx_comparable h hF with h | h
    · exact g.h4 h
    · exact g.h6 h
  · rcases pfx_concat.1 (e ▸ hF) with h | h
    · exact g.h1 (h ▸ List.prefix_append I [name])
    · exact g.h2 h
  · have := congrArg List.length e; simp at this

theorem crashInv_core_early {fs s : FS} (name stem loc : Bytes) (d : Date) (hfree : fs.get (F ++ [stem]) = none)
    (hs : ∀ q, q ≠ I ++ [name] → q ≠ I → s.get q = fs.get q) : CrashInv fs s I F S stem loc d := by
  have hslot : ∀ z rel, s.get (F ++ z :: rel) = fs.get (F ++ z :: rel) := fun z rel =>
    hs _ (slot_apart g z rel name).2.1 (slot_apart g z rel name).2.2.1
  refine ⟨Or.inl ⟨fun rel => ?_, fun rel => ?_⟩, fun z _ rel => hslot z rel, fun h => ?_⟩
  · exact hs _ (fun h => g.S_P (n := name) (h ▸ List.prefix_append S rel)) (fun h => g.h3 (h ▸ List.prefix_append S rel))
  · rw [List.append_assoc, List.singleton_append]; exact hslot stem rel
  · have := hslot stem []
    rw [this, hfree] at h; cases h

theorem crashInv_core_final {fs : FS} (name loc : Bytes) (d : Date) (hd : d.valid = true) (hy : 1000 ≤ d.y)
    (hst : name = stemOf name ++ trashinfoExt) :
    CrashInv fs (fsC (fsB fs (I ++ [name]) (formatTrashinfoWith loc d.fmt)) S (F ++ [stemOf name]) F) I F S (stemOf name) loc d := by
  have hnt := stem_ne hst
  refine ⟨Or.inr ⟨fun rel => final_whole g hnt fs _ rel, fun rel => final_gone g hnt fs _ (List.prefix_append S rel)⟩,
    fun z hz rel => ?_, fun _ => ?_⟩
  · obtain ⟨a1, a2, a3, a4, a5⟩ := slot_apart g z rel name
    refine final_frame g hnt fs _ a1 (fun h => ?_) a2 a4 a5 a3
    obtain ⟨t, ht⟩ := (List.prefix_append_right_inj _).1 h
    simp only [List.cons_append, List.nil_append, List.cons.injEq] at ht
    exact hz ht.1.symm
  · obtain ⟨h1, h2, h3, h4⟩ := C03Cmd.written_parses loc d hd hy
    rw [← hst]
    exact ⟨_, _, _, final_info g hnt fs _, h1, h2, h3, h4⟩
end core

/-- C05 for every crash state of the core run in a `Setting`, with the name the run reports -/
theorem core_crash_inv {fs : FS} {I F S : CPath} (base loc : Bytes) (d : Date) (hd : d.valid = true) (hy : 1000 ≤ d.y)
    (st : PutSt) (h : Setting fs I F S) (name : Bytes)
    (hok : (run noFaults (putCore I F base (formatTrashinfoWith loc d.fmt) (fun _ => .ok S) st) { fs := fs }).1.1 = .ok name) :
    fs.get (F ++ [stemOf name]) = none ∧
    ∀ s ∈ crashStates noFaults (putCore I F base (formatTrashinfoWith loc d.fmt) (fun _ => .ok S) st) fs,
      CrashInv fs s I F S (stemOf name) loc d := by
  have g := Geo.of_setting h
  have cs := core_spec base (formatTrashinfoWith loc d.fmt) st { fs := fs } h
  rcases cs with ⟨e, a, _, _⟩ | ⟨name', a, hst, hfree, _, b, c⟩
  · rw [a] at hok; cases hok
  · rw [a] at hok; cases hok
    simp only at b c hfree
    refine ⟨hfree, fun s hs => ?_⟩
    have hfs : CrashInv fs fs I F S (stemOf name) loc d := crashInv_core_early g [] _ loc d hfree (fun _ _ _ => rfl)
    rcases mem_crashStates hs with hm | hm
    · rw [hm, b]; exact crashInv_core_final g name loc d hd hy hst
    · rcases c s hm with hm | hm | hm | hm
      · rw [hm]
        exact crashInv_core_early g name _ loc d hfree fun q h1 h2 => by rw [fsB_get, if_neg h1, if_neg h2]
      · rw [hm]
        exact crashInv_core_early g name _ loc d hfree fun q h1 h2 => by rw [fsA_get, if_neg h1, if_neg h2]
      · rw [hm]; exact hfs
      · cases hm

/-- C05 for every crash state of `trash-put <arg>` into an existing home trash -/
theorem home_existing_crash_inv {c : PutCfg} {fs : FS} {H P : CPath} {n : Name} (W : HomeWorld c fs H)
    (A : GoodArg fs H P n) (d : Date) (hclock : c.dateStr = d.fmt) (hd : d.valid = true) (hy : 1000 ≤ d.y)
    (st : PutSt) (name : Bytes)
    (hok : (run noFaults (homeCore c H P n st) { fs := fs }).1.1 = .ok name) :
    fs.get (filesC H ++ [stemOf name]) = none ∧
    ∀ s ∈ crashStates noFaults (runPut c [toStr (P ++ [n])] st) fs,
      CrashInv fs s (infoC H) (filesC H) (P ++ [n]) (stemOf name) (toStr (P ++ [n])) d := by
  have hset := W_setting W A
  have hloc := locOf_eq P n A.names
  unfold homeCore at hok
  rw [hloc, hclock] at hok
  obtain ⟨hfree, hall⟩ := core_crash_inv (basename (toStr (P ++ [n]))) (toStr (P ++ [n])) d hd hy st hset name hok
  refine ⟨hfree, fun s hs => ?_⟩
  rw [crashStates_home W A st name (by unfold homeCore; rw [hloc, hclock]; exact hok)] at hs
  unfold homeCore at hs
  rw [hloc, hclock] at hs
  simp only [List.mem_append, List.mem_cons, List.not_mem_nil, or_false] at hs
  have hfs : fs ∈ crashStates noFaults (putCore (infoC H) (filesC H) (basename (toStr (P ++ [n])))
      (formatTrashinfoWith (toStr (P ++ [n])) d.fmt) (fun _ => .ok (P ++ [n])) st) fs :=
    C05CmdCore.init_mem_crashStates _ fs
  rcases hs with (rfl | rfl | rfl) | hs
  · exact hall _ hfs
  · exact hall _ hfs
  · exact hall _ hfs
  · exact hall s hs

end TrashVerif.Proofs.C05CmdHome
