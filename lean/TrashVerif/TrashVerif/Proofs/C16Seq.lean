/-
  Proofs/C16Seq.lean — proofs for Props/C16Seq.lean (the run is the fold; exit status and diagnostics).
-/
import TrashVerif.Props.C16SeqDefs
import TrashVerif.Proofs.C16
import TrashVerif.Proofs.C04
namespace TrashVerif.Proofs.C16Seq
open TrashVerif Prog FS PutLemmas C16Seq
open TrashVerif.Proofs.C16 (run_say outs_mono)

/-! ### the loop is the fold -/

theorem foldl_crashed (φ : Oracle) (c : PutCfg) : ∀ (args : List Bytes) (σ : SeqSt), σ.crash ≠ none →
    args.foldl (stepArg φ c) σ = σ := by
  intro args
  induction args with
  | nil => intro σ _; rfl
  | cons a rest ih =>
    intro σ h
    have : stepArg φ c σ a = σ := by
      unfold stepArg
      cases hc : σ.crash with
      | none => exact absurd hc h
      | some e => rfl
    rw [List.foldl_cons, this]; exact ih σ h

/-- `putOne` in terms of the run of `trashSingle` -/
theorem run_putOne (φ : Oracle) (c : PutCfg) (a : Bytes) (st : PutSt) (s : RunState) :
    run φ (putOne c a st) s =
      match (run φ (trashSingle c a st) s).1.1 with
      | .error e => ((.error e, (run φ (trashSingle c a st) s).1.2),
          { (run φ (trashSingle c a st) s).2 with
            outs := .stderr "traceback" (b "EOFError") :: (run φ (trashSingle c a st) s).2.outs })
      | .ok (.crashed _) => ((.error .cleanup, (run φ (trashSingle c a st) s).1.2),
          { (run φ (trashSingle c a st) s).2 with
            outs := .stderr "traceback" (b "OSError") :: (run φ (trashSingle c a st) s).2.outs })
      | .ok o => ((.ok o, (run φ (trashSingle c a st) s).1.2),
          if o.failed = true then { (run φ (trashSingle c a st) s).2 with
            outs := .stderr "cannot-trash" a :: (run φ (trashSingle c a st) s).2.outs }
          else (run φ (trashSingle c a st) s).2) := by
  unfold putOne
  rw [run_bind]
  generalize run φ (trashSingle c a st) s = R
  obtain ⟨⟨r, st1⟩, s1⟩ := R
  cases r with
  | error e => rfl
  | ok o => cases o <;> rfl

/-- one round from a state without crash, spelled out -/
theorem stepArg_go (φ : Oracle) (c : PutCfg) (σ : SeqSt) (a : Bytes) (h : σ.crash = none) :
    stepArg φ c σ a =
      match (run φ (putOne c a σ.st) σ.s).1.1 with
      | .ok o => { outcomes := σ.outcomes ++ [(a, o)], crash := none,
                   st := (run φ (putOne c a σ.st) σ.s).1.2, s := (run φ (putOne c a σ.st) σ.s).2 }
      | .error e => { outcomes := σ.outcomes, crash := some e,
                      st := (run φ (putOne c a σ.st) σ.s).1.2, s := (run φ (putOne c a σ.st) σ.s).2 } := by
  unfold stepArg; simp only [h]; rfl

theorem putAll_eq_fold (φ : Oracle) (c : PutCfg) : ∀ (args : List Bytes) (st : PutSt)
    (acc : List (Bytes × ArgOutcome)) (s : RunState),
    run φ (putAll c args st acc) s =
      finish (args.foldl (stepArg φ c) { outcomes := acc.reverse, crash := none, st := st, s := s }) := by
  intro args
  induction args with
  | nil => intro st acc s; rfl
  | cons a rest ih =>
    intro st acc s
    rw [List.foldl_cons, stepArg_go φ c _ a rfl]
    simp only [run_putOne]
    rw [putAll, run_bind]
    generalize run φ (trashSingle c a st) s = R
    obtain ⟨⟨r, st1⟩, s1⟩ := R
    have crashCase : ∀ (msg : Bytes) (e : PutCrash),
        run φ (say (.stderr "traceback" msg) >>= fun _ =>
          (pure { outcomes := acc.reverse, crash := some e, exit := 1 } : Prog PutResult)) s1 =
        finish (rest.foldl (stepArg φ c) (SeqSt.mk acc.reverse (some e) st1
          { s1 with outs := .stderr "traceback" msg :: s1.outs })) := by
      intro msg e
      rw [foldl_crashed φ c rest _ (by simp), run_bind, run_say, run_pure]
      rfl
    have goCase : ∀ o : ArgOutcome,
        run φ (if o.failed = true then (say (.stderr "cannot-trash" a) >>= fun _ =>
          putAll c rest st1 ((a, o) :: acc)) else putAll c rest st1 ((a, o) :: acc)) s1 =
        finish (rest.foldl (stepArg φ c) (SeqSt.mk (acc.reverse ++ [(a, o)]) none st1
          (if o.failed = true then { s1 with outs := .stderr "cannot-trash" a :: s1.outs } else s1))) := by
      intro o
      by_cases hf : o.failed = true
      · rw [if_pos hf, if_pos hf, run_bind, run_say, ih, List.reverse_cons]
      · rw [if_neg hf, if_neg hf, ih, List.reverse_cons]
    cases r with
    | error e => exact crashCase _ e
    | ok o =>
      cases o with
      | crashed e => exact crashCase _ .cleanup
      | trashed t n => exact goCase _
      | skippedMissing => exact goCase _
      | declined => exact goCase _
      | failedDot => exact goCase _
      | failedMissing => exact goCase _
      | failedAll rs => exact goCase _

theorem run_is_fold (φ : Oracle) (c : PutCfg) (args : List Bytes) (st : PutSt) (s : RunState) :
    run φ (runPut c args st) s = finish (putSeq φ c args st s) :=
  putAll_eq_fold φ c args st [] s

/-! ### splitting the fold -/

theorem putSeq_append (φ : Oracle) (c : PutCfg) (pre suf : List Bytes) (st : PutSt) (s : RunState) :
    putSeq φ c (pre ++ suf) st s = suf.foldl (stepArg φ c) (putSeq φ c pre st s) := by
  unfold putSeq; rw [List.foldl_append]

/-! ### invariants of the fold -/

/-- what holds of every state of the loop -/
structure Inv (c : PutCfg) (σ : SeqSt) : Prop where
  notCrashed : ∀ o ∈ σ.outcomes, ∀ e, o.2 ≠ .crashed e
  diag : ∀ o ∈ σ.outcomes, o.2.failed = true → Out.stderr "cannot-trash" o.1 ∈ σ.s.outs
  force : ∀ o ∈ σ.outcomes, o.2 = .skippedMissing → c.mode = .force
  inter : ∀ o ∈ σ.outcomes, o.2 = .declined → c.mode = .interactive

theorem putOne_outs_mono (φ : Oracle) (c : PutCfg) (a : Bytes) (st : PutSt) (s : RunState) (x : Out)
    (h : x ∈ s.outs) : x ∈ (run φ (putOne c a st) s).2.outs := outs_mono φ _ s x h

theorem putOne_ok (φ : Oracle) (c : PutCfg) (a : Bytes) (st : PutSt) (s : RunState) (o : ArgOutcome)
    (h : (run φ (putOne c a st) s).1.1 = .ok o) :
    (run φ (trashSingle c a st) s).1.1 = .ok o ∧ (∀ e, o ≠ .crashed e) ∧
    (o.failed = true → Out.stderr "cannot-trash" a ∈ (run φ (putOne c a st) s).2.outs) := by
  rw [run_putOne] at h ⊢
  generalize run φ (trashSingle c a st) s = R at h ⊢
  obtain ⟨⟨r, st1⟩, s1⟩ := R
  cases r with
  | error e => cases h
  | ok o' =>
    cases o' with
    | crashed e => cases h
    | trashed t n => cases h; exact ⟨rfl, fun e he => (by cases he), fun hf => by cases hf⟩
    | skippedMissing => cases h; exact ⟨rfl, fun e he => (by cases he), fun hf => by cases hf⟩
    | declined => cases h; exact ⟨rfl, fun e he => (by cases he), fun hf => by cases hf⟩
    | failedDot => cases h; exact ⟨rfl, fun e he => (by cases he), fun _ => List.mem_cons_self⟩
    | failedMissing => cases h; exact ⟨rfl, fun e he => (by cases he), fun _ => List.mem_cons_self⟩
    | failedAll rs => cases h; exact ⟨rfl, fun e he => (by cases he), fun _ => List.mem_cons_self⟩

theorem inv_step (φ : Oracle) (c : PutCfg) (σ : SeqSt) (a : Bytes) (I : Inv c σ) : Inv c (stepArg φ c σ a) := by
  cases hc : σ.crash with
  | some e => unfold stepArg; rw [hc]; exact I
  | none =>
    rw [stepArg_go φ c σ a hc]
    have hm := putOne_outs_mono φ c a σ.st σ.s
    cases h : (run φ (putOne c a σ.st) σ.s).1.1 with
    | error e =>
      exact ⟨I.notCrashed, fun o ho hf => hm _ (I.diag o ho hf), I.force, I.inter⟩
    | ok o =>
      obtain ⟨h1, h2, h3⟩ := putOne_ok φ c a σ.st σ.s o h
      have sk := Proofs.C16.skip_reasons c a σ.st φ σ.s
      simp only at sk
      rw [h1] at sk
      refine ⟨?_, ?_, ?_, ?_⟩
      · intro x hx
        rcases List.mem_append.1 hx with hx | hx
        · exact I.notCrashed x hx
        · simp only [List.mem_singleton] at hx; subst hx; exact h2
      · intro x hx hf
        rcases List.mem_append.1 hx with hx | hx
        · exact hm _ (I.diag x hx hf)
        · simp only [List.mem_singleton] at hx; subst hx; exact h3 hf
      · intro x hx he
        rcases List.mem_append.1 hx with hx | hx
        · exact I.force x hx he
        · simp only [List.mem_singleton] at hx; subst hx
          simp only at he; subst he; exact (sk.1 rfl).1
      · intro x hx he
        rcases List.mem_append.1 hx with hx | hx
        · exact I.inter x hx he
        · simp only [List.mem_singleton] at hx; subst hx
          simp only at he; subst he; exact (sk.2 rfl).1

theorem inv_foldl (φ : Oracle) (c : PutCfg) : ∀ (args : List Bytes) (σ : SeqSt), Inv c σ →
    Inv c (args.foldl (stepArg φ c) σ) := by
  intro args
  induction args with
  | nil => intro σ h; exact h
  | cons a rest ih => intro σ h; exact ih _ (inv_step φ c σ a h)

theorem inv_putSeq (φ : Oracle) (c : PutCfg) (args : List Bytes) (st : PutSt) (s : RunState) :
    Inv c (putSeq φ c args st s) :=
  inv_foldl φ c args _ ⟨fun _ h => (by cases h), fun _ h => (by cases h), fun _ h => (by cases h), fun _ h => (by cases h)⟩

/-- the arguments reported are the arguments handled, in order -/
theorem names_foldl (φ : Oracle) (c : PutCfg) : ∀ (args : List Bytes) (σ : SeqSt),
    (args.foldl (stepArg φ c) σ).crash = none →
    σ.crash = none ∧ (args.foldl (stepArg φ c) σ).outcomes.map (·.1) = σ.outcomes.map (·.1) ++ args := by
  intro args
  induction args with
  | nil => intro σ h; exact ⟨h, by simp⟩
  | cons a rest ih =>
    intro σ h
    rw [List.foldl_cons] at h ⊢
    obtain ⟨h1, h2⟩ := ih _ h
    cases hc : σ.crash with
    | some e => unfold stepArg at h1; rw [hc] at h1; rw [hc] at h1; cases h1
    | none =>
      refine ⟨rfl, ?_⟩
      rw [h2]
      rw [stepArg_go φ c σ a hc] at h1 ⊢
      cases hr : (run φ (putOne c a σ.st) σ.s).1.1 with
      | error e => rw [hr] at h1; cases h1
      | ok o => simp

theorem fine_iff (o : ArgOutcome) (h : ∀ e, o ≠ .crashed e) : o.failed = false ↔ Fine o := by
  unfold Fine
  cases o <;> simp [ArgOutcome.failed] at h ⊢

theorem exit_zero_iff (σ : SeqSt) (I : ∀ o ∈ σ.outcomes, ∀ e, o.2 ≠ .crashed e) :
    exitOf σ = 0 ↔ σ.crash = none ∧ ∀ o ∈ σ.outcomes, Fine o.2 := by
  unfold exitOf
  cases hc : σ.crash with
  | some e => simp
  | none =>
    simp only [true_and]
    by_cases hany : (σ.outcomes.any fun x => x.2.failed) = true
    · rw [if_pos hany]
      refine ⟨fun h => (by cases h), fun hall => ?_⟩
      obtain ⟨x, hx, hf⟩ := List.any_eq_true.1 hany
      have := (fine_iff x.2 (I x hx)).2 (hall x hx)
      rw [this] at hf; cases hf
    · rw [if_neg hany]
      refine ⟨fun _ o ho => (fine_iff o.2 (I o ho)).1 ?_, fun _ => rfl⟩
      cases hf : o.2.failed with
      | false => rfl
      | true => exact absurd (List.any_eq_true.2 ⟨o, ho, hf⟩) hany

theorem exit_values (σ : SeqSt) :
    (σ.crash ≠ none → exitOf σ = 1) ∧ (σ.crash = none → exitOf σ = 0 ∨ exitOf σ = 74) := by
  unfold exitOf
  cases hc : σ.crash with
  | some e => exact ⟨fun _ => rfl, fun h => by cases h⟩
  | none =>
    refine ⟨fun h => absurd rfl h, fun _ => ?_⟩
    by_cases hany : (σ.outcomes.any fun x => x.2.failed) = true
    · right; rw [if_pos hany]
    · left; rw [if_neg hany]

/-! ### the trace only grows -/

theorem trace_foldl (φ : Oracle) (c : PutCfg) (x : Call × Res) : ∀ (args : List Bytes) (σ : SeqSt),
    x ∈ σ.s.trace → x ∈ (args.foldl (stepArg φ c) σ).s.trace := by
  intro args
  induction args with
  | nil => intro σ h; exact h
  | cons a rest ih =>
    intro σ h
    rw [List.foldl_cons]
    apply ih
    cases hc : σ.crash with
    | some e => unfold stepArg; rw [hc]; exact h
    | none =>
      rw [stepArg_go φ c σ a hc]
      have := Proofs.C04.trace_mono φ (putOne c a σ.st) σ.s x h
      cases hr : (run φ (putOne c a σ.st) σ.s).1.1 <;> exact this

/-! ### the k-th argument -/

theorem prefix_crash_free (φ : Oracle) (c : PutCfg) (args : List Bytes) (st : PutSt) (s : RunState) (k : Nat)
    (h : (putSeq φ c args st s).crash = none) : (putSeq φ c (args.take k) st s).crash = none := by
  have e : args = args.take k ++ args.drop k := (List.take_append_drop k args).symm
  rw [e, putSeq_append] at h
  exact (names_foldl φ c _ _ h).1

theorem kth_attempted (φ : Oracle) (c : PutCfg) (args : List Bytes) (st : PutSt) (s : RunState) (k : Nat)
    (hk : k < args.length) (hb : (putSeq φ c (args.take k) st s).crash = none) :
    (putSeq φ c (args.take k) st s).outcomes.map (·.1) = args.take k ∧
    putSeq φ c (args.take (k + 1)) st s =
      (match (run φ (putOne c args[k] (putSeq φ c (args.take k) st s).st) (putSeq φ c (args.take k) st s).s).1.1 with
       | .ok o => SeqSt.mk ((putSeq φ c (args.take k) st s).outcomes ++ [(args[k], o)]) none
           (run φ (putOne c args[k] (putSeq φ c (args.take k) st s).st) (putSeq φ c (args.take k) st s).s).1.2
           (run φ (putOne c args[k] (putSeq φ c (args.take k) st s).st) (putSeq φ c (args.take k) st s).s).2
       | .error e => SeqSt.mk (putSeq φ c (args.take k) st s).outcomes (some e)
           (run φ (putOne c args[k] (putSeq φ c (args.take k) st s).st) (putSeq φ c (args.take k) st s).s).1.2
           (run φ (putOne c args[k] (putSeq φ c (args.take k) st s).st) (putSeq φ c (args.take k) st s).s).2) ∧
    putSeq φ c args st s = (args.drop (k + 1)).foldl (stepArg φ c) (putSeq φ c (args.take (k + 1)) st s) ∧
    (∀ x ∈ (run φ (putOne c args[k] (putSeq φ c (args.take k) st s).st) (putSeq φ c (args.take k) st s).s).2.trace,
      x ∈ (putSeq φ c args st s).s.trace) := by
  have e1 : args.take (k + 1) = args.take k ++ [args[k]] := List.take_succ_eq_append_getElem hk
  have e2 : putSeq φ c (args.take (k + 1)) st s = stepArg φ c (putSeq φ c (args.take k) st s) args[k] := by
    rw [e1, putSeq_append]; rfl
  have e3 : putSeq φ c args st s = (args.drop (k + 1)).foldl (stepArg φ c) (putSeq φ c (args.take (k + 1)) st s) := by
    rw [← putSeq_append, List.take_append_drop]
  refine ⟨?_, ?_, e3, ?_⟩
  · have := (names_foldl φ c (args.take k) (initSt st s) hb).2
    rw [show (initSt st s).outcomes = [] from rfl, List.map_nil, List.nil_append] at this
    exact this
  · rw [e2, stepArg_go φ c _ _ hb]
  · intro x hx
    rw [e3]
    apply trace_foldl
    rw [e2, stepArg_go φ c _ _ hb]
    cases hr : (run φ (putOne c args[k] (putSeq φ c (args.take k) st s).st) (putSeq φ c (args.take k) st s).s).1.1 <;> exact hx

end TrashVerif.Proofs.C16Seq
