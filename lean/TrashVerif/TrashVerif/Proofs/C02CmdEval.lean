/-
  Proofs/C02CmdEval.lean — kernel-evaluable twins for `trash-restore` (continues Proofs/C16Eval.lean).
  Besides `walk`/`realpathAux` (twins in C16Eval), `runRestore` reaches `List.mergeSort` / `List.merge`
  (directory listings, the sort of the offered entries), defined by well-founded recursion, which the
  kernel does not unfold.  This file defines fuel-driven structural twins `msortF`/`mergeF`, proves
  them EQUAL to the core functions, and lifts the equalities up to `runRestore = runRestoreS`.
  The twins are used only to evaluate the model on concrete worlds (`decide +kernel`).
-/
import TrashVerif.Model.Cmds
import TrashVerif.Proofs.C16Eval
namespace TrashVerif.Proofs.C02CmdEval
open TrashVerif Prog FS Bytes
open TrashVerif.Proofs.C16Eval

/-! ### `List.merge`, `List.mergeSort` -/

def mergeF {α} (le : α → α → Bool) : Nat → List α → List α → List α
  | 0, xs, ys => xs ++ ys
  | _+1, [], ys => ys
  | _+1, x :: xs, [] => x :: xs
  | f+1, x :: xs, y :: ys => if le x y then x :: mergeF le f xs (y :: ys) else y :: mergeF le f (x :: xs) ys

theorem merge_eq {α} (le : α → α → Bool) : ∀ (fuel : Nat) (xs ys : List α), xs.length + ys.length ≤ fuel →
    List.merge xs ys le = mergeF le fuel xs ys := by
  intro fuel
  induction fuel with
  | zero =>
    intro xs ys h
    have hx : xs = [] := List.eq_nil_of_length_eq_zero (by omega)
    have hy : ys = [] := List.eq_nil_of_length_eq_zero (by omega)
    subst hx hy
    simp [mergeF]
  | succ f ih =>
    intro xs ys h
    cases xs with
    | nil => simp [mergeF]
    | cons x xs =>
      cases ys with
      | nil => simp [mergeF]
      | cons y ys =>
        simp only [List.length_cons] at h
        rw [List.cons_merge_cons, mergeF, ih xs (y :: ys) (by simp only [List.length_cons]; omega),
          ih (x :: xs) ys (by simp only [List.length_cons]; omega)]

def msortF {α} (le : α → α → Bool) : Nat → List α → List α
  | 0, l => l
  | _+1, [] => []
  | _+1, [a] => [a]
  | f+1, a :: b :: xs =>
    mergeF le (a :: b :: xs).length
      (msortF le f ((a :: b :: xs).take (((a :: b :: xs).length + 1) / 2)))
      (msortF le f ((a :: b :: xs).drop (((a :: b :: xs).length + 1) / 2)))

theorem msort_eq {α} (le : α → α → Bool) : ∀ (fuel : Nat) (l : List α), l.length ≤ fuel →
    l.mergeSort le = msortF le fuel l := by
  intro fuel
  induction fuel with
  | zero =>
    intro l h
    have hl : l = [] := List.eq_nil_of_length_eq_zero (by omega)
    subst hl
    simp [msortF]
  | succ f ih =>
    intro l h
    match l, h with
    | [], _ => simp [msortF]
    | [a], _ => simp [msortF]
    | a :: b :: xs, h =>
      simp only [List.length_cons] at h
      rw [List.mergeSort, msortF]
      simp only [List.MergeSort.Internal.splitInTwo_fst, List.MergeSort.Internal.splitInTwo_snd]
      rw [← ih _ (by simp only [List.length_take, List.length_cons]; omega),
        ← ih _ (by simp only [List.length_drop, List.length_cons]; omega)]
      exact merge_eq le (a :: b :: xs).length _ _ (by
        simp only [List.length_mergeSort, List.length_take, List.length_drop, List.length_cons]; omega)

theorem msort_eq' {α} (le : α → α → Bool) (l : List α) : l.mergeSort le = msortF le l.length l :=
  msort_eq le l.length l (Nat.le_refl _)

/-! ### the readers of Model/Readers.lean -/

def sortedChildrenS (fs : FS) (p : CPath) : List CPath :=
  msortF (fun a c => bytesLe (a.getLast?.getD []) (c.getLast?.getD [])) (children fs p).length (children fs p)
theorem sortedChildren_eq (fs : FS) (p : CPath) : sortedChildren fs p = sortedChildrenS fs p := by
  unfold sortedChildren sortedChildrenS; exact msort_eq' _ _

def listdirStrS (fs : FS) (cwd : CPath) (path : Bytes) : Option (List Bytes) :=
  match resolveS fs cwd path true with
  | .ok p => match fs.get p with
    | some (.dir ..) => some ((sortedChildrenS fs p).filterMap fun q => q.getLast?)
    | _ => none
  | .error _ => none
theorem listdirStr_eq (fs : FS) (cwd : CPath) (path : Bytes) : listdirStr fs cwd path = listdirStrS fs cwd path := by
  unfold listdirStr listdirStrS; simp only [resolve_eq, sortedChildren_eq] <;> rfl

def contentsOfS (fs : FS) (cwd : CPath) (path : Bytes) : Option Bytes :=
  match statS fs cwd path with
  | some (.file data _ _) => readText data
  | _ => none
theorem contentsOf_eq (fs : FS) (cwd : CPath) (path : Bytes) : contentsOf fs cwd path = contentsOfS fs cwd path := by
  unfold contentsOf contentsOfS; rw [stat_eq] <;> rfl

def validToBeReadS (fs : FS) (cwd : CPath) (path : Bytes) : TopVerdict :=
  let parent := dirname path
  if ¬ pExistsS fs cwd path then .missing
  else if ¬ (pIsdirS fs cwd parent ∧ pStickyS fs cwd parent = some true) then .notSticky
  else if pIslinkS fs cwd parent then .parentSymlink
  else .valid
theorem validToBeRead_eq (fs : FS) (cwd : CPath) (path : Bytes) :
    validToBeRead fs cwd path = validToBeReadS fs cwd path := by
  unfold validToBeRead validToBeReadS; simp only [pExists_eq, pIsdir_eq, pSticky_eq, pIslink_eq] <;> rfl

def restoreTrashDirsS (fs : FS) (c : ReadCfg) (trashDir : Option Bytes) : List (Bytes × Bytes) :=
  let specific := match trashDir with | some d => d | none => []
  if specific ≠ [] then [(specific, volumeOfS fs c.cwd specific)]
  else
    let uid := Bytes.ofNat c.uid
    ((homeTrashPaths c.env).map fun p => (p, [slash])) ++
    c.mountPoints.flatMap fun v =>
      let top := pjoin v (b ".Trash/" ++ uid)
      let alt := pjoin v (b ".Trash-" ++ uid)
      (if validToBeReadS fs c.cwd top = .valid then [(top, v)] else []) ++ [(alt, v)]
theorem restoreTrashDirs_eq (fs : FS) (c : ReadCfg) (trashDir : Option Bytes) :
    restoreTrashDirs fs c trashDir = restoreTrashDirsS fs c trashDir := by
  unfold restoreTrashDirs restoreTrashDirsS; simp only [volumeOf_eq, validToBeRead_eq] <;> rfl

/-! ### trash-restore -/

def restoreEntriesOfS (fs : FS) (cwd : CPath) (trashDir volume : Bytes) : List Entry :=
  let infoDir := pjoin trashDir (b "info")
  match listdirStrS fs cwd infoDir with
  | none => []
  | some ns =>
    (ns.filter isTrashinfoName).filterMap fun n =>
      let infoPath := pjoin infoDir n
      match contentsOfS fs cwd infoPath with
      | none => none
      | some text =>
        match parsePath text with
        | none => none
        | some rel => some { loc := pjoin volume rel, date := parseDeletionDate text, info := infoPath }
theorem restoreEntriesOf_eq (fs : FS) (cwd : CPath) (trashDir volume : Bytes) :
    restoreEntriesOf fs cwd trashDir volume = restoreEntriesOfS fs cwd trashDir volume := by
  unfold restoreEntriesOf restoreEntriesOfS; simp only [listdirStr_eq, contentsOf_eq] <;> rfl

def restoreEntriesS (fs : FS) (c : ReadCfg) (o : RestoreOpts) : List Entry :=
  (restoreTrashDirsS fs c o.trashDir).flatMap fun (t, v) => restoreEntriesOfS fs c.cwd t v
theorem restoreEntries_eq (fs : FS) (c : ReadCfg) (o : RestoreOpts) :
    restoreEntries fs c o = restoreEntriesS fs c o := by
  unfold restoreEntries restoreEntriesS; simp only [restoreTrashDirs_eq, restoreEntriesOf_eq] <;> rfl

def sortEntriesS (mode : SortMode) (es : List Entry) : List Entry :=
  match mode with
  | .none => es
  | .path => msortF (fun a c => cpsLe (pathKeyOf a) (pathKeyOf c)) es.length es
  | .date => msortF dateLe es.length es
theorem sortEntries_eq (mode : SortMode) (es : List Entry) : sortEntries mode es = sortEntriesS mode es := by
  unfold sortEntries sortEntriesS
  cases mode
  · exact msort_eq' _ _
  · exact msort_eq' _ _
  · rfl

def atPathS {α} (cwd : CPath) (path : Bytes) (onErr : Errno → Prog α) (k : CPath → Prog α) : Prog α := do
  let fs ← read
  match resolveS fs cwd path with
  | .ok p => k p
  | .error e => onErr e
theorem atPath_eq {α} (cwd : CPath) (path : Bytes) (onErr : Errno → Prog α) (k : CPath → Prog α) :
    atPath cwd path onErr k = atPathS cwd path onErr k := by
  unfold atPath atPathS; simp only [resolve_eq] <;> rfl

def mkdirStrS (cwd : CPath) (name : Bytes) (mode : Nat) : Prog Res :=
  atPathS cwd name (fun er => pure (.error er)) fun p => sys (.mkdir p mode)
theorem mkdirStr_eq (cwd : CPath) (name : Bytes) (mode : Nat) : mkdirStr cwd name mode = mkdirStrS cwd name mode := by
  unfold mkdirStr mkdirStrS; exact atPath_eq _ _ _ _

def makedirsStrS (cwd : CPath) : Nat → Bytes → Nat → Prog Res
  | 0, name, mode => mkdirStrS cwd name mode
  | fuel+1, name, mode => do
    let fs ← read
    let head := (makedirsSplit name).1
    let tail := (makedirsSplit name).2
    if head ≠ [] ∧ tail ≠ [] ∧ ¬ pExistsS fs cwd head then
      match ← makedirsStrS cwd fuel head 0o777 with
      | .error .EEXIST => if tail = [dot] then pure (.ok ()) else mkdirStrS cwd name mode
      | .error er => pure (.error er)
      | .ok () => if tail = [dot] then pure (.ok ()) else mkdirStrS cwd name mode
    else mkdirStrS cwd name mode
theorem makedirsStr_eq (cwd : CPath) : ∀ (fuel : Nat) (name : Bytes) (mode : Nat),
    makedirsStr cwd fuel name mode = makedirsStrS cwd fuel name mode := by
  intro fuel
  induction fuel with
  | zero => intro name mode; unfold makedirsStr makedirsStrS; exact mkdirStr_eq _ _ _
  | succ f ih =>
    intro name mode
    unfold makedirsStr makedirsStrS
    simp only [pExists_eq, ih, mkdirStr_eq] <;> rfl

def restoreOneS (cwd : CPath) (overwrite : Bool) (e : Entry) : Prog Res := do
  let fs ← read
  if ¬ overwrite ∧ pLexistsS fs cwd e.loc then pure (.error .EEXIST)
  else
    let parentStr := dirname e.loc
    let mk ← (if pIsdirS fs cwd parentStr then pure (.ok ())
              else match danglingOnPathS fs cwd parentStr with
                   | some er => pure (.error er)
                   | none =>
                     if hasDotComp parentStr then makedirsStrS cwd parentStr.length parentStr 0o777
                     else makedirs (dirCS fs cwd parentStr).length (dirCS fs cwd parentStr) 0o777)
    match mk with
    | .error er => pure (.error er)
    | .ok () =>
      let fs ← read
      if ¬ overwrite ∧ pLexistsS fs cwd e.loc then pure (.error .EEXIST)
      else
        let cleared ← (if overwrite ∧ pLexistsS fs cwd (pathOfBackupCopy e.info) ∧ pLexistsS fs cwd e.loc ∧
                          (pIslinkS fs cwd e.loc ∨ ¬ pIsdirS fs cwd e.loc) then
                         atPathS cwd e.loc (fun er => pure (.error er)) fun p => removeFile p
                       else pure (.ok ()))
        match cleared with
        | .error er => pure (.error er)
        | .ok () =>
          let fs ← read
          let payloadStr := pathOfBackupCopy e.info
          restoreCore (resolveS fs cwd payloadStr) (resolveS fs cwd e.loc) (resolveS fs cwd e.info)
theorem restoreOne_eq (cwd : CPath) (overwrite : Bool) (e : Entry) :
    restoreOne cwd overwrite e = restoreOneS cwd overwrite e := by
  unfold restoreOne restoreOneS
  simp only [pLexists_eq, pIsdir_eq, pIslink_eq, danglingOnPath_eq, dirC_eq, resolve_eq, atPath_eq, makedirsStr_eq] <;> rfl

def restoreManyS (cwd : CPath) (overwrite : Bool) : List Entry → Prog Res
  | [] => pure (.ok ())
  | e :: es => do
    match ← restoreOneS cwd overwrite e with
    | .error er => pure (.error er)
    | .ok () => restoreManyS cwd overwrite es
theorem restoreMany_eq (cwd : CPath) (overwrite : Bool) : ∀ es : List Entry,
    restoreMany cwd overwrite es = restoreManyS cwd overwrite es := by
  intro es
  induction es with
  | nil => rfl
  | cons e es ih => unfold restoreMany restoreManyS; simp only [restoreOne_eq, ih] <;> rfl

def runRestoreS (c : ReadCfg) (o : RestoreOpts) (reply : Option Bytes) : Prog CmdResult := do
  let fs ← read
  let cwdStr := toStr c.cwd
  let dir := restoreScopeDir cwdStr o.path
  let all := restoreEntriesS fs c o
  let offered := sortEntriesS o.sort (all.filter fun e => inScope dir e.loc)
  if offered = [] then do
    say (.stdout (b "No files trashed from current dir ('" ++ cwdStr ++ b "')"))
    pure { exit := 0 }
  else do
    emitAll ((List.range offered.length).filterMap fun i => (offered[i]?).map fun e => Out.stdout (restoreLine i e))
    match reply with
    | none => do say (.stderr "quit" []); pure { exit := 1 }
    | some r =>
      if r = [] then do say (.stdout (b "No files were restored")); pure { exit := 0 }
      else
        match parseIndexes r offered.length with
        | .invalid => do say (.stderr "invalid-entry" r); pure { exit := 1 }
        | .crash => do say (.stderr "traceback" r); pure { exit := 1, crash := some .typeError }
        | .ok is =>
          match ← restoreManyS c.cwd o.overwrite (is.filterMap fun i => offered[i]?) with
          | .ok () => pure { exit := 0 }
          | .error _ => do say (.stderr "die" []); pure { exit := 1 }

theorem runRestore_eq (c : ReadCfg) (o : RestoreOpts) (reply : Option Bytes) :
    runRestore c o reply = runRestoreS c o reply := by
  unfold runRestore runRestoreS
  simp only [restoreEntries_eq, sortEntries_eq, restoreMany_eq] <;> rfl

end TrashVerif.Proofs.C02CmdEval
