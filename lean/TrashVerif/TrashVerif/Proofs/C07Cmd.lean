/-
  Proofs/C07Cmd.lean — proofs of the statements of Props/C07Cmd.lean: `runPut` for one everyday
  argument whose prescribed trash directory does not exist yet (home trash, `$topdir/.Trash-$uid`,
  `$topdir/.Trash/$uid`, `--trash-dir`).
-/
import TrashVerif.Proofs.C07CmdCore
namespace TrashVerif.Proofs.C07Cmd
open TrashVerif Prog FS PutCore PutLemmas C07Cmd C16Indep
open TrashVerif.Proofs.C07 (Plain GoodNames body toStr_ne toStr_snoc body_append body_last comps_toStr_cons
  isAbs_toStr dirname_toStr normpath_toStr exists_snoc volumeOf_is_device_root)
open TrashVerif.Proofs.C17 (isDirAt_iff)
open TrashVerif.Proofs.C16IndepHome
open TrashVerif.Proofs.C07CmdCore
open TrashVerif.Proofs.C16Indep (putAll_step)

/-! ### one everyday argument: from `runPut` down to `tryCandidates` -/

theorem pLexists_arg {fs : FS} {P : CPath} {n : Name} (cwd : CPath) (A : Arg fs P n) :
    pLexists fs cwd (toStr (P ++ [n])) = true := by
  unfold pLexists lstat
  rw [resolve_leaf fs cwd P n A.parentPlain A.names]
  exact A.present

theorem volume_arg {fs : FS} {P : CPath} {n : Name} (cwd : CPath) (A : Arg fs P n) (hroot : fs.isMount [] = true) :
    volumeOf fs cwd (realpathStr fs cwd (dirname
      (if rstripSlash (toStr (P ++ [n])) = [] then toStr (P ++ [n]) else rstripSlash (toStr (P ++ [n]))))) =
      toStr (dev fs P) := by
  have hn : GoodNames (P ++ [n]) := A.names
  rw [rstripSlash_toStr (D := P ++ [n]) (by simp) hn, if_neg (toStr_ne_nil _), dirname_toStr P n hn,
    realpathStr_plain _ _ _ A.parentPlain hn.left,
    volumeOf_is_device_root _ _ _ A.parentPlain hn.left hroot]

/-- without `--force-volume` and prompts, an everyday argument is handed to `tryCandidates` with the
    device root of its parent as volume -/
theorem trashSingle_arg {c : PutCfg} {fs : FS} {P : CPath} {n : Name} (A : Arg fs P n) (hroot : fs.isMount [] = true)
    (hfv : c.forcedVolume = none) (hnp : c.mode ≠ .interactive) (st : PutSt) (s : RunState) (hs : s.fs = fs)
    (o : ArgOutcome) (st1 : PutSt) (s1 : RunState)
    (h : run noFaults (tryCandidates c (toStr (P ++ [n])) (toStr (dev fs P))
      (candidatesFor fs c (toStr (dev fs P))) [] st) s = ((o, st1), s1)) :
    run noFaults (trashSingle c (toStr (P ++ [n])) st) s = ((.ok o, st1), s1) := by
  subst hs
  unfold trashSingle
  rw [if_neg (by rw [notDot_home A.names]; simp), run_read_bind,
    if_neg (by rw [pLexists_arg c.cwd A]; simp)]
  have hask : ¬ (c.mode = PutMode.interactive ∧ pExists s.fs c.cwd (toStr (P ++ [n])) = true) := fun x => hnp x.1
  simp only [if_neg hask, hfv]
  rw [volume_arg c.cwd A hroot, run_bind, h]
  rfl

/-- `trash-put <one argument>` -/
theorem runPut_single (c : PutCfg) (a : Bytes) (st st1 : PutSt) (s s1 : RunState) (o : ArgOutcome)
    (h : run noFaults (trashSingle c a st) s = ((.ok o, st1), s1)) (hc : ∀ e, o ≠ .crashed e) :
    run noFaults (runPut c [a] st) s =
      ({ outcomes := [(a, o)], crash := none, exit := if o.failed = true then 74 else 0 },
       if o.failed = true then { s1 with outs := .stderr "cannot-trash" a :: s1.outs } else s1) := by
  have hstep := putAll_step noFaults c a [] st st1 [] s s1 o h hc
  show run noFaults (putAll c [a] st []) s = _
  rw [hstep]
  simp [putAll]

/-! ### candidates that are refused, a candidate that takes the entry -/

theorem trashFileIn_insecure (c : PutCfg) (path volume : Bytes) (cand : Candidate) (st : PutSt) (s : RunState)
    (r : Reason) (h : securityCheck s.fs c.cwd cand = some r) :
    run noFaults (trashFileIn c path volume cand st) s = ((.error r, st), s) := by
  rw [trashFileIn, run_read_bind]
  simp only [h]
  rfl

theorem trashFileIn_gated (c : PutCfg) (path volume : Bytes) (cand : Candidate) (st : PutSt) (s : RunState)
    (r : Reason) (h1 : securityCheck s.fs c.cwd cand = none) (h2 : gateCheck s.fs c volume cand = some r) :
    run noFaults (trashFileIn c path volume cand st) s = ((.error r, st), s) := by
  rw [trashFileIn, run_read_bind]
  simp only [h1, h2]
  rfl

theorem tryCandidates_next (c : PutCfg) (path volume : Bytes) (cand : Candidate) (rest : List Candidate)
    (reasons : List Reason) (st : PutSt) (s : RunState) (r : Reason) (hr : ∀ e, r ≠ .cleanupCrash e)
    (h : run noFaults (trashFileIn c path volume cand st) s = ((.error r, st), s)) :
    run noFaults (tryCandidates c path volume (cand :: rest) reasons st) s =
      run noFaults (tryCandidates c path volume rest (r :: reasons) st) s := by
  rw [tryCandidates, run_bind, h]
  cases r <;> first | rfl | exact absurd rfl (hr _)

theorem tryCandidates_take (c : PutCfg) (path volume : Bytes) (cand : Candidate) (rest : List Candidate)
    (reasons : List Reason) (st st1 : PutSt) (s s1 : RunState) (name : Bytes)
    (h : run noFaults (trashFileIn c path volume cand st) s = ((.ok name, st1), s1)) :
    run noFaults (tryCandidates c path volume (cand :: rest) reasons st) s =
      ((.trashed cand.path name, st1), s1) := by
  rw [tryCandidates, run_bind, h]
  rfl

/-! ### canonical spellings: injectivity, joins, locations relative to a volume -/

open TrashVerif.Proofs.C07 (body_cons joinWith_body toStr_nil)
open TrashVerif.Proofs.C01 (joinWith_concat basename_after)

theorem toStr_inj {p q : CPath} (hp : GoodNames p) (hq : GoodNames q) (h : toStr p = toStr q) : p = q := by
  cases p with
  | nil =>
    cases q with
    | nil => rfl
    | cons m r =>
      have h1 := (hq m List.mem_cons_self).1
      rw [toStr_nil, toStr_ne (by simp), body_cons] at h
      have := congrArg List.length h
      have hl := List.length_pos_iff.2 h1
      simp only [List.length_cons, List.length_append, List.length_nil] at this; omega
  | cons n r =>
    cases q with
    | nil =>
      have h1 := (hp n List.mem_cons_self).1
      rw [toStr_nil, toStr_ne (by simp), body_cons] at h
      have := congrArg List.length h
      have hl := List.length_pos_iff.2 h1
      simp only [List.length_cons, List.length_append, List.length_nil] at this; omega
    | cons m r' =>
      have := congrArg comps h
      rw [comps_toStr_cons n r hp, comps_toStr_cons m r' hq] at this
      exact List.tail_eq_of_cons_eq this

theorem head_of_good {n : Name} (h : n ≠ [] ∧ slash ∉ n ∧ n ≠ [dot] ∧ n ≠ dotdot ∧ n.length ≤ 255) :
    n.head? ≠ some slash := by
  obtain ⟨h1, h2, _⟩ := h
  obtain ⟨y, ys, rfl⟩ := List.exists_cons_of_ne_nil h1
  intro e
  simp only [List.head?_cons, Option.some.injEq] at e
  exact h2 (e ▸ List.mem_cons_self)

/-- `join(spelling of T, name)` for every canonical `T`, "/" included -/
theorem pjoin_toStr' (T : CPath) (hn : GoodNames T) (name : Bytes) (hh : name.head? ≠ some slash) :
    pjoin (toStr T) name = toStr (T ++ [name]) := by
  by_cases h0 : T = []
  · subst h0; exact pjoin_root name hh
  · exact pjoin_toStr h0 hn name hh

theorem rstrip_root : rstripSlash (toStr []) = [] := by decide

/-- stripping the volume prefix from the spelling of a directory of that volume -/
theorem strip_volume (V P' : CPath) (hn : GoodNames (V ++ P')) :
    (toStr (V ++ P') = toStr V ∨ Bytes.startsWith (toStr (V ++ P')) (rstripSlash (toStr V) ++ [slash]) = true) ∧
    (toStr (V ++ P')).drop (rstripSlash (toStr V) ++ [slash]).length = Bytes.joinWith [slash] P' := by
  by_cases hV : V = []
  · subst hV
    rw [rstrip_root, List.nil_append]
    cases P' with
    | nil => exact ⟨.inl rfl, rfl⟩
    | cons p ps =>
      rw [toStr_ne (by simp), body_cons, joinWith_body]
      exact ⟨.inr (by simp [Bytes.startsWith]), rfl⟩
  · rw [rstripSlash_toStr hV hn.left]
    cases P' with
    | nil =>
      rw [List.append_nil]
      refine ⟨.inl rfl, ?_⟩
      rw [List.drop_eq_nil_of_le (by simp)]; rfl
    | cons p ps =>
      rw [toStr_ne (by simp), toStr_ne hV, body_append, body_cons, joinWith_body]
      constructor
      · right
        unfold Bytes.startsWith
        rw [List.isPrefixOf_iff_prefix]
        exact ⟨p ++ body ps, by simp⟩
      · have e : body V ++ slash :: (p ++ body ps) = (body V ++ [slash]) ++ (p ++ body ps) := by simp
        rw [e, List.drop_left]

theorem relLoc_eq (P' : CPath) (n : Name) (hn : GoodNames (P' ++ [n])) :
    pjoin (Bytes.joinWith [slash] P') n = relLoc P' n := by
  have hh := head_of_good (hn n (by simp))
  unfold relLoc
  rw [joinWith_concat]
  cases P' with
  | nil =>
    have h1 : Bytes.startsWith n [slash] = false := by
      cases n with
      | nil => rfl
      | cons y ys =>
        have : y ≠ slash := fun e => hh (by rw [e]; rfl)
        simp [Bytes.startsWith, List.isPrefixOf, Ne.symm this]
    unfold pjoin
    rw [h1]
    simp [Bytes.joinWith]
  | cons p ps =>
    obtain ⟨w, z, hw, hz⟩ := body_last (q := p :: ps) (by simp) hn.left
    have hj : Bytes.joinWith [slash] (p :: ps) = w.tail ++ [z] := by
      rw [joinWith_body]
      rw [body_cons] at hw
      cases w with
      | nil =>
        simp only [List.nil_append, List.cons.injEq] at hw
        have h1 := (hn p (by simp)).1
        have := hw.2
        simp at this; exact absurd this.1 h1
      | cons a w' =>
        simp only [List.cons_append, List.cons.injEq] at hw
        rw [hw.2]; rfl
    rw [hj, C02.pjoin_plain _ z n hz hh, if_neg (by simp)]

theorem basename_relLoc (P' : CPath) (n : Name) (hn : GoodNames (P' ++ [n])) : basename (relLoc P' n) = n := by
  obtain ⟨_, hns, _⟩ := hn n (by simp)
  unfold relLoc
  rw [joinWith_concat]
  refine basename_after ?_ hns
  split
  · exact .inl rfl
  · exact .inr ⟨_, rfl⟩

/-- `OriginalLocation.for_file` with relative paths: `V/P'/n` is recorded as `P'/n` -/
theorem originalLocation_rel (fs : FS) (cwd V P' : CPath) (n : Name) (cand : Candidate)
    (hr : cand.relative = true) (hv : cand.volume = toStr V) (hp : Plain fs (V ++ P'))
    (hn : GoodNames ((V ++ P') ++ [n])) :
    originalLocation fs cwd (toStr ((V ++ P') ++ [n])) cand = relLoc P' n := by
  obtain ⟨h1, h2⟩ := strip_volume V P' hn.left
  unfold originalLocation
  simp only [hr, hv, normpath_toStr _ hn, dirname_toStr (V ++ P') n hn, realpathStr_plain fs cwd (V ++ P') hp hn.left,
    basename_toStr (V ++ P') n hn, if_true]
  rw [if_pos h1, h2]
  exact relLoc_eq P' n (by rw [List.append_assoc] at hn; exact hn.right)

/-! ### 1. first use of the home trash -/

theorem candidates_homeCfg {c : PutCfg} {H : CPath} (C : HomeCfg c H) (fs : FS) (volume : Bytes) :
    ∃ rest, candidatesFor fs c volume = homeCand fs c H :: rest := by
  unfold candidatesFor
  simp only [C.noTrashDir, homeTrashPaths, C.xdgUnset, C.home]
  exact ⟨_, rfl⟩

theorem home_first_use {c : PutCfg} {fs : FS} {H Q : CPath} {x : Name} {R P : CPath} {n : Name}
    (C : HomeCfg c H) (hsplit : trashC H = Q ++ x :: R) (S : FreshSite fs Q x R) (A : Arg fs P n)
    (hm : MountsOk fs) (hvol : dev fs P = dev fs Q) (hapart : ¬ (P ++ [n]) <+: Q) (st : PutSt) :
    let r := run noFaults (runPut c [toStr (P ++ [n])] st) { fs := fs }
    r.1.outcomes = [(toStr (P ++ [n]), .trashed (homeStr H) (n ++ trashinfoExt))] ∧ r.1.crash = none ∧ r.1.exit = 0 ∧
    r.2.outs = [] ∧
    r.2.trace = firstUseTrace Q x R (P ++ [n]) n (formatTrashinfoWith (locOf P n) c.dateStr) ∧
    ∃ fs1, SiteCreated fs fs1 Q x R ∧
      Trashed fs1 r.2.fs (infoC H) (filesC H) (P ++ [n]) (n ++ trashinfoExt)
        (formatTrashinfoWith (locOf P n) c.dateStr) := by
  intro r
  have hpath : (homeCand fs c H).path = toStr (Q ++ x :: R) := by
    show homeStr H = _
    rw [homeStr_eq C.homeNotRoot, hsplit]
  have hsec : securityCheck fs c.cwd (homeCand fs c H) = none := by simp [securityCheck, homeCand]
  have hgate : gateCheck fs c (toStr (dev fs P)) (homeCand fs c H) = none := by
    refine (C07.gate_same_volume fs c _ (homeCand fs c H) rfl).2 ?_
    rw [hpath, realpathStr_nolink _ _ _ S.names (noLinks_fresh S.basePlain S.fresh),
      volumeOf_missing fs c.cwd Q x R S.basePlain S.names (by simpa using S.fresh []), hvol]
  obtain ⟨s1, fs1, hrun, SC, T, htr, hout⟩ := trashFileIn_fresh (c := c) S A hm hvol hapart (toStr (dev fs P))
    (homeCand fs c H) hpath hsec hgate (locOf P n)
    (fun fs' hp => originalLocation_home fs' c.cwd P n (homeCand fs c H) rfl hp A.names)
    (basename_locOf P n A.names) st { fs := fs } rfl
  obtain ⟨rest, hc⟩ := candidates_homeCfg C fs (toStr (dev fs P))
  have htry := tryCandidates_take c (toStr (P ++ [n])) (toStr (dev fs P)) (homeCand fs c H) rest [] st st
    { fs := fs } s1 _ hrun
  rw [← hc] at htry
  have hsingle := trashSingle_arg A hm.rootMounted C.noForcedVolume C.noPrompt st { fs := fs } rfl _ _ _ htry
  have hput := runPut_single c _ st st { fs := fs } s1 _ hsingle (by intro e h; cases h)
  have hr : r = run noFaults (runPut c [toStr (P ++ [n])] st) { fs := fs } := rfl
  rw [hr, hput]
  refine ⟨rfl, rfl, rfl, hout, by show s1.trace = _; rw [htr]; simp, fs1, SC, ?_⟩
  show Trashed fs1 s1.fs _ _ _ _ _
  have e1 : infoC H = infoOf (Q ++ x :: R) := by unfold infoC infoOf; rw [hsplit]
  have e2 : filesC H = filesOf (Q ++ x :: R) := by unfold filesC filesOf; rw [hsplit]
  rw [e1, e2]; exact T

/-! ### the volume gate on a `Site` -/

theorem noLinks_site {fs : FS} {Q R : CPath} (S : Site fs Q R) : NoLinks fs (Q ++ R) := by
  cases R with
  | nil => rw [List.append_nil]; exact noLinks_of_plain S.basePlain
  | cons x R' => exact noLinks_fresh S.basePlain (S.missing x R' rfl)

/-- what the same-volume gate computes for a candidate spelled canonically on a `Site` -/
theorem gate_volume_site {fs : FS} {Q R : CPath} (c : PutCfg) (S : Site fs Q R) (hroot : fs.isMount [] = true) :
    volumeOf fs c.cwd (realpathStr fs c.cwd (toStr (Q ++ R))) = toStr (dev fs Q) := by
  rw [realpathStr_nolink _ _ _ S.names (noLinks_site S), volumeOf_site c.cwd S hroot]

theorem goodNames_prefix {p q : CPath} (h : p <+: q) (hq : GoodNames q) : GoodNames p := by
  obtain ⟨t, rfl⟩ := h
  exact hq.left

theorem freshSite_site {fs : FS} {Q : CPath} {x : Name} {R : CPath} (S : FreshSite fs Q x R) : Site fs Q (x :: R) :=
  { names := S.names, basePlain := S.basePlain
    missing := fun y R' e rel => by cases e; exact S.fresh rel }

/-! ### kernel resolution of a leaf that is not a symbolic link, links followed or not -/

theorem walk_plain_leaf_nl (fs : FS) (fl : Bool) (fuel : Nat) (n : Name) (rest : CPath) :
    ∀ cur, Plain fs (cur ++ rest) → GoodNames (rest ++ [n]) → (∀ t, fs.get (cur ++ rest ++ [n]) ≠ some (.link t)) →
      walk fs fl fuel cur (rest ++ [n]) = .ok (cur ++ rest ++ [n]) := by
  intro cur hp hn hnl
  rw [walk_plain_append fs fl fuel rest [n] cur hp hn.left]
  obtain ⟨h1, _, h3, h4, h5⟩ := hn n (by simp)
  obtain ⟨m, t, hcur⟩ := isDirAt_iff.1 (hp (cur ++ rest) List.prefix_rfl)
  rw [walk, hcur]
  simp only
  rw [if_neg (by simp [h1, h3]), if_neg h4, if_neg (by unfold nameMax; omega)]
  rcases hg : fs.get (cur ++ rest ++ [n]) with _ | (_ | _ | t)
  · simp
  · simp [walk_nil]
  · simp [walk_nil]
  · exact absurd hg (hnl t)

theorem resolve_leaf_nl (fs : FS) (cwd P : CPath) (n : Name) (fl : Bool) (hp : Plain fs P) (hn : GoodNames (P ++ [n]))
    (hnl : ∀ t, fs.get (P ++ [n]) ≠ some (.link t)) :
    resolve fs cwd (toStr (P ++ [n])) fl = .ok (P ++ [n]) := by
  obtain ⟨m, t, hroot⟩ := isDirAt_iff.1 (hp [] List.nil_prefix)
  obtain ⟨n0, rest0, e0⟩ : ∃ n0 rest0, P ++ [n] = n0 :: rest0 := by
    cases P with
    | nil => exact ⟨n, [], rfl⟩
    | cons x xs => exact ⟨x, xs ++ [n], rfl⟩
  have hc := comps_toStr_cons n0 rest0 (e0 ▸ hn)
  obtain ⟨w, x, hw, hx⟩ := body_last (q := n0 :: rest0) (by simp) (e0 ▸ hn)
  have hs : toStr (n0 :: rest0) = w ++ [x] := by rw [toStr_ne (by simp), hw]
  have h1 : ∀ f, walk fs f linkFuel [] ([] :: n0 :: rest0) = .ok (n0 :: rest0) := by
    intro f
    rw [C07.walk_skip _ _ _ _ _ hroot, ← e0]
    have := walk_plain_leaf_nl fs f linkFuel n P [] (by simpa using hp) hn (by simpa using hnl)
    simpa using this
  rw [e0]
  unfold resolve
  rw [if_neg (by rw [hs]; simp), isAbs_toStr, hc]
  have htr : ¬ ((toStr (n0 :: rest0)).getLast? = some slash ∧ ¬ ((toStr (n0 :: rest0)).all (· = slash)) = true) := by
    rw [hs]; simp [hx]
  simp only [htr, decide_false, Bool.or_false, if_true, h1, if_false]

/-! ### `$topdir/.Trash/$uid`: the candidate, its parent, its security check -/

/-- the candidates `possible_trash_directories_for` adds for the volume `vol` -/
def topCand (c : PutCfg) (vol : Bytes) : Candidate :=
  { path := pjoin vol (b ".Trash/" ++ Bytes.ofNat c.uid), volume := vol, relative := true, topCheck := true,
    gate := .sameVolume }
def altCand (c : PutCfg) (vol : Bytes) : Candidate :=
  { path := pjoin vol (b ".Trash-" ++ Bytes.ofNat c.uid), volume := vol, relative := true, topCheck := false,
    gate := .sameVolume }

theorem candidates_vol {c : PutCfg} {H : CPath} (C : HomeCfg c H) (fs : FS) (vol : Bytes) :
    ∃ rest, candidatesFor fs c vol = homeCand fs c H :: topCand c vol :: altCand c vol :: rest := by
  unfold candidatesFor
  simp only [C.noTrashDir, homeTrashPaths, C.xdgUnset, C.home]
  exact ⟨_, rfl⟩

theorem good_dotTrash : GoodNames [b ".Trash"] := goodNames_single (by decide +kernel)

theorem topCand_path (c : PutCfg) (V : CPath) (hV : GoodNames V) (hu : GoodNames [uidName c.uid]) :
    (topCand c (toStr V)).path = toStr (V ++ [b ".Trash"] ++ [uidName c.uid]) := by
  show pjoin (toStr V) (b ".Trash/" ++ Bytes.ofNat c.uid) = _
  rw [← C20.pjoin_trash _ _ (C20.ofNat_head c.uid),
    pjoin_toStr' V hV _ (head_of_good (good_dotTrash _ (by simp))),
    pjoin_toStr' _ (goodNames_append hV good_dotTrash) _ (head_of_good (hu _ (by simp [uidName])))]
  rfl

theorem altCand_path (c : PutCfg) (V : CPath) (hV : GoodNames V) (ha : GoodNames [altName c.uid]) :
    (altCand c (toStr V)).path = toStr (V ++ [altName c.uid]) := by
  show pjoin (toStr V) (b ".Trash-" ++ Bytes.ofNat c.uid) = _
  exact pjoin_toStr' V hV _ (head_of_good (ha _ (by simp [altName])))

theorem topCand_parent (c : PutCfg) (V : CPath) (hV : GoodNames V) (hu : GoodNames [uidName c.uid]) :
    dirname (topCand c (toStr V)).path = toStr (V ++ [b ".Trash"]) := by
  rw [topCand_path c V hV hu]
  exact dirname_toStr _ _ (goodNames_append (goodNames_append hV good_dotTrash) hu)

section security
variable {fs : FS} {V : CPath} (c : PutCfg) (hp : Plain fs V) (hV : GoodNames V) (hu : GoodNames [uidName c.uid])
include hp hV hu

theorem security_noParent (h : fs.get (V ++ [b ".Trash"]) = none) :
    securityCheck fs c.cwd (topCand c (toStr V)) = some .noParent := by
  unfold securityCheck
  rw [topCand_parent c V hV hu]
  have : pLexists fs c.cwd (toStr (V ++ [b ".Trash"])) = false := by
    unfold pLexists
    rw [lstat_missing fs c.cwd V (b ".Trash") [] hp (goodNames_append hV good_dotTrash) h]; rfl
  simp [topCand, this]

theorem security_insecure (h : InsecureTop fs V) :
    ∃ r, securityCheck fs c.cwd (topCand c (toStr V)) = some r ∧ ∀ e, r ≠ .cleanupCrash e := by
  obtain ⟨nd, hnd, hns⟩ := h
  have gTP := goodNames_append hV good_dotTrash
  have hl : lstat fs c.cwd (toStr (V ++ [b ".Trash"])) = some nd := by
    unfold lstat; rw [resolve_leaf fs c.cwd V _ hp gTP]; exact hnd
  have hlex : pLexists fs c.cwd (toStr (V ++ [b ".Trash"])) = true := by unfold pLexists; rw [hl]; rfl
  unfold securityCheck
  rw [topCand_parent c V hV hu]
  simp only [topCand, hlex, not_true_eq_false, if_false, Bool.not_eq_true]
  by_cases hd : pIsdir fs c.cwd (toStr (V ++ [b ".Trash"])) = true
  · simp only [hd, Bool.true_eq_false, if_false]
    cases nd with
    | link t =>
      have : pIslink fs c.cwd (toStr (V ++ [b ".Trash"])) = true := by unfold pIslink; rw [hl]; rfl
      simp only [this, if_true]
      exact ⟨_, rfl, fun e h => by cases h⟩
    | file d m t =>
      exfalso
      have hs : stat fs c.cwd (toStr (V ++ [b ".Trash"])) = some (.file d m t) := by
        unfold stat; rw [resolve_leaf_nl fs c.cwd V _ true hp gTP (by rw [hnd]; intro t h; cases h)]; exact hnd
      unfold pIsdir at hd; rw [hs] at hd; cases hd
    | dir m t =>
      have hs : stat fs c.cwd (toStr (V ++ [b ".Trash"])) = some (.dir m t) := by
        unfold stat; rw [resolve_leaf_nl fs c.cwd V _ true hp gTP (by rw [hnd]; intro t h; cases h)]; exact hnd
      have h1 : pIslink fs c.cwd (toStr (V ++ [b ".Trash"])) = false := by unfold pIslink; rw [hl]; rfl
      have h2 : pSticky fs c.cwd (toStr (V ++ [b ".Trash"])) = some false := by
        unfold pSticky; rw [hs]; simp [hns m t rfl]
      simp only [h1, h2, Bool.false_eq_true, if_false]
      exact ⟨_, rfl, fun e h => by cases h⟩
  · simp only [hd, if_true]
    exact ⟨_, rfl, fun e h => by cases h⟩

theorem security_sticky {m t : Nat} (h : fs.get (V ++ [b ".Trash"]) = some (.dir m t)) (hs : m &&& 0o1000 ≠ 0) :
    securityCheck fs c.cwd (topCand c (toStr V)) = none := by
  have gTP := goodNames_append hV good_dotTrash
  have hl : lstat fs c.cwd (toStr (V ++ [b ".Trash"])) = some (.dir m t) := by
    unfold lstat; rw [resolve_leaf fs c.cwd V _ hp gTP]; exact h
  have hst : stat fs c.cwd (toStr (V ++ [b ".Trash"])) = some (.dir m t) := by
    unfold stat; rw [resolve_leaf_nl fs c.cwd V _ true hp gTP (by rw [h]; intro t h; cases h)]; exact h
  unfold securityCheck
  rw [topCand_parent c V hV hu]
  simp [topCand, pLexists, pIsdir, pIslink, pSticky, hl, hst, Node.isDir, Node.isLink, hs]

end security

/-! ### 2./3. an entry of another volume than the home trash -/

open TrashVerif.Proofs.C07 (dev_prefix dev_self dev_snoc)

section othervolume
variable {c : PutCfg} {fs : FS} {H Qh Rh V P' : CPath} {n : Name} (C : HomeCfg c H) (W : OtherVolume fs H Qh Rh V)
  (hm : MountsOk fs)

include C W hm in
/-- the home trash is refused by the volume gate -/
theorem gate_home_other : gateCheck fs c (toStr V) (homeCand fs c H) = some .differentVolumes := by
  unfold gateCheck
  have hpath : homeStr H = toStr (Qh ++ Rh) := by
    rw [homeStr_eq C.homeNotRoot, W.homeSplit]
  have hne : toStr (dev fs Qh) ≠ toStr V := by
    intro e
    refine W.homeElsewhere (toStr_inj ?_ W.volNames e)
    exact goodNames_prefix (dev_prefix fs Qh) (show GoodNames (Qh ++ Rh) from W.homeSite.names).left
  have hv : volumeOf fs c.cwd (realpathStr fs c.cwd (homeStr H)) = toStr (dev fs Qh) := by
    rw [hpath]; exact gate_volume_site c W.homeSite hm.rootMounted
  simp only [homeCand, hv, hne, if_false]

include C W hm in
theorem skip_home (path : Bytes) (rest : List Candidate) (reasons : List Reason) (st : PutSt) (s : RunState)
    (hs : s.fs = fs) :
    run noFaults (tryCandidates c path (toStr V) (homeCand fs c H :: rest) reasons st) s =
      run noFaults (tryCandidates c path (toStr V) rest (.differentVolumes :: reasons) st) s := by
  subst hs
  refine tryCandidates_next c path (toStr V) _ rest reasons st s _ (by intro e h; cases h) ?_
  exact trashFileIn_gated c path (toStr V) _ st s _ (by simp [securityCheck, homeCand]) (gate_home_other C W hm)

include C W hm in
theorem volume_alt_gen (S : FreshSite fs V (altName c.uid) []) (A : Arg fs (V ++ P') n) (hon : dev fs (V ++ P') = V)
    (r1 : Reason) (hr1 : ∀ e, r1 ≠ .cleanupCrash e)
    (hsec1 : securityCheck fs c.cwd (topCand c (toStr V)) = some r1) (st : PutSt) :
    let r := run noFaults (runPut c [toStr ((V ++ P') ++ [n])] st) { fs := fs }
    r.1.outcomes = [(toStr ((V ++ P') ++ [n]), .trashed (toStr (V ++ [altName c.uid])) (n ++ trashinfoExt))] ∧
    r.1.crash = none ∧ r.1.exit = 0 ∧ r.2.outs = [] ∧
    r.2.trace = firstUseTrace V (altName c.uid) [] ((V ++ P') ++ [n]) n (formatTrashinfoWith (relLoc P' n) c.dateStr) ∧
    ∃ fs1, SiteCreated fs fs1 V (altName c.uid) [] ∧
      Trashed fs1 r.2.fs (infoOf (V ++ [altName c.uid])) (filesOf (V ++ [altName c.uid])) ((V ++ P') ++ [n])
        (n ++ trashinfoExt) (formatTrashinfoWith (relLoc P' n) c.dateStr) := by
  intro r
  have hVdev : dev fs V = V := dev_self fs V W.volMount
  have ga : GoodNames [altName c.uid] := (show GoodNames (V ++ [altName c.uid]) from S.names).right
  have hpath : (altCand c (toStr V)).path = toStr (V ++ [altName c.uid]) := altCand_path c V W.volNames ga
  have hsec : securityCheck fs c.cwd (altCand c (toStr V)) = none := by simp [securityCheck, altCand]
  have hgate : gateCheck fs c (toStr V) (altCand c (toStr V)) = none := by
    refine (C07.gate_same_volume fs c _ _ rfl).2 ?_
    rw [hpath, gate_volume_site c (freshSite_site S) hm.rootMounted, hVdev]
  have hapart : ¬ ((V ++ P') ++ [n]) <+: V := fun h => by have := h.length_le; simp at this; omega
  obtain ⟨s1, fs1, hrun, SC, T, htr, hout⟩ := trashFileIn_fresh (c := c) S A hm (by rw [hon, hVdev]) hapart (toStr V)
    (altCand c (toStr V)) hpath hsec hgate (relLoc P' n)
    (fun fs' hp => originalLocation_rel fs' c.cwd V P' n _ rfl rfl hp A.names)
    (basename_relLoc P' n (by have := A.names; rw [List.append_assoc] at this; exact (show GoodNames (V ++ (P' ++ [n])) from this).right)) st { fs := fs } rfl
  obtain ⟨rest, hc⟩ := candidates_vol C fs (toStr V)
  have htry : run noFaults (tryCandidates c (toStr ((V ++ P') ++ [n])) (toStr V) (candidatesFor fs c (toStr V)) [] st)
      { fs := fs } = ((.trashed (altCand c (toStr V)).path (n ++ trashinfoExt), st), s1) := by
    rw [hc, skip_home C W hm _ _ _ st { fs := fs } rfl,
      tryCandidates_next c _ (toStr V) _ _ _ st { fs := fs } r1 hr1
        (trashFileIn_insecure c _ (toStr V) _ st { fs := fs } r1 hsec1)]
    exact tryCandidates_take c _ (toStr V) _ rest _ st st { fs := fs } s1 _ hrun
  have hsingle := trashSingle_arg A hm.rootMounted C.noForcedVolume C.noPrompt st { fs := fs } rfl
    (.trashed (altCand c (toStr V)).path (n ++ trashinfoExt)) st s1 (by rw [hon]; exact htry)
  have hput := runPut_single c _ st st { fs := fs } s1 _ hsingle (by intro e h; cases h)
  have hr : r = run noFaults (runPut c [toStr ((V ++ P') ++ [n])] st) { fs := fs } := rfl
  rw [hr, hput, hpath]
  exact ⟨rfl, rfl, rfl, hout, by show s1.trace = _; rw [htr]; simp, fs1, SC, T⟩

include C W hm in
theorem volume_top {m t : Nat} (S : FreshSite fs (V ++ [b ".Trash"]) (uidName c.uid) []) (A : Arg fs (V ++ P') n)
    (hon : dev fs (V ++ P') = V) (htop : fs.get (V ++ [b ".Trash"]) = some (.dir m t)) (hsticky : m &&& 0o1000 ≠ 0)
    (hnm : fs.isMount (V ++ [b ".Trash"]) = false) (hapart : ¬ ((V ++ P') ++ [n]) <+: V ++ [b ".Trash"]) (st : PutSt) :
    let r := run noFaults (runPut c [toStr ((V ++ P') ++ [n])] st) { fs := fs }
    r.1.outcomes = [(toStr ((V ++ P') ++ [n]),
      .trashed (toStr (V ++ [b ".Trash"] ++ [uidName c.uid])) (n ++ trashinfoExt))] ∧
    r.1.crash = none ∧ r.1.exit = 0 ∧ r.2.outs = [] ∧
    r.2.trace = firstUseTrace (V ++ [b ".Trash"]) (uidName c.uid) [] ((V ++ P') ++ [n]) n
      (formatTrashinfoWith (relLoc P' n) c.dateStr) ∧
    ∃ fs1, SiteCreated fs fs1 (V ++ [b ".Trash"]) (uidName c.uid) [] ∧
      Trashed fs1 r.2.fs (infoOf (V ++ [b ".Trash"] ++ [uidName c.uid])) (filesOf (V ++ [b ".Trash"] ++ [uidName c.uid]))
        ((V ++ P') ++ [n]) (n ++ trashinfoExt) (formatTrashinfoWith (relLoc P' n) c.dateStr) := by
  intro r
  have hVdev : dev fs V = V := dev_self fs V W.volMount
  have hTdev : dev fs (V ++ [b ".Trash"]) = V := by rw [dev_snoc fs V _ hnm, hVdev]
  have gu : GoodNames [uidName c.uid] := (show GoodNames ((V ++ [b ".Trash"]) ++ [uidName c.uid]) from S.names).right
  have hpath : (topCand c (toStr V)).path = toStr (V ++ [b ".Trash"] ++ [uidName c.uid]) :=
    topCand_path c V W.volNames gu
  have hsec : securityCheck fs c.cwd (topCand c (toStr V)) = none :=
    security_sticky c W.volPlain W.volNames gu htop hsticky
  have hgate : gateCheck fs c (toStr V) (topCand c (toStr V)) = none := by
    refine (C07.gate_same_volume fs c _ _ rfl).2 ?_
    rw [hpath, gate_volume_site c (freshSite_site S) hm.rootMounted, hTdev]
  obtain ⟨s1, fs1, hrun, SC, T, htr, hout⟩ := trashFileIn_fresh (c := c) S A hm (by rw [hon, hTdev]) hapart (toStr V)
    (topCand c (toStr V)) hpath hsec hgate (relLoc P' n)
    (fun fs' hp => originalLocation_rel fs' c.cwd V P' n _ rfl rfl hp A.names)
    (basename_relLoc P' n (by have := A.names; rw [List.append_assoc] at this; exact (show GoodNames (V ++ (P' ++ [n])) from this).right)) st { fs := fs } rfl
  obtain ⟨rest, hc⟩ := candidates_vol C fs (toStr V)
  have htry : run noFaults (tryCandidates c (toStr ((V ++ P') ++ [n])) (toStr V) (candidatesFor fs c (toStr V)) [] st)
      { fs := fs } = ((.trashed (topCand c (toStr V)).path (n ++ trashinfoExt), st), s1) := by
    rw [hc, skip_home C W hm _ _ _ st { fs := fs } rfl]
    exact tryCandidates_take c _ (toStr V) _ _ _ st st { fs := fs } s1 _ hrun
  have hsingle := trashSingle_arg A hm.rootMounted C.noForcedVolume C.noPrompt st { fs := fs } rfl
    (.trashed (topCand c (toStr V)).path (n ++ trashinfoExt)) st s1 (by rw [hon]; exact htry)
  have hput := runPut_single c _ st st { fs := fs } s1 _ hsingle (by intro e h; cases h)
  have hr : r = run noFaults (runPut c [toStr ((V ++ P') ++ [n])] st) { fs := fs } := rfl
  rw [hr, hput, hpath]
  exact ⟨rfl, rfl, rfl, hout, by show s1.trace = _; rw [htr]; simp, fs1, SC, T⟩

end othervolume

/-! ### 4. `--trash-dir` -/

/-- the only candidate with `--trash-dir D` -/
def customCand (fs : FS) (c : PutCfg) (D : CPath) : Candidate :=
  { path := toStr D, volume := volumeOf fs c.cwd (toStr D), relative := true, topCheck := false, gate := .sameVolume }

theorem candidates_customCfg {c : PutCfg} {D : CPath} (C : CustomCfg c D) (fs : FS) (vol : Bytes) :
    candidatesFor fs c vol = [customCand fs c D] :=
  C07.candidates_custom fs c vol (toStr D) C.trashDir (toStr_ne_nil D)

theorem custom_same_volume {c : PutCfg} {fs : FS} {Q : CPath} {x : Name} {R V P' : CPath} {n : Name}
    (C : CustomCfg c (Q ++ x :: R)) (S : FreshSite fs Q x R) (hV : dev fs Q = V) (A : Arg fs (V ++ P') n)
    (hon : dev fs (V ++ P') = V) (hm : MountsOk fs) (hapart : ¬ ((V ++ P') ++ [n]) <+: Q) (st : PutSt) :
    let r := run noFaults (runPut c [toStr ((V ++ P') ++ [n])] st) { fs := fs }
    r.1.outcomes = [(toStr ((V ++ P') ++ [n]), .trashed (toStr (Q ++ x :: R)) (n ++ trashinfoExt))] ∧
    r.1.crash = none ∧ r.1.exit = 0 ∧ r.2.outs = [] ∧
    r.2.trace = firstUseTrace Q x R ((V ++ P') ++ [n]) n (formatTrashinfoWith (relLoc P' n) c.dateStr) ∧
    ∃ fs1, SiteCreated fs fs1 Q x R ∧
      Trashed fs1 r.2.fs (infoOf (Q ++ x :: R)) (filesOf (Q ++ x :: R)) ((V ++ P') ++ [n])
        (n ++ trashinfoExt) (formatTrashinfoWith (relLoc P' n) c.dateStr) := by
  intro r
  have hvolD : volumeOf fs c.cwd (toStr (Q ++ x :: R)) = toStr V := by
    rw [volumeOf_site c.cwd (freshSite_site S) hm.rootMounted, hV]
  have hsec : securityCheck fs c.cwd (customCand fs c (Q ++ x :: R)) = none := by simp [securityCheck, customCand]
  have hgate : gateCheck fs c (toStr V) (customCand fs c (Q ++ x :: R)) = none := by
    refine (C07.gate_same_volume fs c _ _ rfl).2 ?_
    show volumeOf fs c.cwd (realpathStr fs c.cwd (toStr (Q ++ x :: R))) = _
    rw [gate_volume_site c (freshSite_site S) hm.rootMounted, hV]
  obtain ⟨s1, fs1, hrun, SC, T, htr, hout⟩ := trashFileIn_fresh (c := c) S A hm (by rw [hon, hV]) hapart (toStr V)
    (customCand fs c (Q ++ x :: R)) rfl hsec hgate (relLoc P' n)
    (fun fs' hp => originalLocation_rel fs' c.cwd V P' n _ rfl hvolD hp A.names)
    (basename_relLoc P' n (by have := A.names; rw [List.append_assoc] at this;
                              exact (show GoodNames (V ++ (P' ++ [n])) from this).right)) st { fs := fs } rfl
  have htry : run noFaults (tryCandidates c (toStr ((V ++ P') ++ [n])) (toStr V) (candidatesFor fs c (toStr V)) [] st)
      { fs := fs } = ((.trashed (customCand fs c (Q ++ x :: R)).path (n ++ trashinfoExt), st), s1) := by
    rw [candidates_customCfg C fs (toStr V)]
    exact tryCandidates_take c _ (toStr V) _ _ _ st st { fs := fs } s1 _ hrun
  have hsingle := trashSingle_arg A hm.rootMounted C.noForcedVolume C.noPrompt st { fs := fs } rfl
    (.trashed (customCand fs c (Q ++ x :: R)).path (n ++ trashinfoExt)) st s1 (by rw [hon]; exact htry)
  have hput := runPut_single c _ st st { fs := fs } s1 _ hsingle (by intro e h; cases h)
  have hr : r = run noFaults (runPut c [toStr ((V ++ P') ++ [n])] st) { fs := fs } := rfl
  rw [hr, hput]
  exact ⟨rfl, rfl, rfl, hout, by show s1.trace = _; rw [htr]; simp, fs1, SC, T⟩

theorem custom_other_volume {c : PutCfg} {fs : FS} {Q R P : CPath} {n : Name}
    (C : CustomCfg c (Q ++ R)) (S : Site fs Q R) (A : Arg fs P n) (hm : MountsOk fs)
    (hother : dev fs Q ≠ dev fs P) (st : PutSt) :
    run noFaults (runPut c [toStr (P ++ [n])] st) { fs := fs } =
      ({ outcomes := [(toStr (P ++ [n]), .failedAll [.differentVolumes])], crash := none, exit := 74 },
       { fs := fs, outs := [.stderr "cannot-trash" (toStr (P ++ [n]))] }) := by
  have hne : toStr (dev fs Q) ≠ toStr (dev fs P) := by
    intro e
    refine hother (toStr_inj ?_ ?_ e)
    · exact goodNames_prefix (dev_prefix fs Q) (show GoodNames (Q ++ R) from S.names).left
    · exact goodNames_prefix (dev_prefix fs P) (show GoodNames (P ++ [n]) from A.names).left
  have hv : volumeOf fs c.cwd (realpathStr fs c.cwd (toStr (Q ++ R))) = toStr (dev fs Q) :=
    gate_volume_site c S hm.rootMounted
  have hgate : gateCheck fs c (toStr (dev fs P)) (customCand fs c (Q ++ R)) = some .differentVolumes := by
    unfold gateCheck
    simp only [customCand, hv, hne, if_false]
  have htry : run noFaults (tryCandidates c (toStr (P ++ [n])) (toStr (dev fs P))
      (candidatesFor fs c (toStr (dev fs P))) [] st) { fs := fs } =
      ((.failedAll [.differentVolumes], st), { fs := fs }) := by
    rw [candidates_customCfg C fs _,
      tryCandidates_next c _ _ _ _ _ st { fs := fs } .differentVolumes (by intro e h; cases h)
        (trashFileIn_gated c _ _ _ st { fs := fs } _ (by simp [securityCheck, customCand]) hgate)]
    rfl
  have hsingle := trashSingle_arg A hm.rootMounted C.noForcedVolume C.noPrompt st { fs := fs } rfl _ _ _ htry
  rw [runPut_single c _ st st { fs := fs } { fs := fs } _ hsingle (by intro e h; cases h)]
  rfl

/-! ### the final state of a first use, path by path -/

theorem first_use_final {fs fs1 fs' : FS} {Q : CPath} {x : Name} {R src : CPath} {name content : Bytes}
    (SC : SiteCreated fs fs1 Q x R)
    (T : Trashed fs1 fs' (infoOf (Q ++ x :: R)) (filesOf (Q ++ x :: R)) src name content)
    (hfresh : ∀ rel, fs.get (Q ++ x :: rel) = none) (hsrc : (fs.get src).isSome = true) (hapart : ¬ src <+: Q) :
    (∀ k, k < R.length → fs'.get (Q ++ x :: R.take k) = some (.dir 0o755 0)) ∧
    fs'.get (Q ++ x :: R) = some (.dir 0o700 0) ∧
    (∃ t, fs'.get (filesOf (Q ++ x :: R)) = some (.dir 0o700 t)) ∧
    (∃ t, fs'.get (infoOf (Q ++ x :: R)) = some (.dir 0o700 t)) ∧
    (∀ rel, fs'.get (filesOf (Q ++ x :: R) ++ [stemOf name] ++ rel) = fs.get (src ++ rel)) ∧
    (∀ rel, fs'.get (src ++ rel) = none) ∧
    fs'.get (infoOf (Q ++ x :: R) ++ [name]) = some (.file content 0o600 0) ∧
    (∀ q, ¬ src <+: q → ¬ Q ++ [x] <+: q → q ≠ Q → q ≠ FS.parent src → fs'.get q = fs.get q) ∧
    keptDir fs fs' Q ∧ keptDir fs fs' (FS.parent src) := by
  -- nothing of the entry is at or below `Q/x`, nothing at or below `Q/x` is an ancestor of the entry
  have absent : ∀ {q}, Q ++ [x] <+: q → fs.get q = none := by
    rintro q ⟨t, rfl⟩
    rw [List.append_assoc, List.singleton_append]; exact hfresh t
  have hsrcAbove : ¬ Q ++ [x] <+: src := fun h => by rw [absent h] at hsrc; cases hsrc
  have hsrcBelow : ∀ {q}, Q ++ [x] <+: q → ¬ src <+: q := by
    intro q hq h
    rcases pfx_comparable hq h with h1 | h1
    · exact hsrcAbove h1
    · rw [pfx_concat] at h1
      rcases h1 with h1 | h1
      · exact hsrcAbove (h1 ▸ List.prefix_rfl)
      · exact hapart h1
  have hpre : Q ++ [x] <+: Q ++ x :: R := by rw [cons_eq_snoc Q x R]; exact List.prefix_append _ _
  have hpreF : Q ++ [x] <+: filesOf (Q ++ x :: R) := hpre.trans (List.prefix_append _ _)
  have hpreI : Q ++ [x] <+: infoOf (Q ++ x :: R) := hpre.trans (List.prefix_append _ _)
  have hps : ¬ Q ++ [x] <+: FS.parent src := fun h => hsrcAbove (h.trans (dropLast_pfx src))
  have hQx : ¬ Q ++ [x] <+: Q := fun h => by have := h.length_le; simp at this; omega
  -- a path of the chain `Q/x … T` is in `fs'` what it is in `fs1`
  have chain : ∀ q, Q ++ [x] <+: q → q <+: Q ++ x :: R → fs'.get q = fs1.get q := by
    intro q h1 h2
    have hl := h2.length_le
    refine T.frame q ?_ ?_ ?_ ?_ ?_ ?_
    · rw [under_iff]; exact hsrcBelow h1
    · rw [under_iff]; intro h; have := h.length_le; simp [filesOf] at this hl; omega
    · apply len_ne; simp [infoOf] at hl ⊢; omega
    · intro e; exact hps (e ▸ h1)
    · apply len_ne; simp [filesOf] at hl ⊢; omega
    · apply len_ne; simp [infoOf] at hl ⊢; omega
  -- away from `Q` and `Q/x`, `fs1` is `fs`
  have old : ∀ q, q ≠ Q → ¬ Q ++ [x] <+: q → fs1.get q = fs.get q := by
    intro q h1 h2
    exact SC.frame q h1 (fun h => h2 h.1) (fun e => h2 (e ▸ hpreF)) (fun e => h2 (e ▸ hpreI))
  have hQ' : ∀ m t, fs.get Q = some (.dir m t) → ∃ t', fs'.get Q = some (.dir m t') := by
    intro m t hQ
    obtain ⟨m', t', h1, h2⟩ := SC.base
    rw [hQ] at h1; cases h1
    by_cases hp : Q = FS.parent src
    · have := T.dirs.1 m 0 (hp ▸ h2); rw [← hp] at this; exact this
    · refine ⟨0, ?_⟩
      rw [T.frame Q (by rw [under_iff]; exact hapart)
        (by rw [under_iff]; exact fun h => hQx (hpreF.trans ((List.prefix_append _ _).trans h)))
        (len_ne (by simp [infoOf] <;> omega)) hp (len_ne (by simp [filesOf] <;> omega))
        (len_ne (by simp [infoOf] <;> omega))]
      exact h2
  refine ⟨?_, ?_, ?_, ?_, ?_, T.gone, T.info, ?_, hQ', ?_⟩
  · intro k hk
    have e : Q ++ x :: R.take k = (Q ++ [x]) ++ R.take k := by simp
    rw [chain _ (e ▸ List.prefix_append _ _) ?_]
    · exact SC.ancestors k hk
    · rw [e, cons_eq_snoc Q x R]
      exact (List.prefix_append_right_inj _).2 (List.take_prefix _ _)
  · rw [chain _ hpre List.prefix_rfl]; exact SC.trashDir
  · obtain ⟨t, ht⟩ := T.dirs.2.1 _ _ SC.filesDir; exact ⟨t, ht⟩
  · obtain ⟨t, ht⟩ := T.dirs.2.2 _ _ SC.infoDir; exact ⟨t, ht⟩
  · intro rel
    rw [T.whole rel]
    refine old _ (fun e => hapart (e ▸ List.prefix_append _ _)) (fun h => hsrcBelow h (List.prefix_append _ _))
  · intro q h1 h2 h3 h4
    rw [T.frame q (by rw [under_iff]; exact h1)
      (by rw [under_iff]; exact fun h => h2 (hpreF.trans ((List.prefix_append _ _).trans h)))
      (fun e => h2 (e ▸ hpreI.trans (List.prefix_append _ _))) h4 (fun e => h2 (e ▸ hpreF)) (fun e => h2 (e ▸ hpreI))]
    exact old q h3 h2
  · intro m t hp
    by_cases hpq : FS.parent src = Q
    · rw [hpq] at hp ⊢; exact hQ' m t hp
    · exact T.dirs.1 m t (by rw [old _ hpq hps]; exact hp)

/-- a first use moves the entry with ONE `rename`: no copy (`createTrunc`), and the only file written is the info file -/
theorem firstUse_rename_only (Q : CPath) (x : Name) (R src : CPath) (stem content : Bytes) :
    (Call.rename src (filesOf (Q ++ x :: R) ++ [stem]), Except.ok ()) ∈ firstUseTrace Q x R src stem content ∧
    ∀ cr ∈ firstUseTrace Q x R src stem content, cr.2 = Except.ok () ∧ (∀ p m, cr.1 ≠ Call.createTrunc p m) ∧
      (∀ p d, cr.1 = Call.write p d → p = infoOf (Q ++ x :: R) ++ [stem ++ trashinfoExt] ∧ d = content) ∧
      (∀ p m, cr.1 = Call.mkdir p m → (m = 0o700 ∧ (p = Q ++ x :: R ∨ p = filesOf (Q ++ x :: R) ∨ p = infoOf (Q ++ x :: R))) ∨
        (m = 0o777 ∧ ∃ k, k < R.length ∧ p = Q ++ x :: R.take k)) := by
  constructor
  · simp [firstUseTrace]
  · intro cr hcr
    simp only [firstUseTrace, List.cons_append, List.nil_append, List.mem_cons] at hcr
    rcases hcr with rfl | rfl | rfl | rfl | rfl | rfl | rfl | hcr
    · exact ⟨rfl, (fun _ _ h => by cases h), (fun _ _ h => by cases h), (fun _ _ h => by cases h)⟩
    · exact ⟨rfl, (fun _ _ h => by cases h), (fun _ _ h => by cases h), (fun _ _ h => by cases h)⟩
    · exact ⟨rfl, (fun _ _ h => by cases h), (fun _ _ h => by cases h; exact ⟨rfl, rfl⟩), (fun _ _ h => by cases h)⟩
    · exact ⟨rfl, (fun _ _ h => by cases h), (fun _ _ h => by cases h), (fun _ _ h => by cases h)⟩
    · exact ⟨rfl, (fun _ _ h => by cases h), (fun _ _ h => by cases h),
        (fun _ _ h => by cases h; exact .inl ⟨rfl, .inr (.inr rfl)⟩)⟩
    · exact ⟨rfl, (fun _ _ h => by cases h), (fun _ _ h => by cases h),
        (fun _ _ h => by cases h; exact .inl ⟨rfl, .inr (.inl rfl)⟩)⟩
    · exact ⟨rfl, (fun _ _ h => by cases h), (fun _ _ h => by cases h),
        (fun _ _ h => by cases h; exact .inl ⟨rfl, .inl rfl⟩)⟩
    · unfold ancestorCalls at hcr
      obtain ⟨k, hk, rfl⟩ := List.mem_map.1 hcr
      have hk' : k < R.length := by simpa using hk
      exact ⟨rfl, (fun _ _ h => by cases h), (fun _ _ h => by cases h),
        (fun _ _ h => by cases h; exact .inr ⟨rfl, k, hk', rfl⟩)⟩

/-! ### 1., path by path -/

theorem home_first_use_final {c : PutCfg} {fs : FS} {H Q : CPath} {x : Name} {R P : CPath} {n : Name}
    (C : HomeCfg c H) (hsplit : trashC H = Q ++ x :: R) (S : FreshSite fs Q x R) (A : Arg fs P n)
    (hm : MountsOk fs) (hvol : dev fs P = dev fs Q) (hapart : ¬ (P ++ [n]) <+: Q) (st : PutSt) :
    let r := run noFaults (runPut c [toStr (P ++ [n])] st) { fs := fs }
    let fs' := r.2.fs
    r.1.outcomes = [(toStr (P ++ [n]), .trashed (homeStr H) (n ++ trashinfoExt))] ∧ r.1.crash = none ∧ r.1.exit = 0 ∧
    r.2.outs = [] ∧
    (∀ k, k < R.length → fs'.get (Q ++ x :: R.take k) = some (.dir 0o755 0)) ∧
    fs'.get (trashC H) = some (.dir 0o700 0) ∧
    (∃ t, fs'.get (filesC H) = some (.dir 0o700 t)) ∧ (∃ t, fs'.get (infoC H) = some (.dir 0o700 t)) ∧
    (∀ rel, fs'.get (filesC H ++ [n] ++ rel) = fs.get (P ++ [n] ++ rel)) ∧
    (∀ rel, fs'.get (P ++ [n] ++ rel) = none) ∧
    fs'.get (infoC H ++ [n ++ trashinfoExt]) = some (.file (formatTrashinfoWith (locOf P n) c.dateStr) 0o600 0) ∧
    (∀ q, ¬ (P ++ [n]) <+: q → ¬ Q ++ [x] <+: q → q ≠ Q → q ≠ P → fs'.get q = fs.get q) ∧
    keptDir fs fs' Q ∧ keptDir fs fs' P := by
  intro r fs'
  obtain ⟨h1, h2, h3, h4, _, fs1, SC, T⟩ := home_first_use C hsplit S A hm hvol hapart st
  have e1 : infoC H = infoOf (Q ++ x :: R) := by unfold infoC infoOf; rw [hsplit]
  have e2 : filesC H = filesOf (Q ++ x :: R) := by unfold filesC filesOf; rw [hsplit]
  rw [e1, e2] at T
  obtain ⟨a1, a2, a3, a4, a5, a6, a7, a8, a9, a10⟩ := first_use_final SC T S.fresh A.present hapart
  rw [stem_base] at a5
  rw [FS.parent, List.dropLast_concat] at a8 a10
  rw [e1, e2, hsplit]
  exact ⟨h1, h2, h3, h4, a1, a2, a3, a4, a5, a6, a7, a8, a9, a10⟩

theorem home_first_use_trash_missing {c : PutCfg} {fs : FS} {H P : CPath} {n : Name}
    (C : HomeCfg c H) (S : FreshSite fs (H ++ [b ".local", b "share"]) (b "Trash") []) (A : Arg fs P n)
    (hm : MountsOk fs) (hvol : dev fs P = dev fs (H ++ [b ".local", b "share"]))
    (hapart : ¬ (P ++ [n]) <+: H ++ [b ".local", b "share"]) (st : PutSt) :
    let r := run noFaults (runPut c [toStr (P ++ [n])] st) { fs := fs }
    let fs' := r.2.fs
    r.1.outcomes = [(toStr (P ++ [n]), .trashed (homeStr H) (n ++ trashinfoExt))] ∧ r.1.crash = none ∧ r.1.exit = 0 ∧
    r.2.outs = [] ∧
    fs'.get (trashC H) = some (.dir 0o700 0) ∧
    (∃ t, fs'.get (filesC H) = some (.dir 0o700 t)) ∧ (∃ t, fs'.get (infoC H) = some (.dir 0o700 t)) ∧
    (∀ rel, fs'.get (filesC H ++ [n] ++ rel) = fs.get (P ++ [n] ++ rel)) ∧
    (∀ rel, fs'.get (P ++ [n] ++ rel) = none) ∧
    fs'.get (infoC H ++ [n ++ trashinfoExt]) = some (.file (formatTrashinfoWith (locOf P n) c.dateStr) 0o600 0) ∧
    (∀ q, ¬ (P ++ [n]) <+: q → ¬ trashC H <+: q → q ≠ H ++ [b ".local", b "share"] → q ≠ P → fs'.get q = fs.get q) ∧
    keptDir fs fs' (H ++ [b ".local", b "share"]) ∧ keptDir fs fs' P := by
  intro r fs'
  have hsplit : trashC H = (H ++ [b ".local", b "share"]) ++ b "Trash" :: [] := by simp [trashC]
  obtain ⟨h1, h2, h3, h4, _, a2, a3, a4, a5, a6, a7, a8, a9, a10⟩ := home_first_use_final C hsplit S A hm hvol hapart st
  refine ⟨h1, h2, h3, h4, a2, a3, a4, a5, a6, a7, ?_, a9, a10⟩
  intro q q1 q2 q3 q4
  exact a8 q q1 (by rw [hsplit] at q2; exact q2) q3 q4

theorem home_first_use_fresh_home {c : PutCfg} {fs : FS} {H P : CPath} {n : Name}
    (C : HomeCfg c H) (S : FreshSite fs H (b ".local") [b "share", b "Trash"]) (A : Arg fs P n)
    (hm : MountsOk fs) (hvol : dev fs P = dev fs H) (hapart : ¬ (P ++ [n]) <+: H) (st : PutSt) :
    let r := run noFaults (runPut c [toStr (P ++ [n])] st) { fs := fs }
    let fs' := r.2.fs
    r.1.outcomes = [(toStr (P ++ [n]), .trashed (homeStr H) (n ++ trashinfoExt))] ∧ r.1.crash = none ∧ r.1.exit = 0 ∧
    r.2.outs = [] ∧
    fs'.get (H ++ [b ".local"]) = some (.dir 0o755 0) ∧ fs'.get (H ++ [b ".local", b "share"]) = some (.dir 0o755 0) ∧
    fs'.get (trashC H) = some (.dir 0o700 0) ∧
    (∃ t, fs'.get (filesC H) = some (.dir 0o700 t)) ∧ (∃ t, fs'.get (infoC H) = some (.dir 0o700 t)) ∧
    (∀ rel, fs'.get (filesC H ++ [n] ++ rel) = fs.get (P ++ [n] ++ rel)) ∧
    (∀ rel, fs'.get (P ++ [n] ++ rel) = none) ∧
    fs'.get (infoC H ++ [n ++ trashinfoExt]) = some (.file (formatTrashinfoWith (locOf P n) c.dateStr) 0o600 0) ∧
    (∀ q, ¬ (P ++ [n]) <+: q → ¬ H ++ [b ".local"] <+: q → q ≠ H → q ≠ P → fs'.get q = fs.get q) ∧
    keptDir fs fs' H ∧ keptDir fs fs' P := by
  intro r fs'
  obtain ⟨h1, h2, h3, h4, a1, a2, a3, a4, a5, a6, a7, a8, a9, a10⟩ := home_first_use_final C rfl S A hm hvol hapart st
  exact ⟨h1, h2, h3, h4, a1 0 (by decide), a1 1 (by decide), a2, a3, a4, a5, a6, a7, a8, a9, a10⟩

/-! ### 2./3., as stated in Props/C07Cmd.lean -/

theorem other_volume_alt {c : PutCfg} {fs : FS} {H Qh Rh V P' : CPath} {n : Name} (C : HomeCfg c H)
    (W : OtherVolume fs H Qh Rh V) (hm : MountsOk fs) (S : FreshSite fs V (altName c.uid) []) (A : Arg fs (V ++ P') n)
    (hon : dev fs (V ++ P') = V) (hu : GoodNames [uidName c.uid]) (hnoTop : fs.get (V ++ [b ".Trash"]) = none)
    (st : PutSt) :
    let r := run noFaults (runPut c [toStr ((V ++ P') ++ [n])] st) { fs := fs }
    r.1.outcomes = [(toStr ((V ++ P') ++ [n]), .trashed (toStr (V ++ [altName c.uid])) (n ++ trashinfoExt))] ∧
    r.1.crash = none ∧ r.1.exit = 0 ∧ r.2.outs = [] ∧
    r.2.trace = firstUseTrace V (altName c.uid) [] ((V ++ P') ++ [n]) n (formatTrashinfoWith (relLoc P' n) c.dateStr) ∧
    ∃ fs1, SiteCreated fs fs1 V (altName c.uid) [] ∧
      Trashed fs1 r.2.fs (infoOf (V ++ [altName c.uid])) (filesOf (V ++ [altName c.uid])) ((V ++ P') ++ [n])
        (n ++ trashinfoExt) (formatTrashinfoWith (relLoc P' n) c.dateStr) :=
  volume_alt_gen C W hm S A hon .noParent (by intro e h; cases h) (security_noParent c W.volPlain W.volNames hu hnoTop) st

theorem other_volume_top_insecure {c : PutCfg} {fs : FS} {H Qh Rh V P' : CPath} {n : Name} (C : HomeCfg c H)
    (W : OtherVolume fs H Qh Rh V) (hm : MountsOk fs) (S : FreshSite fs V (altName c.uid) []) (A : Arg fs (V ++ P') n)
    (hon : dev fs (V ++ P') = V) (hu : GoodNames [uidName c.uid]) (hins : InsecureTop fs V) (st : PutSt) :
    let r := run noFaults (runPut c [toStr ((V ++ P') ++ [n])] st) { fs := fs }
    r.1.outcomes = [(toStr ((V ++ P') ++ [n]), .trashed (toStr (V ++ [altName c.uid])) (n ++ trashinfoExt))] ∧
    r.1.crash = none ∧ r.1.exit = 0 ∧ r.2.outs = [] ∧
    r.2.trace = firstUseTrace V (altName c.uid) [] ((V ++ P') ++ [n]) n (formatTrashinfoWith (relLoc P' n) c.dateStr) ∧
    ∃ fs1, SiteCreated fs fs1 V (altName c.uid) [] ∧
      Trashed fs1 r.2.fs (infoOf (V ++ [altName c.uid])) (filesOf (V ++ [altName c.uid])) ((V ++ P') ++ [n])
        (n ++ trashinfoExt) (formatTrashinfoWith (relLoc P' n) c.dateStr) := by
  obtain ⟨r1, h1, h2⟩ := security_insecure c W.volPlain W.volNames hu hins
  exact volume_alt_gen C W hm S A hon r1 h2 h1 st

end TrashVerif.Proofs.C07Cmd
