/-
  Proofs/C16IndepCore.lean — independence of two trashings at the resolved layer (`putCore` in a
  `Setting`): proofs for Props/C16Indep.lean, part 3.
-/
import TrashVerif.Proofs.C01
import TrashVerif.Proofs.C02
import TrashVerif.Props.C16IndepDefs
namespace TrashVerif.Proofs.C16IndepCore
open TrashVerif Prog FS PutCore PutLemmas C16Indep

/-! ### the exclusive create, exactly -/

theorem createExcl_result (fs : FS) (I : CPath) (x : Name) {m t : Nat} (hI : fs.get I = some (.dir m t)) :
    fs.createExcl (I ++ [x]) 0o600 =
      if x.length > 255 then .error .ENAMETOOLONG
      else if (fs.get (I ++ [x])).isSome = true then .error .EEXIST
      else .ok (fsA fs (I ++ [x])) := by
  unfold createExcl checkParent
  simp only [List.getLast?_concat, parent, List.dropLast_concat, nameMax, hI]
  by_cases hx : x.length > 255
  · simp [hx, Bind.bind, Except.bind]
  · simp only [hx, if_false]
    by_cases he : (fs.get (I ++ [x])).isSome = true
    · simp [he, exists_, Bind.bind, Except.bind]
    · simp [he, exists_, fsA, parent, applyUmask_600, Bind.bind, Except.bind]

/-- what `atomicWrite` of `info/x` answers, and that a refused write leaves the file system alone -/
theorem atomicWrite_result (s : RunState) (I : CPath) (x : Name) (content : Bytes) {m t : Nat}
    (hI : s.fs.get I = some (.dir m t)) :
    (run noFaults (atomicWrite (I ++ [x]) content) s).1 =
      (if x.length > 255 then .error .ENAMETOOLONG
       else if (s.fs.get (I ++ [x])).isSome = true then .error .EEXIST else .ok ()) ∧
    ((run noFaults (atomicWrite (I ++ [x]) content) s).1 ≠ .ok () →
      (run noFaults (atomicWrite (I ++ [x]) content) s).2.fs = s.fs) := by
  have hc := createExcl_result s.fs I x hI
  by_cases hx : x.length > 255
  · rw [if_pos hx] at hc
    obtain ⟨h1, h2, _⟩ := atomicWrite_err (content := content) hc
    rw [if_pos hx]; exact ⟨h1, fun _ => h2⟩
  · rw [if_neg hx] at hc
    by_cases he : (s.fs.get (I ++ [x])).isSome = true
    · rw [if_pos he] at hc
      obtain ⟨h1, h2, _⟩ := atomicWrite_err (content := content) hc
      rw [if_neg hx, if_pos he]; exact ⟨h1, fun _ => h2⟩
    · rw [if_neg he] at hc
      have hp : (fsA s.fs (I ++ [x])).get (I ++ [x]) = some (.file [] 0o600 0) := by simp [fsA, parent]
      obtain ⟨h1, _, _⟩ := atomicWrite_ok (content := content) hc hp
      rw [if_neg hx, if_neg he]; exact ⟨h1, fun h => absurd h1 h⟩

/-! ### `persistLoop` looks only at the names it probes -/

theorem suffixFor_isSuffix (index : Nat) (st : PutSt) : IsSuffix (suffixFor index st).1 := by
  unfold suffixFor
  split
  · exact Or.inl rfl
  · split
    · exact Or.inr ⟨index, rfl⟩
    · split
      · next i rest _ => exact Or.inr ⟨i, rfl⟩
      · exact Or.inr ⟨4242, rfl⟩

/-- two file systems answer alike for every name the loop can probe: `files/<stem>` and
    `info/<name>` exist in both or in neither, for every variant of `base` -/
def ProbesAgree (I F : CPath) (base : Bytes) (fs1 fs2 : FS) : Prop :=
  ∀ suffix, IsSuffix suffix → ∀ tooLong,
    (fs1.get (F ++ [stemOf (trashinfoBasename base suffix tooLong)])).isSome =
      (fs2.get (F ++ [stemOf (trashinfoBasename base suffix tooLong)])).isSome ∧
    (fs1.get (I ++ [trashinfoBasename base suffix tooLong])).isSome =
      (fs2.get (I ++ [trashinfoBasename base suffix tooLong])).isSome

theorem persist_congr (I F : CPath) (base content : Bytes) :
    ∀ (fuel index : Nat) (tooLong : Bool) (st : PutSt) (s1 s2 : RunState),
      (∃ m t, s1.fs.get I = some (.dir m t)) → (∃ m t, s2.fs.get I = some (.dir m t)) →
      ProbesAgree I F base s1.fs s2.fs →
      (run noFaults (persistLoop I F base content fuel index tooLong st) s1).1 =
        (run noFaults (persistLoop I F base content fuel index tooLong st) s2).1 := by
  intro fuel
  induction fuel with
  | zero => intro index tooLong st s1 s2 _ _ _; rfl
  | succ fuel ih =>
    intro index tooLong st s1 s2 hI1 hI2 hag
    unfold persistLoop
    have hsfx := suffixFor_isSuffix index st
    generalize suffixFor index st = pr at hsfx
    obtain ⟨suffix, st'⟩ := pr
    simp only [run_read_bind]
    have hst : ∀ name : Bytes, List.take (List.length name - List.length trashinfoExt) name = stemOf name := fun _ => rfl
    rw [hst]
    obtain ⟨hF, hN⟩ := hag suffix hsfx tooLong
    generalize trashinfoBasename base suffix tooLong = name at hF hN
    have hl : lexistsC s1.fs (F ++ [stemOf name]) = lexistsC s2.fs (F ++ [stemOf name]) := hF
    rw [hl]
    by_cases hl2 : lexistsC s2.fs (F ++ [stemOf name]) = true
    · simp only [hl2, if_true]; exact ih _ _ _ _ _ hI1 hI2 hag
    · rw [if_neg hl2]
      simp only [run_bind]
      obtain ⟨m1, t1, hI1'⟩ := hI1
      obtain ⟨m2, t2, hI2'⟩ := hI2
      obtain ⟨a1, b1⟩ := atomicWrite_result s1 I name content hI1'
      obtain ⟨a2, b2⟩ := atomicWrite_result s2 I name content hI2'
      rw [hN] at a1
      generalize run noFaults (atomicWrite (I ++ [name]) content) s1 = r1 at a1 b1
      generalize run noFaults (atomicWrite (I ++ [name]) content) s2 = r2 at a2 b2
      obtain ⟨res1, s1'⟩ := r1
      obtain ⟨res2, s2'⟩ := r2
      simp only at a1 b1 a2 b2
      have hres : res1 = res2 := a1.trans a2.symm
      subst hres
      cases res1 with
      | ok u => rfl
      | error e =>
        have e1 : s1'.fs = s1.fs := b1 (by intro h; cases h)
        have e2 : s2'.fs = s2.fs := b2 (by intro h; cases h)
        have key : ∀ i tl, (run noFaults (persistLoop I F base content fuel i tl st') s1').1 =
            (run noFaults (persistLoop I F base content fuel i tl st') s2').1 :=
          fun i tl => ih i tl st' s1' s2' ⟨m1, t1, by rw [e1]; exact hI1'⟩ ⟨m2, t2, by rw [e2]; exact hI2'⟩
            (by rw [e1, e2]; exact hag)
        cases e <;> first | exact key _ _ | rfl | (simp only []; split <;> first | rfl | exact key _ _)


/-! ### in a `Setting` the core succeeds exactly when a name was found -/

def coreOf : Persist → Except Reason Bytes
  | .created n => .ok n
  | .failed e => .error (.persistError e)
  | .outOfFuel => .error (.persistError .ELOOP)

theorem core_result {I F S : CPath} (base content : Bytes) (st : PutSt) (s : RunState) (h : Setting s.fs I F S) :
    (run noFaults (putCore I F base content (fun _ => .ok S) st) s).1 =
      (coreOf (run noFaults (persistLoop I F base content persistFuel 0 false st) s).1.1,
       (run noFaults (persistLoop I F base content persistFuel 0 false st) s).1.2) := by
  have g := Geo.of_setting h
  unfold putCore
  rw [run_bind]
  have ps := persist_spec I F base content persistFuel 0 false st s
  generalize run noFaults (persistLoop I F base content persistFuel 0 false st) s = rp at ps
  obtain ⟨⟨pr, st1⟩, s1⟩ := rp
  rcases ps with ⟨a, b, c⟩ | ⟨name, a, hst, hfree, hfreeI, hlen, hdir, hfs, hh⟩
  · simp only at a ⊢
    cases pr with
    | created nm => exact absurd rfl (a nm)
    | failed e => rfl
    | outOfFuel => rfl
  · simp only at a hfs ⊢
    subst a
    simp only [run_bind, run_read]
    have hnt := stem_ne hst
    obtain ⟨na, hna⟩ := Option.isSome_iff_exists.1 h.srcExists
    obtain ⟨m, t, hF⟩ := isDirAt_get h.filesDir
    have hlt : (stemOf name).length ≤ 255 := by
      have := congrArg List.length hst
      rw [List.length_append, ext_len] at this; omega
    have hm : s1.fs.mounts = s.fs.mounts := by rw [hfs, fsB_mounts]
    have d1 : F ++ [stemOf name] ≠ I ++ [name] := fun e => g.D_P hnt (e ▸ List.prefix_refl _)
    have d2 : F ++ [stemOf name] ≠ I := fun e => g.D_I (t := stemOf name) (e ▸ List.prefix_refl _)
    have d3 : S ≠ I ++ [name] := fun e => g.S_P (n := name) (e ▸ List.prefix_refl _)
    have d4 : S ≠ I := fun e => g.h3 (e ▸ List.prefix_refl _)
    have e1 : s1.fs.get (F ++ [stemOf name]) = none := by
      rw [hfs, fsB_get, if_neg d1, if_neg d2, hfree]
    have e2 : s1.fs.get S = some na := by
      rw [hfs, fsB_get, if_neg d3, if_neg d4, hna]
    have e3 : s1.fs.isMount S = false := by
      rw [isMount_congr hm]; exact h.srcNotMount
    have e4 : s1.fs.dev (parent S) = s1.fs.dev F := by
      rw [dev_congr hm, dev_congr hm]; exact h.sameDev
    have e5 : s1.fs.get F = some (.dir m t) := by
      rw [hfs, fsB_get, if_neg (Ne.symm g.P_F), if_neg (Ne.symm g.I_F), hF]
    have e6 : S ≠ F ++ [stemOf name] := fun e => g.S_D (t := stemOf name) (e ▸ List.prefix_refl _)
    have e7 : ¬ FS.under S (F ++ [stemOf name]) = true := by rw [under_iff]; exact g.S_D
    obtain ⟨m1, _, _⟩ := move_spec e1 e2 e3 e4 hlt e5 e6 e7
    generalize run noFaults (move S (F ++ [stemOf name])) s1 = rm at m1
    obtain ⟨res, s2⟩ := rm
    simp only at m1
    subst m1
    rfl

/-! ### what the trashing of `a` leaves of a `Setting` for `d` -/

theorem touch_isSome (o : Option Node) : (touch o).isSome = o.isSome := by
  rcases o with _ | (_ | _ | _) <;> rfl

theorem touch_isDir (o : Option Node) :
    (match touch o with | some n => n.isDir | none => false) = (match o with | some n => n.isDir | none => false) := by
  rcases o with _ | (_ | _ | _) <;> rfl

section after
variable {fs fs' : FS} {Ia Fa Sa : CPath} {na ca : Bytes} (T : Trashed fs fs' Ia Fa Sa na ca)
  (hFa : fs.isDirAt Fa = true) (hIa : fs.isDirAt Ia = true)
include T hFa hIa

/-- away from the entry, the payload and the info file of `a`, a path keeps its node or (one of the
    three touched directories) keeps kind and mode -/
theorem after_some {q : CPath} (h1 : ¬ Sa <+: q) (h2 : ¬ Fa ++ [stemOf na] <+: q) (h3 : q ≠ Ia ++ [na])
    (hps : q = FS.parent Sa → fs.isDirAt q = true) :
    (fs'.get q).isSome = (fs.get q).isSome ∧ fs'.isDirAt q = fs.isDirAt q := by
  have kept : keptDir fs fs' q → fs.isDirAt q = true →
      (fs'.get q).isSome = (fs.get q).isSome ∧ fs'.isDirAt q = fs.isDirAt q := by
    intro hk hd
    obtain ⟨m, t, hq⟩ := isDirAt_get hd
    obtain ⟨t', hq'⟩ := hk m t hq
    simp [isDirAt, hq, hq', Node.isDir]
  by_cases c1 : q = FS.parent Sa
  · exact kept (c1 ▸ T.dirs.1) (hps c1)
  · by_cases c2 : q = Fa
    · exact kept (c2 ▸ T.dirs.2.1) (c2 ▸ hFa)
    · by_cases c3 : q = Ia
      · exact kept (c3 ▸ T.dirs.2.2) (c3 ▸ hIa)
      · have := T.frame q (by rw [under_iff]; exact h1) (by rw [under_iff]; exact h2) h3 c1 c2 c3
        simp [isDirAt, this]

end after

theorem setting_after {fs fs' : FS} {Ia Fa Sa Id Fd Sd : CPath} {na ca : Bytes}
    (T : Trashed fs fs' Ia Fa Sa na ca) (hm : fs'.mounts = fs.mounts)
    (hA : Setting fs Ia Fa Sa) (hD : Setting fs Id Fd Sd) (ap : Apart Ia Fa Sa Id Fd Sd) :
    Setting fs' Id Fd Sd := by
  have free : ∀ {q}, (fs.get q).isSome = true → q ≠ Ia ++ [na] := by
    intro q hq e; rw [e, T.wasFreeInfo] at hq; cases hq
  have dsome : ∀ {q}, fs.isDirAt q = true → (fs.get q).isSome = true := by
    intro q hq; obtain ⟨m, t, h⟩ := isDirAt_get hq; simp [h]
  have hI := after_some T hA.filesDir hA.infoDir ap.srcInfo.1 (ap.inInfo _) (free (dsome hD.infoDir)) (fun _ => hD.infoDir)
  have hF := after_some T hA.filesDir hA.infoDir ap.srcFiles.1 (ap.inFiles _) (free (dsome hD.filesDir)) (fun _ => hD.filesDir)
  have hS := after_some T hA.filesDir hA.infoDir ap.src.1 (ap.inSrc _) (free hD.srcExists)
    (fun e => absurd (e ▸ dropLast_pfx Sa) ap.src.2)
  exact
    { infoDir := by rw [hI.2]; exact hD.infoDir
      filesDir := by rw [hF.2]; exact hD.filesDir
      distinct := hD.distinct
      srcExists := by rw [hS.1]; exact hD.srcExists
      srcNotRoot := hD.srcNotRoot
      srcNotMount := by rw [isMount_congr hm]; exact hD.srcNotMount
      sameDev := by rw [dev_congr hm, dev_congr hm]; exact hD.sameDev
      notAncestor := hD.notAncestor
      notInside := hD.notInside }


theorem concat_eq {a c : CPath} {x y : Name} (h : a ++ [x] = c ++ [y]) : a = c ∧ x = y := by
  have := List.append_inj' h rfl
  exact ⟨this.1, by simpa using this.2⟩

theorem probes_agree_after {fs fs' : FS} {Ia Fa Sa Id Fd Sd : CPath} {na ca : Bytes}
    (T : Trashed fs fs' Ia Fa Sa na ca) (hA : Setting fs Ia Fa Sa)
    (ap : Apart Ia Fa Sa Id Fd Sd) (base : Bytes) (hn : NamesApart Ia Fa Id Fd na base) :
    ProbesAgree Id Fd base fs' fs := by
  intro suffix hsfx tooLong
  obtain ⟨n1, n2⟩ := hn suffix hsfx tooLong
  generalize trashinfoBasename base suffix tooLong = y at n1 n2
  constructor
  · refine (after_some T hA.filesDir hA.infoDir ?_ ?_ ?_ ?_).1
    · rw [pfx_concat]; rintro (h | h)
      · exact ap.srcFiles.2 (h ▸ List.prefix_append _ _)
      · exact ap.srcFiles.1 h
    · rw [pfx_concat]; rintro (h | h)
      · obtain ⟨e1, e2⟩ := concat_eq h
        exact n1 e1.symm e2.symm
      · exact ap.inFiles _ h
    · intro h; exact ap.cross1 (concat_eq h).1
    · intro h
      have hp : FS.parent Sa <+: Sa := dropLast_pfx Sa
      rw [← h] at hp
      exact absurd ((List.prefix_append Fd _).trans hp) ap.srcFiles.2
  · refine (after_some T hA.filesDir hA.infoDir ?_ ?_ ?_ ?_).1
    · rw [pfx_concat]; rintro (h | h)
      · exact ap.srcInfo.2 (h ▸ List.prefix_append _ _)
      · exact ap.srcInfo.1 h
    · rw [pfx_concat]; rintro (h | h)
      · exact ap.cross2 (concat_eq h).1.symm
      · exact ap.inInfo _ h
    · intro h
      obtain ⟨e1, e2⟩ := concat_eq h
      exact n2 e1 e2
    · intro h
      have hp : FS.parent Sa <+: Sa := dropLast_pfx Sa
      rw [← h] at hp
      exact absurd ((List.prefix_append Id _).trans hp) ap.srcInfo.2

/-- After `a` was trashed (any state `fs'` that is `Trashed` from `fs`, same mount table), the core
    run for `d` gives the same result — success under the same name, or the same failure — and
    consumes the same scripted input as on `fs`. -/
theorem core_after_trashed {fs fs' : FS} {Ia Fa Sa Id Fd Sd : CPath} {na ca : Bytes}
    (T : Trashed fs fs' Ia Fa Sa na ca) (hm : fs'.mounts = fs.mounts)
    (hA : Setting fs Ia Fa Sa) (hD : Setting fs Id Fd Sd) (ap : Apart Ia Fa Sa Id Fd Sd)
    (base content : Bytes) (hn : NamesApart Ia Fa Id Fd na base) (st : PutSt) :
    (run noFaults (putCore Id Fd base content (fun _ => .ok Sd) st) { fs := fs' }).1 =
      (run noFaults (putCore Id Fd base content (fun _ => .ok Sd) st) { fs := fs }).1 := by
  have hD' := setting_after T hm hA hD ap
  rw [core_result base content st { fs := fs' } hD', core_result base content st { fs := fs } hD]
  have := persist_congr Id Fd base content persistFuel 0 false st { fs := fs' } { fs := fs }
    (isDirAt_get hD'.infoDir) (isDirAt_get hD.infoDir) (probes_agree_after T hA ap base hn)
  rw [this]

theorem core_independent (fs : FS) (Ia Fa Sa Id Fd Sd : CPath) (ba ca bd cd : Bytes) (st : PutSt)
    (hA : Setting fs Ia Fa Sa) (hD : Setting fs Id Fd Sd) (ap : Apart Ia Fa Sa Id Fd Sd) :
    let ra := run noFaults (putCore Ia Fa ba ca (fun _ => .ok Sa) st) { fs := fs }
    (∀ na, ra.1.1 = .ok na → NamesApart Ia Fa Id Fd na bd) →
    Setting ra.2.fs Id Fd Sd ∧
    (run noFaults (putCore Id Fd bd cd (fun _ => .ok Sd) ra.1.2) { fs := ra.2.fs }).1 =
      (run noFaults (putCore Id Fd bd cd (fun _ => .ok Sd) ra.1.2) { fs := fs }).1 := by
  intro ra hn
  have hm : ra.2.fs.mounts = fs.mounts := C02.run_mounts noFaults _ { fs := fs }
  have cs := core_spec ba ca st { fs := fs } hA
  have hra : ra = ((ra.1.1, ra.1.2), ra.2) := rfl
  rcases cs with ⟨e, _, b, _⟩ | ⟨name, a, _⟩
  · have hfs : ra.2.fs = fs := b
    rw [hfs]; exact ⟨hD, rfl⟩
  · have a' : ra.1.1 = .ok name := a
    rw [a'] at hra
    have T := C01.put_ok_moves_whole fs Ia Fa Sa ba ca st ra.1.2 hA name ra.2 hra
    exact ⟨setting_after T hm hA hD ap, core_after_trashed T hm hA hD ap bd cd (hn name a') ra.1.2⟩

theorem namesApart_of_other_dirs {Ia Fa Id Fd : CPath} (h1 : Fd ≠ Fa) (h2 : Id ≠ Ia) (na base : Bytes) :
    NamesApart Ia Fa Id Fd na base :=
  fun _ _ _ => ⟨fun e => absurd e h1, fun e => absurd e h2⟩

end TrashVerif.Proofs.C16IndepCore
