/-
  Proofs/C13Cmd.lean — proofs of the command-level statements of C13 (Props/C13Cmd.lean): what
  `runRestore` does to the file system for a given reply.
-/
import TrashVerif.Props.C13CmdDefs
import TrashVerif.Proofs.C10Loop
import TrashVerif.Proofs.C02Cmd
import TrashVerif.Proofs.C06
namespace TrashVerif.Proofs.C13Cmd
open TrashVerif Prog FS PutCore PutLemmas C09Hist C13Cmd
open TrashVerif.Proofs.C09Hist (GeoI not_concat_pfx info_ne_dir isFileAt_get)
open TrashVerif.Proofs.C10Loop (keptDir_of_touch keptDir_isDir stem_inj concat_pfx_concat pay_not_pfx_info EP)
open TrashVerif.Proofs.C02Cmd (touched_eq reply_ne_nil)

/-! ### the run of `trash-restore`, in terms of the offered list -/

theorem run_say (φ : Oracle) (o : Out) (s : RunState) : run φ (say o) s = ((), { s with outs := o :: s.outs }) := rfl

/-- the state after the listing was printed -/
def listed (c : ReadCfg) (o : RestoreOpts) (s : RunState) : RunState :=
  { s with outs := (listing (offered s.fs c o)).reverse ++ s.outs }

/-- `runRestore`, case by case -/
theorem runRestore_run (φ : Oracle) (c : ReadCfg) (o : RestoreOpts) (reply : Option Bytes) (s : RunState) :
    run φ (runRestore c o reply) s =
      if offered s.fs c o = [] then
        ({ exit := 0 }, { s with outs := Out.stdout (b "No files trashed from current dir ('" ++ toStr c.cwd ++ b "')") :: s.outs })
      else
        match reply with
        | none => ({ exit := 1 }, { listed c o s with outs := Out.stderr "quit" [] :: (listed c o s).outs })
        | some r =>
          if r = [] then
            ({ exit := 0 }, { listed c o s with outs := Out.stdout (b "No files were restored") :: (listed c o s).outs })
          else
            match parseIndexes r (offered s.fs c o).length with
            | .invalid => ({ exit := 1 }, { listed c o s with outs := Out.stderr "invalid-entry" r :: (listed c o s).outs })
            | .crash => ({ exit := 1, crash := some .typeError },
                { listed c o s with outs := Out.stderr "traceback" r :: (listed c o s).outs })
            | .ok is =>
              match (run φ (restoreMany c.cwd o.overwrite (selected (offered s.fs c o) is)) (listed c o s)).1 with
              | .ok () => ({ exit := 0 }, (run φ (restoreMany c.cwd o.overwrite (selected (offered s.fs c o) is)) (listed c o s)).2)
              | .error _ =>
                ({ exit := 1 },
                 { (run φ (restoreMany c.cwd o.overwrite (selected (offered s.fs c o) is)) (listed c o s)).2 with
                   outs := Out.stderr "die" [] ::
                     (run φ (restoreMany c.cwd o.overwrite (selected (offered s.fs c o) is)) (listed c o s)).2.outs }) := by
  unfold runRestore listed selected listing offered scopeOf
  rw [run_read_bind]
  simp only []
  generalize sortEntries o.sort (List.filter (fun e => inScope (restoreScopeDir (toStr c.cwd) o.path) e.loc)
    (restoreEntries s.fs c o)) = off
  by_cases h0 : off = []
  · rw [if_pos h0, if_pos h0]; rfl
  · rw [if_neg h0, if_neg h0, run_bind, Proofs.C09.emitAll_run]
    cases reply with
    | none => rfl
    | some r =>
      simp only []
      by_cases hr : r = []
      · rw [if_pos hr, if_pos hr]; rfl
      · rw [if_neg hr, if_neg hr]
        cases hp : parseIndexes r off.length with
        | invalid => rfl
        | crash => rfl
        | ok is =>
          simp only []
          rw [run_bind]
          generalize run φ (restoreMany c.cwd o.overwrite (List.filterMap (fun i => off[i]?) is)) _ = q
          obtain ⟨res, s2⟩ := q
          cases res with
          | ok u => cases u; rfl
          | error e => rfl

/-! ### replies that select nothing -/

/-- nothing is offered: one message, exit status 0, no call — whatever the reply -/
theorem nothing_offered (φ : Oracle) (c : ReadCfg) (o : RestoreOpts) (reply : Option Bytes) (s : RunState)
    (h : offered s.fs c o = []) :
    (run φ (runRestore c o reply) s).2.fs = s.fs ∧ (run φ (runRestore c o reply) s).2.trace = s.trace ∧
    (run φ (runRestore c o reply) s).2.hist = s.hist ∧ (run φ (runRestore c o reply) s).2.n = s.n ∧
    (run φ (runRestore c o reply) s).1.exit = 0 ∧ (run φ (runRestore c o reply) s).1.crash = none := by
  rw [runRestore_run, if_pos h]
  exact ⟨rfl, rfl, rfl, rfl, rfl, rfl⟩

theorem eof_reply (φ : Oracle) (c : ReadCfg) (o : RestoreOpts) (s : RunState) :
    (run φ (runRestore c o none) s).2.fs = s.fs ∧ (run φ (runRestore c o none) s).2.trace = s.trace ∧
    (run φ (runRestore c o none) s).2.hist = s.hist ∧ (run φ (runRestore c o none) s).2.n = s.n ∧
    (run φ (runRestore c o none) s).1.exit = (if offered s.fs c o = [] then 0 else 1) ∧
    (run φ (runRestore c o none) s).1.crash = none ∧
    (offered s.fs c o ≠ [] → (run φ (runRestore c o none) s).2.outs =
      Out.stderr "quit" [] :: (listing (offered s.fs c o)).reverse ++ s.outs) := by
  rw [runRestore_run]
  by_cases h : offered s.fs c o = []
  · rw [if_pos h, if_pos h]; exact ⟨rfl, rfl, rfl, rfl, rfl, rfl, fun h' => absurd h h'⟩
  · rw [if_neg h, if_neg h]; exact ⟨rfl, rfl, rfl, rfl, rfl, rfl, fun _ => rfl⟩

theorem empty_reply (φ : Oracle) (c : ReadCfg) (o : RestoreOpts) (s : RunState) :
    (run φ (runRestore c o (some [])) s).2.fs = s.fs ∧ (run φ (runRestore c o (some [])) s).2.trace = s.trace ∧
    (run φ (runRestore c o (some [])) s).2.hist = s.hist ∧ (run φ (runRestore c o (some [])) s).2.n = s.n ∧
    (run φ (runRestore c o (some [])) s).1.exit = 0 ∧ (run φ (runRestore c o (some [])) s).1.crash = none ∧
    (offered s.fs c o ≠ [] → (run φ (runRestore c o (some [])) s).2.outs =
      Out.stdout (b "No files were restored") :: (listing (offered s.fs c o)).reverse ++ s.outs) := by
  rw [runRestore_run]
  by_cases h : offered s.fs c o = []
  · rw [if_pos h]; exact ⟨rfl, rfl, rfl, rfl, rfl, rfl, fun h' => absurd h h'⟩
  · rw [if_neg h]; exact ⟨rfl, rfl, rfl, rfl, rfl, rfl, fun _ => rfl⟩

/-- a reply that is not accepted (`invalid` or `crash`): no call; and, when something was offered and
    the reply is not the empty line, exit status 1 and one message on stderr after the listing -/
theorem invalid_reply (φ : Oracle) (c : ReadCfg) (o : RestoreOpts) (reply : Bytes) (s : RunState)
    (h : ∀ is, parseIndexes reply (offered s.fs c o).length ≠ .ok is) :
    (run φ (runRestore c o (some reply)) s).2.fs = s.fs ∧ (run φ (runRestore c o (some reply)) s).2.trace = s.trace ∧
    (run φ (runRestore c o (some reply)) s).2.hist = s.hist ∧ (run φ (runRestore c o (some reply)) s).2.n = s.n ∧
    (offered s.fs c o ≠ [] → reply ≠ [] →
      (run φ (runRestore c o (some reply)) s).1.exit = 1 ∧
      (run φ (runRestore c o (some reply)) s).1.crash =
        (if parseIndexes reply (offered s.fs c o).length = .crash then some .typeError else none) ∧
      (run φ (runRestore c o (some reply)) s).2.outs =
        Out.stderr (if parseIndexes reply (offered s.fs c o).length = .crash then "traceback" else "invalid-entry") reply ::
          (listing (offered s.fs c o)).reverse ++ s.outs) := by
  rw [runRestore_run]
  by_cases h0 : offered s.fs c o = []
  · rw [if_pos h0]; exact ⟨rfl, rfl, rfl, rfl, fun h' => absurd h0 h'⟩
  · rw [if_neg h0]
    by_cases hr : reply = []
    · simp only [hr, if_true]; exact ⟨rfl, rfl, rfl, rfl, fun _ h' => absurd rfl h'⟩
    · simp only [hr, if_false]
      cases hp : parseIndexes reply (offered s.fs c o).length with
      | ok is => exact absurd hp (h is)
      | invalid => exact ⟨rfl, rfl, rfl, rfl, fun _ _ => ⟨rfl, by simp, by simp [listed]⟩⟩
      | crash => exact ⟨rfl, rfl, rfl, rfl, fun _ _ => ⟨rfl, by simp, by simp [listed]⟩⟩

/-- a line that consists of a newline only — had it not been stripped by `input()` — is not the empty
    reply: it is an invalid entry -/
theorem newline_reply_invalid (n : Nat) : parseIndexes [10] n = .invalid := by
  have : parseItems (Bytes.splitOn 44 [10]) = .error .invalid := by rfl
  unfold parseIndexes; rw [this]

/-! ### geometry of the footprints -/

theorem parent_concat (c : CPath) (x : Name) : parent (c ++ [x]) = c := dropLast_concat c x

theorem parent_pfx (p : CPath) : parent p <+: p := dropLast_pfx p

theorem not_pfx_parent_self {d : CPath} (h : d ≠ []) : ¬ d <+: parent d := by
  intro e
  have := e.length_le
  have hl : d.length ≠ 0 := by simpa using h
  simp [parent] at this; omega

/-- what `Op.ok` says about where the destination of an item lies -/
structure GI (I F : CPath) (it : Item) : Prop where
  isInfo : isTrashinfoName it.name = true
  dI : ¬ it.dst <+: I
  dF : ¬ it.dst <+: F
  Id : ¬ I <+: it.dst
  Fd : ¬ F <+: it.dst
  ne : it.dst ≠ []

theorem gi_of_ok {fs : FS} {I F : CPath} {it : Item} (hi : isTrashinfoName it.name = true)
    (ok : Op.ok fs I F (.restore it.name it.dst)) : GI I F it := by
  obtain ⟨_, _, _, _, hnr, _, _, _, hdI, hdF, hId, hFd⟩ := ok
  rw [under_iff] at hdI hdF hId hFd
  exact ⟨hi, hdI, hdF, hId, hFd, hnr⟩

/-- a child of `X` and a path apart from `X` have no common extension -/
theorem child_vs {X d q : CPath} {x : Name} (hXd : ¬ X <+: d) (hdX : ¬ d <+: X) (h1 : (X ++ [x]) <+: q)
    (h2 : d <+: q) : False := by
  rcases pfx_comparable h1 h2 with h | h
  · exact hXd ((List.prefix_append X [x]).trans h)
  · rcases pfx_concat.1 h with e | e
    · exact hXd (e ▸ List.prefix_append X [x])
    · exact hdX e

theorem apart_symm {a b : Item} (h : Apart a b) : Apart b a := ⟨Ne.symm h.1, h.2.2, h.2.1⟩

theorem apart_of_mem {l : List Item} (h : l.Pairwise Apart) {a b : Item} (ha : a ∈ l) (hb : b ∈ l) :
    a = b ∨ Apart a b := by
  induction l with
  | nil => cases ha
  | cons x xs ih =>
    rw [List.pairwise_cons] at h
    rcases List.mem_cons.1 ha with rfl | ha' <;> rcases List.mem_cons.1 hb with rfl | hb'
    · exact Or.inl rfl
    · exact Or.inr (h.1 b hb')
    · exact Or.inr (apart_symm (h.1 a ha'))
    · exact ih h.2 ha' hb'

section foot
variable {I F : CPath} (g : GeoI I F)
include g

theorem foot_ne_I {it : Item} {q : CPath} (gi : GI I F it) (h : Foot I F it q) : q ≠ I := by
  intro e
  rcases h with h | h | h
  · exact info_ne_dir I it.name (h.symm.trans e)
  · exact g.P_I _ (e ▸ h)
  · exact gi.dI (e ▸ h)

theorem foot_ne_F {it : Item} {q : CPath} (gi : GI I F it) (h : Foot I F it q) : q ≠ F := by
  intro e
  rcases h with h | h | h
  · exact g.F_ne_info it.name (e.symm.trans h)
  · exact not_concat_pfx F _ (e ▸ h)
  · exact gi.dF (e ▸ h)

omit g in
theorem foot_ne_parent {a c : Item} {q : CPath} (gc : GI I F c) (hac : a = c ∨ Apart a c)
    (h : Foot I F a q) : q ≠ parent c.dst := by
  intro e
  have hq : q <+: c.dst := by rw [e]; exact parent_pfx _
  rcases h with h | h | h
  · exact gc.Id ((List.prefix_append I [a.name]).trans (h ▸ hq))
  · exact gc.Fd ((List.prefix_append F [stemOf a.name]).trans (h.trans hq))
  · rcases hac with rfl | hac
    · exact not_pfx_parent_self gc.ne (e ▸ h)
    · exact hac.2.1 (h.trans hq)

theorem foot_disjoint {a c : Item} {q : CPath} (ga : GI I F a) (gc : GI I F c) (hac : Apart a c)
    (h1 : Foot I F a q) (h2 : Foot I F c q) : False := by
  rcases h1 with h1 | h1 | h1 <;> rcases h2 with h2 | h2 | h2
  · exact hac.1 (Proofs.C09.concat_inj (h1.symm.trans h2)).2
  · exact pay_not_pfx_info g _ _ (h1 ▸ h2)
  · exact child_vs gc.Id gc.dI (x := a.name) (by rw [h1]; exact List.prefix_refl _) h2
  · exact pay_not_pfx_info g _ _ (h2 ▸ h1)
  · rcases pfx_comparable h1 h2 with h | h
    · exact hac.1 (stem_inj ga.isInfo gc.isInfo (concat_pfx_concat h))
    · exact hac.1 (stem_inj ga.isInfo gc.isInfo (concat_pfx_concat h).symm)
  · exact child_vs gc.Fd gc.dF h1 h2
  · exact child_vs ga.Id ga.dI (x := c.name) (by rw [h2]; exact List.prefix_refl _) h1
  · exact child_vs ga.Fd ga.dF h2 h1
  · rcases pfx_comparable h1 h2 with h | h
    · exact hac.2.1 h
    · exact hac.2.2 h

end foot

/-! ### one entry restored -/

theorem fresh_eq (o : Option Node) : fresh o = touch o := touched_eq o

/-- the entry `it` was restored, and nothing else happened -/
structure Restored1 (I F : CPath) (it : Item) (fs fs1 : FS) : Prop where
  mounts : fs1.mounts = fs.mounts
  back : ∀ rel, fs1.get (it.dst ++ rel) = fs.get (F ++ [stemOf it.name] ++ rel)
  infoGone : fs1.get (I ++ [it.name]) = none
  payGone : ∀ rel, fs1.get (F ++ [stemOf it.name] ++ rel) = none
  frame : ∀ q, q ≠ I → q ≠ F → ¬ Foot I F it q → q ≠ parent it.dst → fs1.get q = fs.get q
  upTo : ∀ q, ¬ Foot I F it q → fresh (fs1.get q) = fresh (fs.get q)

/-- `restoreCore` on an item that is locally ok (`Op.ok`): it succeeds, and the state it leaves is the
    initial one with exactly that item restored -/
theorem restored1_of_ok {fs : FS} {I F : CPath} {it : Item} (inv : TrashInv fs I F)
    (hinfo : isTrashinfoName it.name = true) (ok : Op.ok fs I F (.restore it.name it.dst))
    (s : RunState) (hs : s.fs = fs) :
    (run noFaults (restoreCore (.ok (F ++ [stemOf it.name])) (.ok it.dst) (.ok (I ++ [it.name]))) s).1 = .ok () ∧
    Restored1 I F it fs
      (run noFaults (restoreCore (.ok (F ++ [stemOf it.name])) (.ok it.dst) (.ok (I ++ [it.name]))) s).2.fs := by
  have g := GeoI.of_inv inv
  have gi := gi_of_ok hinfo ok
  obtain ⟨hfile, hsrc, hnm, hdst, hnr, hlen, hpar, hdev, -⟩ := ok
  unfold payloadOf at hsrc hnm
  obtain ⟨d, m, t, hi⟩ := isFileAt_get hfile
  have hname : ∀ n, it.dst.getLast? = some n → n.length ≤ 255 := by
    intro n hn; rw [hn] at hlen; exact hlen
  have hpa : parent (F ++ [stemOf it.name]) = F := parent_concat _ _
  have hpi : parent (I ++ [it.name]) = I := parent_concat _ _
  have hdev' : fs.dev (parent (F ++ [stemOf it.name])) = fs.dev (parent it.dst) := by rw [hpa]; exact hdev
  have hsd : ¬ F ++ [stemOf it.name] <+: it.dst := fun e => gi.Fd ((List.prefix_append F _).trans e)
  have hIn : I <+: I ++ [it.name] := List.prefix_append I [it.name]
  have hFa : F <+: F ++ [stemOf it.name] := List.prefix_append F _
  -- the touched directories are away from the moved trees
  have I_pd : I ≠ parent it.dst := fun e => gi.Id (e ▸ parent_pfx _)
  have F_pd : F ≠ parent it.dst := fun e => gi.Fd (e ▸ parent_pfx _)
  have pd_d : ¬ it.dst <+: parent it.dst := not_pfx_parent_self gi.ne
  have pd_a : ¬ F ++ [stemOf it.name] <+: parent it.dst := fun e => gi.Fd ((hFa.trans e).trans (parent_pfx _))
  have info_pd : I ++ [it.name] ≠ parent it.dst := fun e => gi.Id (hIn.trans (e ▸ parent_pfx _))
  have info_d : ¬ it.dst <+: I ++ [it.name] := fun e => child_vs gi.Id gi.dI (List.prefix_refl _) e
  have info_a : ¬ F ++ [stemOf it.name] <+: I ++ [it.name] := pay_not_pfx_info g _ _
  have hM : ∀ q, ¬ it.dst <+: q → ¬ F ++ [stemOf it.name] <+: q →
      (moveTree fs (F ++ [stemOf it.name]) it.dst).get q = fs.get q := by
    intro q h1 h2; rw [get_moveTree', if_neg h1, if_neg h2]
  have hi' : (fsC fs (F ++ [stemOf it.name]) it.dst (parent it.dst)).get (I ++ [it.name]) = some (.file d m t) := by
    rw [fsC_get, if_neg info_pd, hpa, if_neg (Ne.symm (g.F_ne_info it.name)), hM _ info_d info_a, hi]
  obtain ⟨na, hna⟩ := Option.isSome_iff_exists.1 hsrc
  obtain ⟨dm, dt, hp⟩ := isDirAt_get hpar
  obtain ⟨r1, r2⟩ := Proofs.C09.restore_spec hdst hna hnm hdev' hnr hname hp hsd hi'
  obtain ⟨k1, k2⟩ := Proofs.C16Indep.run_noFaults_fs
    (restoreCore (.ok (F ++ [stemOf it.name])) (.ok it.dst) (.ok (I ++ [it.name]))) s { fs := fs } hs
  rw [k1, k2, r2]
  refine ⟨r1, ⟨by simp [Proofs.C09.fsR, fsC], fun rel => ?_, ?_, fun rel => ?_, fun q qI qF qfoot qpd => ?_,
    fun q qfoot => ?_⟩⟩
  · -- back
    have hpre : it.dst <+: it.dst ++ rel := List.prefix_append _ _
    rw [Proofs.C09.fsR_get_away (by rw [hpi]; exact fun e => gi.dI (e ▸ hpre)) (fun e => info_d (by rw [← e]; exact hpre))
      (Proofs.C09.append_ne_parent it.dst rel hnr) (by rw [hpa]; exact fun e => gi.dF (e ▸ hpre)),
      get_moveTree', if_pos hpre, List.drop_left]
  · exact Proofs.C09.fsR_get_info (by simp)
  · -- the payload is gone
    have hpre : F ++ [stemOf it.name] <+: F ++ [stemOf it.name] ++ rel := List.prefix_append _ _
    rw [Proofs.C09.fsR_get_away (by rw [hpi]; exact fun e => g.P_I _ (e ▸ hpre)) (fun e => info_a (by rw [← e]; exact hpre))
      (fun e => pd_a (e ▸ hpre)) (by rw [hpa]; exact fun e => not_concat_pfx F _ (e ▸ hpre)),
      get_moveTree', if_neg (fun e => child_vs gi.Fd gi.dF hpre e), if_pos hpre]
  · -- frame
    rw [Proofs.C09.fsR_get_away (by rw [hpi]; exact qI) (fun e => qfoot (Or.inl e)) qpd (by rw [hpa]; exact qF)]
    exact hM q (fun e => qfoot (Or.inr (Or.inr e))) (fun e => qfoot (Or.inr (Or.inl e)))
  · -- up to the mtime of directories
    have q_info : q ≠ I ++ [it.name] := fun e => qfoot (Or.inl e)
    have q_d : ¬ it.dst <+: q := fun e => qfoot (Or.inr (Or.inr e))
    have q_a : ¬ F ++ [stemOf it.name] <+: q := fun e => qfoot (Or.inr (Or.inl e))
    rw [fresh_eq, fresh_eq, Proofs.C09.fsR, get_touchDir, hpi, get_removeNode, if_neg (Ne.symm (info_ne_dir I it.name))]
    by_cases qI : q = I
    · rw [if_pos qI, fsC_get, if_neg I_pd, hpa, if_neg g.I_ne_F, hM I (qI ▸ q_d) (qI ▸ q_a), touch_touch, qI]
    · rw [if_neg qI, get_removeNode, if_neg q_info, fsC_get, hpa]
      by_cases qpd : q = parent it.dst
      · rw [if_pos qpd, if_neg (Ne.symm F_pd), hM _ pd_d pd_a, touch_touch, qpd]
      · rw [if_neg qpd]
        by_cases qF : q = F
        · rw [if_pos qF, hM F (qF ▸ q_d) (qF ▸ q_a), touch_touch, qF]
        · rw [if_neg qF, hM q q_d q_a]

theorem Restored1.other {I F : CPath} (g : GeoI I F) {it d : Item} {fs fs1 : FS} (R : Restored1 I F it fs fs1)
    (gi : GI I F it) (gd : GI I F d) (hap : Apart d it) {q : CPath} (hq : Foot I F d q) : fs1.get q = fs.get q :=
  R.frame q (foot_ne_I g gd hq) (foot_ne_F g gd hq) (fun h => foot_disjoint g gd gi hap hq h)
    (foot_ne_parent gi (Or.inr hap) hq)

/-! ### `Reach`, `RestoredExactly`: composition -/

theorem reach_refl (I F : CPath) (items : List Item) (fs : FS) : Reach I F items fs fs :=
  ⟨rfl, fun _ _ _ _ => rfl, fun _ _ => rfl⟩

theorem reach_trans {I F : CPath} {items : List Item} {a c d : FS} (h1 : Reach I F items a c)
    (h2 : Reach I F items c d) : Reach I F items a d :=
  ⟨h2.mounts.trans h1.mounts, fun q x y z => (h2.same q x y z).trans (h1.same q x y z),
   fun q x => (h2.upToMtime q x).trans (h1.upToMtime q x)⟩

theorem reach_mono {I F : CPath} {items items' : List Item} {a c : FS} (h : Reach I F items a c)
    (hsub : ∀ x ∈ items, x ∈ items') : Reach I F items' a c :=
  ⟨h.mounts, fun q x y z => h.same q x y fun it hit => z it (hsub it hit),
   fun q z => h.upToMtime q fun it hit => z it (hsub it hit)⟩

theorem Restored1.reach {I F : CPath} {it : Item} {fs fs1 : FS} (R : Restored1 I F it fs fs1) :
    Reach I F [it] fs fs1 :=
  ⟨R.mounts, fun q x y z => R.frame q x y (z it List.mem_cons_self).1 (z it List.mem_cons_self).2,
   fun q z => R.upTo q (z it List.mem_cons_self)⟩

theorem reach_of_restored {I F : CPath} {D : List Item} {fs fs' : FS} (P : RestoredExactly fs fs' I F D) :
    Reach I F D fs fs' := ⟨P.mounts, P.frame, P.upToMtime⟩

theorem keptDir_of_fresh {fs fs' : FS} {q : CPath} (h : fresh (fs'.get q) = fresh (fs.get q)) : keptDir fs fs' q :=
  keptDir_of_touch (by rw [← fresh_eq, ← fresh_eq]; exact h)

theorem restored_nil (fs : FS) (I F : CPath) : RestoredExactly fs fs I F [] :=
  ⟨(fun _ h => nomatch h), (fun _ h => nomatch h), (fun _ h => nomatch h), fun _ _ _ _ => rfl, fun _ _ => rfl, rfl,
   fun _ => rfl⟩

theorem restored_cons {I F : CPath} (g : GeoI I F) {it : Item} {D : List Item} {fs fs1 fs2 : FS}
    (gi : GI I F it) (hD : ∀ d ∈ D, GI I F d ∧ Apart it d)
    (R : Restored1 I F it fs fs1) (P : RestoredExactly fs1 fs2 I F D) : RestoredExactly fs fs2 I F (it :: D) := by
  have keep : ∀ q, Foot I F it q → fs2.get q = fs1.get q := fun q hq =>
    P.frame q (foot_ne_I g gi hq) (foot_ne_F g gi hq) fun d hd =>
      ⟨fun h => foot_disjoint g gi (hD d hd).1 (hD d hd).2 hq h, foot_ne_parent (hD d hd).1 (Or.inr (hD d hd).2) hq⟩
  have other : ∀ d ∈ D, ∀ q, Foot I F d q → fs1.get q = fs.get q := fun d hd q hq =>
    R.other g gi (hD d hd).1 (apart_symm (hD d hd).2) hq
  refine ⟨fun m hm rel => ?_, fun m hm => ?_, fun m hm rel => ?_, fun q hI hF hall => ?_, fun q hall => ?_,
    P.mounts.trans R.mounts, fun h => nomatch h⟩
  · rcases List.mem_cons.1 hm with rfl | hm
    · rw [keep _ (Or.inr (Or.inr (List.prefix_append _ _)))]; exact R.back rel
    · rw [P.back m hm rel]; exact other m hm _ (Or.inr (Or.inl (List.prefix_append _ _)))
  · rcases List.mem_cons.1 hm with rfl | hm
    · rw [keep _ (Or.inl rfl)]; exact R.infoGone
    · exact P.infoGone m hm
  · rcases List.mem_cons.1 hm with rfl | hm
    · rw [keep _ (Or.inr (Or.inl (List.prefix_append _ _)))]; exact R.payGone rel
    · exact P.payloadGone m hm rel
  · rw [P.frame q hI hF fun d hd => hall d (List.mem_cons_of_mem _ hd)]
    exact R.frame q hI hF (hall it List.mem_cons_self).1 (hall it List.mem_cons_self).2
  · rw [P.upToMtime q fun d hd => hall d (List.mem_cons_of_mem _ hd)]
    exact R.upTo q (hall it List.mem_cons_self)

/-! ### `restoreOne` on resolved strings -/

/-- when the four strings resolve, the destination is free and its parent is a directory,
    `Restorer.restore_trashed_file` — with or without `--overwrite` — issues no call of its own and
    continues as `restoreCore` on the resolved paths: the runs are EQUAL (any oracle) -/
theorem restoreOne_resolved (φ : Oracle) (cwd : CPath) (ov : Bool) (e : Entry) (s : RunState) {dst info pay : CPath}
    (h1 : resolve s.fs cwd e.loc = .ok dst) (h2 : resolve s.fs cwd (dirname e.loc) true = .ok (parent dst))
    (h3 : resolve s.fs cwd e.info = .ok info) (h4 : resolve s.fs cwd (pathOfBackupCopy e.info) = .ok pay)
    (hfree : s.fs.get dst = none) (hpar : s.fs.isDirAt (parent dst) = true) :
    run φ (restoreOne cwd ov e) s = run φ (restoreCore (.ok pay) (.ok dst) (.ok info)) s := by
  have hlex : pLexists s.fs cwd e.loc = false := by
    unfold pLexists lstat; simp only [h1, hfree]; rfl
  have hdir : pIsdir s.fs cwd (dirname e.loc) = true := by
    obtain ⟨m, t, hg⟩ := isDirAt_get hpar
    unfold pIsdir stat
    simp only [h2, hg]; rfl
  unfold restoreOne
  simp only [run_bind, run_pure, run_read, hlex, Bool.false_eq_true, and_false, false_and, if_false, hdir, if_true,
    h1, h3, h4]

/-! ### the setting is kept by a step -/

theorem rsetting_gi {fs : FS} {cwd I F : CPath} {items : List Item} (S : RSetting fs cwd I F items) {it : Item}
    (h : it ∈ items) : GI I F it := gi_of_ok (S.isInfo it h) (S.ok it h)

theorem not_foot_I {I F : CPath} (g : GeoI I F) {it : Item} (gi : GI I F it) : ¬ Foot I F it I :=
  fun h => foot_ne_I g gi h rfl
theorem not_foot_F {I F : CPath} (g : GeoI I F) {it : Item} (gi : GI I F it) : ¬ Foot I F it F :=
  fun h => foot_ne_F g gi h rfl
theorem not_foot_parent {I F : CPath} {a c : Item} (gc : GI I F c) (hac : a = c ∨ Apart a c) :
    ¬ Foot I F a (parent c.dst) := fun h => foot_ne_parent gc hac h rfl

theorem rsetting_step {fs fs1 : FS} {cwd I F : CPath} {it : Item} {rest : List Item}
    (S : RSetting fs cwd I F (it :: rest)) (R : Restored1 I F it fs fs1) : RSetting fs1 cwd I F rest := by
  have g := GeoI.of_inv S.inv
  have gi := rsetting_gi S List.mem_cons_self
  have hap := List.pairwise_cons.1 S.apart
  refine ⟨⟨keptDir_isDir (keptDir_of_fresh (R.upTo I (not_foot_I g gi))) S.inv.infoDir,
      keptDir_isDir (keptDir_of_fresh (R.upTo F (not_foot_F g gi))) S.inv.filesDir, S.inv.apartIF, S.inv.apartFI⟩,
    fun d hd => S.isInfo d (List.mem_cons_of_mem _ hd), fun d hd => ?_, hap.2, fun fs' hR d hd => ?_⟩
  · have gd := rsetting_gi S (List.mem_cons_of_mem _ hd)
    have had : Apart d it := apart_symm (hap.1 d hd)
    have same : ∀ q, Foot I F d q → fs1.get q = fs.get q := fun q hq => R.other g gi gd had hq
    obtain ⟨hfile, hsrc, hnm, hdst, hnr, hlen, hpar, hdev, hout⟩ := S.ok d (List.mem_cons_of_mem _ hd)
    refine ⟨?_, ?_, ?_, ?_, hnr, hlen, ?_, ?_, hout⟩
    · unfold isFileAt at hfile ⊢; rw [same _ (Or.inl rfl)]; exact hfile
    · unfold payloadOf at hsrc ⊢; rw [same _ (Or.inr (Or.inl (List.prefix_refl _)))]; exact hsrc
    · rw [isMount_congr R.mounts]; exact hnm
    · rw [same _ (Or.inr (Or.inr (List.prefix_refl _)))]; exact hdst
    · exact keptDir_isDir (keptDir_of_fresh (R.upTo _ (not_foot_parent gd (Or.inr (apart_symm had))))) hpar
    · rw [dev_congr R.mounts, dev_congr R.mounts]; exact hdev
  · exact S.resolves fs' (reach_trans (reach_mono R.reach (by simp)) (reach_mono hR fun x hx => List.mem_cons_of_mem _ hx))
      d (List.mem_cons_of_mem _ hd)

/-! ### the loop -/

theorem restoreMany_loop (cwd : CPath) (ov : Bool) (I F : CPath) :
    ∀ (items : List Item) (s : RunState), RSetting s.fs cwd I F items →
      (run noFaults (restoreMany cwd ov (items.map (·.e))) s).1 = .ok () ∧
      RestoredExactly s.fs (run noFaults (restoreMany cwd ov (items.map (·.e))) s).2.fs I F items := by
  intro items
  induction items with
  | nil => intro s _; exact ⟨rfl, restored_nil _ _ _⟩
  | cons it rest ih =>
    intro s S
    have g := GeoI.of_inv S.inv
    have hmem : it ∈ it :: rest := List.mem_cons_self
    have gi := rsetting_gi S hmem
    have hap := List.pairwise_cons.1 S.apart
    obtain ⟨r1, r2, r3, r4⟩ := S.resolves s.fs (reach_refl _ _ _ _) it hmem
    have ok := S.ok it hmem
    have hone := restoreOne_resolved noFaults cwd ov it.e s r1 r2 r3 r4 ok.2.2.2.1 ok.2.2.2.2.2.2.1
    obtain ⟨hok, R⟩ := restored1_of_ok S.inv (S.isInfo it hmem) ok s rfl
    rw [← hone] at hok R
    show (run noFaults (restoreMany cwd ov (it.e :: rest.map (·.e))) s).1 = .ok () ∧
      RestoredExactly s.fs (run noFaults (restoreMany cwd ov (it.e :: rest.map (·.e))) s).2.fs I F _
    rw [restoreMany, run_bind, hok]
    simp only []
    obtain ⟨a, P⟩ := ih _ (rsetting_step S R)
    exact ⟨a, restored_cons g gi (fun d hd => ⟨rsetting_gi S (List.mem_cons_of_mem _ hd), hap.1 d hd⟩) R P⟩

/-- the loop over a list that continues after the part `a` -/
theorem restoreMany_append (φ : Oracle) (cwd : CPath) (ov : Bool) : ∀ (a c : List Entry) (s : RunState),
    run φ (restoreMany cwd ov (a ++ c)) s =
      match (run φ (restoreMany cwd ov a) s).1 with
      | .ok () => run φ (restoreMany cwd ov c) (run φ (restoreMany cwd ov a) s).2
      | .error _ => run φ (restoreMany cwd ov a) s := by
  intro a
  induction a with
  | nil => intro c s; rfl
  | cons e a ih =>
    intro c s
    rw [List.cons_append, restoreMany, restoreMany, run_bind, run_bind]
    cases h : (run φ (restoreOne cwd ov e) s).1 with
    | error er => rfl
    | ok u => cases u; exact ih c _

/-! ### the command -/

theorem selected_nil (idxs : List Nat) : selected [] idxs = [] := by
  unfold selected
  simp

theorem restore_selects_exactly (fs : FS) (c : ReadCfg) (o : RestoreOpts) (reply : Bytes) (I F : CPath)
    (idxs : List Nat) (sel : List Item)
    (hreply : parseIndexes reply (offered fs c o).length = .ok idxs)
    (hsel : selected (offered fs c o) idxs = sel.map (·.e))
    (S : RSetting fs c.cwd I F sel) :
    (run noFaults (runRestore c o (some reply)) { fs := fs }).1.exit = 0 ∧
    (run noFaults (runRestore c o (some reply)) { fs := fs }).1.crash = none ∧
    RestoredExactly fs (run noFaults (runRestore c o (some reply)) { fs := fs }).2.fs I F sel := by
  rw [runRestore_run]
  by_cases h0 : offered fs c o = []
  · rw [if_pos h0]
    rw [h0, selected_nil] at hsel
    have : sel = [] := List.map_eq_nil_iff.1 hsel.symm
    subst this
    exact ⟨rfl, rfl, restored_nil _ _ _⟩
  · rw [if_neg h0]
    simp only [if_neg (reply_ne_nil hreply), hreply, hsel]
    obtain ⟨a, P⟩ := restoreMany_loop c.cwd o.overwrite I F sel (listed c o { fs := fs }) S
    rw [a]
    exact ⟨rfl, rfl, P⟩

/-- the run stops at the entry `ek` when restoring it fails without changing the file system -/
theorem runRestore_stops (fs : FS) (c : ReadCfg) (o : RestoreOpts) (reply : Bytes) (I F : CPath)
    (idxs : List Nat) (pre : List Item) (ek : Entry) (post : List Entry)
    (hreply : parseIndexes reply (offered fs c o).length = .ok idxs)
    (hsel : selected (offered fs c o) idxs = pre.map (·.e) ++ ek :: post)
    (S : RSetting fs c.cwd I F pre)
    (hfail : ∀ s1 : RunState, RestoredExactly fs s1.fs I F pre →
      (∃ er, (run noFaults (restoreOne c.cwd o.overwrite ek) s1).1 = .error er) ∧
      (run noFaults (restoreOne c.cwd o.overwrite ek) s1).2.fs = s1.fs) :
    (run noFaults (runRestore c o (some reply)) { fs := fs }).1.exit = 1 ∧
    (run noFaults (runRestore c o (some reply)) { fs := fs }).1.crash = none ∧
    RestoredExactly fs (run noFaults (runRestore c o (some reply)) { fs := fs }).2.fs I F pre ∧
    Out.stderr "die" [] ∈ (run noFaults (runRestore c o (some reply)) { fs := fs }).2.outs := by
  rw [runRestore_run]
  have h0 : offered fs c o ≠ [] := by
    intro h0
    rw [h0, selected_nil] at hsel
    have := congrArg List.length hsel
    simp at this
  rw [if_neg h0]
  simp only [if_neg (reply_ne_nil hreply), hreply, hsel]
  obtain ⟨a, P⟩ := restoreMany_loop c.cwd o.overwrite I F pre (listed c o { fs := fs }) S
  rw [restoreMany_append, a]
  simp only []
  obtain ⟨⟨er, h1⟩, h2⟩ := hfail _ P
  have hrun : run noFaults (restoreMany c.cwd o.overwrite (ek :: post))
      (run noFaults (restoreMany c.cwd o.overwrite (pre.map (·.e))) (listed c o { fs := fs })).2 =
      (.error er, (run noFaults (restoreOne c.cwd o.overwrite ek)
        (run noFaults (restoreMany c.cwd o.overwrite (pre.map (·.e))) (listed c o { fs := fs })).2).2) := by
    rw [restoreMany, run_bind, h1]; rfl
  rw [hrun]
  refine ⟨rfl, rfl, ?_, List.mem_cons_self⟩
  show RestoredExactly fs (run noFaults (restoreOne c.cwd o.overwrite ek) _).2.fs I F pre
  rw [h2]
  exact P

theorem restore_stops_at_first_refusal_cmd (fs : FS) (c : ReadCfg) (o : RestoreOpts) (reply : Bytes) (I F : CPath)
    (idxs : List Nat) (pre : List Item) (ek : Entry) (post : List Entry)
    (hov : o.overwrite = false)
    (hreply : parseIndexes reply (offered fs c o).length = .ok idxs)
    (hsel : selected (offered fs c o) idxs = pre.map (·.e) ++ ek :: post)
    (S : RSetting fs c.cwd I F pre)
    (hk : ∀ fs', RestoredExactly fs fs' I F pre → pLexists fs' c.cwd ek.loc = true) :
    (run noFaults (runRestore c o (some reply)) { fs := fs }).1.exit = 1 ∧
    (run noFaults (runRestore c o (some reply)) { fs := fs }).1.crash = none ∧
    RestoredExactly fs (run noFaults (runRestore c o (some reply)) { fs := fs }).2.fs I F pre ∧
    Out.stderr "die" [] ∈ (run noFaults (runRestore c o (some reply)) { fs := fs }).2.outs := by
  refine runRestore_stops fs c o reply I F idxs pre ek post hreply hsel S fun s1 P => ?_
  rw [hov]
  obtain ⟨a, _, d⟩ := Proofs.C06.restore_refuses_existing noFaults c.cwd ek s1 (hk _ P)
  exact ⟨⟨_, a⟩, d⟩

theorem upTo_isDir {fs fs' : FS} {q : CPath} (h : fresh (fs'.get q) = fresh (fs.get q)) (hd : fs.isDirAt q = true) :
    fs'.isDirAt q = true := keptDir_isDir (keptDir_of_fresh h) hd

theorem restore_same_index_twice (fs : FS) (c : ReadCfg) (o : RestoreOpts) (reply : Bytes) (I F : CPath)
    (idxs : List Nat) (pre : List Item) (it : Item) (post : List Entry)
    (hreply : parseIndexes reply (offered fs c o).length = .ok idxs)
    (hsel : selected (offered fs c o) idxs = pre.map (·.e) ++ it.e :: post)
    (S : RSetting fs c.cwd I F pre) (hit : it ∈ pre) :
    (run noFaults (runRestore c o (some reply)) { fs := fs }).1.exit = 1 ∧
    (run noFaults (runRestore c o (some reply)) { fs := fs }).1.crash = none ∧
    RestoredExactly fs (run noFaults (runRestore c o (some reply)) { fs := fs }).2.fs I F pre ∧
    Out.stderr "die" [] ∈ (run noFaults (runRestore c o (some reply)) { fs := fs }).2.outs := by
  refine runRestore_stops fs c o reply I F idxs pre it.e post hreply hsel S fun s1 P => ?_
  obtain ⟨r1, r2, _, r4⟩ := S.resolves s1.fs (reach_of_restored P) it hit
  have ok := S.ok it hit
  cases hov : o.overwrite with
  | false =>
    have hex : pLexists s1.fs c.cwd it.e.loc = true := by
      have hb := P.back it hit []
      rw [List.append_nil, List.append_nil] at hb
      unfold pLexists lstat
      simp only [r1, hb]
      exact ok.2.1
    obtain ⟨a, _, d⟩ := Proofs.C06.restore_refuses_existing noFaults c.cwd it.e s1 hex
    exact ⟨⟨_, a⟩, d⟩
  | true =>
    have gi := rsetting_gi S hit
    have hpd : s1.fs.isDirAt (parent it.dst) = true :=
      upTo_isDir (P.upToMtime _ fun d hd => not_foot_parent gi ((apart_of_mem S.apart hd hit).imp id id)) ok.2.2.2.2.2.2.1
    have hpar : pIsdir s1.fs c.cwd (dirname it.e.loc) = true := by
      obtain ⟨m, t, hg⟩ := isDirAt_get hpd
      unfold pIsdir stat
      simp only [r2, hg]; rfl
    have hpay : pLexists s1.fs c.cwd (pathOfBackupCopy it.e.info) = false := by
      have hb := P.payloadGone it hit []
      rw [List.append_nil] at hb
      unfold pLexists lstat
      simp only [r4, hb]; rfl
    exact Proofs.C06.overwrite_keeps_destination_when_payload_missing noFaults c.cwd it.e s1 hpar hpay

/-! ### what is not selected stays -/

/-- an entry of the trash directory that is not among the restored ones is intact: its info file and
    its whole payload -/
theorem restored_other {I F : CPath} (g : GeoI I F) {D : List Item} {fs fs' : FS} (P : RestoredExactly fs fs' I F D)
    (hD : ∀ d ∈ D, GI I F d) {m : Bytes} (hm : isTrashinfoName m = true) (hmD : ∀ d ∈ D, d.name ≠ m) :
    (∀ rel, fs'.get (I ++ [m] ++ rel) = fs.get (I ++ [m] ++ rel)) ∧
    (∀ rel, fs'.get (F ++ [stemOf m] ++ rel) = fs.get (F ++ [stemOf m] ++ rel)) := by
  have key : ∀ q, EP I F m q → fs'.get q = fs.get q := by
    intro q hq
    refine P.frame q (EP.ne_I g hq) (EP.ne_F g hq) fun d hd => ⟨fun hf => ?_, fun e => ?_⟩
    · have gd := hD d hd
      rcases hf with hf | hf | hf
      · exact EP.disjoint g hm gd.isInfo (Ne.symm (hmD d hd)) hq (Or.inl (hf ▸ List.prefix_refl _))
      · exact EP.disjoint g hm gd.isInfo (Ne.symm (hmD d hd)) hq (Or.inr hf)
      · rcases hq with hq | hq
        · exact child_vs gd.Id gd.dI hq hf
        · exact child_vs gd.Fd gd.dF hq hf
    · have gd := hD d hd
      have hqd : q <+: d.dst := e ▸ parent_pfx _
      rcases hq with hq | hq
      · exact gd.Id (((List.prefix_append I [m]).trans hq).trans hqd)
      · exact gd.Fd (((List.prefix_append F [stemOf m]).trans hq).trans hqd)
  exact ⟨fun rel => key _ (EP.info I F m rel), fun rel => key _ (EP.payload I F m rel)⟩

/-- nothing outside the trash directory changes, except at or below the destinations and the
    mtimes of their parent directories -/
theorem restored_outside {I F : CPath} {D : List Item} {fs fs' : FS} (P : RestoredExactly fs fs' I F D) (q : CPath)
    (hq : Outside I F q) (hd : ∀ d ∈ D, ¬ d.dst <+: q ∧ q ≠ FS.parent d.dst) : fs'.get q = fs.get q := by
  obtain ⟨h1, h2, h3, h4⟩ := hq
  rw [under_iff] at h1 h2 h3 h4
  refine P.frame q (fun e => h1 (e ▸ List.prefix_refl _)) (fun e => h2 (e ▸ List.prefix_refl _)) fun d hdm => ⟨fun hf => ?_, (hd d hdm).2⟩
  rcases hf with hf | hf | hf
  · exact h3 (hf ▸ List.prefix_append I [d.name])
  · exact h4 ((List.prefix_append F [stemOf d.name]).trans hf)
  · exact (hd d hdm).1 hf

/-- the touched directories are still the directories they were -/
theorem restored_dirs {fs fs' : FS} {cwd I F : CPath} {D : List Item} (S : RSetting fs cwd I F D)
    (P : RestoredExactly fs fs' I F D) :
    keptDir fs fs' I ∧ keptDir fs fs' F ∧ ∀ d ∈ D, keptDir fs fs' (FS.parent d.dst) := by
  have g := GeoI.of_inv S.inv
  refine ⟨keptDir_of_fresh (P.upToMtime I fun d hd => not_foot_I g (rsetting_gi S hd)),
    keptDir_of_fresh (P.upToMtime F fun d hd => not_foot_F g (rsetting_gi S hd)), fun d hd => ?_⟩
  exact keptDir_of_fresh (P.upToMtime _ fun d' hd' => not_foot_parent (rsetting_gi S hd) (apart_of_mem S.apart hd' hd))

/-! ### the resolved layer discharged: canonical spellings -/

section plain
open TrashVerif.Proofs.C07 (Plain GoodNames toStr_ne body_last dirname_toStr resolve_plain_fl)
open TrashVerif.Proofs.C16IndepHome (resolve_leaf pjoin_toStr goodNames_append good_info good_files)
open TrashVerif.Proofs.C10Loop (good_name head_ne_slash stemOf_append)

theorem plain_reach {I F : CPath} {items : List Item} {fs fs' : FS} (hR : Reach I F items fs fs') {Q : CPath}
    (hp : Plain fs Q) (hfree : ∀ q, q <+: Q → ∀ it ∈ items, ¬ Foot I F it q) : Plain fs' Q :=
  fun q hq => upTo_isDir (hR.upToMtime q (hfree q hq)) (hp q hq)

/-- no footprint reaches a directory on the way to the parent of a destination -/
theorem foot_not_above {I F : CPath} {a c : Item} {q : CPath} (gc : GI I F c) (hac : a = c ∨ Apart a c)
    (h : Foot I F a q) (hq : q <+: parent c.dst) : False := by
  have hq' : q <+: c.dst := hq.trans (parent_pfx _)
  rcases h with h | h | h
  · exact gc.Id ((List.prefix_append I [a.name]).trans (h ▸ hq'))
  · exact gc.Fd ((List.prefix_append F [stemOf a.name]).trans (h.trans hq'))
  · rcases hac with rfl | hac
    · exact not_pfx_parent_self gc.ne (h.trans hq)
    · exact hac.2.1 (h.trans hq')

/-- the strings of an entry of the trash directory with canonical path `T`, given by its spelling -/
theorem plain_strings {T : CPath} (hT0 : T ≠ []) (hTn : GoodNames T) {n : Bytes} (hi : isTrashinfoName n = true)
    (hs : slash ∉ n) (hl : n.length ≤ 255) :
    C10Loop.infoStr (toStr T) n = toStr (T ++ [b "info"] ++ [n]) ∧
    pathOfBackupCopy (C10Loop.infoStr (toStr T) n) = toStr (T ++ [b "files"] ++ [stemOf n]) ∧
    GoodNames (T ++ [b "info"] ++ [n]) ∧ GoodNames (T ++ [b "files"] ++ [stemOf n]) := by
  have gI : GoodNames (T ++ [b "info"]) := goodNames_append hTn good_info
  have gF : GoodNames (T ++ [b "files"]) := goodNames_append hTn good_files
  obtain ⟨w, x, hw, hx⟩ := body_last hT0 hTn
  have hTstr : toStr T = w ++ [x] := by rw [toStr_ne hT0, hw]
  obtain ⟨gn, gs⟩ := good_name hi hs hl
  have e1 : C10Loop.infoStr (toStr T) n = toStr (T ++ [b "info"] ++ [n]) := by
    unfold C10Loop.infoStr
    rw [pjoin_toStr hT0 hTn _ (by decide +kernel), pjoin_toStr (by simp) gI n (head_ne_slash gn)]
  have e2 : pathOfBackupCopy (C10Loop.infoStr (toStr T) n) = toStr (T ++ [b "files"] ++ [stemOf n]) := by
    obtain ⟨st, hst, h1, _, _⟩ := Proofs.C11.trashinfo_name_stem n hi
    have hss : slash ∉ st := fun h => hs (hst ▸ List.mem_append_left _ h)
    unfold C10Loop.infoStr
    rw [hst, stemOf_append, Proofs.C11.backup_path_under_files (toStr T) st
      ⟨by rw [hTstr]; simp, by rw [hTstr]; simpa using hx⟩ ⟨h1, hss⟩, pjoin_toStr hT0 hTn _ (by decide +kernel)]
    rw [hst, stemOf_append] at gs
    exact pjoin_toStr (by simp) gF st (head_ne_slash gs)
  exact ⟨e1, e2, goodNames_append gI gn, goodNames_append gF gs⟩

theorem plain_rsetting (fs : FS) (cwd T : CPath) (items : List Item)
    (hT0 : T ≠ []) (hTn : GoodNames T)
    (hI : Plain fs (T ++ [b "info"])) (hF : Plain fs (T ++ [b "files"]))
    (isInfo : ∀ it ∈ items, isTrashinfoName it.name = true)
    (good : ∀ it ∈ items, slash ∉ it.name ∧ it.name.length ≤ 255)
    (hinfo : ∀ it ∈ items, it.e.info = C10Loop.infoStr (toStr T) it.name)
    (hloc : ∀ it ∈ items, it.e.loc = toStr it.dst)
    (hdst : ∀ it ∈ items, GoodNames it.dst ∧ Plain fs (FS.parent it.dst))
    (ok : ∀ it ∈ items, Op.ok fs (T ++ [b "info"]) (T ++ [b "files"]) (.restore it.name it.dst))
    (apart : items.Pairwise Apart) :
    RSetting fs cwd (T ++ [b "info"]) (T ++ [b "files"]) items := by
  have hne : b "info" ≠ b "files" := by decide +kernel
  have inv : TrashInv fs (T ++ [b "info"]) (T ++ [b "files"]) := by
    refine ⟨hI _ List.prefix_rfl, hF _ List.prefix_rfl, fun h => ?_, fun h => ?_⟩
    · rcases pfx_concat.1 ((under_iff _ _).1 h) with e | e
      · exact hne (Proofs.C09.concat_inj e).2
      · exact not_concat_pfx T _ e
    · rcases pfx_concat.1 ((under_iff _ _).1 h) with e | e
      · exact hne (Proofs.C09.concat_inj e).2.symm
      · exact not_concat_pfx T _ e
  have g := GeoI.of_inv inv
  have gis : ∀ it ∈ items, GI (T ++ [b "info"]) (T ++ [b "files"]) it := fun it h => gi_of_ok (isInfo it h) (ok it h)
  refine ⟨inv, isInfo, ok, apart, fun fs' hR it hit => ?_⟩
  have gi := gis it hit
  obtain ⟨e1, e2, gnI, gnF⟩ := plain_strings hT0 hTn (isInfo it hit) (good it hit).1 (good it hit).2
  have hI' : Plain fs' (T ++ [b "info"]) := plain_reach hR hI fun q hq d hd hf => by
    rcases hf with hf | hf | hf
    · exact not_concat_pfx _ d.name (hf ▸ hq)
    · exact g.P_I _ (hf.trans hq)
    · exact (gis d hd).dI (hf.trans hq)
  have hF' : Plain fs' (T ++ [b "files"]) := plain_reach hR hF fun q hq d hd hf => by
    rcases hf with hf | hf | hf
    · exact g.hIF ((List.prefix_append _ [d.name]).trans (hf ▸ hq))
    · exact not_concat_pfx _ _ (hf.trans hq)
    · exact (gis d hd).dF (hf.trans hq)
  have hP' : Plain fs' (parent it.dst) := plain_reach hR (hdst it hit).2 fun q hq d hd hf =>
    foot_not_above gi (apart_of_mem apart hd hit) hf hq
  obtain ⟨P, x, hPx⟩ := Proofs.C09.snoc_of_ne_nil gi.ne
  have gn : GoodNames (P ++ [x]) := hPx ▸ (hdst it hit).1
  have hP'' : Plain fs' P := by rw [hPx, parent_concat] at hP'; exact hP'
  rw [hloc it hit, hinfo it hit, e2, e1, hPx, parent_concat]
  exact ⟨resolve_leaf fs' cwd P x hP'' gn, by rw [dirname_toStr P x gn]; exact resolve_plain_fl fs' cwd P true hP'' gn.left,
    resolve_leaf fs' cwd _ _ hI' gnI, resolve_leaf fs' cwd _ _ hF' gnF⟩

end plain

/-! ### sub-selections, and what stays in every reachable state -/

theorem rsetting_sub {fs : FS} {cwd I F : CPath} {items sub : List Item} (S : RSetting fs cwd I F items)
    (h : sub.Sublist items) : RSetting fs cwd I F sub :=
  ⟨S.inv, fun it hit => S.isInfo it (h.subset hit), fun it hit => S.ok it (h.subset hit), S.apart.sublist h,
   fun fs' hR it hit => S.resolves fs' (reach_mono hR fun _ hx => h.subset hx) it (h.subset hit)⟩

theorem fresh_isSome {o o' : Option Node} (h : fresh o' = fresh o) : o'.isSome = o.isSome := by
  rw [fresh_eq, fresh_eq] at h
  rw [← Proofs.C09Hist.touch_isSome o', h, Proofs.C09Hist.touch_isSome]

section stays
open TrashVerif.Proofs.C07 (Plain GoodNames)
open TrashVerif.Proofs.C16IndepHome (resolve_leaf)

/-- what exists outside the footprints, at a canonical spelling whose way is outside them too, exists
    in every reachable state (discharges the hypothesis of `restore_stops_at_first_refusal_cmd`) -/
theorem lexists_stays {I F : CPath} {items : List Item} {fs fs' : FS} (hR : Reach I F items fs fs') (cwd : CPath)
    {P : CPath} {x : Name} (hp : Plain fs P) (gn : GoodNames (P ++ [x])) (hsome : (fs.get (P ++ [x])).isSome = true)
    (hfree : ∀ q, q <+: P ++ [x] → ∀ it ∈ items, ¬ Foot I F it q) :
    pLexists fs' cwd (toStr (P ++ [x])) = true := by
  have hp' : Plain fs' P := plain_reach hR hp fun q hq => hfree q (hq.trans (List.prefix_append _ _))
  unfold pLexists lstat
  rw [resolve_leaf fs' cwd P x hp' gn]
  simp only []
  rw [fresh_isSome (hR.upToMtime _ (hfree _ (List.prefix_refl _)))]
  exact hsome

end stays

/-- "not accepted" in the words of the reply grammar of Spec/C13.lean -/
theorem not_accepted_iff (r : Bytes) (n : Nat) :
    (∀ is, parseIndexes r n ≠ .ok is) ↔ ¬ ∃ is, C13.Denotes r is ∧ ∀ i ∈ is, i < n := by
  constructor
  · rintro h ⟨is, hd⟩; exact h is ((Proofs.C13.parseIndexes_iff r n is).2 hd)
  · intro h is e; exact h ⟨is, (Proofs.C13.parseIndexes_iff r n is).1 e⟩

/-! ### what the scan yields -/

/-- every entry the scan of one trash directory yields comes from a listed `*.trashinfo` name: its
    info path is the string the readers join for that name, its location and date are read from
    that file's text -/
theorem scanned_entry_shape (fs : FS) (cwd : CPath) (t v : Bytes) (e : Entry) (h : e ∈ restoreEntriesOf fs cwd t v) :
    ∃ n text rel, isTrashinfoName n = true ∧ e.info = C10Loop.infoStr t n ∧
      contentsOf fs cwd e.info = some text ∧ parsePath text = some rel ∧ e.loc = pjoin v rel ∧
      e.date = parseDeletionDate text := by
  unfold restoreEntriesOf at h
  simp only [] at h
  split at h
  · cases h
  · next ns _ =>
    obtain ⟨n, hn, he⟩ := List.mem_filterMap.1 h
    have hi : isTrashinfoName n = true := (List.mem_filter.1 hn).2
    split at he
    · cases he
    · next text hc =>
      split at he
      · cases he
      · next rel hp =>
        cases he
        exact ⟨n, text, rel, hi, rfl, hc, hp, rfl, rfl⟩

/-- the offered list holds exactly the scanned entries in scope -/
theorem mem_offered (fs : FS) (c : ReadCfg) (o : RestoreOpts) (e : Entry) :
    e ∈ offered fs c o ↔ e ∈ restoreEntries fs c o ∧ inScope (scopeOf c o) e.loc = true := by
  unfold offered
  rw [(Proofs.C13.offered_perm o.sort _).mem_iff, List.mem_filter]

end TrashVerif.Proofs.C13Cmd
