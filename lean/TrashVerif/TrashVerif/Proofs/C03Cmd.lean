/-
  Proofs/C03Cmd.lean — what every reader makes of the bytes `trash-put` writes (lemmas for
  Props/C03Cmd.lean and Props/C05Cmd.lean).
-/
import TrashVerif.Proofs.C03
import TrashVerif.Spec.Trash
namespace TrashVerif.Proofs.C03Cmd
open TrashVerif Bytes
open TrashVerif.Proofs.C03
open TrashVerif.C03 (Holds dateShapeOk)

theorem parseDeletionDate_format (loc : Bytes) (d : Date) (hd : d.valid = true) (hy : 1000 ≤ d.y) :
    (readText (formatTrashinfoWith loc d.fmt)).bind parseDeletionDate = some d := by
  have h := parseDate_format loc d hd hy
  rw [readText_format loc d hy] at h ⊢
  simp only [Option.map_some, Option.some.injEq] at h
  simp only [Option.bind_some, parseDeletionDate, h]

theorem fmt_length (d : Date) (hy : 1000 ≤ d.y) : d.fmt.length = 19 := by
  have h := fmt_shape d hy
  unfold dateShapeOk at h
  split at h
  · next heq => rw [heq]; rfl
  · cases h

theorem infoComplete_format (loc : Bytes) (d : Date) (hy : 1000 ≤ d.y) :
    Spec.infoComplete (formatTrashinfoWith loc d.fmt) = true := by
  unfold Spec.infoComplete
  rw [lines_format loc d hy]
  simp [headLine, startsWith_append, fmt_length d hy]

/-- everything at once: the bytes written for `loc` at the clock reading `d` -/
theorem written_parses (loc : Bytes) (d : Date) (hd : d.valid = true) (hy : 1000 ≤ d.y) :
    Holds (formatTrashinfoWith loc d.fmt) loc = true ∧
    Spec.infoComplete (formatTrashinfoWith loc d.fmt) = true ∧
    (readText (formatTrashinfoWith loc d.fmt)).bind parsePath = some loc ∧
    (readText (formatTrashinfoWith loc d.fmt)).bind parseDeletionDate = some d :=
  ⟨format_conformant loc d hd hy, infoComplete_format loc d hy, parsePath_format loc d hd hy,
   parseDeletionDate_format loc d hd hy⟩

end TrashVerif.Proofs.C03Cmd
