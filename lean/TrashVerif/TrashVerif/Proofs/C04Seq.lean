/-
  Proofs/C04Seq.lean — proofs of the statements of Props/C04Seq.lean, parts 1–3: N puts in sequence,
  by induction over the list of puts.
-/
import TrashVerif.Proofs.C04
import TrashVerif.Props.C04SeqDefs
namespace TrashVerif.Proofs.C04Seq
open TrashVerif Prog FS PutCore PutLemmas C04Seq

/-! ### one step -/

/-- what one successful put does to the trash directory -/
structure StepFacts (I F : CPath) (fs fs' : FS) (src : CPath) (name content : Bytes) : Prop where
  freeF : fs.get (F ++ [stemOf name]) = none
  freeI : fs.get (I ++ [name]) = none
  keepF : ∀ n rel, n ≠ stemOf name → fs'.get (F ++ [n] ++ rel) = fs.get (F ++ [n] ++ rel)
  keepI : ∀ n rel, n ≠ name → fs'.get (I ++ [n] ++ rel) = fs.get (I ++ [n] ++ rel)
  whole : ∀ rel, fs'.get (F ++ [stemOf name] ++ rel) = fs.get (src ++ rel)
  info : fs'.get (I ++ [name]) = some (.file content 0o600 0)
  srcSome : (fs.get src).isSome = true

theorem step_facts {fs : FS} {I F src : CPath} {base content : Bytes} {st st' : PutSt}
    (h : Setting fs I F src) {name : Bytes} {s' : RunState}
    (hr : run noFaults (putCore I F base content (fun _ => .ok src) st) { fs := fs } = ((.ok name, st'), s')) :
    StepFacts I F fs s'.fs src name content := by
  have T := C01.put_ok_moves_whole fs I F src base content st st' h name s' hr
  obtain ⟨_, _, keepF, _⟩ := C04.put_never_overwrites fs I F src base content st st' h name s' hr
  have g := Geo.of_setting h
  refine ⟨T.wasFreePayload, T.wasFreeInfo, keepF, fun n rel hn => ?_, T.whole, T.info, h.srcExists⟩
  have hI : I <+: I ++ [n] ++ rel := by
    rw [List.append_assoc]; exact List.prefix_append _ _
  apply T.frame
  · rw [under_iff]; intro hs
    exact (pfx_comparable hs hI).elim g.h3 g.h5
  · rw [under_iff]; intro hs
    rcases pfx_comparable hs hI with c | c
    · exact g.D_I c
    · rcases pfx_concat.1 c with e | e
      · exact g.h2 (e ▸ List.prefix_append F [stemOf name])
      · exact g.h1 e
  · intro e
    rw [List.append_assoc] at e
    have := List.append_cancel_left e
    simp only [List.singleton_append, List.cons.injEq] at this
    exact hn this.1
  · intro e
    exact g.h5 ((e ▸ hI).trans (dropLast_pfx src))
  · intro e
    exact g.h1 (e ▸ hI)
  · intro e
    have := congrArg List.length e
    simp at this

/-! ### what was there stays, whatever follows -/

theorem keep_files {I F : CPath} {fs fsN : FS} {st stN : PutSt} {ks : List Step}
    (h : Puts I F fs st ks fsN stN) :
    ∀ n, (fs.get (F ++ [n])).isSome = true → ∀ rel, fsN.get (F ++ [n] ++ rel) = fs.get (F ++ [n] ++ rel) := by
  induction h with
  | nil fs st => intro n _ rel; rfl
  | @cons fs0 st0 st' k0 s' ks0 fsN0 stN0 hpre hset hrun rest ih =>
    intro n hn rel
    have f := step_facts hset hrun
    have hne : n ≠ stemOf k0.name := by
      intro e; rw [e, f.freeF] at hn; cases hn
    have h0 := f.keepF n [] hne
    rw [List.append_nil] at h0
    rw [ih n (by rw [h0]; exact hn) rel, f.keepF n rel hne]

theorem keep_info {I F : CPath} {fs fsN : FS} {st stN : PutSt} {ks : List Step}
    (h : Puts I F fs st ks fsN stN) :
    ∀ n, (fs.get (I ++ [n])).isSome = true → ∀ rel, fsN.get (I ++ [n] ++ rel) = fs.get (I ++ [n] ++ rel) := by
  induction h with
  | nil fs st => intro n _ rel; rfl
  | @cons fs0 st0 st' k0 s' ks0 fsN0 stN0 hpre hset hrun rest ih =>
    intro n hn rel
    have f := step_facts hset hrun
    have hne : n ≠ k0.name := by
      intro e; rw [e, f.freeI] at hn; cases hn
    have h0 := f.keepI n [] hne
    rw [List.append_nil] at h0
    rw [ih n (by rw [h0]; exact hn) rel, f.keepI n rel hne]

/-! ### every name taken was free — when taken, and at the start -/

theorem free_pre {I F : CPath} {fs fsN : FS} {st stN : PutSt} {ks : List Step}
    (h : Puts I F fs st ks fsN stN) :
    ∀ k ∈ ks, k.pre.get (I ++ [k.name]) = none ∧ k.pre.get (F ++ [stemOf k.name]) = none := by
  induction h with
  | nil fs st => intro k hk; cases hk
  | @cons fs0 st0 st' k0 s' ks0 fsN0 stN0 hpre hset hrun rest ih =>
    intro k hk
    have f := step_facts hset hrun
    rcases List.mem_cons.1 hk with e | e
    · subst e; rw [hpre]; exact ⟨f.freeI, f.freeF⟩
    · exact ih k e

theorem free_start {I F : CPath} {fs fsN : FS} {st stN : PutSt} {ks : List Step}
    (h : Puts I F fs st ks fsN stN) :
    ∀ k ∈ ks, fs.get (I ++ [k.name]) = none ∧ fs.get (F ++ [stemOf k.name]) = none := by
  induction h with
  | nil fs st => intro k hk; cases hk
  | @cons fs0 st0 st' k0 s' ks0 fsN0 stN0 hpre hset hrun rest ih =>
    intro k hk
    have f := step_facts hset hrun
    rcases List.mem_cons.1 hk with e | e
    · subst e; exact ⟨f.freeI, f.freeF⟩
    · obtain ⟨a, c⟩ := ih k e
      constructor
      · cases hg : fs0.get (I ++ [k.name]) with
        | none => rfl
        | some x =>
          have hne : k.name ≠ k0.name := by
            intro e'; rw [e', f.freeI] at hg; cases hg
          have h0 := f.keepI k.name [] hne
          rw [List.append_nil, a, hg] at h0
          cases h0
      · cases hg : fs0.get (F ++ [stemOf k.name]) with
        | none => rfl
        | some x =>
          have hne : stemOf k.name ≠ stemOf k0.name := by
            intro e'; rw [e', f.freeF] at hg; cases hg
          have h0 := f.keepF (stemOf k.name) [] hne
          rw [List.append_nil, c, hg] at h0
          cases h0

/-! ### 1. the N names are pairwise distinct -/

theorem names_pairwise {I F : CPath} {fs fsN : FS} {st stN : PutSt} {ks : List Step}
    (h : Puts I F fs st ks fsN stN) :
    (ks.map (·.name)).Pairwise (· ≠ ·) ∧ (ks.map fun k => stemOf k.name).Pairwise (· ≠ ·) := by
  induction h with
  | nil fs st => exact ⟨List.Pairwise.nil, List.Pairwise.nil⟩
  | @cons fs0 st0 st' k0 s' ks0 fsN0 stN0 hpre hset hrun rest ih =>
    have f := step_facts hset hrun
    have fr := free_start rest
    simp only [List.map_cons, List.pairwise_cons, List.mem_map, forall_exists_index, and_imp,
      forall_apply_eq_imp_iff₂]
    refine ⟨⟨fun k' hk' e => ?_, ih.1⟩, ⟨fun k' hk' e => ?_, ih.2⟩⟩
    · have a := (fr k' hk').1
      rw [← e, f.info] at a
      cases a
    · have a := (fr k' hk').2
      have w := f.whole []
      rw [List.append_nil, List.append_nil, e, a] at w
      have s := f.srcSome
      rw [← w] at s
      cases s

/-! ### 2. every put's pair is whole at the end -/

theorem pairs_whole {I F : CPath} {fs fsN : FS} {st stN : PutSt} {ks : List Step}
    (h : Puts I F fs st ks fsN stN) :
    ∀ k ∈ ks, (∀ rel, fsN.get (F ++ [stemOf k.name] ++ rel) = k.pre.get (k.src ++ rel)) ∧
      fsN.get (I ++ [k.name]) = some (.file k.content 0o600 0) := by
  induction h with
  | nil fs st => intro k hk; cases hk
  | @cons fs0 st0 st' k0 s' ks0 fsN0 stN0 hpre hset hrun rest ih =>
    intro k hk
    have f := step_facts hset hrun
    rcases List.mem_cons.1 hk with e | e
    · subst e
      have w := f.whole []
      rw [List.append_nil, List.append_nil] at w
      have hs : (s'.fs.get (F ++ [stemOf k.name])).isSome = true := by rw [w]; exact f.srcSome
      constructor
      · intro rel
        rw [keep_files rest _ hs rel, f.whole rel, hpre]
      · have hi := keep_info rest k.name (by rw [f.info]; rfl) []
        rw [List.append_nil] at hi
        rw [hi, f.info]
    · exact ih k e

/-! ### 3. nothing else appeared or disappeared in `files/` and `info/` -/

theorem count_files {I F : CPath} {fs fsN : FS} {st stN : PutSt} {ks : List Step}
    (h : Puts I F fs st ks fsN stN) :
    ∀ n, (fsN.get (F ++ [n])).isSome = true ↔
      ((fs.get (F ++ [n])).isSome = true ∨ n ∈ ks.map fun k => stemOf k.name) := by
  induction h with
  | nil fs st => intro n; simp
  | @cons fs0 st0 st' k0 s' ks0 fsN0 stN0 hpre hset hrun rest ih =>
    intro n
    have f := step_facts hset hrun
    rw [ih n, List.map_cons, List.mem_cons]
    by_cases e : n = stemOf k0.name
    · subst e
      have w := f.whole []
      rw [List.append_nil, List.append_nil] at w
      rw [w]
      simp [f.srcSome]
    · have h0 := f.keepF n [] e
      rw [List.append_nil] at h0
      rw [h0]
      simp [e]

theorem count_info {I F : CPath} {fs fsN : FS} {st stN : PutSt} {ks : List Step}
    (h : Puts I F fs st ks fsN stN) :
    ∀ n, (fsN.get (I ++ [n])).isSome = true ↔
      ((fs.get (I ++ [n])).isSome = true ∨ n ∈ ks.map (·.name)) := by
  induction h with
  | nil fs st => intro n; simp
  | @cons fs0 st0 st' k0 s' ks0 fsN0 stN0 hpre hset hrun rest ih =>
    intro n
    have f := step_facts hset hrun
    rw [ih n, List.map_cons, List.mem_cons]
    by_cases e : n = k0.name
    · subst e
      rw [f.info]
      simp
    · have h0 := f.keepI n [] e
      rw [List.append_nil] at h0
      rw [h0]
      simp [e]

/-! ### the executable chain is a chain -/

theorem settingB_sound {fs : FS} {I F src : CPath} (h : settingB fs I F src = true) : Setting fs I F src := by
  simp only [settingB, Bool.and_eq_true, Bool.not_eq_true', decide_eq_true_eq] at h
  obtain ⟨⟨⟨⟨⟨⟨⟨⟨⟨⟨⟨a1, a2⟩, a3⟩, a4⟩, a5⟩, a6⟩, a7⟩, a8⟩, a9⟩, a10⟩, a11⟩, a12⟩ := h
  exact ⟨a1, a2, ⟨by simp [a3], by simp [a4]⟩, a5, a6, a7, a8, ⟨by simp [a9], by simp [a10]⟩,
    ⟨by simp [a11], by simp [a12]⟩⟩

theorem putSeq_sound (I F : CPath) : ∀ (items : List (CPath × Bytes × Bytes)) (st : PutSt) (fs : FS)
    (ks : List Step) (fsN : FS) (stN : PutSt), putSeq I F items st fs = some (ks, fsN, stN) →
    Puts I F fs st ks fsN stN ∧ ks.map (fun k => (k.src, k.base, k.content)) = items := by
  intro items
  induction items with
  | nil =>
    intro st fs ks fsN stN h
    simp only [putSeq, Option.some.injEq, Prod.mk.injEq] at h
    obtain ⟨rfl, rfl, rfl⟩ := h
    exact ⟨Puts.nil _ _, rfl⟩
  | cons it rest ih =>
    intro st fs ks fsN stN h
    obtain ⟨src, base, content⟩ := it
    unfold putSeq at h
    split at h
    · next hs =>
      split at h
      · next name st' s' hrun =>
        cases hp : putSeq I F rest st' s'.fs with
        | none => rw [hp] at h; cases h
        | some r =>
          obtain ⟨ks', fsN', stN'⟩ := r
          rw [hp] at h
          simp only [Option.map_some, Option.some.injEq, Prod.mk.injEq] at h
          obtain ⟨rfl, rfl, rfl⟩ := h
          obtain ⟨p, q⟩ := ih st' s'.fs ks' fsN' stN' hp
          exact ⟨Puts.cons (k := ⟨src, base, content, name, fs⟩) rfl (settingB_sound hs) hrun p, by simp [q]⟩
      · cases h
    · cases h

end TrashVerif.Proofs.C04Seq
