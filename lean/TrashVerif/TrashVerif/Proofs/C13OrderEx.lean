/-
  Proofs/C13OrderEx.lean — the foil `runRestoreSorted` ("restore in ascending index order whatever
  the reply says"), and concrete worlds for Props/C13Order.lean, evaluated by the kernel through the
  twins (`run noFaults (runRestore …) = restoreS …`).
-/
import TrashVerif.Proofs.C13OrderCommute
import TrashVerif.Proofs.C13CmdEx
namespace TrashVerif.Proofs.C13OrderEx
open TrashVerif Prog FS PutCore PutLemmas C09Hist C13Cmd C13Order
open TrashVerif.Proofs.C16Eval TrashVerif.Proofs.C02CmdEval TrashVerif.Proofs.C13Cmd
open TrashVerif.Proofs.C02CmdEx (restoreS restore_twin)
open TrashVerif.Proofs.C13CmdEx (offered_twin run_twin goodNames_of_dec)
open TrashVerif.Proofs.C10LoopEx (plainCheck plain_of_check)
open TrashVerif.Proofs.C13CmdEx.Demo (dirN T I F rc op)
open TrashVerif.Proofs.C13CmdEx.Cex (info)

/-! ### the foil: a `trash-restore` that sorts the chosen indices first -/

def insertAsc (i : Nat) : List Nat → List Nat
  | [] => [i]
  | j :: js => if i ≤ j then i :: j :: js else j :: insertAsc i js

/-- the indices in ascending order (insertion sort; repetitions kept) -/
def sortAsc : List Nat → List Nat
  | [] => []
  | i :: is => insertAsc i (sortAsc is)

/-- NOT the model of trash-restore: `runRestore` with ONE change — the index list the reply denotes is
    sorted before the entries are looked up.  A foil, to show what the order clause is guarding. -/
def runRestoreSorted (c : ReadCfg) (o : RestoreOpts) (reply : Option Bytes) : Prog CmdResult := do
  let fs ← read
  let cwdStr := toStr c.cwd
  let dir := restoreScopeDir cwdStr o.path
  let all := restoreEntries fs c o
  let offered := sortEntries o.sort (all.filter fun e => inScope dir e.loc)
  if offered = [] then do
    say (.stdout (b "No files trashed from current dir ('" ++ cwdStr ++ b "')"))
    pure { exit := 0 }
  else do
    emitAll ((List.range offered.length).filterMap fun i => (offered[i]?).map fun e => Out.stdout (restoreLine i e))
    match reply with
    | none => do say (.stderr "quit" []); pure { exit := 1 }
    | some r =>
      if r = [] then do say (.stdout (b "No files were restored")); pure { exit := 0 }
      else
        match parseIndexes r offered.length with
        | .invalid => do say (.stderr "invalid-entry" r); pure { exit := 1 }
        | .crash => do say (.stderr "traceback" r); pure { exit := 1, crash := some .typeError }
        | .ok is =>
          match ← restoreMany c.cwd o.overwrite ((sortAsc is).filterMap fun i => offered[i]?) with
          | .ok () => pure { exit := 0 }
          | .error _ => do say (.stderr "die" []); pure { exit := 1 }

/-- the foil answered `reply` is trash-restore answered with a reply that denotes the same indices in
    ascending order (every oracle, every state) -/
theorem sorted_is_ascending_reply (φ : Oracle) (c : ReadCfg) (o : RestoreOpts) (reply reply' : Bytes) (s : RunState)
    (is : List Nat)
    (hreply : parseIndexes reply (offered s.fs c o).length = .ok is)
    (hreply' : parseIndexes reply' (offered s.fs c o).length = .ok (sortAsc is)) :
    run φ (runRestoreSorted c o (some reply)) s = run φ (runRestore c o (some reply')) s := by
  have n1 := Proofs.C02Cmd.reply_ne_nil hreply
  have n2 := Proofs.C02Cmd.reply_ne_nil hreply'
  unfold offered scopeOf at hreply hreply'
  unfold runRestoreSorted runRestore
  rw [run_read_bind, run_read_bind]
  simp only []
  generalize sortEntries o.sort (List.filter (fun e => inScope (restoreScopeDir (toStr c.cwd) o.path) e.loc)
    (restoreEntries s.fs c o)) = off at hreply hreply'
  by_cases h0 : off = []
  · rw [if_pos h0, if_pos h0]
  · rw [if_neg h0, if_neg h0, run_bind, run_bind]
    simp only [if_neg n1, if_neg n2, hreply, hreply']
    rfl

/-! ### the nested pair: a file trashed from inside `d` (older), then `d` itself (newer) -/

/-- `/t` holds `x` (2024-01-01, a file, trashed from `/home/d/x`) and `d` (2024-01-02, a directory of mode
    0700 holding `y`, trashed from `/home/d`); `/home/d` does not exist -/
def WO : FS := FS.ofList [
  ([], dirN), (T, dirN), (I, dirN), (F, dirN),
  (I ++ [b "x.trashinfo"], info "/home/d/x" "2024-01-01"), (I ++ [b "d.trashinfo"], info "/home/d" "2024-01-02"),
  (F ++ [b "x"], .file [88] 0o644 3), (F ++ [b "d"], .dir 0o700 5), (F ++ [b "d", b "y"], .file [89] 0o644 3),
  ([b "home"], dirN)] [[]]

theorem WO_offered : (offered WO rc op).map (·.loc) = [b "/home/d/x", b "/home/d"] := by
  rw [offered_twin]; decide +kernel

theorem WO_replies : parseIndexes (b "1,0") (offered WO rc op).length = .ok [1, 0] ∧
    parseIndexes (b "0,1") (offered WO rc op).length = .ok [0, 1] ∧ sortAsc [1, 0] = [0, 1] := by
  rw [offered_twin]; decide +kernel

/-- reply "1,0": the directory first, then the file into it — both restored, the trash is empty -/
theorem WO_run_1_0 :
    (restoreS rc op (b "1,0") WO).1.exit = 0 ∧ (restoreS rc op (b "1,0") WO).1.crash = none ∧
    (restoreS rc op (b "1,0") WO).2.fs.toList =
      [([b "home", b "d", b "x"], .file [88] 0o644 3), ([b "home", b "d"], .dir 0o700 0),
       ([b "home", b "d", b "y"], .file [89] 0o644 3),
       ([], dirN), (T, dirN), (I, .dir 0o755 0), (F, .dir 0o755 0), ([b "home"], .dir 0o755 0)] ∧
    (restoreS rc op (b "1,0") WO).2.trace.length = 4 := by
  decide +kernel

/-- reply "0,1": the file first — `os.makedirs` creates `/home/d` (mode 0755, not the 0700 of the trashed
    directory) —, then the directory entry is REFUSED: exit status 1, "die", `d` (info file, payload,
    `y` in it) stays in the trash, `/home/d/y` is not there -/
theorem WO_run_0_1 :
    (restoreS rc op (b "0,1") WO).1.exit = 1 ∧ (restoreS rc op (b "0,1") WO).1.crash = none ∧
    (restoreS rc op (b "0,1") WO).2.fs.toList =
      [([b "home", b "d", b "x"], .file [88] 0o644 3), ([b "home", b "d"], .dir 0o755 0),
       ([], dirN), (T, dirN), (I, .dir 0o755 0), (F, .dir 0o755 0),
       (I ++ [b "d.trashinfo"], info "/home/d" "2024-01-02"),
       (F ++ [b "d"], .dir 0o700 5), (F ++ [b "d", b "y"], .file [89] 0o644 3), ([b "home"], .dir 0o755 0)] ∧
    (restoreS rc op (b "0,1") WO).2.outs.head? = some (Out.stderr "die" []) ∧
    (restoreS rc op (b "0,1") WO).2.trace.length = 3 := by
  decide +kernel

/-- the two final states told apart: the payload of `d`, and `y` -/
theorem WO_foil :
    (restoreS rc op (b "0,1") WO).2.fs.get (F ++ [b "d"]) = some (.dir 0o700 5) ∧
    (restoreS rc op (b "1,0") WO).2.fs.get (F ++ [b "d"]) = none ∧
    (restoreS rc op (b "0,1") WO).2.fs.get [b "home", b "d", b "y"] = none ∧
    (restoreS rc op (b "1,0") WO).2.fs.get [b "home", b "d", b "y"] = some (.file [89] 0o644 3) := by
  decide +kernel

/-! ### the same index twice on a list of one: "0,0" -/

/-- `/t` holds one entry: `a`, a file trashed from `/home/a` -/
def W1 : FS := FS.ofList [
  ([], dirN), (T, dirN), (I, dirN), (F, dirN),
  (I ++ [b "a.trashinfo"], info "/home/a" "2024-01-01"),
  (F ++ [b "a"], .file [65] 0o644 3),
  ([b "home"], dirN)] [[]]

def e1 : Entry := { loc := b "/home/a", date := some ⟨2024, 1, 1, 0, 0, 0⟩, info := b "/t/info/a.trashinfo" }
def it1 : Item := { e := e1, name := b "a.trashinfo", dst := [b "home", b "a"] }

theorem W1_offered : offered W1 rc op = [e1] := by rw [offered_twin]; decide +kernel

theorem W1_reply : parseIndexes (b "0,0") (offered W1 rc op).length = .ok [0, 0] ∧
    selected (offered W1 rc op) [0, 0] = [it1].map (·.e) ++ it1.e :: [] := by rw [W1_offered]; decide +kernel

/-- evaluated: the first round restores `a` (`rename`, `unlink`); the second is refused without a call
    (no `--overwrite`) resp. fails in `rename` with ENOENT — the payload is gone — (`--overwrite`; the
    restored file is NOT removed first); exit status 1 and "die" either way -/
theorem W1_run :
    (restoreS rc op (b "0,0") W1).1.exit = 1 ∧ (restoreS rc op (b "0,0") W1).1.crash = none ∧
    (restoreS rc op (b "0,0") W1).2.fs.toList =
      [([b "home", b "a"], .file [65] 0o644 3), ([], dirN), (T, dirN), (I, .dir 0o755 0), (F, .dir 0o755 0),
       ([b "home"], .dir 0o755 0)] ∧
    (restoreS rc op (b "0,0") W1).2.trace.length = 2 ∧
    (restoreS rc op (b "0,0") W1).2.outs.head? = some (Out.stderr "die" []) ∧
    (restoreS rc { op with overwrite := true } (b "0,0") W1).1.exit = 1 ∧
    (restoreS rc { op with overwrite := true } (b "0,0") W1).2.fs.toList = (restoreS rc op (b "0,0") W1).2.fs.toList ∧
    (restoreS rc { op with overwrite := true } (b "0,0") W1).2.trace.head? =
      some (.rename (F ++ [b "a"]) [b "home", b "a"], .error .ENOENT) ∧
    (restoreS rc { op with overwrite := true } (b "0,0") W1).2.trace.length = 3 ∧
    (restoreS rc { op with overwrite := true } (b "0,0") W1).2.outs.head? = some (Out.stderr "die" []) := by
  decide +kernel

theorem W1_setting : RSetting W1 [] I F [it1] := by
  refine plain_rsetting W1 [] T [it1] (by decide) (goodNames_of_dec (by decide +kernel))
    (plain_of_check (by decide +kernel)) (plain_of_check (by decide +kernel)) (fun it hit => ?_) (fun it hit => ?_)
    (fun it hit => ?_) (fun it hit => ?_) (fun it hit => ?_) (fun it hit => ?_) (by decide +kernel)
  all_goals (rw [List.mem_singleton] at hit; subst hit)
  · decide +kernel
  · decide +kernel
  · rw [TrashVerif.Proofs.C13CmdEx.Demo.tStr]; decide +kernel
  · decide +kernel
  · exact ⟨goodNames_of_dec (by decide +kernel), plain_of_check (by decide +kernel)⟩
  · decide +kernel

/-- `restore_same_index_twice` instantiated: `pre = [a]`, the repetition is `a` again, nothing after -/
theorem W1_theorem (ov : Bool) :
    (run noFaults (runRestore rc { op with overwrite := ov } (some (b "0,0"))) { fs := W1 }).1.exit = 1 ∧
    (run noFaults (runRestore rc { op with overwrite := ov } (some (b "0,0"))) { fs := W1 }).1.crash = none ∧
    RestoredExactly W1 (run noFaults (runRestore rc { op with overwrite := ov } (some (b "0,0"))) { fs := W1 }).2.fs I F [it1] ∧
    Out.stderr "die" [] ∈ (run noFaults (runRestore rc { op with overwrite := ov } (some (b "0,0"))) { fs := W1 }).2.outs :=
  restore_same_index_twice W1 rc { op with overwrite := ov } (b "0,0") I F [0, 0] [it1] it1 []
    W1_reply.1 W1_reply.2 W1_setting List.mem_cons_self

/-! ### non-vacuity of the commutation theorem: the demo world of Proofs/C13CmdEx.lean, "0,2" against "2,0" -/

section
open TrashVerif.Proofs.C13CmdEx.Demo (W itA itB W_setting reply_0_2 W_offered)

theorem W_reply_2_0 : parseIndexes (b "2,0") (offered W rc op).length = .ok [2, 0] := by
  rw [W_offered]; decide +kernel

theorem W_commute :
    (run noFaults (runRestore rc op (some (b "0,2"))) { fs := W }).1.exit = 0 ∧
    (run noFaults (runRestore rc op (some (b "2,0"))) { fs := W }).1.exit = 0 ∧
    SameFS (run noFaults (runRestore rc op (some (b "0,2"))) { fs := W }).2.fs
      (run noFaults (runRestore rc op (some (b "2,0"))) { fs := W }).2.fs := by
  have h := Proofs.C13Order.entries_commute W rc op (b "0,2") (b "2,0") I F [0, 2] [2, 0] [itB, itA]
    reply_0_2.1 W_reply_2_0 (List.Perm.swap 0 2 []) reply_0_2.2 (W_setting _ (by decide +kernel))
  exact ⟨h.1, h.2.1, h.2.2.2.2.1⟩

/-- … and evaluated: the same nodes as after "0,2" (`Demo.W_run_0_2`), enumerated in another order — the
    bookkeeping field `dom` differs, which is why the theorem says `SameFS` and not `=` -/
theorem W_commute_run :
    (restoreS rc op (b "2,0") W).1.exit = 0 ∧
    (restoreS rc op (b "2,0") W).2.fs.toList =
      [([b "home", b "b"], dirN), ([b "home", b "b", b "x"], .file [66] 0o644 3), ([b "home", b "a"], .file [65] 0o644 3),
       ([], dirN), (T, dirN), (I, .dir 0o755 0), (F, .dir 0o755 0),
       (I ++ [TrashVerif.Proofs.C13CmdEx.Demo.cN], .file (b "[Trash Info]\nPath=/home/c\nDeletionDate=2024-01-02T00:00:00\n") 0o600 3),
       (F ++ [b "c"], .link (b "/home/keep")), ([b "home"], .dir 0o755 0), ([b "home", b "keep"], .file [124] 0o644 3)] ∧
    (restoreS rc op (b "2,0") W).2.fs.dom ≠ (restoreS rc op (b "0,2") W).2.fs.dom := by
  decide +kernel

end

end TrashVerif.Proofs.C13OrderEx
