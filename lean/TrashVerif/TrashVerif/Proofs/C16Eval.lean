/-
  Proofs/C16Eval.lean — kernel-evaluable twins of the path functions.
  `FS.walk` and `FS.realpathAux` are defined by well-founded recursion, which the kernel does not
  unfold: no closed term that reaches them can be evaluated by `decide +kernel`.  This file defines
  structurally recursive twins (`walkS`, `realS`), proves them EQUAL to the model's functions, and
  lifts the equality through every function of the `trash-put` model that (transitively) calls
  them, up to `runPut = runPutS`.  The twins are copies of the model's definitions with the two
  names replaced; they are used only to evaluate the model on concrete worlds (counterexamples,
  non-vacuity examples): after `rw [runPut_eq]` the goal is closed by `decide +kernel`.
-/
import TrashVerif.Model.Put
namespace TrashVerif.Proofs.C16Eval
open TrashVerif Prog FS Bytes

/-! ### `walk` -/

/-- one fuel level of `walk`, structural on the component list; `next` continues after a symlink -/
def walkGo (fs : FS) (followLast : Bool) (next : Option (CPath → List Bytes → Except Errno CPath)) :
    CPath → List Bytes → Except Errno CPath
  | cur, [] => .ok cur
  | cur, c :: rest =>
    match fs.get cur with
    | none => .error .ENOENT
    | some (.dir ..) =>
      if c = [] ∨ c = [dot] then walkGo fs followLast next cur rest
      else if c = dotdot then walkGo fs followLast next cur.dropLast rest
      else if c.length > nameMax then .error .ENAMETOOLONG
      else
        let p := cur ++ [c]
        match fs.get p with
        | some (.link t) =>
          if rest ≠ [] ∨ followLast then
            match next with
            | none => .error .ELOOP
            | some nx =>
              if t = [] then .error .ENOENT
              else nx (if isAbs t then [] else cur) (comps t ++ rest)
          else .ok p
        | some _ => walkGo fs followLast next p rest
        | none => if rest.all (fun r => r = []) then .ok p else .error .ENOENT
    | some _ => .error .ENOTDIR

def walkS (fs : FS) (followLast : Bool) : Nat → CPath → List Bytes → Except Errno CPath
  | 0 => walkGo fs followLast none
  | n+1 => walkGo fs followLast (some (walkS fs followLast n))

theorem walk_eq (fs : FS) (fl : Bool) : ∀ (fuel : Nat) (cur : CPath) (cs : List Bytes),
    walk fs fl fuel cur cs = walkS fs fl fuel cur cs := by
  intro fuel
  induction fuel with
  | zero =>
    intro cur cs
    induction cs generalizing cur with
    | nil => rw [walk]; rfl
    | cons c rest ih =>
      rw [walk]; unfold walkS walkGo
      cases fs.get cur with
      | none => rfl
      | some nd =>
        cases nd with
        | file d m t => rfl
        | link t => rfl
        | dir m t =>
          simp only []
          split
          · exact ih _
          · split
            · exact ih _
            · split
              · rfl
              · cases fs.get (cur ++ [c]) with
                | none => rfl
                | some nd2 =>
                  cases nd2 with
                  | file d m t => exact ih _
                  | dir m t => exact ih _
                  | link t => rfl
  | succ fuel ihf =>
    intro cur cs
    induction cs generalizing cur with
    | nil => rw [walk]; rfl
    | cons c rest ih =>
      rw [walk]; unfold walkS walkGo
      cases fs.get cur with
      | none => rfl
      | some nd =>
        cases nd with
        | file d m t => rfl
        | link t => rfl
        | dir m t =>
          simp only []
          split
          · exact ih _
          · split
            · exact ih _
            · split
              · rfl
              · cases fs.get (cur ++ [c]) with
                | none => rfl
                | some nd2 =>
                  cases nd2 with
                  | file d m t => exact ih _
                  | dir m t => exact ih _
                  | link t =>
                    simp only []
                    split
                    · split
                      · rfl
                      · exact ihf _ _
                    · rfl

/-! ### `realpathAux` -/

def realGo (fs : FS) (next : Option (CPath → List Bytes → Option CPath)) : CPath → List Bytes → Option CPath
  | cur, [] => some cur
  | cur, c :: rest =>
    if c = [] ∨ c = [dot] then realGo fs next cur rest
    else if c = dotdot then realGo fs next cur.dropLast rest
    else
      let p := cur ++ [c]
      match (if isDirAt fs cur ∧ c.length ≤ nameMax then fs.get p else none) with
      | some (.link t) =>
        match next with
        | none => none
        | some nx => nx (if isAbs t then [] else cur) (comps t ++ rest)
      | _ => realGo fs next p rest

def realS (fs : FS) : Nat → CPath → List Bytes → Option CPath
  | 0 => realGo fs none
  | n+1 => realGo fs (some (realS fs n))

theorem real_eq (fs : FS) : ∀ (fuel : Nat) (cur : CPath) (cs : List Bytes),
    realpathAux fs fuel cur cs = realS fs fuel cur cs := by
  intro fuel
  induction fuel with
  | zero =>
    intro cur cs
    induction cs generalizing cur with
    | nil => rw [realpathAux]; rfl
    | cons c rest ih =>
      rw [realpathAux]; unfold realS realGo
      split
      · exact ih _
      · split
        · exact ih _
        · simp only []
          generalize (if isDirAt fs cur ∧ c.length ≤ nameMax then fs.get (cur ++ [c]) else none) = x
          rcases x with _ | (_ | _ | _)
          · exact ih _
          · exact ih _
          · exact ih _
          · rfl
  | succ fuel ihf =>
    intro cur cs
    induction cs generalizing cur with
    | nil => rw [realpathAux]; rfl
    | cons c rest ih =>
      rw [realpathAux]; unfold realS realGo
      split
      · exact ih _
      · split
        · exact ih _
        · simp only []
          generalize (if isDirAt fs cur ∧ c.length ≤ nameMax then fs.get (cur ++ [c]) else none) = x
          rcases x with _ | (_ | _ | _)
          · exact ih _
          · exact ih _
          · exact ih _
          · exact ihf _ _

/-! ### the path functions of Model/FS.lean -/

def resolveS (fs : FS) (cwd : CPath) (path : Bytes) (followLast : Bool := false) : Except Errno CPath :=
  if path = [] then .error .ENOENT
  else
    let trailing := path.getLast? = some slash ∧ ¬ path.all (· = slash)
    let start := if isAbs path then [] else cwd
    match walkS fs (followLast || trailing) linkFuel start (comps path) with
    | .error e => .error e
    | .ok p =>
      if trailing then
        match fs.get p with
        | some (.dir ..) => .ok p
        | some _ => .error .ENOTDIR
        | none => .ok p
      else .ok p

theorem resolve_eq (fs : FS) (cwd : CPath) (path : Bytes) (fl : Bool) :
    resolve fs cwd path fl = resolveS fs cwd path fl := by
  unfold resolve resolveS; simp only [walk_eq] <;> rfl

def lstatS (fs : FS) (cwd : CPath) (path : Bytes) : Option Node :=
  match resolveS fs cwd path with
  | .ok p => fs.get p
  | .error _ => none
theorem lstat_eq (fs : FS) (cwd : CPath) (path : Bytes) : lstat fs cwd path = lstatS fs cwd path := by
  unfold lstat lstatS; simp only [resolve_eq] <;> rfl

def statS (fs : FS) (cwd : CPath) (path : Bytes) : Option Node :=
  match resolveS fs cwd path true with
  | .ok p => fs.get p
  | .error _ => none
theorem stat_eq (fs : FS) (cwd : CPath) (path : Bytes) : stat fs cwd path = statS fs cwd path := by
  unfold stat statS; simp only [resolve_eq] <;> rfl

def pLexistsS (fs : FS) (cwd : CPath) (path : Bytes) : Bool := (lstatS fs cwd path).isSome
def pExistsS (fs : FS) (cwd : CPath) (path : Bytes) : Bool := (statS fs cwd path).isSome
def pIsdirS (fs : FS) (cwd : CPath) (path : Bytes) : Bool :=
  match statS fs cwd path with | some n => n.isDir | none => false
def pIslinkS (fs : FS) (cwd : CPath) (path : Bytes) : Bool :=
  match lstatS fs cwd path with | some n => n.isLink | none => false
def pStickyS (fs : FS) (cwd : CPath) (path : Bytes) : Option Bool :=
  match statS fs cwd path with
  | some (.dir m _) => some (m &&& 0o1000 ≠ 0)
  | some (.file _ m _) => some (m &&& 0o1000 ≠ 0)
  | _ => none

theorem pLexists_eq (fs : FS) (cwd : CPath) (path : Bytes) : pLexists fs cwd path = pLexistsS fs cwd path := by
  unfold pLexists pLexistsS; rw [lstat_eq] <;> rfl
theorem pExists_eq (fs : FS) (cwd : CPath) (path : Bytes) : pExists fs cwd path = pExistsS fs cwd path := by
  unfold pExists pExistsS; rw [stat_eq] <;> rfl
theorem pIsdir_eq (fs : FS) (cwd : CPath) (path : Bytes) : pIsdir fs cwd path = pIsdirS fs cwd path := by
  unfold pIsdir pIsdirS; rw [stat_eq] <;> rfl
theorem pIslink_eq (fs : FS) (cwd : CPath) (path : Bytes) : pIslink fs cwd path = pIslinkS fs cwd path := by
  unfold pIslink pIslinkS; rw [lstat_eq] <;> rfl
theorem pSticky_eq (fs : FS) (cwd : CPath) (path : Bytes) : pSticky fs cwd path = pStickyS fs cwd path := by
  unfold pSticky pStickyS; rw [stat_eq] <;> rfl

def realpathS (fs : FS) (cwd : CPath) (path : Bytes) : Option CPath :=
  realS fs linkFuel (if isAbs path then [] else cwd) (comps path)
theorem realpath_eq (fs : FS) (cwd : CPath) (path : Bytes) : realpath fs cwd path = realpathS fs cwd path := by
  unfold realpath realpathS; rw [real_eq] <;> rfl

def pIsmountS (fs : FS) (cwd : CPath) (path : Bytes) : Bool :=
  match resolveS fs cwd path with
  | .ok p => match fs.get p with
    | some (.link _) => false
    | some _ => isMount fs p
    | none => false
  | .error _ => false
theorem pIsmount_eq (fs : FS) (cwd : CPath) (path : Bytes) : pIsmount fs cwd path = pIsmountS fs cwd path := by
  unfold pIsmount pIsmountS; simp only [resolve_eq] <;> rfl

def volumeOfAuxS (fs : FS) (cwd : CPath) : Nat → Bytes → Bytes
  | 0, p => p
  | fuel+1, p =>
    if p = dirname p then p
    else if pIsmountS fs cwd p then p
    else volumeOfAuxS fs cwd fuel (dirname p)
theorem volumeOfAux_eq (fs : FS) (cwd : CPath) : ∀ (fuel : Nat) (p : Bytes),
    volumeOfAux fs cwd fuel p = volumeOfAuxS fs cwd fuel p := by
  intro fuel
  induction fuel with
  | zero => intro p; rfl
  | succ n ih => intro p; unfold volumeOfAux volumeOfAuxS; simp only [pIsmount_eq, ih]

def volumeOfS (fs : FS) (cwd : CPath) (path : Bytes) : Bytes :=
  let a := abspath (toStr cwd) path
  volumeOfAuxS fs cwd (a.length + 1) a
theorem volumeOf_eq (fs : FS) (cwd : CPath) (path : Bytes) : volumeOf fs cwd path = volumeOfS fs cwd path := by
  unfold volumeOf volumeOfS; simp only [volumeOfAux_eq] <;> rfl

/-! ### the decision functions of Model/Put.lean -/

def candidatesForS (fs : FS) (c : PutCfg) (volume : Bytes) : List Candidate :=
  let specific := match c.trashDir with | some d => d | none => []
  if specific ≠ [] then
    [{ path := specific, volume := volumeOfS fs c.cwd specific, relative := true, topCheck := false, gate := .sameVolume }]
  else
    let homes := (homeTrashPaths c.env).map fun p =>
      ({ path := p, volume := volumeOfS fs c.cwd p, relative := false, topCheck := false, gate := .sameVolume } : Candidate)
    let uid := Bytes.ofNat c.uid
    let t1 : Candidate := { path := pjoin volume (b ".Trash/" ++ uid), volume := volume, relative := true,
                            topCheck := true, gate := .sameVolume }
    let t2 : Candidate := { path := pjoin volume (b ".Trash-" ++ uid), volume := volume, relative := true,
                            topCheck := false, gate := .sameVolume }
    homes ++ [t1, t2] ++ (if c.homeFallback then homes.map fun h => { h with gate := .homeFallback } else [])
theorem candidatesFor_eq (fs : FS) (c : PutCfg) (volume : Bytes) :
    candidatesFor fs c volume = candidatesForS fs c volume := by
  unfold candidatesFor candidatesForS; simp only [volumeOf_eq] <;> rfl

def securityCheckS (fs : FS) (cwd : CPath) (cand : Candidate) : Option Reason :=
  if ¬ cand.topCheck then none
  else
    let parent := dirname cand.path
    if ¬ pLexistsS fs cwd parent then some .noParent
    else if ¬ pIsdirS fs cwd parent then some .parentIsFile
    else if pIslinkS fs cwd parent then some .parentSymlink
    else if pStickyS fs cwd parent ≠ some true then some .parentNotSticky
    else none
theorem securityCheck_eq (fs : FS) (cwd : CPath) (cand : Candidate) :
    securityCheck fs cwd cand = securityCheckS fs cwd cand := by
  unfold securityCheck securityCheckS; simp only [pLexists_eq, pIsdir_eq, pIslink_eq, pSticky_eq] <;> rfl

def realpathStrS (fs : FS) (cwd : CPath) (p : Bytes) : Bytes :=
  match realpathS fs cwd p with
  | some c => toStr c
  | none => p
theorem realpathStr_eq (fs : FS) (cwd : CPath) (p : Bytes) : realpathStr fs cwd p = realpathStrS fs cwd p := by
  unfold realpathStr realpathStrS; rw [realpath_eq] <;> rfl

def gateCheckS (fs : FS) (c : PutCfg) (volume : Bytes) (cand : Candidate) : Option Reason :=
  match cand.gate with
  | .homeFallback => if c.env.fallbackEnv = some (b "1") then none else some .fallbackDisabled
  | .sameVolume =>
    let tv := volumeOfS fs c.cwd (realpathStrS fs c.cwd cand.path)
    if tv = volume then none else some .differentVolumes
theorem gateCheck_eq (fs : FS) (c : PutCfg) (volume : Bytes) (cand : Candidate) :
    gateCheck fs c volume cand = gateCheckS fs c volume cand := by
  unfold gateCheck gateCheckS; simp only [volumeOf_eq, realpathStr_eq] <;> rfl

def originalLocationS (fs : FS) (cwd : CPath) (path : Bytes) (cand : Candidate) : Bytes :=
  let normalized := normpath path
  let base := basename normalized
  let parent := realpathStrS fs cwd (dirname normalized)
  let parent' :=
    if cand.relative then
      let pre := rstripSlash cand.volume ++ [slash]
      if parent = cand.volume ∨ startsWith parent pre then parent.drop pre.length else parent
    else parent
  pjoin parent' base
theorem originalLocation_eq (fs : FS) (cwd : CPath) (path : Bytes) (cand : Candidate) :
    originalLocation fs cwd path cand = originalLocationS fs cwd path cand := by
  unfold originalLocation originalLocationS; simp only [realpathStr_eq] <;> rfl

def dirCS (fs : FS) (cwd : CPath) (p : Bytes) : CPath := (realpathS fs cwd p).getD []
theorem dirC_eq (fs : FS) (cwd : CPath) (p : Bytes) : dirC fs cwd p = dirCS fs cwd p := by
  unfold dirC dirCS; rw [realpath_eq] <;> rfl

/-! ### the programs of Model/Put.lean -/

def danglingOnPathS (fs : FS) (cwd : CPath) (p : Bytes) : Option Errno :=
  match (strPrefixes p).find? (fun q => ¬ pExistsS fs cwd q) with
  | none => none
  | some q =>
    if pLexistsS fs cwd q then
      some (if (strPrefixes p).getLast? = some q then .EEXIST else .ENOENT)
    else none
theorem danglingOnPath_eq (fs : FS) (cwd : CPath) (p : Bytes) :
    danglingOnPath fs cwd p = danglingOnPathS fs cwd p := by
  unfold danglingOnPath danglingOnPathS; simp only [pExists_eq, pLexists_eq] <;> rfl

def mkdirPStrS (cwd : CPath) (path : Bytes) (mode : Nat) : Prog Res := do
  let fs ← read
  match danglingOnPathS fs cwd path with
  | some e => pure (.error e)
  | none => mkdirP (dirCS fs cwd path) mode
theorem mkdirPStr_eq (cwd : CPath) (path : Bytes) (mode : Nat) :
    mkdirPStr cwd path mode = mkdirPStrS cwd path mode := by
  unfold mkdirPStr mkdirPStrS; simp only [danglingOnPath_eq, dirC_eq] <;> rfl

def trashFileInS (c : PutCfg) (path volume : Bytes) (cand : Candidate) (st : PutSt) :
    Prog (Except Reason Bytes × PutSt) := do
  let fs ← read
  match securityCheckS fs c.cwd cand with
  | some r => pure (.error r, st)
  | none =>
  match gateCheckS fs c volume cand with
  | some r => pure (.error r, st)
  | none =>
  match ← mkdirPStrS c.cwd cand.path 0o700 with
  | .error e => pure (.error (.mkdirError e), st)
  | .ok () =>
  match ← mkdirPStrS c.cwd (pjoin cand.path (b "files")) 0o700 with
  | .error e => pure (.error (.mkdirError e), st)
  | .ok () =>
  match ← mkdirPStrS c.cwd (pjoin cand.path (b "info")) 0o700 with
  | .error e => pure (.error (.mkdirError e), st)
  | .ok () =>
  let fs ← read
  let filesC := dirCS fs c.cwd (pjoin cand.path (b "files"))
  let infoC := dirCS fs c.cwd (pjoin cand.path (b "info"))
  let fs ← read
  let loc := originalLocationS fs c.cwd path cand
  let content := formatTrashinfoWith loc c.dateStr
  let srcStr := normpath path
  putCore infoC filesC (basename loc) content
    (fun fs' => if pIsmountS fs' c.cwd srcStr then .error .EBUSY else resolveS fs' c.cwd srcStr) st

theorem trashFileIn_eq (c : PutCfg) (path volume : Bytes) (cand : Candidate) (st : PutSt) :
    trashFileIn c path volume cand st = trashFileInS c path volume cand st := by
  unfold trashFileIn trashFileInS
  simp only [securityCheck_eq, gateCheck_eq, dirC_eq, originalLocation_eq, pIsmount_eq, resolve_eq,
    mkdirPStr_eq] <;> rfl

def tryCandidatesS (c : PutCfg) (path volume : Bytes) :
    List Candidate → List Reason → PutSt → Prog (ArgOutcome × PutSt)
  | [], reasons, st => pure (.failedAll reasons.reverse, st)
  | cand :: rest, reasons, st => do
    let (r, st) ← trashFileInS c path volume cand st
    match r with
    | .ok name => pure (.trashed cand.path name, st)
    | .error (.cleanupCrash e) => pure (.crashed e, st)
    | .error reason => tryCandidatesS c path volume rest (reason :: reasons) st

theorem tryCandidates_eq (c : PutCfg) (path volume : Bytes) : ∀ (cands : List Candidate) (reasons : List Reason) (st : PutSt),
    tryCandidates c path volume cands reasons st = tryCandidatesS c path volume cands reasons st := by
  intro cands
  induction cands with
  | nil => intro reasons st; rfl
  | cons cand rest ih =>
    intro reasons st
    unfold tryCandidates tryCandidatesS
    simp only [trashFileIn_eq, ih] <;> rfl

def trashSingleS (c : PutCfg) (path : Bytes) (st : PutSt) : Prog (Except PutCrash ArgOutcome × PutSt) := do
  if isDotEntry (rstripSlash path) then pure (.ok .failedDot, st)
  else
    let fs ← read
    if ¬ pLexistsS fs c.cwd path then
      pure (.ok (if c.mode = .force then .skippedMissing else .failedMissing), st)
    else
      let ask := c.mode = .interactive ∧ pExistsS fs c.cwd path
      let proceed : Except PutCrash Bool × PutSt :=
        if ask then
          match st.replies with
          | [] => (.error .eof, st)
          | r :: rs => (.ok (putReplyYes r), { st with replies := rs })
        else (.ok true, st)
      match proceed with
      | (.error e, st) => pure (.error e, st)
      | (.ok false, st) => pure (.ok .declined, st)
      | (.ok true, st) =>
        let volume := match c.forcedVolume with
          | some v => if v ≠ [] then v else volumeOfS fs c.cwd (realpathStrS fs c.cwd (dirname (let p := rstripSlash path; if p = [] then path else p)))
          | none => volumeOfS fs c.cwd (realpathStrS fs c.cwd (dirname (let p := rstripSlash path; if p = [] then path else p)))
        let (o, st) ← tryCandidatesS c path volume (candidatesForS fs c volume) [] st
        pure (.ok o, st)

theorem trashSingle_eq (c : PutCfg) (path : Bytes) (st : PutSt) :
    trashSingle c path st = trashSingleS c path st := by
  unfold trashSingle trashSingleS
  simp only [pLexists_eq, pExists_eq, volumeOf_eq, realpathStr_eq, candidatesFor_eq, tryCandidates_eq] <;> rfl

def putAllS (c : PutCfg) : List Bytes → PutSt → List (Bytes × ArgOutcome) → Prog PutResult
  | [], _, acc =>
    let os := acc.reverse
    pure { outcomes := os, crash := none, exit := if os.any (·.2.failed) then 74 else 0 }
  | a :: rest, st, acc => do
    let (r, st) ← trashSingleS c a st
    match r with
    | .error e =>
      say (.stderr "traceback" (b "EOFError"))
      pure { outcomes := acc.reverse, crash := some e, exit := 1 }
    | .ok (.crashed _) =>
      say (.stderr "traceback" (b "OSError"))
      pure { outcomes := acc.reverse, crash := some .cleanup, exit := 1 }
    | .ok o =>
      if o.failed then say (.stderr "cannot-trash" a)
      putAllS c rest st ((a, o) :: acc)

theorem putAll_eq (c : PutCfg) : ∀ (args : List Bytes) (st : PutSt) (acc : List (Bytes × ArgOutcome)),
    putAll c args st acc = putAllS c args st acc := by
  intro args
  induction args with
  | nil => intro st acc; rfl
  | cons a rest ih =>
    intro st acc
    unfold putAll putAllS
    simp only [trashSingle_eq, ih] <;> rfl

def runPutS (c : PutCfg) (args : List Bytes) (st : PutSt) : Prog PutResult := putAllS c args st []

theorem runPut_eq (c : PutCfg) (args : List Bytes) (st : PutSt) : runPut c args st = runPutS c args st :=
  putAll_eq c args st []

end TrashVerif.Proofs.C16Eval
