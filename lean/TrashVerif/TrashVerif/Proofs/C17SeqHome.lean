/-
  Proofs/C17SeqHome.lean — the single-fault split of Proofs/C17Seq.lean in the everyday setting
  (`HomeWorld`, `HomeItems`): the arguments in front of the one the fault lands in are trashed whole
  (C01Seq frame), and the hypotheses still hold for the faulted argument and those behind it.
-/
import TrashVerif.Proofs.C17Seq
import TrashVerif.Proofs.C01Seq
namespace TrashVerif.Proofs.C17SeqHome
open TrashVerif Prog FS PutCore C16Indep C16Seq C01Seq SingleFault
open TrashVerif.Proofs.C16Seq TrashVerif.Proofs.C16SeqHome TrashVerif.Proofs.C17Seq

theorem items_prefix {c : PutCfg} {fs : FS} {H : CPath} {st : PutSt} {pre rest : List Item}
    (HI : HomeItems c fs H st (pre ++ rest)) : HomeItems c fs H st pre :=
  { good := fun x hx => HI.good x (List.mem_append_left _ hx)
    core := fun x hx => HI.core x (List.mem_append_left _ hx)
    unrel := HI.unrel.sublist (List.sublist_append_left _ _)
    names := HI.names.sublist (List.sublist_append_left _ _) }

/-- the hypotheses on the arguments behind a fault-free prefix survive it -/
theorem after_pre {c : PutCfg} {H : CPath} {st : PutSt} (rest : List Item) :
    ∀ (pre : List Item) (fs : FS), HomeWorld c fs H → HomeItems c fs H st (pre ++ rest) →
      HomeWorld c (coreFs c H st pre fs) H ∧ HomeItems c (coreFs c H st pre fs) H st rest := by
  intro pre
  induction pre with
  | nil => intro fs W HI; exact ⟨W, HI⟩
  | cons x pre ih =>
    intro fs W HI
    obtain ⟨W', HI'⟩ := items_after (x := x) (rest := pre ++ rest) W HI
    exact ih _ W' HI'

/-- the loop state a fault-free prefix of everyday arguments leaves -/
theorem pre_fold {c : PutCfg} {H : CPath} {st : PutSt} (hints : st.ints = []) (rest : List Item) :
    ∀ (pre : List Item) (fs : FS) (acc : List (Bytes × ArgOutcome)) (s : RunState), s.fs = fs →
      HomeWorld c fs H → HomeItems c fs H st (pre ++ rest) →
      ∃ s1, (pre.map Item.arg).foldl (stepArg noFaults c) ⟨acc, none, st, s⟩ =
          ⟨acc ++ pre.map (fun x => (x.arg, ArgOutcome.trashed (homeStr H) x.name)), none, st, s1⟩ ∧
        s1.fs = coreFs c H st pre fs := by
  intro pre
  induction pre with
  | nil => intro fs acc s hs _ _; exact ⟨s, by simp, hs⟩
  | cons x pre ih =>
    intro fs acc s hs W HI
    have HI0 : HomeItems c fs H st (x :: (pre ++ rest)) := HI
    obtain ⟨s1, e1, e2, _⟩ := step_home W (HI0.good x List.mem_cons_self) hints (HI0.core x List.mem_cons_self) acc s hs
    obtain ⟨W', HI'⟩ := items_after W HI0
    obtain ⟨s2, f1, f2⟩ := ih _ (acc ++ [(x.arg, .trashed (homeStr H) x.name)]) s1 e2 W' HI'
    refine ⟨s2, ?_, f2⟩
    rw [List.map_cons, List.foldl_cons, e1, f1]
    simp

/-- THE SPLIT IN THE EVERYDAY SETTING -/
theorem home_split {c : PutCfg} {fs : FS} {H : CPath} {st : PutSt} {items : List Item} {φ : Oracle} {k : Nat}
    (W : HomeWorld c fs H) (hints : st.ints = []) (HI : HomeItems c fs H st items) (h : FaultOnlyAt φ k) :
    (putSeq φ c (items.map Item.arg) st { fs := fs } = putSeq noFaults c (items.map Item.arg) st { fs := fs } ∧
      (putSeq φ c (items.map Item.arg) st { fs := fs }).s.n ≤ k) ∨
    (∃ pre x suf s1, items = pre ++ x :: suf ∧
      putSeq φ c (pre.map Item.arg) st { fs := fs } = putSeq noFaults c (pre.map Item.arg) st { fs := fs } ∧
      putSeq noFaults c (pre.map Item.arg) st { fs := fs } =
        ⟨pre.map (fun y => (y.arg, ArgOutcome.trashed (homeStr H) y.name)), none, st, s1⟩ ∧
      AllTrashed c H fs s1.fs pre ∧ HomeWorld c s1.fs H ∧ HomeItems c s1.fs H st (x :: suf) ∧
      s1.n ≤ k ∧ k < (run φ (putOne c x.arg st) s1).2.n ∧
      putSeq φ c (items.map Item.arg) st { fs := fs } =
        (suf.map Item.arg).foldl (stepArg noFaults c)
          (stepArg φ c ⟨pre.map (fun y => (y.arg, ArgOutcome.trashed (homeStr H) y.name)), none, st, s1⟩ x.arg)) := by
  rcases fold_split h c (items.map Item.arg) (initSt st { fs := fs }) (Nat.zero_le _) with h1 | ⟨pre', a, suf', e, h2, h3, h4, h5⟩
  · exact .inl h1
  · obtain ⟨pre, r, rfl, rfl, er⟩ := List.map_eq_append_iff.1 e
    obtain ⟨x, suf, rfl, rfl, rfl⟩ := List.map_eq_cons_iff.1 er
    obtain ⟨s1, f1, f2⟩ := pre_fold hints (x :: suf) pre fs [] { fs := fs } rfl W HI
    rw [List.nil_append] at f1
    have f1' : (pre.map Item.arg).foldl (stepArg noFaults c) (initSt st { fs := fs }) =
        ⟨pre.map (fun y => (y.arg, ArgOutcome.trashed (homeStr H) y.name)), none, st, s1⟩ := f1
    obtain ⟨W', HI'⟩ := after_pre (x :: suf) pre fs W HI
    rw [f1'] at h3 h4 h5
    refine .inr ⟨pre, x, suf, s1, rfl, h2, f1', ?_, ?_, ?_, h3, ?_, h5⟩
    · rw [f2]; exact Proofs.C01Seq.chain pre fs W (items_prefix HI)
    · rw [f2]; exact W'
    · rw [f2]; exact HI'
    · rw [stepArg_n φ c _ _ rfl] at h4; exact h4

/-! ### the fault lands in the LAST argument -/

theorem step_before' {φ : Oracle} {k : Nat} (h : FaultOnlyAt φ k) (c : PutCfg) (σ : SeqSt) (a : Bytes)
    (hk : (stepArg noFaults c σ a).s.n ≤ k) : stepArg φ c σ a = stepArg noFaults c σ a := by
  cases hc : σ.crash with
  | some e => unfold stepArg; simp only [hc]
  | none =>
    rw [stepArg_n noFaults c σ a hc] at hk
    have e := TrashVerif.Proofs.C17Single.run_congr_upto (φ := noFaults) (ψ := φ) k
      (TrashVerif.Proofs.C17Single.agree_below h) _ _ hk
    unfold stepArg
    rw [e]

theorem foldl_before' {φ : Oracle} {k : Nat} (h : FaultOnlyAt φ k) (c : PutCfg) :
    ∀ (args : List Bytes) (σ : SeqSt), (args.foldl (stepArg noFaults c) σ).s.n ≤ k →
      args.foldl (stepArg φ c) σ = args.foldl (stepArg noFaults c) σ := by
  intro args
  induction args with
  | nil => intro σ _; rfl
  | cons a rest ih =>
    intro σ hk
    rw [List.foldl_cons] at hk
    have := foldl_n_le noFaults c rest (stepArg noFaults c σ a)
    rw [List.foldl_cons, List.foldl_cons, step_before' h c σ a (by omega)]
    exact ih _ hk

theorem any_append_one (H : CPath) (pre : List Item) (a : Bytes) (o : ArgOutcome) :
    (pre.map (fun y => (y.arg, ArgOutcome.trashed (homeStr H) y.name)) ++ [(a, o)]).any (·.2.failed) = o.failed := by
  rw [List.any_append, any_failed_trashed]
  simp

/-- the fault is not delivered to the prefix `pre`: the prefix is trashed whole, then the last argument
    `x` is handled under the oracle from the state the prefix left, and the exit status and the
    diagnostic are those of `x` alone -/
theorem last_arg {c : PutCfg} {fs : FS} {H : CPath} {st : PutSt} {pre : List Item} {x : Item} {φ : Oracle} {k : Nat}
    (W : HomeWorld c fs H) (hints : st.ints = []) (HI : HomeItems c fs H st (pre ++ [x])) (h : FaultOnlyAt φ k)
    (hk : (putSeq noFaults c (pre.map Item.arg) st { fs := fs }).s.n ≤ k) :
    ∃ s1, putSeq φ c (pre.map Item.arg) st { fs := fs } =
        ⟨pre.map (fun y => (y.arg, ArgOutcome.trashed (homeStr H) y.name)), none, st, s1⟩ ∧
      AllTrashed c H fs s1.fs pre ∧ HomeWorld c s1.fs H ∧ HomeItems c s1.fs H st [x] ∧
      (run φ (runPut c ((pre ++ [x]).map Item.arg) st) { fs := fs }).2 = (run φ (putOne c x.arg st) s1).2 ∧
      (∀ o, (run φ (putOne c x.arg st) s1).1.1 = .ok o →
        (run φ (runPut c ((pre ++ [x]).map Item.arg) st) { fs := fs }).1.outcomes =
          pre.map (fun y => (y.arg, ArgOutcome.trashed (homeStr H) y.name)) ++ [(x.arg, o)] ∧
        (run φ (runPut c ((pre ++ [x]).map Item.arg) st) { fs := fs }).1.crash = none ∧
        ((run φ (runPut c ((pre ++ [x]).map Item.arg) st) { fs := fs }).1.exit = 0 ↔ o.failed = false) ∧
        (o.failed = true →
          (run φ (runPut c ((pre ++ [x]).map Item.arg) st) { fs := fs }).1.exit = 74 ∧
          Out.stderr "cannot-trash" x.arg ∈ (run φ (putOne c x.arg st) s1).2.outs)) ∧
      (∀ e, (run φ (putOne c x.arg st) s1).1.1 = .error e →
        (run φ (runPut c ((pre ++ [x]).map Item.arg) st) { fs := fs }).1.crash = some e ∧
        (run φ (runPut c ((pre ++ [x]).map Item.arg) st) { fs := fs }).1.exit = 1) := by
  obtain ⟨s1, f1, f2⟩ := pre_fold hints [x] pre fs [] { fs := fs } rfl W HI
  rw [List.nil_append] at f1
  have f1' : putSeq noFaults c (pre.map Item.arg) st { fs := fs } =
      ⟨pre.map (fun y => (y.arg, ArgOutcome.trashed (homeStr H) y.name)), none, st, s1⟩ := f1
  have e0 : putSeq φ c (pre.map Item.arg) st { fs := fs } = putSeq noFaults c (pre.map Item.arg) st { fs := fs } :=
    foldl_before' h c _ _ hk
  obtain ⟨W', HI'⟩ := after_pre [x] pre fs W HI
  have hrun : run φ (runPut c ((pre ++ [x]).map Item.arg) st) { fs := fs } =
      finish (stepArg φ c ⟨pre.map (fun y => (y.arg, ArgOutcome.trashed (homeStr H) y.name)), none, st, s1⟩ x.arg) := by
    rw [run_is_fold, List.map_append, putSeq_append, e0, f1']
    rfl
  refine ⟨s1, by rw [e0, f1'], ?_, ?_, ?_, ?_, ?_, ?_⟩
  · rw [f2]; exact Proofs.C01Seq.chain pre fs W (items_prefix HI)
  · rw [f2]; exact W'
  · rw [f2]; exact HI'
  · rw [hrun]; exact stepArg_n φ c _ _ rfl
  · intro o ho
    have hs : stepArg φ c ⟨pre.map (fun y => (y.arg, ArgOutcome.trashed (homeStr H) y.name)), none, st, s1⟩ x.arg =
        ⟨pre.map (fun y => (y.arg, ArgOutcome.trashed (homeStr H) y.name)) ++ [(x.arg, o)], none,
          (run φ (putOne c x.arg st) s1).1.2, (run φ (putOne c x.arg st) s1).2⟩ := by
      rw [stepArg_go φ c _ _ rfl]
      simp only [ho]
    rw [hrun, hs]
    have hex : exitOf ⟨pre.map (fun y => (y.arg, ArgOutcome.trashed (homeStr H) y.name)) ++ [(x.arg, o)], none,
          (run φ (putOne c x.arg st) s1).1.2, (run φ (putOne c x.arg st) s1).2⟩ = if o.failed = true then 74 else 0 := by
      unfold exitOf
      simp only [any_append_one]
    refine ⟨rfl, rfl, ?_, ?_⟩
    · simp only [finish]
      rw [hex]
      cases o.failed <;> simp
    · intro hf
      refine ⟨?_, ?_⟩
      · simp only [finish]
        rw [hex, if_pos hf]
      · exact (putOne_ok φ c x.arg st s1 o ho).2.2 hf
  · intro e he
    have hs : stepArg φ c ⟨pre.map (fun y => (y.arg, ArgOutcome.trashed (homeStr H) y.name)), none, st, s1⟩ x.arg =
        ⟨pre.map (fun y => (y.arg, ArgOutcome.trashed (homeStr H) y.name)), some e,
          (run φ (putOne c x.arg st) s1).1.2, (run φ (putOne c x.arg st) s1).2⟩ := by
      rw [stepArg_go φ c _ _ rfl]
      simp only [he]
    rw [hrun, hs]
    exact ⟨rfl, rfl⟩

end TrashVerif.Proofs.C17SeqHome
