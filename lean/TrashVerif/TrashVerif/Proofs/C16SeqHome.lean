/-
  Proofs/C16SeqHome.lean — N everyday arguments: `C16Indep.home_pair_independent_partial` lifted to an
  argument list of any length, by induction over the fold of Props/C16SeqDefs.lean.
-/
import TrashVerif.Proofs.C16Seq
import TrashVerif.Proofs.C16IndepHome
namespace TrashVerif.Proofs.C16SeqHome
open TrashVerif Prog FS PutCore PutLemmas C16Indep C16Seq
open TrashVerif.Proofs.C16Seq
open TrashVerif.Proofs.C16IndepHome
open TrashVerif.Proofs.C16IndepCore (core_after_trashed)

/-- the hypotheses on the arguments that follow survive the trashing of the first one -/
theorem items_after {c : PutCfg} {fs : FS} {H : CPath} {st : PutSt} {x : Item} {rest : List Item}
    (W : HomeWorld c fs H) (HI : HomeItems c fs H st (x :: rest)) :
    let fs' := (run noFaults (homeCore c H x.P x.n st) { fs := fs }).2.fs
    HomeWorld c fs' H ∧ HomeItems c fs' H st rest := by
  intro fs'
  have Aa := HI.good x List.mem_cons_self
  have hA := HI.core x List.mem_cons_self
  have SA := W_setting W Aa
  have hra : run noFaults (homeCore c H x.P x.n st) { fs := fs } =
      ((.ok x.name, (run noFaults (homeCore c H x.P x.n st) { fs := fs }).1.2),
        (run noFaults (homeCore c H x.P x.n st) { fs := fs }).2) := Prod.ext (Prod.ext hA rfl) rfl
  have T : Trashed fs fs' (infoC H) (filesC H) (x.P ++ [x.n]) x.name _ :=
    C01.put_ok_moves_whole fs (infoC H) (filesC H) (x.P ++ [x.n]) _ _ st _ SA x.name _ hra
  have hm : fs'.mounts = fs.mounts := C02.run_mounts noFaults _ { fs := fs }
  have hun := List.pairwise_cons.1 HI.unrel
  have hnm := List.pairwise_cons.1 HI.names
  refine ⟨world_after W Aa T hm, ?_, ?_, hun.2, hnm.2⟩
  · intro y hy
    exact arg_after W (HI.good y (List.mem_cons_of_mem _ hy)) (hun.1 y hy) T hm
  · intro y hy
    have Ad := HI.good y (List.mem_cons_of_mem _ hy)
    have hn := namesApart_home W Aa Ad st x.name hA (hnm.1 y hy)
    have hcore := core_after_trashed T hm SA (W_setting W Ad) (apart_home Aa Ad (hun.1 y hy))
      (basename (locOf y.P y.n)) (formatTrashinfoWith (locOf y.P y.n) c.dateStr) hn st
    unfold homeCore; rw [hcore]; exact HI.core y (List.mem_cons_of_mem _ hy)

/-- one everyday argument in the loop -/
theorem step_home {c : PutCfg} {fs : FS} {H : CPath} {st : PutSt} {x : Item} (W : HomeWorld c fs H)
    (A : GoodArg fs H x.P x.n) (hints : st.ints = [])
    (hok : (run noFaults (homeCore c H x.P x.n st) { fs := fs }).1.1 = .ok x.name)
    (acc : List (Bytes × ArgOutcome)) (s : RunState) (hs : s.fs = fs) :
    ∃ s1, stepArg noFaults c ⟨acc, none, st, s⟩ x.arg = ⟨acc ++ [(x.arg, .trashed (homeStr H) x.name)], none, st, s1⟩ ∧
      s1.fs = (run noFaults (homeCore c H x.P x.n st) { fs := fs }).2.fs ∧
      s1 = (run noFaults (putOne c x.arg st) s).2 := by
  obtain ⟨h1, h2⟩ := trashSingle_home W A st s hs x.name hok
  rw [homeCore_noints W A st hints] at h1
  rw [stepArg_go noFaults c _ _ rfl]
  show ∃ s1, (match (run noFaults (putOne c x.arg st) s).1.1 with
      | .ok o => (⟨acc ++ [(x.arg, o)], none, (run noFaults (putOne c x.arg st) s).1.2,
          (run noFaults (putOne c x.arg st) s).2⟩ : SeqSt)
      | .error e => ⟨acc, some e, (run noFaults (putOne c x.arg st) s).1.2,
          (run noFaults (putOne c x.arg st) s).2⟩) = _ ∧ _
  rw [run_putOne]
  unfold Item.arg
  generalize run noFaults (trashSingle c (toStr (x.P ++ [x.n])) st) s = R at h1 h2
  obtain ⟨⟨r, st1⟩, s1⟩ := R
  simp only at h1 h2
  cases h1
  exact ⟨s1, rfl, h2, rfl⟩

theorem home_fold {c : PutCfg} {H : CPath} {st : PutSt} (hints : st.ints = []) :
    ∀ (items : List Item) (fs : FS) (acc : List (Bytes × ArgOutcome)) (s : RunState), s.fs = fs →
      HomeWorld c fs H → HomeItems c fs H st items →
      ((items.map Item.arg).foldl (stepArg noFaults c) ⟨acc, none, st, s⟩).outcomes =
        acc ++ items.map (fun x => (x.arg, ArgOutcome.trashed (homeStr H) x.name)) ∧
      ((items.map Item.arg).foldl (stepArg noFaults c) ⟨acc, none, st, s⟩).crash = none := by
  intro items
  induction items with
  | nil => intro fs acc s _ _ _; exact ⟨by simp, rfl⟩
  | cons x rest ih =>
    intro fs acc s hs W HI
    obtain ⟨s1, e1, e2, _⟩ := step_home W (HI.good x List.mem_cons_self) hints (HI.core x List.mem_cons_self) acc s hs
    obtain ⟨W', HI'⟩ := items_after W HI
    rw [List.map_cons, List.foldl_cons, e1]
    obtain ⟨i1, i2⟩ := ih _ (acc ++ [(x.arg, .trashed (homeStr H) x.name)]) s1 e2 W' HI'
    refine ⟨?_, i2⟩
    rw [i1]; simp

theorem any_failed_trashed (H : CPath) (items : List Item) :
    ((items.map (fun x => (x.arg, ArgOutcome.trashed (homeStr H) x.name))).any (·.2.failed)) = false := by
  induction items with
  | nil => rfl
  | cons x rest ih => rw [List.map_cons, List.any_cons, ih]; rfl

theorem n_home {c : PutCfg} {fs : FS} {H : CPath} {st : PutSt} {items : List Item} (W : HomeWorld c fs H)
    (hints : st.ints = []) (HI : HomeItems c fs H st items) :
    (run noFaults (runPut c (items.map Item.arg) st) { fs := fs }).1.outcomes =
      items.flatMap (fun x => (run noFaults (runPut c [x.arg] st) { fs := fs }).1.outcomes) ∧
    (∀ x ∈ items, (run noFaults (runPut c [x.arg] st) { fs := fs }).1.outcomes =
      [(x.arg, .trashed (homeStr H) x.name)] ∧
      (run noFaults (runPut c [x.arg] st) { fs := fs }).1.exit = 0) ∧
    (run noFaults (runPut c (items.map Item.arg) st) { fs := fs }).1.crash = none ∧
    (run noFaults (runPut c (items.map Item.arg) st) { fs := fs }).1.exit = 0 := by
  have alone : ∀ x ∈ items, (run noFaults (runPut c [x.arg] st) { fs := fs }).1.outcomes =
      [(x.arg, .trashed (homeStr H) x.name)] ∧ (run noFaults (runPut c [x.arg] st) { fs := fs }).1.exit = 0 := by
    intro x hx
    have := alone_home W (HI.good x hx) st x.name (HI.core x hx)
    exact ⟨this.1, this.2.2.1⟩
  obtain ⟨f1, f2⟩ := home_fold hints items fs [] { fs := fs } rfl W HI
  rw [List.nil_append] at f1
  rw [run_is_fold]
  unfold finish exitOf putSeq initSt
  simp only [f1, f2, any_failed_trashed]
  refine ⟨?_, alone, trivial, rfl⟩
  clear f1 f2 HI
  induction items with
  | nil => rfl
  | cons x rest ih =>
    rw [List.map_cons, List.flatMap_cons, (alone x List.mem_cons_self).1,
      ih (fun y hy => alone y (List.mem_cons_of_mem _ hy))]
    rfl

/-! ### non-vacuity of `HomeItems` (the world of Proofs/C16IndepHome.lean: HOME=/h, `/p/x`, `/p/y`) -/

namespace Ex
open TrashVerif.Proofs.C16IndepHome.Ex

def ix : Item := ⟨[b "p"], b "x", b "x.trashinfo"⟩
def iy : Item := ⟨[b "p"], b "y", b "y.trashinfo"⟩

theorem itemsXY : HomeItems cfgH fsH H st0 [ix, iy] :=
  { good := by
      intro x hx
      simp only [List.mem_cons, List.not_mem_nil, or_false] at hx
      rcases hx with rfl | rfl
      · exact argX
      · exact argY
    core := by
      intro x hx
      simp only [List.mem_cons, List.not_mem_nil, or_false] at hx
      rcases hx with rfl | rfl
      · exact coreX
      · exact coreY
    unrel := List.Pairwise.cons (by
        intro y hy
        simp only [List.mem_cons, List.not_mem_nil, or_false] at hy
        subst hy; exact unrelatedXY) (List.Pairwise.cons (fun _ h => (by cases h)) List.Pairwise.nil)
    names := List.Pairwise.cons (by
        intro y hy
        simp only [List.mem_cons, List.not_mem_nil, or_false] at hy
        subst hy; exact variantsApart) (List.Pairwise.cons (fun _ h => (by cases h)) List.Pairwise.nil) }

end Ex

end TrashVerif.Proofs.C16SeqHome
