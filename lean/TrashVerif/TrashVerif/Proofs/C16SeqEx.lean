/-
  Proofs/C16SeqEx.lean — a concrete three-argument world for Props/C16Seq.lean (kernel-evaluated).
-/
import TrashVerif.Props.C16SeqDefs
import TrashVerif.Proofs.C16Indep
import TrashVerif.Proofs.C16Eval
namespace TrashVerif.Proofs.C16SeqEx
open TrashVerif Prog FS C16Seq
open TrashVerif.Proofs.C16Eval
open TrashVerif.Proofs.C16Indep.Cex (P D Fl cfg0 st0)

/-- `/h` (home, no trash directory yet), the file `/x`, the directory `/a` holding `/a/y`; one volume;
    nothing at `/nope` -/
def W3 : FS := FS.ofList [D "/", D "/h", Fl "/x", D "/a", Fl "/a/y"] [[]]

/-- as `cfg0` (HOME=/h, uid 0, cwd `/`), with `-f` -/
def cfgF : PutCfg := { cfg0 with mode := .force }

def args3 : List Bytes := [b "/x", b "/nope", b "/a"]

def homeT : Bytes := b "/h/.local/share/Trash"

theorem plain_run :
    (run noFaults (runPutS cfg0 args3 st0) { fs := W3 }).1.outcomes =
      [(b "/x", .trashed homeT (b "x.trashinfo")), (b "/nope", .failedMissing),
       (b "/a", .trashed homeT (b "a.trashinfo"))] ∧
    (run noFaults (runPutS cfg0 args3 st0) { fs := W3 }).1.crash = none ∧
    (run noFaults (runPutS cfg0 args3 st0) { fs := W3 }).1.exit = 74 ∧
    (run noFaults (runPutS cfg0 args3 st0) { fs := W3 }).2.outs = [.stderr "cannot-trash" (b "/nope")] ∧
    (run noFaults (runPutS cfg0 args3 st0) { fs := W3 }).2.fs.get (P "/x") = none ∧
    (run noFaults (runPutS cfg0 args3 st0) { fs := W3 }).2.fs.get (P "/a") = none ∧
    (run noFaults (runPutS cfg0 args3 st0) { fs := W3 }).2.fs.get (P "/h/.local/share/Trash/files/x") =
      some (.file [120] 0o644 0) ∧
    (run noFaults (runPutS cfg0 args3 st0) { fs := W3 }).2.fs.get (P "/h/.local/share/Trash/files/a/y") =
      some (.file [120] 0o644 0) := by decide +kernel

theorem force_run :
    (run noFaults (runPutS cfgF args3 st0) { fs := W3 }).1.outcomes =
      [(b "/x", .trashed homeT (b "x.trashinfo")), (b "/nope", .skippedMissing),
       (b "/a", .trashed homeT (b "a.trashinfo"))] ∧
    (run noFaults (runPutS cfgF args3 st0) { fs := W3 }).1.crash = none ∧
    (run noFaults (runPutS cfgF args3 st0) { fs := W3 }).1.exit = 0 ∧
    (run noFaults (runPutS cfgF args3 st0) { fs := W3 }).2.outs = [] ∧
    (run noFaults (runPutS cfgF args3 st0) { fs := W3 }).2.fs.toList =
      (run noFaults (runPutS cfg0 args3 st0) { fs := W3 }).2.fs.toList := by decide +kernel

end TrashVerif.Proofs.C16SeqEx
