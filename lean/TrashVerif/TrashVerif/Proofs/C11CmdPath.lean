/-
  Proofs/C11CmdPath.lean — path-string lemmas for Proofs/C11Cmd.lean, for ARBITRARY trash-directory
  strings `t` (`--trash-dir` arguments are taken verbatim: trailing slashes, the empty string):
  the info paths and orphan paths the readers build, and the payload path `path_of_backup_copy`
  derives from an info path, each denote a NAME directly below where `t/info` resp. `t/files` leads.
  For the payload path this is not a string identity when `t` ends with '/' (`a//` gives
  `a/files/N`, the readers list `a//files`): the two strings resolve alike (`resolve_files_sibling`).
-/
import TrashVerif.Proofs.C08Cmd
namespace TrashVerif.Proofs.C11Cmd
open TrashVerif Prog FS PutLemmas C04 C11 TrashVerif.C08Cmd TrashVerif.Proofs.C08Cmd

/-- The path string `i` denotes — in whatever state `b` that only shrank from a state `a` — a name
    directly below the place the directory string `D` leads to in `a` (links followed). -/
def Leads (cwd : CPath) (D i : Bytes) : Prop :=
  ∃ n, ∀ a b : FS, Shr a b → ∀ p, resolve b cwd i = .ok p → ∃ q, resolve a cwd D true = .ok q ∧ p = q ++ [n]

theorem info_leads (cwd : CPath) {t i : Bytes} (h : InfoForm t i) : Leads cwd (pjoin t (b "info")) i := by
  obtain ⟨n, rfl, _, hn⟩ := h
  exact ⟨n, fun _ _ hs _ hp => resolve_name_shr hs cwd (tidy_info t) hn hp⟩

theorem files_leads (cwd : CPath) {t i : Bytes} (h : FilesForm t i) : Leads cwd (pjoin t (b "files")) i := by
  obtain ⟨n, rfl, hn⟩ := h
  exact ⟨n, fun _ _ hs _ hp => resolve_name_shr hs cwd (tidy_files t) hn hp⟩

/-! ### empty components in the middle of a path are skipped -/

theorem walk_skip_empty (fs : FS) (fl : Bool) (fuel : Nat) :
    ∀ (pre : List Bytes) (cur : CPath) (r : Bytes) (rs : List Bytes),
      walk fs fl fuel cur (pre ++ [] :: r :: rs) = walk fs fl fuel cur (pre ++ r :: rs) := by
  induction fuel using Nat.strongRecOn with
  | _ fuel IH =>
  intro pre
  induction pre with
  | nil =>
    intro cur r rs
    simp only [List.nil_append]
    conv => lhs; rw [walk]
    cases hg : fs.get cur with
    | none =>
      conv => rhs; rw [walk]
      rw [hg]
    | some nd =>
      cases nd with
      | file d m t =>
        conv => rhs; rw [walk]
        rw [hg]
      | link t =>
        conv => rhs; rw [walk]
        rw [hg]
      | dir m t =>
        dsimp only
        rw [if_pos (Or.inl rfl)]
  | cons c pre ih =>
    intro cur r rs
    simp only [List.cons_append]
    conv => lhs; rw [walk]
    conv => rhs; rw [walk]
    cases hg : fs.get cur with
    | none => rfl
    | some nd =>
      cases nd with
      | file d m t => rfl
      | link t => rfl
      | dir m t =>
        simp only
        by_cases hc1 : c = [] ∨ c = [dot]
        · rw [if_pos hc1, if_pos hc1]; exact ih _ _ _
        · rw [if_neg hc1, if_neg hc1]
          by_cases hc2 : c = dotdot
          · rw [if_pos hc2, if_pos hc2]; exact ih _ _ _
          · rw [if_neg hc2, if_neg hc2]
            by_cases hc3 : c.length > nameMax
            · rw [if_pos hc3, if_pos hc3]
            · rw [if_neg hc3, if_neg hc3]
              have hne1 : pre ++ [] :: r :: rs ≠ [] := by simp
              have hne2 : pre ++ r :: rs ≠ [] := by simp
              cases hc : fs.get (cur ++ [c]) with
              | none =>
                simp only
                have : ((pre ++ [] :: r :: rs).all fun x => decide (x = [])) =
                    ((pre ++ r :: rs).all fun x => decide (x = [])) := by simp [List.all_append]
                rw [this]
              | some nc =>
                cases nc with
                | file d' m' t' => exact ih _ _ _
                | dir m' t' => exact ih _ _ _
                | link tgt =>
                  simp only
                  rw [if_pos (Or.inl hne1), if_pos (Or.inl hne2)]
                  cases fuel with
                  | zero => rfl
                  | succ f =>
                    simp only
                    by_cases ht : tgt = []
                    · rw [if_pos ht, if_pos ht]
                    · rw [if_neg ht, if_neg ht, ← List.append_assoc, ← List.append_assoc]
                      exact IH f (Nat.lt_succ_self f) _ _ _ _

theorem walk_skip_empties (fs : FS) (fl : Bool) (fuel : Nat) (cur : CPath) (r : Bytes) (rs : List Bytes) :
    ∀ (k : Nat) (pre : List Bytes),
      walk fs fl fuel cur (pre ++ List.replicate k [] ++ r :: rs) = walk fs fl fuel cur (pre ++ r :: rs) := by
  intro k
  induction k with
  | zero => intro pre; simp
  | succ k ih =>
    intro pre
    rw [List.replicate_succ', ← List.append_assoc, List.append_assoc _ [[]], List.singleton_append,
      walk_skip_empty, ih]

/-! ### following the final link makes no difference when the final entry is not a link -/

theorem walk_follow_eq (fs : FS) (fuel : Nat) :
    ∀ (cs : List Bytes) (cur : CPath),
      (∀ p, walk fs false fuel cur cs = .ok p → fs.isLinkAt p = false) →
      walk fs true fuel cur cs = walk fs false fuel cur cs := by
  induction fuel using Nat.strongRecOn with
  | _ fuel IH =>
  intro cs
  induction cs with
  | nil => intro cur _; rw [walk, walk]
  | cons c rest ih =>
    intro cur h
    conv => lhs; rw [walk]
    conv => rhs; rw [walk]
    rw [walk] at h
    cases hg : fs.get cur with
    | none => rfl
    | some nd =>
      rw [hg] at h
      cases nd with
      | file d m t => rfl
      | link t => rfl
      | dir m t =>
        simp only at h ⊢
        by_cases hc1 : c = [] ∨ c = [dot]
        · rw [if_pos hc1] at h; rw [if_pos hc1, if_pos hc1]; exact ih _ h
        · rw [if_neg hc1] at h; rw [if_neg hc1, if_neg hc1]
          by_cases hc2 : c = dotdot
          · rw [if_pos hc2] at h; rw [if_pos hc2, if_pos hc2]; exact ih _ h
          · rw [if_neg hc2] at h; rw [if_neg hc2, if_neg hc2]
            by_cases hc3 : c.length > nameMax
            · rw [if_pos hc3, if_pos hc3]
            · rw [if_neg hc3] at h; rw [if_neg hc3, if_neg hc3]
              cases hc : fs.get (cur ++ [c]) with
              | none => rfl
              | some nc =>
                rw [hc] at h
                cases nc with
                | file d' m' t' => exact ih _ h
                | dir m' t' => exact ih _ h
                | link tgt =>
                  simp only at h ⊢
                  by_cases hr : rest ≠ []
                  · rw [if_pos (Or.inl hr)] at h; rw [if_pos (Or.inl hr), if_pos (Or.inl hr)]
                    cases fuel with
                    | zero => rfl
                    | succ f =>
                      simp only at h ⊢
                      by_cases ht : tgt = []
                      · rw [if_pos ht, if_pos ht]
                      · rw [if_neg ht] at h; rw [if_neg ht, if_neg ht]
                        exact IH f (Nat.lt_succ_self f) _ _ h
                  · exfalso
                    have hn : ¬ (rest ≠ [] ∨ false = true) := by simp [hr]
                    rw [if_neg hn] at h
                    have := h _ rfl
                    simp [isLinkAt, hc, Node.isLink] at this

/-- for a path string without trailing '/': when what it denotes (final link not followed) is not a
    symbolic link, following links leads to the same place -/
theorem resolve_follow_eq (fs : FS) (cwd : CPath) {path : Bytes} (ht : Tidy path)
    (h : ∀ p, resolve fs cwd path false = .ok p → fs.isLinkAt p = false) :
    resolve fs cwd path true = resolve fs cwd path false := by
  rw [resolve_tidy fs cwd ht] at h ⊢
  rw [resolve_tidy fs cwd ht]
  exact walk_follow_eq fs linkFuel _ _ h

theorem not_link_of_pIslink {fs : FS} {cwd : CPath} {path : Bytes} (h : pIslink fs cwd path = false) :
    ∀ p, resolve fs cwd path false = .ok p → fs.isLinkAt p = false := by
  intro p hp
  unfold pIslink lstat at h
  rw [hp] at h
  unfold isLinkAt
  exact h

/-! ### strings -/

/-- a byte string consists of slashes only, or ends with a non-slash followed by `k` slashes -/
theorem slash_decomp : ∀ (n : Nat) (t : Bytes), t.length = n →
    (t.all (· = slash)) = true ∨ ∃ w y k, t = w ++ [y] ++ List.replicate k slash ∧ y ≠ slash := by
  intro n
  induction n with
  | zero => intro t ht; left; rw [List.eq_nil_of_length_eq_zero ht]; rfl
  | succ n ih =>
    intro t ht
    have hne : t ≠ [] := by intro e; rw [e] at ht; cases ht
    obtain ⟨t', x, rfl⟩ := C07.exists_snoc hne
    by_cases hx : x = slash
    · subst hx
      rcases ih t' (by simpa using ht) with h | ⟨w, y, k, rfl, hy⟩
      · left; simp [List.all_append, h]
      · right
        refine ⟨w, y, k + 1, ?_, hy⟩
        rw [List.replicate_succ']
        simp only [List.append_assoc]
    · right; exact ⟨t', x, 0, by simp, hx⟩

theorem splitOn_slashes (k : Nat) (B : Bytes) :
    Bytes.splitOn slash (List.replicate k slash ++ B) = List.replicate k [] ++ Bytes.splitOn slash B := by
  induction k with
  | zero => simp
  | succ k ih => rw [List.replicate_succ, List.cons_append, Bytes.splitOn, if_pos rfl, ih]; rfl

theorem comps_slashes (A B : Bytes) (k : Nat) :
    comps (A ++ List.replicate (k + 1) slash ++ B) = comps A ++ List.replicate k [] ++ comps B := by
  unfold comps
  rw [List.replicate_succ, List.append_assoc, List.cons_append, C01.splitOn_append_sep, splitOn_slashes,
    List.append_assoc]

theorem isAbs_append {D : Bytes} (h : D ≠ []) (r : Bytes) : isAbs (D ++ r) = isAbs D := by
  cases D with
  | nil => exact absurd rfl h
  | cons x xs => simp [isAbs, Bytes.startsWith, List.isPrefixOf]

theorem files_no_slash : slash ∉ b "files" := by decide +kernel
theorem info_no_slash : slash ∉ b "info" := by decide +kernel
theorem files_head : (b "files").head? ≠ some slash := by decide +kernel
theorem info_head : (b "info").head? ≠ some slash := by decide +kernel
theorem files_start : Bytes.startsWith (b "files") [slash] = false := by decide +kernel
theorem info_start : Bytes.startsWith (b "info") [slash] = false := by decide +kernel

theorem endsWith_snoc (z : Bytes) : Bytes.endsWith (z ++ [slash]) [slash] = true := by
  unfold Bytes.endsWith
  rw [List.isSuffixOf_iff_suffix]
  exact ⟨z, rfl⟩

/-- `dirname (I/n)` is `I` when `I` does not end with '/' -/
theorem dirname_join {w : Bytes} {x : UInt8} (hx : x ≠ slash) {n : Bytes} (hn : slash ∉ n) :
    dirname (w ++ [x] ++ [slash] ++ n) = w ++ [x] := by
  have hb : basename (w ++ [x] ++ [slash] ++ n) = n := C01.basename_after (Or.inr ⟨_, rfl⟩) hn
  unfold dirname
  rw [hb]
  have hl : (w ++ [x] ++ [slash] ++ n).length - n.length = (w ++ [x] ++ [slash]).length := by
    simp only [List.length_append]; omega
  rw [hl, List.take_left]
  have h2 : ¬ ((w ++ [x] ++ [slash]).all (· = slash)) = true := by simp [hx]
  rw [if_pos ⟨by simp, h2⟩]
  exact C01.rstrip_gen w x 1 hx

/-- `dirname (z/ ++ n)`: the head `z/`, its trailing slashes stripped unless it has nothing else -/
theorem dirname_after_slash (z : Bytes) {n : Bytes} (hn : slash ∉ n) :
    dirname (z ++ [slash] ++ n) =
      if ¬ ((z ++ [slash]).all (· = slash)) = true then rstripSlash (z ++ [slash]) else z ++ [slash] := by
  have hb : basename (z ++ [slash] ++ n) = n := C01.basename_after (Or.inr ⟨_, rfl⟩) hn
  unfold dirname
  rw [hb]
  have hl : (z ++ [slash] ++ n).length - n.length = (z ++ [slash]).length := by
    simp only [List.length_append]; omega
  rw [hl, List.take_left]
  by_cases h : ((z ++ [slash]).all (· = slash)) = true
  · rw [if_neg (fun e => e.2 h), if_neg (fun e => e h)]
  · rw [if_pos ⟨by simp, h⟩, if_pos h]

/-- the payload path of an info path `I/stem.trashinfo`, for any directory string `I` without a
    trailing '/': `dirname(I)/files/stem` -/
theorem backup_path_gen {I stem : Bytes} (hI : Tidy I) (h0 : stem ≠ []) (hs : slash ∉ stem) :
    pathOfBackupCopy (pjoin I (stem ++ trashinfoExt)) = pjoin (pjoin (dirname I) (b "files")) stem := by
  obtain ⟨w, x, rfl⟩ := C07.exists_snoc hI.1
  have hx : x ≠ slash := by simpa using hI.2
  have hne : slash ∉ stem ++ trashinfoExt := by
    intro h; rcases List.mem_append.1 h with h | h
    · exact hs h
    · exact ext_no_slash h
  have hhead : (stem ++ trashinfoExt).head? ≠ some slash := by
    cases stem with
    | nil => exact absurd rfl h0
    | cons y ys =>
      have : y ≠ slash := fun e => hs (e ▸ List.mem_cons_self)
      simpa using this
  rw [pjoin_plain hI.1 hI.2 hhead]
  have hb : basename (w ++ [x] ++ [slash] ++ (stem ++ trashinfoExt)) = stem ++ trashinfoExt :=
    C01.basename_after (Or.inr ⟨_, rfl⟩) hne
  unfold pathOfBackupCopy
  simp only [hb, dirname_join hx hne]
  have : (stem ++ trashinfoExt).length - trashinfoExt.length = stem.length := by simp
  rw [this, List.take_left]

/-- `files/` next to `info/`: the directory string `path_of_backup_copy` works with,
    `dirname(t/info)/files`, resolves as `t/files` does — for EVERY string `t` -/
theorem resolve_files_sibling (fs : FS) (cwd : CPath) (t : Bytes) (fl : Bool) :
    resolve fs cwd (pjoin (dirname (pjoin t (b "info"))) (b "files")) fl = resolve fs cwd (pjoin t (b "files")) fl := by
  rcases slash_decomp t.length t rfl with hall | ⟨w, y, k, rfl, hy⟩
  · -- slashes only (or empty): `dirname(t ++ "info") = t`
    by_cases h0 : t = []
    · subst h0
      have : dirname (pjoin [] (b "info")) = [] := by decide +kernel
      rw [this]
    · obtain ⟨z, x, rfl⟩ := C07.exists_snoc h0
      have hx : x = slash := by
        have := List.all_eq_true.1 hall x (by simp)
        simpa using this
      subst hx
      have e1 : pjoin (z ++ [slash]) (b "info") = z ++ [slash] ++ b "info" := by
        unfold pjoin; rw [info_start, endsWith_snoc]; simp
      rw [e1, dirname_after_slash z info_no_slash, if_neg (fun e => e hall)]
  · cases k with
    | zero =>
      -- no trailing slash: `dirname(t/info) = t`
      simp only [List.replicate_zero, List.append_nil]
      have e1 : pjoin (w ++ [y]) (b "info") = w ++ [y] ++ [slash] ++ b "info" :=
        pjoin_plain (by simp) (by simpa using hy) info_head
      rw [e1, dirname_join hy info_no_slash]
    | succ k =>
      -- `w y //…/`: `dirname` strips the slashes, the readers keep them
      have ht : w ++ [y] ++ List.replicate (k + 1) slash = (w ++ [y] ++ List.replicate k slash) ++ [slash] := by
        rw [List.replicate_succ']
        simp only [List.append_assoc]
      have e1 : pjoin (w ++ [y] ++ List.replicate (k + 1) slash) (b "info") =
          (w ++ [y] ++ List.replicate k slash) ++ [slash] ++ b "info" := by
        rw [ht]; unfold pjoin; rw [info_start, endsWith_snoc]; simp
      have e2 : pjoin (w ++ [y] ++ List.replicate (k + 1) slash) (b "files") =
          w ++ [y] ++ List.replicate (k + 1) slash ++ b "files" := by
        rw [ht]; unfold pjoin; rw [files_start, endsWith_snoc]; simp
      have hnall : ¬ ((w ++ [y] ++ List.replicate k slash ++ [slash]).all (· = slash)) = true := by
        simp [hy]
      have e3 : dirname (pjoin (w ++ [y] ++ List.replicate (k + 1) slash) (b "info")) = w ++ [y] := by
        rw [e1, dirname_after_slash _ info_no_slash, if_pos hnall, ← ht]
        exact C01.rstrip_gen w y (k + 1) hy
      have e4 : pjoin (w ++ [y]) (b "files") = w ++ [y] ++ [slash] ++ b "files" :=
        pjoin_plain (by simp) (by simpa using hy) files_head
      rw [e3, e4, e2]
      have t1 : Tidy (w ++ [y] ++ [slash] ++ b "files") := tidy_append _ b_files_tidy.1 b_files_tidy.2
      have t2 : Tidy (w ++ [y] ++ List.replicate (k + 1) slash ++ b "files") :=
        tidy_append _ b_files_tidy.1 b_files_tidy.2
      rw [resolve_tidy fs cwd t1, resolve_tidy fs cwd t2, comps_join_name _ files_no_slash, comps_slashes,
        C01.splitOn_free files_no_slash |> (fun h => (show comps (b "files") = [b "files"] from h)),
        walk_skip_empties]
      have a1 : isAbs (w ++ [y] ++ [slash] ++ b "files") = isAbs (w ++ [y]) := by
        rw [List.append_assoc]; exact isAbs_append (by simp) _
      have a2 : isAbs (w ++ [y] ++ List.replicate (k + 1) slash ++ b "files") = isAbs (w ++ [y]) := by
        rw [List.append_assoc]; exact isAbs_append (by simp) _
      rw [a1, a2]

/-- `join(t, n)` for a plain name `n` ends with the component `n`, whatever `t` -/
theorem comps_pjoin_name (t : Bytes) {n : Bytes} (hn : PlainName n) : ∃ pre, comps (pjoin t n) = pre ++ [n] := by
  have hst : Bytes.startsWith n [slash] = false := by
    obtain ⟨h0, hs, _⟩ := hn
    cases n with
    | nil => exact absurd rfl h0
    | cons x xs =>
      have : x ≠ slash := fun e => hs (e ▸ List.mem_cons_self)
      simp [Bytes.startsWith, List.isPrefixOf, Ne.symm this]
  unfold pjoin
  rw [hst]
  simp only [Bool.false_eq_true, if_false]
  by_cases h0 : t = []
  · subst h0
    refine ⟨[], ?_⟩
    simp only [true_or, if_true, List.nil_append]
    exact C01.splitOn_free hn.2.1
  · by_cases he : Bytes.endsWith t [slash] = true
    · rw [if_pos (Or.inr he)]
      unfold Bytes.endsWith at he
      rw [List.isSuffixOf_iff_suffix] at he
      obtain ⟨z, rfl⟩ := he
      exact ⟨comps z, comps_join_name z hn.2.1⟩
    · rw [if_neg (by simp [h0, he])]
      exact ⟨comps t, comps_join_name t hn.2.1⟩

/-- what `t/n` denotes (final link not followed) is an entry named `n` -/
theorem resolve_pjoin_name_shape (fs : FS) (cwd : CPath) (t : Bytes) {n : Bytes} (hn : PlainName n) {p : CPath}
    (h : resolve fs cwd (pjoin t n) false = .ok p) : ∃ q, p = q ++ [n] := by
  rw [resolve_tidy fs cwd (tidy_pjoin t hn.1 (plainName_last hn))] at h
  obtain ⟨pre, e⟩ := comps_pjoin_name t hn
  rw [e] at h
  obtain ⟨q, _, hq⟩ := walk_snoc fs hn.1 hn.2.2.1 hn.2.2.2 linkFuel _ _ _ h
  exact ⟨q, hq⟩

theorem plain_files : PlainName (b "files") := by decide +kernel
theorem plain_info : PlainName (b "info") := by decide +kernel

/-- the payload path of an info path of `t` denotes a name directly below where `t/files` leads —
    whatever the string `t` -/
theorem backup_leads (cwd : CPath) {t i : Bytes} (h : InfoForm t i) :
    Leads cwd (pjoin t (b "files")) (pathOfBackupCopy i) := by
  obtain ⟨n, rfl, hti, hn⟩ := h
  obtain ⟨stem, rfl, s1, s2, s3⟩ := trashinfo_name_stem n hti
  have hs : slash ∉ stem := fun e => hn.2.1 (List.mem_append_left _ e)
  refine ⟨stem, fun a c hsh p hp => ?_⟩
  rw [backup_path_gen (tidy_info t) s1 hs] at hp
  obtain ⟨q, hq, e⟩ := resolve_name_shr hsh cwd (tidy_files _) ⟨s1, hs, s2, s3⟩ hp
  rw [resolve_files_sibling] at hq
  exact ⟨q, hq, e⟩

end TrashVerif.Proofs.C11Cmd
