/-
  Proofs/C02CmdEx.lean — concrete worlds for Props/C02Cmd.lean: non-vacuity of the hypotheses of the
  command-level put/restore identity, the composed run evaluated through the kernel-evaluable twins
  (`runPut = runPutS`, `runRestore = runRestoreS`), and kernel-checked counterexamples to the
  statement without its side conditions.
-/
import TrashVerif.Proofs.C02Cmd
import TrashVerif.Proofs.C02CmdEval
namespace TrashVerif.Proofs.C02CmdEx
open TrashVerif Prog FS PutCore C16Indep C02Cmd
open TrashVerif.Proofs.C16Eval TrashVerif.Proofs.C02CmdEval TrashVerif.Proofs.C02Cmd
open TrashVerif.Proofs.C16IndepHome.Ex

/-! ### tools -/

theorem ofList_get_none {nodes : List (CPath × Node)} {mounts : List CPath} {q : CPath}
    (h : ∀ pn ∈ nodes, pn.1 ≠ q) : (FS.ofList nodes mounts).get q = none := by
  unfold FS.ofList
  simp only [Option.map_eq_none_iff, List.find?_eq_none]
  intro pn hpn
  simpa using h pn hpn

/-- nothing lies deeper than the deepest listed node -/
theorem ofList_get_none_deep {nodes : List (CPath × Node)} {mounts : List CPath} (k : Nat)
    (h : ∀ pn ∈ nodes, pn.1.length < k) (q : CPath) (hq : k ≤ q.length) : (FS.ofList nodes mounts).get q = none :=
  ofList_get_none fun pn hpn e => by have := h pn hpn; rw [e] at this; omega

/-- the two runs, evaluated through the twins -/
def putS (c : PutCfg) (arg : Bytes) (fs : FS) : PutResult × RunState :=
  run noFaults (runPutS c [arg] st0) { fs := fs }
def restoreS (rc : ReadCfg) (o : RestoreOpts) (reply : Bytes) (fs : FS) : CmdResult × RunState :=
  run noFaults (runRestoreS rc o (some reply)) { fs := fs }

theorem put_twin (c : PutCfg) (arg : Bytes) (fs : FS) :
    run noFaults (runPut c [arg] st0) { fs := fs } = putS c arg fs := by
  unfold putS; rw [runPut_eq]
theorem restore_twin (rc : ReadCfg) (o : RestoreOpts) (reply : Bytes) (fs : FS) :
    run noFaults (runRestore rc o (some reply)) { fs := fs } = restoreS rc o reply fs := by
  unfold restoreS; rw [runRestore_eq]

/-! ### the everyday world of Proofs/C16IndepHome.lean: HOME=/h, an existing empty trash, `/p/x` -/

/-- `trash-restore` runs with the configuration of the put; no mount point is listed -/
def rcH : ReadCfg := readCfgOf cfgH []
def oRoot (sort : SortMode) (ov : Bool) : RestoreOpts := { path := b "/", sort := sort, overwrite := ov }

theorem fsH_deep : ∀ q : CPath, 6 ≤ q.length → fsH.get q = none :=
  ofList_get_none_deep 6 (by decide +kernel)

theorem infoEmptyH : ∀ x, fsH.get (infoC H ++ [x]) = none := fun x => fsH_deep _ (by simp [infoC, trashC, H])
theorem freeBelowH : ∀ rel, fsH.get (filesC H ++ [b "x"] ++ rel) = none :=
  fun rel => fsH_deep _ (by simp [filesC, trashC, H])
theorem notMountH : fsH.isMount (filesC H ++ [b "x"]) = false := by decide +kernel
theorem lenX : (b "x").length + 10 ≤ 255 := by decide +kernel

/-- Non-vacuity: every hypothesis of `put_restore` holds in this world, for every sort mode and with
    or without `--overwrite`; so its conclusion holds there. -/
theorem identityH (sort : SortMode) (ov : Bool) :
    let p := run noFaults (runPut cfgH [toStr ([b "p"] ++ [b "x"])] st0) { fs := fsH }
    let r := run noFaults (runRestore rcH (oRoot sort ov) (some (b "0"))) { fs := p.2.fs }
    p.1.exit = 0 ∧ restoreEntries p.2.fs rcH (oRoot sort ov) = [putEntry cfgH H [b "p"] (b "x")] ∧
    r.1.exit = 0 ∧ r.1.crash = none ∧
    ∀ q, r.2.fs.get q = if q = [b "p"] ∨ q = filesC H ∨ q = infoC H then touched (fsH.get q) else fsH.get q := by
  have h := put_restore world argX st0 rcH (oRoot sort ov) (b "0") lenX infoEmptyH freeBelowH notMountH rfl
    (Or.inl rfl) (inScope_root _ _ rfl _) reply_zero
    (by intro tv htv; rw [volumeTrashDirs_nil _ _ rfl] at htv; cases htv)
  exact ⟨h.2.2.1, h.2.2.2.1, h.2.2.2.2.1, h.2.2.2.2.2.1, h.2.2.2.2.2.2⟩

/-- the three touched directories had the canonical mtime already: the restored world IS `fsH` -/
theorem identityH_exact (sort : SortMode) (ov : Bool) (q : CPath) :
    (run noFaults (runRestore rcH (oRoot sort ov) (some (b "0")))
      { fs := (run noFaults (runPut cfgH [toStr ([b "p"] ++ [b "x"])] st0) { fs := fsH }).2.fs }).2.fs.get q = fsH.get q := by
  rw [(identityH sort ov).2.2.2.2 q]
  split
  · next h => rcases h with rfl | rfl | rfl <;> decide +kernel
  · rfl

/-- the state after `trash-put /p/x` -/
def fs1 : FS := (putS cfgH (b "/p/x") fsH).2.fs
/-- … and after `trash-restore /` answered "0" -/
def fs2 : FS := (restoreS rcH (oRoot .date false) (b "0") fs1).2.fs

/-- The composed run EVALUATED (independently of `put_restore`): put exits 0 and moves `/p/x` into the
    home trash next to its info file; restore offers exactly that entry (undated: the world's date
    string "D" is not a date), exits 0, and `/p/x` is back with its bytes, mode and mtime; payload
    and info file are gone; the directories are as they were. -/
theorem evaluatedH :
    (putS cfgH (b "/p/x") fsH).1.exit = 0 ∧
    fs1.get [b "p", b "x"] = none ∧ fs1.get (filesC H ++ [b "x"]) = some (.file [120] 0o644 0) ∧
    (fs1.get (infoC H ++ [b "x.trashinfo"])).isSome = true ∧
    restoreEntriesS fs1 rcH (oRoot .date false) =
      [{ loc := b "/p/x", date := none, info := b "/h/.local/share/Trash/info/x.trashinfo" }] ∧
    (restoreS rcH (oRoot .date false) (b "0") fs1).1.exit = 0 ∧
    fs2.get [b "p", b "x"] = fsH.get [b "p", b "x"] ∧ fs2.get [b "p", b "x"] = some (.file [120] 0o644 0) ∧
    fs2.get (filesC H ++ [b "x"]) = none ∧ fs2.get (infoC H ++ [b "x.trashinfo"]) = none ∧
    fs2.get [b "p"] = fsH.get [b "p"] ∧ fs2.get (filesC H) = fsH.get (filesC H) ∧
    fs2.get (infoC H) = fsH.get (infoC H) ∧ fs2.get [b "p", b "y"] = fsH.get [b "p", b "y"] := by
  decide +kernel

/-- `fs1`, `fs2` are the states of the model's own commands -/
theorem fs1_eq : fs1 = (run noFaults (runPut cfgH [b "/p/x"] st0) { fs := fsH }).2.fs := by
  unfold fs1; rw [put_twin]
theorem fs2_eq : fs2 = (run noFaults (runRestore rcH (oRoot .date false) (some (b "0"))) { fs := fs1 }).2.fs := by
  unfold fs2; rw [restore_twin]

/-- `evaluatedH` in terms of the model's own commands -/
theorem evaluatedH_cmd :
    let fs1 := (run noFaults (runPut cfgH [b "/p/x"] st0) { fs := fsH }).2.fs
    let r := run noFaults (runRestore (readCfgOf cfgH []) { path := b "/" } (some (b "0"))) { fs := fs1 }
    fs1.get [b "p", b "x"] = none ∧ fs1.get (filesC H ++ [b "x"]) = some (.file [120] 0o644 0) ∧
    r.1.exit = 0 ∧ r.2.fs.get [b "p", b "x"] = fsH.get [b "p", b "x"] ∧
    r.2.fs.get (filesC H ++ [b "x"]) = none ∧ r.2.fs.get (infoC H ++ [b "x.trashinfo"]) = none ∧
    r.2.fs.get [b "p"] = fsH.get [b "p"] ∧ r.2.fs.get (filesC H) = fsH.get (filesC H) ∧
    r.2.fs.get (infoC H) = fsH.get (infoC H) ∧ r.2.fs.get [b "p", b "y"] = fsH.get [b "p", b "y"] := by
  intro fs1' r
  have e1 : fs1' = fs1 := fs1_eq.symm
  have e2 : r = restoreS rcH (oRoot .date false) (b "0") fs1 := by
    show run noFaults (runRestore rcH (oRoot .date false) (some (b "0"))) { fs := fs1' } = _
    rw [e1]; exact restore_twin _ _ _ _
  have h := evaluatedH
  rw [e1, e2]
  exact ⟨h.2.1, h.2.2.1, h.2.2.2.2.2.1, h.2.2.2.2.2.2.1, h.2.2.2.2.2.2.2.2.1, h.2.2.2.2.2.2.2.2.2.1,
    h.2.2.2.2.2.2.2.2.2.2.1, h.2.2.2.2.2.2.2.2.2.2.2.1, h.2.2.2.2.2.2.2.2.2.2.2.2.1, h.2.2.2.2.2.2.2.2.2.2.2.2.2⟩

/-! ### counterexamples: the statement without its side conditions -/

theorem ofList_get_none_under {nodes : List (CPath × Node)} {mounts : List CPath} (a : CPath)
    (h : ∀ pn ∈ nodes, FS.under a pn.1 = false) (rel : CPath) : (FS.ofList nodes mounts).get (a ++ rel) = none :=
  ofList_get_none fun pn hpn e => by
    have := h pn hpn
    rw [e, (PutLemmas.under_iff _ _).2 (List.prefix_append _ _)] at this
    cases this

/-- what `trash-put` wrote for `/q/a` on 2020-01-01 -/
def infoA : Bytes := formatTrashinfoWith (b "/q/a") (b "2020-01-01T00:00:00")

/-- as `fsH`, plus the directory `/q` and an OLDER entry in the home trash: `files/a` with
    `info/a.trashinfo` (from `/q/a`, deleted 2020-01-01) -/
def fsPre : FS := FS.ofList [([], dN), (H, dN), (H ++ [b ".local"], dN), (H ++ [b ".local", b "share"], dN),
  (trashC H, dN), (filesC H, dN), (infoC H, dN), ([b "p"], dN), ([b "p", b "x"], .file [120] 0o644 0),
  ([b "q"], dN), (filesC H ++ [b "a"], .file [65] 0o644 0), (infoC H ++ [b "a.trashinfo"], .file infoA 0o600 0)] [[]]

/-- the clock of the put says 2021-01-01 -/
def cfgD : PutCfg := { cwd := [], env := { home := some (toStr H) }, uid := 0, dateStr := b "2021-01-01T00:00:00" }
def rcD : ReadCfg := readCfgOf cfgD []

theorem worldPre (c : PutCfg) (hc : c = cfgD ∨ c = cfgH) : HomeWorld c fsPre H := by
  rcases hc with rfl | rfl <;> exact
  { noTrashDir := rfl, noForcedVolume := rfl, noPrompt := by decide, xdgUnset := rfl, home := rfl,
    homeNotRoot := by decide, homeNames := by unfold TrashVerif.C07.GoodNames; decide +kernel,
    filesPlain := plain_of_takes (by decide +kernel), infoPlain := plain_of_takes (by decide +kernel),
    rootMounted := by decide +kernel, filesSameVolume := by decide +kernel }

theorem argPre : GoodArg fsPre H [b "p"] (b "x") :=
  { names := by unfold TrashVerif.C07.GoodNames; decide +kernel, parentPlain := plain_of_takes (by decide +kernel),
    present := by decide +kernel, notMount := by decide +kernel, sameVolume := by decide +kernel,
    apartInfo := by decide +kernel, apartFiles := by decide +kernel }

theorem freeBelowPre : ∀ rel, fsPre.get (filesC H ++ [b "x"] ++ rel) = none :=
  ofList_get_none_under _ (by decide +kernel)

def fsPre1 : FS := (putS cfgD (b "/p/x") fsPre).2.fs
def fsPre2 : FS := (restoreS rcD (oRoot .date false) (b "0") fsPre1).2.fs

/-- `put_restore` WITHOUT `hinfoEmpty` is FALSE.  Every other hypothesis holds (`HomeWorld`, `GoodArg`,
    name length, free payload name, not a mount entry, matching configuration, scope "/", reply "0",
    no listed mount point), but `info/` already holds an OLDER entry.  `trash-restore` sorts what it
    offers by deletion date (the default): index 0 is the older `/q/a`, index 1 is ours.  Both
    commands exit 0; `/q/a` is restored; `/p/x` is NOT back, its payload and info file stay in the
    trash. -/
theorem index0_is_the_older_entry :
    (HomeWorld cfgD fsPre H ∧ GoodArg fsPre H [b "p"] (b "x") ∧ (b "x").length + 10 ≤ 255 ∧
      (∀ rel, fsPre.get (filesC H ++ [b "x"] ++ rel) = none) ∧ fsPre.isMount (filesC H ++ [b "x"]) = false ∧
      rcD.env = cfgD.env ∧ inScope (scopeDir rcD (oRoot .date false)) (toStr ([b "p"] ++ [b "x"])) = true ∧
      parseIndexes (b "0") 1 = .ok [0] ∧ volumeTrashDirs fsPre1 rcD = []) ∧
    (putS cfgD (b "/p/x") fsPre).1.exit = 0 ∧
    (sortEntriesS .date (restoreEntriesS fsPre1 rcD (oRoot .date false))).map (·.loc) = [b "/q/a", b "/p/x"] ∧
    (restoreS rcD (oRoot .date false) (b "0") fsPre1).1.exit = 0 ∧
    fsPre2.get [b "p", b "x"] = none ∧ fsPre2.get [b "q", b "a"] = some (.file [65] 0o644 0) ∧
    fsPre2.get (filesC H ++ [b "x"]) = some (.file [120] 0o644 0) ∧
    (fsPre2.get (infoC H ++ [b "x.trashinfo"])).isSome = true :=
  ⟨⟨worldPre _ (Or.inl rfl), argPre, lenX, freeBelowPre, by decide +kernel, rfl, inScope_root _ _ rfl _, reply_zero,
    volumeTrashDirs_nil _ _ rfl⟩, by decide +kernel⟩

/-- … in terms of the model's own commands -/
theorem index0_is_the_older_entry_cmd :
    let p := run noFaults (runPut cfgD [b "/p/x"] st0) { fs := fsPre }
    let r := run noFaults (runRestore rcD (oRoot .date false) (some (b "0"))) { fs := p.2.fs }
    p.1.exit = 0 ∧ r.1.exit = 0 ∧ r.2.fs.get [b "p", b "x"] = none ∧ fsPre.get [b "p", b "x"] ≠ none := by
  intro p r
  have hp : p = putS cfgD (b "/p/x") fsPre := put_twin _ _ _
  have hr : r = restoreS rcD (oRoot .date false) (b "0") fsPre1 := by
    show run noFaults (runRestore rcD (oRoot .date false) (some (b "0"))) { fs := p.2.fs } = _
    rw [hp]; exact restore_twin _ _ _ _
  rw [hp, hr]
  exact ⟨index0_is_the_older_entry.2.1, index0_is_the_older_entry.2.2.2.1, index0_is_the_older_entry.2.2.2.2.1,
    by decide +kernel⟩

/-- the counterexample in the shape of `put_restore_identity`: all hypotheses but `hinfoEmpty`, and the
    conclusion fails -/
theorem index0_full :
    (HomeWorld cfgD fsPre H ∧ GoodArg fsPre H [b "p"] (b "x") ∧ (b "x").length + 10 ≤ 255 ∧
      (∀ rel, fsPre.get (filesC H ++ [b "x"] ++ rel) = none) ∧ fsPre.isMount (filesC H ++ [b "x"]) = false ∧
      rcD.env = cfgD.env ∧ inScope (scopeDir rcD (oRoot .date false)) (toStr ([b "p"] ++ [b "x"])) = true ∧
      parseIndexes (b "0") 1 = .ok [0] ∧
      volumeTrashDirs (run noFaults (runPut cfgD [b "/p/x"] st0) { fs := fsPre }).2.fs rcD = []) ∧
    (let p := run noFaults (runPut cfgD [b "/p/x"] st0) { fs := fsPre }
     let r := run noFaults (runRestore rcD (oRoot .date false) (some (b "0"))) { fs := p.2.fs }
     p.1.exit = 0 ∧ r.1.exit = 0 ∧ r.2.fs.get [b "p", b "x"] = none ∧ fsPre.get [b "p", b "x"] ≠ none) :=
  ⟨⟨index0_is_the_older_entry.1.1, index0_is_the_older_entry.1.2.1, index0_is_the_older_entry.1.2.2.1,
    index0_is_the_older_entry.1.2.2.2.1, index0_is_the_older_entry.1.2.2.2.2.1, rfl,
    index0_is_the_older_entry.1.2.2.2.2.2.2.1, reply_zero, volumeTrashDirs_nil _ _ rfl⟩,
   index0_is_the_older_entry_cmd⟩

theorem index0_details :
    (sortEntriesS .date (restoreEntriesS fsPre1 rcD (oRoot .date false))).map (·.loc) = [b "/q/a", b "/p/x"] ∧
    fsPre2.get [b "q", b "a"] = some (.file [65] 0o644 0) ∧
    fsPre2.get (filesC H ++ [b "x"]) = some (.file [120] 0o644 0) ∧
    (fsPre2.get (infoC H ++ [b "x.trashinfo"])).isSome = true :=
  ⟨index0_is_the_older_entry.2.2.1, index0_is_the_older_entry.2.2.2.2.2.1,
    index0_is_the_older_entry.2.2.2.2.2.2.1, index0_is_the_older_entry.2.2.2.2.2.2.2⟩

theorem twins (c : PutCfg) (rc : ReadCfg) (o : RestoreOpts) (arg reply : Bytes) (fs : FS) :
    run noFaults (runPut c [arg] st0) { fs := fs } = putS c arg fs ∧
    run noFaults (runRestore rc o (some reply)) { fs := fs } = restoreS rc o reply fs :=
  ⟨put_twin c arg fs, restore_twin rc o reply fs⟩

def fsPre1' : FS := (putS cfgH (b "/p/x") fsPre).2.fs
def fsPre2' : FS := (restoreS rcH (oRoot .date false) (b "0") fsPre1').2.fs

/-- The date matters.  Same world, but the put's date string is the placeholder "D" (not a date): the
    new entry is offered UNDATED, `trash-restore` ranks an undated entry as `datetime.min`, so it
    comes FIRST: index 0 is ours although an older entry is present, and `/p/x` is back. -/
theorem undated_entry_sorts_first :
    (sortEntriesS .date (restoreEntriesS fsPre1' rcH (oRoot .date false))).map (fun e => (e.loc, e.date.isSome)) =
      [(b "/p/x", false), (b "/q/a", true)] ∧
    (restoreS rcH (oRoot .date false) (b "0") fsPre1').1.exit = 0 ∧
    fsPre2'.get [b "p", b "x"] = fsPre.get [b "p", b "x"] ∧ fsPre2'.get [b "q", b "a"] = none := by
  decide +kernel

/-- With a valid date string the offered entry carries that date (here 2021-01-01 00:00:00). -/
theorem dated_entry : (putEntry cfgD H [b "p"] (b "x")).date = some ⟨2021, 1, 1, 0, 0, 0⟩ :=
  putEntry_date cfgD H [b "p"] (b "x") ⟨2021, 1, 1, 0, 0, 0⟩ (by decide) (by decide) (by decide +kernel)

/-- `put_restore` WITHOUT `hscope` is FALSE: with the directory argument `/q` the entry `/p/x` is not
    offered ("No files trashed from current dir"), the run exits 0 and nothing is restored. -/
theorem out_of_scope_nothing_restored :
    inScope (scopeDir rcH { path := b "/q" }) (b "/p/x") = false ∧
    (restoreS rcH { path := b "/q" } (b "0") fs1).1.exit = 0 ∧
    (restoreS rcH { path := b "/q" } (b "0") fs1).2.fs.get [b "p", b "x"] = none := by
  decide +kernel

/-- no directory argument, run from "/" (the working directory of `rcH`) -/
def oNoArg (sort : SortMode) (ov : Bool) : RestoreOpts := { sort := sort, overwrite := ov }

/-- Non-vacuity of the root case of `put_restore_everyday` (no directory argument, working directory
    "/"): its hypotheses hold in the world `fsH` for `trash-put /p/x`, for every sort mode, with or
    without `--overwrite`; the restored world is `fsH` on EVERY path. -/
theorem identityH_root_cwd (sort : SortMode) (ov : Bool) (q : CPath) :
    (run noFaults (runRestore rcH (oNoArg sort ov) (some (b "0")))
      { fs := (run noFaults (runPut cfgH [toStr ([b "p"] ++ [b "x"])] st0) { fs := fsH }).2.fs }).2.fs.get q = fsH.get q := by
  have h := put_restore world argX st0 rcH (oNoArg sort ov) (b "0") lenX infoEmptyH freeBelowH notMountH rfl
    (Or.inl rfl) (inScope_cwd rcH (oNoArg sort ov) [b "p"] (b "x") rfl (fun _ hm => by cases hm) (List.nil_prefix)) reply_zero
    (by intro tv htv; rw [volumeTrashDirs_nil _ _ rfl] at htv; cases htv)
  rw [h.2.2.2.2.2.2 q]
  split
  · next h => rcases h with rfl | rfl | rfl <;> decide +kernel
  · rfl

/-- Formerly the counterexample `root_cwd_no_argument_offers_nothing`, which exposed a REAL DEFECT of
    trash-cli (restore_arg_parser.py: `normpath(join(curdir + sep, path))`; from the working directory
    "/" without a directory argument the scope was `normpath("//")` = "//", neither "/" nor a prefix of
    any location, so `cd /; trash-restore` offered nothing).  The defect was FOUND BY THAT THEOREM and
    has been REPAIRED in the code (`normpath(join(curdir, path))`; "fix: trash-restore from / offered
    nothing"), and the model follows (`restoreScopeDir`).  Same world, now the positive statement:
    from "/" without argument the scope is "/", the entry `/p/x` IS offered (it is the one entry in
    scope), the run answered "0" exits 0 without crash, `/p/x` is back with its bytes, mode and mtime,
    payload and info file are gone, and — for every sort mode, with or without `--overwrite` — the
    restored world is `fsH` on EVERY path (through `put_restore`, root case of `put_restore_everyday`).
    The same command from `/p` restores it as before. -/
theorem root_cwd_no_argument_offers_everything :
    rcH.cwd = [] ∧ scopeDir rcH {} = b "/" ∧ inScope (scopeDir rcH {}) (b "/p/x") = true ∧
    (sortEntriesS .date ((restoreEntriesS fs1 rcH {}).filter fun e => inScope (scopeDir rcH {}) e.loc)) =
      [{ loc := b "/p/x", date := none, info := b "/h/.local/share/Trash/info/x.trashinfo" }] ∧
    (restoreS rcH {} (b "0") fs1).1.exit = 0 ∧ (restoreS rcH {} (b "0") fs1).1.crash = none ∧
    (restoreS rcH {} (b "0") fs1).2.fs.get [b "p", b "x"] = some (.file [120] 0o644 0) ∧
    (restoreS rcH {} (b "0") fs1).2.fs.get (filesC H ++ [b "x"]) = none ∧
    (restoreS rcH {} (b "0") fs1).2.fs.get (infoC H ++ [b "x.trashinfo"]) = none ∧
    (∀ (sort : SortMode) (ov : Bool) (q : CPath),
      (restoreS rcH { sort := sort, overwrite := ov } (b "0") fs1).2.fs.get q = fsH.get q) ∧
    (restoreS { rcH with cwd := [b "p"] } {} (b "0") fs1).2.fs.get [b "p", b "x"] = some (.file [120] 0o644 0) := by
  refine ⟨rfl, by decide +kernel, by decide +kernel, by decide +kernel, by decide +kernel, by decide +kernel,
    by decide +kernel, by decide +kernel, by decide +kernel, fun sort ov q => ?_, by decide +kernel⟩
  have e : toStr ([b "p"] ++ [b "x"]) = b "/p/x" := by decide +kernel
  have h := identityH_root_cwd sort ov q
  rw [e] at h
  rw [← restore_twin, fs1_eq]
  exact h

/-- a name of 250 bytes -/
def long : Bytes := List.replicate 250 97
def fsLong : FS := FS.ofList [([], dN), (H, dN), (H ++ [b ".local"], dN), (H ++ [b ".local", b "share"], dN),
  (trashC H, dN), (filesC H, dN), (infoC H, dN), ([b "p"], dN), ([b "p", long], .file [120] 0o644 0)] [[]]
def fsLong1 : FS := (putS cfgH (toStr [b "p", long]) fsLong).2.fs
def fsLong2 : FS := (restoreS rcH (oRoot .date false) (b "0") fsLong1).2.fs

/-- The hypothesis `n.length + 10 ≤ 255` of `put_restore` is not necessary for the identity, only for
    the name: `n.trashinfo` would be too long, put falls back to the truncated `<238 bytes>_1.trashinfo`
    (so the conclusion "trashed as `n.trashinfo`" fails), and restore still brings the entry back under
    its full name. -/
theorem long_name_still_restored :
    (putS cfgH (toStr [b "p", long]) fsLong).1.outcomes =
      [(toStr [b "p", long], .trashed (homeStr H) (List.replicate 238 97 ++ b "_1.trashinfo"))] ∧
    (restoreS rcH (oRoot .date false) (b "0") fsLong1).1.exit = 0 ∧
    fsLong2.get [b "p", long] = fsLong.get [b "p", long] ∧
    fsLong2.get (filesC H ++ [List.replicate 238 97 ++ b "_1"]) = none := by
  decide +kernel

end TrashVerif.Proofs.C02CmdEx
