/-
  Proofs/C18CmdThrough.lean — an argument `link/inside` that names an entry THROUGH a symbolic link:
  kernel resolution, `realpath`, the recorded location, and `Janitor.trash_file_in` for a trash
  directory yet to be made, for an arbitrary spelling (lemmas for Props/C18Cmd.lean, part 4).
-/
import TrashVerif.Proofs.C18Cmd
namespace TrashVerif.Proofs.C18CmdThrough
open TrashVerif Prog FS PutCore PutLemmas C18Cmd C16Indep C07Cmd
open TrashVerif.Proofs.C07 (Plain GoodNames body toStr_ne body_last comps_toStr_cons walk_skip isAbs_toStr dirname_toStr
  normpath_toStr walk_plain)
open TrashVerif.Proofs.C17 (isDirAt_iff)
open TrashVerif.Proofs.C16IndepHome
open TrashVerif.Proofs.C07CmdCore
open TrashVerif.Proofs.C07Cmd (strip_volume relLoc_eq)

/-! ### states in which everything that existed is still there -/

/-- every path that existed keeps its kind, and everything but directories its node; same mounts -/
structure Old (fs fs' : FS) : Prop where
  mounts : fs'.mounts = fs.mounts
  kind : ∀ q, (fs.get q).isSome = true → fs'.isDirAt q = fs.isDirAt q
  node : ∀ q, (fs.get q).isSome = true → fs.isDirAt q = false → fs'.get q = fs.get q

theorem Old.refl (fs : FS) : Old fs fs := ⟨rfl, fun _ _ => rfl, fun _ _ _ => rfl⟩

theorem isSome_of_isDirAt {fs : FS} {q : CPath} (h : fs.isDirAt q = true) : (fs.get q).isSome = true := by
  obtain ⟨m, t, hg⟩ := isDirAt_iff.1 h
  rw [hg]; rfl

theorem Old.isSome {fs fs' : FS} (o : Old fs fs') {q : CPath} (h : (fs.get q).isSome = true) : (fs'.get q).isSome = true := by
  cases hd : fs.isDirAt q with
  | true => exact isSome_of_isDirAt (by rw [o.kind q h, hd])
  | false => rw [o.node q h hd]; exact h

theorem Old.trans {a b c : FS} (h1 : Old a b) (h2 : Old b c) : Old a c := by
  refine ⟨h2.mounts.trans h1.mounts, fun q hq => ?_, fun q hq hd => ?_⟩
  · rw [h2.kind q (h1.isSome hq), h1.kind q hq]
  · rw [h2.node q (h1.isSome hq) (by rw [h1.kind q hq, hd]), h1.node q hq hd]

theorem Old.plain {fs fs' : FS} (o : Old fs fs') {Q : CPath} (hp : Plain fs Q) : Plain fs' Q := by
  intro q hq
  rw [o.kind q (isSome_of_isDirAt (hp q hq))]; exact hp q hq

theorem old_of_made {fs fs' : FS} {Q : CPath} {x : Name} {R : CPath} {mode : Nat} (M : Made fs fs' Q x R mode)
    (hfresh : ∀ rel, fs.get (Q ++ x :: rel) = none) (hQ : fs.isDirAt Q = true) : Old fs fs' := by
  refine ⟨M.mounts, fun q hq => (M.keeps hfresh hq).2, fun q hq hd => (M.keeps hfresh hq).1 ?_⟩
  rintro rfl
  rw [hQ] at hd; cases hd

theorem old_fsB {fs : FS} {I : CPath} {name content : Bytes} (hfree : fs.get (I ++ [name]) = none)
    (hI : fs.isDirAt I = true) : Old fs (fsB fs (I ++ [name]) content) := by
  obtain ⟨m, t, hg⟩ := isDirAt_iff.1 hI
  refine ⟨fsB_mounts _ _ _, fun q hq => ?_, fun q hq hd => ?_⟩
  · have h1 : q ≠ I ++ [name] := by intro e; rw [e, hfree] at hq; cases hq
    unfold isDirAt
    rw [fsB_get, if_neg h1]
    by_cases h2 : q = I
    · rw [if_pos h2, h2, touch_dir hg, hg]; rfl
    · rw [if_neg h2]
  · have h1 : q ≠ I ++ [name] := by intro e; rw [e, hfree] at hq; cases hq
    have h2 : q ≠ I := by rintro rfl; rw [hI] at hd; cases hd
    rw [fsB_get, if_neg h1, if_neg h2]

theorem _root_.TrashVerif.C18Cmd.Through.old {fs fs' : FS} {P : CPath} {n : Name} {D : CPath} (o : Old fs fs') (T : Through fs P n D) :
    Through fs' P n D :=
  { linkNames := T.linkNames, parentPlain := o.plain T.parentPlain
    link := by
      rw [o.node _ (by rw [T.link]; rfl) (by unfold isDirAt; rw [T.link]; rfl)]; exact T.link
    targetNames := T.targetNames, targetPlain := o.plain T.targetPlain }

/-! ### the kernel and `realpath` through the link -/

/-- from "/" along the canonical spelling of a plain directory -/
theorem walk_comps_toStr (fs : FS) (fl : Bool) (fuel : Nat) (D : CPath) (hp : Plain fs D) (hn : GoodNames D)
    (more : List Bytes) : walk fs fl fuel [] (comps (toStr D) ++ more) = walk fs fl fuel D more := by
  obtain ⟨m, t, hroot⟩ := isDirAt_iff.1 (hp [] List.nil_prefix)
  cases D with
  | nil =>
    have hc : comps (toStr []) = [[], []] := by decide
    rw [hc]
    show walk fs fl fuel [] ([] :: [] :: more) = _
    rw [walk_skip _ _ _ _ _ hroot, walk_skip _ _ _ _ _ hroot]
  | cons d ds =>
    rw [comps_toStr_cons d ds hn]
    show walk fs fl fuel [] ([] :: ((d :: ds) ++ more)) = _
    rw [walk_skip _ _ _ _ _ hroot]
    have := walk_plain_append fs fl fuel (d :: ds) more [] (by simpa using hp) hn
    simpa using this

/-- one step of the walk across a symbolic link that is not in final position -/
theorem walk_link_step (fs : FS) (fl : Bool) (fuel : Nat) (P : CPath) (n : Name) (t : Bytes) (e : Bytes) (rest : List Bytes)
    (hP : fs.isDirAt P = true) (hn : GoodNames [n]) (hl : fs.get (P ++ [n]) = some (.link t)) (ht : t ≠ []) :
    walk fs fl (fuel + 1) P (n :: e :: rest) =
      walk fs fl fuel (if isAbs t = true then [] else P) (comps t ++ e :: rest) := by
  obtain ⟨m, tt, hg⟩ := isDirAt_iff.1 hP
  obtain ⟨h1, _, h3, h4, h5⟩ := hn n (by simp)
  rw [walk, hg]
  simp only
  rw [if_neg (by simp [h1, h3]), if_neg h4, if_neg (by unfold nameMax; omega)]
  simp only [hl]
  rw [if_pos (Or.inl (by simp)), if_neg ht]

section through
variable {fs : FS} {P : CPath} {n : Name} {D : CPath} {e : Name} (T : Through fs P n D)
  (hne : GoodNames [e]) (hex : (fs.get (D ++ [e])).isSome = true) (hnm : fs.isMount (D ++ [e]) = false)

include T in
theorem _root_.TrashVerif.C18Cmd.Through.gn : GoodNames (P ++ [n]) := T.linkNames
include T in
theorem _root_.TrashVerif.C18Cmd.Through.pp : Plain fs P := T.parentPlain
include T in
theorem _root_.TrashVerif.C18Cmd.Through.tn : GoodNames D := T.targetNames
include T in
theorem _root_.TrashVerif.C18Cmd.Through.tp : Plain fs D := T.targetPlain

include T in
theorem goodNames_through (hne : GoodNames [e]) : GoodNames ((P ++ [n]) ++ [e]) := goodNames_append T.gn hne

include T hne in
/-- `lstat("P/n/e")`: the kernel follows the link `P/n` and answers for `D/e` -/
theorem resolve_through (cwd : CPath) : resolve fs cwd (toStr ((P ++ [n]) ++ [e])) = .ok (D ++ [e]) := by
  have gn := goodNames_through T hne
  obtain ⟨m, t, hroot⟩ := isDirAt_iff.1 (T.pp [] List.nil_prefix)
  obtain ⟨n0, rest0, e0⟩ : ∃ n0 rest0, (P ++ [n]) ++ [e] = n0 :: rest0 :=
    List.exists_cons_of_ne_nil (by simp)
  have hc := comps_toStr_cons n0 rest0 (e0 ▸ gn)
  obtain ⟨w, x, hw, hx⟩ := body_last (q := n0 :: rest0) (by simp) (e0 ▸ gn)
  have hs : toStr (n0 :: rest0) = w ++ [x] := by rw [toStr_ne (by simp), hw]
  have h1 : walk fs false linkFuel [] ([] :: n0 :: rest0) = .ok (D ++ [e]) := by
    rw [walk_skip _ _ _ _ _ hroot, ← e0]
    have e1 : (P ++ [n]) ++ [e] = P ++ [n, e] := by simp
    rw [e1]
    have := walk_plain_append fs false linkFuel P [n, e] [] (by simpa using T.pp) T.gn.left
    rw [List.nil_append] at this
    rw [this]
    have hf : linkFuel = 39 + 1 := rfl
    rw [hf, walk_link_step fs false 39 P n (toStr D) e [] (T.pp P List.prefix_rfl) T.gn.right T.link
      (toStr_ne_nil D), isAbs_toStr, if_pos rfl, walk_comps_toStr fs false 39 D T.tp T.tn]
    have := walk_plain_leaf fs 39 e [] D (by simpa using T.tp) (by simpa using hne)
    simpa using this
  rw [e0]
  unfold resolve
  rw [if_neg (by rw [hs]; simp), isAbs_toStr, hc]
  have htr : ¬ ((toStr (n0 :: rest0)).getLast? = some slash ∧ ¬ ((toStr (n0 :: rest0)).all (· = slash)) = true) := by
    rw [hs]; simp [hx]
  simp only [htr, decide_false, Bool.or_false, if_true, h1, if_false]

include T hne hex in
theorem pLexists_through (cwd : CPath) : pLexists fs cwd (toStr ((P ++ [n]) ++ [e])) = true := by
  unfold pLexists lstat
  rw [resolve_through T hne cwd]
  exact hex

include T hne hex hnm in
theorem pIsmount_through (cwd : CPath) : pIsmount fs cwd (toStr ((P ++ [n]) ++ [e])) = false := by
  unfold pIsmount
  rw [resolve_through T hne cwd]
  obtain ⟨nd, hnd⟩ := Option.isSome_iff_exists.1 hex
  simp only [hnd]
  cases nd with
  | link t => rfl
  | file d m t => exact hnm
  | dir m t => exact hnm

theorem realpathAux_plain_append (fs : FS) (fuel : Nat) (rest : CPath) (more : List Bytes) :
    ∀ cur, Plain fs (cur ++ rest) → GoodNames rest →
      realpathAux fs fuel cur (rest ++ more) = realpathAux fs fuel (cur ++ rest) more := by
  induction rest with
  | nil => intro cur _ _; simp
  | cons c rest ih =>
    intro cur hp hn
    obtain ⟨h1, _, h3, h4, h5⟩ := hn c List.mem_cons_self
    have hcur : fs.isDirAt cur = true := hp cur (List.prefix_append _ _)
    have e : cur ++ c :: rest = (cur ++ [c]) ++ rest := by simp
    obtain ⟨m', t', hc⟩ := isDirAt_iff.1 (hp (cur ++ [c]) (by rw [e]; exact List.prefix_append _ _))
    rw [List.cons_append, realpathAux, if_neg (by simp [h1, h3]), if_neg h4]
    simp only
    rw [if_pos ⟨hcur, by unfold nameMax; omega⟩, hc]
    simp only
    rw [ih (cur ++ [c]) (by rw [← e]; exact hp) hn.tail, e]

include T in
/-- `realpath("P/n")` is the directory the link names -/
theorem realpathStr_link (cwd : CPath) : realpathStr fs cwd (toStr (P ++ [n])) = toStr D := by
  have gn := T.gn
  obtain ⟨n0, rest0, e0⟩ : ∃ n0 rest0, P ++ [n] = n0 :: rest0 := List.exists_cons_of_ne_nil (by simp)
  have hc := comps_toStr_cons n0 rest0 (e0 ▸ gn)
  obtain ⟨h1, _, h3, h4, h5⟩ := gn n (by simp)
  have hr : realpath fs cwd (toStr (P ++ [n])) = some D := by
    unfold realpath
    rw [isAbs_toStr, e0, hc, realpathAux, if_pos (Or.inl rfl), ← e0]
    have := realpathAux_plain_append fs linkFuel P [n] [] (by simpa using T.pp) gn.left
    simp only [List.nil_append] at this
    rw [if_pos rfl, this]
    have hf : linkFuel = 39 + 1 := rfl
    rw [hf, realpathAux, if_neg (by simp [h1, h3]), if_neg h4]
    simp only
    rw [if_pos ⟨T.pp P List.prefix_rfl, by unfold nameMax; omega⟩, T.link]
    simp only [isAbs_toStr, if_true, List.append_nil]
    have := realpath_plain fs cwd D T.tp T.tn
    unfold realpath at this
    rw [isAbs_toStr] at this
    -- the same computation with fuel 39: no link is met
    cases D with
    | nil =>
      have hc : comps (toStr []) = [[], []] := by decide
      rw [hc, realpathAux, if_pos (Or.inl rfl), realpathAux, if_pos (Or.inl rfl), real_nil]
    | cons d ds =>
      rw [comps_toStr_cons d ds T.tn, realpathAux, if_pos (Or.inl rfl)]
      have := realpathAux_plain fs 39 (d :: ds) [] (by simpa using T.tp) T.tn
      simpa using this
  unfold realpathStr
  rw [hr]

end through

/-- `OriginalLocation.for_file` for `P/n/e` with relative paths: the parent is RESOLVED (`B/D'`, where the
    link leads), the name is `e`: recorded as `D'/e`, relative to the top directory `B` -/
theorem originalLocation_through {fs : FS} {P : CPath} {n : Name} {B D' : CPath} {e : Name} (T : Through fs P n (B ++ D'))
    (hne : GoodNames [e]) (cwd : CPath) (cand : Candidate) (hr : cand.relative = true) (hv : cand.volume = toStr B) :
    originalLocation fs cwd (toStr ((P ++ [n]) ++ [e])) cand = relLoc D' e := by
  have gn := goodNames_through T hne
  obtain ⟨h1, h2⟩ := strip_volume B D' T.tn
  unfold originalLocation
  simp only [hr, hv, normpath_toStr _ gn, dirname_toStr (P ++ [n]) e gn, realpathStr_link T cwd,
    basename_toStr (P ++ [n]) e gn, if_true]
  rw [if_pos h1, h2]
  exact relLoc_eq D' e (goodNames_append T.tn.right hne)

/-! ### `Janitor.trash_file_in` for a trash directory yet to be made, ANY spelling of the entry -/

section fresh
variable {c : PutCfg} {fs : FS} {Q : CPath} {x : Name} {R P : CPath} {n : Name}
  (S : FreshSite fs Q x R) (A : Arg fs P n) (hm : MountsOk fs) (hvol : dev fs P = dev fs Q)
  (hapart : ¬ (P ++ [n]) <+: Q)

include S A hm hvol hapart in
/-- `C07CmdCore.trashFileIn_fresh` for an argument string `a` of which only this is known: in every
    state where all that existed is still there (`Old`), the location recorded for it is `loc` and
    the kernel resolves its `normpath` to the entry `P/n` -/
theorem trashFileIn_fresh_any (a volume : Bytes) (cand : Candidate) (hpath : cand.path = toStr (Q ++ x :: R))
    (hsec : securityCheck fs c.cwd cand = none) (hgate : gateCheck fs c volume cand = none)
    (loc : Bytes) (hloc : ∀ fs', Old fs fs' → originalLocation fs' c.cwd a cand = loc)
    (hsrcOf : ∀ fs', Old fs fs' →
      (if pIsmount fs' c.cwd (normpath a) = true then Except.error Errno.EBUSY else resolve fs' c.cwd (normpath a)) =
        .ok (P ++ [n]))
    (hbase : basename loc = n) (st : PutSt) (s : RunState) (hs : s.fs = fs) :
    ∃ s' fs1, run noFaults (trashFileIn c a volume cand st) s = ((.ok (n ++ trashinfoExt), st), s') ∧
      SiteCreated fs fs1 Q x R ∧
      Trashed fs1 s'.fs (infoOf (Q ++ x :: R)) (filesOf (Q ++ x :: R)) (P ++ [n]) (n ++ trashinfoExt)
        (formatTrashinfoWith loc c.dateStr) ∧
      s'.trace = firstUseTrace Q x R (P ++ [n]) n (formatTrashinfoWith loc c.dateStr) ++ s.trace ∧
      s'.outs = s.outs := by
  subst hs
  have gT : GoodNames (Q ++ x :: R) := S.names
  have gF : GoodNames ((Q ++ x :: R) ++ [b "files"]) := goodNames_snoc gT goodName_files
  have gI : GoodNames ((Q ++ x :: R) ++ [b "info"]) := goodNames_snoc gT goodName_info
  have hT0 : Q ++ x :: R ≠ [] := by simp
  have hPF : pjoin cand.path (b "files") = toStr ((Q ++ x :: R) ++ [b "files"]) := by
    rw [hpath]; exact pjoin_toStr hT0 gT _ (by decide +kernel)
  have hPI : pjoin cand.path (b "info") = toStr ((Q ++ x :: R) ++ [b "info"]) := by
    rw [hpath]; exact pjoin_toStr hT0 gT _ (by decide +kernel)
  rw [trashFileIn, run_read_bind]
  simp only [hsec, hgate]
  rw [hPF, hPI, hpath, run_bind]
  -- the trash directory
  obtain ⟨s1, h1, M1, t1, o1⟩ := mkdirPStr_fresh s c.cwd Q x R 0o700 S.basePlain gT S.fresh
  rw [h1]
  simp only []
  rw [run_bind]
  have pT1 : Plain s1.fs (Q ++ x :: R) := M1.plain_new S.fresh S.basePlain
  have fr1 : ∀ z rel, s1.fs.get ((Q ++ x :: R) ++ z :: rel) = none := fun z rel => M1.fresh_below S.fresh z rel
  -- files/
  obtain ⟨s2, h2, M2, t2, o2⟩ := mkdirPStr_fresh s1 c.cwd (Q ++ x :: R) (b "files") [] 0o700 pT1 gF (fr1 _)
  rw [h2]
  simp only []
  rw [run_bind]
  have pT2 : Plain s2.fs (Q ++ x :: R) := M2.plain_old (fr1 _) pT1
  have pF2 : Plain s2.fs ((Q ++ x :: R) ++ [b "files"]) := M2.plain_new (fr1 _) pT1
  have fr2 : ∀ rel, s2.fs.get ((Q ++ x :: R) ++ b "info" :: rel) = none := by
    intro rel
    rw [M2.frame _ (len_ne (by simp <;> omega)) (fun h => ?_)]
    · exact fr1 _ rel
    · have e := h.2.eq_of_length_le h.1.length_le
      have := (List.append_cancel_left e)
      simp only [List.cons.injEq] at this
      exact files_ne_info' this.1.symm
  -- info/
  obtain ⟨s3, h3, M3, t3, o3⟩ := mkdirPStr_fresh s2 c.cwd (Q ++ x :: R) (b "info") [] 0o700 pT2 gI fr2
  rw [h3]
  simp only []
  have pF3 : Plain s3.fs ((Q ++ x :: R) ++ [b "files"]) := M3.plain_old fr2 pF2
  have pI3 : Plain s3.fs ((Q ++ x :: R) ++ [b "info"]) := M3.plain_new fr2 pT2
  have old3 : Old s.fs s3.fs :=
    (old_of_made M1 S.fresh (S.basePlain Q List.prefix_rfl)).trans
      ((old_of_made M2 (fr1 _) (pT1 _ List.prefix_rfl)).trans (old_of_made M3 fr2 (pT2 _ List.prefix_rfl)))
  have SC : SiteCreated s.fs s3.fs Q x R := siteCreated_of_made S.basePlain M1 M2 M3
  have hmounts : s3.fs.mounts = s.fs.mounts := SC.mounts
  -- the entry is still there
  have hsQ : P ++ [n] ≠ Q := fun e => hapart (by rw [e]; exact List.prefix_rfl)
  have hsT : P ++ [n] ≠ Q ++ x :: R := fun e => src_not_pfx S A hapart (rest := R) (by rw [e]; exact List.prefix_rfl)
  have g1 : s1.fs.get (P ++ [n]) = s.fs.get (P ++ [n]) := (M1.keeps S.fresh A.present).1 hsQ
  have g2 : s2.fs.get (P ++ [n]) = s.fs.get (P ++ [n]) := by
    rw [(M2.keeps (fr1 _) (by rw [g1]; exact A.present)).1 hsT, g1]
  have g3 : s3.fs.get (P ++ [n]) = s.fs.get (P ++ [n]) := by
    rw [(M3.keeps fr2 (by rw [g2]; exact A.present)).1 hsT, g2]
  -- nothing under files/ and info/ yet
  have free3 : ∀ (d z : Name), s3.fs.get ((Q ++ x :: R) ++ [d] ++ [z]) = none := by
    intro d z
    rw [SC.frame _ (len_ne (by simp <;> omega)) (fun h => by have := h.2.length_le; simp at this; omega)
      (len_ne (by simp [filesOf])) (len_ne (by simp [infoOf]))]
    have e : (Q ++ x :: R) ++ [d] ++ [z] = Q ++ x :: (R ++ [d, z]) := by simp
    rw [e]; exact S.fresh _
  have hset : Setting s3.fs ((Q ++ x :: R) ++ [b "info"]) ((Q ++ x :: R) ++ [b "files"]) (P ++ [n]) :=
    { infoDir := pI3 _ List.prefix_rfl
      filesDir := pF3 _ List.prefix_rfl
      distinct := distinct_of _
      srcExists := by rw [g3]; exact A.present
      srcNotRoot := by simp
      srcNotMount := by rw [isMount_congr hmounts]; exact A.notMount
      sameDev := by
        show dev s3.fs (FS.parent (P ++ [n])) = _
        rw [FS.parent, List.dropLast_concat, dev_congr hmounts, dev_congr hmounts, hvol]
        have e : (Q ++ x :: R) ++ [b "files"] = Q ++ x :: (R ++ [b "files"]) := by simp
        rw [e, dev_fresh hm.mountsExist S.fresh]
      notAncestor := by
        constructor
        · rw [under_iff]
          have e : (Q ++ x :: R) ++ [b "info"] = Q ++ x :: (R ++ [b "info"]) := by simp
          rw [e]; exact src_not_pfx S A hapart
        · rw [under_iff]
          have e : (Q ++ x :: R) ++ [b "files"] = Q ++ x :: (R ++ [b "files"]) := by simp
          rw [e]; exact src_not_pfx S A hapart
      notInside := by
        have hpre : Q ++ [x] <+: Q ++ x :: R := by rw [cons_eq_snoc Q x R]; exact List.prefix_append _ _
        constructor
        · rw [under_iff]
          exact fun h => src_not_below S A ((hpre.trans (List.prefix_append _ _)).trans h)
        · rw [under_iff]
          exact fun h => src_not_below S A ((hpre.trans (List.prefix_append _ _)).trans h) }
  rw [run_read_bind, run_read_bind, dirC_plain _ _ _ pF3 gF, dirC_plain _ _ _ pI3 gI, hloc s3.fs old3, hbase]
  have hlen : (n ++ trashinfoExt).length ≤ 255 := by
    rw [List.length_append, ext_len]; exact A.shortName
  have hN := free3 (b "info") (n ++ trashinfoExt)
  have hF := free3 (b "files") n
  have hsrc := hsrcOf (fsB s3.fs (((Q ++ x :: R) ++ [b "info"]) ++ [n ++ trashinfoExt]) (formatTrashinfoWith loc c.dateStr))
    (old3.trans (old_fsB hN (pI3 _ List.prefix_rfl)))
  obtain ⟨s4, r4, f4, t4, o4⟩ := putCore_fresh n (formatTrashinfoWith loc c.dateStr)
    (fun fs' => if fs'.pIsmount c.cwd (normpath a) = true then Except.error Errno.EBUSY
      else fs'.resolve c.cwd (normpath a)) st s3 hset hF hN hlen hsrc
  refine ⟨s4, s3.fs, r4, SC, ?_, ?_, ?_⟩
  · rw [f4]; exact trashed_of_fsC hset n _ hF hN
  · rw [t4, t3, t2, t1]
    simp [firstUseTrace, filesOf, infoOf, ancestorCalls_nil]
  · rw [o4, o3, o2, o1]

end fresh

/-! ### `trash-put link/inside`: the entry goes by the volume the link LEADS to -/

open TrashVerif.Proofs.C07 (dev_self volumeOf_is_device_root)
open TrashVerif.Proofs.C07Cmd (altCand topCand altCand_path candidates_vol skip_home security_noParent gate_volume_site
  freshSite_site tryCandidates_next tryCandidates_take trashFileIn_insecure runPut_single basename_relLoc)

theorem put_through_link {c : PutCfg} {fs : FS} {H Qh Rh B D' P : CPath} {n e : Name} (C : HomeCfg c H)
    (W : OtherVolume fs H Qh Rh B) (hm : MountsOk fs) (S : FreshSite fs B (altName c.uid) [])
    (T : Through fs P n (B ++ D')) (A : Arg fs (B ++ D') e) (hon : dev fs (B ++ D') = B)
    (hu : GoodNames [uidName c.uid]) (hnoTop : fs.get (B ++ [b ".Trash"]) = none) (st : PutSt) :
    let r := run noFaults (runPut c [toStr ((P ++ [n]) ++ [e])] st) { fs := fs }
    r.1.outcomes = [(toStr ((P ++ [n]) ++ [e]), .trashed (toStr (B ++ [altName c.uid])) (e ++ trashinfoExt))] ∧
    r.1.crash = none ∧ r.1.exit = 0 ∧ r.2.outs = [] ∧
    r.2.trace = firstUseTrace B (altName c.uid) [] ((B ++ D') ++ [e]) e (formatTrashinfoWith (relLoc D' e) c.dateStr) ∧
    ∃ fs1, SiteCreated fs fs1 B (altName c.uid) [] ∧
      Trashed fs1 r.2.fs (infoOf (B ++ [altName c.uid])) (filesOf (B ++ [altName c.uid])) ((B ++ D') ++ [e])
        (e ++ trashinfoExt) (formatTrashinfoWith (relLoc D' e) c.dateStr) := by
  intro r
  have hne : GoodNames [e] := (show GoodNames ((B ++ D') ++ [e]) from A.names).right
  have gn := goodNames_through T hne
  have hBdev : dev fs B = B := dev_self fs B W.volMount
  have ga : GoodNames [altName c.uid] := (show GoodNames (B ++ [altName c.uid]) from S.names).right
  have hpath : (altCand c (toStr B)).path = toStr (B ++ [altName c.uid]) := altCand_path c B W.volNames ga
  have hsec : securityCheck fs c.cwd (altCand c (toStr B)) = none := by simp [securityCheck, altCand]
  have hgate : gateCheck fs c (toStr B) (altCand c (toStr B)) = none := by
    refine (C07.gate_same_volume fs c _ _ rfl).2 ?_
    rw [hpath, gate_volume_site c (freshSite_site S) hm.rootMounted, hBdev]
  have hapart : ¬ ((B ++ D') ++ [e]) <+: B := fun h => by have := h.length_le; simp at this; omega
  obtain ⟨s1, fs1, hrun, SC, Tr, htr, hout⟩ := trashFileIn_fresh_any (c := c) S A hm (by rw [hon, hBdev]) hapart
    (toStr ((P ++ [n]) ++ [e])) (toStr B) (altCand c (toStr B)) hpath hsec hgate (relLoc D' e)
    (fun fs' o => originalLocation_through (T.old o) hne c.cwd _ rfl rfl)
    (fun fs' o => by
      rw [normpath_toStr _ gn, pIsmount_through (T.old o) hne (o.isSome A.present)
        (by rw [isMount_congr o.mounts]; exact A.notMount) c.cwd]
      simpa using resolve_through (T.old o) hne c.cwd)
    (basename_relLoc D' e (by have := A.names; rw [List.append_assoc] at this;
                              exact (show GoodNames (B ++ (D' ++ [e])) from this).right)) st { fs := fs } rfl
  obtain ⟨rest, hc⟩ := candidates_vol C fs (toStr B)
  have htry : run noFaults (tryCandidates c (toStr ((P ++ [n]) ++ [e])) (toStr B) (candidatesFor fs c (toStr B)) [] st)
      { fs := fs } = ((.trashed (altCand c (toStr B)).path (e ++ trashinfoExt), st), s1) := by
    rw [hc, skip_home C W hm _ _ _ st { fs := fs } rfl,
      tryCandidates_next c _ (toStr B) _ _ _ st { fs := fs } .noParent (by intro e h; cases h)
        (trashFileIn_insecure c _ (toStr B) _ st { fs := fs } .noParent
          (security_noParent c W.volPlain W.volNames hu hnoTop))]
    exact tryCandidates_take c _ (toStr B) _ rest _ st st { fs := fs } s1 _ hrun
  -- `trash_single`: the volume is that of the RESOLVED parent, the directory the link names
  have hvolume : volumeOf fs c.cwd (realpathStr fs c.cwd (dirname
      (if rstripSlash (toStr ((P ++ [n]) ++ [e])) = [] then toStr ((P ++ [n]) ++ [e])
       else rstripSlash (toStr ((P ++ [n]) ++ [e]))))) = toStr B := by
    rw [rstripSlash_toStr (D := (P ++ [n]) ++ [e]) (by simp) gn, if_neg (toStr_ne_nil _), dirname_toStr (P ++ [n]) e gn,
      realpathStr_link T c.cwd, volumeOf_is_device_root _ _ _ T.tp T.tn hm.rootMounted, hon]
  have hsingle : run noFaults (trashSingle c (toStr ((P ++ [n]) ++ [e])) st) { fs := fs } =
      ((.ok (.trashed (altCand c (toStr B)).path (e ++ trashinfoExt)), st), s1) := by
    unfold trashSingle
    rw [if_neg (by rw [notDot_home gn]; simp), run_read_bind,
      if_neg (by rw [pLexists_through T hne A.present c.cwd]; simp)]
    have hask : ¬ (c.mode = PutMode.interactive ∧ pExists fs c.cwd (toStr ((P ++ [n]) ++ [e])) = true) :=
      fun x => C.noPrompt x.1
    simp only [if_neg hask, C.noForcedVolume]
    rw [hvolume, run_bind, htry]
    rfl
  have hput := runPut_single c _ st st { fs := fs } s1 _ hsingle (by intro e h; cases h)
  have hr : r = run noFaults (runPut c [toStr ((P ++ [n]) ++ [e])] st) { fs := fs } := rfl
  rw [hr, hput, hpath]
  exact ⟨rfl, rfl, rfl, hout, by show s1.trace = _; rw [htr]; simp, fs1, SC, Tr⟩

end TrashVerif.Proofs.C18CmdThrough
