/-
  Proofs/C02.lean — proofs of the statements of Props/C02.lean (put, then restore, is the identity).
-/
import TrashVerif.Proofs.C09
import TrashVerif.Proofs.C03
namespace TrashVerif.Proofs.C02
open TrashVerif Prog FS PutCore PutLemmas

/-! ### resolved layer -/

theorem some_above_of_tree {fs : FS} (htree : ∀ q x, (fs.get (q ++ [x])).isSome = true → (fs.get q).isSome = true) :
    ∀ (rel p : CPath), (fs.get (p ++ rel)).isSome = true → (fs.get p).isSome = true
  | [], p, h => by simpa using h
  | x :: rel, p, h => htree p x (some_above_of_tree htree rel (p ++ [x]) (by simpa using h))

/-- In a tree-shaped file system (every node's parent exists) nothing lies below a free path. -/
theorem free_below_of_tree {fs : FS} (htree : ∀ q x, (fs.get (q ++ [x])).isSome = true → (fs.get q).isSome = true)
    {p : CPath} (hp : fs.get p = none) : ∀ rel, fs.get (p ++ rel) = none := by
  intro rel
  cases hg : fs.get (p ++ rel) with
  | none => rfl
  | some nd =>
    have := some_above_of_tree htree rel p (by rw [hg]; rfl)
    rw [hp] at this
    cases this

/-- `restore_put_id` of Props/C02.lean as first stated (without `hnotMount`, `hfreeBelow`) is false:
    see `restore_put_id_counterexample_mount` and `restore_put_id_counterexample_orphan`. -/
theorem restore_put_id_partial (fs : FS) (infoC filesC src : CPath) (base content : Bytes) (st st' : PutSt)
    (h : Setting fs infoC filesC src) (name : Bytes) (s1 : RunState)
    (hr : run noFaults (putCore infoC filesC base content (fun _ => .ok src) st) { fs := fs } = ((.ok name, st'), s1))
    (hpar : fs.isDirAt (FS.parent src) = true)
    (hlen : ∀ n, src.getLast? = some n → n.length ≤ 255)
    (hnotMount : fs.isMount (filesC ++ [stemOf name]) = false)
    (hfreeBelow : ∀ rel, fs.get (filesC ++ [stemOf name] ++ rel) = none) :
    let r := run noFaults (restoreCore (.ok (filesC ++ [stemOf name])) (.ok src) (.ok (infoC ++ [name]))) { fs := s1.fs }
    r.1 = .ok () ∧
    (∀ rel, r.2.fs.get (src ++ rel) = fs.get (src ++ rel)) ∧
    r.2.fs.get (filesC ++ [stemOf name]) = none ∧ r.2.fs.get (infoC ++ [name]) = none ∧
    (∀ q, ¬ FS.under src q = true → q ≠ FS.parent src → q ≠ filesC → q ≠ infoC → r.2.fs.get q = fs.get q) := by
  have g := Geo.of_setting h
  have T := C01.put_ok_moves_whole fs infoC filesC src base content st st' h name s1 hr
  -- the mount table is the one of `fs`, and the name ends in the extension
  have cs := core_spec base content st { fs := fs } h
  rw [hr] at cs
  obtain ⟨hst, hm⟩ : name = stemOf name ++ trashinfoExt ∧ s1.fs.mounts = fs.mounts := by
    rcases cs with ⟨e, a, _⟩ | ⟨nm, a, hst, _, _, hfs, _⟩
    · cases a
    · simp only at a hfs
      cases a
      refine ⟨hst, ?_⟩
      rw [hfs]; simp [fsC, fsB, fsA]
  have hnt := stem_ne hst
  -- abbreviations
  obtain ⟨D, hD⟩ : ∃ D, filesC ++ [stemOf name] = D := ⟨_, rfl⟩
  obtain ⟨P, hP⟩ : ∃ P, infoC ++ [name] = P := ⟨_, rfl⟩
  have hDpar : parent D = filesC := by rw [← hD]; exact dropLast_concat _ _
  have hPpar : parent P = infoC := by rw [← hP]; exact dropLast_concat _ _
  have hPne : P ≠ [] := by rw [← hP]; simp
  have D_S : ¬ D <+: src := hD ▸ g.D_S
  have S_D : ¬ src <+: D := hD ▸ g.S_D
  have D_I : ¬ D <+: infoC := hD ▸ g.D_I
  have D_P : ¬ D <+: P := hD ▸ hP ▸ g.D_P hnt
  have S_P : ¬ src <+: P := hP ▸ g.S_P
  have D_ne_F : D ≠ filesC := by rw [← hD]; intro e; simpa using congrArg List.length e
  have P_ne_I : P ≠ infoC := by rw [← hP]; intro e; simpa using congrArg List.length e
  rw [hD] at hnotMount hfreeBelow
  rw [hD, hP]
  have Twhole : ∀ rel, s1.fs.get (D ++ rel) = fs.get (src ++ rel) := hD ▸ T.whole
  have Tinfo : s1.fs.get P = some (.file content 0o600 0) := hP ▸ T.info
  have Tfree : fs.get P = none := hP ▸ T.wasFreeInfo
  have Tframe : ∀ q, ¬ src <+: q → ¬ D <+: q → q ≠ P → q ≠ parent src → q ≠ filesC → q ≠ infoC →
      s1.fs.get q = fs.get q := by
    intro q a1 a2 a3 a4 a5 a6
    exact T.frame q (fun e => a1 ((under_iff _ _).1 e)) (fun e => a2 ((under_iff _ _).1 (hD ▸ e))) (hP ▸ a3) a4 a5 a6
  -- hypotheses of `restore_spec`
  obtain ⟨na, hna⟩ := Option.isSome_iff_exists.1 h.srcExists
  have hdst : s1.fs.get src = none := by simpa using T.gone []
  have hsrc : s1.fs.get D = some na := by simpa [hna] using Twhole []
  have hmnt : s1.fs.isMount D = false := by rw [isMount_congr hm]; exact hnotMount
  have hdev : s1.fs.dev (parent D) = s1.fs.dev (parent src) := by
    rw [dev_congr hm, dev_congr hm, hDpar]; exact h.sameDev.symm
  obtain ⟨pm, pt, hpd⟩ := isDirAt_get hpar
  obtain ⟨pt', hpd'⟩ := T.dirs.1 pm pt hpd
  have hi : (fsC s1.fs D src (parent src)).get P = some (.file content 0o600 0) := by
    have b1 : P ≠ parent src := hP ▸ g.P_ps
    have b2 : P ≠ parent D := by rw [hDpar, ← hP]; exact g.P_F
    rw [fsC_get, if_neg b1, if_neg b2, get_moveTree', if_neg S_P, if_neg D_P, Tinfo]
  obtain ⟨r1, r2⟩ := C09.restore_spec hdst hsrc hmnt hdev g.h7 hlen hpd' D_S hi
  intro r
  refine ⟨r1, fun rel => ?_, ?_, ?_, fun q q1 q2 q3 q4 => ?_⟩
  · show (run noFaults _ _).2.fs.get _ = _
    have hpre : src <+: src ++ rel := List.prefix_append _ _
    have c1 : src ++ rel ≠ parent P := by rw [hPpar]; exact fun e => g.h3 (e ▸ hpre)
    have c2 : src ++ rel ≠ P := fun e => S_P (e ▸ hpre)
    have c4 : src ++ rel ≠ parent D := by rw [hDpar]; exact fun e => g.h4 (e ▸ hpre)
    rw [r2, C09.fsR_get_away c1 c2 (C09.append_ne_parent src rel g.h7) c4, get_moveTree', if_pos hpre,
      List.drop_left, Twhole]
  · show (run noFaults _ _).2.fs.get _ = _
    have c1 : D ≠ parent P := by rw [hPpar]; exact fun e => D_I (e ▸ List.prefix_rfl)
    have c2 : D ≠ P := fun e => D_P (e ▸ List.prefix_rfl)
    have c3 : D ≠ parent src := C09.ne_parent_of_pfx D_S
    have c4 : D ≠ parent D := by rw [hDpar]; exact D_ne_F
    rw [r2, C09.fsR_get_away c1 c2 c3 c4, get_moveTree', if_neg S_D, if_pos List.prefix_rfl]
  · show (run noFaults _ _).2.fs.get _ = _
    rw [r2]; exact C09.fsR_get_info hPne
  · show (run noFaults _ _).2.fs.get _ = _
    have q1' : ¬ src <+: q := fun e => q1 ((under_iff _ _).2 e)
    by_cases hqP : q = P
    · rw [hqP, r2, C09.fsR_get_info hPne, Tfree]
    · have c1 : q ≠ parent P := by rw [hPpar]; exact q4
      have c4 : q ≠ parent D := by rw [hDpar]; exact q3
      rw [r2, C09.fsR_get_away c1 hqP q2 c4, get_moveTree', if_neg q1']
      by_cases hqD : D <+: q
      · obtain ⟨rel, rfl⟩ := hqD
        rw [if_pos (List.prefix_append _ _), hfreeBelow]
      · rw [if_neg hqD]
        exact Tframe q q1' hqD hqP q2 q3 q4

/-! ### the statement without the two extra hypotheses is false -/

theorem apply_mounts (c : Call) (fs fs' : FS) (h : c.apply fs = .ok fs') : fs'.mounts = fs.mounts := by
  cases c <;>
    simp only [Call.apply, FS.mkdir, FS.createExcl, FS.createTrunc, FS.writeData, FS.rename, FS.unlink, FS.rmdir,
      FS.symlink, FS.chmod, FS.utime, Bind.bind, Except.bind] at h
  all_goals repeat' (split at h)
  all_goals first | (cases h; done) | (cases h; rfl) | (cases h; simp)

/-- no program changes the mount table -/
theorem run_mounts {α} (φ : Oracle) (p : Prog α) (s : RunState) : (run φ p s).2.fs.mounts = s.fs.mounts := by
  induction p generalizing s with
  | ret a => rfl
  | get k ih => simp only [run]; exact ih _ _
  | emit o k ih => simp only [run]; exact ih _
  | call c k ih =>
    simp only [run]
    split
    · next fs' heq =>
      rw [ih]
      split at heq
      · cases heq
      · exact apply_mounts c _ _ heq
    · rw [ih]

theorem rmdir_mount_fails {fs : FS} {a : CPath} (hm : fs.isMount a = true) : ∃ e, fs.rmdir a = .error e := by
  unfold FS.rmdir
  split
  · exact ⟨_, rfl⟩
  · rw [if_pos hm]; exact ⟨_, rfl⟩
  · exact ⟨_, rfl⟩

/-- `rmtree` of a mount point fails: the final `rmdir` is refused (EBUSY) if it is reached at all -/
theorem rmtree_mount_fails (a : CPath) (s : RunState) (hm : s.fs.isMount a = true) :
    ∃ e, (run noFaults (rmtree a) s).1 = .error e := by
  unfold rmtree
  rw [run_read_bind]
  split
  · exact ⟨_, rfl⟩
  · exact ⟨_, rfl⟩
  · exact ⟨_, rfl⟩
  · simp only [run_bind]
    generalize hr : run noFaults (rmInner _ a) s = r1
    have hm1 : r1.2.fs.isMount a = true := by
      rw [← hr, isMount_congr (run_mounts _ _ _)]; exact hm
    obtain ⟨res, s1⟩ := r1
    cases res with
    | error e => exact ⟨e, rfl⟩
    | ok u =>
      cases u
      obtain ⟨e, he⟩ := rmdir_mount_fails hm1
      exact ⟨e, by simp only [run_sys_err (c := .rmdir a) (s := s1) he]⟩

/-- `shutil.move` of a directory that is a mount point onto a free name fails: `rename` is refused
    (EBUSY) and the copy fallback cannot remove the source. -/
theorem move_dir_mount_fails {s : RunState} {a c : CPath} {m t : Nat} (hc : s.fs.get c = none)
    (hdir : s.fs.get a = some (.dir m t)) (hm : s.fs.isMount a = true) :
    ∃ e, (run noFaults (move a c) s).1 = .error e := by
  have hid : isdirC s.fs c = false := by simp [isdirC, statC, followC, hc]
  have hren : Call.apply s.fs (.rename a c) = .error .EBUSY := by
    simp [Call.apply, FS.rename, hdir, hm]
  unfold move
  rw [run_read_bind]
  simp only [hid, Bool.false_eq_true, false_and, if_false]
  rw [run_bind, run_sys_err hren]
  simp only [run_read_bind, hdir]
  split
  · exact ⟨_, rfl⟩
  · simp only [run_bind]
    generalize hr : run noFaults (copytree _ a c) _ = r1
    have hm1 : r1.2.fs.isMount a = true := by
      rw [← hr, isMount_congr (run_mounts _ _ _)]; exact hm
    obtain ⟨res, s1⟩ := r1
    cases res with
    | error e => exact ⟨e, rfl⟩
    | ok u => cases u; exact rmtree_mount_fails a s1 hm1

namespace Cex
open C09.Cex

theorem stem_nm : stemOf nm = [97] := by decide +kernel

/-- `/`, `/t`, `/t/i` (info), `/t/f` (files) and the directory `/a`; the absent path `/t/f/a` is in
    the mount table -/
def fs2 : FS := FS.ofList [([], dirN), ([[116]], dirN), (I, dirN), (F, dirN), (S, dirN)] [F ++ [[97]]]

theorem setting2 : Setting fs2 I F S := by
  refine ⟨?_, ?_, ?_, ?_, ?_, ?_, ?_, ?_, ?_⟩ <;> decide +kernel

def R2 := run noFaults (putCore I F [97] [67] (fun _ => .ok S) ⟨[], []⟩) { fs := fs2 }
theorem R2_ok : R2.1.1 = .ok nm := okName_eq (by decide +kernel)

/-- as `fs2` without the mount entry, with an orphan node `/t/f/a/o` (its parent does not exist) -/
def fs3 : FS :=
  FS.ofList [([], dirN), ([[116]], dirN), (I, dirN), (F, dirN), (S, dirN), (F ++ [[97], [111]], .file [] 0 0)] []

theorem setting3 : Setting fs3 I F S := by
  refine ⟨?_, ?_, ?_, ?_, ?_, ?_, ?_, ?_, ?_⟩ <;> decide +kernel

def R3 := run noFaults (putCore I F [97] [67] (fun _ => .ok S) ⟨[], []⟩) { fs := fs3 }
theorem R3_ok : R3.1.1 = .ok nm := okName_eq (by decide +kernel)

def Q3 := run noFaults (restoreCore (.ok (F ++ [stemOf nm])) (.ok S) (.ok (I ++ [nm]))) { fs := R3.2.fs }

end Cex

open Cex C09.Cex in
/-- `restore_put_id` as first stated in Props/C02.lean is FALSE (1): nothing in a `Setting` keeps the
    (absent) payload path `files/N` out of the mount table.  Trash the directory `/a` into `/t` when
    `/t/f/a` is a mount-table entry: the put succeeds (`rename` does not look at the destination's
    mount status), the restore's `rename` is refused with EBUSY, and the copy fallback of
    `shutil.move` ends in `rmtree` → `rmdir` of the mount point → EBUSY: the restore FAILS. -/
theorem restore_put_id_counterexample_mount :
    ∃ (fs : FS) (infoC filesC src : CPath) (base content : Bytes) (st st' : PutSt) (name : Bytes) (s1 : RunState),
      Setting fs infoC filesC src ∧
      run noFaults (putCore infoC filesC base content (fun _ => .ok src) st) { fs := fs } = ((.ok name, st'), s1) ∧
      fs.isDirAt (FS.parent src) = true ∧ (∀ n, src.getLast? = some n → n.length ≤ 255) ∧
      (run noFaults (restoreCore (.ok (filesC ++ [stemOf name])) (.ok src) (.ok (infoC ++ [name]))) { fs := s1.fs }).1
        ≠ .ok () := by
  have hr : run noFaults (putCore I F [97] [67] (fun _ => .ok S) ⟨[], []⟩) { fs := fs2 } = ((.ok nm, R2.1.2), R2.2) :=
    Prod.ext (Prod.ext R2_ok rfl) rfl
  refine ⟨fs2, I, F, S, [97], [67], ⟨[], []⟩, R2.1.2, nm, R2.2, setting2, hr, by decide +kernel,
    fun n hn => ?_, ?_⟩
  · have : n = [97] := by simpa [S] using hn.symm
    rw [this]; decide
  · have hc : ({ fs := R2.2.fs } : RunState).fs.get S = none := by decide +kernel
    have hdir : ({ fs := R2.2.fs } : RunState).fs.get (F ++ [stemOf nm]) = some (.dir 0o755 7) := by decide +kernel
    have hm : ({ fs := R2.2.fs } : RunState).fs.isMount (F ++ [stemOf nm]) = true := by decide +kernel
    obtain ⟨e, he⟩ := move_dir_mount_fails hc hdir hm
    unfold restoreCore
    simp only [run_bind]
    generalize run noFaults (move (F ++ [stemOf nm]) S) { fs := R2.2.fs } = rm at he
    obtain ⟨res, s2⟩ := rm
    simp only at he
    subst he
    intro h
    cases h

open Cex C09.Cex in
/-- `restore_put_id` as first stated in Props/C02.lean is FALSE (2): the flat `FS` allows nodes whose
    parent does not exist.  An orphan `/t/f/a/o` below the free payload name is overwritten by the
    put's `rename` and is not back after the restore, although its path is covered by the frame
    conclusion. -/
theorem restore_put_id_counterexample_orphan :
    ∃ (fs : FS) (infoC filesC src : CPath) (base content : Bytes) (st st' : PutSt) (name : Bytes) (s1 : RunState),
      Setting fs infoC filesC src ∧
      run noFaults (putCore infoC filesC base content (fun _ => .ok src) st) { fs := fs } = ((.ok name, st'), s1) ∧
      fs.isDirAt (FS.parent src) = true ∧ (∀ n, src.getLast? = some n → n.length ≤ 255) ∧
      fs.isMount (filesC ++ [stemOf name]) = false ∧
      ∃ q, ¬ FS.under src q = true ∧ q ≠ FS.parent src ∧ q ≠ filesC ∧ q ≠ infoC ∧
        (run noFaults (restoreCore (.ok (filesC ++ [stemOf name])) (.ok src) (.ok (infoC ++ [name]))) { fs := s1.fs }).2.fs.get q
          ≠ fs.get q := by
  have hr : run noFaults (putCore I F [97] [67] (fun _ => .ok S) ⟨[], []⟩) { fs := fs3 } = ((.ok nm, R3.1.2), R3.2) :=
    Prod.ext (Prod.ext R3_ok rfl) rfl
  refine ⟨fs3, I, F, S, [97], [67], ⟨[], []⟩, R3.1.2, nm, R3.2, setting3, hr, by decide +kernel,
    fun n hn => ?_, by decide +kernel, F ++ [[97], [111]], by decide +kernel, by decide +kernel, by decide +kernel,
    by decide +kernel, ?_⟩
  · have : n = [97] := by simpa [S] using hn.symm
    rw [this]; decide
  · have h1 : Q3.2.fs.get (F ++ [[97], [111]]) = none := by decide +kernel
    have h2 : fs3.get (F ++ [[97], [111]]) = some (.file [] 0 0) := by decide +kernel
    show Q3.2.fs.get _ ≠ _
    rw [h1, h2]
    intro h; cases h

/-! ### string layer -/

section strings
open Bytes

theorem inScope_self_and_ancestors (dir rest : Bytes) (_hd : dir ≠ []) (_hr : rest ≠ []) (_hs : rest.head? ≠ some slash)
    (_hnt : dir.getLast? ≠ some slash ∨ dir = [slash]) :
    let loc := (if dir = [slash] then dir else dir ++ [slash]) ++ rest
    inScope dir loc = true ∧ inScope loc loc = true ∧ inScope [slash] loc = true := by
  intro loc
  refine ⟨?_, by simp [inScope], by simp [inScope]⟩
  by_cases h : dir = [slash]
  · simp [inScope, h]
  · simp [inScope, loc, h, startsWith]

theorem restore_reads_what_put_wrote (loc : Bytes) (d : Date) (hd : d.valid = true) (hy : 1000 ≤ d.y) :
    (readText (formatTrashinfoWith loc d.fmt)).bind parsePath = some loc ∧
    (readText (formatTrashinfoWith loc d.fmt)).bind parseDeletionDate = some d := by
  refine ⟨C03.parsePath_format loc d hd hy, ?_⟩
  have := C03.parseDate_format loc d hd hy
  simp only [readText, Option.map_some, Option.some.injEq] at this
  simp [readText, parseDeletionDate, this]

theorem b_info : b "info" = [105, 110, 102, 111] := by decide +kernel
theorem ext_eq : trashinfoExt = [46, 116, 114, 97, 115, 104, 105, 110, 102, 111] := by decide +kernel

theorem snoc_of_last {t : Bytes} (h1 : t ≠ []) (h2 : t.getLast? ≠ some slash) : ∃ w x, t = w ++ [x] ∧ x ≠ slash := by
  rcases List.eq_nil_or_concat t with e | ⟨w, x, e⟩
  · exact absurd e h1
  · rw [List.concat_eq_append] at e
    refine ⟨w, x, e, fun hx => h2 ?_⟩
    rw [e, hx, List.getLast?_concat]

/-- `posixpath.join` of a non-empty head without a trailing slash and a relative tail -/
theorem pjoin_plain (w : Bytes) (x : UInt8) (c : Bytes) (hx : x ≠ slash) (hc : c.head? ≠ some slash) :
    pjoin (w ++ [x]) c = w ++ [x] ++ [slash] ++ c := by
  have h1 : startsWith c [slash] = false := by
    cases c with
    | nil => rfl
    | cons y ys =>
      have : y ≠ slash := fun e => hc (by rw [e]; rfl)
      simp [startsWith, List.isPrefixOf, Ne.symm this]
  have h2 : endsWith (w ++ [x]) [slash] = false := by
    cases he : endsWith (w ++ [x]) [slash] with
    | false => rfl
    | true =>
      unfold endsWith at he
      rw [List.isSuffixOf_iff_suffix] at he
      obtain ⟨t, ht⟩ := he
      have := congrArg List.getLast? ht
      rw [List.getLast?_concat, List.getLast?_concat] at this
      exact absurd (Option.some.inj this).symm hx
  unfold pjoin
  simp [h1, h2]

theorem dirname_join (w : Bytes) (x : UInt8) (c : Bytes) (hx : x ≠ slash) (hc : slash ∉ c) :
    dirname (w ++ [x] ++ [slash] ++ c) = w ++ [x] := by
  have hb : basename (w ++ [x] ++ [slash] ++ c) = c := C01.basename_after (Or.inr ⟨w ++ [x], rfl⟩) hc
  have ht : (w ++ [x] ++ [slash] ++ c).take ((w ++ [x] ++ [slash] ++ c).length - c.length) = w ++ [x] ++ [slash] := by
    apply List.take_left'
    simp; omega
  have hall : ¬ (w ++ [x] ++ [slash]).all (· = slash) = true := by
    simp [hx]
  unfold dirname
  simp only [hb, ht]
  rw [if_pos ⟨by simp, hall⟩]
  exact C01.rstrip_gen w x 1 hx

theorem payload_path_roundtrip (t stem : Bytes) (ht : t ≠ [] ∧ t.getLast? ≠ some slash) (hn : stem ≠ [] ∧ slash ∉ stem) :
    pathOfBackupCopy (pjoin (pjoin t (b "info")) (stem ++ trashinfoExt)) = pjoin (pjoin t (b "files")) stem := by
  obtain ⟨w, x, rfl, hx⟩ := snoc_of_last ht.1 ht.2
  have hinfo : slash ∉ b "info" := by rw [b_info]; decide
  have hext : slash ∉ stem ++ trashinfoExt := by
    rw [ext_eq]; intro h
    rcases List.mem_append.1 h with h | h
    · exact hn.2 h
    · revert h; decide
  have hhead : (stem ++ trashinfoExt).head? ≠ some slash := by
    obtain ⟨y, ys, rfl⟩ := List.exists_cons_of_ne_nil hn.1
    intro e
    simp only [List.cons_append, List.head?_cons, Option.some.injEq] at e
    exact hn.2 (e ▸ List.mem_cons_self)
  have e1 : pjoin (w ++ [x]) (b "info") = w ++ [x] ++ [slash] ++ b "info" :=
    pjoin_plain w x _ hx (by rw [b_info]; decide)
  -- the info directory ends in 'o'
  have e1' : w ++ [x] ++ [slash] ++ b "info" = (w ++ [x] ++ [slash] ++ [105, 110, 102]) ++ [111] := by
    rw [b_info]; simp
  have e2 : pjoin (w ++ [x] ++ [slash] ++ b "info") (stem ++ trashinfoExt) =
      w ++ [x] ++ [slash] ++ b "info" ++ [slash] ++ (stem ++ trashinfoExt) := by
    rw [e1']; exact pjoin_plain _ 111 _ (by decide) hhead
  have d1 : dirname (w ++ [x] ++ [slash] ++ b "info" ++ [slash] ++ (stem ++ trashinfoExt)) =
      w ++ [x] ++ [slash] ++ b "info" := by
    rw [e1']; exact dirname_join _ 111 _ (by decide) hext
  have d2 : dirname (w ++ [x] ++ [slash] ++ b "info") = w ++ [x] := dirname_join w x _ hx hinfo
  have bn : basename (w ++ [x] ++ [slash] ++ b "info" ++ [slash] ++ (stem ++ trashinfoExt)) = stem ++ trashinfoExt :=
    C01.basename_after (Or.inr ⟨_, rfl⟩) hext
  unfold pathOfBackupCopy
  simp only [e1, e2, d1, d2, bn, List.length_append, Nat.add_sub_cancel, List.take_left']

end strings

end TrashVerif.Proofs.C02
