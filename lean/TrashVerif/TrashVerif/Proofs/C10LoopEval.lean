/-
  Proofs/C10LoopEval.lean — kernel-evaluable twins of the removal routines and of the loops of
  trash-empty / trash-rm (extends Proofs/C16Eval.lean, Proofs/C02CmdEval.lean): `List.mergeSort`
  (reached through `sortedChildren` by `rmtree` and `infosOf`) and `walk` (reached through
  `resolve` / `contentsOf`) are replaced by their structurally recursive twins, so that
  `decide +kernel` can run the loops on concrete worlds.
-/
import TrashVerif.Model.Cmds
import TrashVerif.Proofs.C02CmdEval
namespace TrashVerif.Proofs.C10LoopEval
open TrashVerif Prog FS Bytes
open TrashVerif.Proofs.C16Eval TrashVerif.Proofs.C02CmdEval

/-! ### removal -/

/-- the loop of `rmInner` over the children, the recursive call abstracted (so that the twin below
    is structurally recursive on the fuel alone; `rmInner` itself is compiled by well-founded
    recursion, which the kernel cannot unfold) -/
def rmGoS (inner : CPath → Prog Res) : List CPath → Prog Res
  | [] => pure (.ok ())
  | c :: cs => do
    let fs' ← read
    match fs'.get c with
    | some (.dir ..) =>
      match ← inner c with
      | .error e => pure (.error e)
      | .ok () =>
        match ← sys (.rmdir c) with
        | .error e => pure (.error e)
        | .ok () => rmGoS inner cs
    | _ =>
      match ← sys (.unlink c) with
      | .error e => pure (.error e)
      | .ok () => rmGoS inner cs

def rmInnerS : Nat → CPath → Prog Res
  | 0, _ => pure (.error .ELOOP)
  | fuel+1, p => do
    let fs ← read
    rmGoS (rmInnerS fuel) (sortedChildrenS fs p)

theorem rmInner_eq : ∀ (fuel : Nat) (p : CPath), rmInner fuel p = rmInnerS fuel p := by
  intro fuel
  induction fuel with
  | zero => intro p; unfold rmInner rmInnerS; rfl
  | succ fuel ih =>
    intro p
    have hf : rmInner fuel = rmInnerS fuel := funext ih
    have hgo : ∀ cs : List CPath, rmInner.go fuel cs = rmGoS (rmInnerS fuel) cs := by
      intro cs
      induction cs with
      | nil => unfold rmInner.go rmGoS; rfl
      | cons c cs ihc =>
        unfold rmInner.go rmGoS
        simp only [ih, ihc] <;> rfl
    unfold rmInner rmInnerS
    simp only [hgo, sortedChildren_eq] <;> rfl

def rmtreeS (p : CPath) : Prog Res := do
  let fs ← read
  match fs.get p with
  | none => pure (.error .ENOENT)
  | some (.link _) => pure (.error .OTHER)
  | some (.file ..) => pure (.error .ENOTDIR)
  | some (.dir ..) =>
    let depth := (fs.dom.map List.length).foldl max 0
    match ← rmInnerS (depth + 1) p with
    | .error e => pure (.error e)
    | .ok () => sys (.rmdir p)
theorem rmtree_eq (p : CPath) : rmtree p = rmtreeS p := by
  unfold rmtree rmtreeS; simp only [rmInner_eq] <;> rfl

def removeFile2S (p : CPath) : Prog Res := do
  match ← sys (.unlink p) with
  | .ok () => pure (.ok ())
  | .error _ => rmtreeS p
theorem removeFile2_eq (p : CPath) : removeFile2 p = removeFile2S p := by
  unfold removeFile2 removeFile2S; simp only [rmtree_eq] <;> rfl

def removeIfExistsS (p : CPath) : Prog Res := do
  let fs ← read
  if lexistsC fs p then removeFile2S p else pure (.ok ())
theorem removeIfExists_eq (p : CPath) : removeIfExists p = removeIfExistsS p := by
  unfold removeIfExists removeIfExistsS; simp only [removeFile2_eq] <;> rfl

def removeIfExistsRS (p : Except Errno CPath) : Prog Res :=
  match p with
  | .ok q => removeIfExistsS q
  | .error _ => pure (.ok ())
theorem removeIfExistsR_eq (p : Except Errno CPath) : removeIfExistsR p = removeIfExistsRS p := by
  unfold removeIfExistsR removeIfExistsRS; simp only [removeIfExists_eq] <;> rfl

def removeFile2RS (p : Except Errno CPath) : Prog Res :=
  match p with
  | .ok q => removeFile2S q
  | .error e => pure (.error e)
theorem removeFile2R_eq (p : Except Errno CPath) : removeFile2R p = removeFile2RS p := by
  unfold removeFile2R removeFile2RS; simp only [removeFile2_eq] <;> rfl

def purgePairS (payload info : Except Errno CPath) : Prog Res := do
  match ← removeIfExistsRS payload with
  | .error e => pure (.error e)
  | .ok () => removeFile2RS info
theorem purgePair_eq (payload info : Except Errno CPath) : purgePair payload info = purgePairS payload info := by
  unfold purgePair purgePairS; simp only [removeIfExistsR_eq, removeFile2R_eq] <;> rfl

/-! ### trash-empty -/

def okToDeleteS (fs : FS) (cwd : CPath) (o : EmptyOpts) (infoPath : Bytes) : Decision :=
  match o.days with
  | none => .delete
  | some days =>
    match contentsOfS fs cwd infoPath with
    | none => .keep
    | some text =>
      match parseDeletionDate text with
      | none => .keep
      | some d =>
        match olderThan days o.now o.nowUs d with
        | .overflow => .crash .overflow
        | .yes => .delete
        | .no => .keep
theorem okToDelete_eq (fs : FS) (cwd : CPath) (o : EmptyOpts) (infoPath : Bytes) :
    okToDelete fs cwd o infoPath = okToDeleteS fs cwd o infoPath := by
  unfold okToDelete okToDeleteS; simp only [contentsOf_eq] <;> rfl

def emptyPathRS (o : EmptyOpts) (path : Bytes) (p : Except Errno CPath) : Prog Unit := do
  if o.dryRun then say (.stdout (b "would remove " ++ path))
  else do
    if o.verbose > 0 then say (.stdout (b "removing " ++ path))
    match ← removeIfExistsRS p with
    | .ok () => pure ()
    | .error _ => say (.stderr "cannot-remove" path)
theorem emptyPathR_eq (o : EmptyOpts) (path : Bytes) (p : Except Errno CPath) :
    emptyPathR o path p = emptyPathRS o path p := by
  unfold emptyPathR emptyPathRS; simp only [removeIfExistsR_eq] <;> rfl

def emptyInfosS (cwd : CPath) (o : EmptyOpts) : List Bytes → Prog (Option Crash)
  | [] => pure none
  | i :: rest => do
    let fs ← read
    match okToDeleteS fs cwd o i with
    | .crash c => pure (some c)
    | .keep => emptyInfosS cwd o rest
    | .delete => do
      let infoC := resolveS fs cwd i
      emptyPathRS o (pathOfBackupCopy i) (resolveS fs cwd (pathOfBackupCopy i))
      emptyPathRS o i infoC
      emptyInfosS cwd o rest
theorem emptyInfos_eq (cwd : CPath) (o : EmptyOpts) : ∀ is : List Bytes, emptyInfos cwd o is = emptyInfosS cwd o is := by
  intro is
  induction is with
  | nil => rfl
  | cons i rest ih =>
    unfold emptyInfos emptyInfosS
    simp only [okToDelete_eq, resolve_eq, emptyPathR_eq, ih] <;> rfl

/-! ### trash-rm -/

def rmInfosS (cwd : CPath) (pattern volume : Bytes) : List Bytes → Prog (Option Crash)
  | [] => pure none
  | i :: rest => do
    let fs ← read
    match contentsOfS fs cwd i with
    | none => do say (.stderr "unparsable" i); rmInfosS cwd pattern volume rest
    | some text =>
      match parsePath text with
      | none => do say (.stderr "unparsable" i); rmInfosS cwd pattern volume rest
      | some rel =>
        match rmMatches pattern (pjoin volume rel) with
        | none => pure (some .indexError)
        | some false => rmInfosS cwd pattern volume rest
        | some true => do
          match ← purgePairS (resolveS fs cwd (pathOfBackupCopy i)) (resolveS fs cwd i) with
          | .error _ => pure (some .osError)
          | .ok () => rmInfosS cwd pattern volume rest
theorem rmInfos_eq (cwd : CPath) (pattern volume : Bytes) : ∀ is : List Bytes,
    rmInfos cwd pattern volume is = rmInfosS cwd pattern volume is := by
  intro is
  induction is with
  | nil => rfl
  | cons i rest ih =>
    unfold rmInfos rmInfosS
    simp only [contentsOf_eq, resolve_eq, purgePair_eq, ih] <;> rfl

/-! ### the scan of `info/` -/

def entriesIfDirExistsS (fs : FS) (cwd : CPath) (path : Bytes) : Listing :=
  if ¬ pExistsS fs cwd path then .names []
  else match listdirStrS fs cwd path with
    | some ns => .names ns
    | none => .crash
theorem entriesIfDirExists_eq (fs : FS) (cwd : CPath) (path : Bytes) :
    entriesIfDirExists fs cwd path = entriesIfDirExistsS fs cwd path := by
  unfold entriesIfDirExists entriesIfDirExistsS; simp only [pExists_eq, listdirStr_eq] <;> rfl

def infosOfS (fs : FS) (cwd : CPath) (trashDir : Bytes) : Except Crash (List Bytes) :=
  let infoDir := pjoin trashDir (b "info")
  match entriesIfDirExistsS fs cwd infoDir with
  | .crash => .error .notADirectory
  | .names ns => .ok ((ns.filter isTrashinfoName).map fun n => pjoin infoDir n)
theorem infosOf_eq (fs : FS) (cwd : CPath) (trashDir : Bytes) : infosOf fs cwd trashDir = infosOfS fs cwd trashDir := by
  unfold infosOf infosOfS; simp only [entriesIfDirExists_eq] <;> rfl

end TrashVerif.Proofs.C10LoopEval
