/-
  Proofs/C16.lean — proofs of the statements of Props/C16.lean.
-/
import TrashVerif.Proofs.PutLemmas
namespace TrashVerif.Proofs.C16
open TrashVerif Prog FS PutLemmas

/-! ### output is never taken back -/

theorem outs_mono {α} (φ : Oracle) (p : Prog α) (s : RunState) (o : Out) (h : o ∈ s.outs) :
    o ∈ (run φ p s).2.outs := by
  induction p generalizing s with
  | ret a => exact h
  | get k ih => simp only [run]; exact ih _ _ h
  | emit o' k ih => simp only [run]; exact ih _ (List.mem_cons_of_mem _ h)
  | call c k ih =>
    simp only [run]
    split <;> exact ih _ _ h

theorem run_say (φ : Oracle) (o : Out) (s : RunState) : run φ (say o) s = ((), { s with outs := o :: s.outs }) := rfl

/-! ### `putAll` -/

def Post (acc : List (Bytes × ArgOutcome)) (args : List Bytes) (r : PutResult × RunState) : Prop :=
  (∀ o ∈ r.1.outcomes, o.2.failed = true → Out.stderr "cannot-trash" o.1 ∈ r.2.outs) ∧
  (r.1.crash ≠ none → r.1.exit = 1) ∧
  (r.1.crash = none → r.1.outcomes.map (·.1) = acc.reverse.map (·.1) ++ args ∧
     (r.1.exit = 0 ↔ ∀ o ∈ r.1.outcomes, o.2.failed = false) ∧ (r.1.exit = 0 ∨ r.1.exit = 74))

theorem putAll_spec (φ : Oracle) (c : PutCfg) :
    ∀ (args : List Bytes) (st : PutSt) (acc : List (Bytes × ArgOutcome)) (s : RunState),
      (∀ o ∈ acc, o.2.failed = true → Out.stderr "cannot-trash" o.1 ∈ s.outs) →
      Post acc args (run φ (putAll c args st acc) s) := by
  intro args
  induction args with
  | nil =>
    intro st acc s hacc
    unfold putAll
    simp only [run_pure]
    refine ⟨fun o ho hf => hacc o (List.mem_reverse.1 ho) hf, fun h => absurd rfl h, fun _ => ⟨by simp, ?_, ?_⟩⟩
    · by_cases hany : (acc.reverse.any fun x => x.2.failed) = true
      · simp only [hany, if_true]
        constructor
        · intro h; cases h
        · intro hall
          obtain ⟨x, hx, hf⟩ := List.any_eq_true.1 hany
          rw [hall x hx] at hf; cases hf
      · simp only [hany]
        refine ⟨fun _ o ho => ?_, fun _ => rfl⟩
        cases hf : o.2.failed with
        | false => rfl
        | true => exact absurd (List.any_eq_true.2 ⟨o, ho, hf⟩) hany
    · by_cases hany : (acc.reverse.any fun x => x.2.failed) = true
      · right; simp [hany]
      · left; simp [hany]
  | cons a rest ih =>
    intro st acc s hacc
    unfold putAll
    rw [run_bind]
    have hm := fun o h => outs_mono φ (trashSingle c a st) s o h
    generalize run φ (trashSingle c a st) s = r1 at hm
    obtain ⟨⟨r, st1⟩, s1⟩ := r1
    simp only at hm
    have crashCase : ∀ (msg : Bytes) (e : PutCrash),
        Post acc (a :: rest) (run φ (say (.stderr "traceback" msg) >>= fun _ =>
          (pure { outcomes := acc.reverse, crash := some e, exit := 1 } : Prog PutResult)) s1) := by
      intro msg e
      rw [run_bind, run_say, run_pure]
      refine ⟨fun o ho hf => ?_, fun _ => rfl, fun h => by cases h⟩
      exact List.mem_cons_of_mem _ (hm _ (hacc o (List.mem_reverse.1 ho) hf))
    have goCase : ∀ o : ArgOutcome,
        Post acc (a :: rest) (run φ (if o.failed = true then (say (.stderr "cannot-trash" a) >>= fun _ =>
          putAll c rest st1 ((a, o) :: acc)) else putAll c rest st1 ((a, o) :: acc)) s1) := by
      intro o
      have key : ∀ s2 : RunState, (∀ x ∈ s1.outs, x ∈ s2.outs) →
          (o.failed = true → Out.stderr "cannot-trash" a ∈ s2.outs) →
          Post acc (a :: rest) (run φ (putAll c rest st1 ((a, o) :: acc)) s2) := by
        intro s2 hm2 hnew
        have := ih st1 ((a, o) :: acc) s2 (by
          intro x hx hf
          rcases List.mem_cons.1 hx with e | e
          · subst e; exact hnew hf
          · exact hm2 _ (hm _ (hacc x e hf)))
        obtain ⟨p1, p2, p3⟩ := this
        refine ⟨p1, p2, fun hc => ?_⟩
        obtain ⟨q1, q2, q3⟩ := p3 hc
        refine ⟨?_, q2, q3⟩
        rw [q1]; simp
      by_cases hf : o.failed = true
      · rw [if_pos hf, run_bind, run_say]
        exact key _ (fun x hx => List.mem_cons_of_mem _ hx) (fun _ => List.mem_cons_self)
      · rw [if_neg hf]
        exact key s1 (fun x hx => hx) (fun h => absurd h hf)
    cases r with
    | error e => exact crashCase _ e
    | ok o =>
      cases o with
      | crashed e => exact crashCase _ .cleanup
      | trashed t n => exact goCase _
      | skippedMissing => exact goCase _
      | declined => exact goCase _
      | failedDot => exact goCase _
      | failedMissing => exact goCase _
      | failedAll rs => exact goCase _

theorem exit_iff (φ : Oracle) (c : PutCfg) (args : List Bytes) (st : PutSt) (s : RunState) :
    let res := (run φ (runPut c args st) s).1
    res.crash = none →
      res.outcomes.map (·.1) = args ∧
      (res.exit = 0 ↔ ∀ o ∈ res.outcomes, o.2.failed = false) ∧
      (res.exit = 0 ∨ res.exit = 74) := by
  intro res hc
  have := (putAll_spec φ c args st [] s (fun _ h => by cases h)).2.2 hc
  simp only [List.reverse_nil, List.map_nil, List.nil_append] at this
  exact this

theorem diag_each_failure (φ : Oracle) (c : PutCfg) (args : List Bytes) (st : PutSt) (s : RunState) :
    let r := run φ (runPut c args st) s
    ∀ o ∈ r.1.outcomes, o.2.failed = true → Out.stderr "cannot-trash" o.1 ∈ r.2.outs :=
  (putAll_spec φ c args st [] s (fun _ h => by cases h)).1

theorem crash_exit_nonzero (φ : Oracle) (c : PutCfg) (args : List Bytes) (st : PutSt) (s : RunState) :
    let res := (run φ (runPut c args st) s).1
    res.crash ≠ none → res.exit = 1 :=
  (putAll_spec φ c args st [] s (fun _ h => by cases h)).2.1

/-! ### `trashSingle` -/

theorem tryCandidates_outcome (φ : Oracle) (c : PutCfg) (path volume : Bytes) :
    ∀ (cands : List Candidate) (reasons : List Reason) (st : PutSt) (s : RunState),
      (run φ (tryCandidates c path volume cands reasons st) s).1.1 ≠ .skippedMissing ∧
      (run φ (tryCandidates c path volume cands reasons st) s).1.1 ≠ .declined := by
  intro cands
  induction cands with
  | nil => intro reasons st s; unfold tryCandidates; simp
  | cons cand rest ih =>
    intro reasons st s
    unfold tryCandidates
    rw [run_bind]
    generalize run φ (trashFileIn c path volume cand st) s = r1
    obtain ⟨⟨r, st1⟩, s1⟩ := r1
    cases r with
    | ok name => simp
    | error reason =>
      cases reason <;> first | exact ih _ _ _ | simp

theorem skip_reasons (c : PutCfg) (path : Bytes) (st : PutSt) (φ : Oracle) (s : RunState) :
    let r := (run φ (trashSingle c path st) s).1.1
    (r = .ok .skippedMissing → c.mode = .force ∧ FS.pLexists s.fs c.cwd path = false ∧ isDotEntry (rstripSlash path) = false) ∧
    (r = .ok .declined → c.mode = .interactive ∧ ∃ reply rest, st.replies = reply :: rest ∧ putReplyYes reply = false) := by
  intro r
  have hr : r = (run φ (trashSingle c path st) s).1.1 := rfl
  clear_value r
  unfold trashSingle at hr
  by_cases hd : isDotEntry (rstripSlash path) = true
  · rw [if_pos hd, run_pure] at hr
    subst hr
    exact ⟨fun h => (by cases h), fun h => (by cases h)⟩
  · rw [if_neg hd, run_read_bind] at hr
    have hd' : isDotEntry (rstripSlash path) = false := by simpa using hd
    by_cases hl : FS.pLexists s.fs c.cwd path = true
    · rw [if_neg (by simpa using hl)] at hr
      simp only [] at hr
      by_cases hask : c.mode = PutMode.interactive ∧ pExists s.fs c.cwd path = true
      · rw [if_pos hask] at hr
        cases hrep : st.replies with
        | nil =>
          rw [hrep] at hr
          simp only [run_pure] at hr
          subst hr
          exact ⟨fun h => (by cases h), fun h => (by cases h)⟩
        | cons reply rs =>
          rw [hrep] at hr
          simp only [] at hr
          cases hy : putReplyYes reply with
          | false =>
            rw [hy] at hr
            simp only [run_pure] at hr
            subst hr
            exact ⟨fun h => (by cases h), fun _ => ⟨hask.1, reply, rs, rfl, hy⟩⟩
          | true =>
            rw [hy] at hr
            simp only [run_bind, run_pure] at hr
            subst hr
            exact ⟨fun h => absurd (Except.ok.inj h) (tryCandidates_outcome φ c path _ _ [] _ s).1,
              fun h => absurd (Except.ok.inj h) (tryCandidates_outcome φ c path _ _ [] _ s).2⟩
      · rw [if_neg hask] at hr
        simp only [run_bind, run_pure] at hr
        subst hr
        exact ⟨fun h => absurd (Except.ok.inj h) (tryCandidates_outcome φ c path _ _ [] _ s).1,
          fun h => absurd (Except.ok.inj h) (tryCandidates_outcome φ c path _ _ [] _ s).2⟩
    · have hl' : FS.pLexists s.fs c.cwd path = false := by simpa using hl
      rw [if_pos (by simpa using hl')] at hr
      simp only [run_pure] at hr
      subst hr
      refine ⟨fun h => ?_, fun h => ?_⟩
      · by_cases hm : c.mode = PutMode.force
        · exact ⟨hm, hl', hd'⟩
        · rw [if_neg hm] at h; cases h
      · by_cases hm : c.mode = PutMode.force
        · rw [if_pos hm] at h; cases h
        · rw [if_neg hm] at h; cases h

end TrashVerif.Proofs.C16
