/-
  Proofs/C14LoopThm.lean — the statements of Props/C14Loop.lean assembled from Proofs/C14Loop.lean
  (the loop) and Proofs/C14LoopDir.lean (the pass over a trash directory, the command).
-/
import TrashVerif.Proofs.C14LoopDir
namespace TrashVerif.Proofs.C14LoopThm
open TrashVerif Prog FS PutCore PutLemmas C09Hist C10Loop C14Loop
open TrashVerif.Proofs.C10Loop TrashVerif.Proofs.C14Loop TrashVerif.Proofs.C14LoopDir

/-! ### (1) the dry-run loop -/

theorem dry_run_loop_from (φ : Oracle) (cwd : CPath) (t : Bytes) (names : List Bytes) (o : EmptyOpts) (s : RunState)
    (hdry : o.dryRun = true) (hnc : ∀ n ∈ names, ∀ c, okToDelete s.fs cwd o (infoStr t n) ≠ .crash c) :
    run φ (emptyInfos cwd o (infoStrs t names)) s =
      (none, { s with outs := ((pathsOf t (emptySelected s.fs cwd o t names)).map dryLine).reverse ++ s.outs }) := by
  rw [dry_infos φ cwd o hdry (infoStrs t names) s (fun i hi c => by
    obtain ⟨m, hm, rfl⟩ := mem_infoStrs hi
    exact hnc m hm c), selectedInfos_infoStrs, flatMap_infoStrs]

theorem dry_run_loop_prints_selected (φ : Oracle) (fs : FS) (cwd : CPath) (t : Bytes) (names : List Bytes) (o : EmptyOpts)
    (hdry : o.dryRun = true) (hnc : ∀ n ∈ names, ∀ c, okToDelete fs cwd o (infoStr t n) ≠ .crash c) :
    (run φ (emptyInfos cwd o (infoStrs t names)) { fs := fs }).1 = none ∧
    (run φ (emptyInfos cwd o (infoStrs t names)) { fs := fs }).2.trace = [] ∧
    (run φ (emptyInfos cwd o (infoStrs t names)) { fs := fs }).2.hist = [] ∧
    (run φ (emptyInfos cwd o (infoStrs t names)) { fs := fs }).2.fs = fs ∧
    (run φ (emptyInfos cwd o (infoStrs t names)) { fs := fs }).2.outs.reverse =
      (pathsOf t (emptySelected fs cwd o t names)).map dryLine := by
  rw [dry_run_loop_from φ cwd t names o { fs := fs } hdry hnc]
  refine ⟨rfl, rfl, rfl, rfl, ?_⟩
  simp only [List.append_nil, List.reverse_reverse]

theorem dry_run_loop_stops_at_overflow (φ : Oracle) (fs : FS) (cwd : CPath) (t : Bytes) (pre post : List Bytes) (n : Bytes)
    (c : Crash) (o : EmptyOpts) (hdry : o.dryRun = true)
    (hpre : ∀ m ∈ pre, ∀ c', okToDelete fs cwd o (infoStr t m) ≠ .crash c')
    (hn : okToDelete fs cwd o (infoStr t n) = .crash c) :
    (run φ (emptyInfos cwd o (infoStrs t (pre ++ n :: post))) { fs := fs }).1 = some c ∧
    (run φ (emptyInfos cwd o (infoStrs t (pre ++ n :: post))) { fs := fs }).2.trace = [] ∧
    (run φ (emptyInfos cwd o (infoStrs t (pre ++ n :: post))) { fs := fs }).2.fs = fs ∧
    (run φ (emptyInfos cwd o (infoStrs t (pre ++ n :: post))) { fs := fs }).2.outs.reverse =
      (pathsOf t (emptySelected fs cwd o t pre)).map dryLine := by
  have e : infoStrs t (pre ++ n :: post) = infoStrs t pre ++ infoStr t n :: infoStrs t post := by
    unfold infoStrs; rw [List.map_append, List.map_cons]
  rw [e, dry_infos_crash φ cwd o hdry (infoStrs t pre) (infoStrs t post) (infoStr t n) c { fs := fs }
    (fun i hi c' => by obtain ⟨m, hm, rfl⟩ := mem_infoStrs hi; exact hpre m hm c') hn,
    selectedInfos_infoStrs, flatMap_infoStrs]
  refine ⟨rfl, rfl, rfl, ?_⟩
  simp only [List.append_nil, List.reverse_reverse]

/-! ### (2) the real loop -/

theorem real_loop_removes_selected (fs : FS) (cwd : CPath) (t : Bytes) (I F : CPath) (names : List Bytes) (o : EmptyOpts)
    (S : Setting fs cwd t I F names) (hdry : o.dryRun = false)
    (hnc : ∀ n ∈ names, ∀ c, okToDelete fs cwd o (infoStr t n) ≠ .crash c) :
    (run noFaults (emptyInfos cwd o (infoStrs t names)) { fs := fs }).1 = none ∧
    (run noFaults (emptyInfos cwd o (infoStrs t names)) { fs := fs }).2.outs.reverse =
      (if o.verbose > 0 then (pathsOf t (emptySelected fs cwd o t names)).map removingLine else []) ∧
    (∀ p ∈ pathsOf t (emptySelected fs cwd o t names),
      pLexists (run noFaults (emptyInfos cwd o (infoStrs t names)) { fs := fs }).2.fs cwd p = false) ∧
    (∀ n ∈ emptySelected fs cwd o t names,
      (∀ rel, (run noFaults (emptyInfos cwd o (infoStrs t names)) { fs := fs }).2.fs.get (I ++ [n] ++ rel) = none) ∧
      (∀ rel, (run noFaults (emptyInfos cwd o (infoStrs t names)) { fs := fs }).2.fs.get (F ++ [stemOf n] ++ rel) = none)) ∧
    (∀ p ∈ pathsOf t names, p ∉ pathsOf t (emptySelected fs cwd o t names) →
      lstat (run noFaults (emptyInfos cwd o (infoStrs t names)) { fs := fs }).2.fs cwd p = lstat fs cwd p) ∧
    PurgedExactly fs (run noFaults (emptyInfos cwd o (infoStrs t names)) { fs := fs }).2.fs I F
      (emptySelected fs cwd o t names) := by
  have S' : Setting fs cwd t I F (names ++ []) := by rw [List.append_nil]; exact S
  obtain ⟨a, P, c, _⟩ := real_infos o hdry cwd t I F [] names { fs := fs } S' hnc
  obtain ⟨gone, kept⟩ := paths_after S (fun d hd => (List.mem_filter.1 hd).1) P
  refine ⟨a, ?_, gone, fun n hn => ⟨P.infoGone n hn, P.payloadGone n hn⟩, kept, P⟩
  rw [c]
  simp only [List.append_nil, List.reverse_reverse]
  rfl

/-! ### (3) the comparison, for the loop -/

theorem okToDelete_dry (fs : FS) (cwd : CPath) (o : EmptyOpts) (x : Bool) (i : Bytes) :
    okToDelete fs cwd { o with dryRun := x } i = okToDelete fs cwd o i := rfl

theorem emptySelected_dry (fs : FS) (cwd : CPath) (o : EmptyOpts) (x : Bool) (t : Bytes) (names : List Bytes) :
    emptySelected fs cwd { o with dryRun := x } t names = emptySelected fs cwd o t names := rfl

theorem dry_vs_real_loop (φ : Oracle) (fs : FS) (cwd : CPath) (t : Bytes) (I F : CPath) (names : List Bytes) (o : EmptyOpts)
    (S : Setting fs cwd t I F names)
    (hnc : ∀ n ∈ names, ∀ c, okToDelete fs cwd o (infoStr t n) ≠ .crash c) :
    (run φ (emptyInfos cwd { o with dryRun := true } (infoStrs t names)) { fs := fs }).2.trace = [] ∧
    (run φ (emptyInfos cwd { o with dryRun := true } (infoStrs t names)) { fs := fs }).2.fs = fs ∧
    (run φ (emptyInfos cwd { o with dryRun := true } (infoStrs t names)) { fs := fs }).2.outs.reverse =
      (pathsOf t (emptySelected fs cwd o t names)).map dryLine ∧
    (∀ p ∈ pathsOf t (emptySelected fs cwd o t names),
      pLexists (run noFaults (emptyInfos cwd { o with dryRun := false } (infoStrs t names)) { fs := fs }).2.fs cwd p = false) ∧
    (pathsOf t (emptySelected fs cwd o t names)).filter (pLexists fs cwd) =
      removedOf fs (run noFaults (emptyInfos cwd { o with dryRun := false } (infoStrs t names)) { fs := fs }).2.fs cwd
        (pathsOf t names) := by
  obtain ⟨_, d2, _, d4, d5⟩ := dry_run_loop_prints_selected φ fs cwd t names { o with dryRun := true } rfl hnc
  obtain ⟨_, _, r3, _, _, P⟩ := real_loop_removes_selected fs cwd t I F names { o with dryRun := false } S rfl hnc
  refine ⟨d2, d4, d5, r3, ?_⟩
  exact selected_existing_eq_removed S names (fun _ h => h) _ (fun d hd => (List.mem_filter.1 hd).1)
    (fun n => decide (okToDelete fs cwd o (infoStr t n) = .delete))
    (fun n hn => ⟨fun h => List.mem_filter.2 ⟨hn, h⟩, fun h => (List.mem_filter.1 h).2⟩) P

/-- when every selected entry is complete (info file and payload exist), every announced path exists -/
theorem complete_all_exist {fs : FS} {cwd : CPath} {t : Bytes} {I F : CPath} {names : List Bytes}
    (S : Setting fs cwd t I F names) {sel : List Bytes} (hsub : ∀ n ∈ sel, n ∈ names)
    (hc : ∀ n ∈ sel, (fs.get (I ++ [n])).isSome = true ∧ (fs.get (F ++ [stemOf n])).isSome = true) :
    (pathsOf t sel).filter (pLexists fs cwd) = pathsOf t sel := by
  rw [List.filter_eq_self]
  intro p hp
  obtain ⟨n, hn, e⟩ := mem_pathsOf.1 hp
  obtain ⟨e1, e2⟩ := pLexists_info S (within_refl I F fs) (hsub n hn)
  rcases e with rfl | rfl
  · rw [e2]; exact (hc n hn).2
  · rw [e1]; exact (hc n hn).1

/-! ### (3) the comparison, for the command on one trash directory -/

theorem announcedDir_dry (fs : FS) (cwd : CPath) (o : EmptyOpts) (x : Bool) (t : Bytes) :
    announcedDir fs cwd { o with dryRun := x } t = announcedDir fs cwd o t := rfl

theorem noCrashDir_of (fs : FS) (cwd : CPath) (t : Bytes) (I F : CPath) (o : EmptyOpts) (D : DirSetting fs cwd t I F)
    (hnc : ∀ n ∈ listed fs I, ∀ c, okToDelete fs cwd o (infoStr t n) ≠ .crash c) : NoCrashDir fs cwd o t :=
  ⟨⟨_, (dir_scan D).1, fun i hi c => by obtain ⟨m, hm, rfl⟩ := mem_infoStrs hi; exact hnc m hm c⟩, _, (dir_scan D).2⟩

/-- the dry run of the whole command: the whole result -/
theorem dry_run_command (φ : Oracle) (c : ReadCfg) (o : EmptyOpts) (reply : Option Bytes) (s : RunState)
    (hdry : o.dryRun = true) (hgo : o.interactive = false ∨ ∃ r, reply = some r ∧ emptyReplyYes r = true)
    (hnc : ∀ tv ∈ foundDirs (selectTrashDirs s.fs c o.userDirs), NoCrashDir s.fs c.cwd o tv.1) :
    run φ (runEmpty c o reply) s =
      ({ exit := 0 }, { s with outs :=
        ((announced s.fs c.cwd o (foundDirs (selectTrashDirs s.fs c o.userDirs))).map dryLine).reverse ++ s.outs }) := by
  rw [run_go φ c o reply s hgo, dry_dirs φ c.cwd o hdry _ s hnc]

/-- the real pass over one trash directory -/
theorem real_dir_removes_announced (fs : FS) (cwd : CPath) (t v : Bytes) (I F : CPath) (o : EmptyOpts) (s : RunState)
    (hs : s.fs = fs) (D : DirSetting fs cwd t I F) (hdry : o.dryRun = false)
    (hnc : ∀ n ∈ listed fs I, ∀ c, okToDelete fs cwd o (infoStr t n) ≠ .crash c) :
    (run noFaults (emptyDirs cwd o [(t, v)]) s).1 = none ∧
    (announcedDir fs cwd o t).filter (pLexists fs cwd) =
      removedOf fs (run noFaults (emptyDirs cwd o [(t, v)]) s).2.fs cwd (dirPaths fs cwd t) ∧
    (∀ p ∈ announcedDir fs cwd o t, pLexists (run noFaults (emptyDirs cwd o [(t, v)]) s).2.fs cwd p = false) ∧
    (∀ p ∈ dirPaths fs cwd t, p ∉ announcedDir fs cwd o t →
      lstat (run noFaults (emptyDirs cwd o [(t, v)]) s).2.fs cwd p = lstat fs cwd p) ∧
    ∃ L1 : List Bytes, L1.Perm (orphanNames fs I F) ∧
      PurgedExactly fs (run noFaults (emptyDirs cwd o [(t, v)]) s).2.fs I F
        (emptySelected fs cwd o t (listed fs I) ++ L1.map infoNameOf) ∧
      (run noFaults (emptyDirs cwd o [(t, v)]) s).2.outs =
        (if o.verbose > 0 then (pathsOf t (emptySelected fs cwd o t (listed fs I)) ++ L1.map (orphanStr t)).map removingLine
         else []).reverse ++ s.outs := by
  subst hs
  obtain ⟨a, L1, hperm, P, c⟩ := real_dir o hdry cwd t v I F s D hnc
  obtain ⟨e1, e2, e3⟩ := announced_existing_eq_removed D o hperm P
  exact ⟨a, e1, e2, e3, L1, hperm, P, c⟩

end TrashVerif.Proofs.C14LoopThm
