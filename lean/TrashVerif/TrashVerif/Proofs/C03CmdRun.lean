/-
  Proofs/C03CmdRun.lean — the info file a whole run of `trash-put` writes (proofs for Props/C03Cmd.lean).
-/
import TrashVerif.Props.C03CmdDefs
import TrashVerif.Proofs.C03Cmd
import TrashVerif.Proofs.C07Cmd
import TrashVerif.Proofs.C18CmdHome
import TrashVerif.Proofs.C18CmdSeq
namespace TrashVerif.Proofs.C03CmdRun
open TrashVerif Prog FS PutCore PutLemmas C07Cmd C16Indep C03Cmd
open TrashVerif.Proofs.C07 (Plain GoodNames body toStr_ne body_append body_cons body_single joinWith_body)
open TrashVerif.Proofs.C16IndepHome (locOf_eq alone_home)
open TrashVerif.Proofs.C07Cmd (pjoin_toStr' head_of_good)

theorem infoWritten_of {s : FS} {p : CPath} {loc : Bytes} {d : Date} (hd : d.valid = true) (hy : 1000 ≤ d.y)
    (h : s.get p = some (.file (formatTrashinfoWith loc d.fmt) 0o600 0)) : InfoWritten s p loc d :=
  ⟨h, C03.format_conformant loc d hd hy, C03.parsePath_format loc d hd hy, C03.parseDate_format loc d hd hy,
   C03Cmd.parseDeletionDate_format loc d hd hy⟩

/-- the reader's join of the volume's top directory and the recorded relative location -/
theorem pjoin_relLoc (V P' : CPath) (n : Name) (hV : GoodNames V) (hn : GoodNames (P' ++ [n])) :
    pjoin (toStr V) (relLoc P' n) = toStr ((V ++ P') ++ [n]) ∧ (relLoc P' n).head? ≠ some slash := by
  obtain ⟨m, rest, e⟩ : ∃ m rest, P' ++ [n] = m :: rest := by
    cases P' with
    | nil => exact ⟨n, [], rfl⟩
    | cons y ys => exact ⟨y, ys ++ [n], rfl⟩
  have hm := hn m (by rw [e]; exact List.mem_cons_self)
  have hh : (relLoc P' n).head? ≠ some slash := by
    unfold relLoc
    rw [e, joinWith_body]
    obtain ⟨y, ys, rfl⟩ := List.exists_cons_of_ne_nil hm.1
    intro h
    simp only [List.cons_append, List.head?_cons, Option.some.injEq] at h
    exact hm.2.1 (h ▸ List.mem_cons_self)
  refine ⟨?_, hh⟩
  rw [pjoin_toStr' V hV _ hh, toStr_ne (by simp), toStr_ne (by simp), List.append_assoc, e, body_append, body_append,
    body_single, body_cons]
  unfold relLoc
  rw [e, joinWith_body]

/-! ### 1. the home trash -/

theorem home_first_use_info {c : PutCfg} {fs : FS} {H Q : CPath} {x : Name} {R P : CPath} {n : Name} {d : Date}
    (C : HomeCfg c H) (hsplit : trashC H = Q ++ x :: R) (S : FreshSite fs Q x R) (A : Arg fs P n)
    (hm : MountsOk fs) (hvol : dev fs P = dev fs Q) (hapart : ¬ (P ++ [n]) <+: Q) (K : Clock c d) (st : PutSt) :
    let r := run noFaults (runPut c [toStr (P ++ [n])] st) { fs := fs }
    r.1.outcomes = [(toStr (P ++ [n]), .trashed (homeStr H) (n ++ trashinfoExt))] ∧ r.1.exit = 0 ∧
    InfoWritten r.2.fs (infoC H ++ [n ++ trashinfoExt]) (toStr (P ++ [n])) d := by
  intro r
  obtain ⟨o1, _, o3, _, _, fs1, _, T⟩ := Proofs.C07Cmd.home_first_use C hsplit S A hm hvol hapart st
  refine ⟨o1, o3, infoWritten_of K.valid K.fourDigits ?_⟩
  have := T.info
  rw [locOf_eq P n A.names, K.reading] at this
  exact this

theorem home_existing_info {c : PutCfg} {fs : FS} {H P : CPath} {n : Name} {d : Date} (W : HomeWorld c fs H)
    (A : GoodArg fs H P n) (K : Clock c d) (st : PutSt) (name : Bytes)
    (hok : (run noFaults (homeCore c H P n st) { fs := fs }).1.1 = .ok name) :
    let r := run noFaults (runPut c [toStr (P ++ [n])] st) { fs := fs }
    r.1.outcomes = [(toStr (P ++ [n]), .trashed (homeStr H) name)] ∧ r.1.exit = 0 ∧
    InfoWritten r.2.fs (infoC H ++ [name]) (toStr (P ++ [n])) d := by
  intro r
  obtain ⟨o1, _, o3, o4⟩ := alone_home W A st name hok
  refine ⟨o1, o3, infoWritten_of K.valid K.fourDigits ?_⟩
  show r.2.fs.get _ = _
  rw [o4]
  have hset := Proofs.C16IndepHome.W_setting W A
  have g := Geo.of_setting hset
  have cs := core_spec (basename (locOf P n)) (formatTrashinfoWith (locOf P n) c.dateStr) st { fs := fs } hset
  unfold homeCore at hok ⊢
  rcases cs with ⟨e, a, _, _⟩ | ⟨name', a, hst, _, _, b, _⟩
  · rw [a] at hok; cases hok
  · rw [a] at hok; cases hok
    rw [b, final_info g (stem_ne hst), locOf_eq P n A.names, K.reading]

/-! ### 2. a volume trash directory: the location is relative to the top directory -/

theorem volume_alt_info {c : PutCfg} {fs : FS} {H Qh Rh V P' : CPath} {n : Name} {d : Date} (C : HomeCfg c H)
    (W : OtherVolume fs H Qh Rh V) (hm : MountsOk fs) (S : FreshSite fs V (altName c.uid) []) (A : Arg fs (V ++ P') n)
    (hon : dev fs (V ++ P') = V) (hu : GoodNames [uidName c.uid]) (hnoTop : fs.get (V ++ [b ".Trash"]) = none)
    (K : Clock c d) (st : PutSt) :
    let r := run noFaults (runPut c [toStr ((V ++ P') ++ [n])] st) { fs := fs }
    r.1.outcomes = [(toStr ((V ++ P') ++ [n]), .trashed (toStr (V ++ [altName c.uid])) (n ++ trashinfoExt))] ∧
    r.1.exit = 0 ∧
    InfoWritten r.2.fs (infoOf (V ++ [altName c.uid]) ++ [n ++ trashinfoExt]) (relLoc P' n) d ∧
    pjoin (toStr V) (relLoc P' n) = toStr ((V ++ P') ++ [n]) ∧ (relLoc P' n).head? ≠ some slash := by
  intro r
  obtain ⟨o1, _, o3, _, _, fs1, _, T⟩ := Proofs.C07Cmd.other_volume_alt C W hm S A hon hu hnoTop st
  have hn : GoodNames (P' ++ [n]) := by
    have : GoodNames (V ++ (P' ++ [n])) := by rw [← List.append_assoc]; exact A.names
    exact this.right
  refine ⟨o1, o3, infoWritten_of K.valid K.fourDigits ?_, pjoin_relLoc V P' n W.volNames hn⟩
  have := T.info
  rw [K.reading] at this
  exact this

theorem volume_top_info {c : PutCfg} {fs : FS} {H Qh Rh V P' : CPath} {n : Name} {m t : Nat} {d : Date} (C : HomeCfg c H)
    (W : OtherVolume fs H Qh Rh V) (hm : MountsOk fs)
    (S : FreshSite fs (V ++ [b ".Trash"]) (uidName c.uid) []) (A : Arg fs (V ++ P') n)
    (hon : dev fs (V ++ P') = V) (htop : fs.get (V ++ [b ".Trash"]) = some (.dir m t)) (hsticky : m &&& 0o1000 ≠ 0)
    (hnm : fs.isMount (V ++ [b ".Trash"]) = false) (hapart : ¬ ((V ++ P') ++ [n]) <+: V ++ [b ".Trash"])
    (K : Clock c d) (st : PutSt) :
    let r := run noFaults (runPut c [toStr ((V ++ P') ++ [n])] st) { fs := fs }
    r.1.outcomes = [(toStr ((V ++ P') ++ [n]),
      .trashed (toStr (V ++ [b ".Trash"] ++ [uidName c.uid])) (n ++ trashinfoExt))] ∧
    r.1.exit = 0 ∧
    InfoWritten r.2.fs (infoOf (V ++ [b ".Trash"] ++ [uidName c.uid]) ++ [n ++ trashinfoExt]) (relLoc P' n) d ∧
    pjoin (toStr V) (relLoc P' n) = toStr ((V ++ P') ++ [n]) ∧ (relLoc P' n).head? ≠ some slash := by
  intro r
  obtain ⟨o1, _, o3, _, _, fs1, _, T⟩ := Proofs.C07Cmd.volume_top C W hm S A hon htop hsticky hnm hapart st
  have hn : GoodNames (P' ++ [n]) := by
    have : GoodNames (V ++ (P' ++ [n])) := by rw [← List.append_assoc]; exact A.names
    exact this.right
  refine ⟨o1, o3, infoWritten_of K.valid K.fourDigits ?_, pjoin_relLoc V P' n W.volNames hn⟩
  have := T.info
  rw [K.reading] at this
  exact this

/-! ### 3. `--trash-dir` -/

theorem custom_info {c : PutCfg} {fs : FS} {Q : CPath} {x : Name} {R V P' : CPath} {n : Name} {d : Date}
    (C : CustomCfg c (Q ++ x :: R)) (S : FreshSite fs Q x R) (hV : dev fs Q = V) (A : Arg fs (V ++ P') n)
    (hon : dev fs (V ++ P') = V) (hm : MountsOk fs) (hapart : ¬ ((V ++ P') ++ [n]) <+: Q) (K : Clock c d) (st : PutSt) :
    let r := run noFaults (runPut c [toStr ((V ++ P') ++ [n])] st) { fs := fs }
    r.1.outcomes = [(toStr ((V ++ P') ++ [n]), .trashed (toStr (Q ++ x :: R)) (n ++ trashinfoExt))] ∧ r.1.exit = 0 ∧
    InfoWritten r.2.fs (infoOf (Q ++ x :: R) ++ [n ++ trashinfoExt]) (relLoc P' n) d ∧
    volumeOf fs c.cwd (toStr (Q ++ x :: R)) = toStr V ∧
    pjoin (toStr V) (relLoc P' n) = toStr ((V ++ P') ++ [n]) ∧ (relLoc P' n).head? ≠ some slash := by
  intro r
  obtain ⟨o1, _, o3, _, _, fs1, _, T⟩ := Proofs.C07Cmd.custom_same_volume C S hV A hon hm hapart st
  have hn : GoodNames (P' ++ [n]) := by
    have : GoodNames (V ++ (P' ++ [n])) := by rw [← List.append_assoc]; exact A.names
    exact this.right
  have hVn : GoodNames V := by
    have : GoodNames (V ++ (P' ++ [n])) := by rw [← List.append_assoc]; exact A.names
    exact this.left
  have hvol : volumeOf fs c.cwd (toStr (Q ++ x :: R)) = toStr V := by
    rw [Proofs.C07CmdCore.volumeOf_missing fs c.cwd Q x R S.basePlain S.names (by simpa using S.fresh []), hV]
  refine ⟨o1, o3, infoWritten_of K.valid K.fourDigits ?_, hvol, pjoin_relLoc V P' n hVn hn⟩
  have := T.info
  rw [K.reading] at this
  exact this

/-! ### 5. two arguments in one run -/

open TrashVerif.Proofs.C16IndepHome (W_setting basename_locOf)
open TrashVerif.Proofs.C07CmdCore (putCore_fresh trashed_of_fsC stem_base)

/-- an everyday argument into an existing home trash in which its name is free -/
theorem home_free_info {c : PutCfg} {fs : FS} {H P : CPath} {n : Name} {d : Date} (W : HomeWorld c fs H)
    (A : GoodArg fs H P n) (hlen : n.length + 10 ≤ 255) (hF : fs.get (filesC H ++ [n]) = none)
    (hfreeI : fs.get (infoC H ++ [n ++ trashinfoExt]) = none) (K : Clock c d) (st : PutSt) :
    let r := run noFaults (runPut c [toStr (P ++ [n])] st) { fs := fs }
    r.1.outcomes = [(toStr (P ++ [n]), .trashed (homeStr H) (n ++ trashinfoExt))] ∧ r.1.crash = none ∧ r.1.exit = 0 ∧
    InfoWritten r.2.fs (infoC H ++ [n ++ trashinfoExt]) (toStr (P ++ [n])) d ∧
    (∀ p, ¬ (P ++ [n]) <+: p → ¬ (filesC H ++ [n]) <+: p → p ≠ infoC H ++ [n ++ trashinfoExt] → p ≠ P → p ≠ filesC H →
      p ≠ infoC H → r.2.fs.get p = fs.get p) := by
  intro r
  have hset := W_setting W A
  have hl : (n ++ trashinfoExt).length ≤ 255 := by rw [List.length_append, ext_len]; exact hlen
  obtain ⟨s', hrun, hfs', _, _⟩ := putCore_fresh (I := infoC H) (F := filesC H) (S := P ++ [n]) n
    (formatTrashinfoWith (locOf P n) c.dateStr) (fun _ => .ok (P ++ [n])) st { fs := fs } hset hF hfreeI hl rfl
  have hok : (run noFaults (homeCore c H P n st) { fs := fs }).1.1 = .ok (n ++ trashinfoExt) := by
    unfold homeCore; rw [basename_locOf P n A.names, hrun]
  have T : Trashed fs (run noFaults (homeCore c H P n st) { fs := fs }).2.fs (infoC H) (filesC H) (P ++ [n])
      (n ++ trashinfoExt) (formatTrashinfoWith (toStr (P ++ [n])) c.dateStr) := by
    unfold homeCore; rw [basename_locOf P n A.names, hrun]
    show Trashed fs s'.fs _ _ _ _ _
    rw [hfs', ← locOf_eq P n A.names]
    exact trashed_of_fsC hset n _ hF hfreeI
  obtain ⟨o1, o2, o3, o4⟩ := alone_home W A st _ hok
  have hfs : r.2.fs = (run noFaults (homeCore c H P n st) { fs := fs }).2.fs := o4
  rw [← hfs] at T
  refine ⟨o1, o2, o3, infoWritten_of K.valid K.fourDigits ?_, fun p h1 h2 h3 h4 h5 h6 => ?_⟩
  · have := T.info
    rw [K.reading] at this; exact this
  · have hst : stemOf (n ++ trashinfoExt) = n := stem_base n
    have hpar : FS.parent (P ++ [n]) = P := by simp [FS.parent]
    exact T.frame p (by rw [under_iff]; exact h1) (by rw [under_iff, hst]; exact h2) h3 (by rw [hpar]; exact h4) h5 h6

theorem two_infos (c : PutCfg) (a1 : Bytes) (st : PutSt) (fs : FS) (d1 n1 : Bytes) {H P : CPath} {n : Name} {d : Date}
    (h1 : (run noFaults (runPut c [a1] st) { fs := fs }).1.outcomes = [(a1, .trashed d1 n1)])
    (W : HomeWorld c (run noFaults (runPut c [a1] st) { fs := fs }).2.fs H)
    (A : GoodArg (run noFaults (runPut c [a1] st) { fs := fs }).2.fs H P n) (hlen : n.length + 10 ≤ 255)
    (hF : (run noFaults (runPut c [a1] st) { fs := fs }).2.fs.get (filesC H ++ [n]) = none)
    (hfreeI : (run noFaults (runPut c [a1] st) { fs := fs }).2.fs.get (infoC H ++ [n ++ trashinfoExt]) = none)
    (K : Clock c d) :
    let fs1 := (run noFaults (runPut c [a1] st) { fs := fs }).2.fs
    let r := run noFaults (runPut c [a1, toStr (P ++ [n])] st) { fs := fs }
    r.1.outcomes = [(a1, .trashed d1 n1), (toStr (P ++ [n]), .trashed (homeStr H) (n ++ trashinfoExt))] ∧
    r.1.crash = none ∧ r.1.exit = 0 ∧
    InfoWritten r.2.fs (infoC H ++ [n ++ trashinfoExt]) (toStr (P ++ [n])) d ∧
    (∀ p, ¬ (P ++ [n]) <+: p → ¬ (filesC H ++ [n]) <+: p → p ≠ infoC H ++ [n ++ trashinfoExt] → p ≠ P → p ≠ filesC H →
      p ≠ infoC H → r.2.fs.get p = fs1.get p) := by
  intro fs1 r
  obtain ⟨st1, t1, t2, t3, t4⟩ := Proofs.C18CmdSeq.runPut_then c a1 (toStr (P ++ [n])) st fs d1 n1 h1
  obtain ⟨o1, o2, o3, o4, o5⟩ := home_free_info W A hlen hF hfreeI K st1
  refine ⟨by rw [t1, o1], by rw [t2, o2], by rw [t3, o3], ?_, ?_⟩
  · show InfoWritten (run noFaults (runPut c [a1, toStr (P ++ [n])] st) { fs := fs }).2.fs _ _ _
    rw [t4]; exact o4
  · intro p
    show _ → _ → _ → _ → _ → _ → (run noFaults (runPut c [a1, toStr (P ++ [n])] st) { fs := fs }).2.fs.get p = _
    rw [t4]; exact o5 p

end TrashVerif.Proofs.C03CmdRun
