/-
  Proofs/C18Cmd.lean — `trash-put` on an argument spelled with trailing slashes comes down to the
  run on the spelling without them (lemmas for Props/C18Cmd.lean).
-/
import TrashVerif.Proofs.C07Cmd
import TrashVerif.Proofs.C18
import TrashVerif.Props.C18CmdDefs
namespace TrashVerif.Proofs.C18Cmd
open TrashVerif Prog FS PutCore PutLemmas C18Cmd
open TrashVerif.Proofs.C07 (Plain GoodNames body toStr_ne body_last isAbs_toStr)
open TrashVerif.Proofs.C17 (isDirAt_iff)
open TrashVerif.Proofs.C16IndepHome (walk_nil rstripSlash_toStr toStr_ne_nil)

/-! ### the argument string enters `trash_file_in` only through `normpath` -/

theorem trashFileIn_congr (c : PutCfg) (p p' volume : Bytes) (cand : Candidate) (st : PutSt)
    (h : normpath p' = normpath p) : trashFileIn c p' volume cand st = trashFileIn c p volume cand st := by
  unfold trashFileIn originalLocation
  simp only [h]

theorem tryCandidates_congr (c : PutCfg) (p p' volume : Bytes) (h : normpath p' = normpath p) :
    ∀ (cands : List Candidate) (reasons : List Reason) (st : PutSt),
      tryCandidates c p' volume cands reasons st = tryCandidates c p volume cands reasons st := by
  intro cands
  induction cands with
  | nil => intro reasons st; rfl
  | cons cand rest ih =>
    intro reasons st
    rw [tryCandidates, tryCandidates, trashFileIn_congr c p p' volume cand st h]
    simp only [ih]

/-- `Trasher.trash_single` reads the argument through `rstrip('/')`, `normpath` and one `lexists` -/
theorem trashSingle_congr (φ : Oracle) (c : PutCfg) (p p' : Bytes) (st : PutSt) (s : RunState)
    (h1 : rstripSlash p' = rstripSlash p) (h2 : normpath p' = normpath p)
    (h3 : pLexists s.fs c.cwd p' = pLexists s.fs c.cwd p) (h4 : c.mode ≠ .interactive) (h5 : rstripSlash p ≠ []) :
    run φ (trashSingle c p' st) s = run φ (trashSingle c p st) s := by
  unfold trashSingle
  rw [h1]
  by_cases hd : isDotEntry (rstripSlash p) = true
  · rw [if_pos hd, if_pos hd]
  · rw [if_neg hd, if_neg hd, run_read_bind, run_read_bind, h3]
    by_cases hl : ¬ pLexists s.fs c.cwd p = true
    · rw [if_pos hl, if_pos hl]
    · rw [if_neg hl, if_neg hl]
      have a1 : ¬ (c.mode = PutMode.interactive ∧ pExists s.fs c.cwd p' = true) := fun x => h4 x.1
      have a2 : ¬ (c.mode = PutMode.interactive ∧ pExists s.fs c.cwd p = true) := fun x => h4 x.1
      simp only [if_neg a1, if_neg a2, if_neg h5, tryCandidates_congr c p p' _ h2]

/-! ### one argument: from the result of `runPut` back to `trashSingle` -/

theorem runPut_single_inv (c : PutCfg) (a : Bytes) (st : PutSt) (s : RunState) (d nm : Bytes)
    (h : (run noFaults (runPut c [a] st) s).1.outcomes = [(a, .trashed d nm)]) :
    ∃ st1, run noFaults (trashSingle c a st) s =
      ((.ok (.trashed d nm), st1), (run noFaults (runPut c [a] st) s).2) := by
  have e : runPut c [a] st = putAll c [a] st [] := rfl
  rw [e] at h ⊢
  rw [putAll, run_bind] at h ⊢
  generalize run noFaults (trashSingle c a st) s = R at h ⊢
  obtain ⟨⟨r, st1⟩, s1⟩ := R
  simp only [] at h ⊢
  cases r with
  | error e => cases h
  | ok o =>
    cases o with
    | crashed e => cases h
    | trashed d' nm' =>
      have : d' = d ∧ nm' = nm := by simpa [putAll, ArgOutcome.failed, run] using h
      obtain ⟨rfl, rfl⟩ := this
      exact ⟨st1, by simp [putAll, ArgOutcome.failed]⟩
    | skippedMissing => simp [putAll, ArgOutcome.failed] at h
    | declined => simp [putAll, ArgOutcome.failed] at h
    | failedDot => simp [putAll, ArgOutcome.failed, run, say, run_bind] at h
    | failedMissing => simp [putAll, ArgOutcome.failed, run, say, run_bind] at h
    | failedAll rs => simp [putAll, ArgOutcome.failed, run, say, run_bind] at h

/-- the run for another spelling of the same argument, when `trash_single` cannot tell them apart -/
theorem runPut_respell (c : PutCfg) (p p' : Bytes) (st : PutSt) (s : RunState) (d nm : Bytes)
    (heq : run noFaults (trashSingle c p' st) s = run noFaults (trashSingle c p st) s)
    (h : (run noFaults (runPut c [p] st) s).1.outcomes = [(p, .trashed d nm)]) :
    run noFaults (runPut c [p'] st) s =
      ({ outcomes := [(p', .trashed d nm)], crash := none, exit := 0 }, (run noFaults (runPut c [p] st) s).2) := by
  obtain ⟨st1, h1⟩ := runPut_single_inv c p st s d nm h
  rw [← heq] at h1
  rw [C07Cmd.runPut_single c p' st st1 s _ _ h1 (by intro e h; cases h)]
  rfl

/-! ### trailing slashes in the kernel: `name/` is `name` followed, and must be a directory -/

theorem walk_empties (fs : FS) (fl : Bool) (fuel : Nat) (cur : CPath) (hd : fs.isDirAt cur = true) :
    ∀ (E : List Bytes), (∀ e ∈ E, e = []) → walk fs fl fuel cur E = .ok cur := by
  obtain ⟨m, t, hcur⟩ := isDirAt_iff.1 hd
  intro E
  induction E with
  | nil => intro _; exact walk_nil fs fl fuel cur
  | cons e E ih =>
    intro h
    have he : e = [] := h e List.mem_cons_self
    rw [walk, hcur]
    simp only
    rw [if_pos (Or.inl he)]
    exact ih (fun x hx => h x (List.mem_cons_of_mem _ hx))

theorem walk_trailing_aux (fs : FS) (fl : Bool) (E : List Bytes) (hE0 : E ≠ []) (hE : ∀ e ∈ E, e = []) (fuel : Nat)
    (ihf : ∀ fuel', fuel = fuel' + 1 → ∀ cs cur q, walk fs true fuel' cur cs = .ok q → fs.isDirAt q = true →
      walk fs fl fuel' cur (cs ++ E) = .ok q) :
    ∀ cs cur q, walk fs true fuel cur cs = .ok q → fs.isDirAt q = true → walk fs fl fuel cur (cs ++ E) = .ok q := by
  intro cs
  induction cs with
  | nil =>
    intro cur q h hq
    rw [walk_nil] at h
    cases h
    exact walk_empties fs fl fuel cur hq E hE
  | cons c rest ih =>
    intro cur q h hq
    rw [walk] at h
    rw [List.cons_append, walk]
    rcases hcur : fs.get cur with _ | (_ | ⟨m, t⟩ | _)
    · rw [hcur] at h; cases h
    · rw [hcur] at h; cases h
    · rw [hcur] at h
      simp only at h ⊢
      by_cases h1 : c = [] ∨ c = [dot]
      · rw [if_pos h1] at h ⊢; exact ih cur q h hq
      · rw [if_neg h1] at h ⊢
        by_cases h2 : c = dotdot
        · rw [if_pos h2] at h ⊢; exact ih _ q h hq
        · rw [if_neg h2] at h ⊢
          by_cases h3 : c.length > nameMax
          · rw [if_pos h3] at h; cases h
          · rw [if_neg h3] at h ⊢
            rcases hp : fs.get (cur ++ [c]) with _ | (_ | _ | tg)
            · rw [hp] at h
              simp only at h
              split at h
              · cases h
                unfold isDirAt at hq
                rw [hp] at hq; cases hq
              · cases h
            · rw [hp] at h; simp only at h ⊢; exact ih _ q h hq
            · rw [hp] at h; simp only at h ⊢; exact ih _ q h hq
            · rw [hp] at h
              simp only at h ⊢
              have c1 : rest ≠ [] ∨ True := Or.inr trivial
              have c2 : rest ++ E ≠ [] ∨ fl = true := Or.inl (by simp [hE0])
              rw [if_pos c1] at h
              rw [if_pos c2]
              cases fuel with
              | zero => cases h
              | succ f =>
                simp only at h ⊢
                by_cases h4 : tg = []
                · rw [if_pos h4] at h; cases h
                · rw [if_neg h4] at h ⊢
                  rw [← List.append_assoc]
                  exact ihf f rfl _ _ q h hq
    · rw [hcur] at h; cases h

/-- a path that names a directory when its final symlink is followed still names it when empty
    components (trailing slashes) follow, whether or not the final component is followed then -/
theorem walk_trailing (fs : FS) (fl : Bool) (E : List Bytes) (hE0 : E ≠ []) (hE : ∀ e ∈ E, e = []) :
    ∀ fuel cs cur q, walk fs true fuel cur cs = .ok q → fs.isDirAt q = true → walk fs fl fuel cur (cs ++ E) = .ok q := by
  intro fuel
  induction fuel with
  | zero => exact walk_trailing_aux fs fl E hE0 hE 0 (fun f hf => by cases hf)
  | succ f ih => exact walk_trailing_aux fs fl E hE0 hE (f + 1) (fun f' hf => by cases hf; exact ih)

/-- `lstat("p///")` answers for the directory `stat("p")` answers for -/
theorem lstat_trailing (fs : FS) (cwd : CPath) (w : Bytes) (x : UInt8) (hx : x ≠ slash) (j m t : Nat)
    (hstat : stat fs cwd (w ++ [x]) = some (.dir m t)) :
    lstat fs cwd ((w ++ [x]) ++ List.replicate (j + 1) slash) = some (.dir m t) := by
  have hne : ∃ ch ∈ w ++ [x], ch ≠ slash := ⟨x, by simp, hx⟩
  have hntr : ¬ ((w ++ [x]).getLast? = some slash ∧ ¬ ((w ++ [x]).all (· = slash)) = true) := by
    simp [hx]
  have htr : ((w ++ [x]) ++ List.replicate (j + 1) slash).getLast? = some slash ∧
      ¬ (((w ++ [x]) ++ List.replicate (j + 1) slash).all (· = slash)) = true := by
    refine ⟨?_, ?_⟩
    · rw [List.replicate_succ', ← List.append_assoc, List.getLast?_concat]
    · simp [hx]
  have habs : isAbs ((w ++ [x]) ++ List.replicate (j + 1) slash) = isAbs (w ++ [x]) :=
    Proofs.C18.isPrefixOf_slashes 1 (w ++ [x]) _ hne
  unfold stat resolve at hstat
  rw [if_neg (by simp)] at hstat
  simp only [hntr, decide_false, Bool.or_false, if_false] at hstat
  unfold lstat resolve
  rw [if_neg (by simp), habs]
  simp only [htr, Bool.false_eq_true, not_false_eq_true, and_self, decide_true, Bool.or_true, if_true]
  unfold comps at hstat ⊢
  rw [Proofs.C18.splitOn_trailing]
  rcases hw : walk fs true linkFuel (if isAbs (w ++ [x]) = true then [] else cwd) (Bytes.splitOn slash (w ++ [x]))
    with e | q
  · rw [hw] at hstat; cases hstat
  · rw [hw] at hstat
    simp only at hstat
    have hq : fs.isDirAt q = true := by unfold isDirAt; rw [hstat]; rfl
    rw [walk_trailing fs true (List.replicate (j + 1) []) (by simp) (by intro e he; exact (List.mem_replicate.1 he).2)
      linkFuel _ _ q hw hq]
    simp only [hstat]

/-- `os.path.lexists("link///")`: true when the link leads to a directory -/
theorem pLexists_trailing (fs : FS) (cwd : CPath) (w : Bytes) (x : UInt8) (hx : x ≠ slash) (j : Nat)
    (hdir : pIsdir fs cwd (w ++ [x]) = true) :
    pLexists fs cwd ((w ++ [x]) ++ List.replicate (j + 1) slash) = true := by
  unfold pIsdir at hdir
  rcases hs : stat fs cwd (w ++ [x]) with _ | (_ | ⟨m, t⟩ | _)
  · rw [hs] at hdir; cases hdir
  · rw [hs] at hdir; cases hdir
  · unfold pLexists; rw [lstat_trailing fs cwd w x hx j m t hs]; rfl
  · rw [hs] at hdir; cases hdir

/-! ### the canonical spelling of an entry, with trailing slashes -/

theorem spelled_zero (P : CPath) (n : Name) : spelled P n 0 = toStr (P ++ [n]) := by simp [spelled]

theorem toStr_last {P : CPath} {n : Name} (hn : GoodNames (P ++ [n])) : ∃ w x, toStr (P ++ [n]) = w ++ [x] ∧ x ≠ slash := by
  obtain ⟨w, x, hw, hx⟩ := body_last (q := P ++ [n]) (by simp) hn
  exact ⟨w, x, by rw [toStr_ne (by simp), hw], hx⟩

theorem rstrip_spelled {P : CPath} {n : Name} (hn : GoodNames (P ++ [n])) (k : Nat) :
    rstripSlash (spelled P n k) = rstripSlash (toStr (P ++ [n])) := by
  obtain ⟨w, x, hw, hx⟩ := toStr_last hn
  unfold spelled
  rw [hw, Proofs.C01.rstrip_gen w x k hx]
  have := Proofs.C01.rstrip_gen w x 0 hx
  simpa using this.symm

theorem normpath_spelled {P : CPath} {n : Name} (hn : GoodNames (P ++ [n])) (k : Nat) :
    normpath (spelled P n k) = normpath (toStr (P ++ [n])) := by
  obtain ⟨w, x, hw, hx⟩ := toStr_last hn
  exact Proofs.C18.normpath_trailing _ k ⟨x, by rw [hw]; simp, hx⟩

theorem pLexists_spelled {fs : FS} {cwd P : CPath} {n : Name} (hn : GoodNames (P ++ [n])) (k : Nat)
    (hk : SlashOk fs cwd P n k) (h0 : pLexists fs cwd (toStr (P ++ [n])) = true) :
    pLexists fs cwd (spelled P n k) = true := by
  cases k with
  | zero => rw [spelled_zero]; exact h0
  | succ j =>
    rcases hk with hk | hk
    · cases hk
    · obtain ⟨w, x, hw, hx⟩ := toStr_last hn
      unfold spelled
      rw [hw] at hk ⊢
      exact pLexists_trailing fs cwd w x hx j hk

/-- `trash-put P/n///` is `trash-put P/n`, reported under the spelling given -/
theorem runPut_spelled {c : PutCfg} {fs : FS} {P : CPath} {n : Name} (hn : GoodNames (P ++ [n])) (hnp : c.mode ≠ .interactive)
    (k : Nat) (hk : SlashOk fs c.cwd P n k) (st : PutSt) (d nm : Bytes)
    (h : (run noFaults (runPut c [toStr (P ++ [n])] st) { fs := fs }).1.outcomes = [(toStr (P ++ [n]), .trashed d nm)]) :
    run noFaults (runPut c [spelled P n k] st) { fs := fs } =
      ({ outcomes := [(spelled P n k, .trashed d nm)], crash := none, exit := 0 },
       (run noFaults (runPut c [toStr (P ++ [n])] st) { fs := fs }).2) := by
  refine runPut_respell c _ _ st _ d nm ?_ h
  -- the plain spelling exists: otherwise it would have been reported missing
  have h0 : pLexists fs c.cwd (toStr (P ++ [n])) = true := by
    obtain ⟨st1, h1⟩ := runPut_single_inv c _ st _ d nm h
    cases hl : pLexists fs c.cwd (toStr (P ++ [n])) with
    | true => rfl
    | false =>
      exfalso
      unfold trashSingle at h1
      rw [if_neg (by rw [Proofs.C16IndepHome.notDot_home hn]; simp), run_read_bind] at h1
      simp only [hl, Bool.false_eq_true, not_false_eq_true, if_true] at h1
      have h2 : (Except.ok (ArgOutcome.trashed d nm) : Except PutCrash ArgOutcome) =
          .ok (if c.mode = .force then .skippedMissing else .failedMissing) := (congrArg (fun r => r.1.1) h1).symm
      split at h2 <;> cases h2
  refine trashSingle_congr noFaults c _ _ st _ (rstrip_spelled hn k) (normpath_spelled hn k) ?_ hnp ?_
  · show pLexists fs c.cwd (spelled P n k) = pLexists fs c.cwd (toStr (P ++ [n]))
    rw [h0, pLexists_spelled hn k hk h0]
  · rw [rstripSlash_toStr (by simp) hn]; exact toStr_ne_nil _

/-! ### under ANY fault oracle -/

theorem trashSingle_spelled (φ : Oracle) {c : PutCfg} {P : CPath} {n : Name} (hn : GoodNames (P ++ [n]))
    (hnp : c.mode ≠ .interactive) (k : Nat) (st : PutSt) (s : RunState) (hk : SlashOk s.fs c.cwd P n k)
    (h0 : pLexists s.fs c.cwd (toStr (P ++ [n])) = true) :
    run φ (trashSingle c (spelled P n k) st) s = run φ (trashSingle c (toStr (P ++ [n])) st) s := by
  refine trashSingle_congr φ c _ _ st s (rstrip_spelled hn k) (normpath_spelled hn k) ?_ hnp ?_
  · rw [h0, pLexists_spelled hn k hk h0]
  · rw [rstripSlash_toStr (by simp) hn]; exact toStr_ne_nil _

/-- two spellings `trash_single` cannot tell apart: the runs differ only in the name reported -/
theorem runPut_respell_any (φ : Oracle) (c : PutCfg) (p p' : Bytes) (st : PutSt) (s : RunState)
    (heq : run φ (trashSingle c p' st) s = run φ (trashSingle c p st) s) :
    (run φ (runPut c [p'] st) s).1.outcomes.map (·.2) = (run φ (runPut c [p] st) s).1.outcomes.map (·.2) ∧
    (run φ (runPut c [p'] st) s).1.crash = (run φ (runPut c [p] st) s).1.crash ∧
    (run φ (runPut c [p'] st) s).1.exit = (run φ (runPut c [p] st) s).1.exit ∧
    (run φ (runPut c [p'] st) s).2.fs = (run φ (runPut c [p] st) s).2.fs ∧
    (run φ (runPut c [p'] st) s).2.trace = (run φ (runPut c [p] st) s).2.trace ∧
    (run φ (runPut c [p'] st) s).2.hist = (run φ (runPut c [p] st) s).2.hist := by
  have e : ∀ a, runPut c [a] st = putAll c [a] st [] := fun _ => rfl
  rw [e, e, putAll, putAll, run_bind, run_bind, heq]
  generalize run φ (trashSingle c p st) s = R
  obtain ⟨⟨r, st1⟩, s1⟩ := R
  cases r with
  | error e => exact ⟨rfl, rfl, rfl, rfl, rfl, rfl⟩
  | ok o => cases o <;> exact ⟨rfl, rfl, rfl, rfl, rfl, rfl⟩

end TrashVerif.Proofs.C18Cmd
