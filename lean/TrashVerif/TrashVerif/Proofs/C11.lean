/-
  Proofs/C11.lean — proofs of the statements of Props/C11.lean, and the machinery about removal
  programs (`rmInner`, `rmtree`, `removeFile`, `removeFile2`, `removeIfExists`) shared with
  Proofs/C15.lean and Proofs/C06.lean: which calls they issue, and what those calls preserve.
-/
import TrashVerif.Proofs.C04
import TrashVerif.Proofs.C07
import TrashVerif.Model.Cmds
namespace TrashVerif.Proofs.C11
open TrashVerif Prog FS PutLemmas C04

/-! ### removal calls -/

/-- `c` is an `unlink` or `rmdir` of a path satisfying `A` -/
def KR (A : CPath → Prop) (c : Call) : Prop := ∃ r, (c = .unlink r ∨ c = .rmdir r) ∧ A r

theorem KR.mono {A B : CPath → Prop} (h : ∀ r, A r → B r) {c : Call} (hc : KR A c) : KR B c := by
  obtain ⟨r, e, a⟩ := hc; exact ⟨r, e, h r a⟩

theorem kr_unlink {A : CPath → Prop} {r : CPath} (h : A r) : KR A (.unlink r) := ⟨r, Or.inl rfl, h⟩
theorem kr_rmdir {A : CPath → Prop} {r : CPath} (h : A r) : KR A (.rmdir r) := ⟨r, Or.inr rfl, h⟩

theorem Iss.mono {α} {Inv : FS → Prop} {K K' : Call → Prop} (h : ∀ c, K c → K' c) :
    ∀ {p : Prog α}, Iss Inv K p → Iss Inv K' p := by
  intro p
  induction p with
  | ret a => exact fun _ => trivial
  | get k ih => exact fun hp fs hi => ih fs (hp fs hi)
  | emit o k ih => exact fun hp => ih hp
  | call c k ih => exact fun hp => ⟨h c hp.1, fun r => ih r (hp.2 r)⟩

/-- an invariant kept by every successful call of kind `K` holds in every state of the run -/
theorem Iss.inv {α} (φ : Oracle) {K : Call → Prop} (J : FS → Prop)
    (hK : ∀ c, K c → ∀ fs fs', J fs → c.apply fs = .ok fs' → J fs') (p : Prog α) :
    ∀ s : RunState, Iss InvT K p → J s.fs →
      J (run φ p s).2.fs ∧ ∀ x ∈ (run φ p s).2.hist, x ∈ s.hist ∨ J x := by
  induction p with
  | ret a => intro s _ hi; exact ⟨hi, fun x h => Or.inl h⟩
  | get k ih => intro s hp hi; simp only [run]; exact ih _ s (hp _ trivial) hi
  | emit o k ih =>
    intro s hp hi; simp only [run]; exact ih _ hp hi
  | call c k ih =>
    intro s hp hi
    simp only [run]
    have lift : ∀ (s1 : RunState) (r : Res), s1.hist = s.fs :: s.hist → J s1.fs →
        J (run φ (k r) s1).2.fs ∧ ∀ x ∈ (run φ (k r) s1).2.hist, x ∈ s.hist ∨ J x := by
      intro s1 r ht hi1
      obtain ⟨a, b⟩ := ih r s1 (hp.2 r) hi1
      refine ⟨a, fun x hx => ?_⟩
      rcases b x hx with h | h
      · rw [ht] at h
        rcases List.mem_cons.1 h with e | e
        · right; rw [e]; exact hi
        · exact Or.inl e
      · exact Or.inr h
    split
    · next fs' heq =>
      refine lift _ _ rfl ?_
      split at heq
      · cases heq
      · exact hK c hp.1 _ _ hi heq
    · exact lift _ _ rfl hi

/-! ### what a successful removal call does -/

theorem apply_rm {A : CPath → Prop} {c : Call} {fs fs' : FS} (hc : KR A c) (h : c.apply fs = .ok fs') :
    ∃ r, A r ∧ fs' = touchDir (removeNode fs r) (parent r) ∧ (fs.get r).isSome = true ∧
      ((c = .unlink r ∧ fs.isDirAt r = false) ∨
       (c = .rmdir r ∧ fs.isDirAt r = true ∧ fs.isMount r = false ∧ fs.hasChildren r = false)) := by
  obtain ⟨r, e, a⟩ := hc
  refine ⟨r, a, ?_⟩
  rcases e with rfl | rfl
  · simp only [Call.apply, FS.unlink] at h
    cases hg : fs.get r with
    | none => rw [hg] at h; cases h
    | some nd =>
      rw [hg] at h
      cases nd with
      | dir m t => cases h
      | file d m t => cases h; exact ⟨rfl, rfl, Or.inl ⟨rfl, by simp [isDirAt, hg, Node.isDir]⟩⟩
      | link t => cases h; exact ⟨rfl, rfl, Or.inl ⟨rfl, by simp [isDirAt, hg, Node.isDir]⟩⟩
  · simp only [Call.apply, FS.rmdir] at h
    cases hg : fs.get r with
    | none => rw [hg] at h; cases h
    | some nd =>
      rw [hg] at h
      cases nd with
      | file d m t => cases h
      | link t => cases h
      | dir m t =>
        simp only at h
        by_cases hm : isMount fs r = true
        · rw [if_pos hm] at h; cases h
        · rw [if_neg hm] at h
          by_cases hch : hasChildren fs r = true
          · rw [if_pos hch] at h; cases h
          · rw [if_neg hch] at h
            cases h
            exact ⟨rfl, rfl, Or.inr ⟨rfl, by simp [isDirAt, hg, Node.isDir], by simpa using hm, by simpa using hch⟩⟩

theorem rm_get (fs : FS) (r q : CPath) :
    (touchDir (removeNode fs r) (parent r)).get q =
      if q = parent r then touch (if q = r then none else fs.get q) else if q = r then none else fs.get q := by
  rw [get_touchDir]
  by_cases h : q = parent r
  · subst h; simp only [if_true, get_removeNode]
  · simp only [if_neg h, get_removeNode]

theorem rm_get_other (fs : FS) {r q : CPath} (h1 : q ≠ r) (h2 : q ≠ parent r) :
    (touchDir (removeNode fs r) (parent r)).get q = fs.get q := by
  rw [rm_get, if_neg h2, if_neg h1]

theorem rm_get_self (fs : FS) (r : CPath) : (touchDir (removeNode fs r) (parent r)).get r = none := by
  rw [rm_get]; by_cases h : r = parent r
  · rw [if_pos h, if_pos rfl]; rfl
  · rw [if_neg h, if_pos rfl]

theorem rm_get_touch (fs : FS) {r q : CPath} (h1 : q ≠ r) :
    touch ((touchDir (removeNode fs r) (parent r)).get q) = touch (fs.get q) := by
  rw [rm_get, if_neg h1]
  by_cases h : q = parent r
  · rw [if_pos h, touch_touch]
  · rw [if_neg h]

/-- a removal only removes, or touches -/
theorem rm_get_shrink (fs : FS) (r q : CPath) :
    (touchDir (removeNode fs r) (parent r)).get q = none ∨
    touch ((touchDir (removeNode fs r) (parent r)).get q) = touch (fs.get q) := by
  by_cases h1 : q = r
  · left; rw [h1]; exact rm_get_self fs r
  · right; exact rm_get_touch fs h1

/-! ### removal only shrinks -/

theorem touch_eq_none {o : Option Node} : touch o = none ↔ o = none := by
  rcases o with _ | (_ | _ | _) <;> simp [touch]

theorem touch_isSome (o : Option Node) : (touch o).isSome = o.isSome := by
  rcases o with _ | (_ | _ | _) <;> rfl

/-- `b` is `a` with nodes removed and directories touched -/
def Shr (a b : FS) : Prop := ∀ q, b.get q = none ∨ touch (b.get q) = touch (a.get q)

theorem Shr.refl (a : FS) : Shr a a := fun _ => Or.inr rfl

theorem Shr.none {a b : FS} (h : Shr a b) {q : CPath} (hq : a.get q = none) : b.get q = none := by
  rcases h q with h | h
  · exact h
  · rw [hq] at h; exact touch_eq_none.1 h

theorem Shr.isSome {a b : FS} (h : Shr a b) {q : CPath} (hq : (b.get q).isSome = true) : (a.get q).isSome = true := by
  cases ha : a.get q with
  | none => rw [h.none ha] at hq; cases hq
  | some n => rfl

theorem isDirAt_touch {a b : FS} {q : CPath} (h : touch (b.get q) = touch (a.get q)) : b.isDirAt q = a.isDirAt q := by
  unfold isDirAt
  rcases hb : b.get q with _ | (_ | _ | _) <;> rcases ha : a.get q with _ | (_ | _ | _) <;>
    simp_all [touch, Node.isDir]

theorem Shr.isDir {a b : FS} (h : Shr a b) {q : CPath} (hq : b.isDirAt q = true) : a.isDirAt q = true := by
  rcases h q with h | h
  · simp [isDirAt, h] at hq
  · rw [← isDirAt_touch h]; exact hq

/-- every removal call shrinks -/
theorem shr_keep (a : FS) {A : CPath → Prop} :
    ∀ c, KR A c → ∀ fs fs', Shr a fs → c.apply fs = .ok fs' → Shr a fs' := by
  intro c hc fs fs' hj h q
  obtain ⟨r, _, rfl, _⟩ := apply_rm hc h
  rcases rm_get_shrink fs r q with h1 | h1
  · exact Or.inl h1
  · rcases hj q with h2 | h2
    · left; rw [h2] at h1; exact touch_eq_none.1 h1
    · right; rw [h1, h2]

theorem none_keep (q : CPath) {A : CPath → Prop} :
    ∀ c, KR A c → ∀ fs fs', fs.get q = none → c.apply fs = .ok fs' → fs'.get q = none := by
  intro c hc fs fs' hj h
  obtain ⟨r, _, rfl, _⟩ := apply_rm hc h
  rcases rm_get_shrink fs r q with h1 | h1
  · exact h1
  · rw [hj] at h1; exact touch_eq_none.1 h1

/-- a removal call elsewhere keeps a node up to the mtime of a directory -/
theorem touch_keep {q : CPath} (o : Option Node) {A : CPath → Prop} (hA : ∀ r, A r → q ≠ r) :
    ∀ c, KR A c → ∀ fs fs', touch (fs.get q) = o → c.apply fs = .ok fs' → touch (fs'.get q) = o := by
  intro c hc fs fs' hj h
  obtain ⟨r, hr, rfl, _⟩ := apply_rm hc h
  rw [rm_get_touch fs (hA r hr)]; exact hj

/-! ### paths -/

theorem parent_under {p r : CPath} (h : p <+: r) (hne : r ≠ p) : p <+: parent r := by
  have := under_dropLast ((under_iff p r).2 h) (Ne.symm hne)
  exact (under_iff _ _).1 this

/-- a path that is not at or below `p`, and is not `p`'s parent, is neither a path at or below `p`
    nor the parent of one -/
theorem away_of_not_under {p q r : CPath} (hq : ¬ p <+: q) (hpp : q ≠ parent p) (hr : p <+: r) :
    q ≠ r ∧ q ≠ parent r := by
  refine ⟨fun e => hq (e ▸ hr), fun e => ?_⟩
  by_cases hrp : r = p
  · exact hpp (hrp ▸ e)
  · exact hq (e ▸ parent_under hr hrp)

/-- strictly below -/
def SU (p r : CPath) : Prop := p <+: r ∧ p.length < r.length

theorem SU.under {p r : CPath} (h : SU p r) : p <+: r := h.1
theorem SU.ne {p r : CPath} (h : SU p r) : r ≠ p := fun e => by have := h.2; rw [e] at this; omega
theorem SU.trans_under {p c r : CPath} (h1 : SU p c) (h2 : c <+: r) : SU p r :=
  ⟨h1.1.trans h2, Nat.lt_of_lt_of_le h1.2 h2.length_le⟩
theorem SU.under_parent {p r : CPath} (h : SU p r) : p <+: FS.parent r := parent_under h.1 h.ne

theorem SU.away {p q r : CPath} (hq : ¬ p <+: q) (hr : SU p r) : q ≠ r ∧ q ≠ FS.parent r :=
  ⟨fun e => hq (e ▸ hr.1), fun e => hq (e ▸ hr.under_parent)⟩

/-! ### children -/

theorem mem_children {fs : FS} {p c : CPath} :
    c ∈ children fs p ↔ c ∈ fs.dom ∧ c.length = p.length + 1 ∧ p <+: c ∧ (fs.get c).isSome = true := by
  unfold children
  rw [List.mem_eraseDups, List.mem_filter]
  simp only [Bool.and_eq_true, decide_eq_true_eq, isPrefix, List.isPrefixOf_iff_prefix, exists_, and_assoc]

theorem mem_sortedChildren {fs : FS} {p c : CPath} :
    c ∈ sortedChildren fs p ↔ c ∈ fs.dom ∧ c.length = p.length + 1 ∧ p <+: c ∧ (fs.get c).isSome = true := by
  unfold sortedChildren
  rw [List.mem_mergeSort, mem_children]

theorem child_SU {fs : FS} {p c : CPath} (h : c ∈ sortedChildren fs p) : SU p c := by
  obtain ⟨_, hl, hp, _⟩ := mem_sortedChildren.1 h
  exact ⟨hp, by omega⟩

theorem nodup_eraseDups {α} [BEq α] [LawfulBEq α] : ∀ (n : Nat) (l : List α), l.length ≤ n → l.eraseDups.Nodup := by
  intro n
  induction n with
  | zero => intro l hl; cases l with
    | nil => simp
    | cons a as => simp at hl
  | succ n ih =>
    intro l hl
    cases l with
    | nil => simp
    | cons a as =>
      rw [List.eraseDups_cons, List.nodup_cons]
      refine ⟨?_, ih _ ?_⟩
      · rw [List.mem_eraseDups, List.mem_filter]; simp
      · have := List.length_filter_le (fun b => !b == a) as
        simp only [List.length_cons] at hl; omega

theorem nodup_sortedChildren (fs : FS) (p : CPath) : (sortedChildren fs p).Nodup := by
  unfold sortedChildren
  rw [(List.mergeSort_perm _ _).nodup_iff]
  exact nodup_eraseDups _ _ (Nat.le_refl _)

/-! ### which calls the removal programs issue -/

theorem iss_rmInner : ∀ (fuel : Nat) (p : CPath), Iss InvT (KR (SU p)) (rmInner fuel p) := by
  intro fuel
  induction fuel with
  | zero => intro p; unfold rmInner; exact Iss.pure _
  | succ fuel ih =>
    intro p
    have hgo : ∀ cs : List CPath, (∀ c ∈ cs, SU p c) → Iss InvT (KR (SU p)) (rmInner.go fuel cs) := by
      intro cs
      induction cs with
      | nil => intro _; unfold rmInner.go; exact Iss.pure _
      | cons c cs ihc =>
        intro hcs
        have hc : SU p c := hcs c List.mem_cons_self
        have ihc' := ihc fun c' h' => hcs c' (List.mem_cons_of_mem _ h')
        unfold rmInner.go
        refine Iss.read_bind fun fs' _ => ?_
        split
        · refine Iss.bind (Iss.mono (fun _ => KR.mono fun r hr => hc.trans_under hr.1) (ih c)) fun r => ?_
          split
          · exact Iss.pure _
          · refine Iss.bind (Iss.sys (kr_rmdir hc)) fun r => ?_
            split
            · exact Iss.pure _
            · exact ihc'
        · refine Iss.bind (Iss.sys (kr_unlink hc)) fun r => ?_
          split
          · exact Iss.pure _
          · exact ihc'
    unfold rmInner
    exact Iss.read_bind fun fs _ => hgo _ fun c hc => child_SU hc

/-- at or below -/
abbrev U (p : CPath) : CPath → Prop := fun r => p <+: r

theorem iss_rmtree (p : CPath) : Iss InvT (KR (U p)) (rmtree p) := by
  unfold rmtree
  refine Iss.read_bind fun fs _ => ?_
  split
  · exact Iss.pure _
  · exact Iss.pure _
  · exact Iss.pure _
  · refine Iss.bind (Iss.mono (fun _ => KR.mono fun r hr => hr.1) (iss_rmInner _ p)) fun r => ?_
    split
    · exact Iss.pure _
    · exact Iss.sys (kr_rmdir (List.prefix_refl p))

theorem iss_removeFile2 (p : CPath) : Iss InvT (KR (U p)) (removeFile2 p) := by
  unfold removeFile2
  refine Iss.bind (Iss.sys (kr_unlink (List.prefix_refl p))) fun r => ?_
  split
  · exact Iss.pure _
  · exact iss_rmtree p

theorem iss_removeIfExists (p : CPath) : Iss InvT (KR (U p)) (removeIfExists p) := by
  unfold removeIfExists
  refine Iss.read_bind fun fs _ => ?_
  split
  · exact iss_removeFile2 p
  · exact Iss.pure _

theorem iss_removeFile (p : CPath) : Iss InvT (KR (U p)) (removeFile p) := by
  unfold removeFile
  refine Iss.read_bind fun fs _ => ?_
  split
  · refine Iss.bind (Iss.sys (kr_unlink (List.prefix_refl p))) fun r => ?_
    split
    · exact Iss.pure _
    · exact iss_rmtree p
  · exact Iss.pure _

theorem iss_purgePair (payload info : CPath) :
    Iss InvT (KR fun r => payload <+: r ∨ info <+: r) (purgePair (.ok payload) (.ok info)) := by
  unfold purgePair removeIfExistsR removeFile2R
  refine Iss.bind (Iss.mono (fun _ => KR.mono fun r hr => Or.inl hr) (iss_removeIfExists payload)) fun r => ?_
  split
  · exact Iss.pure _
  · exact Iss.mono (fun _ => KR.mono fun r hr => Or.inr hr) (iss_removeFile2 info)

/-! ### frames -/

/-- removal calls at or below `p` keep every path that is not at or below `p` and is not `p`'s parent -/
theorem keep_of_U {p q : CPath} (hq : ¬ p <+: q) (hpp : q ≠ parent p) (o : Option Node) :
    ∀ c, KR (U p) c → ∀ fs fs', fs.get q = o → c.apply fs = .ok fs' → fs'.get q = o := by
  intro c hc fs fs' hj h
  obtain ⟨r, hr, rfl, _⟩ := apply_rm hc h
  obtain ⟨a, b⟩ := away_of_not_under hq hpp hr
  rw [rm_get_other fs a b]; exact hj

/-- removal calls strictly below `p` keep every path that is not at or below `p` -/
theorem keep_of_SU {p q : CPath} (hq : ¬ p <+: q) (o : Option Node) :
    ∀ c, KR (SU p) c → ∀ fs fs', fs.get q = o → c.apply fs = .ok fs' → fs'.get q = o := by
  intro c hc fs fs' hj h
  obtain ⟨r, hr, rfl, _⟩ := apply_rm hc h
  obtain ⟨a, b⟩ := SU.away hq hr
  rw [rm_get_other fs a b]; exact hj

/-- the frame of a program that only removes at or below `p`, in every state of its run -/
theorem frame_U {α} (φ : Oracle) {p : CPath} {X : Prog α} (hX : Iss InvT (KR (U p)) X) (s : RunState)
    {q : CPath} (hq : ¬ p <+: q) (hpp : q ≠ parent p) :
    (run φ X s).2.fs.get q = s.fs.get q ∧
    ∀ x ∈ (run φ X s).2.hist, x ∈ s.hist ∨ x.get q = s.fs.get q :=
  Iss.inv φ (fun fs => fs.get q = s.fs.get q) (keep_of_U hq hpp _) X s hX rfl

theorem rmtree_frame (φ : Oracle) (p : CPath) (s : RunState) :
    ∀ q, ¬ FS.under p q = true → q ≠ FS.parent p → (run φ (rmtree p) s).2.fs.get q = s.fs.get q :=
  fun _ hq hpp => (frame_U φ (iss_rmtree p) s (fun h => hq ((under_iff _ _).2 h)) hpp).1

theorem removeFile2_frame (φ : Oracle) (p : CPath) (s : RunState) :
    ∀ q, ¬ FS.under p q = true → q ≠ FS.parent p → (run φ (removeFile2 p) s).2.fs.get q = s.fs.get q :=
  fun _ hq hpp => (frame_U φ (iss_removeFile2 p) s (fun h => hq ((under_iff _ _).2 h)) hpp).1

theorem removeIfExists_frame (φ : Oracle) (p : CPath) (s : RunState) :
    ∀ q, ¬ FS.under p q = true → q ≠ FS.parent p → (run φ (removeIfExists p) s).2.fs.get q = s.fs.get q :=
  fun _ hq hpp => (frame_U φ (iss_removeIfExists p) s (fun h => hq ((under_iff _ _).2 h)) hpp).1

theorem removeFile_frame (φ : Oracle) (p : CPath) (s : RunState) :
    ∀ q, ¬ FS.under p q = true → q ≠ FS.parent p → (run φ (removeFile p) s).2.fs.get q = s.fs.get q :=
  fun _ hq hpp => (frame_U φ (iss_removeFile p) s (fun h => hq ((under_iff _ _).2 h)) hpp).1

theorem purgePair_frame (φ : Oracle) (payload info : CPath) (s : RunState) :
    ∀ q, ¬ FS.under payload q = true → ¬ FS.under info q = true → q ≠ FS.parent payload → q ≠ FS.parent info →
      (run φ (purgePair (.ok payload) (.ok info)) s).2.fs.get q = s.fs.get q := by
  intro q h1 h2 h3 h4
  rw [under_iff] at h1 h2
  refine (Iss.inv φ (fun fs => fs.get q = s.fs.get q) ?_ _ s (iss_purgePair payload info) rfl).1
  intro c hc fs fs' hj h
  obtain ⟨r, hr, rfl, _⟩ := apply_rm hc h
  rcases hr with hr | hr
  · obtain ⟨a, b⟩ := away_of_not_under h1 h3 hr
    rw [rm_get_other fs a b]; exact hj
  · obtain ⟨a, b⟩ := away_of_not_under h2 h4 hr
    rw [rm_get_other fs a b]; exact hj

/-! ### a symlink payload -/

theorem symlink_payload_unlinked (fs : FS) (p : CPath) (t : Bytes) (h : fs.get p = some (.link t)) :
    let r := run noFaults (removeIfExists p) { fs := fs }
    r.1 = .ok () ∧ r.2.fs.get p = none ∧ ∀ q, q ≠ p → q ≠ FS.parent p → r.2.fs.get q = fs.get q := by
  have hu : Call.apply fs (.unlink p) = .ok (touchDir (removeNode fs p) (parent p)) := by
    simp [Call.apply, FS.unlink, h]
  have hl : lexistsC fs p = true := by simp [lexistsC, h]
  have hrun : run noFaults (removeIfExists p) { fs := fs } =
      (.ok (), { fs := touchDir (removeNode fs p) (parent p), hist := [fs], trace := [(.unlink p, .ok ())], n := 1 }) := by
    unfold removeIfExists removeFile2
    rw [run_read_bind]
    simp only [hl, if_true, run_bind, run_sys, hu]
    rfl
  show (run noFaults (removeIfExists p) { fs := fs }).1 = .ok () ∧ _
  rw [hrun]
  exact ⟨rfl, rm_get_self fs p, fun q h1 h2 => rm_get_other fs h1 h2⟩

/-! ### the payload path of an info path -/

theorem ext_no_slash : slash ∉ trashinfoExt := by decide +kernel
theorem b_info : b "info" = [105, 110, 102, 111] := by decide +kernel
theorem b_files : b "files" = [102, 105, 108, 101, 115] := by decide +kernel

theorem pjoin_plain {a c : Bytes} (ha : a ≠ []) (hal : a.getLast? ≠ some slash) (hc : c.head? ≠ some slash) :
    pjoin a c = a ++ [slash] ++ c := by
  unfold pjoin Bytes.startsWith Bytes.endsWith
  have h1 : List.isPrefixOf [slash] c = false := by
    cases c with
    | nil => rfl
    | cons x xs =>
      have : x ≠ slash := by simpa using hc
      simp [List.isPrefixOf, Ne.symm this]
  have h2 : List.isSuffixOf [slash] a = false := by
    rcases List.eq_nil_or_concat a with rfl | ⟨w, x, rfl⟩
    · exact absurd rfl ha
    · rw [List.concat_eq_append] at hal ⊢
      have hx : x ≠ slash := by simpa using hal
      rw [Bool.eq_false_iff]
      intro hs
      rw [List.isSuffixOf_iff_suffix] at hs
      obtain ⟨u, hu⟩ := hs
      have := (List.append_inj' hu rfl).2
      simp at this
      exact hx this.symm
  simp [h1, h2, ha]

theorem backup_path_under_files (t n : Bytes) (ht : t ≠ [] ∧ t.getLast? ≠ some slash) (hn : n ≠ [] ∧ slash ∉ n) :
    pathOfBackupCopy (pjoin (pjoin t (b "info")) (n ++ trashinfoExt)) = pjoin (pjoin t (b "files")) n := by
  obtain ⟨ht0, htl⟩ := ht
  obtain ⟨hn0, hns⟩ := hn
  obtain ⟨w, x, rfl⟩ := C07.exists_snoc ht0
  have hx : x ≠ slash := by simpa using htl
  have hne : slash ∉ n ++ trashinfoExt := by
    intro h; rcases List.mem_append.1 h with h | h
    · exact hns h
    · exact ext_no_slash h
  have hhead : (n ++ trashinfoExt).head? ≠ some slash := by
    cases n with
    | nil => exact absurd rfl hn0
    | cons y ys =>
      have : y ≠ slash := fun e => hns (e ▸ List.mem_cons_self)
      simpa using this
  have e1 : pjoin (w ++ [x]) (b "info") = w ++ [x] ++ [slash] ++ b "info" :=
    pjoin_plain ht0 htl (by rw [b_info]; decide)
  have e2 : pjoin (w ++ [x] ++ [slash] ++ b "info") (n ++ trashinfoExt) =
      w ++ [x] ++ [slash] ++ b "info" ++ [slash] ++ (n ++ trashinfoExt) :=
    pjoin_plain (by simp) (by rw [b_info]; simp; decide) hhead
  rw [e1, e2]
  -- basename and the two dirnames
  have hb : basename (w ++ [x] ++ [slash] ++ b "info" ++ [slash] ++ (n ++ trashinfoExt)) = n ++ trashinfoExt :=
    C01.basename_after (Or.inr ⟨_, rfl⟩) hne
  have hd1 : dirname (w ++ [x] ++ [slash] ++ b "info" ++ [slash] ++ (n ++ trashinfoExt)) =
      w ++ [x] ++ [slash] ++ b "info" := by
    unfold dirname
    rw [hb]
    have hl : (w ++ [x] ++ [slash] ++ b "info" ++ [slash] ++ (n ++ trashinfoExt)).length - (n ++ trashinfoExt).length
        = (w ++ [x] ++ [slash] ++ b "info" ++ [slash]).length := by
      simp only [List.length_append]; omega
    rw [hl, List.take_left]
    have h2 : ¬ ((w ++ [x] ++ [slash] ++ b "info" ++ [slash]).all (· = slash)) = true := by simp [hx]
    rw [if_pos ⟨by simp, h2⟩, b_info]
    have := C01.rstrip_gen (w ++ [x] ++ [slash] ++ [105, 110, 102]) 111 1 (by decide)
    simpa using this
  have hb2 : basename (w ++ [x] ++ [slash] ++ b "info") = b "info" :=
    C01.basename_after (Or.inr ⟨_, rfl⟩) (by rw [b_info]; decide)
  have hd2 : dirname (w ++ [x] ++ [slash] ++ b "info") = w ++ [x] := by
    unfold dirname
    rw [hb2]
    have hl : (w ++ [x] ++ [slash] ++ b "info").length - (b "info").length = (w ++ [x] ++ [slash]).length := by
      simp only [List.length_append]; omega
    rw [hl, List.take_left]
    have h2 : ¬ ((w ++ [x] ++ [slash]).all (· = slash)) = true := by simp [hx]
    rw [if_pos ⟨by simp, h2⟩]
    exact C01.rstrip_gen w x 1 hx
  unfold pathOfBackupCopy
  simp only [hb, hd1, hd2]
  have : (n ++ trashinfoExt).length - trashinfoExt.length = n.length := by simp
  rw [this, List.take_left]

theorem trashinfo_name_stem (m : Bytes) (h : isTrashinfoName m = true) :
    ∃ n, m = n ++ trashinfoExt ∧ n ≠ [] ∧ n ≠ [dot] ∧ n ≠ dotdot := by
  unfold isTrashinfoName Bytes.endsWith at h
  simp only [Bool.and_eq_true, decide_eq_true_eq, ne_eq] at h
  obtain ⟨hs, ⟨h1, h2⟩, h3⟩ := h
  rw [List.isSuffixOf_iff_suffix] at hs
  obtain ⟨n, rfl⟩ := hs
  have : (n ++ trashinfoExt).length - trashinfoExt.length = n.length := by simp
  rw [this, List.take_left] at h1 h2 h3
  exact ⟨n, rfl, h1, h2, h3⟩

end TrashVerif.Proofs.C11
