/-
  Proofs/C05.lean — proofs of the statements of Props/C05.lean.
-/
import TrashVerif.Proofs.PutLemmas
namespace TrashVerif.Proofs.C05
open TrashVerif Prog FS PutCore PutLemmas

theorem mem_crashStates {α} {p : Prog α} {fs s : FS} (h : s ∈ crashStates noFaults p fs) :
    s = (run noFaults p { fs := fs }).2.fs ∨ s ∈ (run noFaults p { fs := fs }).2.hist := by
  unfold crashStates at h
  simp only [List.mem_reverse, List.mem_cons] at h
  exact h

section crash
variable {I F S : CPath} (g : Geo I F S)
include g

/-- a state that agrees with `fs` outside `info/` and `info/N.trashinfo` is fine -/
theorem crashOk_early {fs x : FS} {content : Bytes} {name : Bytes}
    (hx : ∀ q, q ≠ I ++ [name] → q ≠ I → x.get q = fs.get q) : CrashOk fs x I F S content := by
  refine ⟨Or.inl fun rel => ?_, fun n hn hs => ?_⟩
  · exact hx _ (fun h => g.S_P (n := name) (h ▸ List.prefix_append S rel))
      (fun h => g.h3 (h ▸ List.prefix_append S rel))
  · have : x.get (F ++ [n]) = fs.get (F ++ [n]) :=
      hx _ (fun h => g.I_F (List.append_inj' h rfl).1.symm)
        (fun h => g.D_I (t := n) (h ▸ List.prefix_refl _))
    rw [this, hn] at hs; cases hs

theorem crashOk_final {fs : FS} {content : Bytes} {name : Bytes} (hst : name = stemOf name ++ trashinfoExt)
    (hfree : fs.get (F ++ [stemOf name]) = none) :
    CrashOk fs (fsC (fsB fs (I ++ [name]) content) S (F ++ [stemOf name]) F) I F S content := by
  have hnt := stem_ne hst
  refine ⟨Or.inr ⟨stemOf name, hfree, fun rel => final_whole g hnt fs content rel⟩, fun n hn hs => ?_⟩
  by_cases e : n = stemOf name
  · rw [e, ← hst]; exact final_info g hnt fs content
  · have h1 : ¬ S <+: F ++ [n] := g.S_D
    have h2 : ¬ F ++ [stemOf name] <+: F ++ [n] := by
      rw [pfx_concat]; rintro (h | h)
      · have := (List.append_inj' h rfl).2
        simp only [List.cons.injEq, and_true] at this
        exact e this.symm
      · exact Geo.D_F h
    have h3 : F ++ [n] ≠ I ++ [name] := fun h => g.I_F (List.append_inj' h rfl).1.symm
    have h4 : F ++ [n] ≠ parent S := fun h => g.D_ps (t := n) (h ▸ List.prefix_refl _)
    have h5 : F ++ [n] ≠ F := fun h => by have := congrArg List.length h; simp at this
    have h6 : F ++ [n] ≠ I := fun h => g.D_I (t := n) (h ▸ List.prefix_refl _)
    rw [final_frame g hnt fs content h1 h2 h3 h4 h5 h6, hn] at hs
    cases hs
end crash

theorem put_crash_inv (fs : FS) (infoC filesC src : CPath) (base content : Bytes) (st : PutSt)
    (h : Setting fs infoC filesC src) :
    ∀ s ∈ crashStates noFaults (putCore infoC filesC base content (fun _ => .ok src) st) fs,
      CrashOk fs s infoC filesC src content := by
  intro s hs
  have g := Geo.of_setting h
  have cs := core_spec base content st { fs := fs } h
  have hmem := mem_crashStates hs
  have hfs : CrashOk fs fs infoC filesC src content :=
    crashOk_early g (name := []) (fun _ _ _ => rfl)
  rcases cs with ⟨e, _, b, c⟩ | ⟨name, _, hst, hfree, _, b, c⟩
  · simp only at b c
    rcases hmem with hm | hm
    · rw [hm, b]; exact hfs
    · rcases c s hm with hm | hm
      · rw [hm]; exact hfs
      · cases hm
  · simp only at b c hfree
    rcases hmem with hm | hm
    · rw [hm, b]; exact crashOk_final g hst hfree
    · rcases c s hm with hm | hm | hm | hm
      · rw [hm]
        exact crashOk_early g (name := name) fun q h1 h2 => by rw [fsB_get, if_neg h1, if_neg h2]
      · rw [hm]
        exact crashOk_early g (name := name) fun q h1 h2 => by rw [fsA_get, if_neg h1, if_neg h2]
      · rw [hm]; exact hfs
      · cases hm

theorem atomic_write_states (fs : FS) (p : CPath) (content : Bytes) :
    ∀ s ∈ crashStates noFaults (atomicWrite p content) fs,
      (∀ q, q ≠ p → q ≠ FS.parent p → s.get q = fs.get q) ∧
      (s.get p = fs.get p ∨ s.get p = some (.file [] 0o600 0) ∨ s.get p = some (.file content 0o600 0)) := by
  intro s hs
  have hmem := mem_crashStates hs
  suffices H : s = fs ∨ ∃ c x, p = c ++ [x] ∧ (s = fsA fs (c ++ [x]) ∨ s = fsB fs (c ++ [x]) content) by
    rcases H with rfl | ⟨c, x, rfl, rfl | rfl⟩
    · exact ⟨fun _ _ _ => rfl, Or.inl rfl⟩
    · have hpar : FS.parent (c ++ [x]) = c := by simp [FS.parent]
      rw [hpar]
      exact ⟨fun q h1 h2 => by rw [fsA_get, if_neg h1, if_neg h2], Or.inr (Or.inl (by rw [fsA_get, if_pos rfl]))⟩
    · have hpar : FS.parent (c ++ [x]) = c := by simp [FS.parent]
      rw [hpar]
      exact ⟨fun q h1 h2 => by rw [fsB_get, if_neg h1, if_neg h2], Or.inr (Or.inr (by rw [fsB_get, if_pos rfl]))⟩
  have herr : ∀ e, fs.createExcl p 0o600 = .error e → s = fs := fun e he => by
    obtain ⟨_, h2, h3⟩ := atomicWrite_err (content := content) (s := { fs := fs }) he
    simp only at h2 h3
    rw [h2, h3] at hmem
    simpa using hmem
  rcases List.eq_nil_or_concat p with rfl | ⟨c, x, e⟩
  · exact Or.inl (herr .EEXIST rfl)
  · rw [List.concat_eq_append] at e; subst e
    rcases createExcl_concat fs c x with ⟨e, he⟩ | ⟨hok, _, _, _⟩
    · exact Or.inl (herr e he)
    · have hp : (fsA fs (c ++ [x])).get (c ++ [x]) = some (.file [] 0o600 0) := by
        rw [fsA_get, if_pos rfl]
      obtain ⟨_, h2, h3⟩ := atomicWrite_ok (content := content) (s := { fs := fs }) hok hp
      simp only at h2 h3
      rw [h2, h3] at hmem
      have hB : ((fsA fs (c ++ [x])).setNode (c ++ [x]) (.file content 0o600 0)) = fsB fs (c ++ [x]) content := rfl
      rw [hB] at hmem
      simp only [List.mem_cons, List.not_mem_nil, or_false] at hmem
      rcases hmem with hm | hm | hm | hm
      · exact Or.inr ⟨c, x, rfl, Or.inr hm⟩
      · exact Or.inr ⟨c, x, rfl, Or.inr hm⟩
      · exact Or.inr ⟨c, x, rfl, Or.inl hm⟩
      · exact Or.inl hm

end TrashVerif.Proofs.C05
