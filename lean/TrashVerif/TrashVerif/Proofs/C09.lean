/-
  Proofs/C09.lean — proofs of the statements of Props/C09.lean (the trash as a bag of info names).
-/
import TrashVerif.Proofs.C04
import TrashVerif.Proofs.C08
import TrashVerif.Model.Cmds
namespace TrashVerif.Proofs.C09
open TrashVerif Prog FS PutCore PutLemmas

/-! ### trash-list is a function of the bag -/

theorem emitAll_run (φ : Oracle) (os : List Out) (s : RunState) :
    run φ (emitAll os) s = ((), { s with outs := os.reverse ++ s.outs }) := by
  induction os generalizing s with
  | nil => rfl
  | cons x xs ih =>
    rw [emitAll, run_bind, C08.run_say, ih]
    simp

theorem list_is_bag (φ : Oracle) (cwd : CPath) (p v : Bytes) (s : RunState) (infos : List Bytes)
    (h : infosOf s.fs cwd p = .ok infos) :
    (run φ (listEvents cwd [.found p v]) s).2.outs = (infos.map (listOne s.fs cwd v)).reverse ++ s.outs ∧
    (run φ (listEvents cwd [.found p v]) s).2.trace = s.trace := by
  rw [listEvents, run_read_bind]
  simp only [h, run_bind, emitAll_run, listEvents, run_pure, and_self]

/-! ### put -/

theorem put_adds_one (fs : FS) (infoC filesC src : CPath) (base content : Bytes) (st st' : PutSt)
    (h : Setting fs infoC filesC src) (name : Bytes) (s' : RunState)
    (hr : run noFaults (putCore infoC filesC base content (fun _ => .ok src) st) { fs := fs } = ((.ok name, st'), s')) :
    fs.get (infoC ++ [name]) = none ∧ s'.fs.get (infoC ++ [name]) = some (.file content 0o600 0) ∧
    ∀ n, n ≠ name → s'.fs.get (infoC ++ [n]) = fs.get (infoC ++ [n]) := by
  have T := C01.put_ok_moves_whole fs infoC filesC src base content st st' h name s' hr
  exact ⟨T.wasFreeInfo, T.info,
    (C04.put_never_overwrites fs infoC filesC src base content st st' h name s' hr).2.2.2⟩

theorem concat_inj {a c : CPath} {x y : Name} (h : a ++ [x] = c ++ [y]) : a = c ∧ x = y := by
  have := List.append_inj' h rfl
  exact ⟨this.1, by simpa using this.2⟩

/-- `put_other_bags` of Props/C09.lean as first stated (without `hnp`, `hnf`) is false: see
    `put_other_bags_counterexample`. -/
theorem put_other_bags_partial (fs : FS) (infoC filesC src other : CPath) (base content : Bytes) (st st' : PutSt)
    (h : Setting fs infoC filesC src) (name : Bytes) (s' : RunState)
    (hr : run noFaults (putCore infoC filesC base content (fun _ => .ok src) st) { fs := fs } = ((.ok name, st'), s'))
    (ho : other ≠ infoC) (h1 : ¬ FS.under src other = true) (h2 : ¬ FS.under (filesC ++ [stemOf name]) other = true)
    (h3 : ∀ n, other ++ [n] ≠ FS.parent src ∧ other ++ [n] ≠ filesC ∧ other ++ [n] ≠ infoC)
    (hnotParentOfSrc : other ≠ FS.parent src) (hnotFiles : other ≠ filesC) :
    ∀ n, s'.fs.get (other ++ [n]) = fs.get (other ++ [n]) := by
  have T := C01.put_ok_moves_whole fs infoC filesC src base content st st' h name s' hr
  intro n
  rw [under_iff] at h1 h2
  apply T.frame
  · rw [under_iff, pfx_concat]; rintro (e | e)
    · exact hnotParentOfSrc (by rw [e, parent, dropLast_concat])
    · exact h1 e
  · rw [under_iff, pfx_concat]; rintro (e | e)
    · exact hnotFiles (concat_inj e).1.symm
    · exact h2 e
  · intro e; exact ho (concat_inj e).1
  · exact (h3 n).1
  · exact (h3 n).2.1
  · exact (h3 n).2.2

/-! ### the statement without the two extra hypotheses is false -/

namespace Cex

def dirN : Node := .dir 0o755 7
/-- `/t/i`: the info directory -/
def I : CPath := [[116], [105]]
/-- `/t/f`: the files directory -/
def F : CPath := [[116], [102]]
/-- `/a`: the entry -/
def S : CPath := [[97]]
/-- `a.trashinfo` -/
def nm : Bytes := [97] ++ trashinfoExt

def okName : Except Reason Bytes → Option Bytes
  | .ok n => some n
  | .error _ => none

theorem okName_eq {r : Except Reason Bytes} {n : Bytes} (h : okName r = some n) : r = .ok n := by
  cases r with
  | ok m => simp only [okName, Option.some.injEq] at h; rw [h]
  | error e => cases h

/-- the world: `/`, `/t`, `/t/i`, `/t/f` and the regular file `/a` -/
def fs1 : FS := FS.ofList [([], dirN), ([[116]], dirN), (I, dirN), (F, dirN), (S, .file [120] 0o644 3)] []

theorem setting1 : Setting fs1 I F S := by
  refine ⟨?_, ?_, ?_, ?_, ?_, ?_, ?_, ?_, ?_⟩ <;> decide +kernel

def R1 := run noFaults (putCore I F [97] [67] (fun _ => .ok S) ⟨[], []⟩) { fs := fs1 }

theorem R1_ok : R1.1.1 = .ok nm := okName_eq (by decide +kernel)

end Cex

open Cex in
/-- `put_other_bags` as first stated in Props/C09.lean (without `other ≠ parent src`,
    `other ≠ filesC`) is FALSE: trashing the file `/a` into the trash directory `/t`, the "other"
    directory `/` satisfies all the hypotheses, and its bag loses the element `a`. -/
theorem put_other_bags_counterexample :
    ∃ (fs : FS) (infoC filesC src other : CPath) (base content : Bytes) (st st' : PutSt) (name : Bytes) (s' : RunState),
      Setting fs infoC filesC src ∧
      run noFaults (putCore infoC filesC base content (fun _ => .ok src) st) { fs := fs } = ((.ok name, st'), s') ∧
      other ≠ infoC ∧ ¬ FS.under src other = true ∧ ¬ FS.under (filesC ++ [stemOf name]) other = true ∧
      (∀ n, other ++ [n] ≠ FS.parent src ∧ other ++ [n] ≠ filesC ∧ other ++ [n] ≠ infoC) ∧
      ¬ ∀ n, s'.fs.get (other ++ [n]) = fs.get (other ++ [n]) := by
  have hr : run noFaults (putCore I F [97] [67] (fun _ => .ok S) ⟨[], []⟩) { fs := fs1 } = ((.ok nm, R1.1.2), R1.2) :=
    Prod.ext (Prod.ext R1_ok rfl) rfl
  refine ⟨fs1, I, F, S, [], [97], [67], ⟨[], []⟩, R1.1.2, nm, R1.2, setting1, hr, by decide, by decide +kernel,
    by decide +kernel, fun n => ⟨by simp [parent, S], by simp [F], by simp [I]⟩, fun hall => ?_⟩
  have T := C01.put_ok_moves_whole fs1 I F S [97] [67] ⟨[], []⟩ R1.1.2 setting1 nm R1.2 hr
  have h1 : R1.2.fs.get S = none := by simpa using T.gone []
  have h2 : R1.2.fs.get S = fs1.get S := hall [97]
  rw [h1] at h2
  revert h2
  decide +kernel

/-! ### purge: every call of the payload removal is an `unlink`/`rmdir` at or below the payload -/

/-- an `unlink` or `rmdir` at or below `P` -/
def KUnder (P : CPath) (c : Call) : Prop :=
  (∃ q, c = .unlink q ∧ P <+: q) ∨ (∃ q, c = .rmdir q ∧ P <+: q)

/-- the bag of `I` is the one of `fs0` -/
def InvBag (fs0 : FS) (I : CPath) (fs : FS) : Prop := ∀ n, fs.get (I ++ [n]) = fs0.get (I ++ [n])

theorem unlink_inv {fs fs' : FS} {q : CPath} (h : fs.unlink q = .ok fs') :
    fs' = touchDir (removeNode fs q) (parent q) := by
  unfold FS.unlink at h
  split at h
  · cases h
  · cases h
  · cases h; rfl

theorem rmdir_inv {fs fs' : FS} {q : CPath} (h : fs.rmdir q = .ok fs') :
    fs' = touchDir (removeNode fs q) (parent q) := by
  unfold FS.rmdir at h
  split at h
  · cases h
  · split at h
    · cases h
    · split at h
      · cases h
      · cases h; rfl
  · cases h

section purge
variable {fs0 : FS} {I P : CPath} (hPI : ¬ P <+: I) (hIP : ¬ I <+: P)
include hPI hIP

theorem bag_after_remove {fs : FS} {q : CPath} (hq : P <+: q) (hi : InvBag fs0 I fs) :
    InvBag fs0 I (touchDir (removeNode fs q) (parent q)) := by
  intro n
  have hPn : ¬ P <+: I ++ [n] := by
    rw [pfx_concat]; rintro (e | e)
    · exact hIP (e ▸ List.prefix_append I [n])
    · exact hPI e
  have a : I ++ [n] ≠ q := fun e => hPn (e ▸ hq)
  have c : I ++ [n] ≠ parent q := by
    intro e
    have hl : I ++ [n] <+: q := e ▸ dropLast_pfx q
    rcases pfx_comparable hl hq with k | k
    · exact hIP ((List.prefix_append I [n]).trans k)
    · exact hPn k
  rw [get_touchDir, if_neg c, get_removeNode, if_neg a]
  exact hi n

theorem KUnder.preserves :
    ∀ c, KUnder P c → ∀ fs fs', InvBag fs0 I fs → c.apply fs = .ok fs' → InvBag fs0 I fs' := by
  intro c hc fs fs' hi ha
  rcases hc with ⟨q, rfl, hq⟩ | ⟨q, rfl, hq⟩
  · rw [unlink_inv ha]; exact bag_after_remove hPI hIP hq hi
  · rw [rmdir_inv ha]; exact bag_after_remove hPI hIP hq hi

end purge

theorem ku_unlink {P q : CPath} (h : P <+: q) : KUnder P (.unlink q) := Or.inl ⟨q, rfl, h⟩
theorem ku_rmdir {P q : CPath} (h : P <+: q) : KUnder P (.rmdir q) := Or.inr ⟨q, rfl, h⟩

theorem sortedChildren_under {fs : FS} {p c : CPath} (h : c ∈ sortedChildren fs p) : p <+: c := by
  unfold sortedChildren at h
  rw [List.mem_mergeSort] at h
  unfold children at h
  rw [List.mem_eraseDups, List.mem_filter] at h
  have := h.2
  simp only [Bool.and_eq_true, isPrefix] at this
  exact List.isPrefixOf_iff_prefix.1 this.1.2

section iss
variable {Inv : FS → Prop} {P : CPath}

theorem iss_rmInner : ∀ (fuel : Nat) (p : CPath), P <+: p → C04.Iss Inv (KUnder P) (rmInner fuel p) := by
  intro fuel
  induction fuel with
  | zero => intro p _; unfold rmInner; exact C04.Iss.pure _
  | succ fuel ih =>
    intro p hp
    have hgo : ∀ cs : List CPath, (∀ c ∈ cs, P <+: c) → C04.Iss Inv (KUnder P) (rmInner.go fuel cs) := by
      intro cs
      induction cs with
      | nil => intro _; unfold rmInner.go; exact C04.Iss.pure _
      | cons c cs ihc =>
        intro hcs
        have hc : P <+: c := hcs c List.mem_cons_self
        have hcs' : ∀ c' ∈ cs, P <+: c' := fun c' h => hcs c' (List.mem_cons_of_mem _ h)
        unfold rmInner.go
        refine C04.Iss.read_bind fun fs' _ => ?_
        split
        · refine C04.Iss.bind (ih _ hc) fun r => ?_
          split
          · exact C04.Iss.pure _
          · refine C04.Iss.bind (C04.Iss.sys (ku_rmdir hc)) fun r => ?_
            split
            · exact C04.Iss.pure _
            · exact ihc hcs'
        · refine C04.Iss.bind (C04.Iss.sys (ku_unlink hc)) fun r => ?_
          split
          · exact C04.Iss.pure _
          · exact ihc hcs'
    unfold rmInner
    exact C04.Iss.read_bind fun fs _ => hgo _ fun c h => hp.trans (sortedChildren_under h)

theorem iss_rmtree {p : CPath} (hp : P <+: p) : C04.Iss Inv (KUnder P) (rmtree p) := by
  unfold rmtree
  refine C04.Iss.read_bind fun fs _ => ?_
  split
  · exact C04.Iss.pure _
  · exact C04.Iss.pure _
  · exact C04.Iss.pure _
  · refine C04.Iss.bind (iss_rmInner _ _ hp) fun r => ?_
    split
    · exact C04.Iss.pure _
    · exact C04.Iss.sys (ku_rmdir hp)

theorem iss_removeFile2 {p : CPath} (hp : P <+: p) : C04.Iss Inv (KUnder P) (removeFile2 p) := by
  unfold removeFile2
  refine C04.Iss.bind (C04.Iss.sys (ku_unlink hp)) fun r => ?_
  split
  · exact C04.Iss.pure _
  · exact iss_rmtree hp

theorem iss_removeIfExists {p : CPath} (hp : P <+: p) : C04.Iss Inv (KUnder P) (removeIfExists p) := by
  unfold removeIfExists
  refine C04.Iss.read_bind fun fs _ => ?_
  split
  · exact iss_removeFile2 hp
  · exact C04.Iss.pure _

end iss

/-- removing the payload leaves every bag it is apart from alone (any oracle) -/
theorem removeIfExists_bag (φ : Oracle) (I P : CPath) (hPI : ¬ P <+: I) (hIP : ¬ I <+: P) (s : RunState) :
    ∀ n, (run φ (removeIfExists P) s).2.fs.get (I ++ [n]) = s.fs.get (I ++ [n]) :=
  (C04.Iss.sound (Inv := InvBag s.fs I) φ (KUnder.preserves hPI hIP) (removeIfExists P) s
    (iss_removeIfExists List.prefix_rfl) (fun _ => rfl)).1

theorem removeFile2_file {p : CPath} {s : RunState} {d : Bytes} {m t : Nat}
    (h : s.fs.get p = some (.file d m t)) :
    (run noFaults (removeFile2 p) s).1 = .ok () ∧
    (run noFaults (removeFile2 p) s).2.fs = touchDir (removeNode s.fs p) (parent p) := by
  have hu : s.fs.unlink p = .ok (touchDir (removeNode s.fs p) (parent p)) := by simp [FS.unlink, h]
  unfold removeFile2
  simp [run_bind, run_sys, Call.apply, hu]

theorem purge_removes_one (fs : FS) (infoC : CPath) (name : Bytes) (payload : CPath) (d : Bytes) (m t : Nat)
    (hi : fs.get (infoC ++ [name]) = some (.file d m t))
    (hp : ¬ FS.under payload infoC = true ∧ ¬ FS.under infoC payload = true)
    (_hwf : ∀ q, (fs.get q).isSome = true → q ∈ fs.dom) :
    let r := run noFaults (purgePair (.ok payload) (.ok (infoC ++ [name]))) { fs := fs }
    r.1 = .ok () → r.2.fs.get (infoC ++ [name]) = none ∧
      ∀ n, n ≠ name → r.2.fs.get (infoC ++ [n]) = fs.get (infoC ++ [n]) := by
  intro r
  have hr : r = run noFaults (purgePair (.ok payload) (.ok (infoC ++ [name]))) { fs := fs } := rfl
  obtain ⟨hp1, hp2⟩ := hp
  rw [under_iff] at hp1 hp2
  have hbag := removeIfExists_bag noFaults infoC payload hp1 hp2 { fs := fs }
  unfold purgePair removeIfExistsR removeFile2R at hr
  simp only [run_bind] at hr
  generalize run noFaults (removeIfExists payload) { fs := fs } = r1 at hr hbag
  obtain ⟨res, s1⟩ := r1
  simp only at hr hbag
  cases res with
  | error e => intro h; rw [hr] at h; cases h
  | ok u =>
    cases u
    intro _
    simp only at hr
    have hi1 : s1.fs.get (infoC ++ [name]) = some (.file d m t) := by rw [hbag]; exact hi
    obtain ⟨_, f2⟩ := removeFile2_file hi1
    rw [hr, f2]
    have a : infoC ≠ infoC ++ [name] := by intro h; simpa using congrArg List.length h
    refine ⟨?_, fun n hn => ?_⟩
    · rw [get_touchDir, parent, dropLast_concat, if_neg a.symm, get_removeNode, if_pos rfl]
    · have c : infoC ++ [n] ≠ infoC := by intro h; simpa using congrArg List.length h
      have e : infoC ++ [n] ≠ infoC ++ [name] := fun h => hn (concat_inj h).2
      rw [get_touchDir, parent, dropLast_concat, if_neg c, get_removeNode, if_neg e, hbag]

/-! ### restore = one `rename`, then one `unlink` -/

/-- state after a restore: the rename of `a` to `dst`, then the info file removed -/
def fsR (fs : FS) (a dst info : CPath) : FS :=
  touchDir (removeNode (fsC fs a dst (parent dst)) info) (parent info)

theorem snoc_of_ne_nil {l : CPath} (h : l ≠ []) : ∃ p x, l = p ++ [x] := by
  rcases List.eq_nil_or_concat l with e | ⟨p, x, e⟩
  · exact absurd e h
  · exact ⟨p, x, by rw [e, List.concat_eq_append]⟩

theorem restore_spec {fs : FS} {a dst info : CPath} {na : Node} {m t dm dt : Nat} {d : Bytes}
    (hdst : fs.get dst = none) (hsrc : fs.get a = some na) (hmnt : fs.isMount a = false)
    (hdev : fs.dev (parent a) = fs.dev (parent dst)) (hnr : dst ≠ [])
    (hname : ∀ n, dst.getLast? = some n → n.length ≤ 255) (hp : fs.get (parent dst) = some (.dir m t))
    (hnu : ¬ a <+: dst)
    (hi : (fsC fs a dst (parent dst)).get info = some (.file d dm dt)) :
    (run noFaults (restoreCore (.ok a) (.ok dst) (.ok info)) { fs := fs }).1 = .ok () ∧
    (run noFaults (restoreCore (.ok a) (.ok dst) (.ok info)) { fs := fs }).2.fs = fsR fs a dst info := by
  obtain ⟨p, x, rfl⟩ := snoc_of_ne_nil hnr
  have hpx : parent (p ++ [x]) = p := dropLast_concat p x
  unfold fsR
  rw [hpx] at hdev hp hi ⊢
  have hx : x.length ≤ 255 := hname x List.getLast?_concat
  obtain ⟨m1, m2, _⟩ := move_spec (s := { fs := fs }) hdst hsrc hmnt hdev hx hp
    (fun e => hnu (e ▸ List.prefix_rfl)) (fun e => hnu ((under_iff _ _).1 e))
  unfold restoreCore
  simp only [run_bind]
  generalize run noFaults (move a (p ++ [x])) { fs := fs } = rm at m1 m2
  obtain ⟨res, s2⟩ := rm
  simp only at m1 m2
  subst m1
  simp only
  have hi2 : s2.fs.get info = some (.file d dm dt) := by rw [m2]; exact hi
  obtain ⟨r1, r2⟩ := C01.removeFile_file hi2
  exact ⟨r1, by rw [r2, m2]; rfl⟩

/-- reading the restored state away from the touched directories and the info file -/
theorem fsR_get_away {fs : FS} {a dst info q : CPath}
    (h1 : q ≠ parent info) (h2 : q ≠ info) (h3 : q ≠ parent dst) (h4 : q ≠ parent a) :
    (fsR fs a dst info).get q = (moveTree fs a dst).get q := by
  rw [fsR, get_touchDir, if_neg h1, get_removeNode, if_neg h2, fsC_get, if_neg h3, if_neg h4]

theorem fsR_get_info {fs : FS} {a dst info : CPath} (h : info ≠ []) :
    (fsR fs a dst info).get info = none := by
  rw [fsR, get_touchDir, if_neg (show info ≠ parent info from (dropLast_ne h).symm), get_removeNode, if_pos rfl]

theorem ne_parent_of_pfx {q l : CPath} (h : ¬ q <+: l) : q ≠ parent l := fun e => h (e ▸ dropLast_pfx l)

theorem not_pfx_parent {q l : CPath} (h : ¬ q <+: l) : ¬ q <+: parent l := fun e => h (e.trans (dropLast_pfx l))

theorem append_ne_parent (l rel : CPath) (h : l ≠ []) : l ++ rel ≠ parent l := by
  intro e
  have := congrArg List.length e
  have hl : l.length ≠ 0 := by simpa using h
  simp [parent] at this; omega

theorem restore_removes_one (fs : FS) (infoC : CPath) (name : Bytes) (src dst : CPath) (d : Bytes) (m t : Nat)
    (hi : fs.get (infoC ++ [name]) = some (.file d m t))
    (hsrc : (fs.get src).isSome = true) (hnm : fs.isMount src = false) (hdst : fs.get dst = none)
    (hpar : fs.isDirAt (FS.parent dst) = true) (hdev : fs.dev (FS.parent src) = fs.dev (FS.parent dst))
    (hname : ∀ n, dst.getLast? = some n → n.length ≤ 255) (hnr : dst ≠ [])
    (hapart : ¬ FS.under src dst = true ∧ ¬ FS.under dst src = true ∧ ¬ FS.under src infoC = true ∧ ¬ FS.under dst infoC = true ∧
              ¬ FS.under infoC src = true ∧ ¬ FS.under infoC dst = true) :
    let r := run noFaults (restoreCore (.ok src) (.ok dst) (.ok (infoC ++ [name]))) { fs := fs }
    r.1 = .ok () ∧ r.2.fs.get (infoC ++ [name]) = none ∧
    (∀ n, n ≠ name → r.2.fs.get (infoC ++ [n]) = fs.get (infoC ++ [n])) ∧
    (∀ rel, r.2.fs.get (dst ++ rel) = fs.get (src ++ rel)) := by
  obtain ⟨hsd, hds, hsI, hdI, hIs, hId⟩ := hapart
  rw [under_iff] at hsd hds hsI hdI hIs hId
  obtain ⟨na, hna⟩ := Option.isSome_iff_exists.1 hsrc
  obtain ⟨dm, dt, hp⟩ := isDirAt_get hpar
  have hIn : ∀ n, infoC <+: infoC ++ [n] := fun n => List.prefix_append infoC [n]
  have hdn : ∀ n, ¬ dst <+: infoC ++ [n] := by
    intro n; rw [pfx_concat]; rintro (e | e)
    · exact hId (e ▸ hIn n)
    · exact hdI e
  have hsn : ∀ n, ¬ src <+: infoC ++ [n] := by
    intro n; rw [pfx_concat]; rintro (e | e)
    · exact hIs (e ▸ hIn n)
    · exact hsI e
  -- the paths `infoC ++ [n]` are away from everything the rename touches
  have away : ∀ n, (fsC fs src dst (parent dst)).get (infoC ++ [n]) = fs.get (infoC ++ [n]) := by
    intro n
    have b1 : infoC ++ [n] ≠ parent dst := ne_parent_of_pfx fun e => hId ((hIn n).trans e)
    have b2 : infoC ++ [n] ≠ parent src := ne_parent_of_pfx fun e => hIs ((hIn n).trans e)
    rw [fsC_get, if_neg b1, if_neg b2, get_moveTree', if_neg (hdn n), if_neg (hsn n)]
  have hi' : (fsC fs src dst (parent dst)).get (infoC ++ [name]) = some (.file d m t) := by rw [away, hi]
  obtain ⟨r1, r2⟩ := restore_spec hdst hna hnm hdev hnr hname hp hsd hi'
  intro r
  refine ⟨r1, ?_, fun n hn => ?_, fun rel => ?_⟩
  · show (run noFaults _ _).2.fs.get _ = none
    rw [r2]; exact fsR_get_info (by simp)
  · show (run noFaults _ _).2.fs.get _ = _
    have c : infoC ++ [n] ≠ infoC := by intro h; simpa using congrArg List.length h
    have e : infoC ++ [n] ≠ infoC ++ [name] := fun h => hn (concat_inj h).2
    rw [r2, fsR, get_touchDir, parent, dropLast_concat, if_neg c, get_removeNode, if_neg e, away]
  · show (run noFaults _ _).2.fs.get _ = _
    have hpre : dst <+: dst ++ rel := List.prefix_append _ _
    have c1 : dst ++ rel ≠ parent (infoC ++ [name]) := by
      rw [parent, dropLast_concat]; intro e; exact hdI (e ▸ hpre)
    have c2 : dst ++ rel ≠ infoC ++ [name] := fun e => hdn name (e ▸ hpre)
    have c4 : dst ++ rel ≠ parent src := ne_parent_of_pfx fun e => hds (hpre.trans e)
    rw [r2, fsR_get_away c1 c2 (append_ne_parent dst rel hnr) c4, get_moveTree', if_pos hpre, List.drop_left]

end TrashVerif.Proofs.C09
