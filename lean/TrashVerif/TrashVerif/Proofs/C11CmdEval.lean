/-
  Proofs/C11CmdEval.lean — kernel-evaluable twins of WHOLE runs of trash-empty and trash-rm on worlds
  whose payloads are directories (`rmtree` → `rmInner` → `sortedChildren` → `List.mergeSort`, which
  the kernel cannot unfold): Proofs/C08CmdEval.lean (the scanner, the loops over directories) joined
  with Proofs/C10LoopEval.lean (the removal routines, the loops over info files).  Proved EQUAL to
  `runEmpty` / `runRm`; used only to evaluate the model on concrete worlds (`decide +kernel`).
-/
import TrashVerif.Proofs.C08CmdEval
import TrashVerif.Proofs.C10LoopEval
namespace TrashVerif.Proofs.C11CmdEval
open TrashVerif Prog FS Bytes
open TrashVerif.Proofs.C16Eval TrashVerif.Proofs.C02CmdEval
open TrashVerif.Proofs.C10LoopEval (emptyPathRS emptyPathR_eq emptyInfosS emptyInfos_eq rmInfosS rmInfos_eq infosOfS infosOf_eq)
open TrashVerif.Proofs.C08CmdEval (orphansOfS orphansOf_eq selectTrashDirsS selectTrashDirs_eq scanTrashDirsS scanTrashDirs_eq)

def emptyPathT (cwd : CPath) (o : EmptyOpts) (path : Bytes) : Prog Unit := do
  let fs ← read
  emptyPathRS o path (resolveS fs cwd path)
theorem emptyPath_eq (cwd : CPath) (o : EmptyOpts) (path : Bytes) : emptyPath cwd o path = emptyPathT cwd o path := by
  unfold emptyPath emptyPathT; simp only [resolve_eq, emptyPathR_eq] <;> rfl

def emptyPathsT (cwd : CPath) (o : EmptyOpts) : List Bytes → Prog Unit
  | [] => pure ()
  | p :: ps => do emptyPathT cwd o p; emptyPathsT cwd o ps
theorem emptyPaths_eq (cwd : CPath) (o : EmptyOpts) : ∀ ps : List Bytes, emptyPaths cwd o ps = emptyPathsT cwd o ps := by
  intro ps
  induction ps with
  | nil => rfl
  | cons p ps ih => unfold emptyPaths emptyPathsT; rw [emptyPath_eq, ih]

def emptyDirsT (cwd : CPath) (o : EmptyOpts) : List (Bytes × Bytes) → Prog (Option Crash)
  | [] => pure none
  | (t, _) :: rest => do
    let fs ← read
    match infosOfS fs cwd t with
    | .error c => pure (some c)
    | .ok infos =>
      match ← emptyInfosS cwd o infos with
      | some c => pure (some c)
      | none =>
        let fs ← read
        match orphansOfS fs cwd t with
        | .error c => pure (some c)
        | .ok orphans => do
          emptyPathsT cwd o orphans
          emptyDirsT cwd o rest
theorem emptyDirs_eq (cwd : CPath) (o : EmptyOpts) : ∀ ds : List (Bytes × Bytes), emptyDirs cwd o ds = emptyDirsT cwd o ds := by
  intro ds
  induction ds with
  | nil => rfl
  | cons tv rest ih =>
    obtain ⟨t, v⟩ := tv
    unfold emptyDirs emptyDirsT
    simp only [infosOf_eq, emptyInfos_eq, orphansOf_eq, emptyPaths_eq, ih] <;> rfl

def runEmptyT (c : ReadCfg) (o : EmptyOpts) (reply : Option Bytes) : Prog CmdResult := do
  let fs ← read
  let events := selectTrashDirsS fs c o.userDirs
  let go : Prog CmdResult := do
    match ← emptyDirsT c.cwd o (foundDirs events) with
    | some cr => do say (.stderr "traceback" []); pure { exit := 1, crash := some cr }
    | none => pure { exit := 0 }
  if o.interactive then
    match reply with
    | none => do say (.stderr "traceback" []); pure { exit := 1, crash := some .eof }
    | some r => if emptyReplyYes r then go else pure { exit := 0 }
  else go
theorem runEmpty_eq (c : ReadCfg) (o : EmptyOpts) (reply : Option Bytes) : runEmpty c o reply = runEmptyT c o reply := by
  unfold runEmpty runEmptyT; simp only [selectTrashDirs_eq, emptyDirs_eq] <;> rfl

def rmDirsT (cwd : CPath) (pattern : Bytes) : List (Bytes × Bytes) → Prog (Option Crash)
  | [] => pure none
  | (t, v) :: rest => do
    let fs ← read
    match infosOfS fs cwd t with
    | .error c => pure (some c)
    | .ok infos =>
      match ← rmInfosS cwd pattern v infos with
      | some c => pure (some c)
      | none => rmDirsT cwd pattern rest
theorem rmDirs_eq (cwd : CPath) (pattern : Bytes) : ∀ ds : List (Bytes × Bytes), rmDirs cwd pattern ds = rmDirsT cwd pattern ds := by
  intro ds
  induction ds with
  | nil => rfl
  | cons tv rest ih =>
    obtain ⟨t, v⟩ := tv
    unfold rmDirs rmDirsT
    simp only [infosOf_eq, rmInfos_eq, ih] <;> rfl

def runRmT (c : ReadCfg) (args : List Bytes) : Prog CmdResult := do
  match args with
  | [] => do say (.stderr "usage" []); pure { exit := 8 }
  | pattern :: _ =>
    let fs ← read
    match ← rmDirsT c.cwd pattern (foundDirs (scanTrashDirsS fs c)) with
    | some cr => do say (.stderr "traceback" []); pure { exit := 1, crash := some cr }
    | none => pure { exit := 0 }
theorem runRm_eq (c : ReadCfg) (args : List Bytes) : runRm c args = runRmT c args := by
  unfold runRm runRmT; simp only [scanTrashDirs_eq, rmDirs_eq] <;> rfl

/-- the runs without faults, from a bare state -/
def emptyT (c : ReadCfg) (o : EmptyOpts) (fs : FS) : CmdResult × RunState := run noFaults (runEmptyT c o none) { fs := fs }
def rmT (c : ReadCfg) (args : List Bytes) (fs : FS) : CmdResult × RunState := run noFaults (runRmT c args) { fs := fs }

theorem empty_twin (c : ReadCfg) (o : EmptyOpts) (fs : FS) :
    run noFaults (runEmpty c o none) { fs := fs } = emptyT c o fs := by unfold emptyT; rw [runEmpty_eq]
theorem rm_twin (c : ReadCfg) (args : List Bytes) (fs : FS) :
    run noFaults (runRm c args) { fs := fs } = rmT c args fs := by unfold rmT; rw [runRm_eq]

end TrashVerif.Proofs.C11CmdEval
