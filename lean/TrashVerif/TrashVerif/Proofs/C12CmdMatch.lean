import TrashVerif.Props.C12
import TrashVerif.Proofs.C12CmdDecode
namespace TrashVerif.Proofs.C12CmdMatch
open TrashVerif Glob

/-- no metacharacter byte ⇒ no metacharacter code point after decoding -/
theorem decode_literal (pattern : Bytes) (hlit : ∀ x ∈ pattern, x ≠ 42 ∧ x ≠ 63 ∧ x ≠ 91) :
    ∀ c ∈ decodeSE pattern, c ≠ 42 ∧ c ≠ 63 ∧ c ≠ 91 := by
  intro c hc
  refine ⟨?_, ?_, ?_⟩ <;> intro hce <;> subst hce
  · obtain ⟨x, hx, hxn⟩ := C12CmdDecode.decodeSE_ascii_mem pattern 42 hc (by decide)
    exact (hlit x hx).1 (UInt8.toNat_inj.mp hxn)
  · obtain ⟨x, hx, hxn⟩ := C12CmdDecode.decodeSE_ascii_mem pattern 63 hc (by decide)
    exact (hlit x hx).2.1 (UInt8.toNat_inj.mp hxn)
  · obtain ⟨x, hx, hxn⟩ := C12CmdDecode.decodeSE_ascii_mem pattern 91 hc (by decide)
    exact (hlit x hx).2.2 (UInt8.toNat_inj.mp hxn)

theorem literal_glob (pattern subj : Bytes) (hlit : ∀ x ∈ pattern, x ≠ 42 ∧ x ≠ 63 ∧ x ≠ 91) :
    globMatch (decodeSE pattern) (decodeSE subj) = decide (subj = pattern) := by
  rw [Bool.eq_iff_iff, C12.literal_pattern _ _ (decode_literal pattern hlit)]
  simp only [decide_eq_true_eq]
  constructor
  · intro h; exact C12CmdDecode.decodeSE_injective _ _ h
  · intro h; rw [h]

/-- (a) case sensitivity: a literal pattern (no `*`, `?`, `[` byte) that does not start with '/'
    matches a location iff the location's base name is byte-for-byte the pattern -/
theorem literal_matches_basename (pattern loc : Bytes) (hp : pattern ≠ []) (hns : pattern.head? ≠ some slash)
    (hlit : ∀ x ∈ pattern, x ≠ 42 ∧ x ≠ 63 ∧ x ≠ 91) :
    rmMatches pattern loc = some (decide (basename loc = pattern)) := by
  rw [C12.rm_subject pattern loc hp, if_neg hns, literal_glob pattern _ hlit]

/-- (b) a literal pattern that starts with '/' matches exactly the location that is that path -/
theorem literal_matches_full_path (pattern loc : Bytes) (hs : pattern.head? = some slash)
    (hlit : ∀ x ∈ pattern, x ≠ 42 ∧ x ≠ 63 ∧ x ≠ 91) :
    rmMatches pattern loc = some (decide (loc = pattern)) := by
  have hp : pattern ≠ [] := by intro h; rw [h] at hs; cases hs
  rw [C12.rm_subject pattern loc hp, if_pos hs, literal_glob pattern _ hlit]

theorem matches_star (s : Cps) : C12.Matches [.star] s := by
  induction s with
  | nil => exact C12.Matches.star_skip C12.Matches.nil
  | cons x s ih => exact C12.Matches.star_take ih

/-- (c) `*` matches every code-point string (newlines, slashes, escaped bytes included) -/
theorem star_matches_all (s : Cps) : globMatch [42] s = true := by
  rw [C12.globMatch_iff]
  have : parse [42] = [.star] := by decide +kernel
  rw [this]; exact matches_star s

theorem star_matches_every_location (loc : Bytes) : rmMatches (b "*") loc = some true := by
  have hb : b "*" = [42] := by decide +kernel
  rw [C12.rm_subject _ _ (by rw [hb]; simp), hb]
  have hd : decodeSE ([42] : Bytes) = [42] := by decide +kernel
  rw [hd, star_matches_all]

/-- (d) a pattern that does not start with '/' never looks at the directory part -/
theorem dir_part_ignored (pattern loc1 loc2 : Bytes) (hns : pattern.head? ≠ some slash)
    (h : basename loc1 = basename loc2) : rmMatches pattern loc1 = rmMatches pattern loc2 := by
  unfold rmMatches
  simp only [if_neg hns, h]

theorem matches_any_iff (s : Cps) : C12.Matches [.any] s ↔ s.length = 1 := by
  constructor
  · intro h
    cases h with
    | one _ _ hm => cases hm; rfl
  · intro h
    match s, h with
    | [x], _ => exact C12.Matches.one (by decide) trivial C12.Matches.nil

/-- (e) `?` matches exactly one code point (after surrogate-escape decoding) -/
theorem question_mark_one (loc : Bytes) :
    rmMatches (b "?") loc = some true ↔ (decodeSE (basename loc)).length = 1 := by
  have hb : b "?" = [63] := by decide +kernel
  rw [C12.rm_subject _ _ (by rw [hb]; simp), hb]
  have hd : decodeSE ([63] : Bytes) = [63] := by decide +kernel
  have hh : ¬ (([63] : Bytes).head? = some slash) := by decide
  rw [hd, if_neg hh, Option.some.injEq, C12.globMatch_iff]
  have : parse [63] = [.any] := by decide +kernel
  rw [this]; exact matches_any_iff _

theorem decodeSE_head_slash (loc : Bytes) : (decodeSE loc).head? = some 47 ↔ loc.head? = some slash := by
  cases loc with
  | nil => rw [C12CmdDecode.decodeSE_nil]; simp
  | cons c rest =>
    constructor
    · intro h
      obtain ⟨cp, pre, rest', _, _, _, hasc, hout⟩ := C12CmdDecode.head c rest
      rw [hout] at h
      simp only [List.head?_cons, Option.some.injEq] at h
      subst h
      have : c = 47 := UInt8.toNat_inj.mp (hasc (by decide)).symm
      rw [this]; rfl
    · intro h
      simp only [List.head?_cons, Option.some.injEq] at h
      subst h
      rw [decodeSE]
      rfl

theorem matches_lit_star (c : Nat) (s : Cps) : C12.Matches [.lit c, .star] s ↔ s.head? = some c := by
  constructor
  · intro h
    cases h with
    | one _ ha _ => cases ha; rfl
  · intro h
    match s, h with
    | x :: t, h =>
      simp only [List.head?_cons, Option.some.injEq] at h
      subst h
      exact C12.Matches.one (by intro h; cases h) rfl (matches_star t)

/-- (c') with a leading '/', `*` runs across '/': `/*` matches every location that starts with '/' -/
theorem slash_star (loc : Bytes) : rmMatches (b "/*") loc = some true ↔ loc.head? = some slash := by
  have hb : b "/*" = [47, 42] := by decide +kernel
  rw [C12.rm_subject _ _ (by rw [hb]; simp), hb]
  have hd : decodeSE ([47, 42] : Bytes) = [47, 42] := by decide +kernel
  have hh : ([47, 42] : Bytes).head? = some slash := by decide
  rw [hd, if_pos hh, Option.some.injEq, C12.globMatch_iff]
  have : parse [47, 42] = [.lit 47, .star] := by decide +kernel
  rw [this, matches_lit_star]; exact decodeSE_head_slash loc

example : rmMatches (b "FOO") (b "/home/u/foo") = some false ∧ rmMatches (b "foo") (b "/home/u/foo") = some true ∧
    rmMatches (b "*") (b "/home/u/a\nb") = some true ∧
    rmMatches (b "?") [47, 120, 47, 0xC3, 0xA9] = some true ∧
    rmMatches (b "?") [47, 0xC3] = some true := by decide +kernel

end TrashVerif.Proofs.C12CmdMatch
