/-
  Proofs/C05Copy.lean — crash-safety of `shutil.move` in its COPY-FALLBACK branch
  (proofs of the statements of Props/C05Copy.lean).

  Layout: a small Hoare calculus over `run` (`Thru`: an invariant of every new crash state plus a
  postcondition), the `get`-characterisation of the calls the copy issues, the specifications of
  `copystat`, `copy2`, `copytree` (induction over its fuel and over the list of entries) under an
  ARBITRARY fault oracle, and the assembly into `move`.
-/
import TrashVerif.Proofs.C15
import TrashVerif.Proofs.C05
import TrashVerif.Props.C05CopyDefs
namespace TrashVerif.Proofs.C05Copy
open TrashVerif Prog FS PutLemmas C04 C11 MoveCopy

/-! ### a Hoare calculus over `run` -/

/-- `Q` holds of the result and the final state; `J` holds in the final state and in every crash
    state the run adds -/
def Thru {α} (φ : Oracle) (p : Prog α) (s : RunState) (J : FS → Prop) (Q : α → FS → Prop) : Prop :=
  Q (run φ p s).1 (run φ p s).2.fs ∧ J (run φ p s).2.fs ∧ ∀ x ∈ (run φ p s).2.hist, x ∈ s.hist ∨ J x

section thru
variable {α β : Type} {φ : Oracle} {s : RunState} {J : FS → Prop}

theorem Thru.pure {Q : α → FS → Prop} (a : α) (hJ : J s.fs) (hQ : Q a s.fs) :
    Thru φ (pure a : Prog α) s J Q := ⟨hQ, hJ, fun _ hx => Or.inl hx⟩

theorem Thru.bind {p : Prog α} {f : α → Prog β} {Q1 : α → FS → Prop} {Q : β → FS → Prop}
    (hp : Thru φ p s J Q1)
    (hf : ∀ a (s1 : RunState), Q1 a s1.fs → J s1.fs → Thru φ (f a) s1 J Q) : Thru φ (p >>= f) s J Q := by
  obtain ⟨q1, j1, h1⟩ := hp
  obtain ⟨q2, j2, h2⟩ := hf _ _ q1 j1
  unfold Thru
  rw [run_bind]
  exact ⟨q2, j2, fun x hx => (h2 x hx).elim (fun h => h1 x h) Or.inr⟩

theorem Thru.read_bind {f : FS → Prog β} {Q : β → FS → Prop} (h : Thru φ (f s.fs) s J Q) :
    Thru φ (read >>= f) s J Q := h

theorem Thru.mono {p : Prog α} {J' : FS → Prop} {Q Q' : α → FS → Prop} (h : Thru φ p s J' Q')
    (hJ : ∀ x, J' x → J x) (hQ : ∀ a x, J' x → Q' a x → Q a x) : Thru φ p s J Q :=
  ⟨hQ _ _ h.2.1 h.1, hJ _ h.2.1, fun x hx => (h.2.2 x hx).imp id (hJ x)⟩

theorem Thru.congr {p p' : Prog α} {Q : α → FS → Prop} (e : run φ p s = run φ p' s) (h : Thru φ p' s J Q) :
    Thru φ p s J Q := by
  unfold Thru; rw [e]; exact h

theorem quiet_noFaults : Quiet noFaults := fun _ _ _ _ => rfl

/-- a call the file system accepts: it is faulted (state kept) or executed -/
theorem Thru.sys_of_ok {c : Call} {B : FS} {Q : Res → FS → Prop} (hc : ∀ a b, c ≠ .rename a b)
    (h : c.apply s.fs = .ok B) (hJ : J s.fs) (hJB : J B) (hQ : Q (.ok ()) B)
    (hE : ∀ e, ¬ Quiet φ → Q (.error e) s.fs) : Thru φ (sys c) s J Q := by
  unfold Thru
  rcases C17.sys_cases φ c s with ⟨e, hr⟩ | ⟨fs', _, ha, hr⟩
  · have hf : ¬ Quiet φ := by
      intro hq
      have h1 := hq s.n (kindCount s.trace c.kind) c hc
      have : run φ (sys c) s = (.ok (), C17.after s c (.ok ()) B) := C17.run_sys_ok φ c s B h1 h
      rw [this] at hr; cases hr
    rw [hr]
    exact ⟨hE e hf, hJ, fun x hx => by
      rcases List.mem_cons.1 hx with rfl | hx
      · exact Or.inr hJ
      · exact Or.inl hx⟩
  · have : fs' = B := Except.ok.inj (ha.symm.trans h)
    subst this
    rw [hr]
    exact ⟨hQ, hJB, fun x hx => by
      rcases List.mem_cons.1 hx with rfl | hx
      · exact Or.inr hJ
      · exact Or.inl hx⟩

/-- a call the file system refuses -/
theorem Thru.sys_of_err {c : Call} {e0 : Errno} {Q : Res → FS → Prop}
    (h : c.apply s.fs = .error e0) (hJ : J s.fs) (hE : ∀ e, Q (.error e) s.fs) : Thru φ (sys c) s J Q := by
  unfold Thru
  rcases C17.sys_cases φ c s with ⟨e, hr⟩ | ⟨fs', _, ha, _⟩
  · rw [hr]
    exact ⟨hE e, hJ, fun x hx => by
      rcases List.mem_cons.1 hx with rfl | hx
      · exact Or.inr hJ
      · exact Or.inl hx⟩
  · rw [h] at ha; cases ha

/-- from the invariant calculus of Proofs/C11.lean -/
theorem Thru.of_iss {p : Prog α} {K : Call → Prop}
    (hK : ∀ c, K c → ∀ fs fs', J fs → c.apply fs = .ok fs' → J fs') (hp : Iss InvT K p) (hJ : J s.fs) :
    Thru φ p s J (fun _ _ => True) :=
  ⟨trivial, Iss.inv φ J hK p s hp hJ⟩

end thru

/-- result/postcondition pairs used below: `C` when the routine reports success; success when
    nothing but renames is faulted and `H` holds -/
def Post (φ : Oracle) (H : Prop) (C : FS → Prop) : Res → FS → Prop :=
  fun r B => (r = .ok () → C B) ∧ (Quiet φ → H → r = .ok ())

theorem Post.ok {φ : Oracle} {H : Prop} {C : FS → Prop} {B : FS} (h : C B) : Post φ H C (.ok ()) B :=
  ⟨fun _ => h, fun _ _ => rfl⟩
theorem Post.err {φ : Oracle} {H : Prop} {C : FS → Prop} {B : FS} {e : Errno} (h : ¬ (Quiet φ ∧ H)) :
    Post φ H C (.error e) B :=
  ⟨fun h' => (by cases h'), fun a b => absurd ⟨a, b⟩ h⟩

/-! ### frames -/

/-- `B` differs from `A` at `p` (anything), at `p`'s parent (a directory's mtime), nowhere else -/
structure Mod1 (p : CPath) (A B : FS) : Prop where
  mounts : B.mounts = A.mounts
  dom : ∀ q ∈ A.dom, q ∈ B.dom
  wf : C15.Wf A → C15.Wf B
  get : ∀ q, q ≠ p → touch (B.get q) = touch (A.get q) ∧ (q ≠ parent p → B.get q = A.get q)

/-- `B` differs from `A` at or below `d` (anything) and at `d`'s parent (mtime), nowhere else -/
structure Fr (A : FS) (d : CPath) (B : FS) : Prop where
  mounts : B.mounts = A.mounts
  dom : ∀ q ∈ A.dom, q ∈ B.dom
  wf : C15.Wf A → C15.Wf B
  get : ∀ q, ¬ d <+: q → touch (B.get q) = touch (A.get q) ∧ (q ≠ parent d → B.get q = A.get q)

theorem Fr.refl (A : FS) (d : CPath) : Fr A d A := ⟨rfl, fun _ h => h, id, fun _ _ => ⟨rfl, fun _ => rfl⟩⟩

theorem Mod1.refl (p : CPath) (A : FS) : Mod1 p A A := ⟨rfl, fun _ h => h, id, fun _ _ => ⟨rfl, fun _ => rfl⟩⟩

theorem Mod1.trans {p : CPath} {A B C : FS} (h1 : Mod1 p A B) (h2 : Mod1 p B C) : Mod1 p A C :=
  ⟨h2.mounts.trans h1.mounts, fun q h => h2.dom q (h1.dom q h), fun h => h2.wf (h1.wf h), fun q hq =>
    ⟨((h2.get q hq).1).trans (h1.get q hq).1, fun hp => ((h2.get q hq).2 hp).trans ((h1.get q hq).2 hp)⟩⟩

theorem Mod1.fr {p : CPath} {A B : FS} (h : Mod1 p A B) : Fr A p B :=
  ⟨h.mounts, h.dom, h.wf, fun q hq => h.get q (fun e => hq (e ▸ List.prefix_refl _))⟩

/-- frames nest -/
theorem Fr.sub {A0 A B : FS} {d d' : CPath} (h0 : Fr A0 d A) (hd : d <+: d') (h : Fr A d' B) : Fr A0 d B := by
  refine ⟨h.mounts.trans h0.mounts, fun q hq => h.dom q (h0.dom q hq), fun hw => h.wf (h0.wf hw), fun q hq => ?_⟩
  have hq' : ¬ d' <+: q := fun e => hq (hd.trans e)
  refine ⟨((h.get q hq').1).trans (h0.get q hq).1, fun hp => ?_⟩
  have hp' : q ≠ parent d' := by
    by_cases e : d' = d
    · rw [e]; exact hp
    · exact fun e' => hq (e' ▸ parent_under hd e)
  exact ((h.get q hq').2 hp').trans ((h0.get q hq).2 hp)

theorem Fr.isDirAt {A B : FS} {d q : CPath} (h : Fr A d B) (hq : ¬ d <+: q) : B.isDirAt q = A.isDirAt q :=
  isDirAt_touch (h.get q hq).1

theorem wf_setNode {A : FS} (p : CPath) (n : Node) (h : C15.Wf A) : C15.Wf (setNode A p n) := by
  intro q hq
  show q ∈ p :: A.dom
  by_cases e : q = p
  · rw [e]; exact List.mem_cons_self
  · rw [get_setNode, if_neg e] at hq
    exact List.mem_cons_of_mem _ (h q hq)

theorem wf_touchDir {A : FS} (p : CPath) (h : C15.Wf A) : C15.Wf (touchDir A p) := by
  intro q hq
  rw [C15.dom_touchDir]
  refine h q ?_
  rw [get_touchDir] at hq
  by_cases e : q = p
  · rw [if_pos e, touch_isSome] at hq; rw [e]; exact hq
  · rw [if_neg e] at hq; exact hq

theorem mod1_set (A : FS) (p : CPath) (n : Node) : Mod1 p A (setNode A p n) :=
  ⟨rfl, fun _ h => List.mem_cons_of_mem _ h, wf_setNode p n, fun q hq => by
    rw [get_setNode, if_neg hq]; exact ⟨rfl, fun _ => rfl⟩⟩

theorem mod1_set_touch (A : FS) (p : CPath) (n : Node) : Mod1 p A (touchDir (setNode A p n) (parent p)) := by
  refine ⟨by simp, fun q h => ?_, fun h => wf_touchDir _ (wf_setNode p n h), fun q hq => ?_⟩
  · rw [C15.dom_touchDir]; exact List.mem_cons_of_mem _ h
  · rw [get_touchDir]
    by_cases e : q = parent p
    · rw [if_pos e, touch_touch, get_setNode, ← e, if_neg hq]
      exact ⟨rfl, fun h => absurd rfl h⟩
    · rw [if_neg e, get_setNode, if_neg hq]; exact ⟨rfl, fun _ => rfl⟩

theorem snoc_ne (D : CPath) (x : Name) : D ≠ D ++ [x] := fun h => by
  have := congrArg List.length h; simp at this

theorem get_set_touch_self (A : FS) (D : CPath) (x : Name) (n : Node) :
    (touchDir (setNode A (D ++ [x]) n) D).get (D ++ [x]) = some n := by
  rw [get_touchDir, if_neg (Ne.symm (snoc_ne D x)), get_setNode, if_pos rfl]

/-! ### the calls of the copy, computed -/

theorem checkParent_snoc {A : FS} {D : CPath} {x : Name} (hD : A.isDirAt D = true) :
    checkParent A (D ++ [x]) = if x.length > 255 then .error .ENAMETOOLONG else .ok () := by
  obtain ⟨m, t, hg⟩ := isDirAt_get hD
  unfold checkParent
  simp only [List.getLast?_concat, parent, List.dropLast_concat, nameMax, hg]

theorem mkdir_eq {A : FS} {D : CPath} {x : Name} (m : Nat) (hD : A.isDirAt D = true)
    (hf : A.get (D ++ [x]) = none) :
    A.mkdir (D ++ [x]) m = if x.length > 255 then .error .ENAMETOOLONG
      else .ok (touchDir (setNode A (D ++ [x]) (.dir (applyUmask m) 0)) D) := by
  unfold FS.mkdir
  rw [checkParent_snoc hD]
  by_cases h : x.length > 255
  · simp [h, Bind.bind, Except.bind]
  · simp [h, Bind.bind, Except.bind, exists_, hf, parent]

theorem createTrunc_eq {A : FS} {D : CPath} {x : Name} (m : Nat) (hD : A.isDirAt D = true)
    (hf : A.get (D ++ [x]) = none) :
    A.createTrunc (D ++ [x]) m = if x.length > 255 then .error .ENAMETOOLONG
      else .ok (touchDir (setNode A (D ++ [x]) (.file [] (applyUmask m) 0)) D) := by
  unfold FS.createTrunc
  rw [checkParent_snoc hD]
  by_cases h : x.length > 255
  · simp [h, Bind.bind, Except.bind]
  · simp [h, Bind.bind, Except.bind, hf, parent]

theorem symlink_eq {A : FS} {D : CPath} {x : Name} (t : Bytes) (hD : A.isDirAt D = true)
    (hf : A.get (D ++ [x]) = none) :
    A.symlink t (D ++ [x]) = if x.length > 255 then .error .ENAMETOOLONG
      else .ok (touchDir (setNode A (D ++ [x]) (.link t)) D) := by
  unfold FS.symlink
  rw [checkParent_snoc hD]
  by_cases h : x.length > 255
  · simp [h, Bind.bind, Except.bind]
  · simp [h, Bind.bind, Except.bind, exists_, hf, parent]

theorem umask_777 : applyUmask 0o777 = 0o755 := by decide
theorem umask_666 : applyUmask 0o666 = 0o644 := by decide

/-- `makedirs` of a path whose parent is a directory is one `mkdir` -/
theorem run_makedirs (φ : Oracle) (f : Nat) (p : CPath) (m : Nat) (s : RunState)
    (h : s.fs.isDirAt (parent p) = true) : run φ (makedirs f p m) s = run φ (sys (.mkdir p m)) s := by
  cases f with
  | zero => rfl
  | succ f =>
    unfold makedirs
    rw [run_read_bind]
    have : existsC s.fs p.dropLast = true := existsC_of_dir h
    simp [this]


/-! ### `copystat` -/

def setT (t : Nat) : Node → Node
  | .file d m _ => .file d m t
  | .dir m _ => .dir m t
  | .link x => .link x
def setM (m : Nat) : Node → Node
  | .file d _ t => .file d m t
  | .dir _ t => .dir m t
  | .link x => .link x

theorem utime_ok {A : FS} {p : CPath} {np : Node} (t : Nat) (h : A.get p = some np) :
    ∃ B, A.utime p t = .ok B ∧ Mod1 p A B ∧ B.get p = some (setT t np) := by
  cases np with
  | file d m t' => exact ⟨setNode A p (.file d m t), by simp only [FS.utime, h], mod1_set _ _ _, by simp [setT]⟩
  | dir m t' => exact ⟨setNode A p (.dir m t), by simp only [FS.utime, h], mod1_set _ _ _, by simp [setT]⟩
  | link x => exact ⟨A, by simp only [FS.utime, h], Mod1.refl _ _, by simp [setT, h]⟩

theorem chmod_ok {A : FS} {p : CPath} {np : Node} (m : Nat) (h : A.get p = some np) :
    ∃ B, A.chmod p m = .ok B ∧ Mod1 p A B ∧ B.get p = some (setM m np) := by
  cases np with
  | file d m' t => exact ⟨setNode A p (.file d m t), by simp only [FS.chmod, h], mod1_set _ _ _, by simp [setM]⟩
  | dir m' t => exact ⟨setNode A p (.dir m t), by simp only [FS.chmod, h], mod1_set _ _ _, by simp [setM]⟩
  | link x => exact ⟨A, by simp only [FS.chmod, h], Mod1.refl _ _, by simp [setM, h]⟩

theorem copystat_spec {φ : Oracle} {s : RunState} {J : FS → Prop} {a p : CPath} {na np : Node} {m t : Nat}
    (hJ : ∀ A B, J A → Mod1 p A B → J B) (hs : J s.fs)
    (ha : s.fs.get a = some na) (hstat : (∃ da, na = .file da m t) ∨ na = .dir m t)
    (hp : s.fs.get p = some np) :
    Thru φ (copystat a p) s J
      (Post φ True fun B => B.get p = some (setM m (setT t np)) ∧ Mod1 p s.fs B) := by
  have main : Thru φ (sys (.utime p t) >>= fun r => match r with
      | .error e => pure (.error e)
      | .ok () => sys (.chmod p m)) s J
      (Post φ True fun B => B.get p = some (setM m (setT t np)) ∧ Mod1 p s.fs B) := by
    obtain ⟨B1, h1, m1, g1⟩ := utime_ok t hp
    refine Thru.bind (Q1 := Post φ True fun B => B = B1) ?_ ?_
    · exact Thru.sys_of_ok (fun _ _ e => by cases e) h1 hs (hJ _ _ hs m1) (Post.ok rfl)
        (fun e hq => Post.err fun h => hq h.1)
    · intro r s1 hq1 hj1
      cases r with
      | error e => exact Thru.pure _ hj1 ⟨fun h => (by cases h), hq1.2⟩
      | ok u =>
        have e1 : s1.fs = B1 := hq1.1 rfl
        obtain ⟨B2, h2, m2, g2⟩ := chmod_ok m (e1 ▸ g1 : s1.fs.get p = some (setT t np))
        refine Thru.sys_of_ok (fun _ _ e => by cases e) h2 hj1 (hJ _ _ hj1 m2) (Post.ok ⟨g2, ?_⟩)
          (fun e hq => Post.err fun h => hq h.1)
        exact m1.trans (e1 ▸ m2)
  unfold copystat
  refine Thru.read_bind ?_
  rcases hstat with ⟨da, rfl⟩ | rfl
  · rw [ha]; exact main
  · rw [ha]; exact main


/-! ### `copy2` onto a free name in a directory -/

theorem isdirC_free {A : FS} {p : CPath} (h : A.get p = none) : isdirC A p = false := by
  simp [isdirC, statC, followC, h]
theorem followC_free {A : FS} {p : CPath} (h : A.get p = none) : followC A p = some p := by
  simp [followC, h]

theorem copy2_spec {φ : Oracle} {s : RunState} {J : FS → Prop} {a D : CPath} {x : Name} {data : Bytes} {m t : Nat}
    (hJ : ∀ A B, J A → Mod1 (D ++ [x]) A B → J B) (hs : J s.fs)
    (ha : s.fs.get a = some (.file data m t)) (hf : s.fs.get (D ++ [x]) = none)
    (hD : s.fs.isDirAt D = true) :
    Thru φ (copy2 a (D ++ [x])) s J
      (Post φ (x.length ≤ 255) fun B => B.get (D ++ [x]) = some (.file data m t) ∧ Mod1 (D ++ [x]) s.fs B) := by
  have hne : a ≠ D ++ [x] := fun e => by rw [e, hf] at ha; cases ha
  have hnD : a ≠ D := fun e => by
    obtain ⟨m', t', hg⟩ := isDirAt_get hD
    rw [e, hg] at ha; cases ha
  unfold copy2
  refine Thru.read_bind ?_
  rw [ha]
  simp only [isdirC_free hf, Bool.false_eq_true, if_false, followC_free hf, Option.getD_some]
  have hct := createTrunc_eq (x := x) 0o666 hD hf
  by_cases hx : x.length > 255
  · rw [if_pos hx] at hct
    refine Thru.bind (Q1 := fun r _ => ∃ e, r = .error e) ?_ ?_
    · exact Thru.sys_of_err hct hs fun e => ⟨e, rfl⟩
    · rintro r s1 ⟨e, rfl⟩ hj1
      exact Thru.pure _ hj1 (Post.err fun h => by omega)
  · rw [if_neg hx, umask_666] at hct
    generalize hB1 : touchDir (setNode s.fs (D ++ [x]) (.file [] 0o644 0)) D = B1 at hct
    have m1 : Mod1 (D ++ [x]) s.fs B1 := by
      rw [← hB1]; have := mod1_set_touch s.fs (D ++ [x]) (.file [] 0o644 0)
      simpa [parent] using this
    have g1 : B1.get (D ++ [x]) = some (.file [] 0o644 0) := by rw [← hB1]; exact get_set_touch_self _ _ _ _
    refine Thru.bind (Q1 := Post φ True fun B => B = B1) ?_ ?_
    · exact Thru.sys_of_ok (fun _ _ e => by cases e) hct hs (hJ _ _ hs m1) (Post.ok rfl)
        (fun e hq => Post.err fun h => hq h.1)
    · intro r s1 hq1 hj1
      cases r with
      | error e => exact Thru.pure _ hj1 ⟨fun h => (by cases h), fun a _ => hq1.2 a trivial⟩
      | ok u =>
        have e1 : s1.fs = B1 := hq1.1 rfl
        -- the write
        refine Thru.bind (Q1 := Post φ True fun B => B.get (D ++ [x]) = some (.file data 0o644 0) ∧
            Mod1 (D ++ [x]) s.fs B) ?_ ?_
        · by_cases hd : data = []
          · rw [if_pos hd]
            exact Thru.pure _ hj1 (Post.ok ⟨by rw [e1, g1, hd], e1 ▸ m1⟩)
          · rw [if_neg hd]
            have hw : Call.apply s1.fs (.write (D ++ [x]) data) =
                .ok (setNode s1.fs (D ++ [x]) (.file ([] ++ data) 0o644 0)) := by
              simp only [Call.apply, FS.writeData, e1, g1]
            have m2 := mod1_set s1.fs (D ++ [x]) (.file ([] ++ data) 0o644 0)
            exact Thru.sys_of_ok (fun _ _ e => by cases e) hw hj1 (hJ _ _ hj1 m2)
              (Post.ok ⟨by simp, (e1 ▸ m1 : Mod1 _ s.fs s1.fs).trans m2⟩)
              (fun e hq => Post.err fun h => hq h.1)
        · intro w s2 hq2 hj2
          cases w with
          | error e => exact Thru.pure _ hj2 ⟨fun h => (by cases h), fun a _ => hq2.2 a trivial⟩
          | ok u =>
            obtain ⟨g2, m2⟩ := hq2.1 rfl
            have ha2 : s2.fs.get a = some (.file data m t) := by
              rw [((m2.get a hne).2 (by simpa [parent] using hnD)), ha]
            refine Thru.mono (copystat_spec (m := m) (t := t) hJ hj2 ha2 (Or.inl ⟨data, rfl⟩) g2) (fun _ h => h) ?_
            intro r B _ hp
            refine ⟨fun hr => ?_, fun a _ => hp.2 a trivial⟩
            obtain ⟨g3, m3⟩ := hp.1 hr
            exact ⟨by rw [g3]; rfl, m2.trans m3⟩


/-! ### `copytree` -/

/-- what `copytree c d` needs of the state it starts in: the tree at `c` is listed, tree-shaped and
    a directory; nothing is at or below `d`; `d`'s parent is a directory; `c` and `d` are apart -/
structure CtPre (A : FS) (c d : CPath) : Prop where
  listed : ∀ q, c <+: q → (A.get q).isSome = true → q ∈ A.dom
  closed : C15.Closed c A
  isDir : A.isDirAt c = true
  free : ∀ rel, A.get (d ++ rel) = none
  par : A.isDirAt (parent d) = true
  ap1 : ¬ c <+: d
  ap2 : ¬ d <+: c

/-- names at or below `c` fit NAME_MAX -/
def Short (A : FS) (c : CPath) : Prop :=
  ∀ q x, c <+: q → (A.get (q ++ [x])).isSome = true → x.length ≤ 255

/-- what makes `copytree` succeed when nothing is faulted -/
def CtH (A : FS) (c d : CPath) (fuel : Nat) : Prop :=
  Short A c ∧ (∀ n, d.getLast? = some n → n.length ≤ 255) ∧ C15.Fu fuel c A

theorem apart_away {c d q : CPath} (h1 : ¬ c <+: d) (h2 : ¬ d <+: c) (hq : c <+: q) :
    ¬ d <+: q ∧ q ≠ parent d :=
  ⟨fun h => (pfx_comparable h hq).elim h2 h1, fun e => h1 (hq.trans (e ▸ dropLast_pfx d))⟩

theorem Fr.src {A B : FS} {c d q : CPath} (h : Fr A d B) (h1 : ¬ c <+: d) (h2 : ¬ d <+: c) (hq : c <+: q) :
    B.get q = A.get q :=
  let ⟨a, b⟩ := apart_away h1 h2 hq
  (h.get q a).2 b

theorem sib_away {d : CPath} {x x' : Name} (rel : CPath) (h : x ≠ x') :
    ¬ d ++ [x'] <+: d ++ [x] ++ rel ∧ d ++ [x] ++ rel ≠ parent (d ++ [x']) := by
  refine ⟨fun hp => ?_, fun e => ?_⟩
  · rw [List.append_assoc, List.prefix_append_right_inj] at hp
    obtain ⟨t, ht⟩ := hp
    simp only [List.cons_append, List.nil_append, List.cons.injEq] at ht
    exact h ht.1.symm
  · have := congrArg List.length e
    simp [parent] at this

theorem below_ne {d : CPath} (x : Name) (rel : CPath) : d ++ [x] ++ rel ≠ d ∧ d ++ [x] ++ rel ≠ parent d := by
  refine ⟨fun e => ?_, fun e => ?_⟩
  · have := congrArg List.length e; simp at this
  · have := congrArg List.length e; simp [parent] at this; omega

/-- the invariant of the loop over the entries of `c`: `cs` is still to be copied -/
structure Loop (A : FS) (c d : CPath) (cs : List CPath) (failed : Bool) (B : FS) : Prop where
  dDir : B.isDirAt d = true
  todo : ∀ x rel, c ++ [x] ∈ cs → B.get (d ++ [x] ++ rel) = none
  done : failed = false → ∀ x rel, c ++ [x] ∉ cs → B.get (d ++ [x] ++ rel) = A.get (c ++ [x] ++ rel)

def isErr : Res → Bool
  | .ok () => false
  | .error _ => true

theorem loop_step {A B B' : FS} {c d : CPath} {x' : Name} {cs : List CPath} {failed : Bool} {r : Res}
    (hl : Loop A c d ((c ++ [x']) :: cs) failed B) (hnd : c ++ [x'] ∉ cs)
    (hfr : Fr B (d ++ [x']) B')
    (hc : r = .ok () → ∀ rel, B'.get (d ++ [x'] ++ rel) = A.get (c ++ [x'] ++ rel)) :
    Loop A c d cs (failed || isErr r) B' := by
  have keep : ∀ x rel, x ≠ x' → B'.get (d ++ [x] ++ rel) = B.get (d ++ [x] ++ rel) := fun x rel hx =>
    let ⟨a, b⟩ := sib_away (d := d) rel hx
    (hfr.get _ a).2 b
  refine ⟨?_, fun x rel hm => ?_, fun hf x rel hm => ?_⟩
  · rw [hfr.isDirAt (fun h => by have := h.length_le; simp at this; omega)]; exact hl.dDir
  · have hx : x ≠ x' := fun e => hnd (e ▸ hm)
    rw [keep x rel hx]; exact hl.todo x rel (List.mem_cons_of_mem _ hm)
  · simp only [Bool.or_eq_false_iff] at hf
    obtain ⟨hf1, hf2⟩ := hf
    by_cases hx : x = x'
    · subst hx
      refine hc ?_ rel
      cases r with
      | ok u => rfl
      | error e => simp [isErr] at hf2
    · rw [keep x rel hx]
      refine hl.done hf1 x rel fun hm' => ?_
      rcases List.mem_cons.1 hm' with e | e
      · exact hx (by simpa using (List.append_inj' e rfl).2)
      · exact hm e

theorem concat_pfx_concat {c d : CPath} {x : Name} (h : c ++ [x] <+: d ++ [x]) : c <+: d := by
  rcases pfx_concat.1 h with e | e
  · rw [(List.append_inj' e rfl).1]; exact List.prefix_refl _
  · exact (List.prefix_append c [x]).trans e

theorem isDirAt_of_get {A : FS} {p : CPath} {m t : Nat} (h : A.get p = some (.dir m t)) : A.isDirAt p = true := by
  simp [isDirAt, h, Node.isDir]

/-- nothing below a path that holds no directory, in a tree-shaped state -/
theorem below_nondir {A : FS} {c c' : CPath} (hcl : C15.Closed c A) (hc : c <+: c') (hnd : A.isDirAt c' = false)
    (rel : CPath) (hr : rel ≠ []) : A.get (c' ++ rel) = none :=
  C15.nothing_below hcl hc hnd ⟨List.prefix_append _ _, by
    have : rel.length ≠ 0 := by simpa using hr
    simp; omega⟩


/-- a file or link copied onto the free name `d'`: the (one-node) tree is complete there -/
theorem leaf_complete {A B X : FS} {c c' d' : CPath} (hcl : C15.Closed c A) (hc : c <+: c')
    (hnd : A.isDirAt c' = false) (hfree : ∀ rel, B.get (d' ++ rel) = none) (md : Mod1 d' B X)
    (g : X.get d' = A.get c') : ∀ rel, X.get (d' ++ rel) = A.get (c' ++ rel) := by
  intro rel
  by_cases hrel : rel = []
  · subst hrel; simpa using g
  · rw [below_nondir hcl hc hnd _ hrel]
    have h1 : d' ++ rel ≠ d' := fun e => hrel (by simpa using e)
    have h2 : d' ++ rel ≠ parent d' := fun e => by
      have := congrArg List.length e
      have hl : rel.length ≠ 0 := by simpa using hrel
      simp [parent] at this; omega
    rw [(md.get _ h1).2 h2]; exact hfree rel

/-- the specification of `copytree fuel` (the induction hypothesis of the loop) -/
def CtSpec (φ : Oracle) (fuel : Nat) : Prop :=
  ∀ (c d : CPath) (s : RunState), CtPre s.fs c d →
    Thru φ (copytree fuel c d) s (Fr s.fs d)
      (Post φ (CtH s.fs c d fuel) fun B => ∀ rel, B.get (d ++ rel) = s.fs.get (c ++ rel))

theorem go_spec {φ : Oracle} {fuel : Nat} (ih : CtSpec φ fuel) {A : FS} {c d : CPath} (hpre : CtPre A c d) :
    ∀ (cs : List CPath) (failed : Bool) (s : RunState), Fr A d s.fs → Loop A c d cs failed s.fs → cs.Nodup →
      (∀ c' ∈ cs, ∃ x, c' = c ++ [x] ∧ (A.get c').isSome = true) →
      Thru φ (copytree.go fuel d cs failed) s (Fr A d)
        (fun f B => B.isDirAt d = true ∧
          (f = false → ∀ x rel, B.get (d ++ [x] ++ rel) = A.get (c ++ [x] ++ rel)) ∧
          (Quiet φ → failed = false → Short A c → (∀ c' ∈ cs, C15.Fu fuel c' A) → f = false)) := by
  intro cs
  induction cs with
  | nil =>
    intro failed s hfr hl _ _
    unfold copytree.go
    exact Thru.pure _ hfr ⟨hl.dDir, fun hf x rel => hl.done hf x rel (by simp), fun _ hf _ _ => hf⟩
  | cons c' cs ihc =>
    intro failed s hfr hl hnd hcs
    obtain ⟨x', rfl, hsome⟩ := hcs _ List.mem_cons_self
    have hnd' := (List.nodup_cons.1 hnd)
    have hcc : c <+: c ++ [x'] := List.prefix_append _ _
    have hgc : s.fs.get (c ++ [x']) = A.get (c ++ [x']) := hfr.src hpre.ap1 hpre.ap2 hcc
    have hfree : ∀ rel, s.fs.get (d ++ [x'] ++ rel) = none := fun rel => hl.todo x' rel List.mem_cons_self
    have hfree0 : s.fs.get (d ++ [x']) = none := by simpa using hfree []
    have hx' : Short A c → x'.length ≤ 255 := fun hs => hs c x' (List.prefix_refl _) hsome
    have hJ : ∀ X Y, Fr s.fs (d ++ [x']) X → Mod1 (d ++ [x']) X Y → Fr s.fs (d ++ [x']) Y :=
      fun X Y h1 h2 => Fr.sub h1 (List.prefix_refl _) h2.fr
    unfold copytree.go
    refine Thru.read_bind ?_
    simp only [List.getLast?_concat, Option.getD_some]
    refine Thru.bind (Q1 := fun r B => Fr s.fs (d ++ [x']) B ∧
        Post φ (Short A c ∧ C15.Fu fuel (c ++ [x']) A)
          (fun B => ∀ rel, B.get (d ++ [x'] ++ rel) = A.get (c ++ [x'] ++ rel)) r B) ?child ?cont
    case child =>
      refine Thru.mono (J' := Fr s.fs (d ++ [x'])) ?_ (fun X h => Fr.sub hfr (List.prefix_append _ _) h)
        (fun r X hj hq => ⟨hj, hq⟩)
      rw [hgc]
      rcases hA : A.get (c ++ [x']) with _ | (⟨data, m, t⟩ | ⟨m, t⟩ | t)
      · rw [hA] at hsome; cases hsome
      · show Thru φ (copy2 (c ++ [x']) (d ++ [x'])) s _ _
        have hnd2 : A.isDirAt (c ++ [x']) = false := by simp [isDirAt, hA, Node.isDir]
        refine Thru.mono (copy2_spec hJ (Fr.refl _ _) (hgc.trans hA) hfree0 hl.dDir) (fun _ h => h) ?_
        intro r X _ hp
        refine ⟨fun hr => ?_, fun hq hH => hp.2 hq (hx' hH.1)⟩
        obtain ⟨g, md⟩ := hp.1 hr
        exact leaf_complete hpre.closed hcc hnd2 hfree md (g.trans hA.symm)
      · show Thru φ (copytree fuel (c ++ [x']) (d ++ [x'])) s _ _
        have hsame : ∀ q, c <+: q → s.fs.get q = A.get q := fun q hq => hfr.src hpre.ap1 hpre.ap2 hq
        have hdsame : ∀ q, c <+: q → s.fs.isDirAt q = A.isDirAt q := fun q hq => by
          unfold isDirAt; rw [hsame q hq]
        have hp' : CtPre s.fs (c ++ [x']) (d ++ [x']) :=
          { listed := fun q hq hs => hfr.dom q (hpre.listed q (hcc.trans hq) (by
              rw [← hsame q (hcc.trans hq)]; exact hs))
            closed := fun q x hq hs => by
              rw [hdsame q (hcc.trans hq)]
              exact hpre.closed q x (hcc.trans hq) (by
                rw [← hsame _ ((hcc.trans hq).trans (List.prefix_append _ _))]; exact hs)
            isDir := by rw [hdsame _ hcc]; exact isDirAt_of_get hA
            free := hfree
            par := by simpa [parent] using hl.dDir
            ap1 := fun h => hpre.ap1 (concat_pfx_concat h)
            ap2 := fun h => hpre.ap2 (concat_pfx_concat h) }
        refine Thru.mono (ih _ _ s hp') (fun _ h => h) ?_
        intro r X _ hp
        refine ⟨fun hr rel => ?_, fun hq hH => hp.2 hq ⟨?_, ?_, ?_⟩⟩
        · rw [hp.1 hr rel, hsame _ (hcc.trans (List.prefix_append _ _))]
        · intro q x hq hs
          exact hH.1 q x (hcc.trans hq) (by
            rw [← hsame _ ((hcc.trans hq).trans (List.prefix_append _ _))]; exact hs)
        · intro n hn
          simp only [List.getLast?_concat, Option.some.injEq] at hn
          subst hn; exact hx' hH.1
        · intro q hq hdq
          exact hH.2 q hq (by rw [← hdsame q (hcc.trans hq)]; exact hdq)
      · show Thru φ (sys (.symlink t (d ++ [x']))) s _ _
        have hnd2 : A.isDirAt (c ++ [x']) = false := by simp [isDirAt, hA, Node.isDir]
        have hsl := symlink_eq (x := x') t hl.dDir hfree0
        by_cases hx : x'.length > 255
        · rw [if_pos hx] at hsl
          exact Thru.sys_of_err hsl (Fr.refl _ _) fun e => Post.err fun h => by
            have := hx' h.2.1; omega
        · rw [if_neg hx] at hsl
          have md : Mod1 (d ++ [x']) s.fs (touchDir (setNode s.fs (d ++ [x']) (.link t)) d) := by
            simpa [parent] using mod1_set_touch s.fs (d ++ [x']) (.link t)
          refine Thru.sys_of_ok (fun _ _ e => by cases e) hsl (Fr.refl _ _) md.fr (Post.ok ?_)
            (fun e hq => Post.err fun h => hq h.1)
          exact leaf_complete hpre.closed hcc hnd2 hfree md ((get_set_touch_self _ _ _ _).trans hA.symm)
    case cont =>
      rintro r s1 ⟨hfr1, hq1⟩ hj1
      have hl1 := loop_step hl hnd'.1 hfr1 hq1.1
      show Thru φ (copytree.go fuel d cs (failed || isErr r)) s1 _ _
      refine Thru.mono (ihc _ s1 hj1 hl1 hnd'.2 (fun c'' h => hcs c'' (List.mem_cons_of_mem _ h)))
        (fun _ h => h) ?_
      rintro f X _ ⟨h1, h2, h3⟩
      refine ⟨h1, h2, fun hq hf hs hfu => h3 hq ?_ hs (fun c'' h => hfu c'' (List.mem_cons_of_mem _ h))⟩
      have hr := hq1.2 hq ⟨hs, hfu _ List.mem_cons_self⟩
      rw [hf, hr]; rfl

theorem mem_entries {A : FS} {c c' : CPath} (h : c' ∈ sortedChildren A c) :
    ∃ x, c' = c ++ [x] ∧ (A.get c').isSome = true := by
  obtain ⟨_, hl, ⟨t, rfl⟩, hs⟩ := mem_sortedChildren.1 h
  have : t.length = 1 := by simp at hl; omega
  obtain ⟨x, rfl⟩ := List.length_eq_one_iff.1 this
  exact ⟨x, rfl, hs⟩

theorem copytree_spec (φ : Oracle) : ∀ fuel, CtSpec φ fuel := by
  intro fuel
  induction fuel with
  | zero =>
    intro c d s hpre
    unfold copytree
    refine Thru.pure _ (Fr.refl _ _) (Post.err fun h => ?_)
    have := h.2.2.2 c (List.prefix_refl _) hpre.isDir
    omega
  | succ fuel ih =>
    intro c d s hpre
    have hd0 : d ≠ [] := by
      rintro rfl
      obtain ⟨m, t, hg⟩ := isDirAt_get hpre.par
      have := hpre.free []
      simp [parent] at hg this
      rw [hg] at this; cases this
    obtain ⟨D, x0, rfl⟩ := C07.exists_snoc hd0
    have hD : s.fs.isDirAt D = true := by simpa [parent] using hpre.par
    have hfree0 : s.fs.get (D ++ [x0]) = none := by simpa using hpre.free []
    obtain ⟨mc, tc, hgc⟩ := isDirAt_get hpre.isDir
    have hJ : ∀ X Y, Fr s.fs (D ++ [x0]) X → Mod1 (D ++ [x0]) X Y → Fr s.fs (D ++ [x0]) Y :=
      fun X Y h1 h2 => Fr.sub h1 (List.prefix_refl _) h2.fr
    have hmk := mkdir_eq (x := x0) 0o777 hD hfree0
    have hrun := run_makedirs φ (D ++ [x0]).length (D ++ [x0]) 0o777 s hpre.par
    unfold copytree
    refine Thru.read_bind ?_
    by_cases hx : x0.length > 255
    · rw [if_pos hx] at hmk
      refine Thru.bind (Q1 := fun r _ => ∃ e, r = .error e)
        (Thru.congr hrun (Thru.sys_of_err hmk (Fr.refl _ _) fun e => ⟨e, rfl⟩)) ?_
      rintro r s1 ⟨e, rfl⟩ hj1
      exact Thru.pure _ hj1 (Post.err fun h => by have := h.2.2.1 x0 (by simp); omega)
    · rw [if_neg hx, umask_777] at hmk
      generalize hB1 : touchDir (setNode s.fs (D ++ [x0]) (.dir 0o755 0)) D = B1 at hmk
      have m1 : Mod1 (D ++ [x0]) s.fs B1 := by
        rw [← hB1]; simpa [parent] using mod1_set_touch s.fs (D ++ [x0]) (.dir 0o755 0)
      have g1 : B1.get (D ++ [x0]) = some (.dir 0o755 0) := by rw [← hB1]; exact get_set_touch_self _ _ _ _
      refine Thru.bind (Q1 := Post φ True fun B => B = B1)
        (Thru.congr hrun (Thru.sys_of_ok (fun _ _ e => by cases e) hmk (Fr.refl _ _) m1.fr (Post.ok rfl)
          (fun e hq => Post.err fun h => hq h.1))) ?_
      intro r s1 hq1 hj1
      cases r with
      | error e => exact Thru.pure _ hj1 ⟨fun h => (by cases h), fun a _ => hq1.2 a trivial⟩
      | ok u =>
        have e1 : s1.fs = B1 := hq1.1 rfl
        have hloop : Loop s.fs c (D ++ [x0]) (sortedChildren s.fs c) false s1.fs := by
          have keep : ∀ x rel, s1.fs.get (D ++ [x0] ++ [x] ++ rel) = none := fun x rel => by
            rw [e1, (m1.get _ (below_ne x rel).1).2 (below_ne x rel).2, List.append_assoc (D ++ [x0])]
            exact hpre.free _
          refine ⟨by rw [e1]; exact isDirAt_of_get g1, fun x rel _ => keep x rel, fun _ x rel hm => ?_⟩
          rw [keep x rel]
          have hnone : s.fs.get (c ++ [x]) = none := by
            cases hg : s.fs.get (c ++ [x]) with
            | none => rfl
            | some nd =>
              have hs : (s.fs.get (c ++ [x])).isSome = true := by rw [hg]; rfl
              exact absurd (mem_sortedChildren.2 ⟨hpre.listed _ (List.prefix_append _ _) hs, by simp,
                List.prefix_append _ _, hs⟩) hm
          by_cases hrel : rel = []
          · subst hrel; simpa using hnone.symm
          · exact (below_nondir hpre.closed (List.prefix_append _ _) (isDirAt_of_get_none hnone) rel hrel).symm
        refine Thru.bind (go_spec ih hpre _ false s1 hj1 hloop (nodup_sortedChildren _ _)
          (fun c' h => mem_entries h)) ?_
        rintro f s2 ⟨hd2, hc2, hs2⟩ hj2
        have hgc2 : s2.fs.get c = some (.dir mc tc) :=
          (hj2.src hpre.ap1 hpre.ap2 (List.prefix_refl _)).trans hgc
        obtain ⟨m2, t2, hgd2⟩ := isDirAt_get hd2
        refine Thru.bind (copystat_spec (m := mc) (t := tc) hJ hj2 hgc2 (Or.inr rfl) hgd2) ?_
        intro r3 s3 hq3 hj3
        cases r3 with
        | error e => exact Thru.pure _ hj3 ⟨fun h => (by cases h), fun a _ => (by cases hq3.2 a trivial)⟩
        | ok u =>
          obtain ⟨g3, m3⟩ := hq3.1 rfl
          have hfu : ∀ c' ∈ sortedChildren s.fs c, C15.Fu (fuel + 1) c s.fs → C15.Fu fuel c' s.fs := by
            intro c' hc' hf q hq hdq
            obtain ⟨_, hl, hp, _⟩ := mem_sortedChildren.1 hc'
            have := hf q (hp.trans hq) hdq
            omega
          cases f with
          | true =>
            refine Thru.pure _ hj3 (Post.err fun h => ?_)
            have := hs2 h.1 rfl h.2.1 (fun c' hc' => hfu c' hc' h.2.2.2)
            cases this
          | false =>
            refine Thru.pure _ hj3 (Post.ok fun rel => ?_)
            cases rel with
            | nil => simpa [hgc, setM, setT] using g3
            | cons x rel =>
              have e : D ++ [x0] ++ x :: rel = D ++ [x0] ++ [x] ++ rel := by simp
              have e' : c ++ x :: rel = c ++ [x] ++ rel := by simp
              rw [e, e', (m3.get _ (below_ne x rel).1).2 (below_ne x rel).2]
              exact hc2 rfl x rel


/-! ### `rmtree` -/

theorem Thru.sys_any {φ : Oracle} {s : RunState} {J : FS → Prop} {c : Call} {Q : Res → FS → Prop}
    (hJ : J s.fs) (hE : ∀ e, Q (.error e) s.fs) (hO : ∀ B, c.apply s.fs = .ok B → J B ∧ Q (.ok ()) B) :
    Thru φ (sys c) s J Q := by
  unfold Thru
  rcases C17.sys_cases φ c s with ⟨e, hr⟩ | ⟨fs', _, ha, hr⟩
  · rw [hr]
    exact ⟨hE e, hJ, fun x hx => by
      rcases List.mem_cons.1 hx with rfl | hx
      · exact Or.inr hJ
      · exact Or.inl hx⟩
  · rw [hr]
    exact ⟨(hO fs' ha).2, (hO fs' ha).1, fun x hx => by
      rcases List.mem_cons.1 hx with rfl | hx
      · exact Or.inr hJ
      · exact Or.inl hx⟩

theorem Thru.and_result {α} {φ : Oracle} {s : RunState} {J : FS → Prop} {p : Prog α} {Q : α → FS → Prop}
    {P : α → Prop} (h : Thru φ p s J Q) (hP : P (run φ p s).1) : Thru φ p s J (fun r B => Q r B ∧ P r) :=
  ⟨⟨h.1, hP⟩, h.2⟩

/-- a program that issues no rename runs under a quiet oracle as it does without faults -/
theorem run_quiet {α} {φ : Oracle} (hq : Quiet φ) {K : Call → Prop} (hK : ∀ c, K c → ∀ a b, c ≠ .rename a b) :
    ∀ (p : Prog α) (s : RunState), Iss InvT K p → run φ p s = run noFaults p s := by
  intro p
  induction p with
  | ret a => intro s _; rfl
  | get k ih => intro s hp; simp only [run]; exact ih _ s (hp _ trivial)
  | emit o k ih => intro s hp; simp only [run]; exact ih _ hp
  | call c k ih =>
    intro s hp
    simp only [run]
    rw [hq _ _ c (hK c hp.1)]
    simp only [noFaults]
    split
    · exact ih _ _ (hp.2 _)
    · exact ih _ _ (hp.2 _)

/-- the frame of the removal phase, relative to the state `B0` it starts in -/
def RmFr (B0 : FS) (src : CPath) (x : FS) : Prop :=
  ∀ q, ¬ src <+: q → touch (x.get q) = touch (B0.get q) ∧ (q ≠ parent src → x.get q = B0.get q)

def ListedUnder (src : CPath) (x : FS) : Prop := ∀ q, src <+: q → (x.get q).isSome = true → q ∈ x.dom

theorem rm_keep (B0 : FS) (src : CPath) :
    ∀ c, KR (U src) c → ∀ fs fs', (RmFr B0 src fs ∧ ListedUnder src fs) → c.apply fs = .ok fs' →
      (RmFr B0 src fs' ∧ ListedUnder src fs') := by
  intro c hc fs fs' ⟨h1, h2⟩ h
  obtain ⟨r, hr, rfl, _⟩ := apply_rm hc h
  refine ⟨fun q hq => ⟨?_, fun hp => ?_⟩, fun q hq hs => ?_⟩
  · rw [rm_get_touch fs (fun e => hq (by rw [e]; exact hr))]; exact (h1 q hq).1
  · obtain ⟨a, b⟩ := away_of_not_under hq hp hr
    rw [rm_get_other fs a b]; exact (h1 q hq).2 hp
  · rw [C15.dom_touchDir]; exact h2 q hq (C15.isSome_of_rm hs)

theorem rmtree_spec {φ : Oracle} {s : RunState} {src : CPath} {m t : Nat}
    (hg : s.fs.get src = some (.dir m t)) (hl : ListedUnder src s.fs) :
    Thru φ (rmtree src) s (RmFr s.fs src)
      (Post φ (C15.G src s.fs) fun B => ∀ rel, B.get (src ++ rel) = none) := by
  have hsucc : Quiet φ → C15.G src s.fs → (run φ (rmtree src) s).1 = .ok () := by
    intro hq hG
    rw [run_quiet hq (K := KR (U src)) (fun c hc a b e => by
      obtain ⟨r, h | h, _⟩ := hc <;> rw [h] at e <;> cases e) _ s (iss_rmtree src)]
    exact C15.rmtree_ok src s hG (isDirAt_of_get hg)
  suffices h : Thru φ (rmtree src) s (RmFr s.fs src) (fun r B => r = .ok () → ∀ rel, B.get (src ++ rel) = none) from
    ⟨⟨h.1, hsucc⟩, h.2⟩
  have hJ0 : RmFr s.fs src s.fs ∧ ListedUnder src s.fs := ⟨fun _ _ => ⟨rfl, fun _ => rfl⟩, hl⟩
  unfold rmtree
  refine Thru.read_bind ?_
  rw [hg]
  simp only []
  refine Thru.mono (J' := fun x => RmFr s.fs src x ∧ ListedUnder src x) ?_ (fun _ h => h.1) (fun _ _ _ h => h)
  refine Thru.bind (Q1 := fun _ _ => True) (Thru.of_iss (rm_keep s.fs src)
    (Iss.mono (fun _ => KR.mono fun r hr => hr.1) (iss_rmInner _ src)) hJ0) ?_
  intro r s1 _ hj1
  cases r with
  | error e => exact Thru.pure _ hj1 (fun h => by cases h)
  | ok u =>
    refine Thru.sys_any hj1 (fun e h => by cases h) fun B hB => ?_
    refine ⟨rm_keep s.fs src _ (kr_rmdir (List.prefix_refl src)) _ _ hj1 hB, fun _ rel => ?_⟩
    obtain ⟨r, hr, e, hsome, hcase⟩ := apply_rm (A := fun r => r = src) ⟨src, Or.inr rfl, rfl⟩ hB
    subst hr
    rcases hcase with ⟨h, _⟩ | ⟨_, _, _, hch⟩
    · cases h
    · rw [e]
      by_cases hrel : rel = []
      · subst hrel; simpa using rm_get_self s1.fs r
      · have hlen : rel.length ≠ 0 := by simpa using hrel
        have h1 : r ++ rel ≠ r := fun e => hrel (by simpa using e)
        have h2 : r ++ rel ≠ parent r := fun e => by
          have := congrArg List.length e
          simp [parent] at this; omega
        rw [rm_get_other _ h1 h2]
        cases hgq : s1.fs.get (r ++ rel) with
        | none => rfl
        | some nd =>
          have hs : (s1.fs.get (r ++ rel)).isSome = true := by rw [hgq]; rfl
          have := C15.hasChildren_false hch (hj1.2 _ (List.prefix_append _ _) hs)
            ⟨List.prefix_append _ _, by simp; omega⟩
          rw [this] at hgq; cases hgq


/-! ### `move`, copy fallback -/

/-- the rename of `move` fails in the run state `s`: faulted by the oracle, or refused -/
def RenFailsAt (φ : Oracle) (s : RunState) (src dst : CPath) : Prop :=
  (∃ e, φ s.n (kindCount s.trace (Call.rename src dst).kind) (.rename src dst) = some e) ∨
  ∃ e, s.fs.rename src dst = .error e

theorem rename_thru {φ : Oracle} {s : RunState} {J : FS → Prop} {src dst : CPath}
    (h : RenFailsAt φ s src dst) (hJ : J s.fs) :
    Thru φ (sys (.rename src dst)) s J (fun r B => (∃ e, r = .error e) ∧ B = s.fs) := by
  rcases h with ⟨e, h⟩ | ⟨e, h⟩
  · unfold Thru
    rw [C17.run_sys_fault φ _ s e h]
    exact ⟨⟨⟨e, rfl⟩, rfl⟩, hJ, fun x hx => by
      rcases List.mem_cons.1 hx with rfl | hx
      · exact Or.inr hJ
      · exact Or.inl hx⟩
  · exact Thru.sys_of_err (c := .rename src dst) h hJ fun e' => ⟨⟨e', rfl⟩, rfl⟩

theorem rename_err_of_dev {A : FS} {src dst : CPath} (h : A.dev (parent src) ≠ A.dev (parent dst)) :
    ∃ e, A.rename src dst = .error e := by
  unfold FS.rename
  cases A.get src with
  | none => exact ⟨_, rfl⟩
  | some na =>
    simp only []
    by_cases hm : A.isMount src = true
    · rw [if_pos hm]; exact ⟨_, rfl⟩
    · rw [if_neg hm, if_pos h]; exact ⟨_, rfl⟩

/-- the setting, on `<+:` -/
structure MvPre (A : FS) (src dst : CPath) : Prop where
  some : (A.get src).isSome = true
  listed : ListedUnder src A
  closed : C15.Closed src A
  free : ∀ rel, A.get (dst ++ rel) = none
  par : A.isDirAt (parent dst) = true
  ap1 : ¬ src <+: dst
  ap2 : ¬ dst <+: src

def MvH (A : FS) (src dst : CPath) : Prop :=
  C15.Wf A ∧ Short A src ∧ (∀ n, dst.getLast? = some n → n.length ≤ 255) ∧ C15.NoMnt src A

/-- the crash invariant, on `<+:` and `touch` -/
def CrashJ (A : FS) (src dst : CPath) (x : FS) : Prop :=
  (((∀ rel, x.get (src ++ rel) = A.get (src ++ rel)) ∧ ∀ q, ¬ dst <+: q → q ≠ parent dst → x.get q = A.get q) ∨
    (∀ rel, x.get (dst ++ rel) = A.get (src ++ rel))) ∧
  ∀ q, ¬ src <+: q → ¬ dst <+: q →
    touch (x.get q) = touch (A.get q) ∧ (q ≠ parent src → q ≠ parent dst → x.get q = A.get q)

theorem crashJ_of_fr {A x : FS} {src dst : CPath} (hp : MvPre A src dst) (h : Fr A dst x) : CrashJ A src dst x :=
  ⟨Or.inl ⟨fun _ => h.src hp.ap1 hp.ap2 (List.prefix_append _ _), fun q hq hpd => (h.get q hq).2 hpd⟩,
    fun q _ hd => ⟨(h.get q hd).1, fun _ hpd => (h.get q hd).2 hpd⟩⟩

theorem crashJ_of_rm {A B0 x : FS} {src dst : CPath} (hp : MvPre A src dst) (h : Fr A dst B0)
    (hw : ∀ rel, B0.get (dst ++ rel) = A.get (src ++ rel)) (hr : RmFr B0 src x) : CrashJ A src dst x := by
  refine ⟨Or.inr fun rel => ?_, fun q hs hd => ⟨?_, fun h1 h2 => ?_⟩⟩
  · obtain ⟨a, b⟩ := apart_away hp.ap2 hp.ap1 (List.prefix_append dst rel)
    rw [(hr _ a).2 b]; exact hw rel
  · rw [(hr q hs).1]; exact (h.get q hd).1
  · rw [(hr q hs).2 h1]; exact (h.get q hd).2 h2

theorem rmfr_rm (B : FS) (src : CPath) : RmFr B src (touchDir (removeNode B src) (parent src)) := by
  intro q hq
  have hne : q ≠ src := fun e => hq (e ▸ List.prefix_refl _)
  exact ⟨rm_get_touch B hne, fun hp => rm_get_other B hne hp⟩

theorem unlink_tail {φ : Oracle} {A : FS} {src dst : CPath} {s1 : RunState} (hp : MvPre A src dst)
    (hnd : A.isDirAt src = false) (hfr : Fr A dst s1.fs)
    (hw : ∀ rel, s1.fs.get (dst ++ rel) = A.get (src ++ rel)) :
    Thru φ (sys (.unlink src)) s1 (CrashJ A src dst) (Post φ True fun B => ∀ rel, B.get (src ++ rel) = none) := by
  have hsame : ∀ rel, s1.fs.get (src ++ rel) = A.get (src ++ rel) := fun rel =>
    hfr.src hp.ap1 hp.ap2 (List.prefix_append _ _)
  have hul : Call.apply s1.fs (.unlink src) = .ok (touchDir (removeNode s1.fs src) (parent src)) := by
    have h0 := hsame []
    simp only [List.append_nil] at h0
    simp only [Call.apply, FS.unlink, h0]
    rcases hg : A.get src with _ | (_ | _ | _)
    · have := hp.some; rw [hg] at this; cases this
    · rfl
    · simp [isDirAt, hg, Node.isDir] at hnd
    · rfl
  refine Thru.sys_of_ok (fun _ _ e => by cases e) hul (crashJ_of_fr hp hfr)
    (crashJ_of_rm hp hfr hw (rmfr_rm _ _)) (Post.ok fun rel => ?_) (fun e hq => Post.err fun h => hq h.1)
  by_cases hrel : rel = []
  · subst hrel; simpa using rm_get_self s1.fs src
  · have hlen : rel.length ≠ 0 := by simpa using hrel
    have h1 : src ++ rel ≠ src := fun e => hrel (by simpa using e)
    have h2 : src ++ rel ≠ parent src := fun e => by
      have := congrArg List.length e
      simp [parent] at this; omega
    rw [rm_get_other _ h1 h2, hsame rel]
    exact below_nondir hp.closed (List.prefix_refl _) hnd rel hrel


theorem move_copy_thru {φ : Oracle} {s : RunState} {src dst : CPath} (hp : MvPre s.fs src dst)
    (hren : RenFailsAt φ s src dst) :
    Thru φ (move src dst) s (CrashJ s.fs src dst)
      (Post φ (MvH s.fs src dst) fun B => ∀ rel, B.get (src ++ rel) = none) := by
  have hfree0 : s.fs.get dst = none := by simpa using hp.free []
  have hd0 : dst ≠ [] := by
    rintro rfl
    obtain ⟨m, t, hg⟩ := isDirAt_get hp.par
    simp [parent] at hg
    rw [hg] at hfree0; cases hfree0
  obtain ⟨D, x0, rfl⟩ := C07.exists_snoc hd0
  have hD : s.fs.isDirAt D = true := by simpa [parent] using hp.par
  have hJ0 : CrashJ s.fs src (D ++ [x0]) s.fs := crashJ_of_fr hp (Fr.refl _ _)
  have hJm : ∀ X Y, Fr s.fs (D ++ [x0]) X → Mod1 (D ++ [x0]) X Y → Fr s.fs (D ++ [x0]) Y :=
    fun X Y h1 h2 => Fr.sub h1 (List.prefix_refl _) h2.fr
  unfold move
  refine Thru.read_bind ?_
  simp only [isdirC_free hfree0, Bool.false_eq_true, false_and, if_false]
  refine Thru.bind (rename_thru hren hJ0) ?_
  rintro r s1 ⟨⟨e, rfl⟩, e1⟩ _
  simp only []
  refine Thru.read_bind ?_
  rw [e1]
  -- from here on `s1` is as `s`, as far as the file system goes
  have hp1 : MvPre s1.fs src (D ++ [x0]) := e1 ▸ hp
  rcases hA : s.fs.get src with _ | (⟨data, m, t⟩ | ⟨m, t⟩ | t)
  · have := hp.some; rw [hA] at this; cases this
  · -- a regular file: copy2, then unlink
    show Thru φ (copy2 src (D ++ [x0]) >>= _) s1 _ _
    have hnd : s.fs.isDirAt src = false := by simp [isDirAt, hA, Node.isDir]
    refine Thru.bind (Q1 := fun r B => Fr s.fs (D ++ [x0]) B ∧
        Post φ (x0.length ≤ 255) (fun B => ∀ rel, B.get (D ++ [x0] ++ rel) = s.fs.get (src ++ rel)) r B) ?_ ?_
    · refine Thru.mono (copy2_spec (J := Fr s.fs (D ++ [x0])) hJm (e1 ▸ Fr.refl _ _) (e1 ▸ hA)
        (e1 ▸ hfree0) (e1 ▸ hD)) (fun _ h => crashJ_of_fr hp h) ?_
      intro r X hj hq
      refine ⟨hj, fun hr => ?_, hq.2⟩
      obtain ⟨g, md⟩ := hq.1 hr
      exact leaf_complete hp.closed (List.prefix_refl _) hnd hp.free (e1 ▸ md) (g.trans hA.symm)
    · rintro r s2 ⟨hfr2, hq2⟩ _
      cases r with
      | error e =>
        exact Thru.pure _ (crashJ_of_fr hp hfr2)
          ⟨fun h => (by cases h), fun a b => hq2.2 a (b.2.2.1 x0 (by simp))⟩
      | ok u =>
        exact Thru.mono (unlink_tail hp hnd hfr2 (hq2.1 rfl)) (fun _ h => h)
          (fun r X _ hq => ⟨hq.1, fun a _ => hq.2 a trivial⟩)
  · -- a directory: copytree, then rmtree
    have hds : destInSrc src (D ++ [x0]) = false := by
      have := hp.ap1; rw [← under_iff] at this; simpa [destInSrc] using this
    simp only [hds, Bool.false_eq_true, if_false]
    have hcp : CtPre s1.fs src (D ++ [x0]) :=
      e1 ▸ ⟨hp.listed, hp.closed, isDirAt_of_get hA, hp.free, hp.par, hp.ap1, hp.ap2⟩
    refine Thru.bind (Q1 := fun r B => Fr s.fs (D ++ [x0]) B ∧
        Post φ (MvH s.fs src (D ++ [x0])) (fun B => ∀ rel, B.get (D ++ [x0] ++ rel) = s.fs.get (src ++ rel)) r B) ?_ ?_
    · refine Thru.mono (copytree_spec φ _ src (D ++ [x0]) s1 hcp) (fun X h => crashJ_of_fr hp (e1 ▸ h)) ?_
      intro r X hj hq
      refine ⟨e1 ▸ hj, fun hr => e1 ▸ hq.1 hr, fun a b => hq.2 a ?_⟩
      rw [e1]
      refine ⟨b.2.1, b.2.2.1, fun q _ hdq => ?_⟩
      have : q.length ≤ (s.fs.dom.map List.length).foldl max 0 :=
        C15.le_foldl_max _ 0 _ (Or.inr (List.mem_map.2 ⟨q, b.1 q (C15.isDirAt_isSome hdq), rfl⟩))
      omega
    · rintro r s2 ⟨hfr2, hq2⟩ _
      cases r with
      | error e => exact Thru.pure _ (crashJ_of_fr hp hfr2) ⟨fun h => (by cases h), hq2.2⟩
      | ok u =>
        have hw := hq2.1 rfl
        have hsame : ∀ q, src <+: q → s2.fs.get q = s.fs.get q := fun q hq => hfr2.src hp.ap1 hp.ap2 hq
        have hl2 : ListedUnder src s2.fs := fun q hq hs =>
          hfr2.dom q (hp.listed q hq (by rw [← hsame q hq]; exact hs))
        refine Thru.mono (rmtree_spec (m := m) (t := t) ((hsame src (List.prefix_refl _)).trans hA) hl2)
          (fun X h => crashJ_of_rm hp hfr2 hw h) ?_
        intro r X _ hq
        refine ⟨hq.1, fun a b => hq.2 a ⟨hfr2.wf b.1, fun q y hq hs => ?_, fun q hq => ?_⟩⟩
        · have h1 : s2.fs.isDirAt q = s.fs.isDirAt q := by unfold isDirAt; rw [hsame q hq]
          rw [h1]
          exact hp.closed q y hq (by rw [← hsame _ (hq.trans (List.prefix_append _ _))]; exact hs)
        · rw [isMount_congr hfr2.mounts]; exact b.2.2.2 q hq
  · -- a symbolic link: symlink, then unlink
    show Thru φ (sys (.symlink t (D ++ [x0])) >>= _) s1 _ _
    have hnd : s.fs.isDirAt src = false := by simp [isDirAt, hA, Node.isDir]
    refine Thru.bind (Q1 := fun r B => Fr s.fs (D ++ [x0]) B ∧
        Post φ (x0.length ≤ 255) (fun B => ∀ rel, B.get (D ++ [x0] ++ rel) = s.fs.get (src ++ rel)) r B) ?_ ?_
    · have hsl := symlink_eq (x := x0) t hD hfree0
      rw [← e1] at hsl
      refine Thru.mono (J' := Fr s.fs (D ++ [x0])) ?_ (fun _ h => crashJ_of_fr hp h) (fun r X hj hq => ⟨hj, hq⟩)
      by_cases hx : x0.length > 255
      · rw [if_pos hx] at hsl
        exact Thru.sys_of_err hsl (e1 ▸ Fr.refl _ _) fun e => Post.err fun h => by omega
      · rw [if_neg hx, e1] at hsl
        have md : Mod1 (D ++ [x0]) s.fs (touchDir (setNode s.fs (D ++ [x0]) (.link t)) D) := by
          simpa [parent] using mod1_set_touch s.fs (D ++ [x0]) (.link t)
        refine Thru.sys_of_ok (fun _ _ e => by cases e) (e1 ▸ hsl) (e1 ▸ Fr.refl _ _) md.fr (Post.ok ?_)
          (fun e hq => Post.err fun h => hq h.1)
        exact leaf_complete hp.closed (List.prefix_refl _) hnd hp.free md
          ((get_set_touch_self _ _ _ _).trans hA.symm)
    · rintro r s2 ⟨hfr2, hq2⟩ _
      cases r with
      | error e =>
        exact Thru.pure _ (crashJ_of_fr hp hfr2)
          ⟨fun h => (by cases h), fun a b => hq2.2 a (b.2.2.1 x0 (by simp))⟩
      | ok u =>
        exact Thru.mono (unlink_tail hp hnd hfr2 (hq2.1 rfl)) (fun _ h => h)
          (fun r X _ hq => ⟨hq.1, fun a _ => hq.2 a trivial⟩)


/-! ### the statements of Props/C05Copy.lean -/

theorem mvPre_of_setting {fs : FS} {src dst : CPath} (h : Setting fs src dst) : MvPre fs src dst :=
  ⟨h.srcExists, fun q hq => h.srcListed q ((under_iff _ _).2 hq),
    fun q x hq => h.srcTree q x ((under_iff _ _).2 hq), h.dstFree, h.dstParent,
    fun e => h.apart.1 ((under_iff _ _).2 e), fun e => h.apart.2 ((under_iff _ _).2 e)⟩

theorem renFailsAt_of {φ : Oracle} {fs : FS} {src dst : CPath} (h : RenameFails φ fs src dst) :
    RenFailsAt φ { fs := fs } src dst := by
  rcases h with ⟨e, h⟩ | h
  · exact Or.inl ⟨e, h⟩
  · exact Or.inr (rename_err_of_dev h)

theorem mvH_of_healthy {fs : FS} {src dst : CPath} (h : Healthy fs src dst) : MvH fs src dst :=
  ⟨h.listed, fun q x hq => h.shortNames q x ((under_iff _ _).2 hq), h.shortDst,
    fun q hq => h.noMount q ((under_iff _ _).2 hq)⟩

theorem sameBut_of_touch {a b : Option Node} (h : touch a = touch b) : SameButMtime a b := by
  rcases a with _ | (_ | ⟨m, t⟩ | _) <;> rcases b with _ | (_ | ⟨m', t'⟩ | _) <;>
    simp only [touch, Option.some.injEq, Node.dir.injEq, reduceCtorEq, and_true] at h
  · exact Or.inl rfl
  · exact Or.inl (by rw [h])
  · exact Or.inr ⟨m', t, t', by rw [h], rfl⟩
  · exact Or.inl (by rw [h])

theorem parents_away {A : FS} {src dst : CPath} (hp : MvPre A src dst) :
    (¬ src <+: parent src ∧ ¬ dst <+: parent src) ∧ (¬ src <+: parent dst ∧ ¬ dst <+: parent dst) := by
  have hs0 : src ≠ [] := fun e => hp.ap1 (e ▸ List.nil_prefix)
  have hd0 : dst ≠ [] := fun e => hp.ap2 (e ▸ List.nil_prefix)
  have len : ∀ p : CPath, p ≠ [] → ¬ p <+: parent p := fun p h0 h => by
    have := h.length_le
    have hl : p.length ≠ 0 := by simpa using h0
    simp [parent] at this; omega
  exact ⟨⟨len src hs0, fun h => hp.ap2 (h.trans (dropLast_pfx src))⟩,
    ⟨fun h => hp.ap1 (h.trans (dropLast_pfx dst)), len dst hd0⟩⟩

theorem crashOk_of_J {A x : FS} {src dst : CPath} (hp : MvPre A src dst) (h : CrashJ A src dst x) :
    CrashOk A x src dst := by
  obtain ⟨⟨a1, a2⟩, ⟨b1, b2⟩⟩ := parents_away hp
  refine ⟨?_, fun q h1 h2 h3 h4 => (h.2 q (fun e => h1 ((under_iff _ _).2 e)) (fun e => h2 ((under_iff _ _).2 e))).2 h3 h4,
    sameBut_of_touch (h.2 _ a1 a2).1, sameBut_of_touch (h.2 _ b1 b2).1⟩
  rcases h.1 with ⟨h1, h2⟩ | h1
  · exact Or.inl ⟨h1, fun q hq hpd => h2 q (fun e => hq ((under_iff _ _).2 e)) hpd⟩
  · exact Or.inr h1

theorem move_copy_crash_inv (φ : Oracle) (fs : FS) (src dst : CPath) (h : Setting fs src dst)
    (hr : RenameFails φ fs src dst) :
    ∀ s ∈ crashStates φ (move src dst) fs, CrashOk fs s src dst := by
  intro s hs
  have hp := mvPre_of_setting h
  obtain ⟨_, hj, hh⟩ := move_copy_thru (s := { fs := fs }) hp (renFailsAt_of hr)
  rcases C15.mem_crashStates hs with rfl | hm
  · exact crashOk_of_J hp hj
  · rcases hh s hm with h' | h'
    · cases h'
    · exact crashOk_of_J hp h'

theorem move_copy_final (φ : Oracle) (fs : FS) (src dst : CPath) (h : Setting fs src dst)
    (hr : RenameFails φ fs src dst) :
    (run φ (move src dst) { fs := fs }).1 = .ok () →
      Moved fs (run φ (move src dst) { fs := fs }).2.fs src dst := by
  intro hok
  have hp := mvPre_of_setting h
  obtain ⟨hq, hj, _⟩ := move_copy_thru (s := { fs := fs }) hp (renFailsAt_of hr)
  have hgone := hq.1 hok
  have hc := crashOk_of_J hp hj
  refine ⟨hgone, ?_, hc.frame, hc.parents⟩
  rcases hc.whole with ⟨h1, _⟩ | h1
  · have := h1 []
    rw [hgone []] at this
    simp only [List.append_nil] at this
    have hs := h.srcExists; rw [← this] at hs; cases hs
  · exact h1

theorem move_copy_succeeds (φ : Oracle) (fs : FS) (src dst : CPath) (hq : Quiet φ) (h : Setting fs src dst)
    (hr : RenameFails φ fs src dst) (hh : Healthy fs src dst) :
    (run φ (move src dst) { fs := fs }).1 = .ok () :=
  (move_copy_thru (s := { fs := fs }) (mvPre_of_setting h) (renFailsAt_of hr)).1.2 hq (mvH_of_healthy hh)


/-! ### decidable sufficient conditions, to instantiate the theorems on concrete worlds -/

theorem wf_ofList (nodes : List (CPath × Node)) (mounts : List CPath) : C15.Wf (FS.ofList nodes mounts) := by
  intro q hq
  simp only [FS.ofList, Option.isSome_map] at hq ⊢
  obtain ⟨pn, hf⟩ := Option.isSome_iff_exists.1 hq
  have h1 := List.mem_of_find?_eq_some hf
  have h2 := List.find?_some hf
  simp only [decide_eq_true_eq] at h2
  exact List.mem_map.2 ⟨pn, h1, h2⟩

/-- every listed present path other than the root hangs from a directory -/
def treeB (fs : FS) : Bool :=
  fs.dom.all (fun p => (fs.get p).isNone || decide (p = []) || fs.isDirAt p.dropLast)

theorem tree_of_check {fs : FS} (hw : ∀ q, (fs.get q).isSome = true → q ∈ fs.dom) (h : treeB fs = true) :
    ∀ q x, (fs.get (q ++ [x])).isSome = true → fs.isDirAt q = true := by
  simp only [treeB, List.all_eq_true, Bool.or_eq_true, decide_eq_true_eq, Option.isNone_iff_eq_none] at h
  intro q x hs
  rcases h _ (hw _ hs) with (h | h) | h
  · rw [h] at hs; cases hs
  · simp at h
  · simpa using h

/-- a decidable sufficient condition for `Setting` in a world whose present paths are listed -/
def settingB (fs : FS) (src dst : CPath) : Bool :=
  (fs.get src).isSome && treeB fs &&
  fs.dom.all (fun p => !(FS.under dst p) || (fs.get p).isNone) &&
  fs.isDirAt (FS.parent dst) && !(FS.under src dst) && !(FS.under dst src)

theorem setting_of_check {fs : FS} {src dst : CPath} (hw : ∀ q, (fs.get q).isSome = true → q ∈ fs.dom)
    (h : settingB fs src dst = true) : Setting fs src dst := by
  simp only [settingB, Bool.and_eq_true, List.all_eq_true, Bool.or_eq_true,
    Bool.not_eq_true', Option.isNone_iff_eq_none] at h
  obtain ⟨⟨⟨⟨⟨h1, h2⟩, h3⟩, h4⟩, h5⟩, h6⟩ := h
  refine ⟨h1, fun q _ hq => hw q hq, fun q x _ hs => tree_of_check hw h2 q x hs, fun rel => ?_, h4,
    by rw [h5]; simp, by rw [h6]; simp⟩
  · cases hg : fs.get (dst ++ rel) with
    | none => rfl
    | some nd =>
      have hs : (fs.get (dst ++ rel)).isSome = true := by rw [hg]; rfl
      rcases h3 _ (hw _ hs) with h | h
      · have : FS.under dst (dst ++ rel) = true := (under_iff _ _).2 (List.prefix_append _ _)
        rw [this] at h; cases h
      · rw [h] at hg; cases hg

/-- a decidable sufficient condition for `Healthy` (listedness apart) -/
def healthyB (fs : FS) (src dst : CPath) : Bool :=
  fs.dom.all (fun p => (fs.get p).isNone || (match p.getLast? with | some x => decide (x.length ≤ 255) | none => true)) &&
  (match dst.getLast? with | some x => decide (x.length ≤ 255) | none => true) &&
  fs.mounts.all (fun m => !(FS.under src m))

theorem healthy_of_check {fs : FS} {src dst : CPath} (hw : ∀ q, (fs.get q).isSome = true → q ∈ fs.dom)
    (h : healthyB fs src dst = true) : Healthy fs src dst := by
  simp only [healthyB, Bool.and_eq_true, List.all_eq_true, Bool.or_eq_true, Bool.not_eq_true',
    Option.isNone_iff_eq_none] at h
  obtain ⟨⟨h1, h2⟩, h3⟩ := h
  refine ⟨hw, fun q x _ hs => ?_, fun n hn => ?_, fun q hq => ?_⟩
  · rcases h1 _ (hw _ hs) with h | h
    · rw [h] at hs; cases hs
    · simpa using h
  · rw [hn] at h2; simpa using h2
  · unfold FS.isMount
    cases hc : fs.mounts.contains q with
    | false => rfl
    | true =>
      have hm : q ∈ fs.mounts := by simpa using hc
      rw [h3 q hm] at hq; cases hq


/-- `Setting` from the global well-formedness of the world: every present path is listed and hangs
    from a directory; then "`dst` is free" means nothing is at or below it -/
theorem setting_of_tree (fs : FS) (src dst : CPath) (hwf : ∀ q, (fs.get q).isSome = true → q ∈ fs.dom)
    (htree : ∀ q x, (fs.get (q ++ [x])).isSome = true → fs.isDirAt q = true)
    (hsrc : (fs.get src).isSome = true) (hdst : fs.get dst = none) (hpar : fs.isDirAt (FS.parent dst) = true)
    (hapart : ¬ FS.under src dst = true ∧ ¬ FS.under dst src = true) : Setting fs src dst := by
  refine ⟨hsrc, fun q _ hq => hwf q hq, fun q x _ hs => htree q x hs, fun rel => ?_, hpar, hapart⟩
  by_cases hrel : rel = []
  · subst hrel; simpa using hdst
  · cases hg : fs.get (dst ++ rel) with
    | none => rfl
    | some nd =>
      have hcl : C15.Closed [] fs := fun q x _ hs => htree q x hs
      have := C15.closed_anc hcl _ rel dst rfl List.nil_prefix hrel (by rw [hg]; rfl)
      rw [isDirAt_of_get_none hdst] at this; cases this


/-! ### trash-restore across volumes (C15) -/

theorem restore_copy_crash_inv (φ : Oracle) (fs : FS) (src dst info : CPath) (h : Setting fs src dst)
    (hr : RenameFails φ fs src dst) (hinfo : ∀ m t, fs.get info ≠ some (.dir m t))
    (hapart : ¬ FS.under src info = true ∧ ¬ FS.under dst info = true) :
    ∀ s ∈ crashStates φ (restoreCore (.ok src) (.ok dst) (.ok info)) fs,
      ((∀ rel, s.get (src ++ rel) = fs.get (src ++ rel)) ∧ s.get info = fs.get info) ∨
      (∀ rel, s.get (dst ++ rel) = fs.get (src ++ rel)) := by
  have hp := mvPre_of_setting h
  obtain ⟨h3, h4⟩ := hapart
  rw [under_iff] at h3 h4
  have hipd : info ≠ parent dst := fun e => by
    obtain ⟨m, t, hg⟩ := isDirAt_get hp.par
    rw [← e] at hg; exact hinfo m t hg
  let RJ : FS → Prop := fun x =>
    ((∀ rel, x.get (src ++ rel) = fs.get (src ++ rel)) ∧ x.get info = fs.get info) ∨
    (∀ rel, x.get (dst ++ rel) = fs.get (src ++ rel))
  suffices hT : Thru φ (restoreCore (.ok src) (.ok dst) (.ok info)) { fs := fs } RJ (fun _ _ => True) by
    intro s hs
    rcases C15.mem_crashStates hs with rfl | hm
    · exact hT.2.1
    · rcases hT.2.2 s hm with h' | h'
      · cases h'
      · exact h'
  show Thru φ (move src dst >>= _) _ _ _
  refine Thru.bind (Q1 := fun r B => r = .ok () →
      (∀ rel, B.get (dst ++ rel) = fs.get (src ++ rel)) ∧ B.get info = fs.get info) ?_ ?_
  · refine Thru.mono (move_copy_thru (s := { fs := fs }) hp (renFailsAt_of hr)) (fun x hx => ?_) ?_
    · rcases hx.1 with ⟨a, b⟩ | a
      · exact Or.inl ⟨a, b info h4 hipd⟩
      · exact Or.inr a
    · intro r X hj hq hok
      have hgone := hq.1 hok
      refine ⟨?_, C15.touch_nondir (hj.2 info h3 h4).1 hinfo⟩
      rcases hj.1 with ⟨h1, _⟩ | h1
      · have := h1 []
        rw [hgone []] at this
        simp only [List.append_nil] at this
        have hs := hp.some; rw [← this] at hs; cases hs
      · exact h1
  · intro r s1 hq1 hj1
    cases r with
    | error e => exact Thru.pure _ hj1 trivial
    | ok u =>
      obtain ⟨hw, hi1⟩ := hq1 rfl
      have hne1 : ∀ rel, dst ++ rel ≠ info := fun rel e => h4 (e ▸ List.prefix_append _ rel)
      have hne2 : ∀ rel, dst ++ rel ≠ parent info := fun rel e =>
        h4 ((List.prefix_append _ rel).trans (e ▸ dropLast_pfx info))
      show Thru φ (removeFile info) s1 _ _
      unfold removeFile
      refine Thru.read_bind ?_
      split
      · refine Thru.bind (Q1 := fun r B => (∀ rel, B.get (dst ++ rel) = fs.get (src ++ rel)) ∧
            (r ≠ .ok () → B.get info = fs.get info)) ?_ ?_
        · refine Thru.sys_any hj1 (fun e => ⟨hw, fun _ => hi1⟩) fun B hB => ?_
          obtain ⟨r, hr', e, _⟩ := apply_rm (A := fun r => r = info) ⟨info, Or.inl rfl, rfl⟩ hB
          subst hr'
          have hwB : ∀ rel, B.get (dst ++ rel) = fs.get (src ++ rel) := fun rel => by
            rw [e, rm_get_other _ (hne1 rel) (hne2 rel)]; exact hw rel
          exact ⟨Or.inr hwB, hwB, fun h => absurd rfl h⟩
        · rintro r s2 ⟨hw2, hi2⟩ hj2
          cases r with
          | ok u => exact Thru.pure _ hj2 trivial
          | error e =>
            have hi2' := hi2 (fun h => by cases h)
            show Thru φ (rmtree info) s2 _ _
            unfold rmtree
            refine Thru.read_bind ?_
            rw [hi2']
            rcases hg : fs.get info with _ | (_ | ⟨m, t⟩ | _)
            · exact Thru.pure _ hj2 trivial
            · exact Thru.pure _ hj2 trivial
            · exact absurd hg (hinfo m t)
            · exact Thru.pure _ hj2 trivial
      · exact Thru.pure _ hj1 trivial


/-! ### trash-put across volumes (C05) -/

theorem geo_of_putSetting {fs : FS} {I F S : CPath} (h : PutSetting fs I F S) : Geo I F S := by
  obtain ⟨a, b⟩ := h.distinct
  obtain ⟨d, e⟩ := h.notAncestor
  obtain ⟨f, g⟩ := h.notInside
  simp only [under_iff] at a b d e f g
  exact ⟨a, b, d, e, f, g, h.srcNotRoot⟩

section putcopy
variable {I F S : CPath} (g : Geo I F S) {name : Name} (hst : name = stemOf name ++ trashinfoExt)
include g hst

omit hst in
/-- the state with the complete info file agrees with `fs` on the entry and on `files/N` -/
theorem fsB_src (fs : FS) (content : Bytes) {q : CPath} (hq : S <+: q) :
    (fsB fs (I ++ [name]) content).get q = fs.get q := by
  have a1 : q ≠ I ++ [name] := fun e => g.S_P (n := name) (e ▸ hq)
  have a2 : q ≠ I := fun e => g.h3 (e ▸ hq)
  rw [fsB_get, if_neg a1, if_neg a2]

theorem fsB_dst (fs : FS) (content : Bytes) {q : CPath} (hq : F ++ [stemOf name] <+: q) :
    (fsB fs (I ++ [name]) content).get q = fs.get q := by
  have hnt := stem_ne hst
  have a1 : q ≠ I ++ [name] := fun e => g.D_P hnt (e ▸ hq)
  have a2 : q ≠ I := fun e => g.D_I (t := stemOf name) (e ▸ hq)
  rw [fsB_get, if_neg a1, if_neg a2]

theorem put_crashOk_of_J {fs x : FS} {content : Bytes} (hfree : fs.get (F ++ [stemOf name]) = none)
    (h : CrashJ (fsB fs (I ++ [name]) content) S (F ++ [stemOf name]) x) : PutCore.CrashOk fs x I F S content := by
  have hnt := stem_ne hst
  refine ⟨?_, fun n hn hs => ?_⟩
  · rcases h.1 with ⟨h1, _⟩ | h1
    · exact Or.inl fun rel => by rw [h1 rel, fsB_src g fs content (List.prefix_append _ _)]
    · exact Or.inr ⟨stemOf name, hfree, fun rel => by
        rw [h1 rel, fsB_src g fs content (List.prefix_append _ _)]⟩
  · by_cases e : n = stemOf name
    · rw [e, ← hst]
      have := (h.2 (I ++ [name]) g.S_P (g.D_P hnt)).2 g.P_ps (by simpa [parent] using g.P_F (n := name))
      rw [this, fsB_get, if_pos rfl]
    · have h2 : ¬ F ++ [stemOf name] <+: F ++ [n] := by
        rw [pfx_concat]; rintro (h | h)
        · have := (List.append_inj' h rfl).2
          simp only [List.cons.injEq, and_true] at this
          exact e this.symm
        · exact Geo.D_F h
      have h4 : F ++ [n] ≠ parent S := fun h => g.D_ps (t := n) (h ▸ List.prefix_refl _)
      have h5 : F ++ [n] ≠ parent (F ++ [stemOf name]) := fun h => by
        have := congrArg List.length h; simp [parent] at this
      have := (h.2 (F ++ [n]) g.S_D h2).2 h4 h5
      have a1 : F ++ [n] ≠ I ++ [name] := fun h => g.I_F (List.append_inj' h rfl).1.symm
      have a2 : F ++ [n] ≠ I := fun h => g.D_I (t := n) (h ▸ List.prefix_refl _)
      rw [this, fsB_get, if_neg a1, if_neg a2, hn] at hs
      cases hs
end putcopy

theorem put_copy_crash_inv (fs : FS) (infoC filesC src : CPath) (base content : Bytes) (st : PutSt)
    (h : PutSetting fs infoC filesC src) :
    ∀ s ∈ crashStates noFaults (putCore infoC filesC base content (fun _ => .ok src) st) fs,
      PutCore.CrashOk fs s infoC filesC src content := by
  intro s hs
  have g := geo_of_putSetting h
  have hmem := C15.mem_crashStates hs
  have hfs : PutCore.CrashOk fs fs infoC filesC src content :=
    Proofs.C05.crashOk_early g (name := []) (fun _ _ _ => rfl)
  unfold putCore at hmem
  rw [run_bind] at hmem
  have ps := persist_spec infoC filesC base content persistFuel 0 false st { fs := fs }
  generalize run noFaults (persistLoop infoC filesC base content persistFuel 0 false st) { fs := fs } = rp at ps hmem
  obtain ⟨⟨pr, st1⟩, s1⟩ := rp
  rcases ps with ⟨a, b, c⟩ | ⟨name, a, hst, hfree, hfreeI, hlen, hdir, hfs1, hh⟩
  · simp only at a b c hmem
    have key : s = s1.fs ∨ s ∈ s1.hist := by
      cases pr with
      | created nm => exact absurd rfl (a nm)
      | failed e => exact hmem
      | outOfFuel => exact hmem
    rcases key with rfl | hm
    · rw [b]; exact hfs
    · rcases c s hm with rfl | hm
      · exact hfs
      · cases hm
  · simp only at a hfs1 hh hfree hmem
    subst a
    simp only [run_bind, run_read] at hmem
    have hnt := stem_ne hst
    have hlt : (stemOf name).length ≤ 255 := by
      have := congrArg List.length hst
      rw [List.length_append, ext_len] at this; omega
    have hm : s1.fs.mounts = fs.mounts := by rw [hfs1, fsB_mounts]
    have hsame : ∀ q, src <+: q → s1.fs.get q = fs.get q := fun q hq => by
      rw [hfs1]; exact fsB_src g fs content hq
    have hdsame : ∀ q, src <+: q → s1.fs.isDirAt q = fs.isDirAt q := fun q hq => by
      unfold isDirAt; rw [hsame q hq]
    have hwf : C15.Wf s1.fs := by
      rw [hfs1]; exact wf_setNode _ _ (wf_touchDir _ (wf_setNode _ _ h.listed))
    have hpre : MvPre s1.fs src (filesC ++ [stemOf name]) :=
      { some := by rw [hsame _ (List.prefix_refl _)]; exact h.srcExists
        listed := fun q _ hs => hwf q hs
        closed := fun q x hq hs => by
          rw [hdsame q hq]
          exact h.srcTree q x ((under_iff _ _).2 hq) (by
            rw [← hsame _ (hq.trans (List.prefix_append _ _))]; exact hs)
        free := fun rel => by
          rw [hfs1, fsB_dst g hst fs content (List.prefix_append _ _)]
          exact h.filesTree _ rel hfree
        par := by
          have : s1.fs.get filesC = fs.get filesC := by
            rw [hfs1, fsB_get, if_neg (Ne.symm g.P_F), if_neg (Ne.symm g.I_F)]
          simpa [parent, isDirAt, this] using h.filesDir
        ap1 := g.S_D
        ap2 := g.D_S }
    have hren : RenFailsAt noFaults s1 src (filesC ++ [stemOf name]) := by
      refine Or.inr (rename_err_of_dev ?_)
      rw [dev_congr hm, dev_congr hm]
      simpa [parent] using h.otherDev
    have hH : MvH s1.fs src (filesC ++ [stemOf name]) :=
      ⟨hwf, fun q x hq hs => h.shortNames q x ((under_iff _ _).2 hq) (by
          rw [← hsame _ (hq.trans (List.prefix_append _ _))]; exact hs),
        fun n hn => by simp only [List.getLast?_concat, Option.some.injEq] at hn; subst hn; exact hlt,
        fun q hq => by rw [isMount_congr hm]; exact h.noMount q ((under_iff _ _).2 hq)⟩
    have hT := move_copy_thru (φ := noFaults) hpre hren
    unfold Thru at hT
    generalize run noFaults (move src (filesC ++ [stemOf name])) s1 = rm at hT hmem
    obtain ⟨res, s2⟩ := rm
    obtain ⟨hq, hj, hhist⟩ := hT
    simp only at hq hj hhist hmem
    have hok : res = .ok () := hq.2 quiet_noFaults hH
    subst hok
    simp only [run_pure] at hmem
    rw [hfs1] at hj hhist
    have early : ∀ x, x ∈ s1.hist → PutCore.CrashOk fs x infoC filesC src content := by
      intro x hx
      rcases hh x hx with rfl | rfl | rfl | hx
      · exact Proofs.C05.crashOk_early g (name := name) fun q h1 h2 => by rw [fsB_get, if_neg h1, if_neg h2]
      · exact Proofs.C05.crashOk_early g (name := name) fun q h1 h2 => by rw [fsA_get, if_neg h1, if_neg h2]
      · exact hfs
      · cases hx
    rcases hmem with rfl | hm
    · exact put_crashOk_of_J g hst hfree hj
    · rcases hhist s hm with hx | hx
      · exact early s hx
      · exact put_crashOk_of_J g hst hfree hx


/-- a decidable sufficient condition for `PutSetting` in a world whose present paths are listed -/
def putSettingB (fs : FS) (I F S : CPath) : Bool :=
  fs.isDirAt I && fs.isDirAt F && !(FS.under I F) && !(FS.under F I) && (fs.get S).isSome &&
  decide (S ≠ []) && decide (fs.dev (FS.parent S) ≠ fs.dev F) &&
  !(FS.under S I) && !(FS.under S F) && !(FS.under I S) && !(FS.under F S) && treeB fs &&
  fs.dom.all (fun p => (fs.get p).isNone || (match p.getLast? with | some x => decide (x.length ≤ 255) | none => true)) &&
  fs.mounts.all (fun m => !(FS.under S m))

theorem putSetting_of_check {fs : FS} {I F S : CPath} (hw : ∀ q, (fs.get q).isSome = true → q ∈ fs.dom)
    (h : putSettingB fs I F S = true) : PutSetting fs I F S := by
  simp only [putSettingB, Bool.and_eq_true, List.all_eq_true, Bool.or_eq_true, decide_eq_true_eq,
    Bool.not_eq_true', Option.isNone_iff_eq_none] at h
  obtain ⟨⟨⟨⟨⟨⟨⟨⟨⟨⟨⟨⟨⟨a1, a2⟩, a3⟩, a4⟩, a5⟩, a6⟩, a7⟩, a8⟩, a9⟩, a10⟩, a11⟩, a12⟩, a13⟩, a14⟩ := h
  have ht := tree_of_check hw a12
  refine ⟨a1, a2, ⟨by rw [a3]; simp, by rw [a4]; simp⟩, a5, a6, a7, ⟨by rw [a8]; simp, by rw [a9]; simp⟩,
    ⟨by rw [a10]; simp, by rw [a11]; simp⟩, hw, fun q x _ hs => ht q x hs, fun n rel hn => ?_,
    fun q x _ hs => ?_, fun q hq => ?_⟩
  · by_cases hrel : rel = []
    · subst hrel; simpa using hn
    · cases hg : fs.get (F ++ [n] ++ rel) with
      | none => rfl
      | some nd =>
        have hcl : C15.Closed [] fs := fun q x _ hs => ht q x hs
        have := C15.closed_anc hcl _ rel (F ++ [n]) rfl List.nil_prefix hrel (by rw [hg]; rfl)
        rw [isDirAt_of_get_none hn] at this; cases this
  · rcases a13 _ (hw _ hs) with h | h
    · rw [h] at hs; cases hs
    · simpa using h
  · unfold FS.isMount
    cases hc : fs.mounts.contains q with
    | false => rfl
    | true =>
      have hm : q ∈ fs.mounts := by simpa using hc
      rw [a14 q hm] at hq; cases hq

theorem final_mem_crashStates {α} (φ : Oracle) (p : Prog α) (fs : FS) :
    (run φ p { fs := fs }).2.fs ∈ crashStates φ p fs := by
  unfold crashStates
  simp only [List.mem_reverse, List.mem_cons, true_or]


/-! ### the model, evaluated on the example world (a cross-check of the theorems by execution;
    `#guard`s, not theorems: the kernel cannot unfold `List.mergeSort`, which `copytree` and
    `rmtree` reach through `sortedChildren`) -/
section evaluated
open MoveCopy.Example
private def wholeAt (fs s : FS) (src place : CPath) : Bool :=
  fs.dom.all fun q => !(FS.under src q) || (s.get (place ++ q.drop src.length) == fs.get q)
private def partialAt (s : FS) (place : CPath) : Bool := (s.get place).isSome

-- 21 crash states (20 calls): all have the tree whole at "/h/d" or whole at "/m/x"; 13 of them show
-- a partial copy next to the whole source, 5 the whole copy next to a (partly removed) source
#guard (crashStates noFaults (move dirS D) W).length == 21
#guard (crashStates noFaults (move dirS D) W).all fun s => wholeAt W s dirS dirS || wholeAt W s dirS D
#guard ((crashStates noFaults (move dirS D) W).filter fun s =>
  wholeAt W s dirS dirS && partialAt s D && !wholeAt W s dirS D).length == 13
#guard ((crashStates noFaults (move dirS D) W).filter fun s =>
  wholeAt W s dirS D && partialAt s dirS).length == 5
end evaluated


/-! ### the put-level statement is false under faults -/

open MoveCopy.Example in
/-- One failed `write` of the cross-device copy (ENOSPC): `copy2` has created `files/f` (empty),
    `shutil.move` raises, trash-put's cleanup removes `info/f.trashinfo` — and nothing removes the
    partial payload.  The final state (a crash state) shows a payload under a name that was free
    without any info file: the second clause of `PutCore.CrashOk` fails.  The entry itself is
    intact at its origin. -/
theorem put_copy_fault_strands_payload :
    PutSetting P I F entry ∧
    ∃ s ∈ crashStates full (putCore I F [102] [99] (fun _ => .ok entry) ⟨[], []⟩) P,
      s.get entry = P.get entry ∧
      s.get (F ++ [[102]]) = some (.file [] 0o644 0) ∧
      s.get (I ++ [[102] ++ trashinfoExt]) = none ∧
      ¬ PutCore.CrashOk P s I F entry [99] := by
  refine ⟨putSetting_of_check (wf_ofList _ _) (by decide +kernel), _, final_mem_crashStates _ _ _, ?_⟩
  have h : (run full (putCore I F [102] [99] (fun _ => .ok entry) ⟨[], []⟩) { fs := P }).2.fs.get entry = P.get entry ∧
      (run full (putCore I F [102] [99] (fun _ => .ok entry) ⟨[], []⟩) { fs := P }).2.fs.get (F ++ [[102]]) =
        some (.file [] 0o644 0) ∧
      (run full (putCore I F [102] [99] (fun _ => .ok entry) ⟨[], []⟩) { fs := P }).2.fs.get
        (I ++ [[102] ++ trashinfoExt]) = none ∧ P.get (F ++ [[102]]) = none := by decide +kernel
  obtain ⟨h1, h2, h3, h4⟩ := h
  refine ⟨h1, h2, h3, fun hc => ?_⟩
  have := hc.2 [102] h4 (by rw [h2]; rfl)
  rw [h3] at this; cases this


end TrashVerif.Proofs.C05Copy
