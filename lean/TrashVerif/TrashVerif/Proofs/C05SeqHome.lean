/-
  Proofs/C05SeqHome.lean — C05 for N everyday arguments into the home trash (proofs for Props/C05Seq.lean):
  the one-argument frame, the frame over N arguments, and the induction over the argument list.
-/
import TrashVerif.Proofs.C05Seq
import TrashVerif.Proofs.C16SeqHome
import TrashVerif.Proofs.C05CmdHome
namespace TrashVerif.Proofs.C05SeqHome
open TrashVerif Prog FS PutCore PutLemmas C16Indep C16Seq C05Cmd C05Seq
open TrashVerif.Proofs.C05Seq
open TrashVerif.Proofs.C16IndepHome
open TrashVerif.Proofs.C16SeqHome (items_after step_home)
open TrashVerif.C03Cmd (Clock)

/-- the path `q` is none of the paths the trashing of `B` as `files/<sb>`, `info/<nb>` changes -/
structure Apart (I F B : CPath) (sb nb : Bytes) (q : CPath) : Prop where
  src : ¬ B <+: q
  slot : ¬ (F ++ [sb]) <+: q
  info : q ≠ I ++ [nb]
  par : ¬ q <+: B
  f : q ≠ F
  i : q ≠ I

/-- the three groups of paths of an entry `A` (`files/<sa>`, `info/<na>`) are apart from what the trashing of an
    unrelated entry `B` under another name changes -/
theorem paths_apart {I F A B : CPath} {sa na sb nb : Bytes}
    (aI : ¬ A <+: I ∧ ¬ I <+: A) (aF : ¬ A <+: F ∧ ¬ F <+: A) (bI : ¬ B <+: I ∧ ¬ I <+: B) (bF : ¬ B <+: F ∧ ¬ F <+: B)
    (hIF : ¬ I <+: F) (hFI : ¬ F <+: I) (hAB : ¬ A <+: B) (hBA : ¬ B <+: A) (hs : sb ≠ sa) (hn : na ≠ nb) :
    (∀ rel, Apart I F B sb nb (A ++ rel)) ∧ (∀ rel, Apart I F B sb nb (F ++ [sa] ++ rel)) ∧ Apart I F B sb nb (I ++ [na]) := by
  have FIn : ∀ n : Bytes, ¬ F <+: I ++ [n] := by
    intro n h
    rcases pfx_concat.1 h with e | e
    · exact hIF (e ▸ List.prefix_append I [n])
    · exact hFI e
  refine ⟨fun rel => ?_, fun rel => ?_, ?_⟩
  · have hA : A <+: A ++ rel := List.prefix_append _ _
    refine ⟨fun h => (pfx_comparable h hA).elim hBA hAB, fun h => ?_, fun e => ?_, fun h => hAB (hA.trans h),
      fun e => aF.1 (e ▸ hA), fun e => aI.1 (e ▸ hA)⟩
    · exact (pfx_comparable ((List.prefix_append F [sb]).trans h) hA).elim aF.2 aF.1
    · have hI : I <+: A ++ rel := e ▸ List.prefix_append I [nb]
      exact (pfx_comparable hI hA).elim aI.2 aI.1
  · have hF : F <+: F ++ [sa] ++ rel := by rw [List.append_assoc]; exact List.prefix_append _ _
    refine ⟨fun h => (pfx_comparable h hF).elim bF.1 bF.2, fun h => ?_, fun e => FIn nb (e ▸ hF), fun h => bF.2 (hF.trans h),
      fun e => ?_, fun e => hFI (e ▸ hF)⟩
    · rw [List.append_assoc] at h
      obtain ⟨t, ht⟩ := (List.prefix_append_right_inj _).1 h
      simp only [List.cons_append, List.nil_append, List.cons.injEq] at ht
      exact hs ht.1
    · have := congrArg List.length e; simp at this
  · refine ⟨fun h => ?_, fun h => FIn na ((List.prefix_append F [sb]).trans h), fun e => ?_,
      fun h => bI.2 ((List.prefix_append I [na]).trans h), fun e => hIF (e ▸ List.prefix_append I [na]), fun e => ?_⟩
    · rcases pfx_concat.1 h with e | e
      · exact bI.2 (e ▸ List.prefix_append I [na])
      · exact bI.1 e
    · exact hn (by simpa using e)
    · have := congrArg List.length e; simp at this

section one
variable {c : PutCfg} {fs : FS} {H P : CPath} {n : Name} (W : HomeWorld c fs H) (A : GoodArg fs H P n)
  (st : PutSt) (name : Bytes) (hok : (run noFaults (homeCore c H P n st) { fs := fs }).1.1 = .ok name)
include W A hok

/-- ONE argument: every crash state differs from the initial state only at the paths of that argument -/
theorem one_frame : ∀ s ∈ crashStates noFaults (runPut c [toStr (P ++ [n])] st) fs, ∀ q,
    Apart (infoC H) (filesC H) (P ++ [n]) (stemOf name) name q → s.get q = fs.get q := by
  intro s hs q hq
  rw [C05CmdHome.crashStates_home W A st name hok] at hs
  have hset := W_setting W A
  have g := Geo.of_setting hset
  have cs := core_spec (basename (locOf P n)) (formatTrashinfoWith (locOf P n) c.dateStr) st { fs := fs } hset
  have hpar : q ≠ parent (P ++ [n]) := fun e => hq.par (e ▸ dropLast_pfx _)
  unfold homeCore at hok hs
  rcases cs with ⟨e, a, _, _⟩ | ⟨name', a, hst, _, _, b, cc⟩
  · rw [a] at hok; cases hok
  · rw [a] at hok; cases hok
    simp only at b cc
    simp only [List.mem_append, List.mem_cons, List.not_mem_nil, or_false] at hs
    rcases hs with (rfl | rfl | rfl) | hs
    · rfl
    · rfl
    · rfl
    · rcases C05.mem_crashStates hs with hm | hm
      · rw [hm, b]; exact final_frame g (stem_ne hst) fs _ hq.src hq.slot hq.info hpar hq.f hq.i
      · rcases cc s hm with hm | hm | hm | hm
        · rw [hm, fsB_get, if_neg hq.info, if_neg hq.i]
        · rw [hm, fsA_get, if_neg hq.info, if_neg hq.i]
        · rw [hm]
        · cases hm

/-- ONE argument: the final state, and what the fold is left with -/
theorem one_final (hints : st.ints = []) :
    let fs' := (run noFaults (homeCore c H P n st) { fs := fs }).2.fs
    Trashed fs fs' (infoC H) (filesC H) (P ++ [n]) name (formatTrashinfoWith (locOf P n) c.dateStr) ∧
    name = stemOf name ++ trashinfoExt ∧
    fs' ∈ crashStates noFaults (runPut c [toStr (P ++ [n])] st) fs ∧
    ∃ s1, putSeq noFaults c [toStr (P ++ [n])] st { fs := fs } =
        ⟨[(toStr (P ++ [n]), .trashed (homeStr H) name)], none, st, s1⟩ ∧ s1.fs = fs' := by
  intro fs'
  have hset := W_setting W A
  have hra : run noFaults (homeCore c H P n st) { fs := fs } =
      ((.ok name, (run noFaults (homeCore c H P n st) { fs := fs }).1.2),
        (run noFaults (homeCore c H P n st) { fs := fs }).2) := Prod.ext (Prod.ext hok rfl) rfl
  have T : Trashed fs fs' (infoC H) (filesC H) (P ++ [n]) name _ :=
    C01.put_ok_moves_whole fs (infoC H) (filesC H) (P ++ [n]) _ _ st _ hset name _ hra
  have hst : name = stemOf name ++ trashinfoExt := by
    have cs := core_spec (basename (locOf P n)) (formatTrashinfoWith (locOf P n) c.dateStr) st { fs := fs } hset
    unfold homeCore at hok
    rcases cs with ⟨e, a, _, _⟩ | ⟨name', a, hst, _⟩
    · rw [a] at hok; cases hok
    · rw [a] at hok; cases hok; exact hst
  refine ⟨T, hst, ?_, ?_⟩
  · rw [C05CmdHome.crashStates_home W A st name hok, crashStates_def]
    simp
    exact Or.inr (Or.inr rfl)
  · obtain ⟨s1, e1, e2, _⟩ := step_home (x := ⟨P, n, name⟩) W A hints hok [] { fs := fs } rfl
    exact ⟨s1, e1, e2⟩
end one

variable {c : PutCfg} {H : CPath} {st : PutSt} {d : Date}

/-- the run on `x :: rest`: a crash state is one of the run on `x`, or one of the run on `rest` from the state the
    first left -/
theorem mem_cons_run {fs : FS} {x : Item} {rest : List Item} (W : HomeWorld c fs H) (hints : st.ints = [])
    (HI : HomeItems c fs H st (x :: rest)) :
    ∀ s ∈ crashStates noFaults (runPut c ((x :: rest).map Item.arg) st) fs,
      s ∈ crashStates noFaults (runPut c [x.arg] st) fs ∨
      s ∈ crashStates noFaults (runPut c (rest.map Item.arg) st)
        (run noFaults (homeCore c H x.P x.n st) { fs := fs }).2.fs := by
  intro s hs
  obtain ⟨_, _, _, s1, e1, e2⟩ := one_final W (HI.good x List.mem_cons_self) st x.name (HI.core x List.mem_cons_self) hints
  have e : (x :: rest).map Item.arg = [x.arg] ++ rest.map Item.arg := rfl
  rw [e, crashStates_append] at hs
  unfold Item.arg at hs ⊢
  rw [e1] at hs
  simp only [List.mem_append] at hs
  rcases hs with hs | hs
  · exact Or.inl ((List.dropLast_sublist _).subset hs)
  · rw [crashStatesFrom_noFaults, e2] at hs
    exact Or.inr hs

def ApartItem (H : CPath) (y : Item) (q : CPath) : Prop :=
  Apart (infoC H) (filesC H) y.src (stemOf y.name) y.name q

/-- THE FRAME over N arguments: a path that is apart from every argument is never changed -/
theorem n_frame (hints : st.ints = []) : ∀ (items : List Item) (fs : FS), HomeWorld c fs H → HomeItems c fs H st items →
    ∀ s ∈ crashStates noFaults (runPut c (items.map Item.arg) st) fs, ∀ q, (∀ y ∈ items, ApartItem H y q) →
      s.get q = fs.get q := by
  intro items
  induction items with
  | nil =>
    intro fs _ _ s hs q _
    have : s = fs := by
      have : crashStates noFaults (runPut c [] st) fs = [fs] := rfl
      rw [List.map_nil, this] at hs; simpa using hs
    rw [this]
  | cons x rest ih =>
    intro fs W HI s hs q hq
    have Ax := HI.good x List.mem_cons_self
    have hx := HI.core x List.mem_cons_self
    obtain ⟨W', HI'⟩ := items_after W HI
    obtain ⟨_, _, hfin, _⟩ := one_final W Ax st x.name hx hints
    have f1 := one_frame W Ax st x.name hx
    rcases mem_cons_run W hints HI s hs with h | h
    · exact f1 s h q (hq x List.mem_cons_self)
    · rw [ih _ W' HI' s h q (fun y hy => hq y (List.mem_cons_of_mem _ hy))]
      exact f1 _ hfin q (hq x List.mem_cons_self)

/-- C05 for every argument in every crash state of the N-argument run -/
theorem n_inv (hints : st.ints = []) (K : Clock c d) : ∀ (items : List Item) (fs : FS), HomeWorld c fs H →
    HomeItems c fs H st items →
    ∀ s ∈ crashStates noFaults (runPut c (items.map Item.arg) st) fs, ∀ x ∈ items,
      EntryInv fs s (infoC H) (filesC H) x.src (stemOf x.name) x.arg d := by
  intro items
  induction items with
  | nil => intro fs _ _ s _ x hx; cases hx
  | cons x rest ih =>
    intro fs W HI s hs z hz
    have Ax := HI.good x List.mem_cons_self
    have hx := HI.core x List.mem_cons_self
    obtain ⟨W', HI'⟩ := items_after W HI
    obtain ⟨T, hstx, hfin, _⟩ := one_final W Ax st x.name hx hints
    have f1 := one_frame W Ax st x.name hx
    have gx := Geo.of_setting (W_setting W Ax)
    have hun := (List.pairwise_cons.1 HI.unrel).1
    obtain ⟨hfreex, hinvx⟩ := C05CmdHome.home_existing_crash_inv W Ax d K.reading K.valid K.fourDigits st x.name hx
    -- a later argument: its slot is free before and after the first one, so the stems differ
    have later : ∀ y ∈ rest, GoodArg fs H y.P y.n ∧ stemOf y.name ≠ stemOf x.name ∧
        fs.get (filesC H ++ [stemOf y.name]) = none := by
      intro y hy
      have Ay := HI.good y (List.mem_cons_of_mem _ hy)
      have hfy := (C05CmdHome.home_existing_crash_inv W' (HI'.good y hy) d K.reading K.valid K.fourDigits st y.name
        (HI'.core y hy)).1
      have hfy0 := (C05CmdHome.home_existing_crash_inv W Ay d K.reading K.valid K.fourDigits st y.name
        (HI.core y (List.mem_cons_of_mem _ hy))).1
      refine ⟨Ay, fun e => ?_, hfy0⟩
      have hw := T.whole []
      rw [List.append_nil, List.append_nil, ← e, hfy] at hw
      have := Ax.present
      rw [← hw] at this; cases this
    -- the paths of a later argument are apart from the first
    have untouched : ∀ y ∈ rest, ∀ s' ∈ crashStates noFaults (runPut c [x.arg] st) fs,
        (∀ rel, s'.get (y.src ++ rel) = fs.get (y.src ++ rel)) ∧
        (∀ rel, s'.get (filesC H ++ [stemOf y.name] ++ rel) = fs.get (filesC H ++ [stemOf y.name] ++ rel)) := by
      intro y hy s' hs'
      obtain ⟨Ay, hne, _⟩ := later y hy
      have pa := paths_apart (sa := stemOf y.name) (na := y.name) (sb := stemOf x.name) (nb := x.name)
        Ay.apartInfo Ay.apartFiles Ax.apartInfo Ax.apartFiles gx.h1 gx.h2 (hun y hy).2 (hun y hy).1 hne.symm
        (fun e => hne (by rw [e]))
      exact ⟨fun rel => f1 s' hs' _ (pa.1 rel), fun rel => f1 s' hs' _ (pa.2.1 rel)⟩
    rcases mem_cons_run W hints HI s hs with h | h
    · -- the first argument is in flight
      rcases List.mem_cons.1 hz with rfl | hz
      · have := hinvx s h
        exact ⟨this.whole, this.infoFirst⟩
      · obtain ⟨u1, u2⟩ := untouched z hz s h
        obtain ⟨_, _, hfree⟩ := later z hz
        refine ⟨Or.inl ⟨u1, u2⟩, fun hsome => ?_⟩
        have := u2 []
        rw [List.append_nil] at this
        rw [this, hfree] at hsome; cases hsome
    · -- the first argument is done, the rest is running from the state it left
      rcases List.mem_cons.1 hz with rfl | hz
      · have fr := n_frame hints rest _ W' HI' s h
        have ap : ∀ y ∈ rest, (∀ rel, ApartItem H y (z.src ++ rel)) ∧
            (∀ rel, ApartItem H y (filesC H ++ [stemOf z.name] ++ rel)) ∧ ApartItem H y (infoC H ++ [z.name]) := by
          intro y hy
          obtain ⟨Ay, hne, _⟩ := later y hy
          exact paths_apart Ax.apartInfo Ax.apartFiles Ay.apartInfo Ay.apartFiles gx.h1 gx.h2 (hun y hy).1 (hun y hy).2 hne
            (fun e => hne (by rw [e]))
        have e1 : ∀ rel, s.get (z.src ++ rel) = none := fun rel => by
          rw [fr _ (fun y hy => (ap y hy).1 rel)]; exact T.gone rel
        have e2 : ∀ rel, s.get (filesC H ++ [stemOf z.name] ++ rel) = fs.get (z.src ++ rel) := fun rel => by
          rw [fr _ (fun y hy => (ap y hy).2.1 rel)]; exact T.whole rel
        have e3 : s.get (infoC H ++ [z.name]) = _ := fr _ (fun y hy => (ap y hy).2.2)
        refine ⟨Or.inr ⟨e2, e1⟩, fun _ => ?_⟩
        have hsome : ((run noFaults (homeCore c H z.P z.n st) { fs := fs }).2.fs.get (filesC H ++ [stemOf z.name])).isSome = true := by
          have := T.whole []
          rw [List.append_nil, List.append_nil] at this
          rw [this]; exact Ax.present
        obtain ⟨data, m, t, hg, r1, r2, r3, r4⟩ := (hinvx _ hfin).infoFirst hsome
        rw [← hstx] at hg ⊢
        exact ⟨data, m, t, by rw [e3]; exact hg, r1, r2, r3, r4⟩
      · have I0 := ih _ W' HI' s h z hz
        obtain ⟨u1, u2⟩ := untouched z hz _ hfin
        refine ⟨?_, I0.infoFirst⟩
        rcases I0.whole with ⟨a1, a2⟩ | ⟨a1, a2⟩
        · exact Or.inl ⟨fun rel => by rw [a1, u1], fun rel => by rw [a2, u2]⟩
        · exact Or.inr ⟨fun rel => by rw [a1, u1], a2⟩

end TrashVerif.Proofs.C05SeqHome
