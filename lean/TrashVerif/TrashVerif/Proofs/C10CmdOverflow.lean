/-
  Proofs/C10CmdOverflow.lean — the DAYS overflow at the level of the whole command: the run over the
  directories before the first dated entry (orphan passes only), then the crash.
-/
import TrashVerif.Proofs.C10CmdTop
namespace TrashVerif.Proofs.C10Cmd
open TrashVerif Prog FS PutCore PutLemmas C09Hist C10Loop C12Cmd C10Cmd
open TrashVerif.Proofs.C10Loop
open TrashVerif.Proofs.C12Cmd
open TrashVerif.Proofs.C14LoopDir (dir_scan)
open TrashVerif.Proofs.C14LoopMulti (beside_refl listed_beside okToDelete_beside apart_region)

theorem okToDelete_of_dated {fs : FS} {cwd : CPath} {o : EmptyOpts} {days : Nat} {i text : Bytes} {dt : Date}
    (hd : o.days = some days) (hov : ∀ dt, olderThan days o.now o.nowUs dt = .overflow)
    (h1 : contentsOf fs cwd i = some text) (h2 : parseDeletionDate text = some dt) :
    okToDelete fs cwd o i = .crash .overflow := by
  unfold okToDelete
  rw [hd]
  simp only [h1, h2, hov dt]

theorem okToDelete_of_undated {fs : FS} {cwd : CPath} {o : EmptyOpts} {days : Nat} {i : Bytes}
    (hd : o.days = some days) (h : ¬ ∃ text dt, contentsOf fs cwd i = some text ∧ parseDeletionDate text = some dt) :
    okToDelete fs cwd o i = .keep := by
  unfold okToDelete
  rw [hd]
  simp only []
  cases h1 : contentsOf fs cwd i with
  | none => rfl
  | some text =>
    simp only []
    cases h2 : parseDeletionDate text with
    | none => rfl
    | some dt => exact absurd ⟨text, dt, h1, h2⟩ h

theorem emptyWorld_prefix {fs : FS} {pre rest : List TDir} (W : EmptyWorld fs (pre ++ rest)) : EmptyWorld fs pre :=
  ⟨⟨W.world.wf, fun d hd => W.world.plain d (List.mem_append_left _ hd), (List.pairwise_append.1 W.world.apart).1⟩,
   fun d hd => W.orph d (List.mem_append_left _ hd)⟩

theorem infoStrs_split (t : Bytes) (a c : List Bytes) (n : Bytes) :
    infoStrs t (a ++ n :: c) = infoStrs t a ++ infoStr t n :: infoStrs t c := by
  unfold infoStrs
  rw [List.map_append, List.map_cons]

/-- the loop over the trash directories when now − DAYS days is not representable -/
theorem emptyDirs_overflow (o : EmptyOpts) (hdry : o.dryRun = false) (cwd : CPath) (days : Nat) (hdays : o.days = some days)
    (hov : ∀ dt, olderThan days o.now o.nowUs dt = .overflow)
    (fs : FS) (pre post : List TDir) (d : TDir) (npre npost : List Bytes) (n : Bytes)
    (W : EmptyWorld fs (pre ++ d :: post)) (hnames : d.names = npre ++ n :: npost)
    (hpre : ∀ e ∈ pre, ∀ m ∈ e.names, ¬ Dated fs cwd e m)
    (hnpre : ∀ m ∈ npre, ¬ Dated fs cwd d m) (hn : Dated fs cwd d n) :
    (run noFaults (emptyDirs cwd o ((pre ++ d :: post).map TDir.pair)) { fs := fs }).1 = some .overflow ∧
    PurgedAll fs (run noFaults (emptyDirs cwd o ((pre ++ d :: post).map TDir.pair)) { fs := fs }).2.fs pre (swept fs cwd o) ∧
    (∀ q, (∀ e ∈ pre, ¬ e.I <+: q ∧ ¬ e.F <+: q) →
      (run noFaults (emptyDirs cwd o ((pre ++ d :: post).map TDir.pair)) { fs := fs }).2.fs.get q = fs.get q) := by
  have Wpre := emptyWorld_prefix W
  have hkeep : ∀ e ∈ pre, ∀ m ∈ e.names, okToDelete fs cwd o (infoStr (toStr e.T) m) = .keep :=
    fun e he m hm => okToDelete_of_undated hdays (hpre e he m hm)
  obtain ⟨hnone, P, ff, fd, fw⟩ := emptyDirs_world o hdry cwd fs pre Wpre
    (fun e he m hm c h => by rw [hkeep e he m hm] at h; cases h)
  rw [List.map_append, emptyDirs_append, hnone]
  simp only [List.map_cons]
  generalize (run noFaults (emptyDirs cwd o (pre.map TDir.pair)) { fs := fs }).2 = s1 at P ff fd fw
  have hdmem : d ∈ pre ++ d :: post := List.mem_append_right _ List.mem_cons_self
  have hap : ∀ e ∈ pre, Apart e d := fun e he => (List.pairwise_append.1 W.world.apart).2.2 e he d List.mem_cons_self
  have B : C14Loop.Beside d.I d.F fs s1.fs :=
    ⟨fd, P.mounts, fun q hq => ff q fun e he => apart_region (a := toC14 d) (c := toC14 e) (apart_conv (apart_symm (hap e he))) hq⟩
  have M := dirsSetting_of_world cwd W
  have hm14 : toC14 d ∈ (pre ++ d :: post).map toC14 := List.mem_map.2 ⟨d, hdmem, rfl⟩
  have D : C14Loop.DirSetting fs cwd (toStr d.T) d.I d.F := M.robust (toC14 d) hm14 fs (beside_refl _ _ _) W.world.wf
  have D1 : C14Loop.DirSetting s1.fs cwd (toStr d.T) d.I d.F := M.robust (toC14 d) hm14 s1.fs B fw
  have hl : C14Loop.listed fs d.I = d.names := listed_eq (W.world.plain d hdmem)
  have hscan : infosOf s1.fs cwd (toStr d.T) = .ok (infoStrs (toStr d.T) npre ++ infoStr (toStr d.T) n :: infoStrs (toStr d.T) npost) := by
    rw [(dir_scan D1).1, listed_beside B, hl, hnames, infoStrs_split]
  have hdec : ∀ m ∈ d.names, okToDelete s1.fs cwd o (infoStr (toStr d.T) m) = okToDelete fs cwd o (infoStr (toStr d.T) m) :=
    fun m hm => okToDelete_beside B D D1 o (by rw [hl]; exact hm)
  have hres : run noFaults (emptyDirs cwd o (d.pair :: post.map TDir.pair)) s1 = (some .overflow, s1) := by
    refine Proofs.C10Cmd.emptyDirs_crash_first noFaults cwd o (toStr d.T) d.v _ s1 _ _ _ .overflow hscan (fun i hi => ?_) ?_
    · obtain ⟨m, hm, rfl⟩ := List.mem_map.1 hi
      rw [hdec m (by rw [hnames]; exact List.mem_append_left _ hm)]
      exact okToDelete_of_undated hdays (hnpre m hm)
    · rw [hdec n (by rw [hnames]; exact List.mem_append_right _ List.mem_cons_self)]
      obtain ⟨text, dt, h1, h2⟩ := hn
      exact okToDelete_of_dated hdays hov h1 h2
  rw [hres]
  exact ⟨rfl, P, ff⟩

/-- the whole command -/
theorem empty_command_stops_at_overflow (fs : FS) (c : ReadCfg) (o : EmptyOpts) (reply : Option Bytes) (days : Nat)
    (pre post : List TDir) (d : TDir) (npre npost : List Bytes) (n : Bytes)
    (hscan : foundDirs (selectTrashDirs fs c o.userDirs) = (pre ++ d :: post).map TDir.pair)
    (W : EmptyWorld fs (pre ++ d :: post))
    (hdays : o.days = some days) (hdry : o.dryRun = false)
    (hgo : o.interactive = false ∨ ∃ r, reply = some r ∧ emptyReplyYes r = true)
    (hov : ∀ dt, olderThan days o.now o.nowUs dt = .overflow)
    (hnames : d.names = npre ++ n :: npost)
    (hpre : ∀ e ∈ pre, ∀ m ∈ e.names, ¬ Dated fs c.cwd e m)
    (hnpre : ∀ m ∈ npre, ¬ Dated fs c.cwd d m) (hn : Dated fs c.cwd d n) :
    (R c o reply fs).1.exit = 1 ∧ (R c o reply fs).1.crash = some .overflow ∧
    (∀ e ∈ pre, ∀ m ∈ orphans fs e, PayloadGone (R c o reply fs).2.fs e m) ∧
    (∀ e ∈ pre, ∀ m ∈ e.names, Intact fs (R c o reply fs).2.fs e m) ∧
    PurgedAll fs (R c o reply fs).2.fs pre (fun e => (orphans fs e).map infoNameOf) ∧
    (∀ e ∈ d :: post, ∀ q, e.T <+: q → (R c o reply fs).2.fs.get q = fs.get q) ∧
    (∀ q, (∀ e ∈ pre, ¬ FS.under e.I q = true ∧ ¬ FS.under e.F q = true) → (R c o reply fs).2.fs.get q = fs.get q) := by
  obtain ⟨hc, P, ff⟩ := emptyDirs_overflow o hdry c.cwd days hdays hov fs pre post d npre npost n W hnames hpre hnpre hn
  obtain ⟨h1, h2⟩ := runEmpty_crash c o reply fs _ .overflow hgo hscan hc
  unfold R
  rw [h1, h2]
  have Wpre := emptyWorld_prefix W
  have hsel : ∀ e ∈ pre, emptySel fs c.cwd o e = [] := by
    intro e he
    unfold emptySel emptySelected
    rw [List.filter_eq_nil_iff]
    intro m hm
    rw [okToDelete_of_undated hdays (hpre e he m hm)]
    decide
  have hsw : ∀ e ∈ pre, swept fs c.cwd o e = (orphans fs e).map infoNameOf := fun e he => by
    unfold swept; rw [hsel e he, List.nil_append]
  have P' : PurgedAll fs (run noFaults (emptyDirs c.cwd o ((pre ++ d :: post).map TDir.pair)) { fs := fs }).2.fs pre
      (fun e => (orphans fs e).map infoNameOf) :=
    ⟨fun e he m hm rel => P.infoGone e he m (by rw [hsw e he]; exact hm) rel,
     fun e he m hm rel => P.payloadGone e he m (by rw [hsw e he]; exact hm) rel,
     fun q hq => P.frame q fun e he => ⟨(hq e he).1, (hq e he).2.1, fun m hm => (hq e he).2.2 m (by rw [← hsw e he]; exact hm)⟩,
     P.dirs, P.mounts⟩
  refine ⟨rfl, rfl, fun e he m hm => orphan_gone P he hm, fun e he m hm => ?_, P', fun e he q hq => ?_, fun q hq => ?_⟩
  · refine intact_of_not_selected c.cwd Wpre.world P (swept_isInfo Wpre) he ((plainDir_nodup (Wpre.world.plain e he)).2 m hm) ?_
    rw [hsw e he]
    exact listed_not_orphan Wpre he hm
  · refine ff q fun e' he' => ?_
    have ha : Apart e' e := (List.pairwise_append.1 W.world.apart).2.2 e' he' e he
    have hne : ¬ e'.T <+: q := apart_off ha hq
    exact ⟨fun h => hne ((T_pfx_I e').trans h), fun h => hne ((T_pfx_F e').trans h)⟩
  · exact ff q fun e he => ⟨fun h => (hq e he).1 ((under_iff _ _).2 h), fun h => (hq e he).2 ((under_iff _ _).2 h)⟩

end TrashVerif.Proofs.C10Cmd
