/-
  Proofs/C01SeqEx.lean — a concrete three-argument world for Props/C01Seq.lean (kernel-evaluated):
  HOME=/h with its trash directory, the file `/p/x`, the directory tree `/q/d` (`in`, `sub/deep`),
  nothing at `/nope`; `trash-put /p/x /nope /q/d`.
-/
import TrashVerif.Props.C01SeqDefs
import TrashVerif.Proofs.C01Seq
import TrashVerif.Proofs.C16Indep
import TrashVerif.Proofs.C16Eval
namespace TrashVerif.Proofs.C01SeqEx
open TrashVerif Prog FS PutCore C16Indep C16Seq C01Seq
open TrashVerif.Proofs.C16Eval
open TrashVerif.Proofs.C16IndepHome
open TrashVerif.Proofs.C16IndepHome.Ex (dN H cfgH st0 plain_of_takes)

def fs3 : FS := FS.ofList [([], dN), (H, dN), (H ++ [b ".local"], dN), (H ++ [b ".local", b "share"], dN),
  (trashC H, dN), (filesC H, dN), (infoC H, dN), ([b "p"], dN), ([b "p", b "x"], .file (b "one") 0o644 7),
  ([b "q"], dN), ([b "q", b "d"], .dir 0o750 5), ([b "q", b "d", b "in"], .file (b "two") 0o600 3),
  ([b "q", b "d", b "sub"], .dir 0o755 4), ([b "q", b "d", b "sub", b "deep"], .file (b "three") 0o644 2)] [[]]

def ix : Item := ⟨[b "p"], b "x", b "x.trashinfo"⟩
def id : Item := ⟨[b "q"], b "d", b "d.trashinfo"⟩
def args3 : List Bytes := [b "/p/x", b "/nope", b "/q/d"]

def T : CPath := trashC H

/-- the final state of `trash-put /p/x /nope /q/d`, node for node -/
def expected : List (CPath × Node) :=
  [(filesC H ++ [b "d"], .dir 0o750 5), (filesC H ++ [b "d", b "in"], .file (b "two") 0o600 3),
   (filesC H ++ [b "d", b "sub"], .dir 0o755 4), (filesC H ++ [b "d", b "sub", b "deep"], .file (b "three") 0o644 2),
   (infoC H ++ [b "d.trashinfo"], .file (b "[Trash Info]\nPath=/q/d\nDeletionDate=D\n") 0o600 0),
   (filesC H ++ [b "x"], .file (b "one") 0o644 7),
   (infoC H ++ [b "x.trashinfo"], .file (b "[Trash Info]\nPath=/p/x\nDeletionDate=D\n") 0o600 0),
   ([], dN), (H, dN), (H ++ [b ".local"], dN), (H ++ [b ".local", b "share"], dN), (trashC H, dN), (filesC H, dN),
   (infoC H, dN), ([b "p"], dN), ([b "q"], dN)]

theorem run3 :
    (run noFaults (runPutS cfgH args3 st0) { fs := fs3 }).2.fs.toList = expected ∧
    (run noFaults (runPutS cfgH args3 st0) { fs := fs3 }).1.outcomes =
      [(b "/p/x", .trashed (b "/h/.local/share/Trash") (b "x.trashinfo")), (b "/nope", .failedMissing),
       (b "/q/d", .trashed (b "/h/.local/share/Trash") (b "d.trashinfo"))] ∧
    (run noFaults (runPutS cfgH args3 st0) { fs := fs3 }).1.exit = 74 ∧
    (run noFaults (runPutS cfgH args3 st0) { fs := fs3 }).2.outs = [.stderr "cannot-trash" (b "/nope")] := by
  decide +kernel

theorem args3_eq : args3 = [ix.arg, b "/nope", id.arg] := by decide +kernel

theorem world3 : HomeWorld cfgH fs3 H :=
  { noTrashDir := rfl, noForcedVolume := rfl, noPrompt := by decide, xdgUnset := rfl, home := rfl,
    homeNotRoot := by decide, homeNames := by unfold TrashVerif.C07.GoodNames; decide +kernel,
    filesPlain := plain_of_takes (by decide +kernel), infoPlain := plain_of_takes (by decide +kernel),
    rootMounted := by decide +kernel, filesSameVolume := by decide +kernel }

theorem argX : GoodArg fs3 H ix.P ix.n :=
  { names := by unfold TrashVerif.C07.GoodNames; decide +kernel, parentPlain := plain_of_takes (by decide +kernel),
    present := by decide +kernel, notMount := by decide +kernel, sameVolume := by decide +kernel,
    apartInfo := by decide +kernel, apartFiles := by decide +kernel }

theorem argD : GoodArg fs3 H id.P id.n :=
  { names := by unfold TrashVerif.C07.GoodNames; decide +kernel, parentPlain := plain_of_takes (by decide +kernel),
    present := by decide +kernel, notMount := by decide +kernel, sameVolume := by decide +kernel,
    apartInfo := by decide +kernel, apartFiles := by decide +kernel }

theorem coreX : (run noFaults (homeCore cfgH H ix.P ix.n st0) { fs := fs3 }).1.1 = .ok ix.name :=
  C09.Cex.okName_eq (by decide +kernel)
theorem coreD : (run noFaults (homeCore cfgH H id.P id.n st0) { fs := fs3 }).1.1 = .ok id.name :=
  C09.Cex.okName_eq (by decide +kernel)

theorem b_d : b "d" = [100] := by decide +kernel
theorem b_us : b "_" = [95] := by decide +kernel
theorem b_xt : b "x.trashinfo" = 120 :: b ".trashinfo" := by decide +kernel

theorem variantsApart : NoVariant ix id := by
  intro suffix hs tl h
  have h : trashinfoBasename (b "d") suffix tl = b "x.trashinfo" := h
  rcases hs with rfl | ⟨k, rfl⟩
  · cases tl <;> revert h <;> decide +kernel
  · have hh := congrArg List.head? h
    rw [b_xt, b_d, b_us] at hh
    cases tl <;> simp [trashinfoBasename] at hh

theorem items3 : HomeItems cfgH fs3 H st0 [ix, id] :=
  { good := by
      intro x hx
      simp only [List.mem_cons, List.not_mem_nil, or_false] at hx
      rcases hx with rfl | rfl
      · exact argX
      · exact argD
    core := by
      intro x hx
      simp only [List.mem_cons, List.not_mem_nil, or_false] at hx
      rcases hx with rfl | rfl
      · exact coreX
      · exact coreD
    unrel := List.Pairwise.cons (by
        intro y hy
        simp only [List.mem_cons, List.not_mem_nil, or_false] at hy
        subst hy; unfold Unrel; decide +kernel) (List.Pairwise.cons (fun _ h => (by cases h)) List.Pairwise.nil)
    names := List.Pairwise.cons (by
        intro y hy
        simp only [List.mem_cons, List.not_mem_nil, or_false] at hy
        subst hy; exact variantsApart) (List.Pairwise.cons (fun _ h => (by cases h)) List.Pairwise.nil) }

/-- `/nope` is inert where it stands: in the file system the trashing of `/p/x` left -/
theorem nope_inert : Inert cfgH (run noFaults (homeCore cfgH H ix.P ix.n st0) { fs := fs3 }).2.fs (b "/nope") :=
  TrashVerif.Proofs.C16Indep.Cex.inert_of (by decide +kernel)

theorem interleaved3 : Interleaved cfgH H st0 fs3 args3 [ix, id] := by
  rw [args3_eq]
  exact .item (.inert nope_inert (.item (.nil _)))

end TrashVerif.Proofs.C01SeqEx
