/-
  Proofs/C14LoopPlain.lean — the `DirSetting` of Props/C14LoopDefs.lean discharged for a trash directory
  given by its canonical spelling (no symbolic link on the way), from facts about the INITIAL state.
-/
import TrashVerif.Proofs.C14LoopDir
namespace TrashVerif.Proofs.C14LoopPlain
open TrashVerif Prog FS PutCore PutLemmas C04 C11 C09Hist C10Loop C14Loop
open TrashVerif.Proofs.C09Hist (GeoI mem_infoNames nodup_infoNames)
open TrashVerif.Proofs.C10Loop TrashVerif.Proofs.C14Loop TrashVerif.Proofs.C14LoopDir
open TrashVerif.Proofs.C07 (Plain GoodNames)
open TrashVerif.Proofs.C16IndepHome (resolve_leaf pjoin_toStr goodNames_append goodNames_single good_info good_files)

theorem isTrashinfoName_infoNameOf {m : Bytes} (h1 : m ≠ []) (h2 : m ≠ [dot]) (h3 : m ≠ dotdot) :
    isTrashinfoName (infoNameOf m) = true := by
  unfold isTrashinfoName Bytes.endsWith infoNameOf
  have : (m ++ trashinfoExt).length - trashinfoExt.length = m.length := by simp
  simp only [this, List.take_left, Bool.and_eq_true, decide_eq_true_eq, ne_eq, List.isSuffixOf_iff_suffix]
  exact ⟨List.suffix_append _ _, ⟨h1, h2⟩, h3⟩

theorem plain_dir_setting (fs : FS) (cwd T : CPath)
    (hT0 : T ≠ []) (hTn : GoodNames T)
    (hI : Plain fs (T ++ [b "info"])) (hF : Plain fs (T ++ [b "files"])) (wf : DomWf fs)
    (goodL : ∀ n ∈ listed fs (T ++ [b "info"]), slash ∉ n ∧ n.length ≤ 255)
    (notLink : ∀ n ∈ listed fs (T ++ [b "info"]), fs.isLinkAt (T ++ [b "info"] ++ [n]) = false)
    (infoTree : ∀ n ∈ listed fs (T ++ [b "info"]), TreeOk fs (T ++ [b "info"] ++ [n]))
    (payTree : ∀ n ∈ listed fs (T ++ [b "info"]), TreeOk fs (T ++ [b "files"] ++ [stemOf n]))
    (goodP : ∀ m, (fs.get (T ++ [b "files"] ++ [m])).isSome = true →
      m ≠ [] ∧ slash ∉ m ∧ m ≠ [dot] ∧ m ≠ dotdot ∧ m.length ≤ 245)
    (orphTree : ∀ m ∈ orphanNames fs (T ++ [b "info"]) (T ++ [b "files"]),
      TreeOk fs (T ++ [b "files"] ++ [m]) ∧ TreeOk fs (T ++ [b "info"] ++ [infoNameOf m])) :
    DirSetting fs cwd (toStr T) (T ++ [b "info"]) (T ++ [b "files"]) := by
  have ospec : ∀ {m}, m ∈ orphanNames fs (T ++ [b "info"]) (T ++ [b "files"]) ↔
      (fs.get (T ++ [b "files"] ++ [m])).isSome = true ∧ fs.get (T ++ [b "info"] ++ [infoNameOf m]) = none := by
    intro m
    unfold orphanNames
    rw [List.mem_filter, mem_infoNames wf m]
    simp only [C09.bag, Option.isNone_iff_eq_none]
  have lpres : ∀ {n}, n ∈ listed fs (T ++ [b "info"]) → (fs.get (T ++ [b "info"] ++ [n])).isSome = true ∧ isTrashinfoName n = true := by
    intro n hn
    obtain ⟨h1, h2⟩ := List.mem_filter.1 hn
    exact ⟨(mem_infoNames wf n).1 h1, h2⟩
  have hextlen : trashinfoExt.length = 10 := by decide +kernel
  have hextslash : slash ∉ trashinfoExt := by decide +kernel
  have S : Setting fs cwd (toStr T) (T ++ [b "info"]) (T ++ [b "files"])
      (listed fs (T ++ [b "info"]) ++ (orphanNames fs (T ++ [b "info"]) (T ++ [b "files"])).map infoNameOf) := by
    refine plain_setting fs cwd T _ hT0 hTn hI hF wf ?_ ?_ ?_ ?_ ?_ ?_
    · refine List.nodup_append.2 ⟨(nodup_infoNames _ _).filter _,
        List.Pairwise.map infoNameOf (fun a c hac e => hac (infoNameOf_inj e)) ((nodup_infoNames _ _).filter _), ?_⟩
      intro a ha c hc e
      obtain ⟨m, hm, rfl⟩ := List.mem_map.1 hc
      have := (lpres ha).1
      rw [e, (ospec.1 hm).2] at this
      cases this
    · intro n hn
      rcases List.mem_append.1 hn with h | h
      · exact (lpres h).2
      · obtain ⟨m, hm, rfl⟩ := List.mem_map.1 h
        obtain ⟨g1, _, g3, g4, _⟩ := goodP m (ospec.1 hm).1
        exact isTrashinfoName_infoNameOf g1 g3 g4
    · intro n hn
      rcases List.mem_append.1 hn with h | h
      · exact goodL n h
      · obtain ⟨m, hm, rfl⟩ := List.mem_map.1 h
        obtain ⟨_, g2, _, _, g5⟩ := goodP m (ospec.1 hm).1
        refine ⟨fun hs => ?_, ?_⟩
        · rcases List.mem_append.1 hs with hs | hs
          · exact g2 hs
          · exact hextslash hs
        · unfold infoNameOf; rw [List.length_append, hextlen]; omega
    · intro n hn
      rcases List.mem_append.1 hn with h | h
      · exact notLink n h
      · obtain ⟨m, hm, rfl⟩ := List.mem_map.1 h
        unfold isLinkAt
        rw [(ospec.1 hm).2]
    · intro n hn
      rcases List.mem_append.1 hn with h | h
      · exact infoTree n h
      · obtain ⟨m, hm, rfl⟩ := List.mem_map.1 h
        exact (orphTree m hm).2
    · intro n hn
      rcases List.mem_append.1 hn with h | h
      · exact payTree n h
      · obtain ⟨m, hm, rfl⟩ := List.mem_map.1 h
        rw [stemOf_infoNameOf]
        exact (orphTree m hm).1
  have g := setting_geo S
  have g' : GeoI (T ++ [b "files"]) (T ++ [b "info"]) := ⟨g.hFI, g.hIF⟩
  have gI : GoodNames (T ++ [b "info"]) := goodNames_append hTn good_info
  have gF : GoodNames (T ++ [b "files"]) := goodNames_append hTn good_files
  have plainT : ∀ fs', Plain fs' (T ++ [b "files"]) → Plain fs' T :=
    fun fs' h q hq => h q (hq.trans (List.prefix_append _ _))
  have plainF : ∀ fs', Within (T ++ [b "info"]) (T ++ [b "files"]) fs fs' → Plain fs' (T ++ [b "files"]) := by
    intro fs' hW
    have hW' : Within (T ++ [b "files"]) (T ++ [b "info"]) fs fs' :=
      ⟨hW.mounts, fun q a c d e => hW.same q c a e d, hW.dirs.2, hW.dirs.1⟩
    exact plain_within g' hW' hF
  have eI : pjoin (toStr T) (b "info") = toStr (T ++ [b "info"]) := pjoin_toStr hT0 hTn _ (by decide +kernel)
  have eF : pjoin (toStr T) (b "files") = toStr (T ++ [b "files"]) := pjoin_toStr hT0 hTn _ (by decide +kernel)
  have notlink_of_dir : ∀ {fs' : FS} {p : CPath}, fs'.isDirAt p = true → fs'.isLinkAt p = false := by
    intro fs' p h
    obtain ⟨m, t, hg⟩ := isDirAt_get h
    simp [isLinkAt, hg, Node.isLink]
  refine ⟨S, ?_, fun fs' hW => ?_, fun m hm => ?_, fun fs' hW m hm => ?_⟩
  · rw [eI]
    exact resolve_follow_of_notLink (resolve_leaf fs cwd T _ (plainT fs hF) gI) (notlink_of_dir (hI _ List.prefix_rfl))
  · rw [eF]
    have hp := plainF fs' hW
    exact resolve_follow_of_notLink (resolve_leaf fs' cwd T _ (plainT fs' hp) gF) (notlink_of_dir (hp _ List.prefix_rfl))
  · obtain ⟨g1, _, g3, g4, _⟩ := goodP m hm
    exact isTrashinfoName_infoNameOf g1 g3 g4
  · obtain ⟨g1, g2, g3, g4, g5⟩ := goodP m (ospec.1 hm).1
    have gm : GoodNames [m] := goodNames_single ⟨g1, g2, g3, g4, by omega⟩
    unfold orphanStr
    rw [eF, pjoin_toStr (by simp) gF m (head_ne_slash gm)]
    exact resolve_leaf fs' cwd _ m (plainF fs' hW) (goodNames_append gF gm)

end TrashVerif.Proofs.C14LoopPlain
