/-
  Proofs/C13.lean — helper lemmas for Props/C13.lean (reply grammar, scope test, ordering, and the
  directory `trash-restore` restores from: `restoreScopeDir`).
-/
import TrashVerif.Spec.C13
import TrashVerif.Model.Cmds
import TrashVerif.Proofs.C07
import TrashVerif.Proofs.C02CmdEval
namespace TrashVerif.Proofs.C13
open TrashVerif Bytes TrashVerif.C13

theorem forall_u8 {P : UInt8 → Prop} (h : ∀ n : Fin 256, P (UInt8.ofNat n.val)) : ∀ c, P c := by
  intro c
  have := h ⟨c.toNat, c.toNat_lt⟩
  simpa using this

/-- characters an integer literal may contain -/
def okc (c : UInt8) : Bool := isPyWs c || c == 43 || isDigit c || c == 95

theorem okc_facts : ∀ c : UInt8, okc c = true → c ≠ 44 ∧ c ≠ 45 := by
  apply forall_u8; decide +kernel

theorem digit_facts : ∀ c : UInt8, isDigit c = true → isPyWs c = false ∧ c ≠ 43 ∧ c ≠ 45 ∧ c ≠ 95 := by
  apply forall_u8; decide +kernel

theorem ws43 : isPyWs 43 = false := by decide +kernel
theorem dig95 : isDigit 95 = false := by decide +kernel

/-! ### dropWhile / stripWs -/

theorem dropWhile_pre {α} (p : α → Bool) (pre : List α) (x : α) (rest : List α)
    (hpre : ∀ c ∈ pre, p c = true) (hx : p x = false) :
    (pre ++ x :: rest).dropWhile p = x :: rest := by
  induction pre with
  | nil => simp [hx]
  | cons a as ih =>
    have ha := hpre a (by simp)
    simp only [List.cons_append, List.dropWhile_cons, ha, if_true]
    exact ih (fun c hc => hpre c (by simp [hc]))

/-- stripping a string whose core starts and ends with non-blank characters -/
theorem stripWs_core (pre post : Bytes) (x y : UInt8)
    (hpre : ∀ c ∈ pre, isPyWs c = true) (hpost : ∀ c ∈ post, isPyWs c = true)
    (hx : isPyWs x = false) (hy : isPyWs y = false) (core : Bytes)
    (h1 : ∃ t, core = x :: t) (h2 : ∃ t, core = t ++ [y]) :
    stripWs (pre ++ core ++ post) = core := by
  obtain ⟨t1, e1⟩ := h1
  obtain ⟨t2, e2⟩ := h2
  unfold stripWs
  have a : (pre ++ core ++ post).dropWhile isPyWs = core ++ post := by
    rw [e1]; simpa using dropWhile_pre isPyWs pre x (t1 ++ post) hpre hx
  rw [a]
  have c : (core ++ post).reverse = post.reverse ++ y :: t2.reverse := by
    rw [e2]; simp
  rw [c, dropWhile_pre isPyWs post.reverse y t2.reverse (by simpa using hpost) hy, e2]
  simp

theorem of_mem_takeWhile {α} (p : α → Bool) : ∀ (l : List α) (c : α), c ∈ l.takeWhile p → p c = true := by
  intro l
  induction l with
  | nil => intro c hc; simp at hc
  | cons a as ih =>
    intro c hc
    rw [List.takeWhile_cons] at hc
    split at hc
    · rename_i ha
      rcases List.mem_cons.1 hc with h | h
      · subst h; exact ha
      · exact ih c h
    · simp at hc

theorem stripWs_decomp (s : Bytes) : ∃ pre post, (∀ c ∈ pre, isPyWs c = true) ∧
    (∀ c ∈ post, isPyWs c = true) ∧ s = pre ++ stripWs s ++ post := by
  let t := s.dropWhile isPyWs
  refine ⟨s.takeWhile isPyWs, (t.reverse.takeWhile isPyWs).reverse, ?_, ?_, ?_⟩
  · intro c hc; exact of_mem_takeWhile _ _ _ hc
  · intro c hc; exact of_mem_takeWhile _ _ _ (List.mem_reverse.1 hc)
  · have h1 : s = s.takeWhile isPyWs ++ t := (List.takeWhile_append_dropWhile (p := isPyWs) (l := s)).symm
    have h2 : t.reverse = t.reverse.takeWhile isPyWs ++ t.reverse.dropWhile isPyWs :=
      (List.takeWhile_append_dropWhile (p := isPyWs) (l := t.reverse)).symm
    have h3 : t = (t.reverse.dropWhile isPyWs).reverse ++ (t.reverse.takeWhile isPyWs).reverse := by
      have := congrArg List.reverse h2
      rw [List.reverse_append, List.reverse_reverse] at this
      exact this
    show s = s.takeWhile isPyWs ++ (t.reverse.dropWhile isPyWs).reverse ++ _
    rw [List.append_assoc, ← h3]; exact h1

/-! ### digits -/

theorem digits_head {s n} (h : Digits s n) : ∃ c t, s = c :: t ∧ isDigit c = true := by
  induction h with
  | one c hc => exact ⟨c, [], rfl, hc⟩
  | snoc c _ hc ih => obtain ⟨d, t, e, hd⟩ := ih; exact ⟨d, t ++ [c], by simp [e], hd⟩
  | under c _ hc ih => obtain ⟨d, t, e, hd⟩ := ih; exact ⟨d, t ++ [95, c], by simp [e], hd⟩

theorem digits_last {s n} (h : Digits s n) : ∃ c t, s = t ++ [c] ∧ isDigit c = true := by
  cases h with
  | one c hc => exact ⟨c, [], rfl, hc⟩
  | @snoc s _ c _ hc => exact ⟨c, s, rfl, hc⟩
  | @under s _ c _ hc => exact ⟨c, s ++ [95], by simp, hc⟩

theorem digits_okc {s n} (h : Digits s n) : ∀ c ∈ s, okc c = true := by
  induction h with
  | one c hc => intro d hd; simp at hd; subst hd; simp [okc, hc]
  | snoc c _ hc ih =>
    intro d hd; simp at hd; rcases hd with hd | hd
    · exact ih d hd
    · subst hd; simp [okc, hc]
  | under c _ hc ih =>
    intro d hd; simp at hd; rcases hd with hd | hd | hd
    · exact ih d hd
    · subst hd; simp [okc]
    · subst hd; simp [okc, hc]

theorem pyDigits_append {s n} (h : Digits s n) : ∀ t, pyDigits (s ++ t) false 0 = pyDigits t true n := by
  induction h with
  | one c hc => intro t; simp [pyDigits, hc]
  | snoc c _ hc ih => intro t; rw [List.append_assoc, ih]; simp [pyDigits, hc]
  | under c _ hc ih =>
    intro t; rw [List.append_assoc, ih]
    simp [pyDigits, hc, dig95]

theorem pyDigits_of_digits {s n} (h : Digits s n) : pyDigits s false 0 = some n := by
  have := pyDigits_append h []
  simpa [pyDigits] using this

theorem digits_of_pyDigits_aux (n : Nat) : ∀ rest : Bytes,
    (∀ s0 acc, Digits s0 acc → pyDigits rest true acc = some n → Digits (s0 ++ rest) n) ∧
    (∀ s0 acc, Digits s0 acc → pyDigits rest false acc = some n → Digits (s0 ++ 95 :: rest) n) := by
  intro rest
  induction rest with
  | nil =>
    constructor
    · intro s0 acc h0 h; simp [pyDigits] at h; subst h; simpa using h0
    · intro s0 acc h0 h; simp [pyDigits] at h
  | cons c r ih =>
    constructor
    · intro s0 acc h0 h
      unfold pyDigits at h
      split at h
      · rename_i hc
        have := ih.1 (s0 ++ [c]) _ (Digits.snoc c h0 hc) h
        simpa using this
      · split at h
        · rename_i hc
          have := ih.2 s0 acc h0 h
          rw [hc.1]; exact this
        · cases h
    · intro s0 acc h0 h
      unfold pyDigits at h
      split at h
      · rename_i hc
        have := ih.1 (s0 ++ [95, c]) _ (Digits.under c h0 hc) h
        simpa using this
      · simp at h

theorem digits_of_pyDigits {s : Bytes} {n} (h : pyDigits s false 0 = some n) : Digits s n := by
  cases s with
  | nil => simp [pyDigits] at h
  | cons c r =>
    unfold pyDigits at h
    split at h
    · rename_i hc
      have := (digits_of_pyDigits_aux n r).1 [c] _ (Digits.one c hc)
      simp only [Nat.zero_mul, Nat.zero_add] at h
      exact this h
    · simp at h

theorem pyDigits_iff (s : Bytes) (n : Nat) : pyDigits s false 0 = some n ↔ Digits s n :=
  ⟨digits_of_pyDigits, pyDigits_of_digits⟩

/-! ### `int()` -/

theorem pyInt_of_intLit {s n} (h : IntLit s n) : pyInt s = .nat n := by
  cases h with
  | mk pre post ds n plus hpre hpost hd =>
    obtain ⟨x, t1, e1, hx⟩ := digits_head hd
    obtain ⟨y, t2, e2, hy⟩ := digits_last hd
    have hpd := pyDigits_of_digits hd
    cases plus with
    | true =>
      have hs : stripWs (pre ++ (if true = true then [43] else []) ++ ds ++ post) = 43 :: ds := by
        have := stripWs_core pre post 43 y hpre hpost ws43 (digit_facts y hy).1 (43 :: ds)
          ⟨ds, rfl⟩ ⟨43 :: t2, by simp [e2]⟩
        simpa using this
      unfold pyInt
      rw [hs]
      simp [hpd]
    | false =>
      have hs : stripWs (pre ++ (if false = true then [43] else []) ++ ds ++ post) = ds := by
        have := stripWs_core pre post x y hpre hpost (digit_facts x hx).1 (digit_facts y hy).1 ds
          ⟨t1, e1⟩ ⟨t2, e2⟩
        simpa using this
      unfold pyInt
      rw [hs]
      have h43 := (digit_facts x hx).2.1
      have h45 := (digit_facts x hx).2.2.1
      subst e1
      split
      · rename_i heq; cases heq
      · rename_i heq; injection heq with a _; exact absurd a h43
      · rename_i heq; injection heq with a _; exact absurd a h45
      · simp [hpd]

theorem intLit_of_pyInt {s n} (h : pyInt s = .nat n) : IntLit s n := by
  obtain ⟨pre, post, hpre, hpost, e⟩ := stripWs_decomp s
  unfold pyInt at h
  split at h
  · cases h
  · rename_i ds heq
    split at h
    · rename_i m hm
      injection h with h; subst h
      have := IntLit.mk pre post ds m true hpre hpost (digits_of_pyDigits hm)
      rw [e, heq]; simpa using this
    · cases h
  · split at h <;> cases h
  · rename_i ds _ _ _
    split at h
    · rename_i m hm
      injection h with h; subst h
      have := IntLit.mk pre post (stripWs s) m false hpre hpost (digits_of_pyDigits hm)
      rw [e]; simpa using this
    · cases h

theorem pyInt_iff (s : Bytes) (n : Nat) : pyInt s = .nat n ↔ IntLit s n :=
  ⟨intLit_of_pyInt, pyInt_of_intLit⟩

theorem intLit_okc {s n} (h : IntLit s n) : ∀ c ∈ s, okc c = true := by
  cases h with
  | mk pre post ds n plus hpre hpost hd =>
    intro c hc
    simp only [List.mem_append] at hc
    rcases hc with ((hc | hc) | hc) | hc
    · simp [okc, hpre c hc]
    · cases plus <;> simp at hc
      subst hc; simp [okc]
    · exact digits_okc hd c hc
    · simp [okc, hpost c hc]

theorem intLit_no_comma {s n} (h : IntLit s n) : (44 : UInt8) ∉ s :=
  fun hm => (okc_facts 44 (intLit_okc h 44 hm)).1 rfl

theorem intLit_no_dash {s n} (h : IntLit s n) : (45 : UInt8) ∉ s :=
  fun hm => (okc_facts 45 (intLit_okc h 45 hm)).2 rfl

theorem intLit_ne_nil {s n} (h : IntLit s n) : s ≠ [] := by
  intro e; subst e
  have := pyInt_of_intLit h
  have hb : pyInt [] = .bad := by decide +kernel
  rw [hb] at this; cases this

/-! ### `splitOn` -/

theorem splitOn_ne_nil (sep : UInt8) (s : Bytes) : splitOn sep s ≠ [] := by
  induction s with
  | nil => simp [splitOn]
  | cons c cs ih =>
    unfold splitOn
    split
    · simp
    · split <;> simp

theorem splitOn_cons_ne (sep c : UInt8) (cs : Bytes) (h : c ≠ sep) :
    ∃ p ps, splitOn sep cs = p :: ps ∧ splitOn sep (c :: cs) = (c :: p) :: ps := by
  cases hs : splitOn sep cs with
  | nil => exact absurd hs (splitOn_ne_nil sep cs)
  | cons p ps => exact ⟨p, ps, rfl, by rw [splitOn, if_neg h, hs]⟩

theorem splitOn_of_not_mem (sep : UInt8) (s : Bytes) (h : sep ∉ s) : splitOn sep s = [s] := by
  induction s with
  | nil => simp [splitOn]
  | cons c cs ih =>
    have hc : c ≠ sep := fun e => h (by simp [e])
    obtain ⟨p, ps, e1, e2⟩ := splitOn_cons_ne sep c cs hc
    rw [ih (fun hm => h (by simp [hm]))] at e1
    injection e1 with e1 e1'
    rw [e2, ← e1, ← e1']

theorem splitOn_append_sep (sep : UInt8) (a rest : Bytes) :
    splitOn sep (a ++ sep :: rest) = splitOn sep a ++ splitOn sep rest := by
  induction a with
  | nil => simp [splitOn]
  | cons c cs ih =>
    by_cases hc : c = sep
    · subst hc; simp [splitOn, ih]
    · obtain ⟨p, ps, e1, e2⟩ := splitOn_cons_ne sep c cs hc
      obtain ⟨q, qs, f1, f2⟩ := splitOn_cons_ne sep c (cs ++ sep :: rest) hc
      rw [List.cons_append, f2, e2]
      rw [ih, e1] at f1
      injection f1 with f1 f1'
      subst f1; rw [← f1']; rfl

/-- inversion: the first piece has no separator, and the remaining pieces split the remainder -/
theorem splitOn_inv (sep : UInt8) : ∀ (r p : Bytes) (ps : List Bytes), splitOn sep r = p :: ps →
    sep ∉ p ∧ ((ps = [] ∧ r = p) ∨ ∃ rest, r = p ++ sep :: rest ∧ splitOn sep rest = ps) := by
  intro r
  induction r with
  | nil =>
    intro p ps h
    rw [splitOn] at h
    injection h with h1 h2
    subst h1; subst h2; simp
  | cons c cs ih =>
    intro p ps h
    by_cases hc : c = sep
    · subst hc
      rw [splitOn, if_pos rfl] at h
      injection h with h1 h2
      subst h1
      exact ⟨by simp, Or.inr ⟨cs, by simp, h2⟩⟩
    · obtain ⟨q, qs, e1, e2⟩ := splitOn_cons_ne sep c cs hc
      rw [e2] at h
      injection h with h1 h2
      subst h1; subst h2
      obtain ⟨hq, hr⟩ := ih q qs e1
      refine ⟨by simp [hq, Ne.symm hc], ?_⟩
      rcases hr with ⟨a, e⟩ | ⟨rest, e, f⟩
      · exact Or.inl ⟨a, by rw [e]⟩
      · exact Or.inr ⟨rest, by simp [e], f⟩

theorem splitOn_pieces (sep : UInt8) : ∀ (r : Bytes), ∀ p ∈ splitOn sep r, sep ∉ p := by
  intro r
  generalize hps : splitOn sep r = ps
  induction ps generalizing r with
  | nil => intro p hp; simp at hp
  | cons q qs ih =>
    intro p hp
    obtain ⟨hq, hr⟩ := splitOn_inv sep r q qs hps
    rcases List.mem_cons.1 hp with e | hm
    · subst e; exact hq
    · rcases hr with ⟨a, _⟩ | ⟨rest, _, f⟩
      · subst a; simp at hm
      · exact ih rest f p hm

/-! ### items -/

/-- what a parsed sequence denotes -/
def den : Seq → List Nat
  | .single i => [i]
  | .range a c => inclusive a c

theorem contains_false {s : Bytes} {c : UInt8} (h : c ∉ s) : s.contains c = false := by
  simpa using h

theorem parseItem_of_item {s is} (h : Item s is) : ∃ q, parseItem s = .ok q ∧ den q = is := by
  cases h with
  | @single s n hi =>
    refine ⟨.single n, ?_, rfl⟩
    unfold parseItem
    rw [contains_false (intLit_no_dash hi), pyInt_of_intLit hi]
    simp
  | @range a c x y ha hc =>
    refine ⟨.range x y, ?_, rfl⟩
    unfold parseItem
    have h1 : (a ++ [45] ++ c).contains 45 = true := by simp
    have h2 : splitOn 45 (a ++ [45] ++ c) = [a, c] := by
      rw [List.append_assoc, List.singleton_append, splitOn_append_sep,
        splitOn_of_not_mem _ _ (intLit_no_dash ha), splitOn_of_not_mem _ _ (intLit_no_dash hc)]
      rfl
    rw [h1, h2]
    simp [intLit_ne_nil ha, intLit_ne_nil hc, pyInt_of_intLit ha, pyInt_of_intLit hc]

theorem item_of_parseItem {s q} (h : parseItem s = .ok q) : Item s (den q) := by
  unfold parseItem at h
  split at h
  · split at h
    · rename_i first last hsp
      split at h
      · cases h
      · split at h
        · rename_i a c ha hc
          injection h with h; subst h
          obtain ⟨_, hr⟩ := splitOn_inv 45 s first [last] hsp
          rcases hr with ⟨e, _⟩ | ⟨rest, e, f⟩
          · cases e
          · obtain ⟨_, hr2⟩ := splitOn_inv 45 rest last [] f
            rcases hr2 with ⟨_, e2⟩ | ⟨rest2, _, f2⟩
            · subst e2; subst e
              have := Item.range (intLit_of_pyInt ha) (intLit_of_pyInt hc)
              simpa [den] using this
            · exact absurd f2 (splitOn_ne_nil _ _)
        · cases h
    · cases h
  · split at h
    · rename_i n hn
      injection h with h; subst h
      exact Item.single (intLit_of_pyInt hn)
    · cases h

theorem parseItem_error {s e} (h : parseItem s = .error e) : e = .invalid ∨ e = .crash := by
  unfold parseItem at h
  repeat' split at h
  all_goals (cases h <;> simp)

theorem parseItems_error : ∀ (ps : List Bytes) {e}, parseItems ps = .error e → e = .invalid ∨ e = .crash := by
  intro ps
  induction ps with
  | nil => intro e h; cases h
  | cons p ps ih =>
    intro e h
    unfold parseItems at h
    split at h
    · rename_i e' he
      injection h with h; subst h
      exact parseItem_error he
    · split at h
      · rename_i e' he
        injection h with h; subst h
        exact ih he
      · cases h

/-! ### index bounds -/

theorem inclusive_rev {a c : Nat} (h : a > c) : inclusive a c = [] := by
  have : c + 1 - a = 0 := by omega
  simp [inclusive, this]

theorem mem_inclusive {a c i : Nat} : i ∈ inclusive a c ↔ a ≤ i ∧ i ≤ c := by
  simp only [inclusive, List.mem_map, List.mem_range]
  constructor
  · rintro ⟨k, hk, rfl⟩; omega
  · rintro ⟨h1, h2⟩; exact ⟨i - a, by omega, by omega⟩

theorem seqIndexes_iff (n : Nat) (q : Seq) (is : List Nat) :
    seqIndexes n q = some is ↔ den q = is ∧ ∀ i ∈ is, i < n := by
  cases q with
  | single i =>
    simp only [seqIndexes, den]
    split
    · rename_i h
      constructor
      · intro e; injection e with e; subst e; simpa using h
      · rintro ⟨e, _⟩; rw [e]
    · rename_i h
      constructor
      · intro e; cases e
      · rintro ⟨e, hb⟩; subst e; exact absurd (hb i (by simp)) h
  | range a c =>
    simp only [seqIndexes, den]
    split
    · rename_i h
      rw [inclusive_rev h]
      constructor
      · intro e; injection e with e; subst e; simp
      · rintro ⟨e, _⟩; rw [e]
    · rename_i h
      split
      · rename_i hc
        constructor
        · intro e; injection e with e; subst e
          refine ⟨rfl, ?_⟩
          intro i hi
          have := (mem_inclusive (a := a) (c := c)).1 hi
          omega
        · rintro ⟨e, _⟩; rw [← e]; rfl
      · rename_i hc
        constructor
        · intro e; cases e
        · rintro ⟨e, hb⟩; subst e
          exact absurd (hb c (mem_inclusive.2 ⟨by omega, Nat.le_refl _⟩)) hc

theorem allIndexes_iff (n : Nat) : ∀ (qs : List Seq) (is : List Nat),
    allIndexes n qs = some is ↔ (qs.map den).flatten = is ∧ ∀ i ∈ is, i < n := by
  intro qs
  induction qs with
  | nil =>
    intro is
    simp only [allIndexes, List.map_nil, List.flatten_nil]
    constructor
    · intro e; injection e with e; subst e; simp
    · rintro ⟨e, _⟩; rw [e]
  | cons q qs ih =>
    intro is
    simp only [allIndexes, List.map_cons, List.flatten_cons]
    cases h1 : seqIndexes n q with
    | none =>
      simp only []
      constructor
      · intro e; cases e
      · rintro ⟨e, hb⟩
        have : seqIndexes n q = some (den q) :=
          (seqIndexes_iff n q _).2 ⟨rfl, fun i hi => hb i (by rw [← e]; simp [hi])⟩
        rw [h1] at this; cases this
    | some x =>
      obtain ⟨hx, hxb⟩ := (seqIndexes_iff n q x).1 h1
      cases h2 : allIndexes n qs with
      | none =>
        simp only []
        constructor
        · intro e; cases e
        · rintro ⟨e, hb⟩
          have : allIndexes n qs = some (qs.map den).flatten :=
            (ih _).2 ⟨rfl, fun i hi => hb i (by rw [← e]; exact List.mem_append_right _ hi)⟩
          rw [h2] at this; cases this
      | some y =>
        obtain ⟨hy, hyb⟩ := (ih y).1 h2
        simp only []
        constructor
        · intro e; injection e with e; subst e
          refine ⟨by rw [hx, hy], ?_⟩
          intro i hi
          rcases List.mem_append.1 hi with h | h
          · exact hxb i h
          · exact hyb i h
        · rintro ⟨e, _⟩; rw [← e, hx, hy]

/-! ### the reply -/

theorem denotes_of_parse : ∀ (ps : List Bytes) (r : Bytes) (qs : List Seq), splitOn 44 r = ps →
    parseItems ps = .ok qs → Denotes r (qs.map den).flatten := by
  intro ps
  induction ps with
  | nil => intro r qs h; exact absurd h (splitOn_ne_nil _ _)
  | cons p ps ih =>
    intro r qs hsp hp
    obtain ⟨hno, hr⟩ := splitOn_inv 44 r p ps hsp
    unfold parseItems at hp
    split at hp
    · cases hp
    · rename_i q hq
      split at hp
      · cases hp
      · rename_i qs' hqs
        injection hp with hp; subst hp
        have hit := item_of_parseItem hq
        rcases hr with ⟨e1, e2⟩ | ⟨rest, e, f⟩
        · subst e1; subst e2
          simp only [parseItems] at hqs
          injection hqs with hqs; subst hqs
          simpa using Denotes.last hno hit
        · subst e
          have := Denotes.cons hno hit (ih rest qs' f hqs)
          simpa using this

theorem parse_of_denotes {r is} (h : Denotes r is) :
    ∃ qs, parseItems (splitOn 44 r) = .ok qs ∧ (qs.map den).flatten = is := by
  induction h with
  | @last s is hno hit =>
    obtain ⟨q, hq, hd⟩ := parseItem_of_item hit
    refine ⟨[q], ?_, by simp [hd]⟩
    rw [splitOn_of_not_mem _ _ hno]
    simp [parseItems, hq]
  | @cons s is rest js hno hit _ ih =>
    obtain ⟨q, hq, hd⟩ := parseItem_of_item hit
    obtain ⟨qs, hqs, hds⟩ := ih
    refine ⟨q :: qs, ?_, by simp [hd, hds]⟩
    rw [List.append_assoc, List.singleton_append, splitOn_append_sep, splitOn_of_not_mem _ _ hno]
    simp [parseItems, hq, hqs]

theorem parseIndexes_iff (r : Bytes) (n : Nat) (is : List Nat) :
    parseIndexes r n = .ok is ↔ (Denotes r is ∧ ∀ i ∈ is, i < n) := by
  constructor
  · intro h
    unfold parseIndexes at h
    split at h
    · rename_i e he
      subst h
      rcases parseItems_error _ he with h | h <;> cases h
    · rename_i qs hqs
      split at h
      · rename_i js hjs
        injection h with h; subst h
        obtain ⟨hf, hb⟩ := (allIndexes_iff n qs _).1 hjs
        exact ⟨hf ▸ denotes_of_parse _ r qs rfl hqs, hb⟩
      · cases h
  · rintro ⟨hd, hb⟩
    obtain ⟨qs, hqs, hf⟩ := parse_of_denotes hd
    have := (allIndexes_iff n qs is).2 ⟨hf, hb⟩
    unfold parseIndexes
    rw [hqs]; simp only []; rw [this]

/-! ### scope -/

theorem inScope_iff (dir loc : Bytes) :
    inScope dir loc = true ↔ dir = [slash] ∨ loc = dir ∨ (dir ++ [slash]) <+: loc := by
  simp only [inScope, startsWith, Bool.or_eq_true, decide_eq_true_eq, List.isPrefixOf_iff_prefix]
  constructor
  · rintro ((h | h) | h)
    · exact Or.inl h
    · exact Or.inr (Or.inr h)
    · exact Or.inr (Or.inl h)
  · rintro (h | h | h)
    · exact Or.inl (Or.inl h)
    · exact Or.inr h
    · exact Or.inl (Or.inr h)

theorem not_prefix_sibling (dir ext : Bytes) (hne : ext ≠ []) (hs : ext.head? ≠ some slash) (hd : dir ≠ [slash]) :
    inScope dir (dir ++ ext) = false := by
  rw [Bool.eq_false_iff]
  intro h
  rcases (inScope_iff _ _).1 h with h | h | h
  · exact hd h
  · exact hne (by simpa using h)
  · rw [List.prefix_append_right_inj] at h
    obtain ⟨t, ht⟩ := h
    rw [← ht] at hs
    simp at hs

theorem comps_of_inScope (dir loc : Bytes) (h : inScope dir loc = true) : comps dir <+: comps loc := by
  rcases (inScope_iff _ _).1 h with h | h | h
  · subst h
    have : comps [slash] = [] := by decide +kernel
    rw [this]; exact List.nil_prefix
  · subst h; exact List.prefix_refl _
  · obtain ⟨t, ht⟩ := h
    subst ht
    refine ⟨comps t, ?_⟩
    simp only [comps]
    rw [List.append_assoc, List.singleton_append, splitOn_append_sep, List.filter_append]

theorem normComps_mem (ab : Bool) : ∀ (cs acc : List Bytes), ∀ c ∈ normComps ab acc cs,
    c ∈ acc ∨ (c ∈ cs ∧ c ≠ []) := by
  intro cs
  induction cs with
  | nil => intro acc c hc; simp [normComps] at hc; exact Or.inl hc
  | cons x xs ih =>
    intro acc c hc
    unfold normComps at hc
    have lift : ∀ {acc'}, (∀ d ∈ acc', d ∈ acc ∨ (d = x ∧ x ≠ [])) → c ∈ normComps ab acc' xs →
        c ∈ acc ∨ (c ∈ x :: xs ∧ c ≠ []) := by
      intro acc' hacc hc'
      rcases ih acc' c hc' with h | ⟨h, hn⟩
      · rcases hacc c h with h | ⟨h, hn⟩
        · exact Or.inl h
        · exact Or.inr ⟨by simp [h], h ▸ hn⟩
      · exact Or.inr ⟨by simp [h], hn⟩
    split at hc
    · exact lift (fun d hd => Or.inl hd) hc
    · rename_i hx
      have hxn : x ≠ [] := fun e => hx (Or.inl e)
      split at hc
      · exact lift (fun d hd => by
          rcases List.mem_cons.1 hd with h | h
          · exact Or.inr ⟨h, hxn⟩
          · exact Or.inl h) hc
      · split at hc
        · split at hc
          · exact lift (fun d hd => by simp at hd) hc
          · exact lift (fun d hd => by
              rcases List.mem_cons.1 hd with h | h
              · exact Or.inr ⟨h, hxn⟩
              · simp at h) hc
        · split at hc
          · exact lift (fun d hd => by
              rcases List.mem_cons.1 hd with h | h
              · exact Or.inr ⟨h, hxn⟩
              · exact Or.inl h) hc
          · exact lift (fun d hd => Or.inl (List.mem_cons_of_mem _ hd)) hc

/-- a normalised absolute path is "/" followed by its non-empty, slash-free components -/
theorem norm_form (p : Bytes) (ha : isAbs p = true) (hn : normpath p = p)
    (h2 : ¬ startsWith p [slash, slash] = true) :
    ∃ cs : List Bytes, (∀ c ∈ cs, c ≠ [] ∧ slash ∉ c) ∧ p = slash :: joinWith [slash] cs := by
  refine ⟨normComps true [] (splitOn slash p), ?_, ?_⟩
  · intro c hc
    rcases normComps_mem true _ _ c hc with h | ⟨h, hne⟩
    · simp at h
    · exact ⟨hne, splitOn_pieces slash p c h⟩
  · have hp : p ≠ [] := by intro e; subst e; simp [isAbs, startsWith] at ha
    have ha' : startsWith p [slash] = true := ha
    have : normpath p = slash :: joinWith [slash] (normComps true [] (splitOn slash p)) := by
      unfold normpath
      simp [hp, ha', h2]
    rw [← this, hn]

theorem splitOn_join (cs : List Bytes) (h : ∀ c ∈ cs, c ≠ [] ∧ slash ∉ c) :
    (splitOn slash (joinWith [slash] cs)).filter (· ≠ []) = cs := by
  induction cs with
  | nil => simp [joinWith, splitOn]
  | cons x xs ih =>
    have hx := h x (by simp)
    cases xs with
    | nil => simp [joinWith, splitOn_of_not_mem _ _ hx.2, hx.1]
    | cons y ys =>
      have e : joinWith [slash] (x :: y :: ys) = x ++ [slash] ++ joinWith [slash] (y :: ys) := rfl
      rw [e, List.append_assoc, List.singleton_append, splitOn_append_sep, List.filter_append,
        ih (fun c hc => h c (List.mem_cons_of_mem _ hc)), splitOn_of_not_mem _ _ hx.2]
      simp [hx.1]

theorem comps_join (cs : List Bytes) (h : ∀ c ∈ cs, c ≠ [] ∧ slash ∉ c) :
    comps (slash :: joinWith [slash] cs) = cs := by
  unfold comps
  rw [splitOn, if_pos rfl]
  simpa using splitOn_join cs h

theorem joinWith_append (sep : Bytes) (cs t : List Bytes) (hc : cs ≠ []) (ht : t ≠ []) :
    joinWith sep (cs ++ t) = joinWith sep cs ++ sep ++ joinWith sep t := by
  induction cs with
  | nil => exact absurd rfl hc
  | cons x xs ih =>
    cases xs with
    | nil =>
      cases t with
      | nil => exact absurd rfl ht
      | cons y ys => simp [joinWith]
    | cons y ys =>
      have := ih (by simp)
      simp only [List.cons_append] at this ⊢
      simp [joinWith, this]

theorem inScope_components (dir loc : Bytes) (hd : isAbs dir = true) (hl : isAbs loc = true)
    (hnd : normpath dir = dir) (hnl : normpath loc = loc) (h2 : ¬ startsWith dir [slash, slash] = true)
    (h3 : ¬ startsWith loc [slash, slash] = true) :
    inScope dir loc = true ↔ comps dir <+: comps loc := by
  refine ⟨comps_of_inScope dir loc, ?_⟩
  obtain ⟨cs, hcs, e1⟩ := norm_form dir hd hnd h2
  obtain ⟨ds, hds, e2⟩ := norm_form loc hl hnl h3
  rw [e1, e2, comps_join cs hcs, comps_join ds hds]
  rintro ⟨t, ht⟩
  subst ht
  rw [inScope_iff]
  cases cs with
  | nil => exact Or.inl rfl
  | cons x xs =>
    cases t with
    | nil => right; left; simp
    | cons y ys =>
      right; right
      rw [joinWith_append _ _ _ (by simp) (by simp)]
      exact ⟨joinWith [slash] (y :: ys), by simp⟩

/-! ### ordering -/

theorem cpsLe_total : ∀ a c : Cps, (cpsLe a c || cpsLe c a) = true := by
  intro a
  induction a with
  | nil => intro c; simp [cpsLe]
  | cons x xs ih =>
    intro c
    cases c with
    | nil => simp [cpsLe]
    | cons y ys =>
      simp only [cpsLe]
      have := ih ys
      by_cases hxy : x < y
      · simp [hxy]
      · by_cases hyx : y < x
        · simp [hyx, hxy]
        · simpa [hxy, hyx] using this

theorem cpsLe_trans : ∀ a b c : Cps, cpsLe a b = true → cpsLe b c = true → cpsLe a c = true := by
  intro a
  induction a with
  | nil => intro b c _ _; simp [cpsLe]
  | cons x xs ih =>
    intro b c h1 h2
    cases b with
    | nil => simp [cpsLe] at h1
    | cons y ys =>
      cases c with
      | nil => simp [cpsLe] at h2
      | cons z zs =>
        simp only [cpsLe] at h1 h2 ⊢
        by_cases hxy : x < y
        · by_cases hyz : y < z
          · simp [show x < z by omega]
          · by_cases hzy : y > z
            · simp [hyz, hzy] at h2
            · have : y = z := by omega
              subst this; simp [hxy]
        · by_cases hyx : x > y
          · simp [hxy, hyx] at h1
          · have : x = y := by omega
            subst this
            simp only [hxy, if_false] at h1
            by_cases hxz : x < z
            · simp [hxz]
            · by_cases hzx : x > z
              · simp [hxz, hzx] at h2
              · simp only [hxz, hzx, if_false] at h2 ⊢
                exact ih ys zs h1 h2

theorem offered_perm (m : SortMode) (es : List Entry) : (sortEntries m es).Perm es := by
  cases m <;> simp only [sortEntries]
  · exact List.mergeSort_perm _ _
  · exact List.mergeSort_perm _ _
  · exact List.Perm.refl _

theorem offered_sorted_date (es : List Entry) :
    (sortEntries .date es).Pairwise fun a c => dateRank a ≤ dateRank c := by
  have := List.pairwise_mergeSort (le := dateLe)
    (fun a b c h1 h2 => by simp only [dateLe, decide_eq_true_eq] at *; omega)
    (fun a b => by simp only [dateLe, Bool.or_eq_true, decide_eq_true_eq]; omega) es
  exact this.imp (fun h => by simpa [dateLe] using h)

theorem offered_sorted_path (es : List Entry) :
    (sortEntries .path es).Pairwise fun a c => cpsLe (pathKeyOf a) (pathKeyOf c) = true :=
  List.pairwise_mergeSort (le := fun a c => cpsLe (pathKeyOf a) (pathKeyOf c))
    (fun _ _ _ h1 h2 => cpsLe_trans _ _ _ h1 h2)
    (fun _ _ => cpsLe_total _ _) es

end TrashVerif.Proofs.C13

/-! ### the directory to restore from: `restoreScopeDir cwd path = normpath (join cwd path)`

(The canonical spelling `toStr` of a working directory, `GoodNames`, `body` are those of Proofs/C07.lean.) -/

namespace TrashVerif.Proofs.C13
open TrashVerif Bytes FS
open TrashVerif.Proofs.C07 (GoodNames body toStr_nil toStr_ne body_nil body_cons body_append body_single body_last
  splitOn_name_body joinWith_body normpath_toStr)
open TrashVerif.Proofs.C01 (normComps_cons)

theorem normComps_good_slash (p : List Bytes) : ∀ acc, GoodNames p → normComps true acc (p ++ [[]]) = acc.reverse ++ p := by
  induction p with
  | nil => intro acc _; rw [List.nil_append, normComps_cons, if_pos (Or.inl rfl)]; simp [normComps]
  | cons c cs ih =>
    intro acc h
    obtain ⟨h1, _, h3, h4, _⟩ := h c List.mem_cons_self
    rw [List.cons_append, normComps_cons, if_neg (by simp [h1, h3]), if_pos h4, ih _ h.tail]
    simp

/-- `normpath(cwd + "/")` for a working directory other than "/" is its canonical spelling -/
theorem normpath_toStr_slash (D : CPath) (h0 : D ≠ []) (hn : GoodNames D) : normpath (toStr D ++ [slash]) = toStr D := by
  obtain ⟨n, rest, rfl⟩ := List.exists_cons_of_ne_nil h0
  obtain ⟨h1, h2, _⟩ := hn n List.mem_cons_self
  obtain ⟨a, n', rfl⟩ := List.exists_cons_of_ne_nil h1
  have ha : a ≠ slash := fun e => h2 (e ▸ List.mem_cons_self)
  have hbody : body rest ++ [slash] = body (rest ++ [[]]) := by
    rw [body_append, body_single]
  have hsp : splitOn slash (slash :: (a :: n' ++ body rest) ++ [slash]) = [] :: (a :: n') :: (rest ++ [[]]) := by
    have : slash :: (a :: n' ++ body rest) ++ [slash] = slash :: ((a :: n') ++ body (rest ++ [[]])) := by
      rw [← hbody]; simp
    rw [this, splitOn, if_pos rfl,
      splitOn_name_body (rest ++ [[]]) (a :: n') h2 (fun m hm => by
        rcases List.mem_append.1 hm with hm | hm
        · exact (hn.tail m hm).2.1
        · have : m = [] := by simpa using hm
          rw [this]; exact List.not_mem_nil)]
  rw [toStr_ne (by simp), body_cons]
  unfold normpath
  rw [if_neg (by simp)]
  have s1 : startsWith (slash :: (a :: n' ++ body rest) ++ [slash]) [slash] = true := by simp [startsWith]
  have s2 : startsWith (slash :: (a :: n' ++ body rest) ++ [slash]) [slash, slash] = false := by
    simp [startsWith, List.isPrefixOf, Ne.symm ha]
  simp only [s1, s2, hsp, if_true, Bool.false_eq_true, false_and, if_false]
  have hd : decide ((1 : Nat) ≠ 0) = true := by decide
  have e : (a :: n') :: (rest ++ [[]]) = ((a :: n') :: rest) ++ [[]] := rfl
  rw [hd, normComps_cons, if_pos (Or.inl rfl), e, normComps_good_slash _ [] hn, List.reverse_nil, List.nil_append,
    joinWith_body]
  simp

/-- the canonical spelling of a directory other than "/" is not empty and does not end with '/' -/
theorem toStr_no_trailing_slash (D : CPath) (h0 : D ≠ []) (hn : GoodNames D) :
    toStr D ≠ [] ∧ endsWith (toStr D) [slash] = false := by
  obtain ⟨w, x, hw, hx⟩ := body_last h0 hn
  rw [toStr_ne h0, hw]
  refine ⟨by simp, ?_⟩
  simp [endsWith, List.isSuffixOf, List.isPrefixOf, Ne.symm hx]

/-- `join(cwd, "")`: "/" stays "/", every other working directory gets a trailing '/' -/
theorem pjoin_toStr_nil (D : CPath) (hn : GoodNames D) :
    pjoin (toStr D) [] = if D = [] then [slash] else toStr D ++ [slash] := by
  by_cases h0 : D = []
  · subst h0; rfl
  · obtain ⟨hne, hend⟩ := toStr_no_trailing_slash D h0 hn
    rw [if_neg h0]
    unfold pjoin
    rw [if_neg (by simp [startsWith]), if_neg (by simp [hne, hend])]
    simp

/-- `join(cwd, n/…)` for a plain relative path: the canonical spelling of the concatenation -/
theorem pjoin_toStr_rel (D : CPath) (n : Name) (rest : CPath) (hn : GoodNames D) (hc : GoodNames (n :: rest)) :
    pjoin (toStr D) (joinWith [slash] (n :: rest)) = toStr (D ++ n :: rest) := by
  obtain ⟨h1, h2, _⟩ := hc n List.mem_cons_self
  obtain ⟨a, n', rfl⟩ := List.exists_cons_of_ne_nil h1
  have ha : a ≠ slash := fun e => h2 (e ▸ List.mem_cons_self)
  rw [joinWith_body, toStr_ne (by simp : D ++ (a :: n') :: rest ≠ []), body_append, body_cons]
  unfold pjoin
  rw [if_neg (by simp [startsWith, List.isPrefixOf, Ne.symm ha])]
  by_cases h0 : D = []
  · subst h0; rw [if_pos (Or.inr (by decide))]; rfl
  · obtain ⟨hne, hend⟩ := toStr_no_trailing_slash D h0 hn
    rw [if_neg (by simp [hne, hend]), toStr_ne h0]
    simp

/-- (a) no directory argument: the scope is the working directory — the root included -/
theorem scope_dir_default (cwd : CPath) (hn : GoodNames cwd) : restoreScopeDir (toStr cwd) [] = toStr cwd := by
  unfold restoreScopeDir
  rw [pjoin_toStr_nil cwd hn]
  by_cases h0 : cwd = []
  · subst h0; decide
  · rw [if_neg h0]; exact normpath_toStr_slash cwd h0 hn

/-- (b) an absolute directory argument: the working directory plays no part -/
theorem scope_dir_absolute (cwdStr path : Bytes) (h : isAbs path = true) :
    restoreScopeDir cwdStr path = normpath path := by
  unfold restoreScopeDir pjoin; unfold isAbs at h; rw [if_pos h]

/-- (c) a plain relative directory argument: the working directory extended by its components -/
theorem scope_dir_relative (cwd comps : CPath) (hn : GoodNames cwd) (hc : GoodNames comps) :
    restoreScopeDir (toStr cwd) (joinWith [slash] comps) = toStr (cwd ++ comps) := by
  cases comps with
  | nil => rw [List.append_nil]; exact scope_dir_default cwd hn
  | cons n rest =>
    unfold restoreScopeDir
    rw [pjoin_toStr_rel cwd n rest hn hc]
    exact normpath_toStr _ (fun m hm => by
      rcases List.mem_append.1 hm with hm | hm
      · exact hn m hm
      · exact hc m hm)

/-- (d) from the root, without a directory argument, every location is in scope -/
theorem scope_root_offers_all (loc : Bytes) : inScope (restoreScopeDir (toStr []) []) loc = true := by
  rw [scope_dir_default [] (fun _ h => by cases h)]
  simp [inScope, toStr]

/-! ### the trash directory read: the path as spelled, resolved by the kernel

`InfoFiles.all_info_files` lists `join(trash_dir, "info")` for the trash directory AS SPELLED (until
the fix it applied `os.path.normpath` first, so `--trash-dir link/../T` read the info directory of
the textual collapse of `link/..`, another directory). -/

/-- every entry of the scan is read from a trashinfo name of the listing of `pjoin t "info"` -/
theorem restore_reads_named_trash_dir (fs : FS) (cwd : CPath) (t v : Bytes) (ns : List Bytes)
    (h : listdirStr fs cwd (pjoin t (b "info")) = some ns) :
    ∀ e ∈ restoreEntriesOf fs cwd t v,
      ∃ n ∈ ns, isTrashinfoName n = true ∧ e.info = pjoin (pjoin t (b "info")) n := by
  intro e he
  unfold restoreEntriesOf at he
  simp only [h] at he
  obtain ⟨n, hn, hen⟩ := List.mem_filterMap.1 he
  obtain ⟨hn1, hn2⟩ := List.mem_filter.1 hn
  refine ⟨n, hn1, hn2, ?_⟩
  split at hen
  · cases hen
  · split at hen
    · cases hen
    · cases hen; rfl

namespace NamedEx
open TrashVerif.Proofs.C16Eval TrashVerif.Proofs.C02CmdEval

def dN : Node := .dir 0o755 0
def infoA : Bytes := b "[Trash Info]\nPath=x/a\nDeletionDate=2020-01-02T03:04:05\n"
def infoB : Bytes := b "[Trash Info]\nPath=x/b\nDeletionDate=2020-01-02T03:04:05\n"

/-- `/jump -> /deep/inner`; two trash directories: `/ct` (entry `a`) and `/deep/ct` (entry `b`) -/
def W : FS := FS.ofList
  [([], dN), ([b "deep"], dN), ([b "deep", b "inner"], dN), ([b "jump"], .link (b "/deep/inner")),
   ([b "ct"], dN), ([b "ct", b "info"], dN), ([b "ct", b "info", b "a.trashinfo"], .file infoA 0o600 0),
   ([b "deep", b "ct"], dN), ([b "deep", b "ct", b "info"], dN),
   ([b "deep", b "ct", b "info", b "b.trashinfo"], .file infoB 0o600 0)] [[]]

def dateEx : Option Date := parseDeletionDate infoA

/-- `--trash-dir /jump/../../ct`: the kernel follows `/jump` to `/deep/inner`, goes up twice and
    names `/ct`; the scan lists `/ct/info`, and the info paths are built on the string as spelled.
    (Here the textual collapse `normpath "/jump/../../ct"` = "/ct" happens to name the same
    directory; the discriminating spelling is `/jump/../ct`, next theorem.) -/
theorem named_up_up :
    (FS.resolve W [] (b "/jump/../../ct/info") true).toOption = some [b "ct", b "info"] ∧
    listdirStr W [] (pjoin (b "/jump/../../ct") (b "info")) = some [b "a.trashinfo"] ∧
    restoreEntriesOf W [] (b "/jump/../../ct") (b "/") =
      [{ loc := b "/x/a", date := dateEx, info := b "/jump/../../ct/info/a.trashinfo" }] := by
  rw [restoreEntriesOf_eq, listdirStr_eq, resolve_eq]
  decide +kernel

/-- `--trash-dir /jump/../ct`: the kernel names `/deep/ct` (`/jump/..` is `/deep`), whose entry `b`
    is what the scan returns; the textual collapse `normpath "/jump/../ct"` = "/ct" names the OTHER
    trash directory, whose entry `a` the code read before the fix. -/
theorem named_not_collapsed :
    (FS.resolve W [] (b "/jump/../ct/info") true).toOption = some [b "deep", b "ct", b "info"] ∧
    normpath (b "/jump/../ct") = b "/ct" ∧
    listdirStr W [] (pjoin (b "/jump/../ct") (b "info")) = some [b "b.trashinfo"] ∧
    listdirStr W [] (pjoin (normpath (b "/jump/../ct")) (b "info")) = some [b "a.trashinfo"] ∧
    restoreEntriesOf W [] (b "/jump/../ct") (b "/") =
      [{ loc := b "/x/b", date := dateEx, info := b "/jump/../ct/info/b.trashinfo" }] ∧
    restoreEntriesOf W [] (normpath (b "/jump/../ct")) (b "/") =
      [{ loc := b "/x/a", date := dateEx, info := b "/ct/info/a.trashinfo" }] := by
  rw [restoreEntriesOf_eq, restoreEntriesOf_eq, listdirStr_eq, listdirStr_eq, resolve_eq]
  decide +kernel

end NamedEx

end TrashVerif.Proofs.C13
