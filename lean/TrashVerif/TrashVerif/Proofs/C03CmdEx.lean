/-
  Proofs/C03CmdEx.lean — concrete worlds for Props/C03Cmd.lean: names that need escaping, a volume
  trash directory, `--trash-dir` spelled through a symbolic link; whole runs evaluated by the kernel
  (through the twins of Proofs/C16Eval.lean).
-/
import TrashVerif.Proofs.C03CmdRun
import TrashVerif.Proofs.C07CmdEx
import TrashVerif.Proofs.C16IndepHome
namespace TrashVerif.Proofs.C03CmdEx
open TrashVerif Prog FS PutCore C07Cmd C16Indep C03Cmd
open TrashVerif.Proofs.C16Eval
open TrashVerif.Proofs.C07CmdEx (ofList_fresh plain_of_takes dN st0 H cfgH homeCfg V fsO nodesO otherO altO argO mountsO uidGood
  cfgSame customSame siteSame)

/-- the clock reads 2024-02-29 23:59:59 (a leap day) -/
def d0 : Date := ⟨2024, 2, 29, 23, 59, 59⟩
def cfgD : PutCfg := { cfgH with dateStr := d0.fmt }
theorem clockD : Clock cfgD d0 := ⟨rfl, by decide, by decide⟩
theorem homeCfgD : HomeCfg cfgD H :=
  { noTrashDir := rfl, noForcedVolume := rfl, noPrompt := by decide, xdgUnset := rfl, home := rfl,
    homeNotRoot := by decide }

/-! ### names that need escaping -/

/-- `a b` -/
def nSpace : Name := b "a b"
/-- `100%` -/
def nPct : Name := b "100%"
/-- `x<newline>y` -/
def nNl : Name := [120, 10, 121]
/-- the bytes FF FE 41: not UTF-8 -/
def nRaw : Name := [0xFF, 0xFE, 0x41]

def nodesN : List (CPath × Node) :=
  [([], dN), (H, dN), ([b "p"], dN), ([b "p", nSpace], .file [1] 0o644 7), ([b "p", nPct], .file [2] 0o644 7),
   ([b "p", nNl], .file [3] 0o644 7), ([b "p", nRaw], .link (b "anywhere"))]
/-- only `/h` exists of the home; `/p` holds the four entries -/
def fsN : FS := FS.ofList nodesN [[]]

theorem siteN : FreshSite fsN H (b ".local") [b "share", b "Trash"] :=
  { names := by unfold TrashVerif.C07.GoodNames; decide +kernel
    basePlain := plain_of_takes (by decide +kernel)
    fresh := fun rel => by
      have := ofList_fresh nodesN [[]] (H ++ [b ".local"]) (by decide +kernel) rel
      show (FS.ofList nodesN [[]]).get _ = none
      simpa using this }

theorem argN (n : Name) (hn : n ∈ [nSpace, nPct, nNl, nRaw]) : Arg fsN [b "p"] n := by
  simp only [List.mem_cons, List.not_mem_nil, or_false] at hn
  rcases hn with rfl | rfl | rfl | rfl <;>
  exact { names := by unfold TrashVerif.C07.GoodNames; decide +kernel, shortName := by decide +kernel
          parentPlain := plain_of_takes (by decide +kernel), present := by decide +kernel, notMount := by decide +kernel }

theorem mountsN : MountsOk fsN := ⟨by decide +kernel, by decide +kernel⟩

/-- the four arguments in ONE run: every info file, byte for byte -/
theorem evalNames :
    let r := run noFaults (runPut cfgD [toStr [b "p", nSpace], toStr [b "p", nPct], toStr [b "p", nNl], toStr [b "p", nRaw]] st0)
      { fs := fsN }
    r.1.exit = 0 ∧
    r.2.fs.get (infoC H ++ [nSpace ++ trashinfoExt]) =
      some (.file (b "[Trash Info]\nPath=/p/a%20b\nDeletionDate=2024-02-29T23:59:59\n") 0o600 0) ∧
    r.2.fs.get (infoC H ++ [nPct ++ trashinfoExt]) =
      some (.file (b "[Trash Info]\nPath=/p/100%25\nDeletionDate=2024-02-29T23:59:59\n") 0o600 0) ∧
    r.2.fs.get (infoC H ++ [nNl ++ trashinfoExt]) =
      some (.file (b "[Trash Info]\nPath=/p/x%0Ay\nDeletionDate=2024-02-29T23:59:59\n") 0o600 0) ∧
    r.2.fs.get (infoC H ++ [nRaw ++ trashinfoExt]) =
      some (.file (b "[Trash Info]\nPath=/p/%FF%FEA\nDeletionDate=2024-02-29T23:59:59\n") 0o600 0) ∧
    r.2.fs.get (filesC H ++ [nRaw]) = some (.link (b "anywhere")) := by
  simp only [runPut_eq]; decide +kernel

/-- … and what every reader makes of the four texts -/
theorem evalNamesRead :
    ([nSpace, nPct, nNl, nRaw].map fun n =>
      (readText (formatTrashinfoWith (toStr [b "p", n]) d0.fmt)).bind parsePath) =
      [some (b "/p/a b"), some (b "/p/100%"), some [47, 112, 47, 120, 10, 121], some [47, 112, 47, 0xFF, 0xFE, 0x41]] ∧
    (readText (formatTrashinfoWith (toStr [b "p", nNl]) d0.fmt)).bind parseDeletionDate = some d0 := by
  decide +kernel

/-! ### a volume trash directory (`fsO` of Proofs/C07CmdEx.lean: the mount point `/v`, the file `/v/d/x`) -/

theorem evalVolume :
    (run noFaults (runPut cfgD [b "/v/d/x"] st0) { fs := fsO }).2.fs.get (V ++ [altName 0, b "info", b "x.trashinfo"]) =
      some (.file (b "[Trash Info]\nPath=d/x\nDeletionDate=2024-02-29T23:59:59\n") 0o600 0) ∧
    pjoin (b "/v") (b "d/x") = b "/v/d/x" := by
  simp only [runPut_eq]; decide +kernel

/-! ### `--trash-dir` spelled through a symbolic link -/

def nodesL : List (CPath × Node) := nodesO ++ [([b "l"], .link (b "/v"))]
/-- as `fsO`, plus the symbolic link `/l -> /v` on the root volume -/
def fsL : FS := FS.ofList nodesL [[], V]
/-- `trash-put --trash-dir /l/t` -/
def cfgLink : PutCfg := { cfgD with trashDir := some (b "/l/t") }
/-- `trash-put --trash-dir /v/t` -/
def cfgDirect : PutCfg := { cfgD with trashDir := some (b "/v/t") }

/-- The SAME directory `/v/t`, made on demand on the file's volume; spelled `/v/t` the recorded location
    is `d/x` (relative to `/v`), spelled `/l/t` it is `v/d/x` (relative to `/`, the LEXICAL volume of the
    spelling: `volume_of` ascends the string `/l/t`, and `/l` is a link, not a mount point). -/
theorem evalCustomSpelling :
    (run noFaults (runPut cfgDirect [b "/v/d/x"] st0) { fs := fsL }).1.outcomes =
      [(b "/v/d/x", .trashed (b "/v/t") (b "x.trashinfo"))] ∧
    (run noFaults (runPut cfgDirect [b "/v/d/x"] st0) { fs := fsL }).2.fs.get [b "v", b "t", b "info", b "x.trashinfo"] =
      some (.file (b "[Trash Info]\nPath=d/x\nDeletionDate=2024-02-29T23:59:59\n") 0o600 0) ∧
    (run noFaults (runPut cfgLink [b "/v/d/x"] st0) { fs := fsL }).1.outcomes =
      [(b "/v/d/x", .trashed (b "/l/t") (b "x.trashinfo"))] ∧
    (run noFaults (runPut cfgLink [b "/v/d/x"] st0) { fs := fsL }).2.fs.get [b "v", b "t", b "info", b "x.trashinfo"] =
      some (.file (b "[Trash Info]\nPath=v/d/x\nDeletionDate=2024-02-29T23:59:59\n") 0o600 0) ∧
    (run noFaults (runPut cfgLink [b "/v/d/x"] st0) { fs := fsL }).2.fs.get [b "v", b "t", b "files", b "x"] =
      some (.file [120] 0o644 7) ∧
    volumeOf fsL [] (b "/l/t") = b "/" ∧ volumeOf fsL [] (b "/v/t") = b "/v" ∧
    (run noFaults (runPut cfgLink [b "/v/d/x"] st0) { fs := fsL }).2.trace.all (fun cr => cr.1.kind != "createTrunc") = true := by
  simp only [runPut_eq, volumeOf_eq]; decide +kernel

/-! ### two arguments in one run: `/p/a b` (first use of the home trash), then `/p/100%` -/

theorem firstOutcome :
    (run noFaults (runPut cfgD [toStr ([b "p"] ++ [nSpace])] st0) { fs := fsN }).1.outcomes =
      [(toStr ([b "p"] ++ [nSpace]), .trashed (homeStr H) (nSpace ++ trashinfoExt))] :=
  (C03CmdRun.home_first_use_info homeCfgD rfl siteN (argN nSpace (by simp)) mountsN (by decide +kernel) (by decide +kernel)
    clockD st0).1

/-- the state the first argument leaves (through the twin, so that the kernel can evaluate it) -/
def fsN1 : FS := (run noFaults (runPutS cfgD [toStr ([b "p"] ++ [nSpace])] st0) { fs := fsN }).2.fs

theorem fsN1_eq : (run noFaults (runPut cfgD [toStr ([b "p"] ++ [nSpace])] st0) { fs := fsN }).2.fs = fsN1 := by
  rw [runPut_eq]; rfl

theorem worldN1 : HomeWorld cfgD fsN1 H :=
  { noTrashDir := rfl, noForcedVolume := rfl, noPrompt := by decide, xdgUnset := rfl, home := rfl
    homeNotRoot := by decide
    homeNames := by unfold TrashVerif.C07.GoodNames; decide +kernel
    filesPlain := plain_of_takes (by decide +kernel)
    infoPlain := plain_of_takes (by decide +kernel)
    rootMounted := by decide +kernel
    filesSameVolume := by decide +kernel }

theorem argN1 : GoodArg fsN1 H [b "p"] nPct :=
  { names := by unfold TrashVerif.C07.GoodNames; decide +kernel
    parentPlain := plain_of_takes (by decide +kernel)
    present := by decide +kernel
    notMount := by decide +kernel
    sameVolume := by decide +kernel
    apartInfo := by decide +kernel
    apartFiles := by decide +kernel }

theorem freeN1 : fsN1.get (filesC H ++ [nPct]) = none ∧ fsN1.get (infoC H ++ [nPct ++ trashinfoExt]) = none := by
  decide +kernel

end TrashVerif.Proofs.C03CmdEx
