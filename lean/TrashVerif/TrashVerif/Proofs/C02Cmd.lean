/-
  Proofs/C02Cmd.lean — C02 at the COMMAND level for the everyday case: `trash-put X` followed by
  `trash-restore` selecting index 0 is the identity (proofs for Props/C02Cmd.lean).

  (a) the scan of a home trash whose `info/` holds exactly one well-formed entry offers exactly it;
  (b) the reply "0" selects it;
  (c) `restoreOne` on it comes down to `restoreCore` on the canonical paths;
  (d) composition with `home_alone` (C16) and the resolved-layer identity (C02).
-/
import TrashVerif.Proofs.C16IndepHome
import TrashVerif.Proofs.C02
import TrashVerif.Proofs.C03
import TrashVerif.Proofs.C13
import TrashVerif.Model.Cmds
import TrashVerif.Props.C02CmdDefs
namespace TrashVerif.Proofs.C02Cmd
open TrashVerif Prog FS PutCore PutLemmas C16Indep C02Cmd
open TrashVerif.Proofs.C07 (Plain GoodNames body toStr_ne toStr_snoc body_append body_last comps_toStr_cons
  walk_skip isAbs_toStr dirname_toStr normpath_toStr resolve_plain_fl)
open TrashVerif.Proofs.C17 (isDirAt_iff)
open TrashVerif.Proofs.C13 (scope_dir_default scope_dir_absolute)
open TrashVerif.Proofs.C16IndepHome
open TrashVerif.Proofs.C16Indep (run_noFaults_fs)

/-! ### resolving the canonical spelling of a leaf that is not followed -/

/-- a plain directory chain, then one last component that is not a symbolic link (or is not followed) -/
theorem walk_plain_leaf_fl (fs : FS) (fl : Bool) (fuel : Nat) (n : Name) (rest : CPath) :
    ∀ cur, Plain fs (cur ++ rest) → GoodNames (rest ++ [n]) →
      (fl = false ∨ ∀ t, fs.get (cur ++ rest ++ [n]) ≠ some (.link t)) →
      walk fs fl fuel cur (rest ++ [n]) = .ok (cur ++ rest ++ [n]) := by
  induction rest with
  | nil =>
    intro cur hp hn hl
    obtain ⟨h1, _, h3, h4, h5⟩ := hn n (by simp)
    obtain ⟨m, t, hcur⟩ := isDirAt_iff.1 (hp cur (by simp))
    rw [List.nil_append, walk, hcur]
    simp only
    rw [if_neg (by simp [h1, h3]), if_neg h4, if_neg (by unfold nameMax; omega)]
    simp only [List.append_nil] at hl ⊢
    rcases hg : fs.get (cur ++ [n]) with _ | (_ | _ | t)
    · simp
    · simp [walk_nil]
    · simp [walk_nil]
    · rcases hl with hl | hl
      · subst hl; simp
      · exact absurd hg (hl t)
  | cons c rest ih =>
    intro cur hp hn hl
    obtain ⟨h1, _, h3, h4, h5⟩ := hn c (by simp)
    obtain ⟨m, t, hcur⟩ := isDirAt_iff.1 (hp cur (List.prefix_append _ _))
    have e : cur ++ c :: rest = (cur ++ [c]) ++ rest := by simp
    obtain ⟨m', t', hc⟩ := isDirAt_iff.1 (hp (cur ++ [c]) (by rw [e]; exact List.prefix_append _ _))
    rw [List.cons_append, walk, hcur]
    simp only
    rw [if_neg (by simp [h1, h3]), if_neg h4, if_neg (by unfold nameMax; omega)]
    simp only [hc]
    rw [ih (cur ++ [c]) (by rw [← e]; exact hp) (fun x hx => hn x (by simp at hx ⊢; exact Or.inr hx))
      (by rw [← e]; exact hl), e]

theorem resolve_leaf_fl (fs : FS) (cwd P : CPath) (n : Name) (fl : Bool) (hp : Plain fs P) (hn : GoodNames (P ++ [n]))
    (hl : fl = false ∨ ∀ t, fs.get (P ++ [n]) ≠ some (.link t)) :
    resolve fs cwd (toStr (P ++ [n])) fl = .ok (P ++ [n]) := by
  obtain ⟨m, t, hroot⟩ := isDirAt_iff.1 (hp [] List.nil_prefix)
  obtain ⟨n0, rest0, e0⟩ : ∃ n0 rest0, P ++ [n] = n0 :: rest0 := by
    cases P with
    | nil => exact ⟨n, [], rfl⟩
    | cons x xs => exact ⟨x, xs ++ [n], rfl⟩
  have hc := comps_toStr_cons n0 rest0 (e0 ▸ hn)
  obtain ⟨w, x, hw, hx⟩ := body_last (q := n0 :: rest0) (by simp) (e0 ▸ hn)
  have hs : toStr (n0 :: rest0) = w ++ [x] := by rw [toStr_ne (by simp), hw]
  have h1 : walk fs fl linkFuel [] ([] :: n0 :: rest0) = .ok (n0 :: rest0) := by
    rw [walk_skip _ _ _ _ _ hroot, ← e0]
    have := walk_plain_leaf_fl fs fl linkFuel n P [] (by simpa using hp) hn (by simpa using hl)
    simpa using this
  rw [e0]
  unfold resolve
  rw [if_neg (by rw [hs]; simp), isAbs_toStr, hc]
  have htr : ¬ ((toStr (n0 :: rest0)).getLast? = some slash ∧ ¬ ((toStr (n0 :: rest0)).all (· = slash)) = true) := by
    rw [hs]; simp [hx]
  simp only [htr, decide_false, Bool.or_false, if_true, h1, if_false]

/-! ### listing a directory that holds exactly one entry -/

theorem eraseDups_all_eq {α} [BEq α] [LawfulBEq α] {a : α} : ∀ {l : List α}, (∀ x ∈ l, x = a) → l ≠ [] →
    l.eraseDups = [a]
  | [], _, h => absurd rfl h
  | x :: xs, hall, _ => by
    have hx : x = a := hall x List.mem_cons_self
    subst hx
    rw [List.eraseDups_cons]
    have : xs.filter (fun b => !b == x) = [] := by
      rw [List.filter_eq_nil_iff]
      intro y hy
      have := hall y (List.mem_cons_of_mem _ hy)
      simp [this]
    rw [this]; rfl

theorem snoc_of_prefix_length {I q : CPath} (h : I <+: q) (hl : q.length = I.length + 1) : ∃ x, q = I ++ [x] := by
  obtain ⟨t, rfl⟩ := h
  have : t.length = 1 := by simp at hl; omega
  match t, this with
  | [x], _ => exact ⟨x, rfl⟩

theorem children_single (fs : FS) (I : CPath) (name : Name) (hin : (fs.get (I ++ [name])).isSome = true)
    (hdom : I ++ [name] ∈ fs.dom) (honly : ∀ x, x ≠ name → fs.get (I ++ [x]) = none) :
    children fs I = [I ++ [name]] := by
  unfold children
  apply eraseDups_all_eq
  · intro q hq
    rw [List.mem_filter] at hq
    obtain ⟨_, hq⟩ := hq
    simp only [Bool.and_eq_true, decide_eq_true_eq, isPrefix, exists_] at hq
    obtain ⟨⟨hl, hp⟩, he⟩ := hq
    obtain ⟨x, rfl⟩ := snoc_of_prefix_length (List.isPrefixOf_iff_prefix.1 hp) hl
    by_cases hx : x = name
    · rw [hx]
    · rw [honly x hx] at he; cases he
  · intro h
    have : I ++ [name] ∈ fs.dom.filter fun q => q.length = I.length + 1 && isPrefix I q && exists_ fs q := by
      rw [List.mem_filter]
      refine ⟨hdom, ?_⟩
      simp [isPrefix, exists_, hin]
    rw [h] at this
    cases this

theorem listdir_single (fs : FS) (cwd I : CPath) (name : Name) (hp : Plain fs I) (hn : GoodNames I)
    (hin : (fs.get (I ++ [name])).isSome = true)
    (hdom : I ++ [name] ∈ fs.dom) (honly : ∀ x, x ≠ name → fs.get (I ++ [x]) = none) :
    listdirStr fs cwd (toStr I) = some [name] := by
  obtain ⟨m, t, hI⟩ := isDirAt_iff.1 (hp I List.prefix_rfl)
  unfold listdirStr
  rw [resolve_plain_fl fs cwd I true hp hn]
  simp only [hI]
  unfold sortedChildren
  rw [children_single fs I name hin hdom honly, List.mergeSort_singleton]
  simp

/-! ### the `Path=` line of what put wrote is read back, whatever the date string -/

theorem un_cons_ne (c : UInt8) (r : Bytes) (hc : c ≠ 13) : universalNewlines (c :: r) = c :: universalNewlines r := by
  rw [universalNewlines.eq_def]
  split
  · rename_i heq; cases heq
  · rename_i heq; cases heq; exact absurd rfl hc
  · rename_i heq; cases heq; exact absurd rfl hc
  · rename_i heq; cases heq; rfl

theorem un_plain_line (a r : Bytes) (ha : a.all C03.plain = true) :
    universalNewlines (a ++ 10 :: r) = a ++ 10 :: universalNewlines r := by
  induction a with
  | nil => exact un_cons_ne 10 r (by decide)
  | cons c a ih =>
    simp only [List.all_cons, Bool.and_eq_true] at ha
    have hc : c ≠ 13 := by
      have := ha.1; simp only [C03.plain, Bool.and_eq_true, bne_iff_ne] at this; exact this.1.2
    rw [List.cons_append, un_cons_ne _ _ hc, ih ha.2, List.cons_append]

theorem parsePath_written (loc dateStr : Bytes) :
    parsePath (universalNewlines (formatTrashinfoWith loc dateStr)) = some loc := by
  have p1 : C03.headLine.all C03.plain = true := C03.headLine_plain
  have p2 : (pathKey ++ quote loc).all C03.plain = true := by
    rw [List.all_append, C03.pathKey_plain, C03.quote_plain]; rfl
  rw [C03.format_eq, un_plain_line _ _ p1, un_plain_line _ _ p2]
  unfold parsePath parsePathRaw lines
  rw [C03.splitOn_append _ _ _ (C03.not_mem_10_of_plain p1), C03.splitOn_append _ _ _ (C03.not_mem_10_of_plain p2)]
  simp [firstSome, C03.headLine_not_path, C03.startsWith_append, C03.unquote_quote]

/-! ### (a) the scan of a home trash that holds exactly one entry -/

theorem head_ne_slash {x : Name} (h : GoodNames [x]) : x.head? ≠ some slash := by
  obtain ⟨h1, h2, _⟩ := h x (by simp)
  obtain ⟨y, ys, rfl⟩ := List.exists_cons_of_ne_nil h1
  intro e
  simp only [List.head?_cons, Option.some.injEq] at e
  exact h2 (e ▸ List.mem_cons_self)

theorem goodT {H : CPath} (hn : GoodNames H) : GoodNames (trashC H) := goodNames_append hn good_local
theorem goodI {H : CPath} (hn : GoodNames H) : GoodNames (infoC H) := goodNames_append (goodT hn) good_info
theorem goodF {H : CPath} (hn : GoodNames H) : GoodNames (filesC H) := goodNames_append (goodT hn) good_files

theorem infoC_ne (H : CPath) : infoC H ≠ [] := by simp [infoC]
theorem filesC_ne (H : CPath) : filesC H ≠ [] := by simp [filesC]

theorem homeInfoDir {H : CPath} (h0 : H ≠ []) (hn : GoodNames H) :
    pjoin (homeStr H) (b "info") = toStr (infoC H) := by
  rw [homeStr_eq h0]
  exact pjoin_toStr (trashC_ne H) (goodT hn) _ (by decide +kernel)

theorem infoPath_eq {H : CPath} (hn : GoodNames H) {name : Bytes} (hg : GoodNames [name]) :
    pjoin (toStr (infoC H)) name = toStr (infoC H ++ [name]) :=
  pjoin_toStr (infoC_ne H) (goodI hn) name (head_ne_slash hg)

theorem contentsOf_file (fs : FS) (cwd P : CPath) (n : Name) (hp : Plain fs P) (hn : GoodNames (P ++ [n]))
    {d : Bytes} {m t : Nat} (hf : fs.get (P ++ [n]) = some (.file d m t)) :
    contentsOf fs cwd (toStr (P ++ [n])) = some (universalNewlines d) := by
  unfold contentsOf stat
  rw [resolve_leaf_fl fs cwd P n true hp hn (Or.inr fun t h => by rw [hf] at h; cases h)]
  simp only [hf]; rfl

/-- (a), one trash directory: the home trash whose `info/` holds exactly the well-formed entry `name`
    yields exactly that entry -/
theorem scan_one {fs : FS} {H : CPath} {name content rel : Bytes} (cwd : CPath) (E : OneEntry fs H name content)
    (hrel : parsePath (universalNewlines content) = some rel) :
    restoreEntriesOf fs cwd (homeStr H) [slash] = [entryOf H name content rel] := by
  obtain ⟨m, t, hf⟩ := E.isFile
  unfold restoreEntriesOf
  simp only [homeInfoDir E.homeNotRoot E.homeNames]
  rw [listdir_single fs cwd (infoC H) name E.infoPlain (goodI E.homeNames) (by rw [hf]; rfl) E.listed E.only]
  simp only [List.filter, E.isInfo, List.filterMap, infoPath_eq E.homeNames E.goodName]
  rw [contentsOf_file fs cwd (infoC H) name E.infoPlain (goodNames_append (goodI E.homeNames) E.goodName) hf]
  simp only [hrel]
  rfl

theorem restoreTrashDirs_home (fs : FS) (rc : ReadCfg) (o : RestoreOpts) {H : CPath}
    (hd : o.trashDir = none ∨ o.trashDir = some []) (hx : rc.env.xdg = none) (hh : rc.env.home = some (toStr H)) :
    restoreTrashDirs fs rc o.trashDir = (homeStr H, [slash]) :: volumeTrashDirs fs rc := by
  unfold restoreTrashDirs volumeTrashDirs
  rcases hd with hd | hd <;> simp [hd, homeTrashPaths, hx, hh, homeStr]

/-- (a), the whole scan: with no `--trash-dir`, HOME the canonical spelling of `H`, XDG_DATA_HOME
    unset, and no entry in the trash directories of the listed mount points -/
theorem scan_all {fs : FS} {H : CPath} {name content rel : Bytes} (rc : ReadCfg) (o : RestoreOpts)
    (E : OneEntry fs H name content) (hrel : parsePath (universalNewlines content) = some rel)
    (hd : o.trashDir = none ∨ o.trashDir = some []) (hx : rc.env.xdg = none) (hh : rc.env.home = some (toStr H))
    (hvol : ∀ tv ∈ volumeTrashDirs fs rc, restoreEntriesOf fs rc.cwd tv.1 tv.2 = []) :
    restoreEntries fs rc o = [entryOf H name content rel] := by
  unfold restoreEntries
  rw [restoreTrashDirs_home fs rc o hd hx hh, List.flatMap_cons]
  have : (volumeTrashDirs fs rc).flatMap (fun x => match x with | (t, v) => restoreEntriesOf fs rc.cwd t v) = [] := by
    rw [List.flatMap_eq_nil_iff]; exact fun tv h => hvol tv h
  rw [this]
  show restoreEntriesOf fs rc.cwd (homeStr H) [slash] ++ [] = _
  rw [scan_one rc.cwd E hrel]; rfl

/-! ### (b) the reply "0" -/

theorem reply_zero : parseIndexes (b "0") 1 = .ok [0] := by decide +kernel

theorem reply_ne_nil {r : Bytes} {n : Nat} {is : List Nat} (h : parseIndexes r n = .ok is) : r ≠ [] := by
  intro e; subst e
  have : parseIndexes [] n = .invalid := rfl
  rw [this] at h; cases h

/-! ### (c) `restoreOne` on the canonical entry comes down to `restoreCore` on the canonical paths -/

theorem payloadStr_eq {H : CPath} (_h0 : H ≠ []) (hn : GoodNames H) {stem : Bytes} (hs : GoodNames [stem])
    (hname : GoodNames [stem ++ trashinfoExt]) :
    pathOfBackupCopy (toStr (infoC H ++ [stem ++ trashinfoExt])) = toStr (filesC H ++ [stem]) := by
  have gT := goodT hn
  obtain ⟨w, x, hw, hx⟩ := body_last (trashC_ne H) gT
  have hT : toStr (trashC H) = w ++ [x] := by rw [toStr_ne (trashC_ne H), hw]
  have e1 : toStr (infoC H ++ [stem ++ trashinfoExt]) =
      pjoin (pjoin (toStr (trashC H)) (b "info")) (stem ++ trashinfoExt) := by
    rw [pjoin_toStr (trashC_ne H) gT _ (by decide +kernel)]
    exact (infoPath_eq hn hname).symm
  have e2 : toStr (filesC H ++ [stem]) = pjoin (pjoin (toStr (trashC H)) (b "files")) stem := by
    rw [pjoin_toStr (trashC_ne H) gT _ (by decide +kernel)]
    exact (pjoin_toStr (filesC_ne H) (goodF hn) stem (head_ne_slash hs)).symm
  obtain ⟨s1, s2, _⟩ := hs stem (by simp)
  rw [e1, e2]
  exact C02.payload_path_roundtrip (toStr (trashC H)) stem
    ⟨toStr_ne_nil _, by rw [hT, List.getLast?_concat]; intro e; exact hx (Option.some.inj e)⟩ ⟨s1, s2⟩

theorem restoreOne_canonical (cwd : CPath) (ov : Bool) {H P : CPath} {n : Name} {stem : Bytes} (d : Option Date)
    (s : RunState) (hH0 : H ≠ []) (hHn : GoodNames H) (hF : Plain s.fs (filesC H)) (hI : Plain s.fs (infoC H))
    (hP : Plain s.fs P) (hPn : GoodNames (P ++ [n])) (hgone : s.fs.get (P ++ [n]) = none)
    (hstem : GoodNames [stem]) (hname : GoodNames [stem ++ trashinfoExt]) :
    run noFaults (restoreOne cwd ov
      { loc := toStr (P ++ [n]), date := d, info := toStr (infoC H ++ [stem ++ trashinfoExt]) }) s =
    run noFaults (restoreCore (.ok (filesC H ++ [stem])) (.ok (P ++ [n])) (.ok (infoC H ++ [stem ++ trashinfoExt]))) s := by
  have hres : resolve s.fs cwd (toStr (P ++ [n])) = .ok (P ++ [n]) := resolve_leaf s.fs cwd P n hP hPn
  have hlex : pLexists s.fs cwd (toStr (P ++ [n])) = false := by
    unfold pLexists lstat; simp only [hres, hgone]; rfl
  have hdir : pIsdir s.fs cwd (toStr P) = true := by
    obtain ⟨m, t, hg⟩ := isDirAt_iff.1 (hP P List.prefix_rfl)
    unfold pIsdir stat
    rw [resolve_plain_fl s.fs cwd P true hP hPn.left]
    simp only [hg]; rfl
  unfold restoreOne
  simp only [run_bind, run_pure, run_read, hlex, Bool.false_eq_true, and_false, false_and, if_false,
    dirname_toStr P n hPn, hdir, if_true, payloadStr_eq hH0 hHn hstem hname, hres,
    resolve_leaf s.fs cwd (filesC H) stem hF (goodNames_append (goodF hHn) hstem),
    resolve_leaf s.fs cwd (infoC H) (stem ++ trashinfoExt) hI (goodNames_append (goodI hHn) hname)]

/-! ### (a)+(b): a run of `trash-restore` that is offered exactly one entry and is answered "0" -/

theorem sort_single (mode : SortMode) (e : Entry) : sortEntries mode [e] = [e] := by
  cases mode <;> simp [sortEntries]

/-- Under ANY fault oracle: when the scan yields exactly the entry `e`, in scope of the directory
    argument, and the reply selects index 0 of one, the run is `restoreOne` on `e` (after the listing
    was printed: same file system, same calls so far); exit status 0 iff that succeeds. -/
theorem runRestore_single (φ : Oracle) (rc : ReadCfg) (o : RestoreOpts) (reply : Bytes) (e : Entry) (s : RunState)
    (hall : restoreEntries s.fs rc o = [e]) (hscope : inScope (scopeDir rc o) e.loc = true)
    (hreply : parseIndexes reply 1 = .ok [0]) :
    ∃ s', s'.fs = s.fs ∧ s'.trace = s.trace ∧ s'.hist = s.hist ∧ s'.n = s.n ∧
      (run φ (runRestore rc o (some reply)) s).2.fs = (run φ (restoreOne rc.cwd o.overwrite e) s').2.fs ∧
      (run φ (runRestore rc o (some reply)) s).2.trace = (run φ (restoreOne rc.cwd o.overwrite e) s').2.trace ∧
      ((run φ (restoreOne rc.cwd o.overwrite e) s').1 = .ok () →
        (run φ (runRestore rc o (some reply)) s).1.exit = 0 ∧ (run φ (runRestore rc o (some reply)) s).1.crash = none) ∧
      (∀ er, (run φ (restoreOne rc.cwd o.overwrite e) s').1 = .error er →
        (run φ (runRestore rc o (some reply)) s).1.exit = 1) := by
  have hoff : sortEntries o.sort (List.filter (fun e => inScope (restoreScopeDir (toStr rc.cwd) o.path) e.loc)
      (restoreEntries s.fs rc o)) = [e] := by
    rw [hall]
    have : inScope (restoreScopeDir (toStr rc.cwd) o.path) e.loc = true := hscope
    simp only [List.filter, this]
    exact sort_single _ _
  unfold runRestore
  rw [run_read_bind]
  simp only [hoff]
  rw [if_neg (by simp), run_bind, C09.emitAll_run]
  simp only [if_neg (reply_ne_nil hreply), List.length_singleton, hreply]
  have hout : (List.filterMap (fun i => Option.map (fun e => Out.stdout (restoreLine i e)) [e][i]?) (List.range 1)).reverse
      ++ s.outs = Out.stdout (restoreLine 0 e) :: s.outs := rfl
  rw [hout]
  refine ⟨{ s with outs := Out.stdout (restoreLine 0 e) :: s.outs }, rfl, rfl, rfl, rfl, ?_⟩
  simp only [List.filterMap, List.getElem?_cons_zero]
  rw [run_bind]
  simp only [restoreMany, run_bind]
  generalize run φ (restoreOne rc.cwd o.overwrite e) _ = q
  obtain ⟨res, s2⟩ := q
  cases res with
  | ok u => cases u; exact ⟨rfl, rfl, fun _ => ⟨rfl, rfl⟩, fun er h => by cases h⟩
  | error er => exact ⟨rfl, rfl, fun h => (by cases h), fun _ _ => rfl⟩

/-! ### the resolved layer, exactly: the three directories whose entry lists changed -/

theorem touched_eq (o : Option Node) : touched o = touch o := by
  rcases o with _ | (_ | _ | _) <;> rfl

/-- Put, then restore (resolved layer, hypotheses of `C02.restore_put_id_partial`): the three
    directories whose entry lists changed — the entry's parent, `files/`, `info/` — are as before
    with the canonical fresh mtime. -/
theorem restore_put_dirs (fs : FS) (infoC filesC src : CPath) (base content : Bytes) (st st' : PutSt)
    (h : Setting fs infoC filesC src) (name : Bytes) (s1 : RunState)
    (hr : run noFaults (putCore infoC filesC base content (fun _ => .ok src) st) { fs := fs } = ((.ok name, st'), s1))
    (hpar : fs.isDirAt (FS.parent src) = true)
    (hlen : ∀ n, src.getLast? = some n → n.length ≤ 255)
    (hnotMount : fs.isMount (filesC ++ [stemOf name]) = false) :
    let r := run noFaults (restoreCore (.ok (filesC ++ [stemOf name])) (.ok src) (.ok (infoC ++ [name]))) { fs := s1.fs }
    r.2.fs.get (FS.parent src) = touch (fs.get (FS.parent src)) ∧
    r.2.fs.get filesC = touch (fs.get filesC) ∧ r.2.fs.get infoC = touch (fs.get infoC) := by
  have g := Geo.of_setting h
  have T := C01.put_ok_moves_whole fs infoC filesC src base content st st' h name s1 hr
  have cs := core_spec base content st { fs := fs } h
  rw [hr] at cs
  obtain ⟨hst, hfs⟩ : name = stemOf name ++ trashinfoExt ∧
      s1.fs = fsC (fsB fs (infoC ++ [name]) content) src (filesC ++ [stemOf name]) filesC := by
    rcases cs with ⟨e, a, _⟩ | ⟨nm, a, hst, _, _, hfs, _⟩
    · cases a
    · simp only at a hfs
      cases a
      exact ⟨hst, hfs⟩
  have hm : s1.fs.mounts = fs.mounts := C02.run_mounts noFaults _ { fs := fs } |>.symm ▸ (by rw [hr])
  have hnt := stem_ne hst
  obtain ⟨D, hD⟩ : ∃ D, filesC ++ [stemOf name] = D := ⟨_, rfl⟩
  obtain ⟨P, hP⟩ : ∃ P, infoC ++ [name] = P := ⟨_, rfl⟩
  have hDpar : parent D = filesC := by rw [← hD]; exact dropLast_concat _ _
  have hPpar : parent P = infoC := by rw [← hP]; exact dropLast_concat _ _
  have D_S : ¬ D <+: src := hD ▸ g.D_S
  have S_D : ¬ src <+: D := hD ▸ g.S_D
  have D_I : ¬ D <+: infoC := hD ▸ g.D_I
  have D_P : ¬ D <+: P := hD ▸ hP ▸ g.D_P hnt
  have S_P : ¬ src <+: P := hP ▸ g.S_P
  have D_F : ¬ D <+: filesC := hD ▸ Geo.D_F
  have D_ps : ¬ D <+: parent src := hD ▸ g.D_ps
  have P_ps : P ≠ parent src := hP ▸ g.P_ps
  have P_F : P ≠ filesC := hP ▸ g.P_F
  have P_I : P ≠ infoC := by rw [← hP]; intro e; simpa using congrArg List.length e
  have F_ps : filesC ≠ parent src := fun e => g.h6 (e ▸ dropLast_pfx src)
  -- the state after the put at the three directories
  have a1 : s1.fs.get (parent src) = touch (fs.get (parent src)) := by rw [hfs]; exact final_ps g hnt fs content
  have a2 : s1.fs.get filesC = touch (fs.get filesC) := by rw [hfs]; exact final_F g hnt fs content
  have a3 : s1.fs.get infoC = touch (fs.get infoC) := by rw [hfs]; exact final_I g hnt fs content
  rw [hD] at hnotMount
  rw [hD, hP]
  have Twhole : ∀ rel, s1.fs.get (D ++ rel) = fs.get (src ++ rel) := hD ▸ T.whole
  have Tinfo : s1.fs.get P = some (.file content 0o600 0) := hP ▸ T.info
  obtain ⟨na, hna⟩ := Option.isSome_iff_exists.1 h.srcExists
  have hdst : s1.fs.get src = none := by simpa using T.gone []
  have hsrc : s1.fs.get D = some na := by simpa [hna] using Twhole []
  have hmnt : s1.fs.isMount D = false := by rw [isMount_congr hm]; exact hnotMount
  have hdev : s1.fs.dev (parent D) = s1.fs.dev (parent src) := by
    rw [dev_congr hm, dev_congr hm, hDpar]; exact h.sameDev.symm
  obtain ⟨pm, pt, hpd⟩ := isDirAt_get hpar
  obtain ⟨pt', hpd'⟩ := T.dirs.1 pm pt hpd
  have hi : (fsC s1.fs D src (parent src)).get P = some (.file content 0o600 0) := by
    have b2 : P ≠ parent D := by rw [hDpar]; exact P_F
    rw [fsC_get, if_neg P_ps, if_neg b2, get_moveTree', if_neg S_P, if_neg D_P, Tinfo]
  obtain ⟨_, r2⟩ := C09.restore_spec hdst hsrc hmnt hdev g.h7 hlen hpd' D_S hi
  intro r
  have hr2 : r.2.fs = C09.fsR s1.fs D src P := r2
  -- reading the final state at a directory `q` that is neither the info file nor under the moved trees
  have key : ∀ q, q ≠ P → ¬ src <+: q → ¬ D <+: q → (q = parent src ∨ q = filesC ∨ q = infoC) →
      s1.fs.get q = touch (fs.get q) → r.2.fs.get q = touch (fs.get q) := by
    intro q q1 q2 q3 q4 q5
    have mt : (moveTree s1.fs D src).get q = touch (fs.get q) := by
      rw [get_moveTree', if_neg q2, if_neg q3, q5]
    have inner : (fsC s1.fs D src (parent src)).get q = touch (fs.get q) := by
      rw [fsC_get, hDpar]
      by_cases e1 : q = parent src
      · rw [if_pos e1, if_neg (Ne.symm F_ps), ← e1, mt, touch_touch]
      · rw [if_neg e1]
        by_cases e2 : q = filesC
        · rw [if_pos e2, ← e2, mt, touch_touch]
        · rw [if_neg e2, mt]
    rw [hr2, C09.fsR, get_touchDir, hPpar]
    by_cases e3 : q = infoC
    · rw [if_pos e3, get_removeNode, if_neg (Ne.symm P_I), ← e3, inner, touch_touch]
    · rw [if_neg e3, get_removeNode, if_neg q1, inner]
  refine ⟨key _ (Ne.symm P_ps) g.S_ps D_ps (Or.inl rfl) a1, key _ (Ne.symm P_F) g.h4 D_F (Or.inr (Or.inl rfl)) a2,
    key _ (Ne.symm P_I) g.h3 D_I (Or.inr (Or.inr rfl)) a3⟩

/-- `restore_put_dirs` in the vocabulary of Props/C02CmdDefs.lean -/
theorem restore_put_dirs_touched (fs : FS) (infoC filesC src : CPath) (base content : Bytes) (st st' : PutSt)
    (h : Setting fs infoC filesC src) (name : Bytes) (s1 : RunState)
    (hr : run noFaults (putCore infoC filesC base content (fun _ => .ok src) st) { fs := fs } = ((.ok name, st'), s1))
    (hpar : fs.isDirAt (FS.parent src) = true)
    (hlen : ∀ n, src.getLast? = some n → n.length ≤ 255)
    (hnotMount : fs.isMount (filesC ++ [stemOf name]) = false) :
    let r := run noFaults (restoreCore (.ok (filesC ++ [stemOf name])) (.ok src) (.ok (infoC ++ [name]))) { fs := s1.fs }
    r.2.fs.get (FS.parent src) = touched (fs.get (FS.parent src)) ∧
    r.2.fs.get filesC = touched (fs.get filesC) ∧ r.2.fs.get infoC = touched (fs.get infoC) := by
  simp only [touched_eq]
  exact restore_put_dirs fs infoC filesC src base content st st' h name s1 hr hpar hlen hnotMount

/-! ### the name put chooses when the plain name is free -/

theorem persist_first (I F : CPath) (base content : Bytes) (fuel : Nat) (st : PutSt) (s : RunState) {m t : Nat}
    (hI : s.fs.get I = some (.dir m t)) (hF : s.fs.get (F ++ [base]) = none)
    (hfree : s.fs.get (I ++ [base ++ trashinfoExt]) = none) (hlen : (base ++ trashinfoExt).length ≤ 255) :
    (run noFaults (persistLoop I F base content (fuel + 1) 0 false st) s).1 = (.created (base ++ trashinfoExt), st) := by
  have hs : suffixFor 0 st = ([], st) := by simp [suffixFor]
  have hname : trashinfoBasename base [] false = base ++ trashinfoExt := by simp [trashinfoBasename]
  have hstem : (base ++ trashinfoExt).take ((base ++ trashinfoExt).length - trashinfoExt.length) = base := by simp
  have hlex : lexistsC s.fs (F ++ [base]) = false := by simp [lexistsC, hF]
  obtain ⟨w1, _⟩ := C16IndepCore.atomicWrite_result s I (base ++ trashinfoExt) content hI
  rw [if_neg (by omega), hfree] at w1
  simp only [Option.isSome_none, Bool.false_eq_true, if_false] at w1
  unfold persistLoop
  simp only [hs, hname, hstem, run_bind, run_read, hlex, Bool.false_eq_true, if_false]
  generalize run noFaults (atomicWrite (I ++ [base ++ trashinfoExt]) content) s = r at w1
  obtain ⟨res, s2⟩ := r
  simp only at w1
  subst w1
  rfl

theorem homeCore_name {c : PutCfg} {fs : FS} {H P : CPath} {n : Name} (W : HomeWorld c fs H) (A : GoodArg fs H P n)
    (st : PutSt) (hF : fs.get (filesC H ++ [n]) = none) (hfree : fs.get (infoC H ++ [n ++ trashinfoExt]) = none)
    (hlen : n.length + 10 ≤ 255) :
    (run noFaults (homeCore c H P n st) { fs := fs }).1 = (.ok (n ++ trashinfoExt), st) := by
  obtain ⟨m, t, hI⟩ := isDirAt_iff.1 (W.infoPlain _ List.prefix_rfl)
  unfold homeCore
  rw [C16IndepCore.core_result _ _ st { fs := fs } (W_setting W A), basename_locOf P n A.names]
  have hp := persist_first (infoC H) (filesC H) n (formatTrashinfoWith (locOf P n) c.dateStr) 399 st { fs := fs }
    hI hF hfree (by rw [List.length_append, ext_len]; exact hlen)
  have e : persistFuel = 399 + 1 := rfl
  rw [e, hp]
  rfl

/-! ### the state `trash-put` leaves: exactly one entry in `info/` -/

theorem stemOf_ext (n : Bytes) : stemOf (n ++ trashinfoExt) = n := by simp [stemOf]

theorem dom_touchDir (fs : FS) (p : CPath) : (fs.touchDir p).dom = fs.dom := by
  unfold touchDir; split <;> rfl

theorem mem_dom_after (fs : FS) (I S D F : CPath) (name content : Bytes) :
    I ++ [name] ∈ (fsC (fsB fs (I ++ [name]) content) S D F).dom := by
  simp [fsC, fsB, dom_touchDir, moveTree, setNode]

theorem goodNames_info_name {n : Name} (hn : GoodNames [n]) (hlen : n.length + 10 ≤ 255) :
    GoodNames [n ++ trashinfoExt] := by
  obtain ⟨h1, h2, _⟩ := hn n (by simp)
  refine goodNames_single ⟨by simp [h1], ?_, ?_, ?_, by rw [List.length_append, ext_len]; omega⟩
  · intro h
    rcases List.mem_append.1 h with h | h
    · exact h2 h
    · rw [C02.ext_eq] at h; revert h; decide
  · intro e
    have := congrArg List.length e
    rw [List.length_append, ext_len] at this; simp at this
  · intro e
    have := congrArg List.length e
    rw [List.length_append, ext_len] at this; simp [dotdot] at this

theorem isTrashinfoName_of {n : Name} (hn : GoodNames [n]) : isTrashinfoName (n ++ trashinfoExt) = true := by
  obtain ⟨h1, _, h3, h4, _⟩ := hn n (by simp)
  unfold isTrashinfoName
  have e : (n ++ trashinfoExt).take ((n ++ trashinfoExt).length - trashinfoExt.length) = n := by simp
  simp only [e]
  simp [Bytes.endsWith, h1, h3, h4]

theorem pjoin_abs (a c : Bytes) (h : isAbs c = true) : pjoin a c = c := by
  unfold pjoin; unfold isAbs at h; rw [if_pos h]

theorem homeCore_def (c : PutCfg) (H P : CPath) (n : Name) (st : PutSt) :
    homeCore c H P n st = putCore (infoC H) (filesC H) (basename (locOf P n)) (infoContent c P n)
      (fun _ => .ok (P ++ [n])) st := rfl

/-- The state the everyday put leaves when `info/` was empty and the plain name was free: the core
    answered `n.trashinfo`; the world is still a `HomeWorld`; the way to the entry's parent is still
    plain; the entry is gone; `info/` holds exactly `n.trashinfo`, with the bytes put formatted. -/
theorem after_put {c : PutCfg} {fs : FS} {H P : CPath} {n : Name} (W : HomeWorld c fs H) (A : GoodArg fs H P n)
    (st : PutSt) (hlen : n.length + 10 ≤ 255) (hinfoEmpty : ∀ x, fs.get (infoC H ++ [x]) = none)
    (hfreeF : fs.get (filesC H ++ [n]) = none) :
    let R := run noFaults (homeCore c H P n st) { fs := fs }
    R = ((.ok (n ++ trashinfoExt), st), R.2) ∧ HomeWorld c R.2.fs H ∧ Plain R.2.fs P ∧
    R.2.fs.get (P ++ [n]) = none ∧ OneEntry R.2.fs H (n ++ trashinfoExt) (infoContent c P n) := by
  intro R
  have hname : R.1 = (.ok (n ++ trashinfoExt), st) := homeCore_name W A st hfreeF (hinfoEmpty _) hlen
  have hR : R = ((.ok (n ++ trashinfoExt), st), R.2) := Prod.ext hname rfl
  have SA := W_setting W A
  have hR' : run noFaults (putCore (infoC H) (filesC H) (basename (locOf P n)) (infoContent c P n)
      (fun _ => .ok (P ++ [n])) st) { fs := fs } = ((.ok (n ++ trashinfoExt), st), R.2) := hR
  have T := C01.put_ok_moves_whole fs (infoC H) (filesC H) (P ++ [n]) _ _ st st SA _ R.2 hR'
  have hm : R.2.fs.mounts = fs.mounts := C02.run_mounts noFaults _ { fs := fs }
  have W' := world_after W A T hm
  have gn : GoodNames [n] := C07.GoodNames.right A.names
  have hP : Plain R.2.fs P := plain_after W T A.parentPlain
    (fun h => by have := h.length_le; simp at this; omega)
    (fun x h => A.apartFiles.2 ((List.prefix_append _ _).trans (h.trans (List.prefix_append _ _))))
  have cs := core_spec (basename (locOf P n)) (infoContent c P n) st { fs := fs } SA
  rw [hR'] at cs
  have hfs : R.2.fs = fsC (fsB fs (infoC H ++ [n ++ trashinfoExt]) (infoContent c P n)) (P ++ [n])
      (filesC H ++ [stemOf (n ++ trashinfoExt)]) (filesC H) := by
    rcases cs with ⟨e, a, _⟩ | ⟨nm, a, _, _, _, hfs, _⟩
    · cases a
    · simp only at a hfs
      cases a
      exact hfs
  refine ⟨hR, W', hP, by simpa using T.gone [], ?_⟩
  exact
    { homeNotRoot := W.homeNotRoot
      homeNames := W.homeNames
      infoPlain := W'.infoPlain
      isFile := ⟨_, _, T.info⟩
      listed := by rw [hfs]; exact mem_dom_after _ _ _ _ _ _ _
      only := fun x hx => by
        rw [(C09.put_adds_one fs (infoC H) (filesC H) (P ++ [n]) _ _ st st SA _ R.2 hR').2.2 x hx]
        exact hinfoEmpty x
      goodName := goodNames_info_name gn hlen
      isInfo := isTrashinfoName_of gn }

theorem entryOf_put (c : PutCfg) (H P : CPath) (n : Name) (hn : GoodNames (P ++ [n])) :
    entryOf H (n ++ trashinfoExt) (infoContent c P n) (locOf P n) = putEntry c H P n := by
  unfold entryOf putEntry
  rw [locOf_eq P n hn, pjoin_abs _ _ (isAbs_toStr _)]

/-! ### (d) the composition -/

/-- `trash-put P/n`, then `trash-restore` answered with index 0: the everyday case. -/
theorem put_restore {c : PutCfg} {fs : FS} {H P : CPath} {n : Name} (W : HomeWorld c fs H) (A : GoodArg fs H P n)
    (st : PutSt) (rc : ReadCfg) (o : RestoreOpts) (reply : Bytes)
    (hlen : n.length + 10 ≤ 255)
    (hinfoEmpty : ∀ x, fs.get (infoC H ++ [x]) = none)
    (hfree : ∀ rel, fs.get (filesC H ++ [n] ++ rel) = none)
    (hnotMount : fs.isMount (filesC H ++ [n]) = false)
    (henv : rc.env = c.env) (hd : o.trashDir = none ∨ o.trashDir = some [])
    (hscope : inScope (scopeDir rc o) (toStr (P ++ [n])) = true)
    (hreply : parseIndexes reply 1 = .ok [0]) :
    let p := run noFaults (runPut c [toStr (P ++ [n])] st) { fs := fs }
    (∀ tv ∈ volumeTrashDirs p.2.fs rc, restoreEntriesOf p.2.fs rc.cwd tv.1 tv.2 = []) →
    let r := run noFaults (runRestore rc o (some reply)) { fs := p.2.fs }
    p.1.outcomes = [(toStr (P ++ [n]), .trashed (homeStr H) (n ++ trashinfoExt))] ∧ p.1.crash = none ∧ p.1.exit = 0 ∧
    restoreEntries p.2.fs rc o = [putEntry c H P n] ∧
    r.1.exit = 0 ∧ r.1.crash = none ∧
    ∀ q, r.2.fs.get q = if q = P ∨ q = filesC H ∨ q = infoC H then touched (fs.get q) else fs.get q := by
  intro p hvol r
  obtain ⟨hR, W', hP', hgone, E⟩ := after_put W A st hlen hinfoEmpty (by simpa using hfree [])
  generalize hRdef : run noFaults (homeCore c H P n st) { fs := fs } = R at hR W' hP' hgone E
  have hok : (run noFaults (homeCore c H P n st) { fs := fs }).1.1 = .ok (n ++ trashinfoExt) := by rw [hRdef, hR]
  obtain ⟨p1, p2, p3, p4⟩ := alone_home W A st (n ++ trashinfoExt) hok
  have hpfs : p.2.fs = R.2.fs := by rw [← hRdef]; exact p4
  -- the scan
  have hall : restoreEntries p.2.fs rc o = [putEntry c H P n] := by
    rw [← entryOf_put c H P n A.names]
    refine scan_all rc o (hpfs ▸ E) (parsePath_written _ _) hd ?_ ?_ hvol
    · rw [henv]; exact W.xdgUnset
    · rw [henv]; exact W.home
  -- the run comes down to `restoreOne`, that to `restoreCore`
  obtain ⟨s', hs', _, _, _, hfin, _, hexit, _⟩ :=
    runRestore_single noFaults rc o reply (putEntry c H P n) { fs := p.2.fs } hall hscope hreply
  have hs'' : s'.fs = R.2.fs := by rw [hs']; exact hpfs
  have gn : GoodNames [n] := C07.GoodNames.right A.names
  have hcanon := restoreOne_canonical rc.cwd o.overwrite (H := H) (P := P) (n := n) (stem := n)
    (parseDeletionDate (universalNewlines (infoContent c P n))) s' W.homeNotRoot W.homeNames
    (hs'' ▸ W'.filesPlain) (hs'' ▸ W'.infoPlain) (hs'' ▸ hP') A.names (hs'' ▸ hgone) gn (goodNames_info_name gn hlen)
  have hone : run noFaults (restoreOne rc.cwd o.overwrite (putEntry c H P n)) s' =
      run noFaults (restoreCore (.ok (filesC H ++ [n])) (.ok (P ++ [n])) (.ok (infoC H ++ [n ++ trashinfoExt]))) s' :=
    hcanon
  obtain ⟨k1, k2⟩ := run_noFaults_fs
    (restoreCore (.ok (filesC H ++ [n])) (.ok (P ++ [n])) (.ok (infoC H ++ [n ++ trashinfoExt]))) s' { fs := R.2.fs } hs''
  -- the resolved layer
  have SA := W_setting W A
  have hR' : run noFaults (putCore (infoC H) (filesC H) (basename (locOf P n)) (infoContent c P n)
      (fun _ => .ok (P ++ [n])) st) { fs := fs } = ((.ok (n ++ trashinfoExt), st), R.2) := by
    rw [← homeCore_def, hRdef]; exact hR
  have hpar : fs.isDirAt (FS.parent (P ++ [n])) = true := by
    rw [FS.parent, dropLast_concat]; exact A.parentPlain P List.prefix_rfl
  have hlen' : ∀ m, (P ++ [n]).getLast? = some m → m.length ≤ 255 := by
    intro m hm
    rw [List.getLast?_concat] at hm
    cases hm
    exact (gn n (by simp)).2.2.2.2
  have id1 := C02.restore_put_id_partial fs (infoC H) (filesC H) (P ++ [n]) _ _ st st SA _ R.2 hR' hpar hlen'
    (by rw [stemOf_ext]; exact hnotMount) (by rw [stemOf_ext]; exact hfree)
  have id2 := restore_put_dirs fs (infoC H) (filesC H) (P ++ [n]) _ _ st st SA _ R.2 hR' hpar hlen'
    (by rw [stemOf_ext]; exact hnotMount)
  rw [stemOf_ext] at id1 id2
  simp only [FS.parent, dropLast_concat] at id1 id2
  obtain ⟨i1, i2, _, _, i5⟩ := id1
  obtain ⟨j1, j2, j3⟩ := id2
  have hres : (run noFaults (restoreOne rc.cwd o.overwrite (putEntry c H P n)) s').1 = .ok () := by
    rw [hone, k1]; exact i1
  have hfin' : r.2.fs = (run noFaults (restoreCore (.ok (filesC H ++ [n])) (.ok (P ++ [n]))
      (.ok (infoC H ++ [n ++ trashinfoExt]))) { fs := R.2.fs }).2.fs := by
    rw [← k2, ← hone]; exact hfin
  refine ⟨p1, p2, p3, hall, (hexit hres).1, (hexit hres).2, fun q => ?_⟩
  rw [hfin']
  by_cases hq : q = P ∨ q = filesC H ∨ q = infoC H
  · rw [if_pos hq, touched_eq]
    rcases hq with rfl | rfl | rfl
    · exact j1
    · exact j2
    · exact j3
  · rw [if_neg hq]
    simp only [not_or] at hq
    by_cases hu : FS.under (P ++ [n]) q = true
    · obtain ⟨rel, rfl⟩ := (under_iff _ _).1 hu
      exact i2 rel
    · exact i5 q hu hq.1 hq.2.1 hq.2.2

/-! ### discharging the side conditions in the simplest cases -/

theorem volumeTrashDirs_nil (fs : FS) (rc : ReadCfg) (h : rc.mountPoints = []) : volumeTrashDirs fs rc = [] := by
  unfold volumeTrashDirs; rw [h]; rfl

theorem normpath_root : normpath (b "/") = [slash] := by decide +kernel

/-- the directory argument "/" puts every entry in scope -/
theorem inScope_root (rc : ReadCfg) (o : RestoreOpts) (h : o.path = b "/") (loc : Bytes) :
    inScope (scopeDir rc o) loc = true := by
  unfold scopeDir
  rw [h, scope_dir_absolute _ _ (by decide +kernel), normpath_root]
  simp [inScope]

/-- the canonical spelling of the entry's own directory as argument puts the entry in scope -/
theorem inScope_parent (rc : ReadCfg) (o : RestoreOpts) (P : CPath) (n : Name) (hn : GoodNames (P ++ [n]))
    (h : o.path = toStr P) : inScope (scopeDir rc o) (toStr (P ++ [n])) = true := by
  unfold scopeDir
  rw [h, scope_dir_absolute _ _ (isAbs_toStr P), normpath_toStr P hn.left]
  by_cases h0 : P = []
  · subst h0; simp [inScope, toStr]
  · rw [toStr_snoc, toStr_ne h0]
    simp [inScope, Bytes.startsWith]

/-! #### no directory argument: the scope is the working directory (`C13.scope_dir_default`) -/

/-- the canonical spelling of a directory other than "/" on the way to the entry puts it in scope -/
theorem inScope_ancestor (D P : CPath) (n : Name) (h0 : D ≠ []) (hpre : D <+: P) :
    inScope (toStr D) (toStr (P ++ [n])) = true := by
  obtain ⟨Q, rfl⟩ := hpre
  have : toStr (D ++ Q ++ [n]) = toStr D ++ [slash] ++ (((Q ++ [n]).head?.getD []) ++ C07.body (Q ++ [n]).tail) := by
    rw [toStr_ne (by simp), toStr_ne h0, List.append_assoc, C07.body_append]
    cases Q with
    | nil => simp [C07.body]
    | cons x xs => simp [C07.body]
  rw [this]
  simp [inScope, Bytes.startsWith]

/-- no directory argument, run from a directory on the way to the entry — "/" included (since the
    fix "trash-restore from / offered nothing"; before it the scope from "/" was "//") -/
theorem inScope_cwd (rc : ReadCfg) (o : RestoreOpts) (P : CPath) (n : Name) (hp : o.path = [])
    (hn : GoodNames rc.cwd) (hpre : rc.cwd <+: P) :
    inScope (scopeDir rc o) (toStr (P ++ [n])) = true := by
  unfold scopeDir
  rw [hp, scope_dir_default _ hn]
  by_cases h0 : rc.cwd = []
  · rw [h0]; simp [inScope, toStr]
  · exact inScope_ancestor _ _ _ h0 hpre

/-- from "/" itself, without a directory argument, the scope is "/" (`join("/", "")` is "/"; before
    the fix "trash-restore from / offered nothing" it was `normpath("/" + "/" + "")` = "//") -/
theorem scopeDir_root_cwd (rc : ReadCfg) (o : RestoreOpts) (hc : rc.cwd = []) (hp : o.path = []) :
    scopeDir rc o = [slash] := by
  unfold scopeDir; rw [hc, hp]; decide +kernel

/-- a valid date string is read back: the offered entry carries that date -/
theorem putEntry_date (c : PutCfg) (H P : CPath) (n : Name) (d : Date) (hd : d.valid = true) (hy : 1000 ≤ d.y)
    (hc : c.dateStr = d.fmt) : (putEntry c H P n).date = some d := by
  have := C03.parseDate_format (locOf P n) d hd hy
  simp only [readText, Option.map_some, Option.some.injEq] at this
  simp [putEntry, infoContent, hc, parseDeletionDate, this]

/-! ### the everyday corollary, spelled out -/

theorem touched_dir {o : Option Node} {m t : Nat} (h : o = some (.dir m t)) : touched o = some (.dir m 0) := by
  subst h; rfl

/-- `put_restore` with hypotheses on the initial world only: no mount point is listed, the directory
    argument is "/", or the entry's own directory, or absent with the working directory ("/" included)
    on the way to the entry; the reply is "0". -/
theorem put_restore_everyday {c : PutCfg} {fs : FS} {H P : CPath} {n : Name} (W : HomeWorld c fs H)
    (A : GoodArg fs H P n) (st : PutSt) (rc : ReadCfg) (o : RestoreOpts)
    (hlen : n.length + 10 ≤ 255)
    (hinfoEmpty : ∀ x, fs.get (infoC H ++ [x]) = none)
    (hfree : ∀ rel, fs.get (filesC H ++ [n] ++ rel) = none)
    (hnotMount : fs.isMount (filesC H ++ [n]) = false)
    (henv : rc.env = c.env) (hmp : rc.mountPoints = []) (hd : o.trashDir = none ∨ o.trashDir = some [])
    (hpath : o.path = b "/" ∨ o.path = toStr P ∨ (o.path = [] ∧ GoodNames rc.cwd ∧ rc.cwd <+: P)) :
    let p := run noFaults (runPut c [toStr (P ++ [n])] st) { fs := fs }
    let r := run noFaults (runRestore rc o (some (b "0"))) { fs := p.2.fs }
    p.1.outcomes = [(toStr (P ++ [n]), .trashed (homeStr H) (n ++ trashinfoExt))] ∧ p.1.crash = none ∧ p.1.exit = 0 ∧
    r.1.exit = 0 ∧ r.1.crash = none ∧
    (∀ rel, r.2.fs.get (P ++ [n] ++ rel) = fs.get (P ++ [n] ++ rel)) ∧
    r.2.fs.get (filesC H ++ [n]) = none ∧ r.2.fs.get (infoC H ++ [n ++ trashinfoExt]) = none ∧
    (∀ q, q ≠ P → q ≠ filesC H → q ≠ infoC H → r.2.fs.get q = fs.get q) ∧
    (∀ q, q = P ∨ q = filesC H ∨ q = infoC H → ∃ m t, fs.get q = some (.dir m t) ∧ r.2.fs.get q = some (.dir m 0)) := by
  intro p r
  have hscope : inScope (scopeDir rc o) (toStr (P ++ [n])) = true := by
    rcases hpath with h | h | ⟨h, hg, hpre⟩
    · exact inScope_root rc o h _
    · exact inScope_parent rc o P n A.names h
    · exact inScope_cwd rc o P n h hg hpre
  obtain ⟨h1, h2, h3, _, h5, h6, h7⟩ := put_restore W A st rc o (b "0") hlen hinfoEmpty hfree hnotMount henv hd hscope
    reply_zero (by intro tv htv; rw [volumeTrashDirs_nil _ _ hmp] at htv; cases htv)
  have away : ∀ q, q ≠ P → q ≠ filesC H → q ≠ infoC H → r.2.fs.get q = fs.get q := by
    intro q q1 q2 q3
    rw [h7 q, if_neg (by simp [q1, q2, q3])]
  have hPF : ¬ filesC H <+: P := fun h => A.apartFiles.2 (h.trans (List.prefix_append _ _))
  have hPI : ¬ infoC H <+: P := fun h => A.apartInfo.2 (h.trans (List.prefix_append _ _))
  refine ⟨h1, h2, h3, h5, h6, fun rel => ?_, ?_, ?_, away, ?_⟩
  · apply away
    · intro e; have := congrArg List.length e; simp at this
    · intro e; exact A.apartFiles.1 (e ▸ List.prefix_append _ _)
    · intro e; exact A.apartInfo.1 (e ▸ List.prefix_append _ _)
  · rw [away, (by simpa using hfree [] : fs.get (filesC H ++ [n]) = none)]
    · intro e; exact hPF (e ▸ List.prefix_append _ _)
    · intro e; have := congrArg List.length e; simp at this
    · intro e; exact (distinct_IF H).2 ((under_iff _ _).2 (e ▸ List.prefix_append _ _))
  · rw [away, hinfoEmpty]
    · intro e; exact hPI (e ▸ List.prefix_append _ _)
    · intro e; exact (distinct_IF H).1 ((under_iff _ _).2 (e ▸ List.prefix_append _ _))
    · intro e; have := congrArg List.length e; simp at this
  · intro q hq
    have hdir : fs.isDirAt q = true := by
      rcases hq with rfl | rfl | rfl
      · exact A.parentPlain _ List.prefix_rfl
      · exact W.filesPlain _ List.prefix_rfl
      · exact W.infoPlain _ List.prefix_rfl
    obtain ⟨m, t, hg⟩ := isDirAt_iff.1 hdir
    exact ⟨m, t, hg, by rw [h7 q, if_pos hq, touched_dir hg]⟩

end TrashVerif.Proofs.C02Cmd
