/-
  Proofs/C13Order.lean — proofs for Props/C13Order.lean (general part).
-/
import TrashVerif.Props.C13OrderDefs
import TrashVerif.Proofs.C13Cmd
import TrashVerif.Proofs.C13
namespace TrashVerif.Proofs.C13Order
open TrashVerif Prog FS PutCore PutLemmas C09Hist C13Cmd C13Order
open TrashVerif.Proofs.C13Cmd
open TrashVerif.Proofs.C09Hist (GeoI not_concat_pfx info_ne_dir isFileAt_get)
open TrashVerif.Proofs.C10Loop (pay_not_pfx_info)
open TrashVerif.Proofs.C02Cmd (reply_ne_nil)

/-! ### (1) the loop is the fold -/

theorem restoreMany_eq_seq (φ : Oracle) (cwd : CPath) (ov : Bool) : ∀ (es : List Entry) (s : RunState),
    run φ (restoreMany cwd ov es) s = restoreSeq φ cwd ov es s := by
  intro es
  induction es with
  | nil => intro s; rfl
  | cons e es ih =>
    intro s
    rw [restoreMany, run_bind, restoreSeq]
    cases h : (run φ (restoreOne cwd ov e) s).1 with
    | error er => rfl
    | ok u => cases u; exact ih _

theorem selected_map_some (es : List Entry) : ∀ (is : List Nat), (∀ i ∈ is, i < es.length) →
    (selected es is).map some = is.map (es[·]?) := by
  intro is
  induction is with
  | nil => intro _; rfl
  | cons i is ih =>
    intro h
    have hi : i < es.length := h i List.mem_cons_self
    have ih' := ih fun j hj => h j (List.mem_cons_of_mem _ hj)
    unfold selected at ih' ⊢
    rw [List.filterMap_cons, List.getElem?_eq_getElem hi]
    simp only [List.map_cons]
    rw [ih', List.getElem?_eq_getElem hi]

theorem in_reply_order (φ : Oracle) (c : ReadCfg) (o : RestoreOpts) (reply : Bytes) (s : RunState) (is : List Nat)
    (hoff : offered s.fs c o ≠ [])
    (hreply : parseIndexes reply (offered s.fs c o).length = .ok is) :
    run φ (runRestore c o (some reply)) s =
      finish (restoreSeq φ c.cwd o.overwrite (selected (offered s.fs c o) is) (afterListing c o s)) := by
  rw [runRestore_run, if_neg hoff]
  simp only [if_neg (reply_ne_nil hreply), hreply]
  rw [restoreMany_eq_seq]
  unfold finish afterListing listed
  cases h : (restoreSeq φ c.cwd o.overwrite (selected (offered s.fs c o) is)
      { s with outs := (listing (offered s.fs c o)).reverse ++ s.outs }).1 with
  | error er => rfl
  | ok u => cases u; rfl

/-- without the hypothesis "something is offered": file system, trace, history, call counter and exit
    status (when nothing is offered the reply denotes no index, and only the message differs) -/
theorem in_reply_order_total (φ : Oracle) (c : ReadCfg) (o : RestoreOpts) (reply : Bytes) (s : RunState) (is : List Nat)
    (hreply : parseIndexes reply (offered s.fs c o).length = .ok is) :
    (run φ (runRestore c o (some reply)) s).2.fs =
      (restoreSeq φ c.cwd o.overwrite (selected (offered s.fs c o) is) (afterListing c o s)).2.fs ∧
    (run φ (runRestore c o (some reply)) s).2.trace =
      (restoreSeq φ c.cwd o.overwrite (selected (offered s.fs c o) is) (afterListing c o s)).2.trace ∧
    (run φ (runRestore c o (some reply)) s).1.exit =
      (finish (restoreSeq φ c.cwd o.overwrite (selected (offered s.fs c o) is) (afterListing c o s))).1.exit := by
  by_cases hoff : offered s.fs c o = []
  · obtain ⟨a1, a2, _, _, a5, _⟩ := nothing_offered φ c o (some reply) s hoff
    rw [a1, a2, a5, hoff, selected_nil]
    exact ⟨rfl, rfl, rfl⟩
  · rw [in_reply_order φ c o reply s is hoff hreply]
    refine ⟨?_, ?_, rfl⟩
    · unfold finish; split <;> rfl
    · unfold finish; split <;> rfl

end TrashVerif.Proofs.C13Order
