/-
  Proofs/C10CmdDirs.lean — the induction over the trash directories of `emptyDirs`
  (`Proofs.C14LoopMulti.real_dirs`) in its GENERAL form: the "no decision crashes" hypothesis is asked
  of the listed names of the visited directories on the initial state only (`real_dirs_local`; the
  existing `real_dirs` asks it of every state and every path), so that it can be used for the
  directories visited BEFORE a DAYS overflow; `emptyDirs` over an appended list; the loop that keeps
  every entry and then crashes.
-/
import TrashVerif.Proofs.C14LoopMulti
namespace TrashVerif.Proofs.C10Cmd
open TrashVerif Prog FS PutCore PutLemmas C09Hist C10Loop C14Loop
open TrashVerif.Proofs.C10Loop
open TrashVerif.Proofs.C14LoopDir TrashVerif.Proofs.C14LoopMulti

theorem real_dirs_local (o : EmptyOpts) (hdry : o.dryRun = false) (cwd : CPath) :
    ∀ (ds : List C14Loop.TDir) (s : RunState), DirsSetting s.fs cwd ds →
      (∀ d ∈ ds, ∀ n ∈ listed s.fs d.I, ∀ c, okToDelete s.fs cwd o (infoStr d.t n) ≠ .crash c) →
      (run noFaults (emptyDirs cwd o (TDir.pairs ds)) s).1 = none ∧
      FrameAll ds s.fs (run noFaults (emptyDirs cwd o (TDir.pairs ds)) s).2.fs ∧
      ∀ d ∈ ds, ∃ (mid : FS) (L1 : List Bytes), Beside d.I d.F s.fs mid ∧ DomWf mid ∧
        L1.Perm (orphanNames s.fs d.I d.F) ∧
        PurgedExactly mid (run noFaults (emptyDirs cwd o (TDir.pairs ds)) s).2.fs d.I d.F
          (emptySelected s.fs cwd o d.t (listed s.fs d.I) ++ L1.map infoNameOf) := by
  intro ds
  induction ds with
  | nil => intro s M _; exact ⟨rfl, ⟨rfl, rfl, M.wf, fun _ _ => rfl⟩, fun _ h => nomatch h⟩
  | cons d rest ih =>
    intro s M hnc
    have hdmem : d ∈ d :: rest := List.mem_cons_self
    have D0 := M.robust d hdmem s.fs (beside_refl _ _ _) M.wf
    obtain ⟨a, L1, hperm, P, _⟩ := real_dir o hdry cwd d.t d.v d.I d.F s D0 (fun n hn c => hnc d hdmem n hn c)
    have hdom1 := dom_emptyDirs noFaults cwd o [(d.t, d.v)] s
    have hw1 := wf_emptyDirs noFaults cwd o [(d.t, d.v)] s M.wf
    show (run noFaults (emptyDirs cwd o ((d.t, d.v) :: TDir.pairs rest)) s).1 = none ∧
      FrameAll (d :: rest) s.fs (run noFaults (emptyDirs cwd o ((d.t, d.v) :: TDir.pairs rest)) s).2.fs ∧
      ∀ d' ∈ d :: rest, ∃ (mid : FS) (L1 : List Bytes), Beside d'.I d'.F s.fs mid ∧ DomWf mid ∧
        L1.Perm (orphanNames s.fs d'.I d'.F) ∧
        PurgedExactly mid (run noFaults (emptyDirs cwd o ((d.t, d.v) :: TDir.pairs rest)) s).2.fs d'.I d'.F
          (emptySelected s.fs cwd o d'.t (listed s.fs d'.I) ++ L1.map infoNameOf)
    rw [emptyDirs_cons, a]
    simp only []
    generalize (run noFaults (emptyDirs cwd o [(d.t, d.v)]) s).2 = s1 at P hdom1 hw1
    have hap := List.pairwise_cons.1 M.apart
    have B1 : ∀ d' ∈ rest, Beside d'.I d'.F s.fs s1.fs := fun d' hd' =>
      ⟨hdom1, P.mounts, fun q hq => frame_of_not_under P (apart_region (apart_symm (hap.1 d' hd')) hq)⟩
    have M1 : DirsSetting s1.fs cwd rest :=
      ⟨hw1, fun d' hd' fs' B' w' => M.robust d' (List.mem_cons_of_mem _ hd') fs' (beside_trans (B1 d' hd') B') w', hap.2⟩
    have hnc1 : ∀ d' ∈ rest, ∀ n ∈ listed s1.fs d'.I, ∀ c, okToDelete s1.fs cwd o (infoStr d'.t n) ≠ .crash c := by
      intro d' hd' n hn c
      have Ds := M.robust d' (List.mem_cons_of_mem _ hd') s.fs (beside_refl _ _ _) M.wf
      have Ds1 := M1.robust d' hd' s1.fs (beside_refl _ _ _) hw1
      rw [listed_beside (B1 d' hd')] at hn
      rw [okToDelete_beside (B1 d' hd') Ds Ds1 o hn]
      exact hnc d' (List.mem_cons_of_mem _ hd') n hn c
    obtain ⟨a', ⟨fd, fm, fw, ff⟩, hall⟩ := ih s1 M1 hnc1
    refine ⟨a', ⟨fd.trans hdom1, fm.trans P.mounts, fw, fun q hq => ?_⟩, fun d' hd' => ?_⟩
    · rw [ff q fun d' hd' => hq d' (List.mem_cons_of_mem _ hd')]
      exact frame_of_not_under P (hq d hdmem)
    · rcases List.mem_cons.1 hd' with rfl | hd'
      · refine ⟨midFS d'.I d'.F s.fs (run noFaults (emptyDirs cwd o (TDir.pairs rest)) s1).2.fs, L1, mid_beside _ _ _ _,
          mid_wf M.wf fw (fd.trans hdom1), hperm, purged_mid P (fun q hq => ?_) fm (fd.trans hdom1)⟩
        exact ff q fun d'' hd'' => apart_region (hap.1 d'' hd'') hq
      · obtain ⟨mid', L1', B', w', perm', P'⟩ := hall d' hd'
        have Ds := M.robust d' (List.mem_cons_of_mem _ hd') s.fs (beside_refl _ _ _) M.wf
        have Ds1 := M1.robust d' hd' s1.fs (beside_refl _ _ _) hw1
        rw [orphanNames_beside (B1 d' hd')] at perm'
        rw [selected_beside (B1 d' hd') Ds Ds1 o] at P'
        exact ⟨mid', L1', beside_trans (B1 d' hd') B', w', perm', P'⟩

/-- `emptyDirs` over an appended list: the first part, then — unless it raised — the second -/
theorem emptyDirs_append (φ : Oracle) (cwd : CPath) (o : EmptyOpts) (l2 : List (Bytes × Bytes)) :
    ∀ (l1 : List (Bytes × Bytes)) (s : RunState),
      run φ (emptyDirs cwd o (l1 ++ l2)) s =
        match (run φ (emptyDirs cwd o l1) s).1 with
        | none => run φ (emptyDirs cwd o l2) (run φ (emptyDirs cwd o l1) s).2
        | some c => (some c, (run φ (emptyDirs cwd o l1) s).2) := by
  intro l1
  induction l1 with
  | nil => intro s; rfl
  | cons tv rest ih =>
    intro s
    obtain ⟨t, v⟩ := tv
    rw [List.cons_append, emptyDirs_cons, emptyDirs_cons φ cwd o t v rest]
    cases h : (run φ (emptyDirs cwd o [(t, v)]) s).1 with
    | some c => rfl
    | none =>
      simp only []
      rw [ih]

/-- the loop over info paths that are all kept and then one whose decision raises: it returns the
    crash and leaves the run state exactly as it was -/
theorem emptyInfos_keep_then_crash (φ : Oracle) (cwd : CPath) (o : EmptyOpts) (i0 : Bytes) (post : List Bytes) (c : Crash) :
    ∀ (pre : List Bytes) (s : RunState), (∀ i ∈ pre, okToDelete s.fs cwd o i = .keep) →
      okToDelete s.fs cwd o i0 = .crash c →
      run φ (emptyInfos cwd o (pre ++ i0 :: post)) s = (some c, s) := by
  intro pre
  induction pre with
  | nil =>
    intro s _ h0
    rw [List.nil_append, emptyInfos, run_read_bind, h0]
    rfl
  | cons i rest ih =>
    intro s hk h0
    rw [List.cons_append, emptyInfos, run_read_bind, hk i List.mem_cons_self]
    exact ih s (fun j hj => hk j (List.mem_cons_of_mem _ hj)) h0

/-- one trash directory whose loop keeps and then crashes: `emptyDirs` returns the crash at once -/
theorem emptyDirs_crash_first (φ : Oracle) (cwd : CPath) (o : EmptyOpts) (t v : Bytes) (rest : List (Bytes × Bytes))
    (s : RunState) (pre post : List Bytes) (i0 : Bytes) (c : Crash)
    (hscan : infosOf s.fs cwd t = .ok (pre ++ i0 :: post))
    (hk : ∀ i ∈ pre, okToDelete s.fs cwd o i = .keep) (h0 : okToDelete s.fs cwd o i0 = .crash c) :
    run φ (emptyDirs cwd o ((t, v) :: rest)) s = (some c, s) := by
  rw [emptyDirs, run_read_bind, hscan]
  simp only []
  rw [run_bind, emptyInfos_keep_then_crash φ cwd o i0 post c pre s hk h0]
  rfl

end TrashVerif.Proofs.C10Cmd
