/-
  Proofs/C17SingleEval.lean — kernel-evaluable twins of `copytree`, `move` and `putCore`
  (continues Proofs/C02CmdEval.lean, Proofs/C10LoopEval.lean): `copytree` and `rmInner` are compiled
  by well-founded recursion and reach `List.mergeSort` through `sortedChildren`, which the kernel
  does not unfold.  The twins are copies of the model's definitions with those names replaced,
  proved EQUAL to them; they are used only to evaluate the put core on a concrete world whose
  entry is a directory (`decide +kernel` after `rw [putCore_eq]`).
-/
import TrashVerif.Model.Put
import TrashVerif.Proofs.C10LoopEval
namespace TrashVerif.Proofs.C17SingleEval
open TrashVerif Prog FS Bytes
open TrashVerif.Proofs.C02CmdEval TrashVerif.Proofs.C10LoopEval

/-- the loop of `copytree` over the entries, the recursive call abstracted -/
def ctGoS (inner : CPath → CPath → Prog Res) (dst : CPath) : List CPath → Bool → Prog Bool
  | [], failed => pure failed
  | c :: cs, failed => do
    let fs' ← read
    let d := dst ++ [c.getLast?.getD []]
    let r ← (match fs'.get c with
      | some (.link t) => sys (.symlink t d)
      | some (.dir ..) => inner c d
      | some (.file ..) => copy2 c d
      | none => pure (.error .ENOENT))
    ctGoS inner dst cs (failed || match r with | .ok () => false | .error _ => true)

def copytreeS : Nat → CPath → CPath → Prog Res
  | 0, _, _ => pure (.error .ELOOP)
  | fuel+1, src, dst => do
    let fs ← read
    let entries := sortedChildrenS fs src
    match ← makedirs dst.length dst 0o777 with
    | .error e => pure (.error e)
    | .ok () =>
      let failed ← ctGoS (copytreeS fuel) dst entries false
      match ← copystat src dst with
      | .error _ => pure (.error .OTHER)
      | .ok () => pure (if failed then .error .OTHER else .ok ())

theorem copytree_eq : ∀ (fuel : Nat) (src dst : CPath), copytree fuel src dst = copytreeS fuel src dst := by
  intro fuel
  induction fuel with
  | zero => intro src dst; unfold copytree copytreeS; rfl
  | succ fuel ih =>
    intro src dst
    have hgo : ∀ (cs : List CPath) (failed : Bool),
        copytree.go fuel dst cs failed = ctGoS (copytreeS fuel) dst cs failed := by
      intro cs
      induction cs with
      | nil => intro failed; unfold copytree.go ctGoS; rfl
      | cons c cs ihc =>
        intro failed
        unfold copytree.go ctGoS
        simp only [ih, ihc] <;> rfl
    unfold copytree copytreeS
    simp only [hgo, sortedChildren_eq] <;> rfl

def moveS (src dst : CPath) : Prog Res := do
  let fs ← read
  let intoDir := isdirC fs dst
  let sameFile := intoDir ∧ followC fs src = followC fs dst ∧ (followC fs src).isSome
  if sameFile then sys (.rename src dst)
  else
    let realDst := if intoDir then (followC fs dst).getD dst ++ [src.getLast?.getD []] else dst
    if intoDir ∧ existsC fs realDst then pure (.error .OTHER)
    else
      match ← sys (.rename src realDst) with
      | .ok () => pure (.ok ())
      | .error _ =>
        let fs' ← read
        match fs'.get src with
        | some (.link t) =>
          match ← sys (.symlink t realDst) with
          | .error e => pure (.error e)
          | .ok () => sys (.unlink src)
        | some (.dir ..) =>
          if destInSrc src dst then pure (.error .OTHER)
          else
            let depth := (fs'.dom.map List.length).foldl max 0
            match ← copytreeS (depth + 1) src realDst with
            | .error e => pure (.error e)
            | .ok () => rmtreeS src
        | some (.file ..) =>
          match ← copy2 src realDst with
          | .error e => pure (.error e)
          | .ok () => sys (.unlink src)
        | none => pure (.error .ENOENT)

theorem move_eq (src dst : CPath) : move src dst = moveS src dst := by
  unfold move moveS; simp only [copytree_eq, rmtree_eq] <;> rfl

def putCoreS (infoC filesC : CPath) (base content : Bytes) (srcOf : FS → Except Errno CPath) (st : PutSt) :
    Prog (Except Reason Bytes × PutSt) := do
  let (pr, st) ← persistLoop infoC filesC base content persistFuel 0 false st
  match pr with
  | .outOfFuel => pure (.error (.persistError .ELOOP), st)
  | .failed e => pure (.error (.persistError e), st)
  | .created name =>
    let fs ← read
    let r ← (match srcOf fs with
             | .error e => pure (.error e)
             | .ok src => moveS src (filesC ++ [stemOf name]))
    match r with
    | .ok () => pure (.ok name, st)
    | .error e =>
      match ← removeFile (infoC ++ [name]) with
      | .ok () => pure (.error (.moveError e), st)
      | .error e2 => pure (.error (.cleanupCrash e2), st)

theorem putCore_eq (infoC filesC : CPath) (base content : Bytes) (srcOf : FS → Except Errno CPath) (st : PutSt) :
    putCore infoC filesC base content srcOf st = putCoreS infoC filesC base content srcOf st := by
  unfold putCore putCoreS; simp only [move_eq] <;> rfl

end TrashVerif.Proofs.C17SingleEval
