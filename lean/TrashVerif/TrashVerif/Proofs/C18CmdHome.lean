/-
  Proofs/C18CmdHome.lean — proofs of the statements of Props/C18Cmd.lean about a symbolic link that
  goes to an EXISTING home trash (the world of C16Indep `HomeWorld`), and the put-restore half.
-/
import TrashVerif.Proofs.C18Cmd
import TrashVerif.Proofs.C02Cmd
namespace TrashVerif.Proofs.C18CmdHome
open TrashVerif Prog FS PutCore PutLemmas C18Cmd C16Indep
open TrashVerif.Proofs.C07 (Plain GoodNames dev_snoc dev_self isMount_iff)
open TrashVerif.Proofs.C16IndepHome (W_setting W_goodF W_goodI basename_locOf locOf_eq alone_home)
open TrashVerif.Proofs.C07CmdCore (putCore_fresh trashed_of_fsC stem_base)
open TrashVerif.Proofs.C18Cmd

/-! ### what `Trashed` says when the entry is a link -/

theorem link_trashed {fs fs' : FS} {I F S : CPath} {name content t : Bytes}
    (T : Trashed fs fs' I F S name content) (L : IsLink fs S t)
    (hfree : ∀ rel, fs.get (F ++ [stemOf name] ++ rel) = none) :
    fs'.get (F ++ [stemOf name]) = some (.link t) ∧ fs'.get S = none ∧
    (∀ z rel, fs'.get (F ++ [stemOf name] ++ z :: rel) = none) ∧
    ∀ q, q ≠ S → q ≠ F ++ [stemOf name] → q ≠ I ++ [name] → q ≠ FS.parent S → q ≠ F → q ≠ I →
      fs'.get q = fs.get q := by
  refine ⟨?_, ?_, ?_, ?_⟩
  · have := T.whole []
    simpa [L.node] using this
  · simpa using T.gone []
  · intro z rel
    rw [T.whole (z :: rel)]; exact L.leaf z rel
  · intro q h1 h2 h3 h4 h5 h6
    by_cases hS : S <+: q
    · obtain ⟨r, rfl⟩ := hS
      cases r with
      | nil => exact absurd (by simp) h1
      | cons z rel => rw [T.gone, L.leaf]
    · by_cases hF : F ++ [stemOf name] <+: q
      · obtain ⟨r, rfl⟩ := hF
        cases r with
        | nil => exact absurd (by simp) h2
        | cons z rel => rw [T.whole (z :: rel), L.leaf, hfree]
      · exact T.frame q (by rw [under_iff]; exact hS) (by rw [under_iff]; exact hF) h3 h4 h5 h6

/-- a path at or below `D` is none of the six paths a put changes when `D` is `Aside` -/
theorem aside_ne {D S F I : CPath} {stem name : Bytes} (a : Aside D S (F ++ [stem]) (I ++ [name])) (rel : CPath) :
    D ++ rel ≠ S ∧ D ++ rel ≠ F ++ [stem] ∧ D ++ rel ≠ I ++ [name] ∧ D ++ rel ≠ FS.parent S ∧ D ++ rel ≠ F ∧ D ++ rel ≠ I := by
  have pre : D <+: D ++ rel := List.prefix_append _ _
  refine ⟨fun e => a.notLink (e ▸ pre), fun e => a.notPayload (e ▸ pre), fun e => a.notInfo (e ▸ pre), ?_, ?_, ?_⟩
  · intro e; exact a.notLink ((e ▸ pre).trans (dropLast_pfx S))
  · intro e; exact a.notPayload ((e ▸ pre).trans (List.prefix_append _ _))
  · intro e; exact a.notInfo ((e ▸ pre).trans (List.prefix_append _ _))

/-! ### 1. a link of the home trash's volume, existing home trash, free name -/

section home
variable {c : PutCfg} {fs : FS} {H P : CPath} {n : Name} {t : Bytes}
  (W : HomeWorld c fs H) (A : GoodArg fs H P n) (L : IsLink fs (P ++ [n]) t)
  (hlen : n.length + 10 ≤ 255) (hfree : ∀ rel, fs.get (filesC H ++ [n] ++ rel) = none)
  (hfreeI : fs.get (infoC H ++ [n ++ trashinfoExt]) = none)

include W A hlen hfree hfreeI in
/-- the core run for `P/n` answers `n.trashinfo` and leaves a `Trashed` state -/
theorem core_ok (st : PutSt) :
    (run noFaults (homeCore c H P n st) { fs := fs }).1.1 = .ok (n ++ trashinfoExt) ∧
    Trashed fs (run noFaults (homeCore c H P n st) { fs := fs }).2.fs (infoC H) (filesC H) (P ++ [n])
      (n ++ trashinfoExt) (formatTrashinfoWith (toStr (P ++ [n])) c.dateStr) := by
  have hset := W_setting W A
  have hF : fs.get (filesC H ++ [n]) = none := by simpa using hfree []
  have hl : (n ++ trashinfoExt).length ≤ 255 := by rw [List.length_append, ext_len]; exact hlen
  obtain ⟨s', hrun, hfs, _, _⟩ := putCore_fresh (I := infoC H) (F := filesC H) (S := P ++ [n]) n
    (formatTrashinfoWith (locOf P n) c.dateStr) (fun _ => .ok (P ++ [n])) st { fs := fs } hset hF hfreeI hl rfl
  unfold homeCore
  rw [basename_locOf P n A.names, hrun]
  refine ⟨rfl, ?_⟩
  show Trashed fs s'.fs _ _ _ _ _
  rw [hfs, ← locOf_eq P n A.names]
  exact trashed_of_fsC hset n _ hF hfreeI

include W A L hlen hfree hfreeI in
theorem put_link_home (k : Nat) (hk : SlashOk fs c.cwd P n k) (st : PutSt) :
    let r := run noFaults (runPut c [spelled P n k] st) { fs := fs }
    let fs' := r.2.fs
    r.1.outcomes = [(spelled P n k, .trashed (homeStr H) (n ++ trashinfoExt))] ∧ r.1.crash = none ∧ r.1.exit = 0 ∧
    fs'.get (filesC H ++ [n]) = some (.link t) ∧
    fs'.get (P ++ [n]) = none ∧
    fs'.get (infoC H ++ [n ++ trashinfoExt]) =
      some (.file (formatTrashinfoWith (toStr (P ++ [n])) c.dateStr) 0o600 0) ∧
    (∀ q, q ≠ P ++ [n] → q ≠ filesC H ++ [n] → q ≠ infoC H ++ [n ++ trashinfoExt] → q ≠ P → q ≠ filesC H → q ≠ infoC H →
      fs'.get q = fs.get q) ∧
    (∀ z rel, fs'.get (filesC H ++ [n] ++ z :: rel) = none) ∧
    keptDir fs fs' P ∧ keptDir fs fs' (filesC H) ∧ keptDir fs fs' (infoC H) := by
  intro r fs'
  obtain ⟨hok, T⟩ := core_ok W A hlen hfree hfreeI st
  obtain ⟨o1, _, _, o4⟩ := alone_home W A st _ hok
  have hr : r = _ := runPut_spelled A.names W.noPrompt k hk st _ _ o1
  have hfs' : fs' = (run noFaults (homeCore c H P n st) { fs := fs }).2.fs := by
    show r.2.fs = _
    rw [hr]; exact o4
  rw [← hfs'] at T
  have hst : stemOf (n ++ trashinfoExt) = n := stem_base n
  obtain ⟨l1, l2, l3, l4⟩ := link_trashed T L (by rw [hst]; exact hfree)
  rw [hst] at l1 l3 l4
  have hpar : FS.parent (P ++ [n]) = P := by simp [FS.parent]
  rw [hpar] at l4
  have hd := T.dirs
  rw [hpar] at hd
  refine ⟨by rw [hr], by rw [hr], by rw [hr], l1, l2, T.info, l4, l3, hd⟩

theorem not_mount_of_absent {fs : FS} (hm : C07Cmd.MountsOk fs) {p : CPath} (h : fs.get p = none) : fs.isMount p = false := by
  cases hmm : fs.isMount p with
  | false => rfl
  | true =>
    have := hm.mountsExist p (isMount_iff.1 hmm)
    rw [h] at this; cases this

include W A L hlen hfree hfreeI in
/-- 2. every path the put changes lies on the device of the link's parent -/
theorem put_link_home_devices' (hFm : fs.isMount (filesC H ++ [n]) = false)
    (hIm : fs.isMount (infoC H ++ [n ++ trashinfoExt]) = false) (hinm : fs.isMount (infoC H) = false) (k : Nat)
    (hk : SlashOk fs c.cwd P n k) (st : PutSt) :
    dev fs (trashC H) = dev fs P ∧
    ∀ q, dev fs q ≠ dev fs P → (run noFaults (runPut c [spelled P n k] st) { fs := fs }).2.fs.get q = fs.get q := by
  obtain ⟨_, _, _, _, _, _, fr, _⟩ := put_link_home W A L hlen hfree hfreeI k hk st
  have dT : dev fs (trashC H) = dev fs P := A.sameVolume.symm
  have dF : dev fs (filesC H) = dev fs P := W.filesSameVolume.trans dT
  have dI : dev fs (infoC H) = dev fs P := by
    unfold infoC at hinm ⊢
    rw [dev_snoc fs _ _ hinm]; exact dT
  refine ⟨dT, fun q hq => fr q ?_ ?_ ?_ ?_ ?_ ?_⟩
  · rintro rfl; exact hq (dev_snoc fs P n A.notMount)
  · rintro rfl; exact hq ((dev_snoc fs _ _ hFm).trans dF)
  · rintro rfl; exact hq ((dev_snoc fs _ _ hIm).trans dI)
  · rintro rfl; exact hq rfl
  · rintro rfl; exact hq dF
  · rintro rfl; exact hq dI

include W A L hlen hfree hfreeI in
theorem put_link_home_devices (hm : C07Cmd.MountsOk fs) (hinm : fs.isMount (infoC H) = false) (k : Nat)
    (hk : SlashOk fs c.cwd P n k) (st : PutSt) :
    dev fs (trashC H) = dev fs P ∧
    ∀ q, dev fs q ≠ dev fs P → (run noFaults (runPut c [spelled P n k] st) { fs := fs }).2.fs.get q = fs.get q :=
  put_link_home_devices' W A L hlen hfree hfreeI (not_mount_of_absent hm (by simpa using hfree []))
    (not_mount_of_absent hm hfreeI) hinm k hk st

omit W A L hlen hfree hfreeI in
theorem slashOk_of_dir {D : CPath} {m tt : Nat} (hlead : LeadsTo fs c.cwd P n D) (hD : fs.get D = some (.dir m tt)) (k : Nat) :
    SlashOk fs c.cwd P n k := by
  right
  unfold LeadsTo at hlead
  unfold pIsdir stat
  rw [hlead]
  simp only [hD]
  rfl

include W A L hlen hfree hfreeI in
/-- 3. `link/` where the link leads to the directory `D` -/
theorem put_link_slash_dir {D : CPath} {m tt : Nat} (hlead : LeadsTo fs c.cwd P n D) (hD : fs.get D = some (.dir m tt))
    (ha : Aside D (P ++ [n]) (filesC H ++ [n]) (infoC H ++ [n ++ trashinfoExt])) (k : Nat) (st : PutSt) :
    let r := run noFaults (runPut c [spelled P n k] st) { fs := fs }
    let fs' := r.2.fs
    r.1.outcomes = [(spelled P n k, .trashed (homeStr H) (n ++ trashinfoExt))] ∧ r.1.crash = none ∧ r.1.exit = 0 ∧
    fs'.get (filesC H ++ [n]) = some (.link t) ∧ (∀ z rel, fs'.get (filesC H ++ [n] ++ z :: rel) = none) ∧
    fs'.get (P ++ [n]) = none ∧
    (∀ rel, fs'.get (D ++ rel) = fs.get (D ++ rel)) := by
  intro r fs'
  obtain ⟨o1, o2, o3, l1, l2, _, fr, l3, _⟩ := put_link_home W A L hlen hfree hfreeI k (slashOk_of_dir hlead hD k) st
  refine ⟨o1, o2, o3, l1, l3, l2, fun rel => ?_⟩
  obtain ⟨a1, a2, a3, a4, a5, a6⟩ := aside_ne ha rel
  have hpar : FS.parent (P ++ [n]) = P := by simp [FS.parent]
  rw [hpar] at a4
  exact fr _ a1 a2 a3 a4 a5 a6

include W A L hlen hfree in
/-- 5. put, then restore answered "0" -/
theorem put_link_restore (k : Nat) (hk : SlashOk fs c.cwd P n k) (st : PutSt) (rc : ReadCfg) (o : RestoreOpts)
    (hinfoEmpty : ∀ x, fs.get (infoC H ++ [x]) = none)
    (hnotMount : fs.isMount (filesC H ++ [n]) = false)
    (henv : rc.env = c.env) (hmp : rc.mountPoints = []) (hd : o.trashDir = none ∨ o.trashDir = some [])
    (hpath : o.path = b "/" ∨ o.path = toStr P ∨ (o.path = [] ∧ GoodNames rc.cwd ∧ rc.cwd <+: P)) :
    let p := run noFaults (runPut c [spelled P n k] st) { fs := fs }
    let r := run noFaults (runRestore rc o (some (b "0"))) { fs := p.2.fs }
    p.1.outcomes = [(spelled P n k, .trashed (homeStr H) (n ++ trashinfoExt))] ∧ p.1.crash = none ∧ p.1.exit = 0 ∧
    p.2.fs.get (filesC H ++ [n]) = some (.link t) ∧ p.2.fs.get (P ++ [n]) = none ∧
    r.1.exit = 0 ∧ r.1.crash = none ∧
    r.2.fs.get (P ++ [n]) = some (.link t) ∧
    r.2.fs.get (filesC H ++ [n]) = none ∧ r.2.fs.get (infoC H ++ [n ++ trashinfoExt]) = none ∧
    (∀ q, q ≠ P → q ≠ filesC H → q ≠ infoC H → r.2.fs.get q = fs.get q) ∧
    (∀ q, q = P ∨ q = filesC H ∨ q = infoC H → ∃ m t, fs.get q = some (.dir m t) ∧ r.2.fs.get q = some (.dir m 0)) := by
  intro p r
  obtain ⟨o1, o2, o3, l1, l2, _⟩ := put_link_home W A L hlen hfree (hinfoEmpty _) k hk st
  obtain ⟨e1, _, _, e4, e5, e6, e7, e8, e9, e10⟩ :=
    Proofs.C02Cmd.put_restore_everyday W A st rc o hlen hinfoEmpty hfree hnotMount henv hmp hd hpath
  have hp : p = _ := runPut_spelled A.names W.noPrompt k hk st _ _ e1
  have hpfs : p.2.fs = (run noFaults (runPut c [toStr (P ++ [n])] st) { fs := fs }).2.fs := by rw [hp]
  have hr : r = run noFaults (runRestore rc o (some (b "0")))
      { fs := (run noFaults (runPut c [toStr (P ++ [n])] st) { fs := fs }).2.fs } := by
    show run noFaults _ { fs := p.2.fs } = _
    rw [hpfs]
  refine ⟨o1, o2, o3, l1, l2, ?_, ?_, ?_, ?_, ?_, ?_, ?_⟩
  · rw [hr]; exact e4
  · rw [hr]; exact e5
  · rw [hr]
    have := e6 []
    simpa [L.node] using this
  · rw [hr]; exact e7
  · rw [hr]; exact e8
  · rw [hr]; exact e9
  · rw [hr]; exact e10

end home

end TrashVerif.Proofs.C18CmdHome
