/-
  Proofs/C07.lean — proofs of the statements of Props/C07.lean
  (the prescribed trash dir, on the file's own volume).
-/
import TrashVerif.Model.Put
import TrashVerif.Proofs.C17Lemmas
import TrashVerif.Proofs.C01
import TrashVerif.Proofs.C16Eval
namespace TrashVerif.Proofs.C07
open TrashVerif Prog FS Bytes
open TrashVerif.Proofs.C17 (run_bind run_read_bind run_pure sys_cases after)
open TrashVerif.Proofs.C01 (splitOn_free splitOn_append_sep basename_after rstrip_gen normComps_cons)

/-! ### decision logic -/

theorem home_path_spec (e : Env) :
    homeTrashPaths e =
      match e.xdg, e.home with
      | some x, h => if x ≠ [] then [x ++ b "/Trash"] else (match h with | some h => [h ++ b "/.local/share/Trash"] | none => [])
      | none, some h => [h ++ b "/.local/share/Trash"]
      | none, none => [] := by
  unfold homeTrashPaths
  cases e.xdg <;> cases e.home <;> rfl

theorem candidates_custom (fs : FS) (c : PutCfg) (volume d : Bytes) (h : c.trashDir = some d) (hd : d ≠ []) :
    candidatesFor fs c volume =
      [{ path := d, volume := volumeOf fs c.cwd d, relative := true, topCheck := false, gate := .sameVolume }] := by
  unfold candidatesFor
  simp only [h]
  rw [if_pos hd]

theorem candidates_order (fs : FS) (c : PutCfg) (volume : Bytes) (h : c.trashDir = none ∨ c.trashDir = some []) :
    ∃ homes : List Candidate,
      homes.map (·.path) = homeTrashPaths c.env ∧ (∀ x ∈ homes, x.gate = .sameVolume ∧ x.topCheck = false ∧ x.relative = false) ∧
      candidatesFor fs c volume =
        homes ++
        [{ path := pjoin volume (b ".Trash/" ++ Bytes.ofNat c.uid), volume := volume, relative := true, topCheck := true, gate := .sameVolume },
         { path := pjoin volume (b ".Trash-" ++ Bytes.ofNat c.uid), volume := volume, relative := true, topCheck := false, gate := .sameVolume }] ++
        (if c.homeFallback then homes.map fun x => { x with gate := .homeFallback } else []) := by
  refine ⟨(homeTrashPaths c.env).map fun p =>
      ({ path := p, volume := volumeOf fs c.cwd p, relative := false, topCheck := false, gate := .sameVolume } : Candidate),
    ?_, ?_, ?_⟩
  · rw [List.map_map]
    exact List.map_id _
  · intro x hx
    obtain ⟨p, _, rfl⟩ := List.mem_map.1 hx
    exact ⟨rfl, rfl, rfl⟩
  · unfold candidatesFor
    rcases h with h | h <;> rw [h] <;> simp only [ne_eq, not_true_eq_false, if_false]

theorem gate_same_volume (fs : FS) (c : PutCfg) (volume : Bytes) (cand : Candidate) (hg : cand.gate = .sameVolume) :
    gateCheck fs c volume cand = none ↔ volumeOf fs c.cwd (realpathStr fs c.cwd cand.path) = volume := by
  unfold gateCheck
  rw [hg]
  simp only
  split <;> simp [*]

/-- the gate looks at the volume of the trash directory the kernel reaches from the path AS SPELLED
    (`TrashDirVolumeReader.volume_of_trash_dir`: `realpath(path)`, no `os.path.normpath` first) -/
theorem gate_reads_named_trash_dir (fs : FS) (c : PutCfg) (volume : Bytes) (cand : Candidate) (hg : cand.gate = .sameVolume) :
    gateCheck fs c volume cand = none ↔ volumeOf fs c.cwd (realpathStr fs c.cwd cand.path) = volume :=
  gate_same_volume fs c volume cand hg

theorem fallback_gate_iff (fs : FS) (c : PutCfg) (volume : Bytes) (cand : Candidate) (hg : cand.gate = .homeFallback) :
    gateCheck fs c volume cand = none ↔ c.env.fallbackEnv = some (b "1") := by
  unfold gateCheck
  rw [hg]
  simp only
  split <;> simp [*]

theorem rejected_candidate_untouched (φ : Oracle) (c : PutCfg) (path volume : Bytes) (cand : Candidate) (st : PutSt) (s : RunState)
    (h : securityCheck s.fs c.cwd cand ≠ none ∨ gateCheck s.fs c volume cand ≠ none) :
    let r := run φ (trashFileIn c path volume cand st) s
    (∃ reason, r.1.1 = .error reason) ∧ r.2.trace = s.trace ∧ r.2.fs = s.fs := by
  intro r
  have hr : r = run φ (trashFileIn c path volume cand st) s := rfl
  rw [trashFileIn, run_read_bind] at hr
  cases hsec : securityCheck s.fs c.cwd cand with
  | some reason =>
    rw [hsec] at hr
    rw [hr]
    exact ⟨⟨reason, rfl⟩, rfl, rfl⟩
  | none =>
    rw [hsec] at hr
    cases hgate : gateCheck s.fs c volume cand with
    | some reason =>
      rw [hgate] at hr
      rw [hr]
      exact ⟨⟨reason, rfl⟩, rfl, rfl⟩
    | none =>
      rcases h with h | h
      · exact absurd hsec h
      · exact absurd hgate h

/-! ### modes of created directories -/

/-- every entry of `new` is an entry of `old` or a mkdir of `p` with `mode` / of a proper ancestor with 0o777 -/
def OnlyMk (p : CPath) (mode : Nat) (old new : List (Call × Res)) : Prop :=
  ∀ c r, (c, r) ∈ new → (c, r) ∈ old ∨
    (∃ q m, c = .mkdir q m ∧ ((q = p ∧ m = mode) ∨ (q <+: p ∧ q ≠ p ∧ m = 0o777)))

theorem OnlyMk.refl (p : CPath) (mode : Nat) (t : List (Call × Res)) : OnlyMk p mode t t :=
  fun _ _ h => .inl h

theorem run_sys_trace (φ : Oracle) (c : Call) (s : RunState) :
    ∃ r, (run φ (sys c) s).2.trace = (c, r) :: s.trace := by
  rcases sys_cases φ c s with ⟨e, h⟩ | ⟨fs', _, _, h⟩ <;> rw [h] <;> exact ⟨_, rfl⟩

theorem OnlyMk.mkdir (φ : Oracle) (p : CPath) (mode : Nat) (old : List (Call × Res)) (s : RunState)
    (h : OnlyMk p mode old s.trace) : OnlyMk p mode old (run φ (sys (.mkdir p mode)) s).2.trace := by
  obtain ⟨r, hr⟩ := run_sys_trace φ (.mkdir p mode) s
  rw [hr]
  intro c r' hm
  rcases List.mem_cons.1 hm with hm | hm
  · cases hm
    exact .inr ⟨p, mode, rfl, .inl ⟨rfl, rfl⟩⟩
  · exact h c r' hm

theorem OnlyMk.parent {p : CPath} {mode : Nat} {old new : List (Call × Res)} (hp : p ≠ [])
    (h : OnlyMk p.dropLast 0o777 old new) : OnlyMk p mode old new := by
  have hpre : p.dropLast <+: p := List.dropLast_prefix p
  have hlen : p.dropLast.length < p.length := by
    rw [List.length_dropLast]
    have := List.length_pos_iff.2 hp
    omega
  intro c r hm
  rcases h c r hm with h | ⟨q, m, rfl, ⟨rfl, rfl⟩ | ⟨h1, _, rfl⟩⟩
  · exact .inl h
  · exact .inr ⟨_, _, rfl, .inr ⟨hpre, fun e => by rw [e] at hlen; omega, rfl⟩⟩
  · refine .inr ⟨_, _, rfl, .inr ⟨h1.trans hpre, fun e => ?_, rfl⟩⟩
    have := h1.length_le
    rw [e] at this
    omega

theorem makedirs_trace (φ : Oracle) (fuel : Nat) : ∀ (p : CPath) (mode : Nat) (s : RunState),
    OnlyMk p mode s.trace (run φ (makedirs fuel p mode) s).2.trace := by
  induction fuel with
  | zero =>
    intro p mode s
    rw [makedirs]
    exact OnlyMk.mkdir φ p mode _ s (OnlyMk.refl _ _ _)
  | succ fuel ih =>
    intro p mode s
    rw [makedirs, run_read_bind]
    split
    · next hc =>
      rw [run_bind]
      have h1 : OnlyMk p mode s.trace (run φ (makedirs fuel p.dropLast 0o777) s).2.trace :=
        OnlyMk.parent hc.1 (ih p.dropLast 0o777 s)
      generalize run φ (makedirs fuel p.dropLast 0o777) s = r1 at h1
      obtain ⟨res, s1⟩ := r1
      cases res with
      | ok u => exact OnlyMk.mkdir φ p mode _ s1 h1
      | error e =>
        cases e <;> first | exact h1 | exact OnlyMk.mkdir φ p mode _ s1 h1
    · exact OnlyMk.mkdir φ p mode _ s (OnlyMk.refl _ _ _)

theorem mkdirP_trace (φ : Oracle) (p : CPath) (mode : Nat) (s : RunState) :
    OnlyMk p mode s.trace (run φ (mkdirP p mode) s).2.trace := by
  rw [mkdirP, run_bind]
  have h1 := makedirs_trace φ p.length p mode s
  generalize run φ (makedirs p.length p mode) s = r1 at h1
  obtain ⟨res, s1⟩ := r1
  cases res with
  | ok u => exact h1
  | error e =>
    simp only [run_read_bind]
    split <;> exact h1

theorem created_private (φ : Oracle) (p : CPath) (s : RunState) :
    ∀ c r, (c, r) ∈ (run φ (mkdirP p 0o700) s).2.trace → (c, r) ∈ s.trace ∨
      (∃ q m, c = .mkdir q m ∧ ((q = p ∧ m = 0o700) ∨ (q <+: p ∧ q ≠ p ∧ m = 0o777))) :=
  mkdirP_trace φ p 0o700 s

/-! ### the lexical volume ascent ends at the device root -/

/-- a canonical path none of whose ancestors-or-self is a symlink or missing: all are directories
    (same as `Plain` of Props/C07.lean) -/
def Plain (fs : FS) (p : CPath) : Prop := ∀ q, q <+: p → fs.isDirAt q = true
/-- canonical names (same as `GoodNames` of Props/C07.lean) -/
def GoodNames (p : CPath) : Prop := ∀ n ∈ p, n ≠ [] ∧ slash ∉ n ∧ n ≠ [dot] ∧ n ≠ dotdot ∧ n.length ≤ 255

theorem GoodNames.tail {n : Name} {p : CPath} (h : GoodNames (n :: p)) : GoodNames p :=
  fun m hm => h m (List.mem_cons_of_mem _ hm)
theorem GoodNames.left {p q : CPath} (h : GoodNames (p ++ q)) : GoodNames p :=
  fun m hm => h m (List.mem_append_left _ hm)
theorem GoodNames.right {p q : CPath} (h : GoodNames (p ++ q)) : GoodNames q :=
  fun m hm => h m (List.mem_append_right _ hm)

/-- the string of a non-root canonical path -/
def body (p : CPath) : Bytes := p.flatMap fun n => slash :: n

theorem toStr_nil : toStr [] = [slash] := rfl
theorem toStr_ne {p : CPath} (h : p ≠ []) : toStr p = body p := by
  unfold toStr body; rw [if_neg h]
theorem body_nil : body [] = [] := rfl
theorem body_cons (n : Name) (p : CPath) : body (n :: p) = slash :: (n ++ body p) := by
  simp [body]
theorem body_append (p q : CPath) : body (p ++ q) = body p ++ body q := by
  simp [body]
theorem body_single (n : Name) : body [n] = slash :: n := by simp [body]

theorem splitOn_name_body (rest : CPath) : ∀ (n : Name), slash ∉ n → (∀ m ∈ rest, slash ∉ m) →
    splitOn slash (n ++ body rest) = n :: rest := by
  induction rest with
  | nil => intro n hn _; simp [body, splitOn_free hn]
  | cons m rest ih =>
    intro n hn hr
    rw [body_cons, splitOn_append_sep, splitOn_free hn,
      ih m (hr m List.mem_cons_self) (fun k hk => hr k (List.mem_cons_of_mem _ hk))]
    rfl

theorem comps_toStr_cons (n : Name) (rest : CPath) (h : GoodNames (n :: rest)) :
    comps (toStr (n :: rest)) = [] :: n :: rest := by
  rw [toStr_ne (by simp), body_cons, comps, splitOn, if_pos rfl,
    splitOn_name_body rest n (h n List.mem_cons_self).2.1 (fun m hm => (h.tail m hm).2.1)]

theorem normComps_good (p : List Bytes) : ∀ acc, GoodNames p → normComps true acc p = acc.reverse ++ p := by
  induction p with
  | nil => intro acc _; simp [normComps]
  | cons c cs ih =>
    intro acc h
    obtain ⟨h1, _, h3, h4, _⟩ := h c List.mem_cons_self
    rw [normComps_cons, if_neg (by simp [h1, h3]), if_pos h4, ih _ h.tail]
    simp

theorem joinWith_body (rest : CPath) : ∀ n : Name, joinWith [slash] (n :: rest) = n ++ body rest := by
  induction rest with
  | nil => intro n; simp [joinWith, body]
  | cons m rest ih =>
    intro n
    show n ++ [slash] ++ joinWith [slash] (m :: rest) = _
    rw [ih m, body_cons]
    simp

theorem normpath_toStr (p : CPath) (hn : GoodNames p) : normpath (toStr p) = toStr p := by
  cases p with
  | nil => decide
  | cons n rest =>
    obtain ⟨h1, h2, _⟩ := hn n List.mem_cons_self
    obtain ⟨a, n', rfl⟩ := List.exists_cons_of_ne_nil h1
    have ha : a ≠ slash := fun e => h2 (e ▸ List.mem_cons_self)
    have hsp := comps_toStr_cons _ _ hn
    rw [toStr_ne (by simp), body_cons] at hsp ⊢
    unfold comps at hsp
    unfold normpath
    rw [if_neg (by simp)]
    have s1 : startsWith (slash :: (a :: n' ++ body rest)) [slash] = true := by simp [startsWith]
    have s2 : startsWith (slash :: (a :: n' ++ body rest)) [slash, slash] = false := by
      simp [startsWith, List.isPrefixOf, Ne.symm ha]
    simp only [s1, s2, hsp, if_true, Bool.false_eq_true, false_and, if_false]
    have hd : decide ((1 : Nat) ≠ 0) = true := by decide
    rw [hd, normComps_cons, if_pos (Or.inl rfl), normComps_good _ [] hn, List.reverse_nil, List.nil_append, joinWith_body]
    simp

theorem exists_snoc {α} {l : List α} (h : l ≠ []) : ∃ l' x, l = l' ++ [x] := by
  rcases List.eq_nil_or_concat l with e | ⟨l', x, e⟩
  · exact absurd e h
  · exact ⟨l', x, by rw [e, List.concat_eq_append]⟩

theorem body_last {q : CPath} (hq : q ≠ []) (hn : GoodNames q) : ∃ w x, body q = w ++ [x] ∧ x ≠ slash := by
  obtain ⟨q', m, rfl⟩ := exists_snoc hq
  obtain ⟨h1, h2, _⟩ := hn m (by simp)
  obtain ⟨m', x, rfl⟩ := exists_snoc h1
  refine ⟨body q' ++ slash :: m', x, ?_, fun e => h2 (by simp [e])⟩
  rw [body_append, body_single]; simp

theorem toStr_snoc (q : CPath) (n : Name) : toStr (q ++ [n]) = (body q ++ [slash]) ++ n := by
  rw [toStr_ne (by simp), body_append, body_single]; simp

theorem dirname_toStr (q : CPath) (n : Name) (hn : GoodNames (q ++ [n])) :
    dirname (toStr (q ++ [n])) = toStr q := by
  have hq := hn.left
  obtain ⟨_, hns, _⟩ := hn n (by simp)
  have e := toStr_snoc q n
  have hb : basename (toStr (q ++ [n])) = n := by
    rw [e]; exact basename_after (Or.inr ⟨_, rfl⟩) hns
  have ht : (toStr (q ++ [n])).take ((toStr (q ++ [n])).length - n.length) = body q ++ [slash] := by
    rw [e]
    have hl : (body q ++ [slash] ++ n).length - n.length = (body q ++ [slash]).length := by simp; omega
    rw [hl, List.take_left]
  unfold dirname
  simp only [hb, ht]
  by_cases hq0 : q = []
  · subst hq0; simp [body, toStr]
  · obtain ⟨w, x, hw, hx⟩ := body_last hq0 hq
    rw [toStr_ne hq0, hw]
    have h2 : ¬ ((w ++ [x] ++ [slash]).all (· = slash)) = true := by simp [hx]
    rw [if_pos ⟨by simp, h2⟩]
    exact rstrip_gen w x 1 hx

open TrashVerif.Proofs.C17 (isDirAt_iff)

theorem walk_plain (fs : FS) (fl : Bool) (fuel : Nat) (rest : CPath) :
    ∀ cur, Plain fs (cur ++ rest) → GoodNames rest → walk fs fl fuel cur rest = .ok (cur ++ rest) := by
  induction rest with
  | nil => intro cur _ _; rw [walk]; simp
  | cons c rest ih =>
    intro cur hp hn
    obtain ⟨h1, _, h3, h4, h5⟩ := hn c List.mem_cons_self
    obtain ⟨m, t, hcur⟩ := isDirAt_iff.1 (hp cur (List.prefix_append _ _))
    have e : cur ++ c :: rest = (cur ++ [c]) ++ rest := by simp
    obtain ⟨m', t', hc⟩ := isDirAt_iff.1 (hp (cur ++ [c]) (by rw [e]; exact List.prefix_append _ _))
    rw [walk, hcur]
    simp only
    rw [if_neg (by simp [h1, h3]), if_neg h4, if_neg (by unfold nameMax; omega)]
    simp only [hc]
    rw [ih (cur ++ [c]) (by rw [← e]; exact hp) hn.tail, e]

theorem walk_skip (fs : FS) (fl : Bool) (fuel : Nat) (cur : CPath) (rest : List Bytes) {m t : Nat}
    (h : fs.get cur = some (.dir m t)) : walk fs fl fuel cur ([] :: rest) = walk fs fl fuel cur rest := by
  rw [walk, h]; simp

theorem isAbs_toStr (q : CPath) : isAbs (toStr q) = true := by
  cases q with
  | nil => rfl
  | cons n rest => rw [toStr_ne (by simp), body_cons]; simp [isAbs, startsWith, List.isPrefixOf]

theorem resolve_plain (fs : FS) (cwd q : CPath) (hp : Plain fs q) (hn : GoodNames q) :
    resolve fs cwd (toStr q) = .ok q := by
  obtain ⟨m, t, hroot⟩ := isDirAt_iff.1 (hp [] List.nil_prefix)
  cases q with
  | nil =>
    have hc : comps (toStr []) = [[], []] := by decide
    have h1 : walk fs false linkFuel [] [[], []] = .ok [] := by
      rw [walk_skip _ _ _ _ _ hroot, walk_skip _ _ _ _ _ hroot, walk]
    unfold resolve
    rw [if_neg (by decide), isAbs_toStr, hc]
    have htr : ¬ ((toStr ([] : CPath)).getLast? = some slash ∧ ¬ ((toStr ([] : CPath)).all (· = slash)) = true) := by
      decide
    simp only [htr, decide_false, Bool.or_false, if_true, h1, if_false]
  | cons n rest =>
    have hc := comps_toStr_cons n rest hn
    obtain ⟨w, x, hw, hx⟩ := body_last (by simp) hn
    have hs : toStr (n :: rest) = w ++ [x] := by rw [toStr_ne (by simp), hw]
    have h1 : walk fs false linkFuel [] ([] :: n :: rest) = .ok (n :: rest) := by
      rw [walk_skip _ _ _ _ _ hroot]
      exact walk_plain fs false linkFuel (n :: rest) [] hp hn
    unfold resolve
    rw [if_neg (by rw [hs]; simp), isAbs_toStr, hc]
    have htr : ¬ ((toStr (n :: rest)).getLast? = some slash ∧ ¬ ((toStr (n :: rest)).all (· = slash)) = true) := by
      rw [hs]; simp [hx]
    simp only [htr, decide_false, Bool.or_false, if_true, h1, if_false]

theorem pIsmount_plain (fs : FS) (cwd q : CPath) (hp : Plain fs q) (hn : GoodNames q) :
    pIsmount fs cwd (toStr q) = isMount fs q := by
  obtain ⟨m, t, hq⟩ := isDirAt_iff.1 (hp q List.prefix_rfl)
  unfold pIsmount
  rw [resolve_plain fs cwd q hp hn]
  simp only [hq]

/-! ### `dev`: the longest mount prefix -/

theorem foldl_pick (L : List CPath) : ∀ init : CPath,
    (L.foldl (fun best m => if m.length > best.length then m else best) init = init ∨
      L.foldl (fun best m => if m.length > best.length then m else best) init ∈ L) ∧
    init.length ≤ (L.foldl (fun best m => if m.length > best.length then m else best) init).length ∧
    ∀ m ∈ L, m.length ≤ (L.foldl (fun best m => if m.length > best.length then m else best) init).length := by
  induction L with
  | nil => intro init; exact ⟨.inl rfl, Nat.le_refl _, fun _ h => by cases h⟩
  | cons x L ih =>
    intro init
    rw [List.foldl_cons]
    obtain ⟨a, b, c⟩ := ih (if x.length > init.length then x else init)
    refine ⟨?_, ?_, ?_⟩
    · rcases a with a | a
      · rw [a]
        split
        · exact .inr List.mem_cons_self
        · exact .inl rfl
      · exact .inr (List.mem_cons_of_mem _ a)
    · refine Nat.le_trans ?_ b
      split <;> omega
    · intro m hm
      rcases List.mem_cons.1 hm with rfl | hm
      · refine Nat.le_trans ?_ b
        split <;> omega
      · exact c m hm

theorem isPrefix_iff {a p : CPath} : isPrefix a p = true ↔ a <+: p := List.isPrefixOf_iff_prefix

theorem dev_prefix (fs : FS) (p : CPath) : dev fs p <+: p := by
  unfold dev
  rcases (foldl_pick (fs.mounts.filter fun m => isPrefix m p) []).1 with h | h
  · rw [h]; exact List.nil_prefix
  · exact isPrefix_iff.1 (List.mem_filter.1 h).2

theorem dev_nil (fs : FS) : dev fs [] = [] := List.prefix_nil.1 (dev_prefix fs [])

theorem isMount_iff {fs : FS} {p : CPath} : isMount fs p = true ↔ p ∈ fs.mounts := by
  simp [isMount]

theorem dev_self (fs : FS) (p : CPath) (h : isMount fs p = true) : dev fs p = p := by
  have hp := dev_prefix fs p
  apply hp.eq_of_length_le
  unfold dev
  exact (foldl_pick (fs.mounts.filter fun m => isPrefix m p) []).2.2 p
    (List.mem_filter.2 ⟨isMount_iff.1 h, isPrefix_iff.2 List.prefix_rfl⟩)

theorem dev_snoc (fs : FS) (q : CPath) (n : Name) (h : isMount fs (q ++ [n]) = false) :
    dev fs (q ++ [n]) = dev fs q := by
  have hf : (fs.mounts.filter fun m => isPrefix m (q ++ [n])) = fs.mounts.filter fun m => isPrefix m q := by
    apply List.filter_congr
    intro m hm
    have hne : m ≠ q ++ [n] := by
      intro e
      rw [e] at hm
      rw [isMount_iff.2 hm] at h
      cases h
    rw [Bool.eq_iff_iff, isPrefix_iff, isPrefix_iff, List.prefix_concat_iff]
    constructor
    · rintro (h | h)
      · exact absurd h hne
      · exact h
    · exact .inr
  unfold dev
  rw [hf]

/-! ### the lexical ascent -/

theorem body_length (p : CPath) : p.length ≤ (body p).length := by
  induction p with
  | nil => exact Nat.le_refl _
  | cons n p ih => rw [body_cons]; simp; omega

theorem toStr_length (p : CPath) : p.length ≤ (toStr p).length := by
  cases p with
  | nil => exact Nat.zero_le _
  | cons n p => rw [toStr_ne (by simp)]; exact body_length _

theorem toStr_snoc_ne (q : CPath) (n : Name) (hn : n ≠ []) : toStr (q ++ [n]) ≠ toStr q := by
  intro e
  have hl := congrArg List.length e
  rw [toStr_snoc] at hl
  have := List.length_pos_iff.2 hn
  by_cases hq : q = []
  · subst hq; simp [toStr, body] at hl; exact hn hl
  · rw [toStr_ne hq] at hl; simp at hl

theorem Plain.left {fs : FS} {p q : CPath} (h : Plain fs (p ++ q)) : Plain fs p :=
  fun r hr => h r (hr.trans (List.prefix_append _ _))

theorem volumeOfAux_plain (fs : FS) (cwd : CPath) (k : Nat) : ∀ (q : CPath), q.length = k → ∀ fuel, k < fuel →
    Plain fs q → GoodNames q → volumeOfAux fs cwd fuel (toStr q) = toStr (dev fs q) := by
  induction k with
  | zero =>
    intro q hq fuel hf _ _
    obtain rfl := List.length_eq_zero_iff.1 hq
    obtain ⟨f, rfl⟩ : ∃ f, fuel = f + 1 := ⟨fuel - 1, by omega⟩
    have hd : toStr ([] : CPath) = dirname (toStr ([] : CPath)) := by decide
    rw [volumeOfAux, if_pos hd, dev_nil]
  | succ k ih =>
    intro q hq fuel hf hp hn
    have hq0 : q ≠ [] := by intro e; rw [e] at hq; cases hq
    obtain ⟨q', n, rfl⟩ := exists_snoc hq0
    obtain ⟨f, rfl⟩ : ∃ f, fuel = f + 1 := ⟨fuel - 1, by omega⟩
    have hdn := dirname_toStr q' n hn
    have hne : ¬ toStr (q' ++ [n]) = dirname (toStr (q' ++ [n])) := by
      rw [hdn]; exact toStr_snoc_ne q' n (hn n (by simp)).1
    rw [volumeOfAux, if_neg hne, pIsmount_plain fs cwd _ hp hn]
    cases hm : isMount fs (q' ++ [n]) with
    | true => rw [if_pos rfl, dev_self fs _ hm]
    | false =>
      rw [if_neg (by simp), hdn, dev_snoc fs q' n hm]
      exact ih q' (by simpa using hq) f (by omega) hp.left hn.left

theorem volumeOf_is_device_root (fs : FS) (cwd p : CPath) (hp : Plain fs p) (hn : GoodNames p)
    (_hroot : fs.isMount [] = true) : volumeOf fs cwd (toStr p) = toStr (dev fs p) := by
  unfold volumeOf abspath
  simp only [isAbs_toStr, if_true, normpath_toStr p hn]
  exact volumeOfAux_plain fs cwd p.length p rfl _ (Nat.lt_succ_of_le (toStr_length p)) hp hn

/-! ### no dangling link on a plain path -/

theorem resolve_plain_fl (fs : FS) (cwd q : CPath) (fl : Bool) (hp : Plain fs q) (hn : GoodNames q) :
    resolve fs cwd (toStr q) fl = .ok q := by
  obtain ⟨m, t, hroot⟩ := isDirAt_iff.1 (hp [] List.nil_prefix)
  cases q with
  | nil =>
    have hc : comps (toStr []) = [[], []] := by decide
    have h1 : ∀ f, walk fs f linkFuel [] [[], []] = .ok [] := by
      intro f
      rw [walk_skip _ _ _ _ _ hroot, walk_skip _ _ _ _ _ hroot, walk]
    unfold resolve
    rw [if_neg (by decide), isAbs_toStr, hc]
    have htr : ¬ ((toStr ([] : CPath)).getLast? = some slash ∧ ¬ ((toStr ([] : CPath)).all (· = slash)) = true) := by
      decide
    simp only [htr, decide_false, Bool.or_false, if_true, h1, if_false]
  | cons n rest =>
    have hc := comps_toStr_cons n rest hn
    obtain ⟨w, x, hw, hx⟩ := body_last (by simp) hn
    have hs : toStr (n :: rest) = w ++ [x] := by rw [toStr_ne (by simp), hw]
    have h1 : ∀ f, walk fs f linkFuel [] ([] :: n :: rest) = .ok (n :: rest) := by
      intro f
      rw [walk_skip _ _ _ _ _ hroot]
      exact walk_plain fs f linkFuel (n :: rest) [] hp hn
    unfold resolve
    rw [if_neg (by rw [hs]; simp), isAbs_toStr, hc]
    have htr : ¬ ((toStr (n :: rest)).getLast? = some slash ∧ ¬ ((toStr (n :: rest)).all (· = slash)) = true) := by
      rw [hs]; simp [hx]
    simp only [htr, decide_false, Bool.or_false, if_true, h1, if_false]

theorem pExists_plain (fs : FS) (cwd q : CPath) (hp : Plain fs q) (hn : GoodNames q) :
    pExists fs cwd (toStr q) = true := by
  obtain ⟨m, t, hq⟩ := isDirAt_iff.1 (hp q List.prefix_rfl)
  unfold pExists stat
  rw [resolve_plain_fl fs cwd q true hp hn]
  simp only [hq]; rfl

/-- the component-boundary prefixes of the canonical spelling of `Q` spell the non-root ancestors-or-self of `Q` -/
theorem mem_strPrefixes_toStr (Q : CPath) (hn : GoodNames Q) (q : Bytes) (hq : q ∈ strPrefixes (toStr Q)) :
    ∃ k, q = toStr (Q.take k) := by
  cases Q with
  | nil => revert hq; have : strPrefixes (toStr []) = [] := by decide
           rw [this]; intro h; cases h
  | cons n rest =>
    have hc : splitOn slash (toStr (n :: rest)) = [] :: n :: rest := comps_toStr_cons n rest hn
    unfold strPrefixes at hq
    simp only [hc] at hq
    obtain ⟨k, _, hk⟩ := List.mem_filterMap.1 hq
    cases k with
    | zero => simp at hk
    | succ j =>
      refine ⟨j + 1, ?_⟩
      split at hk
      · cases hk
      · have : q = joinWith [slash] (List.take (j + 1 + 1) ([] :: n :: rest)) := by
          cases hk; rfl
        rw [this, List.take_succ_cons, joinWith_body, List.nil_append, List.take_succ_cons, toStr_ne (by simp)]

theorem GoodNames.take {Q : CPath} (hn : GoodNames Q) (k : Nat) : GoodNames (Q.take k) :=
  fun m hm => hn m (List.mem_of_mem_take hm)

theorem Plain.take {fs : FS} {Q : CPath} (hp : Plain fs Q) (k : Nat) : Plain fs (Q.take k) :=
  fun r hr => hp r (hr.trans (List.take_prefix _ _))

theorem danglingOnPath_plain (fs : FS) (cwd Q : CPath) (hp : Plain fs Q) (hn : GoodNames Q) :
    danglingOnPath fs cwd (toStr Q) = none := by
  have hf : (strPrefixes (toStr Q)).find? (fun q => ¬ pExists fs cwd q) = none := by
    rw [List.find?_eq_none]
    intro q hq
    obtain ⟨k, rfl⟩ := mem_strPrefixes_toStr Q hn q hq
    simp [pExists_plain fs cwd _ (hp.take k) (hn.take k)]
  unfold danglingOnPath
  rw [hf]

/-! ### a dangling symbolic link on the way to a candidate trash directory -/

theorem run_mkdirPStr_dangling (φ : Oracle) (cwd : CPath) (p : Bytes) (mode : Nat) (s : RunState) (e : Errno)
    (hd : danglingOnPath s.fs cwd p = some e) : run φ (mkdirPStr cwd p mode) s = (.error e, s) := by
  unfold mkdirPStr
  rw [run_read_bind, hd]
  rfl

theorem no_dangling_link_mkdirP (φ : Oracle) (cwd : CPath) (p : Bytes) (mode : Nat) (s : RunState)
    (hd : danglingOnPath s.fs cwd p = none) :
    run φ (mkdirPStr cwd p mode) s = run φ (mkdirP (dirC s.fs cwd p) mode) s := by
  unfold mkdirPStr
  rw [run_read_bind, hd]

theorem dangling_link_blocks_candidate_eq (φ : Oracle) (c : PutCfg) (path volume : Bytes) (cand : Candidate) (st : PutSt)
    (s : RunState) (e : Errno)
    (hsec : securityCheck s.fs c.cwd cand = none) (hgate : gateCheck s.fs c volume cand = none)
    (hd : danglingOnPath s.fs c.cwd cand.path = some e) :
    run φ (trashFileIn c path volume cand st) s = ((.error (.mkdirError e), st), s) := by
  rw [trashFileIn, run_read_bind]
  simp only [hsec, hgate]
  rw [run_bind, run_mkdirPStr_dangling φ _ _ _ s e hd]
  rfl

theorem dangling_link_blocks_candidate (φ : Oracle) (c : PutCfg) (path volume : Bytes) (cand : Candidate) (st : PutSt)
    (s : RunState) (e : Errno)
    (hsec : securityCheck s.fs c.cwd cand = none) (hgate : gateCheck s.fs c volume cand = none)
    (hd : danglingOnPath s.fs c.cwd cand.path = some e) :
    let r := run φ (trashFileIn c path volume cand st) s
    r.1 = (.error (.mkdirError e), st) ∧ r.2.fs = s.fs ∧ r.2.trace = s.trace ∧ r.2.hist = s.hist := by
  intro r
  have hr : r = ((.error (.mkdirError e), st), s) := dangling_link_blocks_candidate_eq φ c path volume cand st s e hsec hgate hd
  rw [hr]
  exact ⟨rfl, rfl, rfl, rfl⟩

theorem dangling_link_next_candidate (φ : Oracle) (c : PutCfg) (path volume : Bytes) (cand : Candidate)
    (rest : List Candidate) (reasons : List Reason) (st : PutSt) (s : RunState) (e : Errno)
    (hsec : securityCheck s.fs c.cwd cand = none) (hgate : gateCheck s.fs c volume cand = none)
    (hd : danglingOnPath s.fs c.cwd cand.path = some e) :
    run φ (tryCandidates c path volume (cand :: rest) reasons st) s =
      run φ (tryCandidates c path volume rest (.mkdirError e :: reasons) st) s := by
  rw [tryCandidates, run_bind, dangling_link_blocks_candidate_eq φ c path volume cand st s e hsec hgate hd]

/-- `trashFileIn` without the dangling-link guard (same as `trashFileInCanon` of Props/C07.lean) -/
def trashFileInCanon (c : PutCfg) (path volume : Bytes) (cand : Candidate) (st : PutSt) :
    Prog (Except Reason Bytes × PutSt) := do
  let fs ← read
  match securityCheck fs c.cwd cand with
  | some r => pure (.error r, st)
  | none =>
  match gateCheck fs c volume cand with
  | some r => pure (.error r, st)
  | none =>
  match ← mkdirP (dirC fs c.cwd cand.path) 0o700 with
  | .error e => pure (.error (.mkdirError e), st)
  | .ok () =>
  let fs1 ← read
  match ← mkdirP (dirC fs1 c.cwd (pjoin cand.path (b "files"))) 0o700 with
  | .error e => pure (.error (.mkdirError e), st)
  | .ok () =>
  let fs2 ← read
  match ← mkdirP (dirC fs2 c.cwd (pjoin cand.path (b "info"))) 0o700 with
  | .error e => pure (.error (.mkdirError e), st)
  | .ok () =>
  let fs ← read
  let filesC := dirC fs c.cwd (pjoin cand.path (b "files"))
  let infoC := dirC fs c.cwd (pjoin cand.path (b "info"))
  let fs ← read
  let loc := originalLocation fs c.cwd path cand
  let content := formatTrashinfoWith loc c.dateStr
  let srcStr := normpath path
  putCore infoC filesC (basename loc) content
    (fun fs' => if pIsmount fs' c.cwd srcStr then .error .EBUSY else resolve fs' c.cwd srcStr) st

theorem no_dangling_link_canonical (φ : Oracle) (c : PutCfg) (path volume : Bytes) (cand : Candidate) (st : PutSt)
    (s : RunState)
    (h1 : danglingOnPath s.fs c.cwd cand.path = none)
    (h2 : danglingOnPath (run φ (mkdirP (dirC s.fs c.cwd cand.path) 0o700) s).2.fs c.cwd
            (pjoin cand.path (b "files")) = none)
    (h3 : let s1 := (run φ (mkdirP (dirC s.fs c.cwd cand.path) 0o700) s).2
          danglingOnPath (run φ (mkdirP (dirC s1.fs c.cwd (pjoin cand.path (b "files"))) 0o700) s1).2.fs c.cwd
            (pjoin cand.path (b "info")) = none) :
    run φ (trashFileIn c path volume cand st) s = run φ (trashFileInCanon c path volume cand st) s := by
  rw [trashFileIn, trashFileInCanon, run_read_bind, run_read_bind]
  cases securityCheck s.fs c.cwd cand with
  | some r => rfl
  | none =>
    cases gateCheck s.fs c volume cand with
    | some r => rfl
    | none =>
      simp only []
      rw [run_bind, run_bind, no_dangling_link_mkdirP φ _ _ _ s h1]
      simp only [] at h3
      generalize run φ (mkdirP (dirC s.fs c.cwd cand.path) 0o700) s = r1 at h2 h3
      obtain ⟨res1, s1⟩ := r1
      cases res1 with
      | error e => rfl
      | ok u =>
        simp only [] at h2 h3 ⊢
        rw [run_read_bind, run_bind, run_bind, no_dangling_link_mkdirP φ _ _ _ s1 h2]
        generalize run φ (mkdirP (dirC s1.fs c.cwd (pjoin cand.path (b "files"))) 0o700) s1 = r2 at h3
        obtain ⟨res2, s2⟩ := r2
        cases res2 with
        | error e => rfl
        | ok u =>
          simp only [] at h3 ⊢
          rw [run_read_bind, run_bind, run_bind, no_dangling_link_mkdirP φ _ _ _ s2 h3]
          generalize run φ (mkdirP (dirC s2.fs c.cwd (pjoin cand.path (b "info"))) 0o700) s2 = r3
          obtain ⟨res3, s3⟩ := r3
          cases res3 <;> rfl

/-! non-vacuity: concrete worlds, evaluated through the twins of Proofs/C16Eval.lean -/

namespace Ex
open TrashVerif.Proofs.C16Eval

def dN : Node := .dir 0o755 0
/-- `/t` is a symbolic link to `/nowhere`, which does not exist; `/x` is a regular file; one volume -/
def fsDangling : FS := FS.ofList [([], dN), ([b "t"], .link (b "/nowhere")), ([b "x"], .file [120] 0o644 0)] [[]]
def cfg : PutCfg := { cwd := [], env := {}, uid := 0, dateStr := b "D" }
/-- `--trash-dir /t` -/
def candT : Candidate := { path := b "/t", volume := b "/", relative := true, topCheck := false, gate := .sameVolume }
/-- `--trash-dir /t/sub`: the dangling link is a proper prefix -/
def candTSub : Candidate := { path := b "/t/sub", volume := b "/", relative := true, topCheck := false, gate := .sameVolume }

theorem hyps_T : securityCheck fsDangling cfg.cwd candT = none ∧ gateCheck fsDangling cfg (b "/") candT = none ∧
    danglingOnPath fsDangling cfg.cwd candT.path = some .EEXIST := by
  rw [securityCheck_eq, gateCheck_eq, danglingOnPath_eq]; decide +kernel

theorem hyps_TSub : securityCheck fsDangling cfg.cwd candTSub = none ∧ gateCheck fsDangling cfg (b "/") candTSub = none ∧
    danglingOnPath fsDangling cfg.cwd candTSub.path = some .ENOENT := by
  rw [securityCheck_eq, gateCheck_eq, danglingOnPath_eq]; decide +kernel

/-- nothing at `/t` yet, the file `/x`; one volume: the three directories are created -/
def fsFresh : FS := FS.ofList [([], dN), ([b "x"], .file [120] 0o644 0)] [[]]

theorem hyps_fresh :
    danglingOnPath fsFresh cfg.cwd candT.path = none ∧
    danglingOnPath (run noFaults (mkdirP (dirC fsFresh cfg.cwd candT.path) 0o700) { fs := fsFresh }).2.fs cfg.cwd
      (pjoin candT.path (b "files")) = none ∧
    (let s1 := (run noFaults (mkdirP (dirC fsFresh cfg.cwd candT.path) 0o700) { fs := fsFresh }).2
     danglingOnPath (run noFaults (mkdirP (dirC s1.fs cfg.cwd (pjoin candT.path (b "files"))) 0o700) s1).2.fs cfg.cwd
       (pjoin candT.path (b "info")) = none) := by
  simp only [danglingOnPath_eq, dirC_eq]; decide +kernel

end Ex

/-! the same-volume gate and a trash directory spelled through a link: a two-volume world -/

namespace NamedEx
open TrashVerif.Proofs.C16Eval

def dN : Node := .dir 0o755 0
/-- two volumes, `/` and `/v`; `/v/jump -> /v/deep/inner`; the trash directory `/v/ct` -/
def W : FS := FS.ofList
  [([], dN), ([b "v"], dN), ([b "v", b "deep"], dN), ([b "v", b "deep", b "inner"], dN),
   ([b "v", b "jump"], .link (b "/v/deep/inner")), ([b "v", b "ct"], dN), ([b "v", b "x"], .file [120] 0o644 0)]
  [[], [b "v"]]
def cfg : PutCfg := { cwd := [], env := {}, uid := 0, dateStr := b "D" }
/-- `--trash-dir /v/jump/../../ct` -/
def cand : Candidate :=
  { path := b "/v/jump/../../ct", volume := b "/v", relative := true, topCheck := false, gate := .sameVolume }

/-- The kernel follows `/v/jump` to `/v/deep/inner`, goes up twice and names `/v/ct`, on the volume
    `/v`: the gate accepts a file of the volume `/v` (and refuses one of `/`).  The textual collapse
    `normpath "/v/jump/../../ct"` = "/ct" lies on `/`: with `normpath` applied first (the code before
    the fix) the gate refused the file of `/v` and accepted one of `/`. -/
theorem named_gate :
    realpathStr W cfg.cwd cand.path = b "/v/ct" ∧
    volumeOf W cfg.cwd (realpathStr W cfg.cwd cand.path) = b "/v" ∧
    gateCheck W cfg (b "/v") cand = none ∧
    gateCheck W cfg (b "/") cand = some .differentVolumes ∧
    normpath cand.path = b "/ct" ∧
    volumeOf W cfg.cwd (realpathStr W cfg.cwd (normpath cand.path)) = b "/" ∧
    gateCheck W cfg (b "/v") { cand with path := normpath cand.path } = some .differentVolumes ∧
    gateCheck W cfg (b "/") { cand with path := normpath cand.path } = none := by
  simp only [gateCheck_eq, volumeOf_eq, realpathStr_eq]
  decide +kernel

/-- the statement of `gate_same_volume` as it read before the fix (with `normpath cand.path`) is false now -/
theorem former_statement_false :
    ¬ (∀ (fs : FS) (c : PutCfg) (volume : Bytes) (cand : Candidate), cand.gate = .sameVolume →
        (gateCheck fs c volume cand = none ↔
          volumeOf fs c.cwd (realpathStr fs c.cwd (normpath cand.path)) = volume)) := by
  intro h
  have h1 := (h W cfg (b "/v") cand rfl).1 named_gate.2.2.1
  rw [named_gate.2.2.2.2.2.1] at h1
  exact absurd h1 (by decide +kernel)

end NamedEx

end TrashVerif.Proofs.C07
