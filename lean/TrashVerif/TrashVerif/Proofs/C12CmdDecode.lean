import TrashVerif.Model.Glob
namespace TrashVerif.Proofs.C12CmdDecode
open TrashVerif

def encCp (cp : Nat) : Bytes :=
  if cp < 0x80 then [UInt8.ofNat cp]
  else if cp < 0x800 then [UInt8.ofNat (0xC0 + cp / 64), UInt8.ofNat (0x80 + cp % 64)]
  else if 0xDC80 ≤ cp ∧ cp ≤ 0xDCFF then [UInt8.ofNat (cp - 0xDC00)]
  else if cp < 0x10000 then
    [UInt8.ofNat (0xE0 + cp / 4096), UInt8.ofNat (0x80 + cp / 64 % 64), UInt8.ofNat (0x80 + cp % 64)]
  else
    [UInt8.ofNat (0xF0 + cp / 262144), UInt8.ofNat (0x80 + cp / 4096 % 64),
     UInt8.ofNat (0x80 + cp / 64 % 64), UInt8.ofNat (0x80 + cp % 64)]

theorem encCp_1 (cp : Nat) (h : cp < 0x80) : encCp cp = [UInt8.ofNat cp] := by
  unfold encCp; rw [if_pos h]
theorem encCp_2 (cp : Nat) (h : ¬ cp < 0x80) (h2 : cp < 0x800) :
    encCp cp = [UInt8.ofNat (0xC0 + cp / 64), UInt8.ofNat (0x80 + cp % 64)] := by
  unfold encCp; rw [if_neg h, if_pos h2]
theorem encCp_e (cp : Nat) (h : 0xDC80 ≤ cp ∧ cp ≤ 0xDCFF) :
    encCp cp = [UInt8.ofNat (cp - 0xDC00)] := by
  unfold encCp
  rw [if_neg (show ¬ cp < 0x80 by omega), if_neg (show ¬ cp < 0x800 by omega), if_pos h]
theorem encCp_3 (cp : Nat) (h : ¬ cp < 0x800) (he : ¬ (0xDC80 ≤ cp ∧ cp ≤ 0xDCFF)) (h3 : cp < 0x10000) :
    encCp cp = [UInt8.ofNat (0xE0 + cp / 4096), UInt8.ofNat (0x80 + cp / 64 % 64), UInt8.ofNat (0x80 + cp % 64)] := by
  unfold encCp
  rw [if_neg (show ¬ cp < 0x80 by omega), if_neg h, if_neg he, if_pos h3]
theorem encCp_4 (cp : Nat) (h3 : ¬ cp < 0x10000) :
    encCp cp = [UInt8.ofNat (0xF0 + cp / 262144), UInt8.ofNat (0x80 + cp / 4096 % 64),
     UInt8.ofNat (0x80 + cp / 64 % 64), UInt8.ofNat (0x80 + cp % 64)] := by
  unfold encCp
  rw [if_neg (show ¬ cp < 0x80 by omega), if_neg (show ¬ cp < 0x800 by omega),
    if_neg (show ¬ (0xDC80 ≤ cp ∧ cp ≤ 0xDCFF) by omega), if_neg h3]

def encodeSE : Cps → Bytes
  | [] => []
  | cp :: r => encCp cp ++ encodeSE r

theorem u8_eq (c : UInt8) (n : Nat) (h : n = c.toNat) : UInt8.ofNat n = c := by
  subst h; exact UInt8.ofNat_toNat

theorem cons_eq {α} {a b : α} {l m : List α} (h1 : a = b) (h2 : l = m) : a :: l = b :: m := by
  subst h1; subst h2; rfl

theorem isCont_iff (c : UInt8) : isCont c = true ↔ 0x80 ≤ c.toNat ∧ c.toNat ≤ 0xBF := by
  simp [isCont]

/-- the shape of one decoding step -/
def Step (c : UInt8) (rest : Bytes) (out : Cps) : Prop :=
  ∃ cp pre rest', c :: rest = pre ++ rest' ∧ encCp cp = pre ∧ rest'.length < (c :: rest).length ∧
      (cp < 128 → cp = c.toNat) ∧ out = cp :: decodeSE rest'

theorem esc_case (c : UInt8) (rest : Bytes) (h : ¬ c.toNat < 0x80) :
    Step c rest ((0xDC00 + c.toNat) :: decodeSE rest) := by
  have := c.toNat_lt
  refine ⟨0xDC00 + c.toNat, [c], rest, rfl, ?_, ?_, ?_, rfl⟩
  · rw [encCp_e _ (by omega)]
    exact cons_eq (u8_eq _ _ (by omega)) rfl
  · simp
  · omega

theorem two_case (c c1 : UInt8) (r : Bytes) (h2 : 0xC2 ≤ c.toNat ∧ c.toNat ≤ 0xDF)
    (hk : isCont c1 = true) :
    Step c (c1 :: r) (((c.toNat - 0xC0) * 64 + (c1.toNat - 0x80)) :: decodeSE r) := by
  rw [isCont_iff] at hk
  have h1 := c1.toNat_lt
  refine ⟨_, [c, c1], r, rfl, ?_, ?_, ?_, rfl⟩
  · rw [encCp_2 _ (by omega) (by omega)]
    exact cons_eq (u8_eq _ _ (by omega)) (cons_eq (u8_eq _ _ (by omega)) rfl)
  · simp; omega
  · omega

theorem three_case (c c1 c2 : UInt8) (r : Bytes) (h2 : 0xE0 ≤ c.toNat ∧ c.toNat ≤ 0xEF)
    (hk : (if c.toNat = 0xE0 then 0xA0 else 0x80) ≤ c1.toNat ∧
      c1.toNat ≤ (if c.toNat = 0xED then 0x9F else 0xBF) ∧ isCont c2 = true) :
    Step c (c1 :: c2 :: r)
      (((c.toNat - 0xE0) * 4096 + (c1.toNat - 0x80) * 64 + (c2.toNat - 0x80)) :: decodeSE r) := by
  rw [isCont_iff] at hk
  have h1 := c1.toNat_lt
  have h2' := c2.toNat_lt
  obtain ⟨hlo, hhi, hk⟩ := hk
  have hlo' : 0x80 ≤ c1.toNat ∧ (c.toNat ≠ 0xE0 ∨ 0xA0 ≤ c1.toNat) := by split at hlo <;> omega
  have hhi' : c1.toNat ≤ 0xBF ∧ (c.toNat ≠ 0xED ∨ c1.toNat ≤ 0x9F) := by split at hhi <;> omega
  clear hlo hhi
  refine ⟨_, [c, c1, c2], r, rfl, ?_, ?_, ?_, rfl⟩
  · rw [encCp_3 _ (by omega) (by omega) (by omega)]
    exact cons_eq (u8_eq _ _ (by omega)) (cons_eq (u8_eq _ _ (by omega))
      (cons_eq (u8_eq _ _ (by omega)) rfl))
  · simp; omega
  · omega

theorem four_case (c c1 c2 c3 : UInt8) (r : Bytes) (h2 : 0xF0 ≤ c.toNat ∧ c.toNat ≤ 0xF4)
    (hk : (if c.toNat = 0xF0 then 0x90 else 0x80) ≤ c1.toNat ∧
      c1.toNat ≤ (if c.toNat = 0xF4 then 0x8F else 0xBF) ∧ isCont c2 = true ∧ isCont c3 = true) :
    Step c (c1 :: c2 :: c3 :: r)
      (((c.toNat - 0xF0) * 262144 + (c1.toNat - 0x80) * 4096 + (c2.toNat - 0x80) * 64 +
        (c3.toNat - 0x80)) :: decodeSE r) := by
  rw [isCont_iff, isCont_iff] at hk
  have h1 := c1.toNat_lt
  have h2' := c2.toNat_lt
  have h3' := c3.toNat_lt
  obtain ⟨hlo, hhi, hk, hk3⟩ := hk
  have hlo' : 0x80 ≤ c1.toNat ∧ (c.toNat ≠ 0xF0 ∨ 0x90 ≤ c1.toNat) := by split at hlo <;> omega
  have hhi' : c1.toNat ≤ 0xBF ∧ (c.toNat ≠ 0xF4 ∨ c1.toNat ≤ 0x8F) := by split at hhi <;> omega
  clear hlo hhi
  refine ⟨_, [c, c1, c2, c3], r, rfl, ?_, ?_, ?_, rfl⟩
  · rw [encCp_4 _ (by omega)]
    exact cons_eq (u8_eq _ _ (by omega)) (cons_eq (u8_eq _ _ (by omega))
      (cons_eq (u8_eq _ _ (by omega)) (cons_eq (u8_eq _ _ (by omega)) rfl)))
  · simp; omega
  · omega

theorem head (c : UInt8) (rest : Bytes) : Step c rest (decodeSE (c :: rest)) := by
  rw [decodeSE]
  simp only []
  by_cases h : c.toNat < 0x80
  · rw [if_pos h]
    refine ⟨c.toNat, [c], rest, rfl, ?_, by simp, fun _ => rfl, rfl⟩
    rw [encCp_1 _ h]
    exact cons_eq (u8_eq _ _ rfl) rfl
  · rw [if_neg h]
    by_cases h2 : 0xC2 ≤ c.toNat ∧ c.toNat ≤ 0xDF
    · rw [if_pos h2]
      cases rest with
      | nil => exact esc_case c _ h
      | cons c1 r =>
        simp only []
        by_cases hk : isCont c1 = true
        · rw [if_pos hk]; exact two_case c c1 r h2 hk
        · rw [if_neg hk]; exact esc_case c _ h
    · rw [if_neg h2]
      by_cases h3 : 0xE0 ≤ c.toNat ∧ c.toNat ≤ 0xEF
      · rw [if_pos h3]
        match rest with
        | [] => exact esc_case c _ h
        | [_] => exact esc_case c _ h
        | c1 :: c2 :: r =>
          simp only []
          by_cases hk : (if c.toNat = 0xE0 then 0xA0 else 0x80) ≤ c1.toNat ∧
              c1.toNat ≤ (if c.toNat = 0xED then 0x9F else 0xBF) ∧ isCont c2 = true
          · rw [if_pos hk]; exact three_case c c1 c2 r h3 hk
          · rw [if_neg hk]; exact esc_case c _ h
      · rw [if_neg h3]
        by_cases h4 : 0xF0 ≤ c.toNat ∧ c.toNat ≤ 0xF4
        · rw [if_pos h4]
          match rest with
          | [] => exact esc_case c _ h
          | [_] => exact esc_case c _ h
          | [_, _] => exact esc_case c _ h
          | c1 :: c2 :: c3 :: r =>
            simp only []
            by_cases hk : (if c.toNat = 0xF0 then 0x90 else 0x80) ≤ c1.toNat ∧
                c1.toNat ≤ (if c.toNat = 0xF4 then 0x8F else 0xBF) ∧ isCont c2 = true ∧
                isCont c3 = true
            · rw [if_pos hk]; exact four_case c c1 c2 c3 r h4 hk
            · rw [if_neg hk]; exact esc_case c _ h
        · rw [if_neg h4]; exact esc_case c _ h

theorem decodeSE_nil : decodeSE [] = [] := by
  rw [decodeSE]

/-- every code point below 128 of the decoding is a byte of the input -/
theorem decodeSE_ascii_mem (bs : Bytes) (c : Nat) (hc : c ∈ decodeSE bs) (hlt : c < 128) :
    ∃ x ∈ bs, x.toNat = c := by
  induction hn : bs.length using Nat.strongRecOn generalizing bs with
  | _ n ih =>
    cases bs with
    | nil => rw [decodeSE_nil] at hc; cases hc
    | cons b rest =>
      obtain ⟨cp, pre, rest', heq, _, hlen, hasc, hout⟩ := head b rest
      rw [hout] at hc
      cases hc with
      | head => exact ⟨b, List.mem_cons_self, (hasc hlt).symm⟩
      | tail _ hm =>
        obtain ⟨x, hx, hxc⟩ := ih rest'.length (hn ▸ hlen) rest' hm rfl
        exact ⟨x, heq ▸ List.mem_append_right pre hx, hxc⟩

theorem encodeSE_decodeSE (bs : Bytes) : encodeSE (decodeSE bs) = bs := by
  induction hn : bs.length using Nat.strongRecOn generalizing bs with
  | _ n ih =>
    cases bs with
    | nil => rw [decodeSE_nil]; rfl
    | cons b rest =>
      obtain ⟨cp, pre, rest', heq, henc, hlen, _, hout⟩ := head b rest
      rw [hout, encodeSE, henc, ih rest'.length (hn ▸ hlen) rest' rfl, heq]

/-- surrogate-escape decoding is injective -/
theorem decodeSE_injective (a c : Bytes) (h : decodeSE a = decodeSE c) : a = c := by
  have := congrArg encodeSE h
  rwa [encodeSE_decodeSE, encodeSE_decodeSE] at this

end TrashVerif.Proofs.C12CmdDecode
