/-
  Proofs/C12.lean — helper lemmas for Props/C12.lean: correctness of the greedy glob matcher.
-/
import TrashVerif.Spec.C12
namespace TrashVerif.Proofs.C12
open TrashVerif Glob TrashVerif.C12

/-! ### items -/

theorem itemMatches_iff (i : GItem) (x : Nat) : itemMatches i x = true ↔ Accepts i x := by
  cases i with
  | star => simp [itemMatches, Accepts]
  | any => simp [itemMatches, Accepts]
  | lit c => simp [itemMatches, Accepts]
  | never => simp [itemMatches, Accepts]
  | cls neg singles ranges =>
    cases neg <;> simp [itemMatches, Accepts]

theorem itemMatches_star (x : Nat) : itemMatches .star x = false := rfl

/-! ### inversion of `Matches` -/

theorem matches_nil_iff (s : List Nat) : Matches [] s ↔ s = [] := by
  constructor
  · intro h; cases h; rfl
  · rintro rfl; exact .nil

theorem matches_cons_iff {i : GItem} (hi : i ≠ .star) (is : List GItem) (s : List Nat) :
    Matches (i :: is) s ↔ ∃ x s', s = x :: s' ∧ itemMatches i x = true ∧ Matches is s' := by
  constructor
  · intro h
    cases h with
    | star_skip _ => exact absurd rfl hi
    | star_take _ => exact absurd rfl hi
    | one _ ha hm => exact ⟨_, _, rfl, (itemMatches_iff _ _).2 ha, hm⟩
  · rintro ⟨x, s', rfl, ha, hm⟩
    exact .one hi ((itemMatches_iff _ _).1 ha) hm

/-- a star absorbs any prefix -/
theorem matches_star_prepend {is : List GItem} {s : List Nat} (p : List Nat)
    (h : Matches (.star :: is) s) : Matches (.star :: is) (p ++ s) := by
  induction p with
  | nil => simpa using h
  | cons x p ih => exact .star_take ih

theorem matches_star_iff (is : List GItem) (s : List Nat) :
    Matches (.star :: is) s ↔ ∃ p t, s = p ++ t ∧ Matches is t := by
  constructor
  · intro h
    generalize hl : GItem.star :: is = l at h
    induction h with
    | nil => cases hl
    | star_skip hm _ =>
      cases hl
      exact ⟨[], _, rfl, hm⟩
    | star_take _ ih =>
      cases hl
      obtain ⟨p, t, rfl, hm⟩ := ih rfl
      exact ⟨_ :: p, t, rfl, hm⟩
    | one hi _ _ _ =>
      cases hl
      exact absurd rfl hi
  · rintro ⟨p, t, rfl, hm⟩
    exact matches_star_prepend p (.star_skip hm)

/-! ### fixed (star-free) item lists -/

def StarFree (l : List GItem) : Prop := ∀ i ∈ l, i ≠ GItem.star

theorem fixedMatches_length : ∀ {f : List GItem} {m : List Nat}, fixedMatches f m = true → f.length = m.length
  | [], [], _ => rfl
  | [], _ :: _, h => by simp [fixedMatches] at h
  | _ :: _, [], h => by simp [fixedMatches] at h
  | _ :: f, _ :: m, h => by
    simp only [fixedMatches, Bool.and_eq_true] at h
    simp [fixedMatches_length h.2]

/-- a star-free prefix of the pattern consumes exactly as many symbols -/
theorem matches_fixed_append {f : List GItem} (hf : StarFree f) (is : List GItem) (t : List Nat) :
    Matches (f ++ is) t ↔ ∃ m r, t = m ++ r ∧ fixedMatches f m = true ∧ Matches is r := by
  induction f generalizing t with
  | nil =>
    constructor
    · intro h; exact ⟨[], t, rfl, rfl, h⟩
    · rintro ⟨m, r, rfl, hm, h⟩
      cases m with
      | nil => simpa using h
      | cons _ _ => simp [fixedMatches] at hm
  | cons i f ih =>
    have hi : i ≠ .star := hf i (by simp)
    have hf' : StarFree f := fun j hj => hf j (by simp [hj])
    rw [List.cons_append, matches_cons_iff hi]
    constructor
    · rintro ⟨x, s', rfl, hx, hm⟩
      obtain ⟨m, r, rfl, hfm, hr⟩ := (ih hf' s').1 hm
      exact ⟨x :: m, r, rfl, by simp [fixedMatches, hx, hfm], hr⟩
    · rintro ⟨m, r, rfl, hfm, hr⟩
      cases m with
      | nil => simp [fixedMatches] at hfm
      | cons x m =>
        simp only [fixedMatches, Bool.and_eq_true] at hfm
        exact ⟨x, m ++ r, rfl, hfm.1, (ih hf' _).2 ⟨m, r, rfl, hfm.2, hr⟩⟩

theorem matches_fixed_iff {f : List GItem} (hf : StarFree f) (t : List Nat) :
    Matches f t ↔ fixedMatches f t = true := by
  have := matches_fixed_append hf [] t
  rw [List.append_nil] at this
  rw [this]
  constructor
  · rintro ⟨m, r, rfl, hm, hr⟩
    rw [(matches_nil_iff r).1 hr, List.append_nil]; exact hm
  · intro h; exact ⟨t, [], by simp, h, .nil⟩

/-! ### `matchPrefix` and `findLeftmost` -/

theorem matchPrefix_eq_some (f : List GItem) (s r : List Nat) :
    matchPrefix f s = some r ↔ ∃ m, s = m ++ r ∧ fixedMatches f m = true := by
  unfold matchPrefix
  constructor
  · intro h
    split at h
    · rename_i hc
      cases h
      exact ⟨s.take f.length, (List.take_append_drop _ _).symm, hc.2⟩
    · cases h
  · rintro ⟨m, rfl, hm⟩
    have hl := fixedMatches_length hm
    rw [if_pos]
    · simp [hl]
    · simp [hl, hm]

theorem matchPrefix_eq_none (f : List GItem) (s : List Nat) :
    matchPrefix f s = none ↔ ∀ m r, s = m ++ r → fixedMatches f m = false := by
  constructor
  · intro h m r hs
    cases hfm : fixedMatches f m with
    | false => rfl
    | true =>
      have := (matchPrefix_eq_some f s r).2 ⟨m, hs, hfm⟩
      rw [h] at this; cases this
  · intro h
    cases hm : matchPrefix f s with
    | none => rfl
    | some r =>
      obtain ⟨m, hs, hfm⟩ := (matchPrefix_eq_some f s r).1 hm
      rw [h m r hs] at hfm; cases hfm

/-- what `findLeftmost` returns is the remainder after some occurrence -/
theorem findLeftmost_sound (f : List GItem) : ∀ (s r : List Nat), findLeftmost f s = some r →
    ∃ p m, s = p ++ (m ++ r) ∧ fixedMatches f m = true
  | [], r, h => by
    unfold findLeftmost at h
    obtain ⟨m, hs, hm⟩ := (matchPrefix_eq_some f [] r).1 h
    exact ⟨[], m, hs, hm⟩
  | x :: xs, r, h => by
    unfold findLeftmost at h
    split at h
    · rename_i r' hp
      cases h
      obtain ⟨m, hs, hm⟩ := (matchPrefix_eq_some f _ _).1 hp
      exact ⟨[], m, hs, hm⟩
    · obtain ⟨p, m, hs, hm⟩ := findLeftmost_sound f xs r h
      exact ⟨x :: p, m, by simp [hs], hm⟩

/-- if there is any occurrence, `findLeftmost` succeeds, and its remainder contains the
    remainder of that occurrence as a suffix -/
theorem findLeftmost_complete (f : List GItem) : ∀ (p m r' : List Nat), fixedMatches f m = true →
    ∃ q, findLeftmost f (p ++ (m ++ r')) = some (q ++ r')
  | [], m, r', hm => by
    have hp : matchPrefix f (m ++ r') = some r' := (matchPrefix_eq_some f _ _).2 ⟨m, rfl, hm⟩
    refine ⟨[], ?_⟩
    cases hs : m ++ r' with
    | nil =>
      rw [hs] at hp
      simpa [findLeftmost] using hp
    | cons y ys =>
      rw [hs] at hp
      simp [findLeftmost, hp]
  | x :: p, m, r', hm => by
    obtain ⟨q, hq⟩ := findLeftmost_complete f p m r' hm
    rw [List.cons_append]
    unfold findLeftmost
    split
    · rename_i r hp
      obtain ⟨m', hs, hm'⟩ := (matchPrefix_eq_some f _ _).1 hp
      -- `r` is a suffix of `x :: (p ++ (m ++ r'))` at least as long as `m ++ r'`
      have hlen : m'.length = m.length := by
        rw [← fixedMatches_length hm', ← fixedMatches_length hm]
      have hl := congrArg List.length hs
      simp only [List.length_cons, List.length_append] at hl
      refine ⟨r.take (r.length - r'.length), ?_⟩
      have hr : r = (x :: (p ++ (m ++ r'))).drop m'.length := by
        rw [hs]; simp
      have hr' : r' = (x :: (p ++ (m ++ r'))).drop (1 + p.length + m.length) := by
        rw [← List.cons_append, ← List.append_assoc]
        rw [List.drop_left' (by simp; omega)]
      have : r' = r.drop (r.length - r'.length) := by
        conv => lhs; rw [hr']
        rw [hr, List.drop_drop]
        congr 1
        simp only [List.length_drop, List.length_cons, List.length_append]
        omega
      conv => rhs; rhs; rhs; rw [this]
      simp
    · exact ⟨q, hq⟩

/-! ### segments -/

/-- inverse of `segments`: put a star between consecutive segments -/
def join : List (List GItem) → List GItem
  | [] => []
  | [a] => a
  | a :: c :: rest => a ++ GItem.star :: join (c :: rest)

theorem join_cons_cons (i : GItem) (s : List GItem) (ss : List (List GItem)) :
    join ((i :: s) :: ss) = i :: join (s :: ss) := by
  cases ss <;> simp [join]

theorem segments_ne_nil (items : List GItem) : segments items ≠ [] := by
  cases items with
  | nil => simp [segments]
  | cons i rest =>
    cases i <;> (simp only [segments]; try split) <;> simp

theorem segments_spec (items : List GItem) :
    join (segments items) = items ∧ ∀ seg ∈ segments items, StarFree seg := by
  induction items with
  | nil => simp [segments, join, StarFree]
  | cons i rest ih =>
    by_cases hi : i = .star
    · subst hi
      obtain ⟨hj, hs⟩ := ih
      constructor
      · simp only [segments]
        cases hseg : segments rest with
        | nil => exact absurd hseg (segments_ne_nil rest)
        | cons a as => rw [hseg] at hj; simp [join, hj]
      · intro seg hseg
        simp only [segments, List.mem_cons] at hseg
        rcases hseg with rfl | hseg
        · intro j hj; cases hj
        · exact hs seg hseg
    · have hseg : segments (i :: rest) = match segments rest with
          | [] => [[i]]
          | s :: ss => (i :: s) :: ss := by
        cases i <;> first | exact absurd rfl hi | rfl
      rw [hseg]
      cases hr : segments rest with
      | nil => exact absurd hr (segments_ne_nil rest)
      | cons s ss =>
        rw [hr] at ih
        obtain ⟨hj, hs⟩ := ih
        constructor
        · simp only [join_cons_cons, hj]
        · intro seg hmem
          simp only [List.mem_cons] at hmem
          rcases hmem with rfl | hmem
          · intro j hj'
            simp only [List.mem_cons] at hj'
            rcases hj' with rfl | hj'
            · exact hi
            · exact hs s (by simp) j hj'
          · exact hs seg (by simp [hmem])

/-! ### the greedy tail -/

theorem matchTail_correct : ∀ (segs : List (List GItem)), segs ≠ [] → (∀ seg ∈ segs, StarFree seg) →
    ∀ s, matchTail segs s = true ↔ Matches (.star :: join segs) s
  | [], h, _, _ => absurd rfl h
  | [last], _, hsf, s => by
    have hl : StarFree last := hsf last (by simp)
    simp only [matchTail, join, Bool.and_eq_true, decide_eq_true_eq]
    rw [matches_star_iff]
    constructor
    · rintro ⟨hlen, hm⟩
      exact ⟨s.take (s.length - last.length), s.drop (s.length - last.length),
        (List.take_append_drop _ _).symm, (matches_fixed_iff hl _).2 hm⟩
    · rintro ⟨p, t, rfl, hm⟩
      have hm' := (matches_fixed_iff hl _).1 hm
      have hlen := fixedMatches_length hm'
      refine ⟨by simp [hlen], ?_⟩
      have : (p ++ t).length - last.length = p.length := by simp [hlen]
      rw [this, List.drop_left]; exact hm'
  | seg :: c :: rest, _, hsf, s => by
    have hseg : StarFree seg := hsf seg (by simp)
    have ih := matchTail_correct (c :: rest) (by simp) (fun x hx => hsf x (by simp [hx]))
    have hstep : matchTail (seg :: c :: rest) s =
        match findLeftmost seg s with
        | some r => matchTail (c :: rest) r
        | none => false := by
      rw [matchTail]
      · cases findLeftmost seg s <;> rfl
      · simp
    rw [hstep]
    simp only [join]
    constructor
    · intro h
      split at h
      · rename_i r hr
        obtain ⟨p, m, rfl, hm⟩ := findLeftmost_sound seg s r hr
        have h1 : Matches (seg ++ GItem.star :: join (c :: rest)) (m ++ r) :=
          (matches_fixed_append hseg _ _).2 ⟨m, r, rfl, hm, (ih r).1 h⟩
        exact matches_star_prepend p (.star_skip h1)
      · cases h
    · intro h
      obtain ⟨p, t, rfl, ht⟩ := (matches_star_iff _ _).1 h
      obtain ⟨m, r', rfl, hm, hr'⟩ := (matches_fixed_append hseg _ _).1 ht
      obtain ⟨q, hq⟩ := findLeftmost_complete seg p m r' hm
      rw [hq]
      exact (ih _).2 (matches_star_prepend q hr')

theorem greedy_correct (first : List GItem) (more : List (List GItem))
    (hsf : ∀ seg ∈ first :: more, StarFree seg) (s : List Nat) :
    (match matchPrefix first s with
       | some r => matchTail more r
       | none => false) = true ↔ Matches (join (first :: more)) s := by
  have hfirst : StarFree first := hsf first (by simp)
  cases more with
  | nil =>
    simp only [join]
    rw [matches_fixed_iff hfirst]
    constructor
    · intro h
      split at h
      · rename_i r hr
        obtain ⟨m, rfl, hm⟩ := (matchPrefix_eq_some _ _ _).1 hr
        simp only [matchTail, decide_eq_true_eq] at h
        subst h; simpa using hm
      · cases h
    · intro h
      have : matchPrefix first s = some [] := (matchPrefix_eq_some _ _ _).2 ⟨s, by simp, h⟩
      rw [this]; simp [matchTail]
  | cons c rest =>
    have ih := matchTail_correct (c :: rest) (by simp) (fun x hx => hsf x (by simp [hx]))
    simp only [join]
    rw [matches_fixed_append hfirst]
    constructor
    · intro h
      split at h
      · rename_i r hr
        obtain ⟨m, rfl, hm⟩ := (matchPrefix_eq_some _ _ _).1 hr
        exact ⟨m, r, rfl, hm, (ih r).1 h⟩
      · cases h
    · rintro ⟨m, r, rfl, hm, hr⟩
      have : matchPrefix first (m ++ r) = some r := (matchPrefix_eq_some _ _ _).2 ⟨m, rfl, hm⟩
      rw [this]; exact (ih r).2 hr

/-- The greedy strategy decides `Matches`. (`hns` is what `parse` guarantees; the argument does
    not need it: an empty interior segment is found immediately by `findLeftmost`.) -/
theorem glob_correct (items : List GItem) (s : List Nat)
    (_hns : ∀ i, i + 1 < items.length → ¬ (items[i]? = some GItem.star ∧ items[i+1]? = some GItem.star)) :
    (match segments items with
     | [] => false
     | first :: more => match matchPrefix first s with
       | some r => matchTail more r
       | none => false) = true ↔ Matches items s := by
  obtain ⟨hj, hsf⟩ := segments_spec items
  cases hseg : segments items with
  | nil => exact absurd hseg (segments_ne_nil items)
  | cons first more =>
    rw [hseg] at hj hsf
    have := greedy_correct first more hsf s
    rw [hj] at this
    exact this

/-! ### `parse` -/

/-- no two adjacent stars -/
def NoSS (l : List GItem) : Prop := ∀ i, ¬ (l[i]? = some GItem.star ∧ l[i+1]? = some GItem.star)

theorem noSS_snoc {acc : List GItem} {x : GItem} (h : NoSS acc)
    (hx : x ≠ .star ∨ acc.getLast? ≠ some .star) : NoSS (acc ++ [x]) := by
  intro i ⟨h1, h2⟩
  by_cases hlt : i + 1 < acc.length
  · rw [List.getElem?_append_left hlt] at h2
    rw [List.getElem?_append_left (by omega)] at h1
    exact h i ⟨h1, h2⟩
  · by_cases heq : i + 1 = acc.length
    · rw [List.getElem?_append_left (by omega)] at h1
      rw [List.getElem?_append_right (by omega)] at h2
      have : x = .star := by
        rw [heq] at h2; simpa using h2
      rcases hx with hx | hx
      · exact hx this
      · apply hx
        rw [List.getLast?_eq_getElem?]
        have : acc.length - 1 = i := by omega
        rw [this]; exact h1
    · rw [List.getElem?_append_right (by omega)] at h2
      have : i + 1 - acc.length ≥ 1 := by omega
      rw [List.getElem?_eq_none (by simp; omega)] at h2
      cases h2

theorem classItem_ne_star (stuff : Cps) : classItem stuff ≠ .star := by
  unfold classItem
  split
  · split <;> simp
  · simp only []
    split
    · simp
    · split
      · simp
      · split <;> simp

theorem parseAux_noSS : ∀ (fuel : Nat) (pat : Cps) (acc : List GItem), NoSS acc → NoSS (parseAux fuel pat acc)
  | 0, _, _, h => by simpa [parseAux] using h
  | _+1, [], _, h => by simpa [parseAux] using h
  | fuel+1, c :: rest, acc, h => by
    unfold parseAux
    split
    · apply parseAux_noSS
      split
      · exact h
      · rename_i hne
        exact noSS_snoc h (.inr hne)
    · split
      · exact parseAux_noSS _ _ _ (noSS_snoc h (.inl (by simp)))
      · split
        · split
          · exact parseAux_noSS _ _ _ (noSS_snoc h (.inl (by simp)))
          · exact parseAux_noSS _ _ _ (noSS_snoc h (.inl (classItem_ne_star _)))
        · exact parseAux_noSS _ _ _ (noSS_snoc h (.inl (by simp)))

theorem parse_no_double_star (pat : Cps) :
    ∀ i, i + 1 < (parse pat).length → ¬ ((parse pat)[i]? = some GItem.star ∧ (parse pat)[i+1]? = some GItem.star) := by
  intro i _
  exact parseAux_noSS _ _ _ (by intro i; simp) i

theorem globMatch_iff (pat name : Cps) : globMatch pat name = true ↔ Matches (parse pat) name := by
  unfold globMatch
  exact glob_correct (parse pat) name (parse_no_double_star pat)

theorem rm_subject (pattern loc : Bytes) (h : pattern ≠ []) :
    rmMatches pattern loc = some (globMatch (decodeSE pattern)
      (decodeSE (if pattern.head? = some slash then loc else basename loc))) := by
  unfold rmMatches
  rw [if_neg h]

/-! ### literal patterns -/

theorem parseAux_literal : ∀ (fuel : Nat) (pat : Cps) (acc : List GItem),
    pat.length ≤ fuel → (∀ c ∈ pat, c ≠ 42 ∧ c ≠ 63 ∧ c ≠ 91) →
    parseAux fuel pat acc = acc ++ pat.map GItem.lit
  | 0, [], _, _, _ => by simp [parseAux]
  | _+1, [], _, _, _ => by simp [parseAux]
  | 0, _ :: _, _, hl, _ => by simp at hl
  | fuel+1, c :: rest, acc, hl, h => by
    have hc := h c (by simp)
    unfold parseAux
    rw [if_neg hc.1, if_neg hc.2.1, if_neg hc.2.2]
    rw [parseAux_literal fuel rest _ (by simpa using hl) (fun d hd => h d (by simp [hd]))]
    simp

theorem matches_literal : ∀ (pat name : Cps), Matches (pat.map GItem.lit) name ↔ name = pat
  | [], name => by simpa using matches_nil_iff name
  | c :: pat, name => by
    rw [List.map_cons, matches_cons_iff (by simp)]
    constructor
    · rintro ⟨x, s', rfl, hx, hm⟩
      have := (matches_literal pat s').1 hm
      simp only [itemMatches, decide_eq_true_eq] at hx
      rw [this, hx]
    · rintro rfl
      exact ⟨c, pat, rfl, by simp [itemMatches], (matches_literal pat pat).2 rfl⟩

theorem literal_pattern (pat name : Cps) (h : ∀ c ∈ pat, c ≠ 42 ∧ c ≠ 63 ∧ c ≠ 91) :
    globMatch pat name = true ↔ name = pat := by
  rw [globMatch_iff]
  unfold parse
  rw [parseAux_literal _ _ _ (by omega) h]
  simpa using matches_literal pat name

end TrashVerif.Proofs.C12
