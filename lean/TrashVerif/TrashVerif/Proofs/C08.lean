/-
  Proofs/C08.lean — proofs of the statements of Props/C08.lean
  (an insecure `$topdir/.Trash` is never used).
-/
import TrashVerif.Model.Cmds
import TrashVerif.Proofs.C17Lemmas
namespace TrashVerif.Proofs.C08
open TrashVerif Prog FS
open TrashVerif.Proofs.C17 (run_bind run_read_bind run_pure)

/-! ### `stat` succeeded ⇒ `lstat` succeeds -/

/-- A successful walk that follows a final symlink and ends on an existing node stays successful
    when the final symlink is not followed (it then ends on the symlink itself, which exists). -/
theorem walk_true_false (fs : FS) (fuel : Nat) :
    ∀ (cs : List Bytes) (cur p : CPath), walk fs true fuel cur cs = .ok p → (fs.get p).isSome = true →
      ∃ q, walk fs false fuel cur cs = .ok q ∧ (fs.get q).isSome = true := by
  induction fuel using Nat.strongRecOn with
  | _ fuel IH =>
  intro cs
  induction cs with
  | nil =>
    intro cur p h hp
    rw [walk] at h ⊢
    cases h
    exact ⟨cur, rfl, hp⟩
  | cons c rest ih =>
    intro cur p h hp
    rw [walk] at h ⊢
    cases hg : fs.get cur with
    | none => rw [hg] at h; cases h
    | some n =>
      rw [hg] at h
      cases n with
      | file d m t => cases h
      | link t => cases h
      | dir m t =>
        simp only at h ⊢
        by_cases h1 : c = [] ∨ c = [dot]
        · rw [if_pos h1] at h ⊢; exact ih _ _ h hp
        · rw [if_neg h1] at h ⊢
          by_cases h2 : c = dotdot
          · rw [if_pos h2] at h ⊢; exact ih _ _ h hp
          · rw [if_neg h2] at h ⊢
            by_cases h3 : c.length > nameMax
            · rw [if_pos h3] at h; cases h
            · rw [if_neg h3] at h ⊢
              cases hc : fs.get (cur ++ [c]) with
              | none =>
                rw [hc] at h
                simp only at h ⊢
                split at h
                · cases h; rw [hc] at hp; cases hp
                · cases h
              | some nc =>
                rw [hc] at h
                cases nc with
                | file d' m' t' => exact ih _ _ h hp
                | dir m' t' => exact ih _ _ h hp
                | link tgt =>
                  simp only at h ⊢
                  by_cases hr : rest ≠ []
                  · rw [if_pos (Or.inl hr)] at h ⊢
                    cases fuel with
                    | zero => cases h
                    | succ f =>
                      simp only at h ⊢
                      by_cases ht : tgt = []
                      · rw [if_pos ht] at h; cases h
                      · rw [if_neg ht] at h ⊢
                        exact IH f (Nat.lt_succ_self f) _ _ _ h hp
                  · have : ¬ (rest ≠ [] ∨ false = true) := by simp [hr]
                    rw [if_neg this]
                    exact ⟨_, rfl, by rw [hc]; rfl⟩

theorem lstat_of_stat (fs : FS) (cwd : CPath) (path : Bytes) (h : (stat fs cwd path).isSome = true) :
    (lstat fs cwd path).isSome = true := by
  unfold stat at h
  unfold lstat
  unfold resolve at h ⊢
  by_cases hp : path = []
  · rw [if_pos hp] at h; cases h
  · rw [if_neg hp] at h ⊢
    by_cases htr : path.getLast? = some slash ∧ ¬ (path.all (· = slash)) = true
    · -- a trailing slash makes both walks follow the last symlink
      have e : (false || decide (path.getLast? = some slash ∧ ¬ (path.all (· = slash)) = true)) =
          (true || decide (path.getLast? = some slash ∧ ¬ (path.all (· = slash)) = true)) := by
        simp [htr]
      simp only [e]
      exact h
    · simp only [htr, decide_false, Bool.or_false, if_false] at h ⊢
      cases hw : walk fs true linkFuel (if isAbs path = true then [] else cwd) (comps path) with
      | error e => rw [hw] at h; cases h
      | ok p =>
        rw [hw] at h
        simp only at h
        obtain ⟨q, hq, hq'⟩ := walk_true_false fs linkFuel _ _ _ hw h
        rw [hq]
        exact hq'

theorem pLexists_of_pIsdir (fs : FS) (cwd : CPath) (path : Bytes) (h : pIsdir fs cwd path = true) :
    pLexists fs cwd path = true := by
  apply lstat_of_stat
  unfold pIsdir at h
  cases hs : stat fs cwd path with
  | none => rw [hs] at h; cases h
  | some n => rfl

/-! ### trash-put -/

theorem put_rejects_insecure (fs : FS) (cwd : CPath) (cand : Candidate) (ht : cand.topCheck = true)
    (hi : pIslink fs cwd (dirname cand.path) = true ∨ pIsdir fs cwd (dirname cand.path) = false ∨
          pSticky fs cwd (dirname cand.path) ≠ some true) : securityCheck fs cwd cand ≠ none := by
  unfold securityCheck
  simp only [ht, not_true_eq_false, if_false]
  by_cases h0 : pLexists fs cwd (dirname cand.path) = true
  · by_cases h1 : pIsdir fs cwd (dirname cand.path) = true
    · by_cases h2 : pIslink fs cwd (dirname cand.path) = true
      · simp [h0, h1, h2]
      · by_cases h3 : pSticky fs cwd (dirname cand.path) = some true
        · rcases hi with hi | hi | hi
          · exact absurd hi h2
          · rw [h1] at hi; cases hi
          · exact absurd h3 hi
        · simp [h0, h1, h2, h3]
    · simp [h0, h1]
  · simp [h0]

theorem put_accepts_secure (fs : FS) (cwd : CPath) (cand : Candidate)
    (hs : pIslink fs cwd (dirname cand.path) = false ∧ pIsdir fs cwd (dirname cand.path) = true ∧
          pSticky fs cwd (dirname cand.path) = some true) : securityCheck fs cwd cand = none := by
  obtain ⟨h1, h2, h3⟩ := hs
  have h0 := pLexists_of_pIsdir fs cwd _ h2
  unfold securityCheck
  simp [h0, h1, h2, h3]

/-! ### the scanners -/

theorem valid_iff (fs : FS) (cwd : CPath) (path : Bytes) :
    validToBeRead fs cwd path = .valid ↔
      pExists fs cwd path = true ∧ pIsdir fs cwd (dirname path) = true ∧
      pSticky fs cwd (dirname path) = some true ∧ pIslink fs cwd (dirname path) = false := by
  unfold validToBeRead
  by_cases h0 : pExists fs cwd path = true
  · by_cases h1 : pIsdir fs cwd (dirname path) = true
    · by_cases h2 : pSticky fs cwd (dirname path) = some true
      · by_cases h3 : pIslink fs cwd (dirname path) = true <;> simp [h0, h1, h2, h3]
      · simp [h0, h1, h2]
    · simp [h0, h1]
  · simp [h0]

theorem valid_not_insecure (fs : FS) (cwd : CPath) (path : Bytes)
    (hi : pIslink fs cwd (dirname path) = true ∨ pIsdir fs cwd (dirname path) = false ∨
          pSticky fs cwd (dirname path) ≠ some true) : validToBeRead fs cwd path ≠ .valid := by
  intro hv
  obtain ⟨_, h1, h2, h3⟩ := (valid_iff fs cwd path).1 hv
  rcases hi with hi | hi | hi
  · rw [h3] at hi; cases hi
  · rw [h1] at hi; cases hi
  · exact hi h2

theorem scan_skips_insecure (fs : FS) (c : ReadCfg) (v : Bytes)
    (hi : pIslink fs c.cwd (dirname (pjoin (pjoin v (b ".Trash")) (Bytes.ofNat c.uid))) = true ∨
          pIsdir fs c.cwd (dirname (pjoin (pjoin v (b ".Trash")) (Bytes.ofNat c.uid))) = false ∨
          pSticky fs c.cwd (dirname (pjoin (pjoin v (b ".Trash")) (Bytes.ofNat c.uid))) ≠ some true) :
    validToBeRead fs c.cwd (pjoin (pjoin v (b ".Trash")) (Bytes.ofNat c.uid)) ≠ .valid :=
  valid_not_insecure fs c.cwd _ hi

theorem scan_found_only_valid (fs : FS) (c : ReadCfg) (p v : Bytes) (h : ScanEvent.found p v ∈ scanTrashDirs fs c) :
    (p ∈ homeTrashPaths c.env ∧ v = [slash]) ∨
    (v ∈ listVolumes c ∧ p = pjoin v (b ".Trash-" ++ Bytes.ofNat c.uid) ∧ pIsdir fs c.cwd p = true) ∨
    (v ∈ listVolumes c ∧ p = pjoin (pjoin v (b ".Trash")) (Bytes.ofNat c.uid) ∧ validToBeRead fs c.cwd p = .valid) := by
  unfold scanTrashDirs at h
  simp only [List.mem_append, List.mem_map, List.mem_flatMap] at h
  rcases h with ⟨p', hp', he⟩ | ⟨v', hv', h⟩
  · cases he
    exact .inl ⟨hp', rfl⟩
  · rcases h with h | h
    · cases hvr : validToBeRead fs c.cwd (pjoin (pjoin v' (b ".Trash")) (Bytes.ofNat c.uid)) <;>
        rw [hvr] at h <;> simp only [List.mem_singleton, List.not_mem_nil, reduceCtorEq] at h
      cases h
      exact .inr (.inr ⟨hv', rfl, hvr⟩)
    · split at h
      · next hd =>
        simp only [List.mem_singleton] at h
        cases h
        exact .inr (.inl ⟨hv', rfl, hd⟩)
      · cases h

theorem restore_found_only_valid (fs : FS) (c : ReadCfg) (p v : Bytes) (h : (p, v) ∈ restoreTrashDirs fs c none) :
    (p ∈ homeTrashPaths c.env ∧ v = [slash]) ∨
    (v ∈ c.mountPoints ∧ p = pjoin v (b ".Trash-" ++ Bytes.ofNat c.uid)) ∨
    (v ∈ c.mountPoints ∧ p = pjoin v (b ".Trash/" ++ Bytes.ofNat c.uid) ∧ validToBeRead fs c.cwd p = .valid) := by
  unfold restoreTrashDirs at h
  simp only [ne_eq, not_true_eq_false, if_false, List.mem_append, List.mem_map, List.mem_flatMap] at h
  rcases h with ⟨p', hp', he⟩ | ⟨v', hv', h⟩
  · cases he
    exact .inl ⟨hp', rfl⟩
  · rcases h with h | h
    · split at h
      · next hd =>
        simp only [List.mem_singleton] at h
        cases h
        exact .inr (.inr ⟨hv', rfl, hd⟩)
      · cases h
    · simp only [List.mem_singleton] at h
      cases h
      exact .inr (.inl ⟨hv', rfl⟩)

/-! ### trash-list reports what the scanner skipped -/

theorem run_say (φ : Oracle) (o : Out) (s : RunState) :
    run φ (say o) s = ((), { s with outs := o :: s.outs }) := rfl

theorem emitAll_outs (φ : Oracle) (os : List Out) (s : RunState) :
    ∀ o ∈ s.outs, o ∈ (run φ (emitAll os) s).2.outs := by
  induction os generalizing s with
  | nil => intro o ho; exact ho
  | cons x xs ih =>
    intro o ho
    rw [emitAll, run_bind, run_say]
    exact ih _ o (List.mem_cons_of_mem _ ho)

theorem listEvents_outs (φ : Oracle) (cwd : CPath) (evs : List ScanEvent) (s : RunState) :
    (∀ o ∈ s.outs, o ∈ (run φ (listEvents cwd evs) s).2.outs) ∧
    ((run φ (listEvents cwd evs) s).1 = none →
      ∀ p, (ScanEvent.skippedNotSticky p ∈ evs → Out.stderr "skipped-not-sticky" p ∈ (run φ (listEvents cwd evs) s).2.outs) ∧
           (ScanEvent.skippedSymlink p ∈ evs → Out.stderr "skipped-symlink" p ∈ (run φ (listEvents cwd evs) s).2.outs)) := by
  induction evs generalizing s with
  | nil =>
    refine ⟨fun o ho => ho, fun _ p => ⟨fun h => ?_, fun h => ?_⟩⟩ <;> cases h
  | cons ev rest ih =>
    cases ev with
    | skippedNotSticky q =>
      rw [listEvents, run_bind, run_say]
      obtain ⟨m1, m2⟩ := ih { s with outs := Out.stderr "skipped-not-sticky" q :: s.outs }
      refine ⟨fun o ho => m1 o (List.mem_cons_of_mem _ ho), fun hn p => ⟨fun h => ?_, fun h => ?_⟩⟩
      · rcases List.mem_cons.1 h with h | h
        · cases h; exact m1 _ List.mem_cons_self
        · exact (m2 hn p).1 h
      · rcases List.mem_cons.1 h with h | h
        · cases h
        · exact (m2 hn p).2 h
    | skippedSymlink q =>
      rw [listEvents, run_bind, run_say]
      obtain ⟨m1, m2⟩ := ih { s with outs := Out.stderr "skipped-symlink" q :: s.outs }
      refine ⟨fun o ho => m1 o (List.mem_cons_of_mem _ ho), fun hn p => ⟨fun h => ?_, fun h => ?_⟩⟩
      · rcases List.mem_cons.1 h with h | h
        · cases h
        · exact (m2 hn p).1 h
      · rcases List.mem_cons.1 h with h | h
        · cases h; exact m1 _ List.mem_cons_self
        · exact (m2 hn p).2 h
    | found q v =>
      rw [listEvents, run_read_bind]
      cases hi : infosOf s.fs cwd q with
      | error cr =>
        simp only [run_pure]
        refine ⟨fun o ho => ho, fun hn => ?_⟩
        cases hn
      | ok infos =>
        simp only [run_bind]
        have m0 := emitAll_outs φ (infos.map (listOne s.fs cwd v)) s
        obtain ⟨m1, m2⟩ := ih (run φ (emitAll (infos.map (listOne s.fs cwd v))) s).2
        refine ⟨fun o ho => m1 o (m0 o ho), fun hn p => ⟨fun h => ?_, fun h => ?_⟩⟩
        · rcases List.mem_cons.1 h with h | h
          · cases h
          · exact (m2 hn p).1 h
        · rcases List.mem_cons.1 h with h | h
          · cases h
          · exact (m2 hn p).2 h

theorem list_reports_skip (φ : Oracle) (c : ReadCfg) (s : RunState) (p : Bytes)
    (h : ScanEvent.skippedNotSticky p ∈ scanTrashDirs s.fs c ∨ ScanEvent.skippedSymlink p ∈ scanTrashDirs s.fs c) :
    let r := run φ (runList c []) s
    r.1.crash = none → (Out.stderr "skipped-not-sticky" p ∈ r.2.outs ∨ Out.stderr "skipped-symlink" p ∈ r.2.outs) := by
  intro r
  have hsel : selectTrashDirs s.fs c [] = scanTrashDirs s.fs c := by simp [selectTrashDirs]
  have hr : r = run φ (runList c []) s := rfl
  rw [runList, run_read_bind, run_bind, hsel] at hr
  obtain ⟨_, m2⟩ := listEvents_outs φ c.cwd (scanTrashDirs s.fs c) s
  cases hl : (run φ (listEvents c.cwd (scanTrashDirs s.fs c)) s).1 with
  | some cr =>
    rw [hl] at hr
    intro hc
    rw [hr] at hc
    simp [run_bind, run_say] at hc
  | none =>
    rw [hl] at hr
    intro _
    have hout : r.2.outs = (run φ (listEvents c.cwd (scanTrashDirs s.fs c)) s).2.outs := by rw [hr]; rfl
    rw [hout]
    rcases h with h | h
    · exact .inl ((m2 hl p).1 h)
    · exact .inr ((m2 hl p).2 h)

end TrashVerif.Proofs.C08
