/-
  Proofs/C18CmdVol.lean — proofs of the statements of Props/C18Cmd.lean about a symbolic link whose
  trash directory is yet to be made: the home trash on first use, `$topdir/.Trash-$uid` of the link's
  own volume.
-/
import TrashVerif.Proofs.C18Cmd
namespace TrashVerif.Proofs.C18CmdVol
open TrashVerif Prog FS PutCore PutLemmas C18Cmd C16Indep C07Cmd
open TrashVerif.Proofs.C07 (Plain GoodNames dev_snoc dev_self isMount_iff)
open TrashVerif.Proofs.C16IndepHome (locOf_eq)
open TrashVerif.Proofs.C07CmdCore (stem_base dev_fresh cons_eq_snoc)
open TrashVerif.Proofs.C18Cmd

/-- a first use (`SiteCreated`, then `Trashed`) when the entry is a link -/
theorem link_first_use {fs fs1 fs' : FS} {Q : CPath} {x : Name} {R src : CPath} {name content t : Bytes}
    (SC : SiteCreated fs fs1 Q x R)
    (T : Trashed fs1 fs' (infoOf (Q ++ x :: R)) (filesOf (Q ++ x :: R)) src name content)
    (hfresh : ∀ rel, fs.get (Q ++ x :: rel) = none) (L : IsLink fs src t) (hapart : ¬ src <+: Q) :
    fs'.get (filesOf (Q ++ x :: R) ++ [stemOf name]) = some (.link t) ∧
    (∀ z rel, fs'.get (filesOf (Q ++ x :: R) ++ [stemOf name] ++ z :: rel) = none) ∧
    fs'.get src = none ∧
    fs'.get (infoOf (Q ++ x :: R) ++ [name]) = some (.file content 0o600 0) ∧
    (∀ q, q ≠ src → ¬ Q ++ [x] <+: q → q ≠ Q → q ≠ FS.parent src → fs'.get q = fs.get q) ∧
    keptDir fs fs' Q ∧ keptDir fs fs' (FS.parent src) := by
  obtain ⟨_, _, _, _, whole, gone, info, frame, k1, k2⟩ :=
    Proofs.C07Cmd.first_use_final SC T hfresh (by rw [L.node]; rfl) hapart
  refine ⟨?_, ?_, ?_, info, ?_, k1, k2⟩
  · have := whole []
    simpa [L.node] using this
  · intro z rel
    rw [whole (z :: rel)]; exact L.leaf z rel
  · simpa using gone []
  · intro q h1 h2 h3 h4
    by_cases hS : src <+: q
    · obtain ⟨r, rfl⟩ := hS
      cases r with
      | nil => exact absurd (by simp) h1
      | cons z rel => rw [gone, L.leaf]
    · exact frame q hS h2 h3 h4

theorem not_mount_of_absent {fs : FS} (hm : MountsOk fs) {p : CPath} (h : fs.get p = none) : fs.isMount p = false := by
  cases hmm : fs.isMount p with
  | false => rfl
  | true =>
    have := hm.mountsExist p (isMount_iff.1 hmm)
    rw [h] at this; cases this

/-! ### first use of the home trash -/

theorem put_link_home_first_use {c : PutCfg} {fs : FS} {H Q : CPath} {x : Name} {R P : CPath} {n : Name} {t : Bytes}
    (C : HomeCfg c H) (hsplit : trashC H = Q ++ x :: R) (S : FreshSite fs Q x R) (A : Arg fs P n)
    (hm : MountsOk fs) (hvol : dev fs P = dev fs Q) (hapart : ¬ (P ++ [n]) <+: Q)
    (L : IsLink fs (P ++ [n]) t) (k : Nat) (hk : SlashOk fs c.cwd P n k) (st : PutSt) :
    let r := run noFaults (runPut c [spelled P n k] st) { fs := fs }
    let fs' := r.2.fs
    r.1.outcomes = [(spelled P n k, .trashed (homeStr H) (n ++ trashinfoExt))] ∧ r.1.crash = none ∧ r.1.exit = 0 ∧
    fs'.get (filesC H ++ [n]) = some (.link t) ∧ (∀ z rel, fs'.get (filesC H ++ [n] ++ z :: rel) = none) ∧
    fs'.get (P ++ [n]) = none ∧
    fs'.get (infoC H ++ [n ++ trashinfoExt]) = some (.file (formatTrashinfoWith (toStr (P ++ [n])) c.dateStr) 0o600 0) ∧
    (∀ q, q ≠ P ++ [n] → ¬ Q ++ [x] <+: q → q ≠ Q → q ≠ P → fs'.get q = fs.get q) ∧
    keptDir fs fs' Q ∧ keptDir fs fs' P ∧
    (∀ q, dev fs q ≠ dev fs P → fs'.get q = fs.get q) := by
  intro r fs'
  obtain ⟨o1, _, _, _, _, fs1, SC, T⟩ := Proofs.C07Cmd.home_first_use C hsplit S A hm hvol hapart st
  have hr : r = _ := runPut_spelled A.names C.noPrompt k hk st _ _ o1
  have hfs' : fs' = (run noFaults (runPut c [toStr (P ++ [n])] st) { fs := fs }).2.fs := by
    show r.2.fs = _
    rw [hr]
  rw [← hfs'] at T
  have e1 : infoC H = infoOf (Q ++ x :: R) := by unfold infoC infoOf; rw [hsplit]
  have e2 : filesC H = filesOf (Q ++ x :: R) := by unfold filesC filesOf; rw [hsplit]
  rw [e1, e2] at T
  obtain ⟨l1, l2, l3, l4, l5, l6, l7⟩ := link_first_use SC T S.fresh L hapart
  rw [stem_base] at l1 l2
  have hpar : FS.parent (P ++ [n]) = P := by simp [FS.parent]
  rw [hpar] at l5 l7
  rw [locOf_eq P n A.names] at l4
  refine ⟨by rw [hr], by rw [hr], by rw [hr], by rw [e2]; exact l1, by rw [e2]; exact l2, l3, by rw [e1]; exact l4,
    l5, l6, l7, fun q hq => l5 q ?_ ?_ ?_ ?_⟩
  · rintro rfl; exact hq (dev_snoc fs P n A.notMount)
  · rintro ⟨rest, rfl⟩
    apply hq
    rw [List.append_assoc, List.singleton_append, dev_fresh hm.mountsExist S.fresh, hvol]
  · rintro rfl; exact hq hvol.symm
  · rintro rfl; exact hq rfl

/-! ### a link that lives on another volume than the home trash -/

theorem put_link_other_volume {c : PutCfg} {fs : FS} {H Qh Rh V P' : CPath} {n : Name} {t : Bytes} (C : HomeCfg c H)
    (W : OtherVolume fs H Qh Rh V) (hm : MountsOk fs) (S : FreshSite fs V (altName c.uid) []) (A : Arg fs (V ++ P') n)
    (hon : dev fs (V ++ P') = V) (hu : GoodNames [uidName c.uid]) (hnoTop : fs.get (V ++ [b ".Trash"]) = none)
    (L : IsLink fs ((V ++ P') ++ [n]) t) (k : Nat) (hk : SlashOk fs c.cwd (V ++ P') n k) (st : PutSt) :
    let r := run noFaults (runPut c [spelled (V ++ P') n k] st) { fs := fs }
    let fs' := r.2.fs
    r.1.outcomes = [(spelled (V ++ P') n k, .trashed (toStr (V ++ [altName c.uid])) (n ++ trashinfoExt))] ∧
    r.1.crash = none ∧ r.1.exit = 0 ∧
    fs'.get (filesOf (V ++ [altName c.uid]) ++ [n]) = some (.link t) ∧
    (∀ z rel, fs'.get (filesOf (V ++ [altName c.uid]) ++ [n] ++ z :: rel) = none) ∧
    fs'.get ((V ++ P') ++ [n]) = none ∧
    fs'.get (infoOf (V ++ [altName c.uid]) ++ [n ++ trashinfoExt]) =
      some (.file (formatTrashinfoWith (relLoc P' n) c.dateStr) 0o600 0) ∧
    (∀ q, q ≠ (V ++ P') ++ [n] → ¬ V ++ [altName c.uid] <+: q → q ≠ V → q ≠ V ++ P' → fs'.get q = fs.get q) ∧
    keptDir fs fs' V ∧ keptDir fs fs' (V ++ P') ∧
    (∀ q, dev fs q ≠ V → fs'.get q = fs.get q) := by
  intro r fs'
  obtain ⟨o1, _, _, _, _, fs1, SC, T⟩ := Proofs.C07Cmd.other_volume_alt C W hm S A hon hu hnoTop st
  have hr : r = _ := runPut_spelled A.names C.noPrompt k hk st _ _ o1
  have hfs' : fs' = (run noFaults (runPut c [toStr ((V ++ P') ++ [n])] st) { fs := fs }).2.fs := by
    show r.2.fs = _
    rw [hr]
  rw [← hfs'] at T
  have hapart : ¬ ((V ++ P') ++ [n]) <+: V := fun h => by have := h.length_le; simp at this; omega
  obtain ⟨l1, l2, l3, l4, l5, l6, l7⟩ := link_first_use SC T S.fresh L hapart
  rw [stem_base] at l1 l2
  have hpar : FS.parent ((V ++ P') ++ [n]) = V ++ P' := by simp [FS.parent]
  rw [hpar] at l5 l7
  have hVdev : dev fs V = V := dev_self fs V W.volMount
  refine ⟨by rw [hr], by rw [hr], by rw [hr], l1, l2, l3, l4, l5, l6, l7, fun q hq => l5 q ?_ ?_ ?_ ?_⟩
  · rintro rfl; exact hq ((dev_snoc fs _ n A.notMount).trans hon)
  · rintro ⟨rest, rfl⟩
    apply hq
    rw [List.append_assoc, List.singleton_append, dev_fresh hm.mountsExist S.fresh, hVdev]
  · rintro rfl; exact hq hVdev
  · rintro rfl; exact hq hon

end TrashVerif.Proofs.C18CmdVol
