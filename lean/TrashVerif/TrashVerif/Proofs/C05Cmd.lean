/-
  Proofs/C05Cmd.lean — the crash states of a first use of a trash directory, for any run whose
  trace is `firstUseTrace` (proofs for Props/C05Cmd.lean).
-/
import TrashVerif.Proofs.C05CmdCore
import TrashVerif.Proofs.C03Cmd
namespace TrashVerif.Proofs.C05Cmd
open TrashVerif Prog FS PutCore PutLemmas C07Cmd C05Cmd
open TrashVerif.Proofs.C07CmdCore TrashVerif.Proofs.C05CmdCore

/-! ### the `mkdir` phase keeps `DirsOnly` -/

/-- the paths a first use makes directories at -/
def SitePath (Q : CPath) (x : Name) (R : CPath) (q : CPath) : Prop :=
  Q ++ [x] <+: q ∧ (q <+: Q ++ x :: R ∨ q = filesOf (Q ++ x :: R) ∨ q = infoOf (Q ++ x :: R))

theorem dirsOnly_init {fs : FS} {Q : CPath} {x : Name} {R : CPath} (hfresh : ∀ rel, fs.get (Q ++ x :: rel) = none) :
    DirsOnly fs fs Q x R := by
  refine ⟨fun _ _ _ => rfl, fun m t h => ⟨t, h⟩, fun q hq => Or.inl ?_⟩
  obtain ⟨t, rfl⟩ := hq
  rw [List.append_assoc, List.singleton_append]; exact hfresh t

theorem touch_none_or_dir0 {o : Option Node} (h : o = none ∨ ∃ m, o = some (.dir m 0)) :
    touch o = none ∨ ∃ m, touch o = some (.dir m 0) := by
  rcases h with rfl | ⟨m, rfl⟩
  · exact Or.inl rfl
  · exact Or.inr ⟨m, rfl⟩

theorem dirsOnly_step {fs s : FS} {Q : CPath} {x : Name} {R : CPath} (D : DirsOnly fs s Q x R) (p : CPath) (mode : Nat)
    (hp : SitePath Q x R p) (hpar : parent p = Q ∨ SitePath Q x R (parent p)) :
    DirsOnly fs (stepFS s (.mkdir p mode)) Q x R := by
  unfold stepFS
  cases happ : (Call.mkdir p mode).apply s with
  | error e => exact D
  | ok s' =>
    have hs' : s' = mk1 s p mode := mkdir_ok_eq happ
    subst hs'
    have hp0 : p ≠ [] := by
      intro e; have := hp.1.length_le; rw [e] at this; simp at this
    obtain ⟨c, y, rfl⟩ := C07.exists_snoc hp0
    simp only [parent, List.dropLast_concat] at hpar
    have hQp : Q ≠ c ++ [y] := by
      intro e
      have := hp.1.length_le
      rw [← e] at this; simp at this; omega
    have hcQ : c ≠ Q → Q ++ [x] <+: c := fun h => by
      rcases hpar with h' | h'
      · exact absurd h' h
      · exact h'.1
    refine ⟨?_, ?_, ?_⟩
    · intro q h1 h2
      have n1 : q ≠ c ++ [y] := fun e => h2 (e ▸ hp.1)
      have n2 : q ≠ c := by
        intro e; subst e
        exact h2 (hcQ h1)
      rw [mk1_get, if_neg n1, if_neg n2]
      exact D.frame q h1 h2
    · intro m t hQ
      obtain ⟨t', ht'⟩ := D.base m t hQ
      rw [mk1_get, if_neg hQp]
      by_cases hc : Q = c
      · subst hc
        rw [if_pos rfl, ht']; exact ⟨0, rfl⟩
      · rw [if_neg hc]; exact ⟨t', ht'⟩
    · intro q hq
      rw [mk1_get]
      by_cases h1 : q = c ++ [y]
      · rw [if_pos h1]; exact Or.inr ⟨h1 ▸ hp.2, _, rfl⟩
      · rw [if_neg h1]
        by_cases h2 : q = c
        · subst h2
          rw [if_pos rfl]
          rcases D.below q hq with h | ⟨hs, m, h⟩
          · left; rw [h]; rfl
          · right; exact ⟨hs, m, by rw [h]; rfl⟩
        · rw [if_neg h2]; exact D.below q hq

/-- a list of `mkdir`s at site paths -/
def SiteCalls (Q : CPath) (x : Name) (R : CPath) (cs : List Call) : Prop :=
  ∀ c ∈ cs, ∃ p mode, c = Call.mkdir p mode ∧ SitePath Q x R p ∧ (parent p = Q ∨ SitePath Q x R (parent p))

theorem dirsOnly_after {fs : FS} {Q : CPath} {x : Name} {R : CPath} (h0 : DirsOnly fs fs Q x R) :
    ∀ cs, SiteCalls Q x R cs → DirsOnly fs (after fs cs) Q x R := by
  intro cs
  induction cs with
  | nil => intro _; exact h0
  | cons c older ih =>
    intro h
    obtain ⟨p, mode, rfl, h1, h2⟩ := h c List.mem_cons_self
    exact dirsOnly_step (ih fun d hd => h d (List.mem_cons_of_mem _ hd)) p mode h1 h2

theorem dirsOnly_hist {fs : FS} {Q : CPath} {x : Name} {R : CPath} (h0 : DirsOnly fs fs Q x R) :
    ∀ cs, SiteCalls Q x R cs → ∀ s ∈ histOf fs cs, DirsOnly fs s Q x R := by
  intro cs
  induction cs with
  | nil => intro _ s hs; cases hs
  | cons c older ih =>
    intro h s hs
    have hold : SiteCalls Q x R older := fun d hd => h d (List.mem_cons_of_mem _ hd)
    rcases List.mem_cons.1 hs with rfl | hs
    · exact dirsOnly_after h0 older hold
    · exact ih hold s hs

theorem sitePath_chain (Q : CPath) (x : Name) {R rest : CPath} (h : rest <+: R) : SitePath Q x R (Q ++ x :: rest) := by
  refine ⟨by rw [cons_eq_snoc Q x rest]; exact List.prefix_append _ _, Or.inl ?_⟩
  obtain ⟨t, rfl⟩ := h
  exact ⟨t, by simp⟩

theorem parent_chain (Q : CPath) (x : Name) {R rest : CPath} (h : rest <+: R) :
    parent (Q ++ x :: rest) = Q ∨ SitePath Q x R (parent (Q ++ x :: rest)) := by
  rcases List.eq_nil_or_concat rest with rfl | ⟨r', y, rfl⟩
  · left; simp [parent]
  · right
    have e : Q ++ x :: (r' ++ [y]) = (Q ++ x :: r') ++ [y] := by simp
    rw [List.concat_eq_append, e, parent, List.dropLast_concat]
    exact sitePath_chain Q x ((List.prefix_append r' [y]).trans (List.concat_eq_append ▸ h))

theorem siteCalls_all (Q : CPath) (x : Name) (R : CPath) :
    SiteCalls Q x R (Call.mkdir (infoOf (Q ++ x :: R)) 0o700 :: Call.mkdir (filesOf (Q ++ x :: R)) 0o700 ::
      Call.mkdir (Q ++ x :: R) 0o700 :: (ancestorCalls Q x R).map (·.1)) := by
  have hT : SitePath Q x R (Q ++ x :: R) := sitePath_chain Q x List.prefix_rfl
  intro c hc
  simp only [List.mem_cons, List.mem_map] at hc
  rcases hc with rfl | rfl | rfl | ⟨cr, hcr, rfl⟩
  · refine ⟨_, _, rfl, ⟨hT.1.trans (List.prefix_append _ _), Or.inr (Or.inr rfl)⟩, Or.inr ?_⟩
    simp only [infoOf, parent, List.dropLast_concat]; exact hT
  · refine ⟨_, _, rfl, ⟨hT.1.trans (List.prefix_append _ _), Or.inr (Or.inl rfl)⟩, Or.inr ?_⟩
    simp only [filesOf, parent, List.dropLast_concat]; exact hT
  · exact ⟨_, _, rfl, hT, parent_chain Q x List.prefix_rfl⟩
  · unfold ancestorCalls at hcr
    simp only [List.mem_map, List.mem_reverse, List.mem_range] at hcr
    obtain ⟨k, _, rfl⟩ := hcr
    exact ⟨_, _, rfl, sitePath_chain Q x (List.take_prefix k R), parent_chain Q x (List.take_prefix k R)⟩

/-! ### the list of crash states of a first use -/

theorem histOf_length (fs : FS) (cs : List Call) : (histOf fs cs).length = cs.length := by
  induction cs with
  | nil => rfl
  | cons c cs ih => simp [histOf, ih]

theorem histOf_getLast (fs : FS) (cs : List Call) (h : cs ≠ []) : (histOf fs cs).getLast? = some fs := by
  induction cs with
  | nil => exact absurd rfl h
  | cons c older ih =>
    cases older with
    | nil => rfl
    | cons d ds =>
      have hne : histOf fs (d :: ds) ≠ [] := by simp [histOf]
      show (after fs (d :: ds) :: histOf fs (d :: ds)).getLast? = _
      rw [List.getLast?_cons_of_ne_nil hne]  
      exact ih (by simp)

theorem callsOf_firstUse (Q : CPath) (x : Name) (R src : CPath) (stem content : Bytes) :
    callsOf (firstUseTrace Q x R src stem content) = firstUseCalls Q x R src stem content := by
  unfold callsOf firstUseTrace firstUseCalls mkdirCalls ancestorCalls
  simp [List.map_reverse]

section firstUse
variable {α : Type} (prog : Prog α) {fs : FS} {Q : CPath} {x : Name} {R src : CPath} {stem content : Bytes}
  (S : FreshSite fs Q x R) (hsrc : (fs.get src).isSome = true) (hapart : ¬ src <+: Q)

include S hsrc in
theorem src_not_below' : ¬ Q ++ [x] <+: src := by
  rintro ⟨t, ht⟩
  rw [← ht, List.append_assoc, List.singleton_append, S.fresh] at hsrc
  cases hsrc

include S hsrc hapart in
theorem src_not_pfx' {rest : CPath} : ¬ src <+: Q ++ x :: rest := by
  intro h
  rcases pfx_split (S := x :: rest) h with h1 | ⟨k, k0, _, e⟩
  · exact hapart h1
  · obtain ⟨i, rfl⟩ : ∃ i, k = i + 1 := ⟨k - 1, by omega⟩
    rw [List.take_succ_cons] at e
    rw [e, S.fresh] at hsrc; cases hsrc

include S hsrc hapart in
/-- nothing at or below the entry is at or below `Q/x` -/
theorem src_rel_apart (rel : CPath) : src ++ rel ≠ Q ∧ ¬ Q ++ [x] <+: src ++ rel := by
  constructor
  · intro e; exact hapart (e ▸ List.prefix_append src rel)
  · intro h
    rcases pfx_comparable h (List.prefix_append src rel) with h1 | h1
    · exact src_not_below' S hsrc h1
    · exact src_not_pfx' S hsrc hapart (rest := []) h1

include S in
/-- The crash states of a run whose trace is `firstUseTrace`, decomposed. -/
theorem first_use_states
    (htr : (run noFaults prog { fs := fs }).2.trace = firstUseTrace Q x R src stem content)
    (hT : ∃ fs1, SiteCreated fs fs1 Q x R ∧
      Trashed fs1 (run noFaults prog { fs := fs }).2.fs (infoOf (Q ++ x :: R)) (filesOf (Q ++ x :: R)) src
        (stem ++ trashinfoExt) content) :
    ∃ dirs fs1,
      crashStates noFaults prog fs =
        dirs ++ [fs1, afterCreate fs1 (infoOf (Q ++ x :: R) ++ [stem ++ trashinfoExt]),
          afterWrite fs1 (infoOf (Q ++ x :: R) ++ [stem ++ trashinfoExt]) content,
          afterWrite fs1 (infoOf (Q ++ x :: R) ++ [stem ++ trashinfoExt]) content,
          (run noFaults prog { fs := fs }).2.fs] ∧
      dirs.length = R.length + 3 ∧ dirs.head? = some fs ∧
      (∀ s ∈ dirs, DirsOnly fs s Q x R) ∧ DirsOnly fs fs1 Q x R ∧ SiteCreated fs fs1 Q x R ∧
      Trashed fs1 (run noFaults prog { fs := fs }).2.fs (infoOf (Q ++ x :: R)) (filesOf (Q ++ x :: R)) src
        (stem ++ trashinfoExt) content := by
  have hcons := consistent_run prog fs
  have hfin := final_replay prog fs
  have hcs : crashStates noFaults prog fs =
      ((run noFaults prog { fs := fs }).2.fs :: (run noFaults prog { fs := fs }).2.hist).reverse := rfl
  have hhist := (replayed_run fs prog _ (replayed_init fs)).hist
  rw [htr] at hcons hfin hhist
  -- peel the seven calls after the ancestors
  have eT : firstUseTrace Q x R src stem content =
      (Call.rename src (filesOf (Q ++ x :: R) ++ [stem]), Except.ok ()) ::
      (Call.close (infoOf (Q ++ x :: R) ++ [stem ++ trashinfoExt]), Except.ok ()) ::
      (Call.write (infoOf (Q ++ x :: R) ++ [stem ++ trashinfoExt]) content, Except.ok ()) ::
      (Call.createExcl (infoOf (Q ++ x :: R) ++ [stem ++ trashinfoExt]) 0o600, Except.ok ()) ::
      (Call.mkdir (infoOf (Q ++ x :: R)) 0o700, Except.ok ()) ::
      (Call.mkdir (filesOf (Q ++ x :: R)) 0o700, Except.ok ()) ::
      (Call.mkdir (Q ++ x :: R) 0o700, Except.ok ()) :: ancestorCalls Q x R := rfl
  rw [eT] at hcons hfin hhist
  obtain ⟨c6, gC, okC, aftC⟩ := consistent_ok hcons
  obtain ⟨c5, gB', okB', aftB'⟩ := consistent_ok c6
  obtain ⟨c4, gB, okB, aftB⟩ := consistent_ok c5
  obtain ⟨c3, gA, okA, aftA⟩ := consistent_ok c4
  obtain ⟨c2, gI, okI, aftI⟩ := consistent_ok c3
  obtain ⟨c1, gF, okF, aftF⟩ := consistent_ok c2
  have M1 := made_chain fs Q x R.length R rfl 0o700 c1
  simp only [List.map_cons] at okC okB' okB okA okI okF aftC aftB' aftB aftA aftI aftF hfin hhist
  obtain ⟨gT, hgT⟩ : ∃ g, g = after fs (Call.mkdir (Q ++ x :: R) 0o700 :: List.map (fun x => x.1) (ancestorCalls Q x R)) :=
    ⟨_, rfl⟩
  rw [← hgT] at M1 okF
  -- closed forms
  rw [aftF] at okI
  rw [aftI] at okA
  rw [aftA] at okB
  rw [aftB] at okB'
  rw [aftB'] at okC
  have eF : gF = mk1 gT ((Q ++ x :: R) ++ [b "files"]) 0o700 := mkdir_ok_eq okF
  have eI : gI = mk1 gF ((Q ++ x :: R) ++ [b "info"]) 0o700 := mkdir_ok_eq okI
  have M2 : Made gT gF (Q ++ x :: R) (b "files") [] 0o700 := eF ▸ made_base gT _ _ _
  have M3 : Made gF gI (Q ++ x :: R) (b "info") [] 0o700 := eI ▸ made_base gF _ _ _
  have SC : SiteCreated fs gI Q x R := siteCreated_of_made S.basePlain M1 M2 M3
  have eA : gA = fsA gI (infoOf (Q ++ x :: R) ++ [stem ++ trashinfoExt]) := createExcl_ok_eq okA
  have eB : gB = fsB gI (infoOf (Q ++ x :: R) ++ [stem ++ trashinfoExt]) content := by
    have hg : gA.get (infoOf (Q ++ x :: R) ++ [stem ++ trashinfoExt]) = some (.file [] 0o600 0) := by
      rw [eA, fsA_get, if_pos rfl]
    simp only [Call.apply, FS.writeData, hg] at okB
    cases okB
    rw [eA]; rfl
  have eB' : gB' = gB := by
    simp only [Call.apply] at okB'
    cases okB'; rfl
  -- the final state
  have hfinal : (run noFaults prog { fs := fs }).2.fs = gC := by rw [hfin, aftC]
  obtain ⟨fs1', SC', T'⟩ := hT
  have T : Trashed gI (run noFaults prog { fs := fs }).2.fs (infoOf (Q ++ x :: R)) (filesOf (Q ++ x :: R)) src
      (stem ++ trashinfoExt) content := trashed_congr (siteCreated_get_unique SC' SC) T'
  -- the mkdir phase
  have h0 : DirsOnly fs fs Q x R := dirsOnly_init S.fresh
  have hsite := siteCalls_all Q x R
  have hD : ∀ s ∈ histOf fs (Call.mkdir (infoOf (Q ++ x :: R)) 0o700 :: Call.mkdir (filesOf (Q ++ x :: R)) 0o700 ::
      Call.mkdir (Q ++ x :: R) 0o700 :: (ancestorCalls Q x R).map (·.1)), DirsOnly fs s Q x R :=
    dirsOnly_hist h0 _ hsite
  have hDI : DirsOnly fs gI Q x R := by
    have := dirsOnly_after h0 _ hsite
    rw [aftI] at this; exact this
  refine ⟨(histOf fs (Call.mkdir (infoOf (Q ++ x :: R)) 0o700 :: Call.mkdir (filesOf (Q ++ x :: R)) 0o700 ::
      Call.mkdir (Q ++ x :: R) 0o700 :: (ancestorCalls Q x R).map (·.1))).reverse, gI, ?_, ?_, ?_, ?_, hDI, SC, T⟩
  · rw [hcs, hhist, hfinal]
    have hunf : ∀ (r c w e : Call) (rest : List Call), histOf fs (r :: c :: w :: e :: rest) =
        after fs (c :: w :: e :: rest) :: after fs (w :: e :: rest) :: after fs (e :: rest) :: after fs rest ::
          histOf fs rest := fun _ _ _ _ _ => rfl
    rw [hunf, aftB', aftB, aftA, aftI, eB', eB, eA]
    simp only [List.reverse_cons, List.append_assoc, List.singleton_append]
    rfl
  · rw [List.length_reverse, histOf_length]
    simp [ancestorCalls]
  · rw [List.head?_reverse]
    exact histOf_getLast fs _ (by simp)
  · intro s hs
    exact hD s (List.mem_reverse.1 hs)

/-! ### the invariant of C05 in each of these states -/

theorem files_slot_eq (Q : CPath) (x : Name) (R : CPath) (z : Name) (rel : CPath) :
    filesOf (Q ++ x :: R) ++ z :: rel = Q ++ x :: (R ++ b "files" :: z :: rel) := by simp [filesOf]

theorem slot_not_site {Q : CPath} {x : Name} {R : CPath} {z : Name} {rel : CPath}
    (h : filesOf (Q ++ x :: R) ++ z :: rel <+: Q ++ x :: R ∨ filesOf (Q ++ x :: R) ++ z :: rel = filesOf (Q ++ x :: R) ∨
      filesOf (Q ++ x :: R) ++ z :: rel = infoOf (Q ++ x :: R)) : False := by
  rcases h with h | h | h
  · have := h.length_le; simp [filesOf] at this; omega
  · have := congrArg List.length h; simp [filesOf] at this
  · have := congrArg List.length h; simp [filesOf, infoOf] at this

include S in
/-- in the `mkdir` phase nothing is in any slot of `files/` -/
theorem slot_none {s : FS} (D : DirsOnly fs s Q x R) (z : Name) (rel : CPath) :
    s.get (filesOf (Q ++ x :: R) ++ z :: rel) = none ∧ fs.get (filesOf (Q ++ x :: R) ++ z :: rel) = none := by
  constructor
  · have hq : Q ++ [x] <+: filesOf (Q ++ x :: R) ++ z :: rel := by
      rw [files_slot_eq, cons_eq_snoc Q x (R ++ b "files" :: z :: rel)]; exact List.prefix_append _ _
    rcases D.below _ hq with h | ⟨h, _⟩
    · exact h
    · exact (slot_not_site h).elim
  · rw [files_slot_eq]; exact S.fresh _

theorem info_under (Q : CPath) (x : Name) (R : CPath) (rest : CPath) : Q ++ [x] <+: infoOf (Q ++ x :: R) ++ rest := by
  have : infoOf (Q ++ x :: R) ++ rest = (Q ++ [x]) ++ (R ++ b "info" :: rest) := by simp [infoOf]
  rw [this]; exact List.prefix_append _ _

include S hsrc hapart in
/-- every state before the rename: the entry is where it was, `files/` is empty -/
theorem crashInv_early {g s : FS} (D : DirsOnly fs g Q x R) (name loc : Bytes) (d : Date)
    (hs : ∀ q, q ≠ infoOf (Q ++ x :: R) ++ [name] → q ≠ infoOf (Q ++ x :: R) → s.get q = g.get q) :
    CrashInv fs s (infoOf (Q ++ x :: R)) (filesOf (Q ++ x :: R)) src stem loc d := by
  have hslot : ∀ z rel, s.get (filesOf (Q ++ x :: R) ++ z :: rel) = g.get (filesOf (Q ++ x :: R) ++ z :: rel) := by
    intro z rel
    refine hs _ (fun e => ?_) (fun e => ?_)
    · have e' : (Q ++ x :: R) ++ (b "files" :: z :: rel) = (Q ++ x :: R) ++ [b "info", name] := by
        simpa [filesOf, infoOf] using e
      have := List.append_cancel_left e'
      simp only [List.cons.injEq] at this
      exact files_ne_info' this.1
    · have := congrArg List.length e; simp [filesOf, infoOf] at this
  have hsrcq : ∀ rel, s.get (src ++ rel) = fs.get (src ++ rel) := by
    intro rel
    obtain ⟨a1, a2⟩ := src_rel_apart S hsrc hapart rel
    rw [hs (src ++ rel) (fun e => a2 (e ▸ info_under Q x R [name]))
      (fun e => a2 (by rw [e]; simpa using info_under Q x R [])), D.frame _ a1 a2]
  refine ⟨Or.inl ⟨hsrcq, fun rel => ?_⟩, fun z _ rel => ?_, fun h => ?_⟩
  · rw [List.append_assoc, List.singleton_append, hslot, (slot_none S D stem rel).1, (slot_none S D stem rel).2]
  · rw [hslot, (slot_none S D z rel).1, (slot_none S D z rel).2]
  · rw [hslot, (slot_none S D stem []).1] at h; cases h

include S hsrc hapart in
/-- the state after the rename -/
theorem crashInv_final {g s : FS} (D : DirsOnly fs g Q x R) (loc : Bytes) (d : Date) (hd : d.valid = true) (hy : 1000 ≤ d.y)
    (T : Trashed g s (infoOf (Q ++ x :: R)) (filesOf (Q ++ x :: R)) src (stem ++ trashinfoExt)
      (formatTrashinfoWith loc d.fmt)) :
    CrashInv fs s (infoOf (Q ++ x :: R)) (filesOf (Q ++ x :: R)) src stem loc d := by
  have hw := T.whole
  rw [stem_base] at hw
  refine ⟨Or.inr ⟨fun rel => ?_, T.gone⟩, fun z hz rel => ?_, fun _ => ?_⟩
  · obtain ⟨a1, a2⟩ := src_rel_apart S hsrc hapart rel
    rw [hw rel, D.frame _ a1 a2]
  · have hfr := T.frame (filesOf (Q ++ x :: R) ++ z :: rel)
    rw [stem_base] at hfr
    rw [hfr, (slot_none S D z rel).1, (slot_none S D z rel).2]
    · rw [under_iff, files_slot_eq]; exact src_not_pfx' S hsrc hapart
    · rw [under_iff]
      intro h
      have := (List.prefix_append_right_inj _).1 h
      obtain ⟨t, ht⟩ := this
      simp only [List.cons_append, List.nil_append, List.cons.injEq] at ht
      exact hz ht.1.symm
    · intro e
      have e' : (Q ++ x :: R) ++ (b "files" :: z :: rel) = (Q ++ x :: R) ++ [b "info", stem ++ trashinfoExt] := by
        simpa [filesOf, infoOf] using e
      have := List.append_cancel_left e'
      simp only [List.cons.injEq] at this
      exact files_ne_info' this.1
    · intro e
      have h1 : filesOf (Q ++ x :: R) ++ z :: rel <+: src := e ▸ dropLast_pfx src
      refine src_not_below' S hsrc (List.IsPrefix.trans ?_ h1)
      rw [files_slot_eq, cons_eq_snoc Q x (R ++ b "files" :: z :: rel)]; exact List.prefix_append _ _
    · intro e; have := congrArg List.length e; simp [filesOf] at this
    · intro e; have := congrArg List.length e; simp [filesOf, infoOf] at this
  · obtain ⟨h1, h2, h3, h4⟩ := C03Cmd.written_parses loc d hd hy
    exact ⟨_, _, _, T.info, h1, h2, h3, h4⟩

include S hsrc hapart in
/-- C05 for every crash state of a run whose trace is `firstUseTrace` -/
theorem first_use_crash_inv (loc : Bytes) (d : Date) (hd : d.valid = true) (hy : 1000 ≤ d.y)
    (htr : (run noFaults prog { fs := fs }).2.trace = firstUseTrace Q x R src stem (formatTrashinfoWith loc d.fmt))
    (hT : ∃ fs1, SiteCreated fs fs1 Q x R ∧
      Trashed fs1 (run noFaults prog { fs := fs }).2.fs (infoOf (Q ++ x :: R)) (filesOf (Q ++ x :: R)) src
        (stem ++ trashinfoExt) (formatTrashinfoWith loc d.fmt)) :
    ∀ s ∈ crashStates noFaults prog fs,
      CrashInv fs s (infoOf (Q ++ x :: R)) (filesOf (Q ++ x :: R)) src stem loc d := by
  obtain ⟨dirs, fs1, hcs, _, _, hD, hD1, _, T⟩ := first_use_states prog S htr hT
  intro s hs
  rw [hcs] at hs
  simp only [List.mem_append, List.mem_cons, List.not_mem_nil, or_false] at hs
  rcases hs with h | rfl | rfl | rfl | rfl | rfl
  · exact crashInv_early S hsrc hapart (hD s h) [] loc d (fun _ _ _ => rfl)
  · exact crashInv_early S hsrc hapart hD1 [] loc d (fun _ _ _ => rfl)
  · refine crashInv_early S hsrc hapart hD1 (stem ++ trashinfoExt) loc d (fun q h1 h2 => ?_)
    show (fsA fs1 _).get q = _
    rw [fsA_get, if_neg h1, if_neg h2]
  · refine crashInv_early S hsrc hapart hD1 (stem ++ trashinfoExt) loc d (fun q h1 h2 => ?_)
    show (fsB fs1 _ _).get q = _
    rw [fsB_get, if_neg h1, if_neg h2]
  · refine crashInv_early S hsrc hapart hD1 (stem ++ trashinfoExt) loc d (fun q h1 h2 => ?_)
    show (fsB fs1 _ _).get q = _
    rw [fsB_get, if_neg h1, if_neg h2]
  · exact crashInv_final S hsrc hapart hD1 loc d hd hy T

end firstUse

end TrashVerif.Proofs.C05Cmd
