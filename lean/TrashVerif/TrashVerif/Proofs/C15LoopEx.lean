/-
  Proofs/C15LoopEx.lean — concrete worlds for Props/C15Loop.lean: the demo trash directory of
  Proofs/C10LoopEx.lean (three entries, one with a directory payload) emptied whole; every crash
  state of the loop evaluated by the kernel (through the twins of Proofs/C10LoopEval.lean); a
  variant loop that batches the removals of the info files (`emptyInfosBatched`, after the seeded
  change C15-6) and what it breaks; a fault that strands a payload under trash-empty.
-/
import TrashVerif.Proofs.C15LoopRerun
import TrashVerif.Proofs.C10LoopEx
namespace TrashVerif.Proofs.C15LoopEx
open TrashVerif Prog FS PutCore C09Hist C10Loop C19Cmd C15Loop
open TrashVerif.Proofs.C16Eval TrashVerif.Proofs.C02CmdEval TrashVerif.Proofs.C10LoopEval
open TrashVerif.Proofs.C10LoopEx TrashVerif.Proofs.C10LoopEx.Demo

/-- plain `trash-empty` (no DAYS): every entry is selected -/
def o0 : EmptyOpts := { now := ⟨2024, 3, 2, 0, 0, 0⟩ }

/-- the loop of trash-empty over the demo directory -/
abbrev loopW : Prog (Option Crash) := emptyInfos [] o0 (infoStrs (b "/t") names)

theorem W_selected0 : emptySelected W [] o0 (b "/t") names = names := by
  unfold emptySelected; simp only [okToDelete_eq]; decide +kernel

/-- what a state shows of each of the three entries `new`, `old`, `und` (in this order):
    (the payload root is there, the info file is what it was initially) -/
def row (s : FS) : List (Bool × Bool) :=
  names.map fun n => ((s.get (F ++ [stemOf n])).isSome, decide (s.get (I ++ [n]) = W.get (I ++ [n])))

/-- EVERY crash state of the loop, evaluated: eight calls (`unlink files/new`, `unlink info/new`,
    `unlink files/old` — EISDIR —, `unlink files/old/x`, `rmdir files/old`, `unlink info/old`,
    `unlink files/und`, `unlink info/und`), nine states.  In each of them every payload that is
    still there has its info file untouched, and at most one entry is between "intact" and "gone". -/
theorem W_rows :
    (crashStates noFaults loopW W).map row =
      [[(true, true), (true, true), (true, true)],
       [(false, true), (true, true), (true, true)],
       [(false, false), (true, true), (true, true)],
       [(false, false), (true, true), (true, true)],
       [(false, false), (true, true), (true, true)],
       [(false, false), (false, true), (true, true)],
       [(false, false), (false, false), (true, true)],
       [(false, false), (false, false), (false, true)],
       [(false, false), (false, false), (false, false)]] := by
  unfold loopW; rw [emptyInfos_eq]; decide +kernel

/-- the directory payload `files/old` half removed: the fifth state still has the (empty) directory,
    its child is gone, its info file is untouched -/
theorem W_fifth :
    ((crashStates noFaults loopW W)[4]?.map fun s =>
      (s.get (F ++ [b "old"]), s.get (F ++ [b "old", b "x"]), decide (s.get (I ++ [oldN]) = W.get (I ++ [oldN])))) =
      some (some (.dir 0o755 0), none, true) := by
  unfold loopW; rw [emptyInfos_eq]; decide +kernel

/-- re-running the loop on each of the nine crash states ends in the state the uninterrupted run ends in -/
theorem W_reruns :
    ((crashStates noFaults loopW W).all fun s =>
      decide ((run noFaults loopW { fs := s }).2.fs.toList = (run noFaults loopW { fs := W }).2.fs.toList)) = true := by
  unfold loopW; rw [emptyInfos_eq]; decide +kernel

/-! ### a loop that batches the removals of the info files (the seeded change C15-6)

  The payloads are removed as `info/` is walked; the info files are collected in a pending list that
  is flushed when it holds more than `k` names, and at the end.  The slip of the seeded change is
  reproduced: the current entry's info file joins the pending list BEFORE its payload is removed, and
  the "batch full" flush sits between the two. -/

def flushInfos (cwd : CPath) (o : EmptyOpts) : List Bytes → Prog Unit
  | [] => pure ()
  | i :: rest => do
    let fs ← read
    emptyPathR o i (resolve fs cwd i)
    flushInfos cwd o rest

def emptyInfosBatched (k : Nat) (cwd : CPath) (o : EmptyOpts) : List Bytes → List Bytes → Prog (Option Crash)
  | [], pending => do flushInfos cwd o pending; pure none
  | i :: rest, pending => do
    let fs ← read
    match okToDelete fs cwd o i with
    | .crash c => pure (some c)
    | .keep => emptyInfosBatched k cwd o rest pending
    | .delete => do
      let pending ← (if (pending ++ [i]).length > k then do flushInfos cwd o (pending ++ [i]); pure []
                     else pure (pending ++ [i]))
      let fs ← read
      emptyPathR o (pathOfBackupCopy i) (resolve fs cwd (pathOfBackupCopy i))
      emptyInfosBatched k cwd o rest pending

def flushInfosS (cwd : CPath) (o : EmptyOpts) : List Bytes → Prog Unit
  | [] => pure ()
  | i :: rest => do
    let fs ← read
    emptyPathRS o i (resolveS fs cwd i)
    flushInfosS cwd o rest

theorem flushInfos_eq (cwd : CPath) (o : EmptyOpts) : ∀ l : List Bytes, flushInfos cwd o l = flushInfosS cwd o l := by
  intro l
  induction l with
  | nil => rfl
  | cons i rest ih =>
    unfold flushInfos flushInfosS
    simp only [resolve_eq, emptyPathR_eq, ih] <;> rfl

def emptyInfosBatchedS (k : Nat) (cwd : CPath) (o : EmptyOpts) : List Bytes → List Bytes → Prog (Option Crash)
  | [], pending => do flushInfosS cwd o pending; pure none
  | i :: rest, pending => do
    let fs ← read
    match okToDeleteS fs cwd o i with
    | .crash c => pure (some c)
    | .keep => emptyInfosBatchedS k cwd o rest pending
    | .delete => do
      let pending ← (if (pending ++ [i]).length > k then do flushInfosS cwd o (pending ++ [i]); pure []
                     else pure (pending ++ [i]))
      let fs ← read
      emptyPathRS o (pathOfBackupCopy i) (resolveS fs cwd (pathOfBackupCopy i))
      emptyInfosBatchedS k cwd o rest pending

theorem emptyInfosBatched_eq (k : Nat) (cwd : CPath) (o : EmptyOpts) : ∀ (l pending : List Bytes),
    emptyInfosBatched k cwd o l pending = emptyInfosBatchedS k cwd o l pending := by
  intro l
  induction l with
  | nil =>
    intro pending
    unfold emptyInfosBatched emptyInfosBatchedS
    simp only [flushInfos_eq]
  | cons i rest ih =>
    intro pending
    unfold emptyInfosBatched emptyInfosBatchedS
    simp only [okToDelete_eq, resolve_eq, emptyPathR_eq, flushInfos_eq, ih] <;> rfl

/-- the batched loop over the demo directory, batch size `k` -/
abbrev batchedW (k : Nat) : Prog (Option Crash) := emptyInfosBatched k [] o0 (infoStrs (b "/t") names) []

/-- uninterrupted, the batched loop ends in the state the real loop ends in — whatever the batch size -/
theorem batched_same_end :
    (run noFaults (batchedW 100) { fs := W }).2.fs.toList = (run noFaults loopW { fs := W }).2.fs.toList ∧
    (run noFaults (batchedW 2) { fs := W }).2.fs.toList = (run noFaults loopW { fs := W }).2.fs.toList := by
  unfold batchedW loopW; rw [emptyInfosBatched_eq, emptyInfosBatched_eq, emptyInfos_eq]; decide +kernel

/-- batch size 100 (not reached: all payloads first, then all info files): the crash states -/
theorem batched100_rows :
    (crashStates noFaults (batchedW 100) W).map row =
      [[(true, true), (true, true), (true, true)],
       [(false, true), (true, true), (true, true)],
       [(false, true), (true, true), (true, true)],
       [(false, true), (true, true), (true, true)],
       [(false, true), (false, true), (true, true)],
       [(false, true), (false, true), (false, true)],
       [(false, false), (false, true), (false, true)],
       [(false, false), (false, false), (false, true)],
       [(false, false), (false, false), (false, false)]] := by
  unfold batchedW; rw [emptyInfosBatched_eq]; decide +kernel

/-- batch size 2 (reached by the third entry): the crash states.  In the eighth (before the last call)
    the payload of `und` is there and its info file is gone. -/
theorem batched2_rows :
    (crashStates noFaults (batchedW 2) W).map row =
      [[(true, true), (true, true), (true, true)],
       [(false, true), (true, true), (true, true)],
       [(false, true), (true, true), (true, true)],
       [(false, true), (true, true), (true, true)],
       [(false, true), (false, true), (true, true)],
       [(false, false), (false, true), (true, true)],
       [(false, false), (false, false), (true, true)],
       [(false, false), (false, false), (true, false)],
       [(false, false), (false, false), (false, false)]] := by
  unfold batchedW; rw [emptyInfosBatched_eq]; decide +kernel

theorem names_info : ∀ n ∈ names, isTrashinfoName n = true := by decide +kernel

/-- The batched loop with the slip breaks the crash invariant: a crash state in which the payload of
    `und` is still under `files/` and its info file is gone. -/
theorem batched_breaks_invariant :
    ∃ s ∈ crashStates noFaults (batchedW 2) W, ∃ n ∈ names, ¬ InfoLast W s I F n := by
  have h : ((crashStates noFaults (batchedW 2) W).any fun s =>
      (s.get (F ++ [stemOf undN])).isSome && decide (s.get (I ++ [undN]) = none)) = true := by
    unfold batchedW; rw [emptyInfosBatched_eq]; decide +kernel
  obtain ⟨s, hs, hp⟩ := List.any_eq_true.1 h
  rw [Bool.and_eq_true, decide_eq_true_eq] at hp
  refine ⟨s, hs, undN, by decide +kernel, fun hinv => ?_⟩
  have := hinv hp.1
  rw [hp.2] at this
  revert this
  decide +kernel

/-- Even without the slip (batch size not reached: all payloads first, all info files afterwards) the
    batched loop leaves the prefix states: a crash state in which two entries are half purged at once
    (`new` and `old`: payload gone, info file there).  The crash invariant itself survives this
    batching (`batched100_rows`) — it is the flush before the payload that breaks it. -/
theorem batched_not_prefix :
    ∃ s ∈ crashStates noFaults (batchedW 100) W, HalfPurged W s I F newN ∧ HalfPurged W s I F oldN ∧
      ¬ PrefixState W I F names s := by
  have h : ((crashStates noFaults (batchedW 100) W).any fun s =>
      decide (s.get (F ++ [stemOf newN]) = none) && (s.get (I ++ [newN])).isSome &&
      decide (s.get (F ++ [stemOf oldN]) = none) && (s.get (I ++ [oldN])).isSome) = true := by
    unfold batchedW; rw [emptyInfosBatched_eq]; decide +kernel
  obtain ⟨s, hs, hp⟩ := List.any_eq_true.1 h
  simp only [Bool.and_eq_true, decide_eq_true_eq] at hp
  obtain ⟨⟨⟨a1, a2⟩, a3⟩, a4⟩ := hp
  have half : ∀ n, s.get (F ++ [stemOf n]) = none → (s.get (I ++ [n])).isSome = true →
      (W.get (F ++ [stemOf n])).isSome = true → HalfPurged W s I F n := by
    intro n h1 h2 h3
    refine ⟨fun hi => ?_, fun hg => ?_⟩
    · have := hi.2 []
      rw [List.append_nil, h1] at this
      rw [← this] at h3; cases h3
    · have := hg.1 []
      rw [List.append_nil] at this
      rw [this] at h2; cases h2
  have hn := half newN a1 a2 (by decide +kernel)
  have ho := half oldN a3 a4 (by decide +kernel)
  refine ⟨s, hs, hn, ho, fun hps => ?_⟩
  have := Proofs.C15Loop.prefix_one_half (Proofs.C10Loop.setting_geo (W_setting [])) names_info hps newN oldN
    (by decide +kernel) (by decide +kernel) hn ho
  revert this
  decide +kernel

/-! ### trash-empty under a fault: the payload is stranded -/

/-- the first call fails with EIO, every other call is executed -/
def faultFirst : Oracle := fun n _ _ => if n = 0 then some .EIO else none

/-- Under a fault oracle the crash invariant of trash-empty is FALSE: when the removal of the payload
    fails (here: `unlink files/new` answers EIO) trash-empty reports "cannot-remove" and removes the
    info file all the same (`Emptier.do_empty` catches the `OSError` of each path separately) — the
    payload stays under `files/` without its info file, in a crash state and in the final state. -/
theorem empty_fault_counterexample :
    (∃ s ∈ crashStates faultFirst loopW W, ∃ n ∈ names, ¬ InfoLast W s I F n) ∧
    ((run faultFirst loopW { fs := W }).2.fs.get (F ++ [stemOf newN])).isSome = true ∧
    (run faultFirst loopW { fs := W }).2.fs.get (I ++ [newN]) = none ∧
    Out.stderr "cannot-remove" (pathOfBackupCopy (infoStr (b "/t") newN)) ∈ (run faultFirst loopW { fs := W }).2.outs := by
  refine ⟨?_, ?_, ?_, ?_⟩
  · have h : ((crashStates faultFirst loopW W).any fun s =>
        (s.get (F ++ [stemOf newN])).isSome && decide (s.get (I ++ [newN]) = none)) = true := by
      unfold loopW; rw [emptyInfos_eq]; decide +kernel
    obtain ⟨s, hs, hp⟩ := List.any_eq_true.1 h
    rw [Bool.and_eq_true, decide_eq_true_eq] at hp
    refine ⟨s, hs, newN, by decide +kernel, fun hinv => ?_⟩
    have := hinv hp.1
    rw [hp.2] at this
    revert this
    decide +kernel
  · unfold loopW; rw [emptyInfos_eq]; decide +kernel
  · unfold loopW; rw [emptyInfos_eq]; decide +kernel
  · unfold loopW; rw [emptyInfos_eq]; decide +kernel

/-- trash-rm under the same fault on the five-name directory `W2` (pattern `*`): `purgePair` stops at the
    failed removal of the payload, the loop ends with an `OSError`, nothing was removed — the info
    file of `new` is still there with its payload. -/
theorem rm_fault_keeps_info :
    (run faultFirst (rmInfos [] (b "*") (b "/") (infoStrs (b "/t") names2)) { fs := W2 }).1 = some .osError ∧
    (crashStates faultFirst (rmInfos [] (b "*") (b "/") (infoStrs (b "/t") names2)) W2).map
      (fun s => ((s.get (F ++ [stemOf newN])).isSome, decide (s.get (I ++ [newN]) = W2.get (I ++ [newN])))) =
      [(true, true), (true, true)] := by
  rw [rmInfos_eq]; decide +kernel

end TrashVerif.Proofs.C15LoopEx
