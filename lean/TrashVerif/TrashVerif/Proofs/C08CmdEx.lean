/-
  Proofs/C08CmdEx.lean — concrete two-volume worlds for Props/C08Cmd.lean: non-vacuity of the
  hypotheses of the command-level frame theorems, the runs evaluated through the kernel-evaluable
  twins, and kernel-checked counterexamples to the statements without their hypotheses.
-/
import TrashVerif.Proofs.C08CmdRestore
import TrashVerif.Proofs.C08CmdEval
namespace TrashVerif.Proofs.C08CmdEx
open TrashVerif Prog FS TrashVerif.C08Cmd
open TrashVerif.Proofs.C16Eval TrashVerif.Proofs.C02CmdEval TrashVerif.Proofs.C08CmdEval TrashVerif.Proofs.C08Cmd

deriving instance DecidableEq for Except

/-! ### checkers -/

def strApartB (fs : FS) (cwd r : CPath) (path : Bytes) : Bool :=
  match resolveS fs cwd path true with
  | .ok q => decide (Apart r q)
  | .error _ => true

theorem strApart_of_check {fs : FS} {cwd r : CPath} {path : Bytes} (h : strApartB fs cwd r path = true) :
    StrApart fs cwd r path := by
  intro q hq
  rw [resolve_eq] at hq
  unfold strApartB at h
  rw [hq] at h
  simpa using h

def dirApartB (fs : FS) (cwd r : CPath) (t : Bytes) : Bool :=
  strApartB fs cwd r (pjoin t (b "info")) && strApartB fs cwd r (pjoin t (b "files"))

theorem dirApart_of_check {fs : FS} {cwd r : CPath} {t : Bytes} (h : dirApartB fs cwd r t = true) :
    DirApart fs cwd r t := by
  unfold dirApartB at h
  rw [Bool.and_eq_true] at h
  exact ⟨strApart_of_check h.1, strApart_of_check h.2⟩

theorem plainNames_ofList {nodes : List (CPath × Node)} {mounts : List CPath}
    (h : ∀ pn ∈ nodes, ∀ x ∈ pn.1, PlainName x) : PlainNames (FS.ofList nodes mounts) := by
  intro q hq x hx
  unfold FS.ofList at hq
  simp only [Option.isSome_map] at hq
  obtain ⟨pn, hpn⟩ := Option.isSome_iff_exists.1 hq
  have hmem := List.mem_of_find?_eq_some hpn
  have hp := List.find?_some hpn
  simp only [decide_eq_true_eq] at hp
  exact h pn hmem x (hp ▸ hx)

/-! ### the world: two volumes, `/m/.Trash` without the sticky bit, `/m/.Trash/1000` populated -/

def dN : Node := .dir 0o755 0
/-- `/h/.local/share/Trash` -/
def TH : CPath := [b "h", b ".local", b "share", b "Trash"]
/-- `/m/.Trash/1000`: the insecure directory -/
def R : CPath := [b "m", b ".Trash", b "1000"]
/-- `/m/.Trash-1000` -/
def TA : CPath := [b "m", b ".Trash-1000"]
def infoOf (loc : Bytes) : Bytes := formatTrashinfoWith loc (b "2020-01-01T00:00:00")

def nodesW : List (CPath × Node) :=
  [([], dN), ([b "h"], dN), ([b "h", b ".local"], dN), ([b "h", b ".local", b "share"], dN),
   (TH, dN), (TH ++ [b "files"], dN), (TH ++ [b "info"], dN),
   (TH ++ [b "files", b "a"], .file [65] 0o644 0), (TH ++ [b "info", b "a.trashinfo"], .file (infoOf (b "/q/a")) 0o600 0),
   ([b "q"], dN),
   ([b "m"], dN), ([b "m", b ".Trash"], dN),
   (R, .dir 0o700 0), (R ++ [b "files"], dN), (R ++ [b "info"], dN),
   (R ++ [b "files", b "x"], .file [120] 0o644 0), (R ++ [b "info", b "x.trashinfo"], .file (infoOf (b "x")) 0o600 0),
   (R ++ [b "files", b "orph"], .file [111] 0o644 0),
   (TA, .dir 0o700 0), (TA ++ [b "files"], dN), (TA ++ [b "info"], dN),
   (TA ++ [b "files", b "y"], .file [121] 0o644 0), (TA ++ [b "info", b "y.trashinfo"], .file (infoOf (b "y")) 0o600 0),
   (TA ++ [b "files", b "o2"], .file [50] 0o644 0)]

/-- `/` and `/m` are mount points -/
def W : FS := FS.ofList nodesW [[], [b "m"]]

def rc : ReadCfg := { cwd := [], env := { home := some (b "/h") }, uid := 1000, mountPoints := [b "/m"] }
def eo : EmptyOpts := { now := ⟨2024, 1, 1, 0, 0, 0⟩ }

def emptyS (c : ReadCfg) (o : EmptyOpts) (fs : FS) : CmdResult × RunState := run noFaults (runEmptyS c o none) { fs := fs }
def rmS (c : ReadCfg) (args : List Bytes) (fs : FS) : CmdResult × RunState := run noFaults (runRmS c args) { fs := fs }
def listS (c : ReadCfg) (fs : FS) : CmdResult × RunState := run noFaults (runListS c []) { fs := fs }

theorem empty_twin (c : ReadCfg) (o : EmptyOpts) (fs : FS) :
    run noFaults (runEmpty c o none) { fs := fs } = emptyS c o fs := by unfold emptyS; rw [runEmpty_eq]
theorem rm_twin (c : ReadCfg) (args : List Bytes) (fs : FS) :
    run noFaults (runRm c args) { fs := fs } = rmS c args fs := by unfold rmS; rw [runRm_eq]
theorem list_twin (c : ReadCfg) (fs : FS) :
    run noFaults (runList c []) { fs := fs } = listS c fs := by unfold listS; rw [runList_eq]

theorem top_is : topDir rc (b "/m") = b "/m/.Trash/1000" := by decide +kernel

theorem insecureW : pIslink W rc.cwd (dirname (topDir rc (b "/m"))) = true ∨ pIsdir W rc.cwd (dirname (topDir rc (b "/m"))) = false ∨
    pSticky W rc.cwd (dirname (topDir rc (b "/m"))) ≠ some true := by
  refine Or.inr (Or.inr ?_)
  rw [pSticky_eq]
  decide +kernel

theorem scanW : scanTrashDirsS W rc =
    [.found (b "/h/.local/share/Trash") [slash], .skippedNotSticky (b "/m/.Trash/1000"), .found (b "/m/.Trash-1000") (b "/m")] := by
  decide +kernel

theorem plainW : PlainNames W := plainNames_ofList (by decide +kernel)

theorem homeW : topDir rc (b "/m") ∉ homeTrashPaths rc.env := by decide +kernel

theorem foundW : foundDirs (selectTrashDirs W rc []) = [(b "/h/.local/share/Trash", [slash]), (b "/m/.Trash-1000", b "/m")] := by
  rw [selectTrashDirs_eq]; decide +kernel

theorem geoW : ∀ tv ∈ foundDirs (selectTrashDirs W rc []), tv.1 ≠ topDir rc (b "/m") → DirApart W rc.cwd R tv.1 := by
  rw [foundW]
  intro tv htv _
  have : dirApartB W rc.cwd R tv.1 = true := by
    revert tv; decide +kernel
  exact dirApart_of_check this

/-- the run of `trash-empty`, evaluated -/
theorem emptyW_eval :
    (emptyS rc eo W).1.exit = 0 ∧
    (emptyS rc eo W).2.fs.get (TH ++ [b "files", b "a"]) = none ∧ (emptyS rc eo W).2.fs.get (TH ++ [b "info", b "a.trashinfo"]) = none ∧
    (emptyS rc eo W).2.fs.get (TA ++ [b "files", b "y"]) = none ∧ (emptyS rc eo W).2.fs.get (TA ++ [b "info", b "y.trashinfo"]) = none ∧
    (emptyS rc eo W).2.fs.get (TA ++ [b "files", b "o2"]) = none ∧
    (emptyS rc eo W).2.fs.get (R ++ [b "files", b "x"]) = W.get (R ++ [b "files", b "x"]) ∧
    (emptyS rc eo W).2.fs.get (R ++ [b "info", b "x.trashinfo"]) = W.get (R ++ [b "info", b "x.trashinfo"]) ∧
    (emptyS rc eo W).2.fs.get (R ++ [b "files", b "orph"]) = W.get (R ++ [b "files", b "orph"]) ∧
    (W.get (R ++ [b "files", b "orph"])).isSome = true := by
  decide +kernel

/-- the run of `trash-rm '*'`, evaluated -/
theorem rmW_eval :
    (rmS rc [b "*"] W).1.exit = 0 ∧
    (rmS rc [b "*"] W).2.fs.get (TH ++ [b "files", b "a"]) = none ∧ (rmS rc [b "*"] W).2.fs.get (TH ++ [b "info", b "a.trashinfo"]) = none ∧
    (rmS rc [b "*"] W).2.fs.get (TA ++ [b "files", b "y"]) = none ∧ (rmS rc [b "*"] W).2.fs.get (TA ++ [b "info", b "y.trashinfo"]) = none ∧
    (rmS rc [b "*"] W).2.fs.get (R ++ [b "files", b "x"]) = W.get (R ++ [b "files", b "x"]) ∧
    (rmS rc [b "*"] W).2.fs.get (R ++ [b "info", b "x.trashinfo"]) = W.get (R ++ [b "info", b "x.trashinfo"]) ∧
    (rmS rc [b "*"] W).2.fs.get (R ++ [b "files", b "orph"]) = W.get (R ++ [b "files", b "orph"]) := by
  decide +kernel

/-- the run of `trash-list`, evaluated: the two entries of the directories in use, the insecure
    directory reported on stderr, nothing from it on stdout -/
theorem listW_eval :
    (listS rc W).2.outs.reverse =
      [.stdout (b "2020-01-01 00:00:00 /q/a"), .stderr "skipped-not-sticky" (b "/m/.Trash/1000"),
       .stdout (b "2020-01-01 00:00:00 /m/y")] := by
  decide +kernel

/-! ### trash-restore -/

def followCS (fs : FS) (p : CPath) : Option CPath :=
  match fs.get p with
  | some (.link _) =>
    match resolveS fs [] (FS.toStr p) true with
    | .ok q => some q
    | .error _ => none
  | _ => some p
theorem followC_eq (fs : FS) (p : CPath) : followC fs p = followCS fs p := by
  unfold followC followCS; simp only [resolve_eq] <;> rfl

def okApartB (r : CPath) : Except Errno CPath → Bool
  | .ok q => decide (Apart r q)
  | .error _ => true

/-- the geometry of `EntryApart` except `parentHeads` -/
def entryApartOldB (S : List FS) (x : FS) (cwd r : CPath) (e : Entry) : Bool :=
  !(FS.under r (dirCS x cwd (dirname e.loc))) &&
  okApartB r (resolveS x cwd e.loc) &&
  (S.all fun x' => match resolveS x' cwd e.loc with
    | .ok d => (match followCS x d with | some q => decide (Apart r q) | none => true)
    | .error _ => true) &&
  okApartB r (resolveS x cwd (pathOfBackupCopy e.info)) &&
  okApartB r (resolveS x cwd e.info)

def entryApartB (S : List FS) (x : FS) (cwd r : CPath) (e : Entry) : Bool :=
  entryApartOldB S x cwd r e &&
  (!(hasDotComp (dirname e.loc)) ||
    (makedirsHeads (dirname e.loc).length (dirname e.loc)).all fun q =>
      match resolveS x cwd q with
      | .ok p => !(FS.under r p)
      | .error _ => true)

theorem okApart_of_check {r : CPath} {R' : Except Errno CPath} (h : okApartB r R' = true) :
    ∀ q, R' = .ok q → Apart r q := by
  intro q hq; subst hq; simpa [okApartB] using h

theorem entryApartOld_of_check {S : List FS} {x : FS} {cwd r : CPath} {e : Entry}
    (h : entryApartOldB S x cwd r e = true) :
    ¬ FS.under r (dirC x cwd (dirname e.loc)) = true ∧
    (∀ d, FS.resolve x cwd e.loc = .ok d → Apart r d) ∧
    (∀ x' ∈ S, ∀ d, FS.resolve x' cwd e.loc = .ok d → ∀ q, followC x d = some q → Apart r q) ∧
    (∀ p, FS.resolve x cwd (pathOfBackupCopy e.info) = .ok p → Apart r p) ∧
    (∀ i, FS.resolve x cwd e.info = .ok i → Apart r i) := by
  unfold entryApartOldB at h
  simp only [Bool.and_eq_true] at h
  obtain ⟨⟨⟨⟨h1, h2⟩, h3⟩, h4⟩, h5⟩ := h
  refine ⟨?_, ?_, ?_, ?_, ?_⟩
  · rw [dirC_eq]; simpa using h1
  · intro d hd; rw [resolve_eq] at hd; exact okApart_of_check h2 d hd
  · intro x' hx' d hd q hq
    rw [resolve_eq] at hd
    rw [followC_eq] at hq
    have := List.all_eq_true.1 h3 x' hx'
    rw [hd] at this
    simp only [hq] at this
    simpa using this
  · intro p hp; rw [resolve_eq] at hp; exact okApart_of_check h4 p hp
  · intro i hi; rw [resolve_eq] at hi; exact okApart_of_check h5 i hi

theorem entryApart_of_check {S : List FS} {x : FS} {cwd r : CPath} {e : Entry}
    (h : entryApartB S x cwd r e = true) : EntryApart S x cwd r e := by
  unfold entryApartB at h
  rw [Bool.and_eq_true] at h
  obtain ⟨hold, h6⟩ := h
  obtain ⟨a1, a2, a3, a4, a5⟩ := entryApartOld_of_check hold
  refine ⟨a1, ?_, a2, a3, a4, a5⟩
  intro hdot q hq p hp
  rw [resolve_eq] at hp
  rw [hdot] at h6
  have := List.all_eq_true.1 (by simpa using h6) q hq
  rw [hp] at this
  simpa using this

def ro : RestoreOpts := { path := b "/" }
def restoreS (c : ReadCfg) (o : RestoreOpts) (reply : Bytes) (fs : FS) : CmdResult × RunState :=
  run noFaults (runRestoreS c o (some reply)) { fs := fs }
theorem restore_twin (c : ReadCfg) (o : RestoreOpts) (reply : Bytes) (fs : FS) :
    run noFaults (runRestore c o (some reply)) { fs := fs } = restoreS c o reply fs := by
  unfold restoreS; rw [runRestore_eq]

/-- what trash-restore offers: the entry of the home trash and the entry of `/m/.Trash-1000`;
    nothing from `/m/.Trash/1000` -/
theorem offerW : (restoreEntriesS W rc ro).map (fun e => (e.loc, e.info)) =
    [(b "/q/a", b "/h/.local/share/Trash/info/a.trashinfo"), (b "/m/y", b "/m/.Trash-1000/info/y.trashinfo")] := by
  decide +kernel

/-- the run of `trash-restore /` answered "0-1" (both entries), evaluated -/
theorem restoreW_eval :
    (restoreS rc ro (b "0-1") W).1.exit = 0 ∧
    (restoreS rc ro (b "0-1") W).2.fs.get [b "q", b "a"] = some (.file [65] 0o644 0) ∧
    (restoreS rc ro (b "0-1") W).2.fs.get [b "m", b "y"] = some (.file [121] 0o644 0) ∧
    (restoreS rc ro (b "0-1") W).2.fs.get (R ++ [b "files", b "x"]) = W.get (R ++ [b "files", b "x"]) ∧
    (restoreS rc ro (b "0-1") W).2.fs.get (R ++ [b "info", b "x.trashinfo"]) = W.get (R ++ [b "info", b "x.trashinfo"]) ∧
    (restoreS rc ro (b "0-1") W).2.fs.get (R ++ [b "files", b "orph"]) = W.get (R ++ [b "files", b "orph"]) := by
  decide +kernel

theorem crashW : crashStates noFaults (runRestore rc ro (some (b "0-1"))) W =
    crashStates noFaults (runRestoreS rc ro (some (b "0-1"))) W := by rw [runRestore_eq]

theorem geoRestoreW : ∀ tv ∈ restoreTrashDirs W rc ro.trashDir, tv.1 ≠ topDir rc (b "/m") →
    ∀ e ∈ restoreEntriesOf W rc.cwd tv.1 tv.2, ∀ x ∈ crashStates noFaults (runRestore rc ro (some (b "0-1"))) W,
      EntryApart (crashStates noFaults (runRestore rc ro (some (b "0-1"))) W) x rc.cwd R e := by
  have key : ∀ tv ∈ restoreTrashDirsS W rc ro.trashDir,
      ∀ e ∈ restoreEntriesOfS W rc.cwd tv.1 tv.2, ∀ x ∈ crashStates noFaults (runRestoreS rc ro (some (b "0-1"))) W,
        entryApartB (crashStates noFaults (runRestoreS rc ro (some (b "0-1"))) W) x rc.cwd R e = true := by
    decide +kernel
  intro tv htv _ e he x hx
  rw [restoreTrashDirs_eq] at htv
  rw [restoreEntriesOf_eq] at he
  rw [crashW] at hx ⊢
  exact entryApart_of_check (key tv htv e he x hx)

theorem noFailW : NoRenameFailed (run noFaults (runRestore rc ro (some (b "0-1"))) { fs := W }).2.trace := by
  rw [restore_twin]; decide +kernel

/-! ### counterexamples: the geometry hypotheses are needed -/

/-- as `W`, but `/m/.Trash-1000` is a symbolic link to `/m/.Trash/1000` -/
def nodesL : List (CPath × Node) :=
  [([], dN), ([b "h"], dN), ([b "h", b ".local"], dN), ([b "h", b ".local", b "share"], dN),
   (TH, dN), (TH ++ [b "files"], dN), (TH ++ [b "info"], dN),
   ([b "m"], dN), ([b "m", b ".Trash"], dN),
   (R, .dir 0o700 0), (R ++ [b "files"], dN), (R ++ [b "info"], dN),
   (R ++ [b "files", b "x"], .file [120] 0o644 0), (R ++ [b "info", b "x.trashinfo"], .file (infoOf (b "x")) 0o600 0),
   (R ++ [b "files", b "orph"], .file [111] 0o644 0),
   (TA, .link (b "/m/.Trash/1000"))]
def WL : FS := FS.ofList nodesL [[], [b "m"]]

/-- `empty_frames_insecure` / `rm_frames_insecure` WITHOUT the geometry hypothesis `hgeo` are FALSE:
    in `WL` every other hypothesis holds (`/m/.Trash` is not sticky, names are plain, the insecure
    directory is not the home trash, no `--trash-dir`), the scanner does skip `/m/.Trash/1000` —
    and yields `/m/.Trash-1000`, a link INTO it; `trash-empty` and `trash-rm '*'` then delete the
    pair `files/x`, `info/x.trashinfo` stored under the insecure directory (trash-empty the orphan
    too).  Real behaviour: the check of `$topdir/.Trash` does not protect what `.Trash-$uid` links to. -/
theorem link_into_insecure :
    (pIslink WL rc.cwd (dirname (topDir rc (b "/m"))) = true ∨ pIsdir WL rc.cwd (dirname (topDir rc (b "/m"))) = false ∨
      pSticky WL rc.cwd (dirname (topDir rc (b "/m"))) ≠ some true) ∧
    PlainNames WL ∧ topDir rc (b "/m") ∉ homeTrashPaths rc.env ∧
    (∀ tv ∈ foundDirs (scanTrashDirs WL rc), tv.1 ≠ topDir rc (b "/m")) ∧
    FS.resolve WL rc.cwd (topDir rc (b "/m")) true = .ok R ∧
    (run noFaults (runEmpty rc eo none) { fs := WL }).2.fs.get (R ++ [b "files", b "x"]) = none ∧
    (run noFaults (runEmpty rc eo none) { fs := WL }).2.fs.get (R ++ [b "info", b "x.trashinfo"]) = none ∧
    (run noFaults (runEmpty rc eo none) { fs := WL }).2.fs.get (R ++ [b "files", b "orph"]) = none ∧
    (run noFaults (runRm rc [b "*"]) { fs := WL }).2.fs.get (R ++ [b "files", b "x"]) = none ∧
    (WL.get (R ++ [b "files", b "x"])).isSome = true ∧ (WL.get (R ++ [b "info", b "x.trashinfo"])).isSome = true ∧
    (WL.get (R ++ [b "files", b "orph"])).isSome = true := by
  have hi : pIslink WL rc.cwd (dirname (topDir rc (b "/m"))) = true ∨ pIsdir WL rc.cwd (dirname (topDir rc (b "/m"))) = false ∨
      pSticky WL rc.cwd (dirname (topDir rc (b "/m"))) ≠ some true := by
    refine Or.inr (Or.inr ?_)
    rw [pSticky_eq]
    decide +kernel
  refine ⟨hi, plainNames_ofList (by decide +kernel), homeW, top_not_found hi homeW, ?_, ?_⟩
  · rw [resolve_eq]; decide +kernel
  · rw [empty_twin, rm_twin]; decide +kernel

/-- as `W`, plus an entry of `/m/.Trash-1000/info` whose NAME contains '/' and "..":
    `../../.Trash/1000/info/x.trashinfo` (no kernel produces such a name; the flat model allows it) -/
def WN : FS := FS.ofList
  (nodesW ++ [(TA ++ [b "info", b "../../.Trash/1000/info/x.trashinfo"], .file (infoOf (b "z")) 0o600 0)]) [[], [b "m"]]

/-- `empty_frames_insecure` WITHOUT `PlainNames` is FALSE: in `WN` every other hypothesis holds —
    in particular every directory the scanner yields has its `info/` and `files/` apart from
    `/m/.Trash/1000` — yet `trash-empty` deletes the pair stored under the insecure directory,
    reached through the name `../../.Trash/1000/info/x.trashinfo` listed in `/m/.Trash-1000/info`. -/
theorem plain_names_needed :
    (pIslink WN rc.cwd (dirname (topDir rc (b "/m"))) = true ∨ pIsdir WN rc.cwd (dirname (topDir rc (b "/m"))) = false ∨
      pSticky WN rc.cwd (dirname (topDir rc (b "/m"))) ≠ some true) ∧
    topDir rc (b "/m") ∉ homeTrashPaths rc.env ∧
    (∀ tv ∈ foundDirs (selectTrashDirs WN rc []), tv.1 ≠ topDir rc (b "/m") → DirApart WN rc.cwd R tv.1) ∧
    ¬ PlainNames WN ∧
    (run noFaults (runEmpty rc eo none) { fs := WN }).2.fs.get (R ++ [b "files", b "x"]) = none ∧
    (run noFaults (runEmpty rc eo none) { fs := WN }).2.fs.get (R ++ [b "info", b "x.trashinfo"]) = none ∧
    (WN.get (R ++ [b "files", b "x"])).isSome = true ∧ (WN.get (R ++ [b "info", b "x.trashinfo"])).isSome = true := by
  refine ⟨Or.inr (Or.inr (by rw [pSticky_eq]; decide +kernel)), homeW, ?_, ?_, ?_⟩
  · have hf : foundDirs (selectTrashDirs WN rc []) = [(b "/h/.local/share/Trash", [slash]), (b "/m/.Trash-1000", b "/m")] := by
      rw [selectTrashDirs_eq]; decide +kernel
    rw [hf]
    intro tv htv _
    have : dirApartB WN rc.cwd R tv.1 = true := by
      revert tv; decide +kernel
    exact dirApart_of_check this
  · intro h
    have := h (TA ++ [b "info", b "../../.Trash/1000/info/x.trashinfo"]) (by decide +kernel)
      (b "../../.Trash/1000/info/x.trashinfo") (by decide +kernel)
    exact absurd this (by decide +kernel)
  · rw [empty_twin]; decide +kernel

/-- `/m/.Trash-1000` holds two entries: the symbolic link `lnk` (to `/m/.Trash/1000`), trashed from
    `/m/lnk` in 2020, and the file `z`, trashed from `/m/lnk/files/zz` in 2021 -/
def WC : FS := FS.ofList
  [([], dN), ([b "h"], dN), ([b "m"], dN), ([b "m", b ".Trash"], dN),
   (R, .dir 0o700 0), (R ++ [b "files"], dN), (R ++ [b "info"], dN),
   (R ++ [b "files", b "x"], .file [120] 0o644 0), (R ++ [b "info", b "x.trashinfo"], .file (infoOf (b "x")) 0o600 0),
   (TA, .dir 0o700 0), (TA ++ [b "files"], dN), (TA ++ [b "info"], dN),
   (TA ++ [b "files", b "lnk"], .link (b "/m/.Trash/1000")),
   (TA ++ [b "info", b "lnk.trashinfo"], .file (formatTrashinfoWith (b "lnk") (b "2020-01-01T00:00:00")) 0o600 0),
   (TA ++ [b "files", b "z"], .file [122] 0o644 0),
   (TA ++ [b "info", b "z.trashinfo"], .file (formatTrashinfoWith (b "lnk/files/zz") (b "2021-01-01T00:00:00")) 0o600 0)]
  [[], [b "m"]]

/-- In `restore_frames_insecure` the geometry of the entries has to hold in EVERY state of the run;
    in the initial state alone it is not enough.  `WC`: `/m/.Trash` is not sticky; trash-restore is
    offered the two entries of `/m/.Trash-1000`, both apart from `/m/.Trash/1000` in `WC` (the second
    destination does not even resolve: `/m/lnk` is not there); no rename fails.  Answered "0-1" it
    first restores the link `/m/lnk -> /m/.Trash/1000`, then the file THROUGH it: the run ends with
    the new file `files/zz` under the insecure directory. -/
theorem restore_initial_geometry_not_enough :
    (pIslink WC rc.cwd (dirname (topDir rc (b "/m"))) = true ∨ pIsdir WC rc.cwd (dirname (topDir rc (b "/m"))) = false ∨
      pSticky WC rc.cwd (dirname (topDir rc (b "/m"))) ≠ some true) ∧
    topDir rc (b "/m") ∉ homeTrashPaths rc.env ∧
    (∀ tv ∈ restoreTrashDirs WC rc ro.trashDir, tv.1 ≠ topDir rc (b "/m") →
      ∀ e ∈ restoreEntriesOf WC rc.cwd tv.1 tv.2, EntryApart [WC] WC rc.cwd R e) ∧
    NoRenameFailed (run noFaults (runRestore rc ro (some (b "0-1"))) { fs := WC }).2.trace ∧
    (run noFaults (runRestore rc ro (some (b "0-1"))) { fs := WC }).1.exit = 0 ∧
    WC.get (R ++ [b "files", b "zz"]) = none ∧
    (run noFaults (runRestore rc ro (some (b "0-1"))) { fs := WC }).2.fs.get (R ++ [b "files", b "zz"]) =
      some (.file [122] 0o644 0) := by
  refine ⟨Or.inr (Or.inr (by rw [pSticky_eq]; decide +kernel)), homeW, ?_, ?_⟩
  · have key : ∀ tv ∈ restoreTrashDirsS WC rc ro.trashDir, ∀ e ∈ restoreEntriesOfS WC rc.cwd tv.1 tv.2,
        entryApartB [WC] WC rc.cwd R e = true := by decide +kernel
    intro tv htv _ e he
    rw [restoreTrashDirs_eq] at htv
    rw [restoreEntriesOf_eq] at he
    exact entryApart_of_check (key tv htv e he)
  · rw [restore_twin]; decide +kernel

/-- `/m/.Trash-1000` holds the file `z`, recorded as trashed from
    `/m/.Trash/1000/gone/../../../zz` (`/m/.Trash/1000/gone` does not exist) -/
def WD : FS := FS.ofList
  [([], dN), ([b "h"], dN), ([b "m"], dN), ([b "m", b ".Trash"], dN),
   (R, .dir 0o700 0), (R ++ [b "files"], dN), (R ++ [b "info"], dN),
   (TA, .dir 0o700 0), (TA ++ [b "files"], dN), (TA ++ [b "info"], dN),
   (TA ++ [b "files", b "z"], .file [122] 0o644 0),
   (TA ++ [b "info", b "z.trashinfo"],
     .file (formatTrashinfoWith (b ".Trash/1000/gone/../../../zz") (b "2021-01-01T00:00:00")) 0o600 0)]
  [[], [b "m"]]

/-- The field `parentHeads` of `EntryApart` is needed.  In `WD` the other five conditions hold for the
    one entry in EVERY state of the run (the `realpath` of the parent string is `/m`; the destination
    string does not resolve at first and resolves to `/m/zz` later), `/m/.Trash` is insecure, no
    rename fails — and `os.makedirs("/m/.Trash/1000/gone/../../..")` makes the directory `gone`
    INSIDE the insecure directory before it fails with `EEXIST` (exit 1). -/
theorem restore_parent_heads_needed :
    (pIslink WD rc.cwd (dirname (topDir rc (b "/m"))) = true ∨ pIsdir WD rc.cwd (dirname (topDir rc (b "/m"))) = false ∨
      pSticky WD rc.cwd (dirname (topDir rc (b "/m"))) ≠ some true) ∧
    topDir rc (b "/m") ∉ homeTrashPaths rc.env ∧
    (∀ tv ∈ restoreTrashDirs WD rc ro.trashDir, tv.1 ≠ topDir rc (b "/m") →
      ∀ e ∈ restoreEntriesOf WD rc.cwd tv.1 tv.2, ∀ x ∈ crashStates noFaults (runRestore rc ro (some (b "0"))) WD,
        ¬ FS.under R (dirC x rc.cwd (dirname e.loc)) = true ∧
        (∀ d, FS.resolve x rc.cwd e.loc = .ok d → Apart R d) ∧
        (∀ x' ∈ crashStates noFaults (runRestore rc ro (some (b "0"))) WD, ∀ d, FS.resolve x' rc.cwd e.loc = .ok d →
          ∀ q, followC x d = some q → Apart R q) ∧
        (∀ p, FS.resolve x rc.cwd (pathOfBackupCopy e.info) = .ok p → Apart R p) ∧
        (∀ i, FS.resolve x rc.cwd e.info = .ok i → Apart R i)) ∧
    NoRenameFailed (run noFaults (runRestore rc ro (some (b "0"))) { fs := WD }).2.trace ∧
    (run noFaults (runRestore rc ro (some (b "0"))) { fs := WD }).1.exit = 1 ∧
    WD.get (R ++ [b "gone"]) = none ∧
    (run noFaults (runRestore rc ro (some (b "0"))) { fs := WD }).2.fs.get (R ++ [b "gone"]) = some (.dir 0o755 0) := by
  refine ⟨Or.inr (Or.inr (by rw [pSticky_eq]; decide +kernel)), homeW, ?_, ?_⟩
  · have hc : crashStates noFaults (runRestore rc ro (some (b "0"))) WD =
        crashStates noFaults (runRestoreS rc ro (some (b "0"))) WD := by rw [runRestore_eq]
    have key : ∀ tv ∈ restoreTrashDirsS WD rc ro.trashDir, ∀ e ∈ restoreEntriesOfS WD rc.cwd tv.1 tv.2,
        ∀ x ∈ crashStates noFaults (runRestoreS rc ro (some (b "0"))) WD,
          entryApartOldB (crashStates noFaults (runRestoreS rc ro (some (b "0"))) WD) x rc.cwd R e = true := by
      decide +kernel
    intro tv htv _ e he x hx
    rw [restoreTrashDirs_eq] at htv
    rw [restoreEntriesOf_eq] at he
    rw [hc] at hx ⊢
    exact entryApartOld_of_check (key tv htv e he x hx)
  · rw [restore_twin]; decide +kernel

end TrashVerif.Proofs.C08CmdEx
