/-
  Proofs/C16Indep.lean — proofs of the statements of Props/C16Indep.lean
  (second half of C16: arguments are handled independently).
-/
import TrashVerif.Props.C16
import TrashVerif.Props.C16IndepDefs
import TrashVerif.Proofs.C16Eval
namespace TrashVerif.Proofs.C16Indep
open TrashVerif Prog FS PutLemmas C16Indep

/-! ### generic facts about `run` -/

/-- the pending output is only ever extended: a program runs the same whatever was printed before -/
theorem run_outs {α} (φ : Oracle) (p : Prog α) : ∀ (s : RunState) (O : List Out),
    ∃ new, (run φ p s).2.outs = new ++ s.outs ∧
      run φ p { s with outs := O } = ((run φ p s).1, { (run φ p s).2 with outs := new ++ O }) := by
  induction p with
  | ret a => intro s O; exact ⟨[], rfl, rfl⟩
  | get k ih => intro s O; exact ih s.fs s O
  | emit o k ih =>
    intro s O
    obtain ⟨new, h1, h2⟩ := ih { s with outs := o :: s.outs } (o :: O)
    refine ⟨new ++ [o], ?_, ?_⟩
    · simp only [run]; rw [h1]; simp
    · simp only [run]
      simp only [List.append_assoc, List.singleton_append]
      exact h2
  | call c k ih =>
    intro s O
    simp only [run]
    split
    · exact ih _ _ _
    · exact ih _ _ _

/-- without faults the result and the final file system depend on the initial file system only -/
theorem run_noFaults_fs {α} (p : Prog α) : ∀ (s s' : RunState), s.fs = s'.fs →
    (run noFaults p s).1 = (run noFaults p s').1 ∧ (run noFaults p s).2.fs = (run noFaults p s').2.fs := by
  induction p with
  | ret a => intro s s' h; exact ⟨rfl, h⟩
  | get k ih => intro s s' h; simp only [run]; rw [h]; exact ih _ _ _ h
  | emit o k ih => intro s s' h; simp only [run]; exact ih _ _ h
  | call c k ih =>
    intro s s' h
    simp only [run, noFaults]
    rw [h]
    split
    · exact ih _ _ _ rfl
    · exact ih _ _ _ rfl


/-! ### `putAll` is a left fold -/

abbrev Acc := List (Bytes × ArgOutcome)

/-- the fold over a list of arguments, stopped before the epilogue: the result of an aborted run,
    or the scripted input left and the outcomes so far (newest first) -/
def foldArgs (c : PutCfg) : List Bytes → PutSt → Acc → Prog (Except (Acc × PutCrash) (PutSt × Acc))
  | [], st, acc => pure (.ok (st, acc))
  | a :: rest, st, acc => do
    let (r, st) ← trashSingle c a st
    match r with
    | .error e =>
      say (.stderr "traceback" (b "EOFError"))
      pure (.error (acc, e))
    | .ok (.crashed _) =>
      say (.stderr "traceback" (b "OSError"))
      pure (.error (acc, .cleanup))
    | .ok o =>
      if o.failed then say (.stderr "cannot-trash" a)
      foldArgs c rest st ((a, o) :: acc)

/-- go on with the arguments `suf` from where the fold stopped -/
def resume (φ : Oracle) (c : PutCfg) (suf : List Bytes) :
    Except (Acc × PutCrash) (PutSt × Acc) × RunState → PutResult × RunState
  | (.error (acc, e), s) => ({ outcomes := acc.reverse, crash := some e, exit := 1 }, s)
  | (.ok (st, acc), s) => run φ (putAll c suf st acc) s

theorem run_say (φ : Oracle) (o : Out) (s : RunState) : run φ (say o) s = ((), { s with outs := o :: s.outs }) := rfl

theorem run_putAll_append (φ : Oracle) (c : PutCfg) (suf : List Bytes) :
    ∀ (pre : List Bytes) (st : PutSt) (acc : Acc) (s : RunState),
      run φ (putAll c (pre ++ suf) st acc) s = resume φ c suf (run φ (foldArgs c pre st acc) s) := by
  intro pre
  induction pre with
  | nil => intro st acc s; rfl
  | cons a rest ih =>
    intro st acc s
    rw [List.cons_append]
    unfold putAll foldArgs
    rw [run_bind, run_bind]
    generalize run φ (trashSingle c a st) s = r1
    obtain ⟨⟨r, st1⟩, s1⟩ := r1
    have goCase : ∀ o : ArgOutcome,
        run φ (if o.failed = true then (say (.stderr "cannot-trash" a) >>= fun _ =>
          putAll c (rest ++ suf) st1 ((a, o) :: acc)) else putAll c (rest ++ suf) st1 ((a, o) :: acc)) s1 =
        resume φ c suf (run φ (if o.failed = true then (say (.stderr "cannot-trash" a) >>= fun _ =>
          foldArgs c rest st1 ((a, o) :: acc)) else foldArgs c rest st1 ((a, o) :: acc)) s1) := by
      intro o
      by_cases hf : o.failed = true
      · rw [if_pos hf, if_pos hf, run_bind, run_bind, run_say]; exact ih _ _ _
      · rw [if_neg hf, if_neg hf]; exact ih _ _ _
    cases r with
    | error e => rfl
    | ok o =>
      cases o with
      | crashed e => rfl
      | trashed t n => exact goCase _
      | skippedMissing => exact goCase _
      | declined => exact goCase _
      | failedDot => exact goCase _
      | failedMissing => exact goCase _
      | failedAll rs => exact goCase _

/-- the epilogue of `putAll` -/
def finalResult (acc : Acc) : PutResult :=
  { outcomes := acc.reverse, crash := none, exit := if acc.reverse.any (·.2.failed) then 74 else 0 }

theorem run_putAll_fold (φ : Oracle) (c : PutCfg) (pre : List Bytes) (st : PutSt) (acc : Acc) (s : RunState) :
    run φ (putAll c pre st acc) s =
      match run φ (foldArgs c pre st acc) s with
      | (.error (acc', e), s') => ({ outcomes := acc'.reverse, crash := some e, exit := 1 }, s')
      | (.ok (_, acc'), s') => (finalResult acc', s') := by
  have := run_putAll_append φ c [] pre st acc s
  rw [List.append_nil] at this
  rw [this]
  generalize run φ (foldArgs c pre st acc) s = r
  obtain ⟨r, s'⟩ := r
  cases r with
  | error x => obtain ⟨acc', e⟩ := x; rfl
  | ok x => obtain ⟨st', acc'⟩ := x; rfl

/-- the accumulated outcomes are never dropped -/
theorem acc_prefix (φ : Oracle) (c : PutCfg) : ∀ (args : List Bytes) (st : PutSt) (acc : Acc) (s : RunState),
    acc.reverse <+: (run φ (putAll c args st acc) s).1.outcomes := by
  intro args
  induction args with
  | nil => intro st acc s; exact List.prefix_refl _
  | cons a rest ih =>
    intro st acc s
    unfold putAll
    rw [run_bind]
    generalize run φ (trashSingle c a st) s = r1
    obtain ⟨⟨r, st1⟩, s1⟩ := r1
    have goCase : ∀ o : ArgOutcome,
        acc.reverse <+: (run φ (if o.failed = true then (say (.stderr "cannot-trash" a) >>= fun _ =>
          putAll c rest st1 ((a, o) :: acc)) else putAll c rest st1 ((a, o) :: acc)) s1).1.outcomes := by
      intro o
      have hp : acc.reverse <+: ((a, o) :: acc).reverse := by
        rw [List.reverse_cons]; exact List.prefix_append _ _
      by_cases hf : o.failed = true
      · rw [if_pos hf, run_bind, run_say]; exact hp.trans (ih _ _ _)
      · rw [if_neg hf]; exact hp.trans (ih _ _ _)
    cases r with
    | error e => exact List.prefix_refl _
    | ok o =>
      cases o with
      | crashed e => exact List.prefix_refl _
      | trashed t n => exact goCase _
      | skippedMissing => exact goCase _
      | declined => exact goCase _
      | failedDot => exact goCase _
      | failedMissing => exact goCase _
      | failedAll rs => exact goCase _

/-- `putAll` started with outcomes already accumulated: they are prepended, nothing else changes -/
theorem putAll_acc (φ : Oracle) (c : PutCfg) : ∀ (args : List Bytes) (st : PutSt) (acc : Acc) (s : RunState),
    (run φ (putAll c args st acc) s).1.outcomes = acc.reverse ++ (run φ (putAll c args st []) s).1.outcomes ∧
    (run φ (putAll c args st acc) s).1.crash = (run φ (putAll c args st []) s).1.crash ∧
    (run φ (putAll c args st acc) s).2 = (run φ (putAll c args st []) s).2 := by
  intro args
  induction args with
  | nil => intro st acc s; exact ⟨by simp [putAll], rfl, rfl⟩
  | cons a rest ih =>
    intro st acc s
    unfold putAll
    rw [run_bind, run_bind]
    generalize run φ (trashSingle c a st) s = r1
    obtain ⟨⟨r, st1⟩, s1⟩ := r1
    have goCase : ∀ o : ArgOutcome,
        let P := fun (acc : Acc) => run φ (if o.failed = true then (say (.stderr "cannot-trash" a) >>= fun _ =>
          putAll c rest st1 ((a, o) :: acc)) else putAll c rest st1 ((a, o) :: acc)) s1
        (P acc).1.outcomes = acc.reverse ++ (P []).1.outcomes ∧ (P acc).1.crash = (P []).1.crash ∧ (P acc).2 = (P []).2 := by
      intro o P
      have key : ∀ s2 : RunState,
          (run φ (putAll c rest st1 ((a, o) :: acc)) s2).1.outcomes =
            acc.reverse ++ (run φ (putAll c rest st1 [(a, o)]) s2).1.outcomes ∧
          (run φ (putAll c rest st1 ((a, o) :: acc)) s2).1.crash = (run φ (putAll c rest st1 [(a, o)]) s2).1.crash ∧
          (run φ (putAll c rest st1 ((a, o) :: acc)) s2).2 = (run φ (putAll c rest st1 [(a, o)]) s2).2 := by
        intro s2
        obtain ⟨a1, a2, a3⟩ := ih st1 ((a, o) :: acc) s2
        obtain ⟨b1, b2, b3⟩ := ih st1 [(a, o)] s2
        refine ⟨?_, a2.trans b2.symm, a3.trans b3.symm⟩
        rw [a1, b1]; simp
      by_cases hf : o.failed = true
      · simp only [P, if_pos hf, run_bind, run_say]; exact key _
      · simp only [P, if_neg hf]; exact key _
    cases r with
    | error e => exact ⟨by simp [run_bind, run_say], rfl, rfl⟩
    | ok o =>
      cases o with
      | crashed e => exact ⟨by simp [run_bind, run_say], rfl, rfl⟩
      | trashed t n => exact goCase _
      | skippedMissing => exact goCase _
      | declined => exact goCase _
      | failedDot => exact goCase _
      | failedMissing => exact goCase _
      | failedAll rs => exact goCase _


/-! ### what follows an argument never matters to it -/

theorem earlier_unaffected (φ : Oracle) (c : PutCfg) (pre suf : List Bytes) (st : PutSt) (s : RunState) :
    (run φ (runPut c pre st) s).1.outcomes <+: (run φ (runPut c (pre ++ suf) st) s).1.outcomes ∧
    ((run φ (runPut c pre st) s).1.crash = none →
      (run φ (runPut c (pre ++ suf) st) s).1.outcomes.take pre.length = (run φ (runPut c pre st) s).1.outcomes) ∧
    ((run φ (runPut c pre st) s).1.crash ≠ none →
      run φ (runPut c (pre ++ suf) st) s = run φ (runPut c pre st) s) := by
  have hlen := (C16.exit_iff φ c pre st s)
  unfold runPut at hlen ⊢
  rw [run_putAll_append, run_putAll_fold] at *
  generalize run φ (foldArgs c pre st []) s = r at *
  obtain ⟨r, s'⟩ := r
  cases r with
  | error x =>
    obtain ⟨acc', e⟩ := x
    refine ⟨List.prefix_refl _, fun h => ?_, fun _ => rfl⟩
    cases h
  | ok x =>
    obtain ⟨st', acc'⟩ := x
    have hp : acc'.reverse <+: (run φ (putAll c suf st' acc') s').1.outcomes := acc_prefix φ c suf st' acc' s'
    refine ⟨hp, fun _ => ?_, fun h => absurd rfl h⟩
    have hl : acc'.reverse.length = pre.length := by
      have := (hlen rfl).1
      simp only [finalResult] at this
      rw [← this, List.length_map]
    obtain ⟨t, ht⟩ := hp
    show List.take pre.length (run φ (putAll c suf st' acc') s').1.outcomes = acc'.reverse
    rw [← ht, ← hl, List.take_left]

/-! ### arguments given up without a system call -/

theorem securityCheck_ne_crash (fs : FS) (cwd : CPath) (cand : Candidate) (e : Errno) :
    securityCheck fs cwd cand ≠ some (.cleanupCrash e) := by
  unfold securityCheck
  dsimp only
  repeat' split
  all_goals (intro h; cases h)

theorem gateCheck_ne_crash (fs : FS) (c : PutCfg) (volume : Bytes) (cand : Candidate) (e : Errno) :
    gateCheck fs c volume cand ≠ some (.cleanupCrash e) := by
  unfold gateCheck
  dsimp only
  repeat' split
  all_goals (intro h; cases h)

theorem rejectReason_not_crash {fs : FS} {c : PutCfg} {volume : Bytes} {cand : Candidate} {r : Reason}
    (h : rejectReason fs c volume cand = some r) : ∀ e, r ≠ .cleanupCrash e := by
  intro e he
  subst he
  unfold rejectReason at h
  split at h
  · next r' hs =>
    simp only [Option.some.injEq] at h
    subst h
    exact securityCheck_ne_crash _ _ _ _ hs
  · exact gateCheck_ne_crash _ _ _ _ _ h

theorem trashFileIn_rejected (φ : Oracle) (c : PutCfg) (path volume : Bytes) (cand : Candidate) (st : PutSt)
    (s : RunState) {r : Reason} (h : rejectReason s.fs c volume cand = some r) :
    run φ (trashFileIn c path volume cand st) s = ((.error r, st), s) := by
  rw [trashFileIn, run_read_bind]
  unfold rejectReason at h
  cases hsec : securityCheck s.fs c.cwd cand with
  | some r' =>
    rw [hsec] at h
    simp only [Option.some.injEq] at h
    subst h
    rfl
  | none =>
    rw [hsec] at h
    simp only [] at h
    simp only [h]
    rfl

theorem tryCandidates_rejected (φ : Oracle) (c : PutCfg) (path volume : Bytes) (st : PutSt) (s : RunState) :
    ∀ (cands : List Candidate) (reasons : List Reason),
      (∀ cand ∈ cands, rejectReason s.fs c volume cand ≠ none) →
      run φ (tryCandidates c path volume cands reasons st) s =
        ((.failedAll (reasons.reverse ++ cands.filterMap (rejectReason s.fs c volume)), st), s) := by
  intro cands
  induction cands with
  | nil => intro reasons _; simp [tryCandidates]
  | cons cand rest ih =>
    intro reasons h
    obtain ⟨r, hr⟩ := Option.ne_none_iff_exists'.1 (h cand List.mem_cons_self)
    unfold tryCandidates
    rw [run_bind, trashFileIn_rejected φ c path volume cand st s hr]
    have hnc := rejectReason_not_crash hr
    have hgo : run φ (tryCandidates c path volume rest (r :: reasons) st) s =
        ((.failedAll (reasons.reverse ++ (cand :: rest).filterMap (rejectReason s.fs c volume)), st), s) := by
      rw [ih (r :: reasons) (fun x hx => h x (List.mem_cons_of_mem _ hx))]
      simp [hr]
    cases r <;> first | exact hgo | exact absurd rfl (hnc _)

theorem inert_run (φ : Oracle) (c : PutCfg) (hm : c.mode ≠ .interactive) (a : Bytes) (st : PutSt) (s : RunState)
    (h : Inert c s.fs a) :
    run φ (trashSingle c a st) s = ((.ok (inertOutcome c s.fs a), st), s) := by
  unfold trashSingle inertOutcome
  by_cases hd : isDotEntry (rstripSlash a) = true
  · rw [if_pos hd, if_pos hd]; rfl
  · rw [if_neg hd, if_neg hd, run_read_bind]
    by_cases hl : pLexists s.fs c.cwd a = false
    · rw [if_pos (by simpa using hl), if_pos hl]; rfl
    · rw [if_neg (by simpa using hl), if_neg hl]
      have hask : ¬ (c.mode = PutMode.interactive ∧ pExists s.fs c.cwd a = true) := fun x => hm x.1
      simp only [if_neg hask]
      rcases h with h | h | h
      · exact absurd h hd
      · exact absurd h hl
      · have := tryCandidates_rejected φ c a (volumeFor s.fs c a) st s _ [] h
        rw [run_bind]
        erw [this]
        rfl

/-- one step of `putAll` for an argument that does not abort the run -/
theorem putAll_step (φ : Oracle) (c : PutCfg) (a : Bytes) (rest : List Bytes) (st st1 : PutSt) (acc : Acc)
    (s s1 : RunState) (o : ArgOutcome) (h : run φ (trashSingle c a st) s = ((.ok o, st1), s1))
    (hc : ∀ e, o ≠ .crashed e) :
    run φ (putAll c (a :: rest) st acc) s =
      run φ (putAll c rest st1 ((a, o) :: acc))
        (if o.failed = true then { s1 with outs := .stderr "cannot-trash" a :: s1.outs } else s1) := by
  rw [putAll, run_bind, h]
  have goCase :
      run φ (if o.failed = true then (say (.stderr "cannot-trash" a) >>= fun _ =>
        putAll c rest st1 ((a, o) :: acc)) else putAll c rest st1 ((a, o) :: acc)) s1 =
      run φ (putAll c rest st1 ((a, o) :: acc))
        (if o.failed = true then { s1 with outs := .stderr "cannot-trash" a :: s1.outs } else s1) := by
    by_cases hf : o.failed = true
    · rw [if_pos hf, if_pos hf, run_bind, run_say]
    · rw [if_neg hf, if_neg hf]
  cases o with
  | crashed e => exact absurd rfl (hc e)
  | trashed t n => exact goCase
  | skippedMissing => exact goCase
  | declined => exact goCase
  | failedDot => exact goCase
  | failedMissing => exact goCase
  | failedAll rs => exact goCase

theorem inertOutcome_not_crashed (c : PutCfg) (fs : FS) (a : Bytes) : ∀ e, inertOutcome c fs a ≠ .crashed e := by
  intro e h
  unfold inertOutcome at h
  repeat' (split at h)
  all_goals cases h

theorem inert_prefix_aux (φ : Oracle) (c : PutCfg) (hm : c.mode ≠ .interactive) (suf : List Bytes) (st : PutSt) :
    ∀ (pre : List Bytes) (acc : Acc) (s : RunState), (∀ a ∈ pre, Inert c s.fs a) →
      ∃ O, run φ (putAll c (pre ++ suf) st acc) s =
        run φ (putAll c suf st ((pre.map fun a => (a, inertOutcome c s.fs a)).reverse ++ acc)) { s with outs := O } := by
  intro pre
  induction pre with
  | nil => intro acc s _; exact ⟨s.outs, rfl⟩
  | cons a rest ih =>
    intro acc s h
    have h1 := inert_run φ c hm a st s (h a List.mem_cons_self)
    rw [List.cons_append, putAll_step φ c a (rest ++ suf) st st acc s s _ h1 (inertOutcome_not_crashed c s.fs a)]
    generalize hs2 : (if (inertOutcome c s.fs a).failed = true then
      { s with outs := Out.stderr "cannot-trash" a :: s.outs } else s) = s2
    have hfs : s2.fs = s.fs := by rw [← hs2]; split <;> rfl
    have e1 : ∀ O', ({ s2 with outs := O' } : RunState) = { s with outs := O' } := by
      intro O'; rw [← hs2]; split <;> rfl
    obtain ⟨O, hO⟩ := ih ((a, inertOutcome c s.fs a) :: acc) s2 (fun x hx => hfs ▸ h x (List.mem_cons_of_mem _ hx))
    refine ⟨O, ?_⟩
    rw [hO, e1, hfs]
    simp

theorem inert_prefix (φ : Oracle) (c : PutCfg) (hm : c.mode ≠ .interactive) (pre suf : List Bytes) (st : PutSt)
    (s : RunState) (h : ∀ a ∈ pre, Inert c s.fs a) :
    let r := run φ (runPut c (pre ++ suf) st) s
    let r0 := run φ (runPut c suf st) s
    r.1.outcomes = (pre.map fun a => (a, inertOutcome c s.fs a)) ++ r0.1.outcomes ∧
    r.1.crash = r0.1.crash ∧ r.2.fs = r0.2.fs ∧ r.2.trace = r0.2.trace ∧ r.2.hist = r0.2.hist := by
  intro r r0
  obtain ⟨O, hO⟩ := inert_prefix_aux φ c hm suf st pre [] s h
  have hr : r = run φ (putAll c suf st ((pre.map fun a => (a, inertOutcome c s.fs a)).reverse ++ [])) { s with outs := O } := hO
  obtain ⟨a1, a2, a3⟩ := putAll_acc φ c suf st ((pre.map fun a => (a, inertOutcome c s.fs a)).reverse ++ []) { s with outs := O }
  obtain ⟨new, _, hn⟩ := run_outs φ (putAll c suf st []) s O
  have hr0 : r0 = run φ (putAll c suf st []) s := rfl
  rw [hr, a1, a2, a3, hn, ← hr0]
  refine ⟨by simp, rfl, rfl, rfl, rfl⟩


theorem inert_anywhere (φ : Oracle) (c : PutCfg) (hm : c.mode ≠ .interactive) (pre : List Bytes) (a : Bytes)
    (suf : List Bytes) (st : PutSt) (s : RunState) :
    let before := run φ (runPut c pre st) s
    before.1.crash = none → Inert c before.2.fs a →
    let r := run φ (runPut c (pre ++ a :: suf) st) s
    let r0 := run φ (runPut c (pre ++ suf) st) s
    r.1.outcomes = r0.1.outcomes.take pre.length ++ (a, inertOutcome c before.2.fs a) :: r0.1.outcomes.drop pre.length ∧
    r.1.crash = r0.1.crash ∧ r.2.fs = r0.2.fs ∧ r.2.trace = r0.2.trace ∧ r.2.hist = r0.2.hist := by
  intro before hcrash hin r r0
  have hl0 : before.1.outcomes.length = pre.length := by
    have := ((C16.exit_iff φ c pre st s) hcrash).1
    rw [← this, List.length_map]
  have hb : before = run φ (putAll c pre st []) s := rfl
  have hr : r = run φ (putAll c (pre ++ a :: suf) st []) s := rfl
  have hr0 : r0 = run φ (putAll c (pre ++ suf) st []) s := rfl
  clear_value before r r0
  rw [run_putAll_fold] at hb
  rw [run_putAll_append] at hr hr0
  generalize run φ (foldArgs c pre st []) s = f at hb hr hr0
  obtain ⟨f, s'⟩ := f
  cases f with
  | error x =>
    obtain ⟨acc', e⟩ := x
    rw [hb] at hcrash; cases hcrash
  | ok x =>
    obtain ⟨st', acc'⟩ := x
    simp only [resume] at hr hr0
    simp only at hb
    have hfs : before.2.fs = s'.fs := by rw [hb]
    have hl : acc'.reverse.length = pre.length := by
      rw [hb] at hl0; exact hl0
    rw [hfs] at hin ⊢
    have h1 := inert_run φ c hm a st' s' hin
    rw [putAll_step φ c a suf st' st' acc' s' s' _ h1 (inertOutcome_not_crashed c s'.fs a)] at hr
    generalize hs2 : (if (inertOutcome c s'.fs a).failed = true then
      { s' with outs := Out.stderr "cannot-trash" a :: s'.outs } else s') = s2 at hr
    have e1 : s2 = { s' with outs := s2.outs } := by rw [← hs2]; split <;> rfl
    obtain ⟨a1, a2, a3⟩ := putAll_acc φ c suf st' ((a, inertOutcome c s'.fs a) :: acc') s2
    obtain ⟨b1, b2, b3⟩ := putAll_acc φ c suf st' acc' s'
    obtain ⟨new, _, hn⟩ := run_outs φ (putAll c suf st' []) s' s2.outs
    rw [← e1] at hn
    rw [hr, hr0, a1, a2, a3, b1, b2, b3, hn]
    refine ⟨?_, rfl, rfl, rfl, rfl⟩
    rw [← hl, List.take_left, List.drop_left]
    simp

/-! ### arguments that leave the file system as it was (no faults) -/

theorem silent_run (c : PutCfg) (fs : FS) (st : PutSt) (a : Bytes) (h : Silent c fs st a) (s : RunState)
    (hs : s.fs = fs) :
    ∃ s1, run noFaults (trashSingle c a st) s = ((.ok (aloneOutcome c fs st a), st), s1) ∧ s1.fs = fs ∧
      ∀ e, aloneOutcome c fs st a ≠ .crashed e := by
  obtain ⟨h1, h2, o, h3, h4⟩ := h
  have hcong := run_noFaults_fs (trashSingle c a st) s { fs := fs } hs
  have ho : aloneOutcome c fs st a = o := by unfold aloneOutcome; rw [h3]
  unfold alone at h1 h2 h3
  refine ⟨(run noFaults (trashSingle c a st) s).2, ?_, by rw [hcong.2, h1], by rw [ho]; exact h4⟩
  rw [ho]
  refine Prod.ext (Prod.ext ?_ ?_) rfl
  · show (run noFaults (trashSingle c a st) s).1.1 = _
    rw [hcong.1, h3]
  · show (run noFaults (trashSingle c a st) s).1.2 = _
    rw [hcong.1, h2]

theorem silent_prefix_aux (c : PutCfg) (fs : FS) (suf : List Bytes) (st : PutSt) :
    ∀ (pre : List Bytes) (acc : Acc) (s : RunState), s.fs = fs → (∀ a ∈ pre, Silent c fs st a) →
      ∃ s', s'.fs = fs ∧ run noFaults (putAll c (pre ++ suf) st acc) s =
        run noFaults (putAll c suf st ((pre.map fun a => (a, aloneOutcome c fs st a)).reverse ++ acc)) s' := by
  intro pre
  induction pre with
  | nil => intro acc s hs _; exact ⟨s, hs, rfl⟩
  | cons a rest ih =>
    intro acc s hs h
    obtain ⟨s1, h1, hs1, hnc⟩ := silent_run c fs st a (h a List.mem_cons_self) s hs
    rw [List.cons_append, putAll_step noFaults c a (rest ++ suf) st st acc s s1 _ h1 hnc]
    generalize hs2 : (if (aloneOutcome c fs st a).failed = true then
      { s1 with outs := Out.stderr "cannot-trash" a :: s1.outs } else s1) = s2
    have hfs : s2.fs = fs := by rw [← hs2]; split <;> exact hs1
    obtain ⟨s', hs', hO⟩ := ih ((a, aloneOutcome c fs st a) :: acc) s2 hfs (fun x hx => h x (List.mem_cons_of_mem _ hx))
    refine ⟨s', hs', ?_⟩
    rw [hO]
    simp

theorem silent_prefix (c : PutCfg) (pre suf : List Bytes) (st : PutSt) (fs : FS)
    (h : ∀ a ∈ pre, Silent c fs st a) :
    let r := run noFaults (runPut c (pre ++ suf) st) { fs := fs }
    let r0 := run noFaults (runPut c suf st) { fs := fs }
    r.1.outcomes = (pre.map fun a => (a, aloneOutcome c fs st a)) ++ r0.1.outcomes ∧
    r.1.crash = r0.1.crash ∧ r.2.fs = r0.2.fs := by
  intro r r0
  obtain ⟨s', hs', hO⟩ := silent_prefix_aux c fs suf st pre [] { fs := fs } rfl h
  have hr : r = run noFaults (putAll c suf st ((pre.map fun a => (a, aloneOutcome c fs st a)).reverse ++ [])) s' := hO
  obtain ⟨a1, a2, a3⟩ := putAll_acc noFaults c suf st ((pre.map fun a => (a, aloneOutcome c fs st a)).reverse ++ []) s'
  obtain ⟨c1, c2⟩ := run_noFaults_fs (putAll c suf st []) s' { fs := fs } hs'
  have hr0 : r0 = run noFaults (putAll c suf st []) { fs := fs } := rfl
  rw [hr, a1, a2, a3, c1, c2, ← hr0]
  refine ⟨by simp, rfl, rfl⟩


/-- without prompts every inert argument is silent -/
theorem silent_of_inert (c : PutCfg) (hm : c.mode ≠ .interactive) (fs : FS) (st : PutSt) (a : Bytes)
    (h : Inert c fs a) : Silent c fs st a := by
  have := inert_run noFaults c hm a st { fs := fs } h
  unfold Silent alone
  rw [this]
  exact ⟨rfl, rfl, _, rfl, inertOutcome_not_crashed c fs a⟩

/-! ### `C16_independence_full` is false: kernel-checked counterexamples

The worlds are evaluated through the structurally recursive twins of Proofs/C16Eval.lean
(`runPut = runPutS`), which `decide +kernel` can run. -/

namespace Cex
open TrashVerif.Proofs.C16Eval

/-- canonical path of an absolute ASCII path string -/
def P (s : String) : CPath := (Bytes.splitOn slash (b s)).filter (· ≠ [])
def D (s : String) (mode : Nat := 0o755) : CPath × Node := (P s, .dir mode 0)
def Fl (s : String) : CPath × Node := (P s, .file [120] 0o644 0)
def L (s t : String) : CPath × Node := (P s, .link (b t))

def okOf : Except Errno CPath → Option CPath
  | .ok p => some p
  | .error _ => none

/-- `Unrelated`, computed -/
def unrelB (fs : FS) (cwd : CPath) (a d : Bytes) : Bool :=
  match okOf (resolveS fs cwd (normpath a)), okOf (resolveS fs cwd (normpath d)) with
  | some p, some q => !(FS.under p q) && !(FS.under q p)
  | _, _ => true

theorem unrelated_of {fs : FS} {cwd : CPath} {a d : Bytes} (h : unrelB fs cwd a d = true) :
    C16.Unrelated fs cwd a d := by
  intro p q hp hq
  rw [resolve_eq] at hp hq
  unfold unrelB at h
  rw [hp, hq] at h
  simp only [okOf, Bool.and_eq_true, Bool.not_eq_true'] at h
  simpa using h

/-- outcome classes of a fault-free run, computed -/
def classesS (c : PutCfg) (args : List Bytes) (st : PutSt) (fs : FS) : List Nat :=
  (run noFaults (runPutS c args st) { fs := fs }).1.outcomes.map fun o => C16.outcomeClass o.2

theorem refute (c : PutCfg) (a d : Bytes) (st : PutSt) (fs : FS) (hm : c.mode ≠ .interactive)
    (hu : unrelB fs c.cwd a d = true)
    (hne : (classesS c [a, d] st fs)[1]? ≠ (classesS c [d] st fs)[0]?) : ¬ C16.C16_independence_full := by
  intro h
  have := h c a d st fs hm (unrelated_of hu)
  rw [runPut_eq, runPut_eq] at this
  exact hne this

theorem refute' (c : PutCfg) (a d : Bytes) (st : PutSt) (fs : FS) (l1 l2 : List Nat) (hm : c.mode ≠ .interactive)
    (hu : unrelB fs c.cwd a d = true)
    (h : classesS c [a, d] st fs = l1 ∧ classesS c [d] st fs = l2) (hne : l1[1]? ≠ l2[0]?) :
    (classesS c [a, d] st fs = l1 ∧ classesS c [d] st fs = l2) ∧ ¬ C16.C16_independence_full :=
  ⟨h, refute c a d st fs hm hu (by rw [h.1, h.2]; exact hne)⟩

/-- `Inert`, computed -/
def inertB (c : PutCfg) (fs : FS) (a : Bytes) : Bool :=
  isDotEntry (rstripSlash a) || !(pLexistsS fs c.cwd a) ||
  (let v := match c.forcedVolume with
      | some v => if v ≠ [] then v else volumeOfS fs c.cwd (realpathStrS fs c.cwd (dirname (let p := rstripSlash a; if p = [] then a else p)))
      | none => volumeOfS fs c.cwd (realpathStrS fs c.cwd (dirname (let p := rstripSlash a; if p = [] then a else p)))
   (candidatesForS fs c v).all fun cand =>
     (match securityCheckS fs c.cwd cand with
      | some r => some r
      | none => gateCheckS fs c v cand).isSome)

theorem inert_of {c : PutCfg} {fs : FS} {a : Bytes} (h : inertB c fs a = true) : Inert c fs a := by
  unfold inertB at h
  simp only [Bool.or_eq_true, Bool.not_eq_true'] at h
  rcases h with (h | h) | h
  · exact Or.inl h
  · exact Or.inr (Or.inl (by rw [pLexists_eq]; exact h))
  · refine Or.inr (Or.inr ?_)
    intro cand hc
    unfold volumeFor at hc ⊢
    unfold rejectReason
    simp only [volumeOf_eq, realpathStr_eq, candidatesFor_eq, securityCheck_eq, gateCheck_eq] at hc ⊢
    have := List.all_eq_true.1 h cand hc
    exact Option.isSome_iff_ne_none.1 this

/-- HOME=/h, XDG_DATA_HOME unset, uid 0, cwd "/", no options -/
def cfg0 : PutCfg := { cwd := [], env := { home := some (b "/h") }, uid := 0, dateStr := b "D" }
def st0 : PutSt := ⟨[], []⟩

/-- `/h` (home), the directory `/a` with `/a/y`, the file `/x`; one volume -/
def fsDotdot : FS := FS.ofList [D "/", D "/h", D "/a", Fl "/a/y", Fl "/x"] [[]]

theorem dotdot : (classesS cfg0 [b "/a", b "/a/../x"] st0 fsDotdot = [0, 4] ∧
    classesS cfg0 [b "/a/../x"] st0 fsDotdot = [0]) ∧ ¬ C16.C16_independence_full :=
  refute' cfg0 (b "/a") (b "/a/../x") st0 fsDotdot _ _ (by decide) (by decide +kernel)
    (by decide +kernel) (by decide)

theorem into_trash : (classesS cfg0 [b "/x", b "/h/.local/share/Trash/files/x"] st0 fsDotdot = [0, 0] ∧
    classesS cfg0 [b "/h/.local/share/Trash/files/x"] st0 fsDotdot = [4]) ∧ ¬ C16.C16_independence_full :=
  refute' cfg0 (b "/x") (b "/h/.local/share/Trash/files/x") st0 fsDotdot _ _ (by decide) (by decide +kernel)
    (by decide +kernel) (by decide)

theorem trash_ancestor : (classesS cfg0 [b "/x", b "/h/.local"] st0 fsDotdot = [0, 0] ∧
    classesS cfg0 [b "/h/.local"] st0 fsDotdot = [4]) ∧ ¬ C16.C16_independence_full :=
  refute' cfg0 (b "/x") (b "/h/.local") st0 fsDotdot _ _ (by decide) (by decide +kernel)
    (by decide +kernel) (by decide)

/-- `/h` (home) and the mount point `/m` (a second volume) -/
def fsFailing : FS := FS.ofList [D "/", D "/h", D "/m"] [[], P "/m"]

theorem failing_arg_creates_dirs : (classesS cfg0 [b "/m", b "/h/.local"] st0 fsFailing = [5, 0] ∧
    classesS cfg0 [b "/h/.local"] st0 fsFailing = [4]) ∧ ¬ C16.C16_independence_full :=
  refute' cfg0 (b "/m") (b "/h/.local") st0 fsFailing _ _ (by decide) (by decide +kernel)
    (by decide +kernel) (by decide)

/-- as `cfg0`, run from the working directory `/a/c` -/
def cfgCwd : PutCfg := { cfg0 with cwd := P "/a/c" }
def fsCwd : FS := FS.ofList [D "/", D "/h", D "/a", D "/a/c", Fl "/x"] [[]]

theorem cwd_removed : (classesS cfgCwd [b "/a", b "../../x"] st0 fsCwd = [0, 4] ∧
    classesS cfgCwd [b "../../x"] st0 fsCwd = [0]) ∧ ¬ C16.C16_independence_full :=
  refute' cfgCwd (b "/a") (b "../../x") st0 fsCwd _ _ (by decide) (by decide +kernel)
    (by decide +kernel) (by decide)

/-- the directory `/a/sub` and the symlink `/l -> /a/sub` -/
def fsLink : FS := FS.ofList [D "/", D "/h", D "/a", D "/a/sub", L "/l" "/a/sub"] [[]]

theorem link_target : (classesS cfg0 [b "/a", b "/l/"] st0 fsLink = [0, 4] ∧
    classesS cfg0 [b "/l/"] st0 fsLink = [0]) ∧ ¬ C16.C16_independence_full :=
  refute' cfg0 (b "/a") (b "/l/") st0 fsLink _ _ (by decide) (by decide +kernel)
    (by decide +kernel) (by decide)

/-- `/l -> /a/l2`, `/a/l2 -> /z`, the file `/z/x`: the path `/l/x` names `/z/x` by way of `/a` -/
def fsThrough : FS := FS.ofList [D "/", D "/h", D "/a", L "/a/l2" "/z", D "/z", Fl "/z/x", L "/l" "/a/l2"] [[]]

theorem link_through : (classesS cfg0 [b "/a", b "/l/x"] st0 fsThrough = [0, 4] ∧
    classesS cfg0 [b "/l/x"] st0 fsThrough = [0]) ∧ ¬ C16.C16_independence_full :=
  refute' cfg0 (b "/a") (b "/l/x") st0 fsThrough _ _ (by decide) (by decide +kernel)
    (by decide +kernel) (by decide)

/-- `--home-fallback` with TRASH_ENABLE_HOME_FALLBACK=1 -/
def cfgFallback : PutCfg :=
  { cwd := [], env := { home := some (b "/h"), fallbackEnv := some (b "1") }, uid := 0, homeFallback := true, dateStr := b "D" }
/-- `/h/.local` is a regular file; the volume `/m` holds the file `/m/x` and the regular file `/m/.Trash-0` -/
def fsBlock : FS := FS.ofList [D "/", D "/h", Fl "/h/.local", D "/m", Fl "/m/x", Fl "/m/.Trash-0"] [[], P "/m"]

theorem blocking_file : (classesS cfgFallback [b "/h/.local", b "/m/x"] st0 fsBlock = [0, 0] ∧
    classesS cfgFallback [b "/m/x"] st0 fsBlock = [5]) ∧ ¬ C16.C16_independence_full :=
  refute' cfgFallback (b "/h/.local") (b "/m/x") st0 fsBlock _ _ (by decide) (by decide +kernel)
    (by decide +kernel) (by decide)

/-- the ABSENT path `/h/.local/share/Trash` is in the mount table; `/.Trash-0` is a regular file -/
def fsMount : FS := FS.ofList [D "/", D "/h", Fl "/f1", Fl "/f2", Fl "/.Trash-0"] [[], P "/h/.local/share/Trash"]

theorem absent_mount_entry : (classesS cfg0 [b "/f1", b "/f2"] st0 fsMount = [0, 5] ∧
    classesS cfg0 [b "/f2"] st0 fsMount = [0]) ∧ ¬ C16.C16_independence_full :=
  refute' cfg0 (b "/f1") (b "/f2") st0 fsMount _ _ (by decide) (by decide +kernel)
    (by decide +kernel) (by decide)

/-- the names `x`, `x_1` … `x_99`, `x_4242` -/
def occupied (n : Bytes) : Bool :=
  n == b "x" || n == b "x_4242" ||
  (n.take 2 == b "x_" &&
    ((n.drop 2).length == 1 || (n.drop 2).length == 2) && (n.drop 2).all Bytes.isDigit && (n.drop 2).head? != some 48)

/-- a home trash whose `files/` already holds `x`, `x_1` … `x_99` and `x_4242`; `/.Trash-0` is a
    regular file; `/p/x` and `/q/x` are to be trashed -/
def fsCrowded : FS :=
  let base := FS.ofList [D "/", D "/h", D "/h/.local", D "/h/.local/share", D "/h/.local/share/Trash",
      D "/h/.local/share/Trash/files", D "/h/.local/share/Trash/info", D "/p", D "/q", Fl "/p/x", Fl "/q/x",
      Fl "/.Trash-0"] [[]]
  { base with
    get := fun q =>
      if q.dropLast = P "/h/.local/share/Trash/files" ∧ occupied (q.getLast?.getD []) = true then some (.file [120] 0o644 0)
      else base.get q,
    dom := base.dom ++ (P "/h/.local/share/Trash/files" ++ [b "x"]) :: (P "/h/.local/share/Trash/files" ++ [b "x_4242"]) ::
      (List.range 99).map fun i => P "/h/.local/share/Trash/files" ++ [b "x_" ++ Bytes.ofNat (i + 1)] }

/-- one scripted answer of `random.randint` -/
def stRandom : PutSt := ⟨[], [500]⟩

theorem random_supply : (classesS cfg0 [b "/p/x", b "/q/x"] stRandom fsCrowded = [0, 5] ∧
    classesS cfg0 [b "/q/x"] stRandom fsCrowded = [0]) ∧ ¬ C16.C16_independence_full :=
  refute' cfg0 (b "/p/x") (b "/q/x") stRandom fsCrowded _ _ (by decide) (by decide +kernel)
    (by decide +kernel) (by decide)

/-- `--trash-dir /m/t`, a trash directory on the volume `/m` -/
def cfgOther : PutCfg := { cfg0 with trashDir := some (b "/m/t") }
/-- the file `/x` on the root volume, the second volume `/m` -/
def fsOther : FS := FS.ofList [D "/", D "/h", D "/m", Fl "/x"] [[], P "/m"]

theorem inert_examples :
    Inert cfg0 fsDotdot (b "/a/..") ∧ Inert cfg0 fsDotdot (b "/nope") ∧ Inert cfgOther fsOther (b "/x") ∧
    inertOutcome cfgOther fsOther (b "/x") = .failedAll [.differentVolumes] :=
  ⟨inert_of (by decide +kernel), inert_of (by decide +kernel), inert_of (by decide +kernel), by
    unfold inertOutcome volumeFor rejectReason
    simp only [pLexists_eq, volumeOf_eq, realpathStr_eq, candidatesFor_eq, securityCheck_eq, gateCheck_eq]
    decide +kernel⟩

end Cex

end TrashVerif.Proofs.C16Indep
