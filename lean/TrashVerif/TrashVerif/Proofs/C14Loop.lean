/-
  Proofs/C14Loop.lean — proofs of the loop-level statements of Props/C14Loop.lean: what the loop
  `emptyInfos` prints under `--dry-run`, what it removes (and prints under `-v`) without, and the
  comparison of the two; the interactive guard of `runEmpty`.
-/
import TrashVerif.Props.C14LoopDefs
import TrashVerif.Proofs.C10Loop
namespace TrashVerif.Proofs.C14Loop
open TrashVerif Prog FS PutCore PutLemmas C04 C11 C09Hist C10Loop C14Loop
open TrashVerif.Proofs.C09Hist (GeoI)
open TrashVerif.Proofs.C15 (G)
open TrashVerif.Proofs.C10Loop

/-! ### lists -/

theorem selectedInfos_infoStrs (fs : FS) (cwd : CPath) (o : EmptyOpts) (t : Bytes) (names : List Bytes) :
    selectedInfos fs cwd o (infoStrs t names) = infoStrs t (emptySelected fs cwd o t names) := by
  unfold selectedInfos infoStrs emptySelected
  rw [List.filter_map]
  rfl

theorem flatMap_infoStrs (t : Bytes) (ns : List Bytes) :
    ((infoStrs t ns).flatMap fun i => [pathOfBackupCopy i, i]) = pathsOf t ns := by
  unfold infoStrs pathsOf
  rw [List.flatMap_map]
  rfl

theorem pathsOf_cons (t n : Bytes) (ns : List Bytes) :
    pathsOf t (n :: ns) = pathOfBackupCopy (infoStr t n) :: infoStr t n :: pathsOf t ns := rfl

theorem pathsOf_append (t : Bytes) (a c : List Bytes) : pathsOf t (a ++ c) = pathsOf t a ++ pathsOf t c := by
  unfold pathsOf; exact List.flatMap_append

theorem mem_pathsOf {t : Bytes} {ns : List Bytes} {p : Bytes} :
    p ∈ pathsOf t ns ↔ ∃ n ∈ ns, p = pathOfBackupCopy (infoStr t n) ∨ p = infoStr t n := by
  unfold pathsOf entryPaths
  simp only [List.mem_flatMap, List.mem_cons, List.not_mem_nil, or_false]

/-! ### `--dry-run`: the loop prints, and does nothing else -/

theorem run_emptyPathR_dry (φ : Oracle) (o : EmptyOpts) (h : o.dryRun = true) (path : Bytes) (p : Except Errno CPath)
    (s : RunState) : run φ (emptyPathR o path p) s = ((), { s with outs := dryLine path :: s.outs }) := by
  unfold emptyPathR
  rw [if_pos h]
  rfl

/-- the dry-run loop over ANY list of info strings, from any state, under any oracle: the whole
    result -/
theorem dry_infos (φ : Oracle) (cwd : CPath) (o : EmptyOpts) (h : o.dryRun = true) :
    ∀ (infos : List Bytes) (s : RunState), (∀ i ∈ infos, ∀ c, okToDelete s.fs cwd o i ≠ .crash c) →
      run φ (emptyInfos cwd o infos) s =
        (none, { s with outs :=
          (((selectedInfos s.fs cwd o infos).flatMap fun i => [pathOfBackupCopy i, i]).map dryLine).reverse ++ s.outs }) := by
  intro infos
  induction infos with
  | nil => intro s _; rfl
  | cons i rest ih =>
    intro s hnc
    rw [emptyInfos, run_read_bind]
    cases hdec : okToDelete s.fs cwd o i with
    | crash c => exact absurd hdec (hnc i List.mem_cons_self c)
    | keep =>
      simp only []
      have hsel : selectedInfos s.fs cwd o (i :: rest) = selectedInfos s.fs cwd o rest := by
        unfold selectedInfos
        rw [List.filter_cons_of_neg (by simp [hdec])]
      rw [hsel]
      exact ih s fun j hj => hnc j (List.mem_cons_of_mem _ hj)
    | delete =>
      simp only []
      have hsel : selectedInfos s.fs cwd o (i :: rest) = i :: selectedInfos s.fs cwd o rest := by
        unfold selectedInfos
        rw [List.filter_cons_of_pos (by simp [hdec])]
      rw [hsel, run_bind, run_emptyPathR_dry φ o h, run_bind, run_emptyPathR_dry φ o h]
      have := ih { s with outs := dryLine i :: dryLine (pathOfBackupCopy i) :: s.outs }
        fun j hj => hnc j (List.mem_cons_of_mem _ hj)
      refine this.trans ?_
      simp only [List.flatMap_cons, List.map_cons, List.reverse_cons, List.nil_append, List.append_assoc,
        List.cons_append]

/-- … when a decision overflows: the loop stops there, having announced the selected entries before -/
theorem dry_infos_crash (φ : Oracle) (cwd : CPath) (o : EmptyOpts) (h : o.dryRun = true)
    (pre post : List Bytes) (i : Bytes) (c : Crash) (s : RunState)
    (hpre : ∀ j ∈ pre, ∀ c', okToDelete s.fs cwd o j ≠ .crash c')
    (hi : okToDelete s.fs cwd o i = .crash c) :
    run φ (emptyInfos cwd o (pre ++ i :: post)) s =
      (some c, { s with outs :=
        (((selectedInfos s.fs cwd o pre).flatMap fun i => [pathOfBackupCopy i, i]).map dryLine).reverse ++ s.outs }) := by
  rw [emptyInfos_append, dry_infos φ cwd o h pre s hpre]
  simp only []
  rw [emptyInfos, run_read_bind]
  show run φ (match okToDelete s.fs cwd o i with
    | .crash c => pure (some c)
    | .keep => emptyInfos cwd o post
    | .delete => _) _ = _
  rw [hi]
  rfl

/-! ### the real loop: what it removes and what `-v` prints -/

/-- the lines of a run without `--dry-run`: one "removing" line per path under `-v`, nothing otherwise -/
def vlines (o : EmptyOpts) (ps : List Bytes) : List Out := if o.verbose > 0 then ps.map removingLine else []

theorem vlines_append (o : EmptyOpts) (a c : List Bytes) : vlines o (a ++ c) = vlines o a ++ vlines o c := by
  unfold vlines
  split
  · exact List.map_append
  · rfl

/-- one path handled for real, when the removal succeeds: the `-v` line and nothing else is printed -/
theorem emptyPathR_real_outs (o : EmptyOpts) (hdry : o.dryRun = false) (path : Bytes) (p : CPath) (s : RunState)
    (hok : (run noFaults (removeIfExists p) s).1 = .ok ()) :
    (run noFaults (emptyPathR o path (.ok p)) s).2.outs = (vlines o [path]).reverse ++ s.outs := by
  have tail : ∀ s' : RunState, s'.fs = s.fs →
      (run noFaults (removeIfExistsR (.ok p) >>= fun r => match r with
        | .ok () => (pure () : Prog Unit)
        | .error _ => say (.stderr "cannot-remove" path)) s').2.outs = s'.outs := by
    intro s' hs'
    rw [run_bind]
    have h1 : (run noFaults (removeIfExists p) s').1 = .ok () := by
      rw [(Proofs.C16Indep.run_noFaults_fs (removeIfExists p) s' s hs').1]; exact hok
    have h2 := silent_outs noFaults (removeIfExists p) s' (em_removeIfExists (P := fun _ => False) p)
    show (run noFaults (match (run noFaults (removeIfExists p) s').1 with
        | .ok () => (pure () : Prog Unit)
        | .error _ => say (.stderr "cannot-remove" path)) (run noFaults (removeIfExists p) s').2).2.outs = _
    rw [h1]
    exact h2
  unfold emptyPathR
  rw [if_neg (by simp [hdry])]
  unfold vlines
  by_cases hv : o.verbose > 0
  · simp only [hv, if_true]
    rw [run_bind, run_say]
    exact (tail { s with outs := Out.stdout (b "removing " ++ path) :: s.outs } rfl).trans rfl
  · simp only [hv, if_false]
    exact (tail s rfl).trans rfl

/-- both paths of one entry -/
theorem entry_real_outs {I F : CPath} (g : GeoI I F) (n : Bytes) (o : EmptyOpts) (hdry : o.dryRun = false)
    (pstr istr : Bytes) (s : RunState) (hGi : G (I ++ [n]) s.fs) (hGp : G (F ++ [stemOf n]) s.fs) :
    (run noFaults (emptyPathR o istr (.ok (I ++ [n]))) (run noFaults (emptyPathR o pstr (.ok (F ++ [stemOf n]))) s).2).2.outs =
      (vlines o [pstr, istr]).reverse ++ s.outs := by
  have ok1 := (removeIfExists_all_gone _ s hGp).1
  have step1 := step_of_iss g n noFaults (iss_payload (I := I) n (iss_removeIfExists (F ++ [stemOf n]))) s
  have e := emptyPathR_fs o hdry pstr (F ++ [stemOf n]) s
  have hGi' : G (I ++ [n]) (run noFaults (emptyPathR o pstr (.ok (F ++ [stemOf n]))) s).2.fs := by
    rw [e]; exact step1.tree _ hGi
  have ok2 := (removeIfExists_all_gone _ _ hGi').1
  rw [emptyPathR_real_outs o hdry istr _ _ ok2, emptyPathR_real_outs o hdry pstr _ s ok1]
  rw [show [pstr, istr] = [pstr] ++ [istr] from rfl, vlines_append, List.reverse_append, List.append_assoc]

/-- the real loop, from any state: `Proofs.C10Loop.emptyInfos_loop` with the output, and with the setting
    of any further names `extra` carried to the final state -/
theorem real_infos (o : EmptyOpts) (hdry : o.dryRun = false) (cwd : CPath) (t : Bytes) (I F : CPath) (extra : List Bytes) :
    ∀ (names : List Bytes) (s : RunState), Setting s.fs cwd t I F (names ++ extra) →
      (∀ n ∈ names, ∀ c, okToDelete s.fs cwd o (infoStr t n) ≠ .crash c) →
      (run noFaults (emptyInfos cwd o (infoStrs t names)) s).1 = none ∧
      PurgedExactly s.fs (run noFaults (emptyInfos cwd o (infoStrs t names)) s).2.fs I F
        (emptySelected s.fs cwd o t names) ∧
      (run noFaults (emptyInfos cwd o (infoStrs t names)) s).2.outs =
        (vlines o (pathsOf t (emptySelected s.fs cwd o t names))).reverse ++ s.outs ∧
      Setting (run noFaults (emptyInfos cwd o (infoStrs t names)) s).2.fs cwd t I F extra := by
  intro names
  induction names with
  | nil => intro s S _; exact ⟨rfl, purged_nil _ _ _, by simp [emptySelected, pathsOf, vlines]; rfl, S⟩
  | cons n rest ih =>
    intro s S0 hnc
    have S : Setting s.fs cwd t I F (n :: (rest ++ extra)) := S0
    have g := setting_geo S
    have hmem : n ∈ n :: (rest ++ extra) := List.mem_cons_self
    have hnd := List.nodup_cons.1 S.nodup
    show (run noFaults (emptyInfos cwd o (infoStr t n :: infoStrs t rest)) s).1 = none ∧
      PurgedExactly s.fs (run noFaults (emptyInfos cwd o (infoStr t n :: infoStrs t rest)) s).2.fs I F _ ∧
      (run noFaults (emptyInfos cwd o (infoStr t n :: infoStrs t rest)) s).2.outs = _ ∧
      Setting (run noFaults (emptyInfos cwd o (infoStr t n :: infoStrs t rest)) s).2.fs cwd t I F extra
    rw [emptyInfos, run_read_bind]
    cases hdec : okToDelete s.fs cwd o (infoStr t n) with
    | crash c => exact absurd hdec (hnc n List.mem_cons_self c)
    | keep =>
      simp only []
      have hsel : emptySelected s.fs cwd o t (n :: rest) = emptySelected s.fs cwd o t rest := by
        unfold emptySelected
        rw [List.filter_cons_of_neg (by simp [hdec])]
      rw [hsel]
      exact ih s (setting_tail S) fun m hm => hnc m (List.mem_cons_of_mem _ hm)
    | delete =>
      simp only []
      obtain ⟨r1, r2⟩ := S.resolves s.fs (within_refl I F s.fs) n hmem
      rw [r1, r2, run_bind, run_bind]
      obtain ⟨hGi, hGp⟩ := setting_G S hmem
      have R := removed_empty g n o hdry (pathOfBackupCopy (infoStr t n)) (infoStr t n) s hGi hGp
      have O := entry_real_outs g n o hdry (pathOfBackupCopy (infoStr t n)) (infoStr t n) s hGi hGp
      generalize (run noFaults (emptyPathR o (infoStr t n) (.ok (I ++ [n])))
        (run noFaults (emptyPathR o (pathOfBackupCopy (infoStr t n)) (.ok (F ++ [stemOf n]))) s).2).2 = s2 at R O ⊢
      have S2 := setting_step S R.step
      have hst : ∀ m ∈ rest, okToDelete s2.fs cwd o (infoStr t m) = okToDelete s.fs cwd o (infoStr t m) := fun m hm =>
        okToDelete_stable o (setting_tail S) R.step.within (List.mem_append_left _ hm)
          (R.step.other_info g (S.isInfo n hmem) (S.isInfo m (List.mem_cons_of_mem _ (List.mem_append_left _ hm)))
            (fun e => hnd.1 (e ▸ List.mem_append_left _ hm)))
      obtain ⟨a, P, c, Sx⟩ := ih s2 S2 fun m hm c => by rw [hst m hm]; exact hnc m (List.mem_cons_of_mem _ hm) c
      rw [emptySelected_congr hst] at P c
      have hsel : emptySelected s.fs cwd o t (n :: rest) = n :: emptySelected s.fs cwd o t rest := by
        unfold emptySelected
        rw [List.filter_cons_of_pos (by simp [hdec])]
      rw [hsel]
      refine ⟨a, purged_cons g (S.isInfo n hmem) (fun d hd => ?_) R P, ?_, Sx⟩
      · have hd' : d ∈ rest := (List.mem_filter.1 hd).1
        exact ⟨S.isInfo d (List.mem_cons_of_mem _ (List.mem_append_left _ hd')), fun e => hnd.1 (e ▸ List.mem_append_left _ hd')⟩
      · rw [c, O]
        rw [show pathsOf t (n :: emptySelected s.fs cwd o t rest) =
          [pathOfBackupCopy (infoStr t n), infoStr t n] ++ pathsOf t (emptySelected s.fs cwd o t rest) from rfl,
          vlines_append, List.reverse_append, List.append_assoc]

/-! ### the root paths before and after the real loop -/

section after
variable {fs fs' : FS} {cwd : CPath} {t : Bytes} {I F : CPath} {names : List Bytes}

/-- in every reachable state the two path strings of a listed name are looked up at `info/N.trashinfo`
    and `files/N` -/
theorem lstat_info (S : Setting fs cwd t I F names) (hW : Within I F fs fs') {n : Bytes} (hn : n ∈ names) :
    lstat fs' cwd (infoStr t n) = fs'.get (I ++ [n]) ∧
    lstat fs' cwd (pathOfBackupCopy (infoStr t n)) = fs'.get (F ++ [stemOf n]) := by
  obtain ⟨r1, r2⟩ := S.resolves fs' hW n hn
  unfold lstat
  rw [r1, r2]
  exact ⟨rfl, rfl⟩

theorem pLexists_info (S : Setting fs cwd t I F names) (hW : Within I F fs fs') {n : Bytes} (hn : n ∈ names) :
    pLexists fs' cwd (infoStr t n) = (fs'.get (I ++ [n])).isSome ∧
    pLexists fs' cwd (pathOfBackupCopy (infoStr t n)) = (fs'.get (F ++ [stemOf n])).isSome := by
  unfold pLexists
  rw [(lstat_info S hW hn).1, (lstat_info S hW hn).2]
  exact ⟨rfl, rfl⟩

/-- after the removal of the entries `D` (listed names): the paths of the entries of `D` do not
    exist, the paths of every other listed entry are what they were -/
theorem paths_after (S : Setting fs cwd t I F names) {D : List Bytes} (hD : ∀ d ∈ D, d ∈ names)
    (P : PurgedExactly fs fs' I F D) :
    (∀ p ∈ pathsOf t D, pLexists fs' cwd p = false) ∧
    (∀ p ∈ pathsOf t names, p ∉ pathsOf t D → lstat fs' cwd p = lstat fs cwd p) := by
  have hW := purged_within P
  have g := setting_geo S
  refine ⟨fun p hp => ?_, fun p hp hnp => ?_⟩
  · obtain ⟨n, hn, e⟩ := mem_pathsOf.1 hp
    have h1 := P.infoGone n hn []
    have h2 := P.payloadGone n hn []
    rw [List.append_nil] at h1 h2
    rcases e with rfl | rfl
    · rw [(pLexists_info S hW (hD n hn)).2, h2]; rfl
    · rw [(pLexists_info S hW (hD n hn)).1, h1]; rfl
  · obtain ⟨n, hn, e⟩ := mem_pathsOf.1 hp
    have hnD : n ∉ D := fun h => hnp (mem_pathsOf.2 ⟨n, h, e⟩)
    obtain ⟨k1, k2⟩ := purged_other g P (fun d hd => S.isInfo d (hD d hd)) (S.isInfo n hn) hnD
    have h1 := k1 []
    have h2 := k2 []
    rw [List.append_nil] at h1 h2
    rcases e with rfl | rfl
    · rw [(lstat_info S hW hn).2, (lstat_info S (within_refl I F fs) hn).2, h2]
    · rw [(lstat_info S hW hn).1, (lstat_info S (within_refl I F fs) hn).1, h1]

end after

/-- filtering the paths of a sublist selected by `sel` against filtering all paths -/
theorem filter_paths (t : Bytes) (sel : Bytes → Bool) (A B : Bytes → Bool) : ∀ l : List Bytes,
    (∀ n ∈ l, sel n = true → ∀ p ∈ entryPaths t n, B p = A p) →
    (∀ n ∈ l, sel n = false → ∀ p ∈ entryPaths t n, B p = false) →
    (pathsOf t (l.filter sel)).filter A = (pathsOf t l).filter B := by
  intro l
  induction l with
  | nil => intro _ _; rfl
  | cons n rest ih =>
    intro h1 h2
    have ihr := ih (fun m hm => h1 m (List.mem_cons_of_mem _ hm)) (fun m hm => h2 m (List.mem_cons_of_mem _ hm))
    have e : pathsOf t (n :: rest) = entryPaths t n ++ pathsOf t rest := rfl
    cases hs : sel n with
    | true =>
      rw [List.filter_cons_of_pos hs, e, show pathsOf t (n :: rest.filter sel) = entryPaths t n ++ pathsOf t (rest.filter sel) from rfl,
        List.filter_append, List.filter_append, ihr]
      congr 1
      exact List.filter_congr fun p hp => (h1 n List.mem_cons_self hs p hp).symm
    | false =>
      rw [List.filter_cons_of_neg (by simp [hs]), e, List.filter_append, ihr]
      have : (entryPaths t n).filter B = [] := by
        rw [List.filter_eq_nil_iff]
        intro p hp
        rw [h2 n List.mem_cons_self hs p hp]
        simp
      rw [this, List.nil_append]

/-- two listed names with a common path string are the same name: the strings resolve apart -/
theorem paths_inj {fs : FS} {cwd : CPath} {t : Bytes} {I F : CPath} {all : List Bytes}
    (S : Setting fs cwd t I F all) {n m p : Bytes} (hn : n ∈ all) (hm : m ∈ all)
    (hpn : p ∈ entryPaths t n) (hpm : p ∈ entryPaths t m) : n = m := by
  have hpn : p = pathOfBackupCopy (infoStr t n) ∨ p = infoStr t n := by simpa [entryPaths] using hpn
  have e : p = pathOfBackupCopy (infoStr t m) ∨ p = infoStr t m := by simpa [entryPaths] using hpm
  have g := setting_geo S
  obtain ⟨a1, a2⟩ := S.resolves fs (within_refl I F fs) n hn
  obtain ⟨c1, c2⟩ := S.resolves fs (within_refl I F fs) m hm
  rcases hpn with rfl | rfl <;> rcases e with e | e
  · rw [e, c2] at a2
    exact stem_inj (S.isInfo n hn) (S.isInfo m hm) (Proofs.C09.concat_inj (Except.ok.inj a2).symm).2
  · rw [e, c1] at a2
    exact absurd (Except.ok.inj a2) fun h => pay_not_pfx_info g (stemOf n) m (h ▸ List.prefix_rfl)
  · rw [e, c2] at a1
    exact absurd (Except.ok.inj a1).symm fun h => pay_not_pfx_info g (stemOf m) n (h ▸ List.prefix_rfl)
  · rw [e, c1] at a1
    exact (Proofs.C09.concat_inj (Except.ok.inj a1).symm).2

/-- the comparison: `l` is a list of listed names, `D` the removed entries, `sel` says which names of `l`
    are among them.  Of the paths of the selected names of `l`, those that exist are exactly the paths of
    `l` that exist before and no longer after. -/
theorem selected_existing_eq_removed {fs fs' : FS} {cwd : CPath} {t : Bytes} {I F : CPath} {all : List Bytes}
    (S : Setting fs cwd t I F all) (l : List Bytes) (hl : ∀ n ∈ l, n ∈ all) (D : List Bytes) (hD : ∀ d ∈ D, d ∈ all)
    (sel : Bytes → Bool) (hsel : ∀ n ∈ l, (sel n = true ↔ n ∈ D)) (P : PurgedExactly fs fs' I F D) :
    (pathsOf t (l.filter sel)).filter (pLexists fs cwd) = removedOf fs fs' cwd (pathsOf t l) := by
  obtain ⟨gone, kept⟩ := paths_after S hD P
  unfold removedOf
  refine filter_paths t sel _ _ l (fun n hn hs p hp => ?_) (fun n hn hs p hp => ?_)
  · have hp' : p ∈ pathsOf t D := by
      unfold pathsOf; exact List.mem_flatMap.2 ⟨n, (hsel n hn).1 hs, hp⟩
    rw [gone p hp']
    simp
  · have hp' : p ∈ pathsOf t all := by unfold pathsOf; exact List.mem_flatMap.2 ⟨n, hl n hn, hp⟩
    have hnp : p ∉ pathsOf t D := by
      intro hq
      unfold pathsOf at hq
      obtain ⟨m, hm, hpm⟩ := List.mem_flatMap.1 hq
      have hnm := paths_inj S (hl n hn) (hD m hm) hp hpm
      rw [← hnm] at hm
      rw [(hsel n hn).2 hm] at hs
      cases hs
    have := kept p hp' hnp
    unfold pLexists
    rw [this]
    cases (lstat fs cwd p).isSome <;> rfl

/-! ### the interactive guard -/

theorem replyYes_take (r : Bytes) : emptyReplyYes (r.take 1) = emptyReplyYes r := by
  cases r with
  | nil => rfl
  | cons c cs => rfl

theorem replyYes_head (r : Bytes) : emptyReplyYes r = (r.head? == some 121 || r.head? == some 89) := by
  cases r with
  | nil => rfl
  | cons c cs =>
    simp only [emptyReplyYes, List.head?_cons]
    by_cases h1 : c = 121
    · simp [h1]
    · by_cases h2 : c = 89
      · simp [h2]
      · simp [h1, h2]

/-- a reply that is not a yes: the whole result of the run -/
theorem run_refused (φ : Oracle) (c : ReadCfg) (o : EmptyOpts) (r : Bytes) (s : RunState)
    (hi : o.interactive = true) (hr : emptyReplyYes r = false) :
    run φ (runEmpty c o (some r)) s = ({ exit := 0 }, s) := by
  unfold runEmpty
  rw [run_read_bind]
  simp only [hi, if_true, hr]
  rfl

/-- end of input: the whole result of the run -/
theorem run_eof (φ : Oracle) (c : ReadCfg) (o : EmptyOpts) (s : RunState) (hi : o.interactive = true) :
    run φ (runEmpty c o none) s =
      ({ exit := 1, crash := some .eof }, { s with outs := .stderr "traceback" [] :: s.outs }) := by
  unfold runEmpty
  rw [run_read_bind]
  simp only [hi, if_true]
  rfl

/-- the run depends on the first byte of the reply only -/
theorem run_first_byte (φ : Oracle) (c : ReadCfg) (o : EmptyOpts) (r : Bytes) (s : RunState) :
    run φ (runEmpty c o (some r)) s = run φ (runEmpty c o (some (r.take 1))) s := by
  unfold runEmpty
  rw [run_read_bind, run_read_bind]
  simp only [replyYes_take]

end TrashVerif.Proofs.C14Loop
