/-
  Proofs/C19CmdEx.lean — a concrete trash directory for Props/C19Cmd.lean: `/m/.Trash-1000` (volume `/m`,
  uid 1000) with two well-formed entries and four malformed neighbours (an empty file, a file without
  `Path=` line, a file of invalid UTF-8 bytes, a directory) plus a foreign file `README`; the four
  commands evaluated by the kernel through the twins (Proofs/C10LoopEval.lean,
  Proofs/C08CmdEval.lean, Proofs/C02CmdEval.lean), the theorems instantiated, and kernel-checked
  counterexamples.
-/
import TrashVerif.Proofs.C19Cmd
import TrashVerif.Proofs.C10LoopEx
import TrashVerif.Proofs.C13CmdEx
import TrashVerif.Proofs.C08CmdEx
namespace TrashVerif.Proofs.C19CmdEx
open TrashVerif Prog FS PutCore C09Hist C10Loop C19Cmd ReadDefs
open TrashVerif.Proofs.C16Eval TrashVerif.Proofs.C02CmdEval TrashVerif.Proofs.C10LoopEval
open TrashVerif.Proofs.C10LoopEx (setting_of_check plainCheck plain_of_check)

/-! ### a checker: two worlds agree at and below a path -/

def sameBelowB (A B : FS) (P : CPath) : Bool :=
  (A.dom.all fun q => !FS.under P q || decide (B.get q = A.get q)) &&
  (B.dom.all fun q => !FS.under P q || decide (B.get q = A.get q))

theorem sameBelow_of_check {A B : FS} (wa : DomWf A) (wb : DomWf B) {P : CPath} (h : sameBelowB A B P = true) :
    ∀ rel, B.get (P ++ rel) = A.get (P ++ rel) := by
  unfold sameBelowB at h
  simp only [Bool.and_eq_true, List.all_eq_true, Bool.or_eq_true, Bool.not_eq_true', decide_eq_true_eq] at h
  intro rel
  have hu : FS.under P (P ++ rel) = true := (PutLemmas.under_iff _ _).2 (List.prefix_append _ _)
  by_cases ha : (A.get (P ++ rel)).isSome = true
  · rcases h.1 _ (wa _ ha) with e | e
    · rw [hu] at e; cases e
    · exact e
  · by_cases hb : (B.get (P ++ rel)).isSome = true
    · rcases h.2 _ (wb _ hb) with e | e
      · rw [hu] at e; cases e
      · exact e
    · simp only [Bool.not_eq_true, Option.isSome_eq_false_iff, Option.isNone_iff_eq_none] at ha hb
      rw [ha, hb]

namespace Demo

def dirN : Node := .dir 0o755 7
/-- `/m/.Trash-1000`, its `info/` and `files/` -/
def T : CPath := [b "m", b ".Trash-1000"]
def I : CPath := T ++ [b "info"]
def F : CPath := T ++ [b "files"]
def oldN : Bytes := b "old.trashinfo"
def newN : Bytes := b "new.trashinfo"
def emptyN : Bytes := b "empty.trashinfo"
def nopathN : Bytes := b "nopath.trashinfo"
def utf8N : Bytes := b "utf8.trashinfo"
def dirI : Bytes := b "dir.trashinfo"
def oldText : Bytes := b "[Trash Info]\nPath=old\nDeletionDate=2020-01-01T00:00:00\n"
def newText : Bytes := b "[Trash Info]\nPath=new\nDeletionDate=2024-03-01T12:00:00\n"

/-- the well-formed entries `old` (2020-01-01, payload a directory holding a file) and `new`
    (2024-03-01 12:00); the neighbours `empty` (an empty file; it has a payload), `nopath` (no `Path=`
    line, an invalid date), `utf8` (bytes that are not UTF-8), `dir` (a directory: unreadable); the
    foreign file `README`; `/m/keep` outside.  `/` and `/m` are mount points. -/
def W : FS := FS.ofList [
  ([], dirN), ([b "m"], dirN), (T, .dir 0o700 7), (I, dirN), (F, dirN),
  (I ++ [b "README"], .file (b "not an entry\n") 0o644 3),
  (I ++ [oldN], .file oldText 0o600 3),
  (I ++ [newN], .file newText 0o600 3),
  (I ++ [emptyN], .file [] 0o600 3),
  (I ++ [nopathN], .file (b "[Trash Info]\nDeletionDate=2020-13-45T00:00:00\n") 0o600 3),
  (I ++ [utf8N], .file [0xff, 0xfe, 0x80, 0x0a] 0o600 3),
  (I ++ [dirI], dirN),
  (F ++ [b "old"], dirN), (F ++ [b "old", b "x"], .file [120] 0o644 3),
  (F ++ [b "new"], .file [121] 0o644 3),
  (F ++ [b "empty"], .file [122] 0o644 3),
  ([b "m", b "keep"], .file [124] 0o644 3)] [[], [b "m"]]

/-- the trash directory and its volume as the scanners spell them -/
def t : Bytes := b "/m/.Trash-1000"
def v : Bytes := b "/m"

/-- the `*.trashinfo` names of `info/`, in directory order: the malformed ones are interleaved -/
def names : List Bytes := [dirI, emptyN, newN, nopathN, oldN, utf8N]
def good : List Bytes := [newN, oldN]

def rc : ReadCfg := { cwd := [], env := {}, uid := 1000, mountPoints := [b "/m"] }
/-- `trash-empty 1` on 2024-03-02 00:00:00 -/
def o1 : EmptyOpts := { days := some 1, now := ⟨2024, 3, 2, 0, 0, 0⟩ }
/-- `trash-restore /` -/
def op : RestoreOpts := { path := b "/" }

theorem tStr : toStr T = t := by decide +kernel

theorem W_wf : DomWf W := Proofs.C09Hist.domwf_ofList _ _

theorem W_setting (cwd : CPath) : Setting W cwd t I F names := by
  rw [← tStr]
  exact setting_of_check cwd W_wf (by decide +kernel)

theorem W_sub : good.Sublist names := by decide +kernel

theorem W_names : (infoNames W I).filter isTrashinfoName = names := by
  unfold infoNames; rw [sortedChildren_eq]; decide +kernel

theorem W_resolves : FS.resolve W [] (pjoin t (b "info")) true = .ok I := by rw [resolve_eq]; decide +kernel

theorem W_infos : infosOf W [] t = .ok (infoStrs t names) := by
  rw [Proofs.C10LoopEval.infosOf_eq]; decide +kernel

/-! #### trash-empty 1 -/

/-- the decisions, evaluated: `old` is deleted, `new` kept; each neighbour is kept for a reason of
    its own (unreadable, or no valid date) -/
theorem W_decisions :
    okToDelete W [] o1 (infoStr t oldN) = .delete ∧ okToDelete W [] o1 (infoStr t newN) = .keep ∧
    okToDelete W [] o1 (infoStr t dirI) = .keep ∧ okToDelete W [] o1 (infoStr t emptyN) = .keep ∧
    okToDelete W [] o1 (infoStr t nopathN) = .keep ∧ okToDelete W [] o1 (infoStr t utf8N) = .keep := by
  simp only [Proofs.C10LoopEval.okToDelete_eq]; decide +kernel

theorem W_bad_kept : ∀ n ∈ names, n ∉ good → okToDelete W [] o1 (infoStr t n) = .keep := by
  intro n hn hng
  simp only [names, List.mem_cons, List.not_mem_nil, or_false] at hn
  rcases hn with rfl | rfl | rfl | rfl | rfl | rfl
  · exact W_decisions.2.2.1
  · exact W_decisions.2.2.2.1
  · exact absurd (by decide +kernel) hng
  · exact W_decisions.2.2.2.2.1
  · exact absurd (by decide +kernel) hng
  · exact W_decisions.2.2.2.2.2

theorem W_good_nocrash : ∀ n ∈ good, ∀ c, okToDelete W [] o1 (infoStr t n) ≠ .crash c := by
  intro n hn c
  simp only [good, List.mem_cons, List.not_mem_nil, or_false] at hn
  rcases hn with rfl | rfl
  · rw [W_decisions.2.1]; exact fun h => nomatch h
  · rw [W_decisions.1]; exact fun h => nomatch h

/-- the neighbours are malformed in the words of `malformed_is_kept_by_days` -/
theorem W_bad_undated :
    (contentsOf W [] (infoStr t dirI)).bind parseDeletionDate = none ∧
    (contentsOf W [] (infoStr t emptyN)).bind parseDeletionDate = none ∧
    (contentsOf W [] (infoStr t nopathN)).bind parseDeletionDate = none ∧
    (contentsOf W [] (infoStr t utf8N)).bind parseDeletionDate = none := by
  simp only [contentsOf_eq]; decide +kernel

/-- the run over the whole listing, evaluated: no crash; `old` is gone whole; `new`, the four
    neighbours (with the payload of `empty`), `README` and `/m/keep` are what they were -/
theorem W_empty_run :
    (run noFaults (emptyInfos [] o1 (infoStrs t names)) { fs := W }).1 = none ∧
    (run noFaults (emptyInfos [] o1 (infoStrs t names)) { fs := W }).2.outs = [] ∧
    (run noFaults (emptyInfos [] o1 (infoStrs t names)) { fs := W }).2.fs.toList =
      [([], dirN), ([b "m"], dirN), (T, .dir 0o700 7), (I, .dir 0o755 0), (F, .dir 0o755 0),
       (I ++ [b "README"], .file (b "not an entry\n") 0o644 3),
       (I ++ [newN], .file newText 0o600 3),
       (I ++ [emptyN], .file [] 0o600 3),
       (I ++ [nopathN], .file (b "[Trash Info]\nDeletionDate=2020-13-45T00:00:00\n") 0o600 3),
       (I ++ [utf8N], .file [0xff, 0xfe, 0x80, 0x0a] 0o600 3),
       (I ++ [dirI], dirN),
       (F ++ [b "new"], .file [121] 0o644 3),
       (F ++ [b "empty"], .file [122] 0o644 3),
       ([b "m", b "keep"], .file [124] 0o644 3)] := by
  rw [Proofs.C10LoopEval.emptyInfos_eq]; decide +kernel

/-! #### trash-rm 'o*' -/

theorem W_bad_unparsable : ∀ n ∈ names, n ∉ good → rmUnparsable W [] (infoStr t n) = true := by
  have h : rmUnparsable W [] (infoStr t dirI) = true ∧ rmUnparsable W [] (infoStr t emptyN) = true ∧
      rmUnparsable W [] (infoStr t nopathN) = true ∧ rmUnparsable W [] (infoStr t utf8N) = true := by
    unfold rmUnparsable; simp only [contentsOf_eq]; decide +kernel
  intro n hn hng
  simp only [names, List.mem_cons, List.not_mem_nil, or_false] at hn
  rcases hn with rfl | rfl | rfl | rfl | rfl | rfl
  · exact h.1
  · exact h.2.1
  · exact absurd (by decide +kernel) hng
  · exact h.2.2.1
  · exact absurd (by decide +kernel) hng
  · exact h.2.2.2

theorem W_rm_selected : rmSelected W [] (b "o*") v t names = [oldN] ∧ rmSelected W [] (b "o*") v t good = [oldN] := by
  unfold rmSelected rmSelects; simp only [contentsOf_eq]; decide +kernel

/-- the run, evaluated: no crash, the four neighbours reported (newest first), `old` gone whole, `new`
    and the neighbours as before -/
theorem W_rm_run :
    (run noFaults (rmInfos [] (b "o*") v (infoStrs t names)) { fs := W }).1 = none ∧
    (run noFaults (rmInfos [] (b "o*") v (infoStrs t names)) { fs := W }).2.outs =
      [.stderr "unparsable" (b "/m/.Trash-1000/info/utf8.trashinfo"), .stderr "unparsable" (b "/m/.Trash-1000/info/nopath.trashinfo"),
       .stderr "unparsable" (b "/m/.Trash-1000/info/empty.trashinfo"), .stderr "unparsable" (b "/m/.Trash-1000/info/dir.trashinfo")] ∧
    (run noFaults (rmInfos [] (b "o*") v (infoStrs t good)) { fs := W }).2.outs = [] ∧
    (run noFaults (rmInfos [] (b "o*") v (infoStrs t names)) { fs := W }).2.fs.get (I ++ [oldN]) = none ∧
    (run noFaults (rmInfos [] (b "o*") v (infoStrs t names)) { fs := W }).2.fs.get (F ++ [b "old", b "x"]) = none ∧
    (run noFaults (rmInfos [] (b "o*") v (infoStrs t names)) { fs := W }).2.fs.get (I ++ [newN]) = W.get (I ++ [newN]) ∧
    (run noFaults (rmInfos [] (b "o*") v (infoStrs t names)) { fs := W }).2.fs.get (I ++ [emptyN]) = W.get (I ++ [emptyN]) ∧
    (run noFaults (rmInfos [] (b "o*") v (infoStrs t names)) { fs := W }).2.fs.get (F ++ [b "empty"]) = W.get (F ++ [b "empty"]) := by
  rw [Proofs.C10LoopEval.rmInfos_eq, Proofs.C10LoopEval.rmInfos_eq]; decide +kernel

/-! #### trash-list -/

theorem W_found : foundDirs (selectTrashDirs W rc []) = [(t, v)] := by
  rw [Proofs.C08CmdEval.selectTrashDirs_eq]; decide +kernel

theorem W_scan_found : (t, v) ∈ foundDirs (scanTrashDirs W rc) := by
  rw [Proofs.C08CmdEval.scanTrashDirs_eq]; decide +kernel

theorem W_listable : ∀ tv ∈ foundDirs (selectTrashDirs W rc []), ∃ l, infosOf W rc.cwd tv.1 = .ok l := by
  rw [W_found]
  intro tv htv
  rw [List.mem_singleton.1 htv]
  exact ⟨_, W_infos⟩

/-- trash-list evaluated: the two entries on stdout, one diagnostic per neighbour on stderr, in
    directory order; exit status 0, no traceback -/
theorem W_list_run :
    (run noFaults (runList rc []) { fs := W }).1.exit = 0 ∧ (run noFaults (runList rc []) { fs := W }).1.crash = none ∧
    (run noFaults (runList rc []) { fs := W }).2.outs.reverse =
      [.stderr "io-error" (b "/m/.Trash-1000/info/dir.trashinfo"),
       .stderr "parse-error" (b "/m/.Trash-1000/info/empty.trashinfo"),
       .stdout (b "2024-03-01 12:00:00 /m/new"),
       .stderr "parse-error" (b "/m/.Trash-1000/info/nopath.trashinfo"),
       .stdout (b "2020-01-01 00:00:00 /m/old"),
       .stderr "parse-error" (b "/m/.Trash-1000/info/utf8.trashinfo")] := by
  rw [Proofs.C08CmdEx.list_twin]; decide +kernel

theorem W_lines : listLines W [] [(t, v)] = [b "2024-03-01 12:00:00 /m/new", b "2020-01-01 00:00:00 /m/old"] := by
  unfold listLines infosList
  simp only [List.flatMap_cons, List.flatMap_nil, List.append_nil, W_infos]
  unfold lineOf
  simp only [contentsOf_eq]
  decide +kernel

/-! #### trash-restore -/

def eOld : Entry := { loc := b "/m/old", date := some ⟨2020, 1, 1, 0, 0, 0⟩, info := b "/m/.Trash-1000/info/old.trashinfo" }
def eNew : Entry := { loc := b "/m/new", date := some ⟨2024, 3, 1, 12, 0, 0⟩, info := b "/m/.Trash-1000/info/new.trashinfo" }
def itNew : C13Cmd.Item := { e := eNew, name := newN, dst := [b "m", b "new"] }

/-- the listing: 0 = `/m/old`, 1 = `/m/new`; the neighbours contribute nothing -/
theorem W_offered : C13Cmd.offered W rc op = [eOld, eNew] := by
  rw [Proofs.C13CmdEx.offered_twin]; decide +kernel

/-- `W` without the four neighbours and the foreign file -/
def Wg : FS := FS.ofList [
  ([], dirN), ([b "m"], dirN), (T, .dir 0o700 7), (I, dirN), (F, dirN),
  (I ++ [oldN], .file oldText 0o600 3),
  (I ++ [newN], .file newText 0o600 3),
  (F ++ [b "old"], dirN), (F ++ [b "old", b "x"], .file [120] 0o644 3),
  (F ++ [b "new"], .file [121] 0o644 3),
  (F ++ [b "empty"], .file [122] 0o644 3),
  ([b "m", b "keep"], .file [124] 0o644 3)] [[], [b "m"]]

theorem Wg_setting (cwd : CPath) : Setting Wg cwd t I F good := by
  rw [← tStr]
  exact setting_of_check cwd (Proofs.C09Hist.domwf_ofList _ _) (by decide +kernel)

theorem Wg_same : ∀ n ∈ good, EntryIntact W Wg I F n := by
  have h : ∀ n ∈ good, sameBelowB W Wg (I ++ [n]) = true ∧ sameBelowB W Wg (F ++ [stemOf n]) = true := by decide +kernel
  exact fun n hn => ⟨sameBelow_of_check W_wf (Proofs.C09Hist.domwf_ofList _ _) (h n hn).1,
    sameBelow_of_check W_wf (Proofs.C09Hist.domwf_ofList _ _) (h n hn).2⟩

/-! #### the purge-side theorems instantiated -/

theorem W_empty_theorem :
    run noFaults (emptyInfos [] o1 (infoStrs t names)) { fs := W } = run noFaults (emptyInfos [] o1 (infoStrs t good)) { fs := W } ∧
    emptySelected W [] o1 t names = emptySelected W [] o1 t good :=
  Proofs.C19Cmd.empty_neighbours_do_not_matter W [] t I F names good o1 (W_setting []) W_sub W_bad_kept

theorem W_empty_without :
    emptySelected W [] o1 t names = emptySelected Wg [] o1 t good ∧
    ∀ n ∈ good,
      (∀ rel, (run noFaults (emptyInfos [] o1 (infoStrs t names)) { fs := W }).2.fs.get (I ++ [n] ++ rel) =
        (run noFaults (emptyInfos [] o1 (infoStrs t good)) { fs := Wg }).2.fs.get (I ++ [n] ++ rel)) ∧
      (∀ rel, (run noFaults (emptyInfos [] o1 (infoStrs t names)) { fs := W }).2.fs.get (F ++ [stemOf n] ++ rel) =
        (run noFaults (emptyInfos [] o1 (infoStrs t good)) { fs := Wg }).2.fs.get (F ++ [stemOf n] ++ rel)) :=
  (Proofs.C19Cmd.empty_without_neighbours W Wg [] t I F names good o1 (W_setting []) (Wg_setting []) W_sub rfl
    W_bad_kept W_good_nocrash Wg_same).2.2

theorem W_rm_theorem :
    SameButOuts (run noFaults (rmInfos [] (b "o*") v (infoStrs t names)) { fs := W })
      (run noFaults (rmInfos [] (b "o*") v (infoStrs t good)) { fs := W }) ∧
    rmSelected W [] (b "o*") v t names = rmSelected W [] (b "o*") v t good :=
  have h := Proofs.C19Cmd.rm_neighbours_do_not_matter W [] t I F names good (b "o*") v (W_setting []) W_sub
    (fun n hn hng => Or.inl (W_bad_unparsable n hn hng))
  ⟨h.1, h.2.2⟩

/-! #### trash-restore: the scan without the neighbours, and a run -/

theorem W_listdir : listdirStr W [] (pjoin t (b "info")) = some (b "README" :: names) := by
  rw [listdirStr_eq]; decide +kernel

theorem Wg_listdir : listdirStr Wg [] (pjoin t (b "info")) = some good := by
  rw [listdirStr_eq]; decide +kernel

theorem W_restoreGood : restoreGood W [] t v (b "README" :: names) = good := by
  unfold restoreGood restoreItem; simp only [contentsOf_eq]; decide +kernel

theorem W_scan_same : restoreEntriesOf W [] t v = restoreEntriesOf Wg [] t v := by
  refine Proofs.C19Cmd.restore_scan_without_neighbours W Wg [] t v _ good W_listdir Wg_listdir (by decide +kernel)
    (by rw [W_restoreGood]; exact List.Sublist.refl _) ?_
  have h : ∀ n ∈ good, contentsOfS Wg [] (pjoin (pjoin t (b "info")) n) = contentsOfS W [] (pjoin (pjoin t (b "info")) n) := by
    decide +kernel
  intro n hn
  rw [contentsOf_eq, contentsOf_eq]
  exact h n hn

theorem W_restoreDirs : restoreTrashDirs W rc op.trashDir = [(t, v)] ∧ restoreTrashDirs Wg rc op.trashDir = [(t, v)] := by
  rw [restoreTrashDirs_eq, restoreTrashDirs_eq]; decide +kernel

/-- the offered list is the same with and without the neighbours -/
theorem W_offered_same : C13Cmd.offered Wg rc op = C13Cmd.offered W rc op :=
  (Proofs.C19Cmd.restore_neighbours_do_not_matter W Wg rc op (by rw [W_restoreDirs.1, W_restoreDirs.2])
    (fun tv htv => by
      rw [W_restoreDirs.1] at htv
      rw [List.mem_singleton.1 htv]
      exact W_scan_same.symm)).2.1

theorem W_rsetting : C13Cmd.RSetting W [] I F [itNew] := by
  refine Proofs.C13Cmd.plain_rsetting W [] T [itNew] (by decide) (Proofs.C13CmdEx.goodNames_of_dec (by decide +kernel))
    (plain_of_check (by decide +kernel)) (plain_of_check (by decide +kernel))
    (fun it hit => ?_) (fun it hit => ?_) (fun it hit => ?_) (fun it hit => ?_) (fun it hit => ?_) (fun it hit => ?_)
    (List.pairwise_singleton _ _)
  all_goals rw [List.mem_singleton.1 hit]
  · decide +kernel
  · decide +kernel
  · rw [tStr]; decide +kernel
  · decide +kernel
  · exact ⟨Proofs.C13CmdEx.goodNames_of_dec (by decide +kernel), plain_of_check (by decide +kernel)⟩
  · decide +kernel

theorem W_reply_1 : parseIndexes (b "1") (C13Cmd.offered W rc op).length = .ok [1] ∧
    C13Cmd.selected (C13Cmd.offered W rc op) [1] = [itNew].map (·.e) := by rw [W_offered]; decide +kernel

/-- `trash-restore /` answered "1": the selection theorem instantiated — `new` is restored … -/
theorem W_restore_theorem :
    (run noFaults (runRestore rc op (some (b "1"))) { fs := W }).1.exit = 0 ∧
    (run noFaults (runRestore rc op (some (b "1"))) { fs := W }).1.crash = none ∧
    C13Cmd.RestoredExactly W (run noFaults (runRestore rc op (some (b "1"))) { fs := W }).2.fs I F [itNew] :=
  Proofs.C13Cmd.restore_selects_exactly W rc op (b "1") I F [1] [itNew] W_reply_1.1 W_reply_1.2 W_rsetting

/-- … and evaluated: `/m/new` is back, its payload and info file are gone; `old` and the four
    neighbours are what they were -/
theorem W_restore_run :
    (Proofs.C02CmdEx.restoreS rc op (b "1") W).1.exit = 0 ∧
    (Proofs.C02CmdEx.restoreS rc op (b "1") W).2.fs.get [b "m", b "new"] = some (.file [121] 0o644 3) ∧
    (Proofs.C02CmdEx.restoreS rc op (b "1") W).2.fs.get (I ++ [newN]) = none ∧
    (Proofs.C02CmdEx.restoreS rc op (b "1") W).2.fs.get (F ++ [b "new"]) = none ∧
    (Proofs.C02CmdEx.restoreS rc op (b "1") W).2.fs.get (I ++ [oldN]) = W.get (I ++ [oldN]) ∧
    (Proofs.C02CmdEx.restoreS rc op (b "1") W).2.fs.get (F ++ [b "old", b "x"]) = W.get (F ++ [b "old", b "x"]) ∧
    (Proofs.C02CmdEx.restoreS rc op (b "1") W).2.fs.get (I ++ [emptyN]) = W.get (I ++ [emptyN]) ∧
    (Proofs.C02CmdEx.restoreS rc op (b "1") W).2.fs.get (I ++ [nopathN]) = W.get (I ++ [nopathN]) ∧
    (Proofs.C02CmdEx.restoreS rc op (b "1") W).2.fs.get (I ++ [utf8N]) = W.get (I ++ [utf8N]) ∧
    (Proofs.C02CmdEx.restoreS rc op (b "1") W).2.fs.get (I ++ [dirI]) = W.get (I ++ [dirI]) ∧
    (Proofs.C02CmdEx.restoreS rc op (b "1") W).2.fs.get (F ++ [b "empty"]) = W.get (F ++ [b "empty"]) := by
  decide +kernel

/-! #### C20 on the entry `old` -/

theorem W_old_text : contentsOf W rc.cwd (infoStr t oldN) = some oldText ∧ parsePath oldText = some (b "old") ∧
    parseDeletionDate oldText = some ⟨2020, 1, 1, 0, 0, 0⟩ := by
  rw [contentsOf_eq]; decide +kernel

theorem W_setting' : Setting W rc.cwd t I F ((infoNames W I).filter isTrashinfoName) := by
  rw [W_names]; exact W_setting _

/-- every hypothesis of `commands_agree_on_entry` holds for the entry `old` of the demo directory; its
    conclusion, read off: the line trash-list prints, the entry trash-restore offers, trash-rm 'o*'
    and trash-empty 1 purging it -/
theorem W_agree :
    listOne W [] v (infoStr t oldN) = .stdout (b "2020-01-01 00:00:00 /m/old") ∧
    scannedEntry t v oldN oldText (b "old") = eOld ∧ eOld ∈ C13Cmd.offered W rc op ∧
    EntryGone (run noFaults (rmDirs [] (b "o*") [(t, v)]) { fs := W }).2.fs I F oldN ∧
    EntryGone (run noFaults (emptyInfos [] o1 (infoStrs t names)) { fs := W }).2.fs I F oldN := by
  have h := Proofs.C20Cmd.commands_agree_on_entry W rc t v I F oldN oldText (b "old") (by decide +kernel)
    W_scan_found W_resolves W_setting' (by rw [W_names]; decide +kernel) W_old_text.1 W_old_text.2.1
  obtain ⟨_, hl, hr, hm, he⟩ := h
  have e1 : listDate oldText ++ [32] ++ pjoin v (b "old") = b "2020-01-01 00:00:00 /m/old" := by decide +kernel
  have e2 : scannedEntry t v oldN oldText (b "old") = eOld := by decide +kernel
  refine ⟨by rw [← e1]; exact hl.1, e2, ?_, ?_, ?_⟩
  · rw [← e2]; exact (hr op rfl).2.1 (by decide +kernel)
  · exact ((hm (b "o*")).2 (by decide +kernel)).2.1 (by decide +kernel)
  · have := ((he o1 1 rfl).2 rfl (by decide +kernel) (by decide +kernel) (by decide +kernel)).2.1
      ⟨_, W_old_text.2.2, by decide +kernel⟩
    rw [W_names] at this
    exact this

end Demo

/-! ### what "malformed" means is per command; and the hypotheses matter -/

namespace Cex
open Demo (dirN T I F t v o1 tStr)
open TrashVerif.Proofs.C10LoopEx (hyps_of_check)

def datedN : Bytes := b "dated.trashinfo"
def undN : Bytes := b "und.trashinfo"

/-- `dated` has no `Path=` line but a valid old date; `und` has a `Path=` line and no date -/
def WO : FS := FS.ofList [
  ([], dirN), ([b "m"], dirN), (T, .dir 0o700 7), (I, dirN), (F, dirN),
  (I ++ [datedN], .file (b "[Trash Info]\nDeletionDate=2020-01-01T00:00:00\n") 0o600 3),
  (I ++ [undN], .file (b "[Trash Info]\nPath=und\n") 0o600 3),
  (F ++ [b "dated"], .file [100] 0o644 3), (F ++ [b "und"], .file [117] 0o644 3)] [[], [b "m"]]

/-- `trash-empty 1000000000`: now − DAYS days is not representable -/
def oBig : EmptyOpts := { days := some 1000000000, now := ⟨2024, 3, 2, 0, 0, 0⟩ }

theorem WO_setting (cwd : CPath) : Setting WO cwd t I F [datedN, undN] := by
  rw [← tStr]
  exact setting_of_check cwd (Proofs.C09Hist.domwf_ofList _ _) (by decide +kernel)

/-- "Malformed" is per command.  In `WO` the neighbour `dated` (no `Path=` line, a valid date of 2020)
    is malformed for trash-list ("parse-error"), trash-restore (no entry) and trash-rm ("unparsable") —
    and perfectly well-formed for `trash-empty 1`, which PURGES it (info file and payload), while
    keeping the undated `und`.  So for trash-empty DAYS the neighbours that do not matter are those
    without a valid date, not those without a `Path=` line. -/
theorem pathless_dated_neighbour_is_purged :
    listOne WO [] v (infoStr t datedN) = .stderr "parse-error" (infoStr t datedN) ∧
    restoreItem WO [] (pjoin t (b "info")) v datedN = none ∧
    rmUnparsable WO [] (infoStr t datedN) = true ∧
    okToDelete WO [] o1 (infoStr t datedN) = .delete ∧
    emptySelected WO [] o1 t [datedN, undN] = [datedN] ∧
    (run noFaults (emptyInfos [] o1 (infoStrs t [datedN, undN])) { fs := WO }).1 = none ∧
    (run noFaults (emptyInfos [] o1 (infoStrs t [datedN, undN])) { fs := WO }).2.fs.get (I ++ [datedN]) = none ∧
    (run noFaults (emptyInfos [] o1 (infoStrs t [datedN, undN])) { fs := WO }).2.fs.get (F ++ [b "dated"]) = none ∧
    (run noFaults (emptyInfos [] o1 (infoStrs t [datedN, undN])) { fs := WO }).2.fs.get (I ++ [undN]) = WO.get (I ++ [undN]) := by
  refine ⟨?_, ?_, ?_, ?_, ?_, ?_⟩
  · rw [Proofs.C08CmdEval.listOne_eq]; decide +kernel
  · unfold restoreItem; simp only [contentsOf_eq]; decide +kernel
  · unfold rmUnparsable; simp only [contentsOf_eq]; decide +kernel
  · rw [Proofs.C10LoopEval.okToDelete_eq]; decide +kernel
  · unfold emptySelected; simp only [Proofs.C10LoopEval.okToDelete_eq]; decide +kernel
  · rw [Proofs.C10LoopEval.emptyInfos_eq]; decide +kernel

/-- In `empty_neighbours_do_not_matter` the hypothesis "the dropped names are KEPT" cannot be weakened to
    "the dropped names have no `Path=` line" — the DAYS overflow.  In `WO` with `trash-empty 1000000000`
    (now − DAYS days is not representable) the setting holds, the run over the well-formed `und` alone
    does not crash (it is undated: kept), but with the pathless neighbour `dated` in the listing the
    loop meets a valid date first and stops with the OverflowError traceback. -/
theorem dated_neighbour_overflow_counterexample :
    Setting WO [] t I F [datedN, undN] ∧ [undN].Sublist [datedN, undN] ∧
    rmUnparsable WO [] (infoStr t datedN) = true ∧
    okToDelete WO [] oBig (infoStr t datedN) = .crash .overflow ∧
    (run noFaults (emptyInfos [] oBig (infoStrs t [undN])) { fs := WO }).1 = none ∧
    (run noFaults (emptyInfos [] oBig (infoStrs t [datedN, undN])) { fs := WO }).1 = some .overflow := by
  refine ⟨WO_setting [], by decide +kernel, ?_, ?_, ?_, ?_⟩
  · unfold rmUnparsable; simp only [contentsOf_eq]; decide +kernel
  · rw [Proofs.C10LoopEval.okToDelete_eq]; decide +kernel
  · rw [Proofs.C10LoopEval.emptyInfos_eq]; decide +kernel
  · rw [Proofs.C10LoopEval.emptyInfos_eq]; decide +kernel

def aN : Bytes := b "a.trashinfo"
def zN : Bytes := b "z.trashinfo"

/-- the entry `a` with the given date, and the neighbour `z.trashinfo`, a symbolic link to `a.trashinfo` -/
def WS (date : String) : FS := FS.ofList [
  ([], dirN), ([b "m"], dirN), (T, .dir 0o700 7), (I, dirN), (F, dirN),
  (I ++ [aN], .file (b ("[Trash Info]\nPath=a\nDeletionDate=" ++ date ++ "\n")) 0o600 3),
  (I ++ [zN], .link aN),
  (F ++ [b "a"], .file [97] 0o644 3), (F ++ [b "z"], .file [122] 0o644 3)] [[], [b "m"]]

def WSold : FS := WS "2020-01-01T00:00:00"
def WSnew : FS := WS "2024-03-01T12:00:00"

/-- Without `Setting.notLink` an entry's fate is NOT decided by its own info file only
    (`decisions_read_own_info_only` is false).  `WSold` and `WSnew` differ in the date recorded in
    `info/a.trashinfo` only; the neighbour `info/z.trashinfo` is the same node in both — a symbolic link to
    `a.trashinfo`; every other hypothesis of `plain_setting` holds in both.  Yet the decision of
    `trash-empty 1` about `z` differs; and in the whole pass over the directory (`emptyDirs`: the loop,
    then the orphans) the payload `files/z` is REMOVED in `WSold` — `a` is purged, the link dangles, `z` is
    "unreadable" and kept, and then `files/z` counts as an orphan — and kept in `WSnew`. -/
theorem symlink_neighbour_counterexample :
    WSold.get (I ++ [zN]) = WSnew.get (I ++ [zN]) ∧ WSold.isLinkAt (I ++ [zN]) = true ∧
    PlainHyps WSold T [aN, zN] ∧ (∀ m ∈ [aN, zN], TreeOk WSold (T ++ [b "files"] ++ [stemOf m])) ∧
    PlainHyps WSnew T [aN, zN] ∧ (∀ m ∈ [aN, zN], TreeOk WSnew (T ++ [b "files"] ++ [stemOf m])) ∧
    okToDelete WSold [] o1 (infoStr t zN) = .delete ∧ okToDelete WSnew [] o1 (infoStr t zN) = .keep ∧
    (run noFaults (emptyDirs [] o1 [(t, v)]) { fs := WSold }).2.fs.get (F ++ [b "z"]) = none ∧
    (run noFaults (emptyDirs [] o1 [(t, v)]) { fs := WSold }).2.fs.get (I ++ [zN]) = some (.link aN) ∧
    (run noFaults (emptyDirs [] o1 [(t, v)]) { fs := WSnew }).2.fs.get (F ++ [b "z"]) = some (.file [122] 0o644 3) := by
  obtain ⟨h1, _, h3, _⟩ := hyps_of_check (fs := WSold) (T := T) (names := [aN, zN]) (links := true) (mounts := false)
    (Proofs.C09Hist.domwf_ofList _ _) (by decide +kernel)
  obtain ⟨k1, _, k3, _⟩ := hyps_of_check (fs := WSnew) (T := T) (names := [aN, zN]) (links := true) (mounts := false)
    (Proofs.C09Hist.domwf_ofList _ _) (by decide +kernel)
  refine ⟨by decide +kernel, by decide +kernel, h1, h3 rfl, k1, k3 rfl, ?_, ?_, ?_, ?_, ?_⟩
  · rw [Proofs.C10LoopEval.okToDelete_eq]; decide +kernel
  · rw [Proofs.C10LoopEval.okToDelete_eq]; decide +kernel
  · rw [Proofs.C08CmdEval.emptyDirs_eq]; decide +kernel
  · rw [Proofs.C08CmdEval.emptyDirs_eq]; decide +kernel
  · rw [Proofs.C08CmdEval.emptyDirs_eq]; decide +kernel

/-- A neighbour named `<good>.trashinfo.trashinfo` shares no payload with `<good>.trashinfo`: its payload is
    `files/<good>.trashinfo`.  In general two distinct `*.trashinfo` names have distinct payload names. -/
theorem double_suffix_shares_no_payload :
    (∀ n d : Bytes, isTrashinfoName n = true → isTrashinfoName d = true → n ≠ d → stemOf n ≠ stemOf d) ∧
    isTrashinfoName (b "a.trashinfo.trashinfo") = true ∧
    stemOf (b "a.trashinfo.trashinfo") = b "a.trashinfo" ∧ stemOf (b "a.trashinfo") = b "a" ∧
    pathOfBackupCopy (infoStr t (b "a.trashinfo.trashinfo")) = b "/m/.Trash-1000/files/a.trashinfo" ∧
    pathOfBackupCopy (infoStr t (b "a.trashinfo")) = b "/m/.Trash-1000/files/a" :=
  ⟨fun _ _ hn hd hne h => hne (Proofs.C10Loop.stem_inj hn hd h), by decide +kernel, by decide +kernel, by decide +kernel,
   by decide +kernel, by decide +kernel⟩

/-- `/n/.Trash-1000` exists; `/n` is listed in TRASH_VOLUMES but is not among the mount points -/
def WV : FS := FS.ofList [([], dirN), ([b "n"], dirN), ([b "n", b ".Trash-1000"], dirN)] [[]]
def rcV : ReadCfg := { cwd := [], env := { trashVolumes := some (b "/n") }, uid := 1000, mountPoints := [] }

/-- In `commands_agree_on_entry` (and C20 `bases_agree`) the hypothesis `listVolumes c = c.mountPoints` is
    needed: TRASH_VOLUMES is consulted by the scanner of trash-list / trash-empty / trash-rm only.  With
    TRASH_VOLUMES=/n, `/n/.Trash-1000` is found by that scanner and is NOT among trash-restore's directories:
    its entries are listed, can be purged, and are never offered for restoring. -/
theorem volumes_must_agree_counterexample :
    listVolumes rcV ≠ rcV.mountPoints ∧
    (b "/n/.Trash-1000", b "/n") ∈ foundDirs (scanTrashDirs WV rcV) ∧
    (b "/n/.Trash-1000", b "/n") ∉ restoreTrashDirs WV rcV none := by
  refine ⟨by decide +kernel, ?_, ?_⟩
  · rw [Proofs.C08CmdEval.scanTrashDirs_eq]; decide +kernel
  · rw [restoreTrashDirs_eq]; decide +kernel

end Cex
end TrashVerif.Proofs.C19CmdEx
